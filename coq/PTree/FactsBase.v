(* PTree/FactsBase.v -- the laws for PrefixTree1 (a WBTreeSet), and its restriction methods
   (whose restrictions are PrefixTree0 values). *)

From Coq Require Import NArith List Lia Bool Sorted.
From PTree Require Import WBT_Model WBT_Spec WBT_FactsList WBT_FactsInv Model Spec FactsLex FactsMap
  FactsLevel.
Import ListNotations.
Open Scope N_scope.

Implicit Types (s : wbset) (k : N).

Lemma In_iter1 s y :
  Inv_map s -> (In y (o_iter ops1 s) <-> exists k, y = [k] /\ get k s = Some tt).
Proof.
  intros Hs. cbn [ops1 o_iter]. unfold ws_iter. rewrite in_map_iff. split.
  - intros (x & <- & Hx). apply in_map_iff in Hx. destruct Hx as ([k u] & <- & Hin).
    destruct u. exists k. split; [reflexivity|]. apply In_iter_get; assumption.
  - intros (k & -> & Hg). exists k. split; [reflexivity|]. apply in_map_iff.
    exists (k, tt). split; [reflexivity|]. apply In_iter_get; assumption.
Qed.

Lemma get_unit s k : get k s = Some tt \/ get k s = None.
Proof. destruct (get k s) as [[]|]; auto. Qed.

Lemma lsorted_singletons (l : list N) :
  StronglySorted N.lt l -> lsorted (map (fun x => [x]) l).
Proof.
  induction l as [|x l IH]; intros H; cbn [map]; [constructor|].
  inversion H as [|? ? Hs Hf]; subst. constructor; [apply IH, Hs|].
  rewrite Forall_forall in *. intros y Hy. apply in_map_iff in Hy. destruct Hy as (z & <- & Hz).
  apply lex_lt_cons_lt. apply Hf, Hz.
Qed.

Lemma len1 (x : tuple) : length x = 1%nat -> exists k, x = [k].
Proof. destruct x as [|k [|? ?]]; try discriminate. intros _. exists k. reflexivity. Qed.

(* every PrefixTree2 satisfying PInv has non-empty restrictions, so the `expect` in
   PrefixTree1::mapped never fires *)
Lemma map_ok_first mp k r :
  PInv 2 mp -> get k mp = Some r -> exists v, ws_first r = Some v.
Proof.
  intros Hp Hg. change (inv_lvl Inv_map (o_is_empty ops1) mp) in Hp.
  apply (invL_iff ops1 Inv_map) in Hp. destruct Hp as (_ & Hp).
  destruct (Hp k r Hg) as (Hr & He). cbn [ops1 o_is_empty] in He. unfold ws_is_empty in He.
  unfold ws_first. destruct (iter r) as [|[v u] l] eqn:E.
  - apply (is_empty_iter r Hr) in E. congruence.
  - exists v. reflexivity.
Qed.

Lemma map_tuple1 maps k :
  map_tuple maps [k] = match map_col (hd None maps) k with Some k' => Some [k'] | None => None end.
Proof. cbn [map_tuple]. destruct (map_col (hd None maps) k); reflexivity. Qed.

Lemma mapped1_fold mp (l : list N) res :
  PInv 2 mp -> Inv_map res ->
  exists res', fold_left (mapped1_step mp) l (Some res) = Some res' /\ Inv_map res' /\
    forall k', get k' res' = Some tt <->
               get k' res = Some tt \/ exists el, In el l /\ first_val mp el = Some k'.
Proof.
  intros Hmp. revert res. induction l as [|el l IH]; intros res Hres; cbn [fold_left].
  - exists res. split; [reflexivity|]. split; [exact Hres|]. intros k'. split; [auto|].
    intros [H|(el & [] & _)]. exact H.
  - assert (Hstep : exists res1, mapped1_step mp (Some res) el = Some res1 /\ Inv_map res1 /\
              forall k', get k' res1 = Some tt <-> get k' res = Some tt \/ first_val mp el = Some k').
    { unfold mapped1_step, first_val. destruct (@get pt1 el mp) as [r|] eqn:Hg; cbv beta iota.
      - destruct (map_ok_first mp el r Hmp Hg) as (v & ->).
        unfold ws_insert. destruct (insert_get v tt res Hres) as (Hi & _ & Hk).
        destruct (insert v tt res) as [res1 old]. cbn [fst] in *.
        exists res1. split; [reflexivity|]. split; [exact Hi|].
        intros k'. rewrite Hk. destruct (N.eqb_spec k' v) as [Heq|Hne]; [subst k'|].
        + split; [intros _; right; reflexivity|reflexivity].
        + split; [auto|]. intros [H|[= E]]; [exact H|]. congruence.
      - exists res. split; [reflexivity|]. split; [exact Hres|].
        intros k'. split; [auto|]. intros [H|H]; [exact H|discriminate]. }
    destruct Hstep as (res1 & -> & Hres1 & Hk1).
    destruct (IH res1 Hres1) as (res' & Hf & Hres' & Hk').
    exists res'. split; [exact Hf|]. split; [exact Hres'|].
    intros k'. rewrite Hk', Hk1. split.
    + intros [[H|H]|(el' & Hin & H)]; [left; exact H|right; exists el; split; [left; reflexivity|exact H]|].
      right. exists el'. split; [right; exact Hin|exact H].
    + intros [H|(el' & [<-|Hin] & H)]; [left; left; exact H|left; right; exact H|].
      right. exists el'. auto.
Qed.

Lemma laws1 : laws 1 ops1 Inv_map.
Proof.
  constructor.
  - intros s x Hs Hx. apply (In_iter1 s x Hs) in Hx. destruct Hx as (k & -> & _). reflexivity.
  - intros s Hs. cbn [ops1 o_iter]. apply lsorted_singletons. apply iter_sorted, Hs.
  - apply Inv_map_empty.
  - reflexivity.
  - intros s Hs. cbn [ops1 o_is_empty o_iter]. unfold ws_is_empty, ws_iter.
    rewrite (is_empty_iter s Hs). split.
    + intros ->. reflexivity.
    + intros H. apply map_eq_nil in H. apply map_eq_nil in H. exact H.
  - intros s x Hs Hx. destruct (len1 x Hx) as (el0 & ->). rewrite (In_iter1 s _ Hs).
    cbn [ops1 o_contains]. unfold ws_contains. rewrite contains_key_get. split.
    + intros H. exists el0. split; [reflexivity|]. destruct (get_unit s el0) as [E|E]; [exact E|].
      rewrite E in H. discriminate.
    + intros (k & [= ->] & Hg). rewrite Hg. reflexivity.
  - intros s x Hs Hx. destruct (len1 x Hx) as (el0 & ->).
    cbn [ops1 o_insert o_contains]. unfold ws_insert, ws_contains. rewrite contains_key_get.
    destruct (insert_get el0 tt s Hs) as (Hi & Ho & Hk).
    destruct (insert el0 tt s) as [s' old]. cbn [fst snd] in *.
    exists s'. split; [rewrite Ho; destruct (get el0 s); reflexivity|]. split; [exact Hi|].
    intros y. rewrite (In_iter1 s' y Hi), (In_iter1 s y Hs). split.
    + intros (k & -> & Hg). rewrite Hk in Hg. destruct (N.eqb_spec k el0) as [Heq|Hne]; [subst k|].
      * left; reflexivity.
      * right. exists k. auto.
    + intros [->|(k & -> & Hg)].
      * exists el0. split; [reflexivity|]. rewrite Hk, N.eqb_refl. reflexivity.
      * exists k. split; [reflexivity|]. rewrite Hk. destruct (k =? el0); [reflexivity|exact Hg].
  - intros s x Hs Hx. destruct (len1 x Hx) as (el0 & ->).
    cbn [ops1 o_remove o_contains]. unfold ws_remove, ws_contains. rewrite contains_key_get.
    destruct (remove_get el0 s Hs) as (s' & -> & Hi & Hk).
    exists s'. split; [destruct (get el0 s); reflexivity|]. split; [exact Hi|].
    intros y. rewrite (In_iter1 s' y Hi), (In_iter1 s y Hs). split.
    + intros (k & -> & Hg). rewrite Hk in Hg. destruct (N.eqb_spec k el0) as [Heq|Hne]; [subst k|]; [discriminate|].
      split; [intros [= E]; contradiction|exists k; auto].
    + intros (Hne & k & -> & Hg). exists k. split; [reflexivity|]. rewrite Hk.
      destruct (N.eqb_spec k el0) as [Heq|Hne']; [subst k|]; [exfalso; apply Hne; reflexivity|exact Hg].
  - intros s. split; [apply Inv_map_empty|reflexivity].
  - intros s1 s2 H1 H2. cbn [ops1 o_union]. unfold ws_union.
    destruct (union_tot_get (fun _ _ _ => tt) s1 s2 H1 H2) as (Hu & Hg).
    split; [exact Hu|]. intros y.
    rewrite (In_iter1 _ y Hu), (In_iter1 s1 y H1), (In_iter1 s2 y H2). split.
    + intros (k & -> & Hk). rewrite Hg in Hk. unfold union_law in Hk.
      destruct (get_unit s1 k) as [E1|E1]; [left; exists k; auto|].
      destruct (get_unit s2 k) as [E2|E2]; [right; exists k; auto|].
      rewrite E1, E2 in Hk. discriminate.
    + intros [(k & -> & Hk)|(k & -> & Hk)]; exists k; (split; [reflexivity|]); rewrite Hg, Hk;
        unfold union_law.
      * destruct (get k s2); reflexivity.
      * destruct (get k s1) as [[]|]; reflexivity.
  - intros s1 s2 H1 H2. cbn [ops1 o_difference]. unfold ws_difference.
    destruct (difference_tot_get (fun _ _ _ => None) s1 s2 H1 H2) as (Hu & Hg).
    split; [exact Hu|]. intros y.
    rewrite (In_iter1 _ y Hu), (In_iter1 s1 y H1), (In_iter1 s2 y H2). split.
    + intros (k & -> & Hk). rewrite Hg in Hk. unfold difference_law in Hk.
      destruct (get k s1) as [[]|] eqn:E1; [|discriminate].
      destruct (get k s2) as [[]|] eqn:E2; [discriminate|].
      split; [exists k; auto|]. intros (k' & [= <-] & E). congruence.
    + intros ((k & -> & Hk) & Hn). exists k. split; [reflexivity|]. rewrite Hg, Hk.
      unfold difference_law. destruct (get_unit s2 k) as [E2|E2]; rewrite E2; [|reflexivity].
      exfalso. apply Hn. exists k. auto.
  - intros s maps Hs Hmaps. cbn [ops1 o_mapped].
    destruct (hd None maps) as [mp|] eqn:Hhd.
    + assert (Hmp : PInv 2 mp).
      { destruct maps as [|om maps']; [discriminate|]. cbn [hd] in Hhd. subst om.
        inversion Hmaps; subst. assumption. }
      destruct (mapped1_fold mp (ws_iter s) empty Hmp Inv_map_empty) as (res & Hf & Hres & Hk).
      exists res. split; [exact Hf|]. split; [exact Hres|].
      intros y. rewrite (In_iter1 res y Hres). split.
      * intros (k' & -> & Hg). apply Hk in Hg. destruct Hg as [Hg|(el & Hin & Hfv)]; [discriminate|].
        exists [el]. split; [cbn [ops1 o_iter]; apply in_map_iff; exists el; auto|].
        rewrite map_tuple1, Hhd. cbn [map_col]. rewrite Hfv. reflexivity.
      * intros (x & Hx & Hmx). apply (In_iter1 s x Hs) in Hx. destruct Hx as (el & -> & Hg).
        rewrite map_tuple1, Hhd in Hmx. cbn [map_col] in Hmx.
        destruct (first_val mp el) as [k'|] eqn:Hfv; [|discriminate]. injection Hmx as <-.
        exists k'. split; [reflexivity|]. apply Hk. right. exists el. split; [|exact Hfv].
        unfold ws_iter. apply in_map_iff. exists (el, tt). split; [reflexivity|].
        apply In_iter_get; assumption.
    + exists s. split; [reflexivity|]. split; [exact Hs|].
      intros y. rewrite (In_iter1 s y Hs). split.
      * intros (k & -> & Hg). exists [k]. split; [apply In_iter1; [exact Hs|exists k; auto]|].
        rewrite map_tuple1, Hhd. reflexivity.
      * intros (x & Hx & Hmx). apply (In_iter1 s x Hs) in Hx. destruct Hx as (el & -> & Hg).
        rewrite map_tuple1, Hhd in Hmx. cbn [map_col] in Hmx. injection Hmx as <-. exists el. auto.
Qed.

(* ---------- restriction methods of PrefixTree1 ---------- *)

Lemma iter0 (b : bool) r0 : In r0 (o_iter ops0 b) <-> b = true /\ r0 = [].
Proof. destruct b; cbn; intuition congruence. Qed.

Lemma insert_restriction1_spec s k (b : bool) :
  Inv_map s ->
  exists s', insert_restriction1 s k b = Some s' /\ Inv_map s' /\
             forall y, In y (o_iter ops1 s') <->
                       In y (o_iter ops1 s) \/ exists r0, y = k :: r0 /\ In r0 (o_iter ops0 b).
Proof.
  intros Hs. unfold insert_restriction1. destruct b; cbn [negb].
  - unfold ws_insert. destruct (insert_get k tt s Hs) as (Hi & _ & Hk).
    destruct (insert k tt s) as [s' old]. cbn [fst] in *.
    exists s'. split; [reflexivity|]. split; [exact Hi|].
    intros y. rewrite (In_iter1 s' y Hi), (In_iter1 s y Hs). split.
    + intros (k' & -> & Hg). rewrite Hk in Hg. destruct (N.eqb_spec k' k) as [Heq|Hne]; [subst k'|].
      * right. exists []. split; [reflexivity|]. apply iter0. auto.
      * left. exists k'. auto.
    + intros [(k' & -> & Hg)|(r0 & -> & Hr0)].
      * exists k'. split; [reflexivity|]. rewrite Hk. destruct (k' =? k); [reflexivity|exact Hg].
      * apply iter0 in Hr0. destruct Hr0 as (_ & ->). exists k. split; [reflexivity|].
        rewrite Hk, N.eqb_refl. reflexivity.
  - exists s. split; [reflexivity|]. split; [exact Hs|]. intros y. split; [auto|].
    intros [H|(r0 & _ & Hr0)]; [exact H|]. apply iter0 in Hr0. destruct Hr0 as (E & _). discriminate.
Qed.

Lemma remove_restriction1_spec s k (b : bool) :
  Inv_map s ->
  exists s', remove_restriction1 s k b = Some s' /\ Inv_map s' /\
             forall y, In y (o_iter ops1 s') <->
                       In y (o_iter ops1 s) /\ ~ exists r0, y = k :: r0 /\ In r0 (o_iter ops0 b).
Proof.
  intros Hs. unfold remove_restriction1. destruct b; cbn [negb].
  - unfold ws_remove. destruct (remove_get k s Hs) as (s' & -> & Hi & Hk).
    exists s'. split; [reflexivity|]. split; [exact Hi|].
    intros y. rewrite (In_iter1 s' y Hi), (In_iter1 s y Hs). split.
    + intros (k' & -> & Hg). rewrite Hk in Hg. destruct (N.eqb_spec k' k) as [Heq|Hne]; [subst k'|]; [discriminate|].
      split; [exists k'; auto|]. intros (r0 & [= E _] & _). contradiction.
    + intros ((k' & -> & Hg) & Hn). exists k'. split; [reflexivity|]. rewrite Hk.
      destruct (N.eqb_spec k' k) as [Heq|Hne]; [subst k'|]; [|exact Hg].
      exfalso. apply Hn. exists []. split; [reflexivity|]. apply iter0. auto.
  - exists s. split; [reflexivity|]. split; [exact Hs|]. intros y. split; [|tauto].
    intros H. split; [exact H|]. intros (r0 & _ & Hr0). apply iter0 in Hr0. destruct Hr0 as (E & _).
    discriminate.
Qed.

Lemma get1_some s k (b : bool) :
  Inv_map s -> get1 s k = Some b ->
  o_is_empty ops0 b = false /\ forall r0, In r0 (o_iter ops0 b) <-> In (k :: r0) (o_iter ops1 s).
Proof.
  intros Hs. unfold get1, ws_contains. rewrite contains_key_get.
  destruct (get_unit s k) as [E|E]; rewrite E; [|discriminate]. intros [= <-].
  split; [reflexivity|]. intros r0. rewrite iter0, (In_iter1 s _ Hs). split.
  - intros (_ & ->). exists k. auto.
  - intros (k' & [= -> ->] & _). auto.
Qed.

Lemma get1_none s k :
  Inv_map s -> get1 s k = None -> forall r0, ~ In (k :: r0) (o_iter ops1 s).
Proof.
  intros Hs. unfold get1, ws_contains. rewrite contains_key_get.
  destruct (get k s) as [u|] eqn:E; [discriminate|]. intros _ r0 Hin.
  apply (In_iter1 s _ Hs) in Hin. destruct Hin as (k' & [= -> ->] & Hg). congruence.
Qed.

Lemma iter_restrictions1_spec s :
  Inv_map s ->
  o_iter ops1 s = flat_map (fun kr => prefix (fst kr) (o_iter ops0 (snd kr))) (iter_restrictions1 s) /\
  StronglySorted N.lt (map fst (iter_restrictions1 s)) /\
  forall k (b : bool), In (k, b) (iter_restrictions1 s) <-> get1 s k = Some b.
Proof.
  intros Hs. unfold iter_restrictions1. split; [|split].
  - cbn [ops1 o_iter]. induction (ws_iter s) as [|x l IH]; [reflexivity|].
    cbn [map flat_map fst snd prefix ops0 o_iter app]. exact (f_equal (cons [x]) IH).
  - rewrite map_map. cbn [fst]. rewrite map_id. apply iter_sorted, Hs.
  - intros k b. rewrite in_map_iff. unfold get1, ws_contains, ws_iter. rewrite contains_key_get. split.
    + intros (x & [= <- <-] & Hx). apply in_map_iff in Hx. destruct Hx as ([k' u] & <- & Hin).
      apply (In_iter_get s k' u Hs) in Hin. cbn [fst]. rewrite Hin. reflexivity.
    + destruct (get_unit s k) as [E|E]; rewrite E; [|discriminate]. intros [= <-].
      exists k. split; [reflexivity|]. apply in_map_iff. exists (k, tt). split; [reflexivity|].
      apply In_iter_get; assumption.
Qed.
