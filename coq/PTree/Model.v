(* PTree/Model.v -- executable Gallina model of eqlog-runtime/src/prefix_tree.rs at HEAD (after
   the repair: `remove_restriction` prunes an emptied subtree, `insert_restriction` ignores an
   empty restriction).  NO proofs in this file (Definitions / Fixpoints only).

   Faithfulness contract
   ---------------------
   * The nine copy-pasted arities are ONE template; the model is generic in the arity:
        ptree 0 = bool                      PrefixTree0(Option<()>)       true = Some(())
        ptree 1 = wbmap unit                PrefixTree1 { set: WBTreeSet }  (WBTreeSet = WBTreeMap<()>)
        ptree (S (S n)) = wbmap (ptree (S n))   PrefixTreeK { map: WBTreeMap<PrefixTree(K-1)> }
     over the C14 tree model WBT_Model.v (a verbatim copy of coq/WBT/Model.v).  That the nine
     Rust blocks really are instances of one template is checked textually by checks/c08.py.
   * The methods of one arity are collected in a dictionary `ops T`; `ops0` / `ops1` are the
     base cases (PrefixTree0 / PrefixTree1), `ops_lvl sub` is the template for K >= 2 written
     over an arbitrary value type V with dictionary `sub` (= the methods of PrefixTree(K-1)),
     and `pt_ops n` ties the knot by recursion on n.  Every field has the case structure of the
     Rust method: entry API usage (`entry_of` / `or_insert_with` / `occ_get_mut` / `occ_remove`
     / `vac_insert` of WBT_Model), a write through a `&mut V` is `modify key`, prune-on-empty in
     `remove` and `remove_restriction`, `union` / `difference` through WBTreeMap::union /
     difference with exactly the callbacks the Rust code passes, `mapped` as written: iterate,
     map the first column through the optional PrefixTree2 taking the FIRST value of the key,
     recurse, `insert_restriction` into the result.
   * Tuples `[u32; K]` are `list N`; a list of the wrong length is a type error in Rust and
     yields `None` (bool-valued methods: `false`) here.  Theorems assume the right length.
   * `None` = the Rust code would panic (`unwrap`/`expect`), or the copied tree model ran out of
     fuel.  FactsOps.v proves that this never happens on trees satisfying PInv.
     WBTreeMap::union / difference are used inside *callbacks*, which have to be total; the
     copied library proves UNCONDITIONALLY (WBT_FactsOrder.union_t_total / difference_t_total)
     that their `None` never occurs, so `union_tot` / `difference_tot` below strip the option;
     their default branch is dead code (FactsMap.union_tot_some / difference_tot_some).
   * Rc sharing is invisible in a value-semantics model: a clone is a copy (as in coq/WBT).

   NOT modelled: `get_mut` and `iter_restrictions_mut` (property C08 does not list them; the
   source comment at prefix_tree.rs:1028 says they can break the no-empty-subtree invariant);
   `empty()` is `o_new` (a shared static empty tree; value semantics). *)

From Coq Require Import NArith List Bool.
From PTree Require Import WBT_Model.
Import ListNotations.
Open Scope N_scope.

Definition tuple : Type := list N.

(* ------------------------------------------------------------------ *)
(* WBTreeSet (wbtree/set.rs) = WBTreeMap<()>                            *)

Definition wbset : Type := wbmap unit.

Definition union_tot {V} (f : N -> V -> V -> V) (a b : wbmap V) : wbmap V :=
  match union f a b with Some m => m | None => a end.
Definition difference_tot {V} (g : N -> V -> V -> option V) (a b : wbmap V) : wbmap V :=
  match difference g a b with Some m => m | None => a end.

(* set.rs:16  self.map.insert(value, ()).is_none() *)
Definition ws_insert (k : N) (s : wbset) : wbset * bool :=
  let '(s', old) := insert k tt s in
  (s', match old with None => true | Some _ => false end).
(* set.rs:20 *)
Definition ws_contains (k : N) (s : wbset) : bool := contains_key k s.
(* set.rs:24  self.map.remove(value).is_some() *)
Definition ws_remove (k : N) (s : wbset) : option (wbset * bool) :=
  match remove k s with
  | None => None
  | Some (s', old) => Some (s', match old with None => false | Some _ => true end)
  end.
Definition ws_is_empty (s : wbset) : bool := is_empty s.
Definition ws_clear (s : wbset) : wbset := clear s.
Definition ws_iter (s : wbset) : list N := map fst (iter s).
(* set.rs:46 / :52 *)
Definition ws_union (a b : wbset) : wbset := union_tot (fun _ _ _ => tt) a b.
Definition ws_difference (a b : wbset) : wbset := difference_tot (fun _ _ _ => None) a b.

(* restriction.set.iter().next() *)
Definition ws_first (s : wbset) : option N :=
  match iter s with [] => None | (k, _) :: _ => Some k end.

Definition pt1 : Type := wbset.
Definition pt2 : Type := wbmap pt1.          (* PrefixTree2, the type of the column maps *)

(* pre-order shape of a tree with cached sizes (same tokens as coq/WBT/Run.v `shape`) *)
Fixpoint shape {V} (t : tree V) : list N :=
  match t with
  | E => [0]
  | T s l k _ r => 1 :: k :: s :: shape l ++ shape r
  end.

(* ------------------------------------------------------------------ *)
(* the methods of one arity                                             *)

Record ops (T : Type) : Type := mk_ops {
  o_new : T;
  o_is_empty : T -> bool;
  o_insert : T -> tuple -> option (T * bool);
  o_contains : T -> tuple -> bool;
  o_remove : T -> tuple -> option (T * bool);
  o_clear : T -> T;
  o_iter : T -> list tuple;
  o_union : T -> T -> T;
  o_difference : T -> T -> T;
  o_mapped : T -> list (option pt2) -> option T;
  (* observation only: every len field, every tree shape, nested in key order *)
  o_enc : T -> list N
}.
Arguments o_new {T} o.
Arguments o_is_empty {T} o.
Arguments o_insert {T} o.
Arguments o_contains {T} o.
Arguments o_remove {T} o.
Arguments o_clear {T} o.
Arguments o_iter {T} o.
Arguments o_union {T} o.
Arguments o_difference {T} o.
Arguments o_mapped {T} o.
Arguments o_enc {T} o.

(* ---------- PrefixTree0 ---------- *)

Definition ops0 : ops bool := {|
  o_new := false;                                               (* PrefixTree0(None) *)
  o_is_empty := fun b => negb b;                                (* self.0.is_none() *)
  o_insert := fun b x =>                                        (* :362 *)
    match x with [] => Some (true, negb b) | _ :: _ => None end;
  o_contains := fun b x => match x with [] => b | _ :: _ => false end;
  o_remove := fun b x =>                                        (* :524 *)
    match x with [] => Some (false, b) | _ :: _ => None end;
  o_clear := fun _ => false;
  o_iter := fun b => if b then [[]] else [];                    (* self.0.iter().map(|_| []) *)
  o_union := fun a b => orb a b;                                (* self.0.or(other.0) *)
  o_difference := fun a b =>                                    (* :1171 *)
    match a, b with
    | true, true => false
    | true, false => true
    | false, _ => false
    end;
  o_mapped := fun b _ => Some b;                                (* self.clone() *)
  o_enc := fun b => [if b then 1 else 0]
|}.

(* ---------- PrefixTree1 ---------- *)

(* :1460  for el in self.set.iter() { if let Some(restriction) = map.get(el) {
             result.set.insert(restriction.set.iter().next().expect(..)) } } *)
Definition mapped1_step (mp : pt2) (acc : option wbset) (el : N) : option wbset :=
  match acc with
  | None => None
  | Some result =>
    match get el mp with
    | None => Some result
    | Some restriction =>
      match ws_first restriction with
      | None => None                         (* expect("empty restriction in map") *)
      | Some mapped => Some (fst (ws_insert mapped result))
      end
    end
  end.

Definition ops1 : ops wbset := {|
  o_new := empty;
  o_is_empty := fun s => ws_is_empty s;
  o_insert := fun s x =>                                        (* :369 *)
    match x with [el0] => Some (ws_insert el0 s) | _ => None end;
  o_contains := fun s x => match x with [el0] => ws_contains el0 s | _ => false end;
  o_remove := fun s x =>                                        (* :531 *)
    match x with [el0] => ws_remove el0 s | _ => None end;
  o_clear := fun s => ws_clear s;
  o_iter := fun s => map (fun x => [x]) (ws_iter s);
  o_union := fun a b => ws_union a b;
  o_difference := fun a b => ws_difference a b;
  o_mapped := fun s maps =>
    match hd None maps with
    | None => Some s
    | Some mp => fold_left (mapped1_step mp) (ws_iter s) (Some empty)
    end;
  o_enc := fun s => len s :: shape (root s)
|}.

(* PrefixTree1's restriction methods; the restriction is a PrefixTree0 *)
Definition insert_restriction1 (s : wbset) (el0 : N) (restriction : bool) : option wbset :=
  if negb restriction then Some s                               (* :224 *)
  else Some (fst (ws_insert el0 s)).
Definition remove_restriction1 (s : wbset) (el0 : N) (restriction : bool) : option wbset :=
  if negb restriction then Some s                               (* :1303 *)
  else match ws_remove el0 s with None => None | Some (s', _) => Some s' end.
Definition get1 (s : wbset) (first_el : N) : option bool :=     (* :971 *)
  if ws_contains first_el s then Some true else None.
Definition iter_restrictions1 (s : wbset) : list (N * bool) :=  (* :788 *)
  map (fun x => (x, true)) (ws_iter s).

(* ---------- PrefixTreeK, K >= 2, over the methods `sub` of PrefixTree(K-1) ---------- *)

Section Level.
Context {V : Type} (sub : ops V).

(* :232ff *)
Definition insert_restriction_lvl (m : wbmap V) (el0 : N) (restriction : V) : option (wbmap V) :=
  if o_is_empty sub restriction then Some m else
  match entry_of el0 m with
  | Occupied key m0 =>
    (* *occupied_entry.get_mut() = occupied_entry.get_mut().union(&restriction) *)
    match occ_get_mut key m0 with
    | None => None
    | Some (m1, v) =>
      match occ_get_mut key m1 with
      | None => None
      | Some (m2, _) => Some (modify key (fun _ => o_union sub v restriction) m2)
      end
    end
  | Vacant key m0 =>
    match vac_insert key m0 restriction with
    | None => None
    | Some (m1, _) => Some m1
    end
  end.

(* :1312ff *)
Definition remove_restriction_lvl (m : wbmap V) (el0 : N) (restriction : V) : option (wbmap V) :=
  match entry_of el0 m with
  | Occupied key m0 =>
    match occ_get_mut key m0 with
    | None => None
    | Some (m1, v) =>
      match occ_get_mut key m1 with
      | None => None
      | Some (m2, _) =>
        let m3 := modify key (fun _ => o_difference sub v restriction) m2 in
        match occ_get_mut key m3 with
        | None => None
        | Some (m4, v') =>
          if o_is_empty sub v' then
            match occ_remove key m4 with
            | None => None
            | Some (m5, _) => Some m5
            end
          else Some m4
        end
      end
    end
  | Vacant _ _ => Some m
  end.

Definition get_lvl (m : wbmap V) (first_el : N) : option V := get first_el m.      (* :981 *)
Definition iter_restrictions_lvl (m : wbmap V) : list (N * V) := iter m.           (* :793 *)

(* :1482ff, one iteration of `for (k, v) in self.map.iter()` *)
Definition mapped_step (map0 : option pt2) (rest : list (option pt2))
  (acc : option (wbmap V)) (kv : N * V) : option (wbmap V) :=
  match acc with
  | None => None
  | Some result =>
    let new_k_opt :=
      match map0 with
      | None => Some (fst kv)
      | Some mp =>
        (* map.get(k).and_then(|restriction| restriction.set.iter().next()) *)
        match get (fst kv) mp with
        | None => None
        | Some restriction => ws_first restriction
        end
      end in
    match new_k_opt with
    | None => Some result
    | Some new_k =>
      match o_mapped sub (snd kv) rest with
      | None => None
      | Some new_v => insert_restriction_lvl result new_k new_v
      end
    end
  end.

Definition ops_lvl : ops (wbmap V) := {|
  o_new := empty;
  o_is_empty := fun m => is_empty m;
  (* :375  self.map.entry(el0).or_insert_with(PrefixTree(K-1)::new).insert([el1, ..]) *)
  o_insert := fun m x =>
    match x with
    | [] => None
    | el0 :: rest =>
      match or_insert_with (entry_of el0 m) (fun _ => o_new sub) with
      | None => None
      | Some (m1, v) =>
        match o_insert sub v rest with
        | None => None
        | Some (v', was_new) => Some (modify el0 (fun _ => v') m1, was_new)
        end
      end
    end;
  (* :460  self.map.get(&el0).map_or(false, |tree| tree.contains([el1, ..])) *)
  o_contains := fun m x =>
    match x with
    | [] => false
    | el0 :: rest =>
      match get el0 m with
      | None => false
      | Some tree => o_contains sub tree rest
      end
    end;
  (* :537 *)
  o_remove := fun m x =>
    match x with
    | [] => None
    | el0 :: rest =>
      match entry_of el0 m with
      | Occupied key m0 =>
        match occ_get_mut key m0 with
        | None => None
        | Some (m1, tree) =>
          match o_remove sub tree rest with
          | None => None
          | Some (tree', was_present) =>
            let m2 := modify key (fun _ => tree') m1 in
            if o_is_empty sub tree' then
              match occ_remove key m2 with
              | None => None
              | Some (m3, _) => Some (m3, was_present)
              end
            else Some (m2, was_present)
          end
        end
      | Vacant _ _ => Some (m, false)
      end
    end;
  o_clear := fun m => clear m;
  (* :903  self.map.iter().flat_map(|(k, v)| v.iter().map(move |[x, ..]| [k, x, ..])) *)
  o_iter := fun m => flat_map (fun kv => map (cons (fst kv)) (o_iter sub (snd kv))) (iter m);
  (* :1098  self.map.union(&other.map, |_key, val1, val2| val1.union(&val2)) *)
  o_union := fun a b => union_tot (fun _ val1 val2 => o_union sub val1 val2) a b;
  (* :1189 *)
  o_difference := fun a b =>
    difference_tot (fun _ val1 val2 =>
      let diff_result := o_difference sub val1 val2 in
      if o_is_empty sub diff_result then None else Some diff_result) a b;
  o_mapped := fun m maps =>
    fold_left (mapped_step (hd None maps) (tl maps)) (iter m) (Some empty);
  o_enc := fun m =>
    len m :: shape (root m) ++ flat_map (fun kv => o_enc sub (snd kv)) (iter m)
|}.

End Level.

(* ------------------------------------------------------------------ *)
(* all arities                                                          *)

Fixpoint ptree (n : nat) : Type :=
  match n with
  | O => bool
  | S m => match m with O => wbset | S _ => wbmap (ptree m) end
  end.

Fixpoint pt_ops (n : nat) : ops (ptree n) :=
  match n return ops (ptree n) with
  | O => ops0
  | S m =>
    match m return ops (ptree m) -> ops (ptree (S m)) with
    | O => fun _ => ops1
    | S k => fun sub => ops_lvl sub
    end (pt_ops m)
  end.

Definition pt_new (n : nat) : ptree n := o_new (pt_ops n).
Definition pt_is_empty (n : nat) (t : ptree n) : bool := o_is_empty (pt_ops n) t.
Definition pt_insert (n : nat) (t : ptree n) (x : tuple) : option (ptree n * bool) :=
  o_insert (pt_ops n) t x.
Definition pt_contains (n : nat) (t : ptree n) (x : tuple) : bool := o_contains (pt_ops n) t x.
Definition pt_remove (n : nat) (t : ptree n) (x : tuple) : option (ptree n * bool) :=
  o_remove (pt_ops n) t x.
Definition pt_clear (n : nat) (t : ptree n) : ptree n := o_clear (pt_ops n) t.
Definition pt_iter (n : nat) (t : ptree n) : list tuple := o_iter (pt_ops n) t.
Definition pt_union (n : nat) (a b : ptree n) : ptree n := o_union (pt_ops n) a b.
Definition pt_difference (n : nat) (a b : ptree n) : ptree n := o_difference (pt_ops n) a b.
Definition pt_mapped (n : nat) (t : ptree n) (maps : list (option pt2)) : option (ptree n) :=
  o_mapped (pt_ops n) t maps.
Definition pt_enc (n : nat) (t : ptree n) : list N := o_enc (pt_ops n) t.

(* the contents, in iteration order *)
Definition tuples (n : nat) (t : ptree n) : list tuple := pt_iter n t.

(* the methods that relate arity n+1 to its restrictions of arity n *)
Definition pt_insert_restriction (n : nat)
  : ptree (S n) -> N -> ptree n -> option (ptree (S n)) :=
  match n return ptree (S n) -> N -> ptree n -> option (ptree (S n)) with
  | O => insert_restriction1
  | S k => insert_restriction_lvl (pt_ops (S k))
  end.
Definition pt_remove_restriction (n : nat)
  : ptree (S n) -> N -> ptree n -> option (ptree (S n)) :=
  match n return ptree (S n) -> N -> ptree n -> option (ptree (S n)) with
  | O => remove_restriction1
  | S k => remove_restriction_lvl (pt_ops (S k))
  end.
Definition pt_get (n : nat) : ptree (S n) -> N -> option (ptree n) :=
  match n return ptree (S n) -> N -> option (ptree n) with
  | O => get1
  | S k => get_lvl
  end.
Definition pt_iter_restrictions (n : nat) : ptree (S n) -> list (N * ptree n) :=
  match n return ptree (S n) -> list (N * ptree n) with
  | O => iter_restrictions1
  | S k => iter_restrictions_lvl
  end.
