(* PTree/WBT_FactsList.v -- COPY of coq/WBT/FactsList.v (property C14's library).  Content unchanged except
   (1) this three-line header and (2) every line `From WBT Require Import A B ...` reads
   `From PTree Require Import WBT_A WBT_B ...`.  checks/c08.py re-derives this file from the original and compares sha256.  DO NOT EDIT. *)
(* WBT/FactsList.v -- facts about key-sorted association lists (the reference map). *)

From Coq Require Import NArith List Lia Bool Sorted.
From PTree Require Import WBT_Model WBT_Spec.
Import ListNotations.
Open Scope N_scope.

Ltac cmp_spec k1 k2 H := destruct (N.compare_spec k1 k2) as [H|H|H].
Ltac eqb_spec k1 k2 H := destruct (N.eqb_spec k1 k2) as [H|H].

Section ListFacts.
Context {V : Type}.
Implicit Types (l a b : list (N * V)) (k key x y : N) (v : V).

(* ---------- keys_lt / keys_gt ---------- *)

Lemma keys_lt_nil x : keys_lt (@nil (N * V)) x.
Proof. constructor. Qed.
Lemma keys_gt_nil x : keys_gt (@nil (N * V)) x.
Proof. constructor. Qed.

Lemma keys_lt_cons p l x : keys_lt (p :: l) x <-> fst p < x /\ keys_lt l x.
Proof. unfold keys_lt. apply Forall_cons_iff. Qed.
Lemma keys_gt_cons p l x : keys_gt (p :: l) x <-> x < fst p /\ keys_gt l x.
Proof. unfold keys_gt. apply Forall_cons_iff. Qed.

Lemma keys_lt_app a b x : keys_lt (a ++ b) x <-> keys_lt a x /\ keys_lt b x.
Proof. unfold keys_lt. apply Forall_app. Qed.
Lemma keys_gt_app a b x : keys_gt (a ++ b) x <-> keys_gt a x /\ keys_gt b x.
Proof. unfold keys_gt. apply Forall_app. Qed.

Lemma keys_lt_mid a k v b x :
  keys_lt (a ++ (k, v) :: b) x <-> keys_lt a x /\ k < x /\ keys_lt b x.
Proof. rewrite keys_lt_app, keys_lt_cons. reflexivity. Qed.
Lemma keys_gt_mid a k v b x :
  keys_gt (a ++ (k, v) :: b) x <-> keys_gt a x /\ x < k /\ keys_gt b x.
Proof. rewrite keys_gt_app, keys_gt_cons. reflexivity. Qed.

Lemma keys_lt_le l x y : keys_lt l x -> x <= y -> keys_lt l y.
Proof.
  intros H Hxy. unfold keys_lt in *. eapply Forall_impl; [|exact H].
  intros p Hp. cbn beta in *. lia.
Qed.
Lemma keys_gt_le l x y : keys_gt l x -> y <= x -> keys_gt l y.
Proof.
  intros H Hxy. unfold keys_gt in *. eapply Forall_impl; [|exact H].
  intros p Hp. cbn beta in *. lia.
Qed.

Lemma keys_lt_in l x p : keys_lt l x -> In p l -> fst p < x.
Proof. unfold keys_lt. rewrite Forall_forall. intros H Hin. apply H, Hin. Qed.
Lemma keys_gt_in l x p : keys_gt l x -> In p l -> x < fst p.
Proof. unfold keys_gt. rewrite Forall_forall. intros H Hin. apply H, Hin. Qed.

(* ---------- ssorted ---------- *)

Lemma ssorted_mid a k v b :
  ssorted (a ++ (k, v) :: b) <-> ssorted a /\ ssorted b /\ keys_lt a k /\ keys_gt b k.
Proof.
  induction a as [|p a IH]; cbn [app ssorted fst].
  - split.
    + intros (Hg & Hs). repeat split; auto. apply keys_lt_nil.
    + intros (_ & Hs & _ & Hg). split; assumption.
  - rewrite IH, keys_gt_mid, keys_lt_cons. split.
    + intros ((Hga & Hpk & Hgb) & Hsa & Hsb & Hla & Hgbk). repeat split; assumption.
    + intros ((Hga & Hsa) & Hsb & (Hpk & Hla) & Hgbk). repeat split; try assumption.
      eapply keys_gt_le; [exact Hgbk|lia].
Qed.

Lemma ssorted_app a b : ssorted (a ++ b) -> ssorted a /\ ssorted b.
Proof.
  induction a as [|p a IH]; cbn [app ssorted].
  - auto.
  - intros (Hg & Hs). apply keys_gt_app in Hg. destruct Hg as (Hga & _).
    destruct (IH Hs) as (Hsa & Hsb). repeat split; assumption.
Qed.

Lemma ssorted_StronglySorted l : ssorted l <-> StronglySorted N.lt (map fst l).
Proof.
  induction l as [|p l IH]; cbn [ssorted map].
  - split; [constructor|trivial].
  - split.
    + intros (Hg & Hs). constructor; [apply IH, Hs|].
      unfold keys_gt in Hg. rewrite Forall_map. exact Hg.
    + intros H. inversion H as [|? ? Hs Hg]; subst. split; [|apply IH, Hs].
      unfold keys_gt. rewrite Forall_map in Hg. exact Hg.
Qed.

(* ---------- assoc ---------- *)

Lemma assoc_none_gt l x key : keys_gt l x -> key <= x -> assoc key l = None.
Proof.
  induction l as [|[k v] l IH]; intros Hg Hle; cbn [assoc]; [reflexivity|].
  apply keys_gt_cons in Hg. cbn [fst] in Hg. destruct Hg as (Hk & Hg).
  eqb_spec key k Hkk; [lia|]. apply IH; assumption.
Qed.

Lemma assoc_none_lt l x key : keys_lt l x -> x <= key -> assoc key l = None.
Proof.
  induction l as [|[k v] l IH]; intros Hg Hle; cbn [assoc]; [reflexivity|].
  apply keys_lt_cons in Hg. cbn [fst] in Hg. destruct Hg as (Hk & Hg).
  eqb_spec key k Hkk; [lia|]. apply IH; assumption.
Qed.

Lemma assoc_app key a b :
  assoc key (a ++ b) = match assoc key a with Some v => Some v | None => assoc key b end.
Proof.
  induction a as [|[k v] a IH]; cbn [app assoc]; [reflexivity|].
  eqb_spec key k Hkk; [reflexivity|apply IH].
Qed.

Lemma assoc_mid key a k v b :
  keys_lt a k -> keys_gt b k ->
  assoc key (a ++ (k, v) :: b) =
  match key ?= k with Lt => assoc key a | Eq => Some v | Gt => assoc key b end.
Proof.
  intros Hl Hg. rewrite assoc_app. cbn [assoc].
  cmp_spec key k Hc.
  - subst. rewrite (assoc_none_lt a k k Hl) by lia. rewrite N.eqb_refl. reflexivity.
  - eqb_spec key k Hkk; [lia|]. rewrite (assoc_none_gt b k key Hg) by lia.
    destruct (assoc key a); reflexivity.
  - eqb_spec key k Hkk; [lia|]. rewrite (assoc_none_lt a k key Hl) by lia. reflexivity.
Qed.

Lemma assoc_in key v l : assoc key l = Some v -> In (key, v) l.
Proof.
  induction l as [|[k w] l IH]; cbn [assoc]; [discriminate|].
  eqb_spec key k Hkk.
  - intros H. injection H as ->. subst. left. reflexivity.
  - intros H. right. apply IH, H.
Qed.

Lemma in_assoc key v l : ssorted l -> In (key, v) l -> assoc key l = Some v.
Proof.
  induction l as [|[k w] l IH]; cbn [assoc ssorted fst]; [contradiction|].
  intros (Hg & Hs) [Heq|Hin].
  - injection Heq as -> ->. rewrite N.eqb_refl. reflexivity.
  - eqb_spec key k Hkk.
    + subst. apply (keys_gt_in _ _ _ Hg) in Hin. cbn [fst] in Hin. lia.
    + apply IH; assumption.
Qed.

Lemma assoc_some_keys_lt l x key v : keys_lt l x -> assoc key l = Some v -> key < x.
Proof.
  intros Hl Ha. apply assoc_in in Ha. apply (keys_lt_in _ _ _ Hl) in Ha. exact Ha.
Qed.
Lemma assoc_some_keys_gt l x key v : keys_gt l x -> assoc key l = Some v -> x < key.
Proof.
  intros Hl Ha. apply assoc_in in Ha. apply (keys_gt_in _ _ _ Hl) in Ha. exact Ha.
Qed.

Lemma keys_lt_of_assoc l x :
  ssorted l -> (forall key v, assoc key l = Some v -> key < x) -> keys_lt l x.
Proof.
  intros Hs H. unfold keys_lt. rewrite Forall_forall. intros [k v] Hin. cbn [fst].
  apply (H k v). apply in_assoc; assumption.
Qed.
Lemma keys_gt_of_assoc l x :
  ssorted l -> (forall key v, assoc key l = Some v -> x < key) -> keys_gt l x.
Proof.
  intros Hs H. unfold keys_gt. rewrite Forall_forall. intros [k v] Hin. cbn [fst].
  apply (H k v). apply in_assoc; assumption.
Qed.

(* two strictly sorted lists with the same lookups are equal *)
Lemma ssorted_ext a b :
  ssorted a -> ssorted b -> (forall key, assoc key a = assoc key b) -> a = b.
Proof.
  revert b. induction a as [|[ka va] a IH]; intros [|[kb vb] b] Hsa Hsb Hext.
  - reflexivity.
  - specialize (Hext kb). cbn [assoc] in Hext. rewrite N.eqb_refl in Hext. discriminate.
  - specialize (Hext ka). cbn [assoc] in Hext. rewrite N.eqb_refl in Hext. discriminate.
  - cbn [ssorted fst] in Hsa, Hsb. destruct Hsa as (Hga & Hsa). destruct Hsb as (Hgb & Hsb).
    assert (Hk : ka = kb).
    { pose proof (Hext ka) as H1. pose proof (Hext kb) as H2. cbn [assoc] in H1, H2.
      rewrite N.eqb_refl in H1, H2.
      eqb_spec ka kb Hab; [assumption|].
      eqb_spec kb ka Hba; [lia|].
      symmetry in H1. apply (assoc_some_keys_gt _ _ _ _ Hgb) in H1.
      apply (assoc_some_keys_gt _ _ _ _ Hga) in H2. lia. }
    subst kb.
    assert (Hv : va = vb).
    { pose proof (Hext ka) as H1. cbn [assoc] in H1. rewrite N.eqb_refl in H1.
      injection H1 as ->. reflexivity. }
    subst vb. f_equal. apply IH; try assumption.
    intros key. specialize (Hext key). cbn [assoc] in Hext.
    eqb_spec key ka Hkk; [|exact Hext].
    subst. rewrite (assoc_none_gt a ka ka Hga) by lia.
    rewrite (assoc_none_gt b ka ka Hgb) by lia. reflexivity.
Qed.

(* ---------- assoc_insert ---------- *)

Lemma assoc_insert_app_lt key value a k v b :
  key < k ->
  assoc_insert key value (a ++ (k, v) :: b) = assoc_insert key value a ++ (k, v) :: b.
Proof.
  intros Hlt. induction a as [|[k' v'] a IH]; cbn [app assoc_insert].
  - cmp_spec key k Hc; try lia. reflexivity.
  - cmp_spec key k' Hc; try reflexivity. rewrite IH. reflexivity.
Qed.

Lemma assoc_insert_app_gt key value a k v b :
  keys_lt a k -> k < key ->
  assoc_insert key value (a ++ (k, v) :: b) = a ++ (k, v) :: assoc_insert key value b.
Proof.
  intros Hl Hlt. induction a as [|[k' v'] a IH]; cbn [app assoc_insert].
  - cmp_spec key k Hc; try lia. reflexivity.
  - apply keys_lt_cons in Hl. cbn [fst] in Hl. destruct Hl as (Hk' & Hl).
    cmp_spec key k' Hc; try lia. rewrite (IH Hl). reflexivity.
Qed.

Lemma assoc_insert_app_eq value a k v b :
  keys_lt a k ->
  assoc_insert k value (a ++ (k, v) :: b) = a ++ (k, value) :: b.
Proof.
  intros Hl. induction a as [|[k' v'] a IH]; cbn [app assoc_insert].
  - cmp_spec k k Hc; try lia. reflexivity.
  - apply keys_lt_cons in Hl. cbn [fst] in Hl. destruct Hl as (Hk' & Hl).
    cmp_spec k k' Hc; try lia. rewrite (IH Hl). reflexivity.
Qed.

Lemma assoc_assoc_insert key' key value l :
  assoc key' (assoc_insert key value l) = if key' =? key then Some value else assoc key' l.
Proof.
  induction l as [|[k v] l IH]; cbn [assoc_insert assoc].
  - reflexivity.
  - cmp_spec key k Hc; cbn [assoc].
    + subst k. eqb_spec key' key Hkk; reflexivity.
    + eqb_spec key' key Hkk; reflexivity.
    + rewrite IH. eqb_spec key' k Hk1; [|reflexivity].
      eqb_spec key' key Hk2; [lia|reflexivity].
Qed.

Lemma keys_gt_assoc_insert key value l x :
  keys_gt l x -> x < key -> keys_gt (assoc_insert key value l) x.
Proof.
  induction l as [|[k v] l IH]; intros Hg Hx; cbn [assoc_insert].
  - apply keys_gt_cons. cbn [fst]. split; [assumption|apply keys_gt_nil].
  - pose proof Hg as Hg0. apply keys_gt_cons in Hg. cbn [fst] in Hg. destruct Hg as (Hk & Hg).
    cmp_spec key k Hc.
    + apply keys_gt_cons. cbn [fst]. split; assumption.
    + apply keys_gt_cons. cbn [fst]. split; assumption.
    + apply keys_gt_cons. cbn [fst]. split; [assumption|]. apply IH; assumption.
Qed.

Lemma ssorted_assoc_insert key value l : ssorted l -> ssorted (assoc_insert key value l).
Proof.
  induction l as [|[k v] l IH]; intros Hs; cbn [assoc_insert].
  - cbn [ssorted]. split; [apply keys_gt_nil|trivial].
  - cbn [ssorted fst] in Hs. destruct Hs as (Hg & Hs).
    cmp_spec key k Hc; cbn [ssorted fst].
    + subst. split; assumption.
    + split; [|split; assumption].
      apply keys_gt_cons. cbn [fst]. split; [assumption|].
      eapply keys_gt_le; [exact Hg|lia].
    + split; [|apply IH, Hs]. apply keys_gt_assoc_insert; assumption.
Qed.

(* ---------- assoc_remove ---------- *)

Lemma assoc_remove_id_lt key l x : keys_lt l x -> x <= key -> assoc_remove key l = l.
Proof.
  unfold assoc_remove. induction l as [|[k v] l IH]; intros Hl Hx; cbn [filter fst]; [reflexivity|].
  apply keys_lt_cons in Hl. cbn [fst] in Hl. destruct Hl as (Hk & Hl).
  eqb_spec k key Hkk; [lia|]. cbn [negb]. rewrite IH; auto.
Qed.

Lemma assoc_remove_id_gt key l x : keys_gt l x -> key <= x -> assoc_remove key l = l.
Proof.
  unfold assoc_remove. induction l as [|[k v] l IH]; intros Hl Hx; cbn [filter fst]; [reflexivity|].
  apply keys_gt_cons in Hl. cbn [fst] in Hl. destruct Hl as (Hk & Hl).
  eqb_spec k key Hkk; [lia|]. cbn [negb]. rewrite IH; auto.
Qed.

Lemma assoc_remove_mid key a k v b :
  assoc_remove key (a ++ (k, v) :: b) =
  assoc_remove key a ++ (if k =? key then [] else [(k, v)]) ++ assoc_remove key b.
Proof.
  unfold assoc_remove. rewrite filter_app. cbn [filter fst].
  eqb_spec k key Hkk; reflexivity.
Qed.

Lemma assoc_assoc_remove key' key l :
  assoc key' (assoc_remove key l) = if key' =? key then None else assoc key' l.
Proof.
  unfold assoc_remove. induction l as [|[k v] l IH]; cbn [filter assoc fst].
  - destruct (key' =? key); reflexivity.
  - eqb_spec k key Hk1; cbn [negb assoc].
    + subst k. rewrite IH. eqb_spec key' key Hk2; reflexivity.
    + rewrite IH. eqb_spec key' k Hk2; [|reflexivity].
      eqb_spec key' key Hk3; [lia|reflexivity].
Qed.

Lemma keys_gt_filter (p : N * V -> bool) l x : keys_gt l x -> keys_gt (filter p l) x.
Proof.
  unfold keys_gt. rewrite !Forall_forall. intros H q Hq. apply filter_In in Hq. apply H, Hq.
Qed.

Lemma ssorted_filter (p : N * V -> bool) l : ssorted l -> ssorted (filter p l).
Proof.
  induction l as [|q l IH]; intros Hs; cbn [filter]; [exact Hs|].
  cbn [ssorted] in Hs. destruct Hs as (Hg & Hs).
  destruct (p q); [|apply IH, Hs].
  cbn [ssorted]. split; [apply keys_gt_filter, Hg|apply IH, Hs].
Qed.

Lemma ssorted_assoc_remove key l : ssorted l -> ssorted (assoc_remove key l).
Proof. apply ssorted_filter. Qed.

(* ---------- assoc_union ---------- *)

Lemma ssorted_assoc_union_step (f : N -> V -> V -> V) (acc : list (N * V)) p : ssorted acc -> ssorted (assoc_union_step f acc p).
Proof.
  intros Hs. unfold assoc_union_step. destruct (assoc (fst p) acc); apply ssorted_assoc_insert, Hs.
Qed.

Lemma ssorted_assoc_union (f : N -> V -> V -> V) a b : ssorted a -> ssorted (assoc_union f a b).
Proof.
  unfold assoc_union. revert a. induction b as [|p b IH]; intros a Hs; cbn [fold_left].
  - exact Hs.
  - apply IH, ssorted_assoc_union_step, Hs.
Qed.

Lemma assoc_assoc_union (f : N -> V -> V -> V) a b key :
  ssorted b ->
  assoc key (assoc_union f a b) = union_law f key (assoc key a) (assoc key b).
Proof.
  unfold assoc_union. revert a. induction b as [|[kb y] b IH]; intros a Hs; cbn [fold_left].
  - cbn [assoc]. unfold union_law. destruct (assoc key a); reflexivity.
  - cbn [ssorted fst] in Hs. destruct Hs as (Hg & Hs).
    rewrite (IH _ Hs). cbn [assoc]. unfold assoc_union_step. cbn [fst snd].
    eqb_spec key kb Hkk.
    + subst kb. rewrite (assoc_none_gt b key key Hg) by lia.
      destruct (assoc key a) as [x|] eqn:Ea; rewrite assoc_assoc_insert, N.eqb_refl;
        reflexivity.
    + destruct (assoc kb a) as [x|] eqn:Ea; rewrite assoc_assoc_insert;
        (eqb_spec key kb Hk2; [lia|reflexivity]).
Qed.

(* ---------- assoc_difference ---------- *)

Lemma keys_gt_assoc_difference g a b x : keys_gt a x -> keys_gt (assoc_difference g a b) x.
Proof.
  induction a as [|[k v] a IH]; intros Hg; cbn [assoc_difference]; [exact Hg|].
  apply keys_gt_cons in Hg. cbn [fst] in Hg. destruct Hg as (Hk & Hg).
  destruct (assoc k b) as [y|].
  - destruct (g k v y).
    + apply keys_gt_cons. cbn [fst]. split; [assumption|apply IH, Hg].
    + apply IH, Hg.
  - apply keys_gt_cons. cbn [fst]. split; [assumption|apply IH, Hg].
Qed.

Lemma ssorted_assoc_difference g a b : ssorted a -> ssorted (assoc_difference g a b).
Proof.
  induction a as [|[k v] a IH]; intros Hs; cbn [assoc_difference]; [exact Hs|].
  cbn [ssorted fst] in Hs. destruct Hs as (Hg & Hs).
  destruct (assoc k b) as [y|].
  - destruct (g k v y).
    + cbn [ssorted fst]. split; [apply keys_gt_assoc_difference, Hg|apply IH, Hs].
    + apply IH, Hs.
  - cbn [ssorted fst]. split; [apply keys_gt_assoc_difference, Hg|apply IH, Hs].
Qed.

Lemma assoc_assoc_difference g a b key :
  ssorted a ->
  assoc key (assoc_difference g a b) = difference_law g key (assoc key a) (assoc key b).
Proof.
  induction a as [|[k v] a IH]; intros Hs; cbn [assoc_difference assoc].
  - reflexivity.
  - cbn [ssorted fst] in Hs. destruct Hs as (Hg & Hs).
    eqb_spec key k Hkk.
    + subst k. unfold difference_law.
      assert (Hnone : assoc key (assoc_difference g a b) = None).
      { apply (assoc_none_gt _ key key); [apply keys_gt_assoc_difference, Hg|lia]. }
      destruct (assoc key b) as [y|].
      * destruct (g key v y); cbn [assoc]; [rewrite N.eqb_refl; reflexivity|exact Hnone].
      * cbn [assoc]. rewrite N.eqb_refl. reflexivity.
    + destruct (assoc k b) as [y|].
      * destruct (g k v y); cbn [assoc].
        -- eqb_spec key k Hk2; [lia|]. apply IH, Hs.
        -- apply IH, Hs.
      * cbn [assoc]. eqb_spec key k Hk2; [lia|]. apply IH, Hs.
Qed.

(* ---------- value maps (keys unchanged) ---------- *)

Lemma keys_gt_map_keep (h : N * V -> N * V) l x :
  (forall p, fst (h p) = fst p) -> keys_gt l x -> keys_gt (map h l) x.
Proof.
  intros Hh. unfold keys_gt. rewrite Forall_map. apply Forall_impl.
  intros p Hp. rewrite Hh. exact Hp.
Qed.

Lemma ssorted_map_keep (h : N * V -> N * V) l :
  (forall p, fst (h p) = fst p) -> ssorted l -> ssorted (map h l).
Proof.
  intros Hh. induction l as [|p l IH]; intros Hs; cbn [map]; [exact Hs|].
  cbn [ssorted] in *. destruct Hs as (Hg & Hs). rewrite Hh.
  split; [apply keys_gt_map_keep; assumption|apply IH, Hs].
Qed.

Lemma ssorted_assoc_map_values f l : ssorted l -> ssorted (assoc_map_values f l).
Proof. apply ssorted_map_keep. intros p. reflexivity. Qed.

Lemma ssorted_assoc_modify key f l : ssorted l -> ssorted (assoc_modify key f l).
Proof.
  apply ssorted_map_keep. intros p. destruct (fst p =? key); reflexivity.
Qed.

Lemma assoc_assoc_map_values f l key :
  assoc key (assoc_map_values f l) = option_map (f key) (assoc key l).
Proof.
  unfold assoc_map_values. induction l as [|[k v] l IH]; cbn [map assoc fst snd]; [reflexivity|].
  eqb_spec key k Hkk; [subst; reflexivity|apply IH].
Qed.

Lemma assoc_assoc_modify key' key f l :
  assoc key' (assoc_modify key f l) =
  if key' =? key then option_map f (assoc key' l) else assoc key' l.
Proof.
  unfold assoc_modify. induction l as [|[k v] l IH]; cbn [map assoc fst snd].
  - destruct (key' =? key); reflexivity.
  - eqb_spec k key Hk1; cbn [assoc].
    + subst k. eqb_spec key' key Hk2; [reflexivity|exact IH].
    + eqb_spec key' k Hk2; [|exact IH].
      eqb_spec key' key Hk3; [lia|reflexivity].
Qed.

Lemma length_assoc_map_values f l : length (assoc_map_values f l) = length l.
Proof. apply map_length. Qed.
Lemma length_assoc_modify key f l : length (assoc_modify key f l) = length l.
Proof. apply map_length. Qed.

(* ---------- concatenation of two sorted lists separated by a pivot ---------- *)

Lemma ssorted_app_intro a b x :
  ssorted a -> ssorted b -> keys_lt a x -> keys_gt b x -> ssorted (a ++ b).
Proof.
  induction a as [|p a IH]; intros Hsa Hsb Hl Hg; cbn [app]; [exact Hsb|].
  cbn [ssorted] in *. destruct Hsa as (Hga & Hsa).
  apply keys_lt_cons in Hl. destruct Hl as (Hp & Hl).
  split; [|apply IH; assumption].
  apply keys_gt_app. split; [exact Hga|]. eapply keys_gt_le; [exact Hg|lia].
Qed.

Lemma assoc_app_pivot key a b x :
  keys_lt a x -> keys_gt b x ->
  assoc key (a ++ b) =
  match key ?= x with Lt => assoc key a | Eq => None | Gt => assoc key b end.
Proof.
  intros Hl Hg. rewrite assoc_app. cmp_spec key x Hc.
  - subst. rewrite (assoc_none_lt a x x Hl) by lia. apply (assoc_none_gt b x x Hg). lia.
  - rewrite (assoc_none_gt b x key Hg) by lia. destruct (assoc key a); reflexivity.
  - rewrite (assoc_none_lt a x key Hl) by lia. reflexivity.
Qed.

Lemma assoc_mid_lt key a k v b :
  keys_lt a k -> keys_gt b k -> key < k -> assoc key (a ++ (k, v) :: b) = assoc key a.
Proof.
  intros Hl Hg Hc. rewrite assoc_mid by assumption.
  rewrite (proj2 (N.compare_lt_iff key k) Hc). reflexivity.
Qed.
Lemma assoc_mid_gt key a k v b :
  keys_lt a k -> keys_gt b k -> k < key -> assoc key (a ++ (k, v) :: b) = assoc key b.
Proof.
  intros Hl Hg Hc. rewrite assoc_mid by assumption.
  rewrite (proj2 (N.compare_gt_iff key k) Hc). reflexivity.
Qed.
Lemma assoc_mid_eq a k v b :
  keys_lt a k -> keys_gt b k -> assoc k (a ++ (k, v) :: b) = Some v.
Proof.
  intros Hl Hg. rewrite assoc_mid by assumption. rewrite N.compare_refl. reflexivity.
Qed.

Lemma union_law_some (f : N -> V -> V -> V) key oa ob v :
  union_law f key oa ob = Some v -> (exists w, oa = Some w) \/ (exists w, ob = Some w).
Proof.
  destruct oa as [w|]; [intros _; left; exists w; reflexivity|].
  destruct ob as [w'|]; [intros _; right; exists w'; reflexivity|discriminate].
Qed.

Lemma difference_law_some (g : N -> V -> V -> option V) key oa ob v :
  difference_law g key oa ob = Some v -> exists w, oa = Some w.
Proof.
  destruct oa as [w|]; [intros _; exists w; reflexivity|discriminate].
Qed.

Lemma assoc_remove_absent key l : assoc key l = None -> assoc_remove key l = l.
Proof.
  unfold assoc_remove. induction l as [|[k v] l IH]; cbn [assoc filter fst]; [reflexivity|].
  rewrite (N.eqb_sym k key). eqb_spec key k Hkk; [discriminate|].
  intros H. cbn [negb]. rewrite (IH H). reflexivity.
Qed.

End ListFacts.
