(* PTree/WBT_FactsInv.v -- COPY of coq/WBT/FactsInv.v (property C14's library).  Content unchanged except
   (1) this three-line header and (2) every line `From WBT Require Import A B ...` reads
   `From PTree Require Import WBT_A WBT_B ...`.  checks/c08.py re-derives this file from the original and compares sha256.  DO NOT EDIT. *)
(* WBT/FactsInv.v -- the public WBTreeMap operations: invariant preservation, absence of
   panics / fuel exhaustion, refinement to association lists, callback laws. *)

From Coq Require Import NArith List Lia Bool Sorted.
From PTree Require Import WBT_Model WBT_Spec WBT_FactsList WBT_FactsBalance WBT_FactsOrder.
Import ListNotations.
Open Scope N_scope.

Section InvFacts.
Context {V : Type}.
Implicit Types (t l r : tree V) (k key : N) (v : V) (m a b : wbmap V).

Lemma Inv_iff t : Inv t <-> bst t /\ WB t.
Proof. unfold Inv. rewrite WB_iff. tauto. Qed.

Lemma Inv_E : Inv (@E V).
Proof. apply Inv_iff. split; exact I. Qed.

Lemma Inv_map_empty : Inv_map (@empty V).
Proof. split; [apply Inv_E|reflexivity]. Qed.

Lemma Inv_map_bst m : Inv_map m -> bst (root m).
Proof. intros (Hi & _). apply Inv_iff in Hi. tauto. Qed.
Lemma Inv_map_WB m : Inv_map m -> WB (root m).
Proof. intros (Hi & _). apply Inv_iff in Hi. tauto. Qed.

Lemma Inv_map_intro t n : bst t -> WB t -> n = size t -> Inv_map (mk_wbmap t n).
Proof. intros Hb Hw Hn. split; [apply Inv_iff; split; assumption|exact Hn]. Qed.

(* ---------- tree level ---------- *)

Lemma insert_simple_Inv t key value : Inv t -> Inv (fst (insert_simple t key value)).
Proof.
  intros Hi. apply Inv_iff in Hi. destruct Hi as (Hb & Hw). apply Inv_iff. split.
  - unfold bst. rewrite (proj1 (insert_simple_inorder t key value Hb)).
    apply ssorted_assoc_insert, Hb.
  - apply insert_simple_WB, Hw.
Qed.

Lemma join_Inv l key value r :
  Inv l -> Inv r -> keys_lt (inorder l) key -> keys_gt (inorder r) key ->
  exists t, join l key value r = Some t /\ Inv t /\
            inorder t = inorder l ++ (key, value) :: inorder r /\
            size t = 1 + size l + size r.
Proof.
  intros Hl Hr Hlt Hgt. apply Inv_iff in Hl, Hr. destruct Hl as (Bl & Wl). destruct Hr as (Br & Wr).
  destruct (join_total l key value r) as (t & Hj). exists t. split; [exact Hj|].
  destruct (join_WB _ _ _ _ _ Wl Wr Hj) as (Wt & St).
  pose proof (join_inorder _ _ _ _ _ Hj) as It.
  split; [|split; assumption].
  apply Inv_iff. split; [|exact Wt].
  unfold bst. rewrite It. apply ssorted_mid. repeat split; assumption.
Qed.

(* ---------- get / contains / len / iter ---------- *)

Lemma get_refines key m : Inv_map m -> get key m = assoc key (iter m).
Proof. intros Hm. apply get_t_assoc, Inv_map_bst, Hm. Qed.

Lemma contains_key_refines key m :
  Inv_map m ->
  contains_key key m = match assoc key (iter m) with Some _ => true | None => false end.
Proof. intros Hm. unfold contains_key. rewrite (get_refines key m Hm). reflexivity. Qed.

Lemma len_refines m : Inv_map m -> len m = N.of_nat (length (iter m)).
Proof.
  intros Hm. destruct Hm as (Hi & Hl). rewrite Hl. apply sizes_ok_size.
  destruct Hi as (_ & Hs & _). exact Hs.
Qed.

Lemma is_empty_refines m :
  Inv_map m -> is_empty m = match iter m with [] => true | _ => false end.
Proof.
  intros Hm. unfold is_empty. rewrite (len_refines m Hm).
  destruct (iter m) as [|p tl]; [reflexivity|].
  cbn [length]. apply N.eqb_neq. lia.
Qed.

Lemma iter_ssorted m : Inv_map m -> ssorted (iter m).
Proof. intros Hm. exact (Inv_map_bst m Hm). Qed.

Lemma iter_sorted m : Inv_map m -> StronglySorted N.lt (map fst (iter m)).
Proof. intros Hm. apply ssorted_StronglySorted, iter_ssorted, Hm. Qed.

(* ---------- insert ---------- *)

Lemma insert_spec key value m :
  Inv_map m ->
  Inv_map (fst (insert key value m)) /\
  iter (fst (insert key value m)) = assoc_insert key value (iter m) /\
  snd (insert key value m) = assoc key (iter m).
Proof.
  intros Hm. pose proof (Inv_map_bst m Hm) as Hb. pose proof (Inv_map_WB m Hm) as Hw.
  destruct Hm as (Hi & Hlen).
  destruct (insert_simple_inorder (root m) key value Hb) as (Io & Oo).
  destruct (insert_simple_WB (root m) key value Hw) as (Wo & So).
  unfold insert, iter.
  destruct (insert_simple (root m) key value) as [t' old]. cbn [fst snd root len] in *.
  split; [|split; assumption].
  apply Inv_map_intro.
  - unfold bst. rewrite Io. apply ssorted_assoc_insert, Hb.
  - exact Wo.
  - rewrite So, Hlen. destruct old; lia.
Qed.

(* ---------- remove ---------- *)

Lemma remove_spec key m :
  Inv_map m ->
  exists m', remove key m = Some (m', assoc key (iter m)) /\
             Inv_map m' /\ iter m' = assoc_remove key (iter m).
Proof.
  intros Hm. pose proof (Inv_map_bst m Hm) as Hb. pose proof (Inv_map_WB m Hm) as Hw.
  pose proof (get_refines key m Hm) as Hget.
  unfold remove, contains_key. rewrite Hget. unfold iter in *.
  destruct (assoc key (inorder (root m))) as [value|] eqn:Ea; cbn [negb].
  - unfold get in Hget.
    destruct (remove_existing_node_total (root m) key value Hget) as (t' & Hrem).
    destruct (root m) as [|s l k v r] eqn:Er; [discriminate|]. rewrite <- Er in *.
    rewrite Hrem.
    destruct (remove_existing_node_inorder _ _ _ _ Hb Hrem) as (It & _).
    destruct (remove_existing_node_WB _ _ _ _ Hw Hrem) as (Wt & St).
    eexists. split; [reflexivity|]. cbn [root]. split; [|exact It].
    apply Inv_map_intro.
    + unfold bst. rewrite It. apply ssorted_assoc_remove, Hb.
    + exact Wt.
    + destruct Hm as (_ & Hlen). rewrite Hlen. lia.
  - exists m. split; [reflexivity|]. split; [exact Hm|].
    symmetry. apply assoc_remove_absent, Ea.
Qed.

(* ---------- clear ---------- *)

Lemma clear_spec m : Inv_map (clear m) /\ iter (clear m) = [].
Proof. split; [apply Inv_map_empty|reflexivity]. Qed.

(* ---------- get_mut + write, iter_mut + write ---------- *)

Lemma modify_spec key (f : V -> V) m :
  Inv_map m ->
  Inv_map (modify key f m) /\ iter (modify key f m) = assoc_modify key f (iter m).
Proof.
  intros Hm. pose proof (Inv_map_bst m Hm) as Hb. pose proof (Inv_map_WB m Hm) as Hw.
  pose proof (inorder_modify_t key f (root m) Hb) as Io.
  unfold modify, iter. cbn [root]. split; [|exact Io].
  apply Inv_map_intro.
  - unfold bst. rewrite Io. apply ssorted_assoc_modify, Hb.
  - apply modify_t_WB, Hw.
  - cbn [len]. rewrite size_modify_t. exact (proj2 Hm).
Qed.

Lemma iter_mut_map_spec (f : N -> V -> V) m :
  Inv_map m ->
  Inv_map (iter_mut_map f m) /\ iter (iter_mut_map f m) = assoc_map_values f (iter m).
Proof.
  intros Hm. pose proof (Inv_map_bst m Hm) as Hb. pose proof (Inv_map_WB m Hm) as Hw.
  pose proof (inorder_map_values_t f (root m)) as Io.
  unfold iter_mut_map, iter. cbn [root]. split; [|exact Io].
  apply Inv_map_intro.
  - unfold bst. rewrite Io. apply ssorted_assoc_map_values, Hb.
  - apply map_values_t_WB, Hw.
  - cbn [len]. rewrite size_map_values_t. exact (proj2 Hm).
Qed.

(* ---------- union ---------- *)

Lemma union_spec (f : N -> V -> V -> V) a b :
  Inv_map a -> Inv_map b ->
  exists m, union f a b = Some m /\ Inv_map m /\
            iter m = assoc_union f (iter a) (iter b) /\
            forall key, get key m = union_law f key (get key a) (get key b).
Proof.
  intros Ha Hb.
  pose proof (Inv_map_bst a Ha) as Ba. pose proof (Inv_map_WB a Ha) as Wa.
  pose proof (Inv_map_bst b Hb) as Bb. pose proof (Inv_map_WB b Hb) as Wb.
  destruct (union_t_total f (root a) (root b)) as (t & Hu).
  unfold union. rewrite Hu. eexists. split; [reflexivity|].
  unfold union_t in Hu.
  destruct (union_f_spec _ _ _ _ _ Ba Bb Hu) as (Bt & Lt).
  pose proof (union_f_WB _ _ _ _ _ Wa Wb Hu) as Wt.
  assert (Hm : Inv_map (mk_wbmap t (size t))) by (apply Inv_map_intro; auto).
  split; [exact Hm|]. split.
  - unfold iter. cbn [root]. apply ssorted_ext.
    + exact Bt.
    + apply ssorted_assoc_union, Ba.
    + intros key. rewrite Lt. rewrite assoc_assoc_union by exact Bb. reflexivity.
  - intros key. rewrite (get_refines key _ Hm), (get_refines key a Ha), (get_refines key b Hb).
    apply Lt.
Qed.

(* ---------- difference ---------- *)

Lemma difference_spec (g : N -> V -> V -> option V) a b :
  Inv_map a -> Inv_map b ->
  exists m, difference g a b = Some m /\ Inv_map m /\
            iter m = assoc_difference g (iter a) (iter b) /\
            forall key, get key m = difference_law g key (get key a) (get key b).
Proof.
  intros Ha Hb.
  pose proof (Inv_map_bst a Ha) as Ba. pose proof (Inv_map_WB a Ha) as Wa.
  pose proof (Inv_map_bst b Hb) as Bb. pose proof (Inv_map_WB b Hb) as Wb.
  destruct (difference_t_total g (root a) (root b)) as (t & Hd).
  unfold difference. rewrite Hd. eexists. split; [reflexivity|].
  unfold difference_t in Hd.
  destruct (difference_f_spec _ _ _ _ _ Ba Bb Hd) as (Bt & Lt).
  pose proof (difference_f_WB _ _ _ _ _ Wa Wb Hd) as Wt.
  assert (Hm : Inv_map (mk_wbmap t (size t))) by (apply Inv_map_intro; auto).
  split; [exact Hm|]. split.
  - unfold iter. cbn [root]. apply ssorted_ext.
    + exact Bt.
    + apply ssorted_assoc_difference, Ba.
    + intros key. rewrite Lt. rewrite assoc_assoc_difference by exact Ba. reflexivity.
  - intros key. rewrite (get_refines key _ Hm), (get_refines key a Ha), (get_refines key b Hb).
    apply Lt.
Qed.

(* ---------- entry API ---------- *)

Lemma entry_of_cases key m :
  (contains_key key m = true /\ entry_of key m = Occupied key m) \/
  (contains_key key m = false /\ entry_of key m = Vacant key m).
Proof. unfold entry_of. destruct (contains_key key m); [left|right]; split; reflexivity. Qed.

(* the unwrap() in OccupiedEntry::into_mut / get_mut never fires *)
Lemma occ_into_mut_spec key m :
  contains_key key m = true ->
  exists value, get key m = Some value /\ occ_into_mut key m = Some (m, value)
                /\ occ_get_mut key m = Some (m, value).
Proof.
  unfold contains_key, occ_into_mut, occ_get_mut, get_mut.
  destruct (get key m) as [value|]; [|discriminate].
  intros _. exists value. repeat split.
Qed.

(* the unwrap() in OccupiedEntry::remove never fires *)
Lemma occ_remove_spec key m :
  Inv_map m -> contains_key key m = true ->
  exists m' value, occ_remove key m = Some (m', value) /\ get key m = Some value /\
                   Inv_map m' /\ iter m' = assoc_remove key (iter m).
Proof.
  intros Hm Hc. destruct (remove_spec key m Hm) as (m' & Hr & Hm' & Im').
  unfold occ_remove. rewrite Hr.
  rewrite (contains_key_refines key m Hm) in Hc. rewrite (get_refines key m Hm).
  destruct (assoc key (iter m)) as [value|]; [|discriminate].
  exists m', value. split; [reflexivity|]. split; [reflexivity|]. split; assumption.
Qed.

(* the unwrap() in VacantEntry::insert never fires *)
Lemma vac_insert_spec key m value :
  Inv_map m ->
  vac_insert key m value = Some (fst (insert key value m), value).
Proof.
  intros Hm. destruct (insert_spec key value m Hm) as (Hm' & Im' & _).
  unfold vac_insert. destruct (insert key value m) as [m' old]. cbn [fst] in *.
  unfold get_mut. rewrite (get_refines key m' Hm'), Im', assoc_assoc_insert, N.eqb_refl.
  reflexivity.
Qed.

Lemma or_insert_spec key m default :
  Inv_map m ->
  exists m' x, or_insert (entry_of key m) default = Some (m', x) /\ Inv_map m' /\
    iter m' = (match assoc key (iter m) with
               | Some _ => iter m
               | None => assoc_insert key default (iter m)
               end) /\
    x = (match assoc key (iter m) with Some y => y | None => default end).
Proof.
  intros Hm. destruct (entry_of_cases key m) as [(Hc & ->)|(Hc & ->)]; cbn [or_insert].
  - destruct (occ_into_mut_spec key m Hc) as (value & Hg & Ho & _). rewrite Ho.
    rewrite (get_refines key m Hm) in Hg. rewrite Hg.
    exists m, value. split; [reflexivity|]. split; [exact Hm|]. split; reflexivity.
  - rewrite (vac_insert_spec key m default Hm).
    destruct (insert_spec key default m Hm) as (Hm' & Im' & _).
    rewrite (contains_key_refines key m Hm) in Hc.
    destruct (assoc key (iter m)); [discriminate|].
    eexists _, _. split; [reflexivity|]. split; [exact Hm'|]. split; [exact Im'|reflexivity].
Qed.

Lemma or_insert_with_spec key m (default : unit -> V) :
  or_insert_with (entry_of key m) default = or_insert (entry_of key m) (default tt).
Proof. destruct (entry_of key m); reflexivity. Qed.

(* ---------- logarithmic height ---------- *)

Lemma height_log t :
  balanced t -> sizes_ok t -> 4 ^ height t <= 3 ^ height t * (size t + 1).
Proof. intros Hb Hs. apply height_log_WB, WB_iff. split; assumption. Qed.

Lemma height_log_map m :
  Inv_map m -> 4 ^ height (root m) <= 3 ^ height (root m) * (len m + 1).
Proof.
  intros Hm. rewrite (proj2 Hm). apply height_log_WB, Inv_map_WB, Hm.
Qed.

(* ---------- boolean checker ---------- *)

Lemma sorted_b_ssorted (l : list (N * V)) : sorted_b (map fst l) = true -> ssorted l.
Proof.
  induction l as [|p l IH]; cbn [map sorted_b ssorted]; [trivial|].
  destruct l as [|q l].
  - intros _. split; [constructor|exact I].
  - cbn [map] in *. intros H. apply andb_true_iff in H. destruct H as (Hpq & Hs).
    apply N.ltb_lt in Hpq. specialize (IH Hs). split; [|exact IH].
    cbn [ssorted] in IH. destruct IH as (Hg & _).
    apply keys_gt_cons. split; [exact Hpq|]. eapply keys_gt_le; [exact Hg|lia].
Qed.

Lemma sizes_ok_b_ok t : sizes_ok_b t = true -> sizes_ok t.
Proof.
  induction t as [|s l IHl k v r IHr]; cbn [sizes_ok_b sizes_ok]; [trivial|].
  intros H. apply andb_true_iff in H. destruct H as (H & Hr).
  apply andb_true_iff in H. destruct H as (Hs & Hl).
  apply N.eqb_eq in Hs. auto.
Qed.

Lemma balanced_b_ok t : balanced_b t = true -> balanced t.
Proof.
  induction t as [|s l IHl k v r IHr]; cbn [balanced_b balanced]; [trivial|].
  intros H. apply andb_true_iff in H. destruct H as (H & Hr).
  apply andb_true_iff in H. destruct H as (H & Hl).
  apply andb_true_iff in H. destruct H as (H1 & H2).
  apply N.leb_le in H1, H2. unfold baln. auto.
Qed.

Lemma inv_b_ok t : inv_b t = true -> Inv t.
Proof.
  unfold inv_b, Inv. intros H. apply andb_true_iff in H. destruct H as (H & Hb).
  apply andb_true_iff in H. destruct H as (Hs & Hz).
  split; [apply sorted_b_ssorted, Hs|]. split; [apply sizes_ok_b_ok, Hz|apply balanced_b_ok, Hb].
Qed.

End InvFacts.
