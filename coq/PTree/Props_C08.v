(* PTree/Props_C08.v -- property C08: "tuple containers behave as ordered sets of fixed-arity
   tuples".  Only statements, each closed by `exact`.

   Vocabulary.  Model.v: the Rust code at HEAD, faithfully, generic in the arity n (0..9 and
   beyond): `ptree n`, the methods `pt_insert n`, `pt_remove n`, ... and `tuples n t` = the
   iteration of t.  Spec.v: `lex_lt` (order of [u32; n]), sets of tuples as strictly sorted
   lists with `set_insert`, `set_remove`, `set_union`, `set_difference`, `set_of_list` (sort +
   dedup), `restrict k` (tuples with first column k, without it), `prefix k`, `mapped_spec`;
   `PInv n t`: every map satisfies Inv_map (C14) and no key maps to an empty subtree.
   `None` results of the model stand for a Rust panic; every theorem that says
   `exists t', op .. = Some ..` therefore also says that no panic happens.

   Scope.  All theorems are for every arity n and every tree satisfying PInv, which is every
   tree reachable through the listed methods (C08_inv_reachable).  Tuples of the wrong length
   are a type error in Rust and are excluded by `length x = n`.  Rc sharing is abstracted to
   value semantics, so "clones are independent" is true by construction in the model
   (C08_persistence, C08_clone_snapshot) and is tied to the implementation by the clone-family
   correspondence of checks/c08.py.  `get_mut` / `iter_restrictions_mut` are not part of the
   property and not modelled.  Nothing in this file is partial or refuted; the behaviour of the
   pre-repair `remove_restriction` / `insert_restriction` is kept as a regression witness in
   Regress.v. *)

From Coq Require Import NArith List Sorted.
From PTree Require Import WBT_Model WBT_Spec Model Spec Run FactsLex FactsMap FactsLevel FactsBase
  FactsOps FactsRun FactsExamples.
Import ListNotations.
Open Scope N_scope.

(* ================= iteration: sorted, duplicate-free, fixed arity ================= *)

Theorem C08_iter_sorted :
  forall (n : nat) (t : ptree n),
    PInv n t ->
    pt_iter n t = tuples n t /\ StronglySorted lex_lt (pt_iter n t) /\ NoDup (pt_iter n t) /\
    Forall (fun x => length x = n) (pt_iter n t).
Proof. exact pt_iter_spec. Qed.
Print Assumptions C08_iter_sorted.

(* lex_lt is a strict order (so "sorted" means something) *)
Theorem C08_lex_lt_strict_order :
  (forall x, ~ lex_lt x x) /\ (forall x y z, lex_lt x y -> lex_lt y z -> lex_lt x z).
Proof. exact (conj lex_lt_irrefl lex_lt_trans). Qed.
Print Assumptions C08_lex_lt_strict_order.

(* a set is determined by its elements *)
Theorem C08_set_extensionality :
  forall l1 l2, lsorted l1 -> lsorted l2 -> (forall y, In y l1 <-> In y l2) -> l1 = l2.
Proof. exact lsorted_ext. Qed.
Print Assumptions C08_set_extensionality.

(* ================= new / is_empty / contains ================= *)

Theorem C08_new :
  forall n, PInv n (pt_new n) /\ tuples n (pt_new n) = [] /\ pt_is_empty n (pt_new n) = true.
Proof. exact pt_new_spec. Qed.
Print Assumptions C08_new.

Theorem C08_is_empty :
  forall (n : nat) (t : ptree n), PInv n t -> (pt_is_empty n t = true <-> tuples n t = []).
Proof. exact pt_is_empty_spec. Qed.
Print Assumptions C08_is_empty.

Theorem C08_contains :
  forall (n : nat) (t : ptree n) (x : tuple),
    PInv n t -> length x = n -> (pt_contains n t x = true <-> In x (tuples n t)).
Proof. exact pt_contains_In. Qed.
Print Assumptions C08_contains.

(* ================= insert / remove / clear, with return values ================= *)

Theorem C08_insert :
  forall (n : nat) (t : ptree n) (x : tuple),
    PInv n t -> length x = n ->
    exists t', pt_insert n t x = Some (t', negb (set_mem x (tuples n t))) /\ PInv n t' /\
               tuples n t' = set_insert x (tuples n t).
Proof. exact pt_insert_spec. Qed.
Print Assumptions C08_insert.

Theorem C08_remove :
  forall (n : nat) (t : ptree n) (x : tuple),
    PInv n t -> length x = n ->
    exists t', pt_remove n t x = Some (t', set_mem x (tuples n t)) /\ PInv n t' /\
               tuples n t' = set_remove x (tuples n t).
Proof. exact pt_remove_spec. Qed.
Print Assumptions C08_remove.

Theorem C08_clear :
  forall (n : nat) (t : ptree n),
    PInv n (pt_clear n t) /\ tuples n (pt_clear n t) = [] /\ pt_is_empty n (pt_clear n t) = true.
Proof. exact pt_clear_spec. Qed.
Print Assumptions C08_clear.

(* ================= union / difference ================= *)

Theorem C08_union :
  forall (n : nat) (a b : ptree n),
    PInv n a -> PInv n b ->
    PInv n (pt_union n a b) /\ tuples n (pt_union n a b) = set_union (tuples n a) (tuples n b).
Proof. exact pt_union_spec. Qed.
Print Assumptions C08_union.

Theorem C08_difference :
  forall (n : nat) (a b : ptree n),
    PInv n a -> PInv n b ->
    PInv n (pt_difference n a b) /\
    tuples n (pt_difference n a b) = set_difference (tuples n a) (tuples n b).
Proof. exact pt_difference_spec. Qed.
Print Assumptions C08_difference.

(* the `option` stripped from WBTreeMap::union / difference inside the callbacks is never None *)
Theorem C08_union_difference_total :
  (forall (V : Type) (f : N -> V -> V -> V) (a b : wbmap V), union f a b = Some (union_tot f a b)) /\
  (forall (V : Type) (g : N -> V -> V -> option V) (a b : wbmap V),
      difference g a b = Some (difference_tot g a b)).
Proof. exact (conj (@union_tot_some) (@difference_tot_some)). Qed.
Print Assumptions C08_union_difference_total.

(* ================= prefix lookup and prefix iteration ================= *)

Theorem C08_get :
  forall (n : nat) (t : ptree (S n)) (k : N),
    PInv (S n) t ->
    match pt_get n t k with
    | Some r => PInv n r /\ pt_is_empty n r = false /\ tuples n r = restrict k (tuples (S n) t)
    | None => restrict k (tuples (S n) t) = []
    end.
Proof. exact pt_get_spec. Qed.
Print Assumptions C08_get.

Theorem C08_iter_restrictions :
  forall (n : nat) (t : ptree (S n)),
    PInv (S n) t ->
    tuples (S n) t =
      flat_map (fun kr => prefix (fst kr) (tuples n (snd kr))) (pt_iter_restrictions n t) /\
    StronglySorted N.lt (map fst (pt_iter_restrictions n t)) /\
    forall k r, In (k, r) (pt_iter_restrictions n t) <-> pt_get n t k = Some r.
Proof. exact pt_iter_restrictions_spec. Qed.
Print Assumptions C08_iter_restrictions.

(* ================= insertion / removal of a whole sub-relation under a prefix ============== *)

Theorem C08_insert_restriction :
  forall (n : nat) (t : ptree (S n)) (k : N) (r : ptree n),
    PInv (S n) t -> PInv n r ->
    exists t', pt_insert_restriction n t k r = Some t' /\ PInv (S n) t' /\
               tuples (S n) t' = set_union (tuples (S n) t) (prefix k (tuples n r)).
Proof. exact pt_insert_restriction_spec. Qed.
Print Assumptions C08_insert_restriction.

Theorem C08_remove_restriction :
  forall (n : nat) (t : ptree (S n)) (k : N) (r : ptree n),
    PInv (S n) t -> PInv n r ->
    exists t', pt_remove_restriction n t k r = Some t' /\ PInv (S n) t' /\
               tuples (S n) t' = set_difference (tuples (S n) t) (prefix k (tuples n r)).
Proof. exact pt_remove_restriction_spec. Qed.
Print Assumptions C08_remove_restriction.

(* ================= element-wise mapping ================= *)

(* mapped_spec maps l = sort + dedup of the tuples of l mapped componentwise through the
   optional column maps (first value of a key), dropping tuples with an undefined component *)
Theorem C08_mapped :
  forall (n : nat) (t : ptree n) (maps : list (option pt2)),
    PInv n t -> Forall map_ok maps ->
    exists t', pt_mapped n t maps = Some t' /\ PInv n t' /\
               tuples n t' = mapped_spec maps (tuples n t).
Proof. exact pt_mapped_spec. Qed.
Print Assumptions C08_mapped.

(* the graph used by mapped_spec is the least value of the key in the map's own tuple list *)
Theorem C08_mapped_graph :
  forall (mp : pt2) (k : N), PInv 2 mp -> first_val mp k = first_of (tuples 2 mp) k.
Proof. exact first_val_spec. Qed.
Print Assumptions C08_mapped_graph.

(* ================= all laws at once (the shape of the induction on the arity) ============= *)

Theorem C08_laws_every_arity : forall n, laws n (pt_ops n) (PInv n).
Proof. exact pt_laws. Qed.
Print Assumptions C08_laws_every_arity.

(* ================= histories: invariant, no panic, persistence ================= *)

(* every tree of both families (clones and extracted sub-trees included) reachable by a
   well-formed op sequence satisfies PInv *)
Theorem C08_inv_reachable :
  forall (n : nat) (l : list op), Forall (wf_op n) l -> reach_inv n l.
Proof. exact inv_reachable. Qed.
Print Assumptions C08_inv_reachable.

Theorem C08_no_panic :
  forall (n : nat) (l : list op),
    Forall (wf_op n) l -> Forall (fun x : out => fst (fst x) <> None) (run_ops n l).
Proof. exact run_ops_no_error. Qed.
Print Assumptions C08_no_panic.

(* an operation changes no handle but its target *)
Theorem C08_persistence :
  forall (T S : Type) (ot : ops T) (os : ops S) (ro : option (rops T S)) (f : @fam T S) (o : op) (h : N),
    target_m o <> Some h -> get_m ot (step ot os ro f o) h = get_m ot f h.
Proof. exact (@step_other_main). Qed.
Print Assumptions C08_persistence.

Theorem C08_persistence_sub :
  forall (T S : Type) (ot : ops T) (os : ops S) (ro : option (rops T S)) (f : @fam T S) (o : op) (h : N),
    target_s o <> Some h -> get_s os (step ot os ro f o) h = get_s os f h.
Proof. exact (@step_other_sub). Qed.
Print Assumptions C08_persistence_sub.

Theorem C08_clone_snapshot :
  forall (T S : Type) (ot : ops T) (os : ops S) (ro : option (rops T S)) (f : @fam T S)
         (src dst : N) (l : list op),
    (N.to_nat dst < length (mains f))%nat ->
    Forall (fun o => target_m o <> Some dst) l ->
    get_m ot (fold_left (step ot os ro) l (step ot os ro f (Clone src dst))) dst = get_m ot f src.
Proof. exact (@clone_is_snapshot). Qed.
Print Assumptions C08_clone_snapshot.

(* the boolean invariant checker used for the samples and as search oracle is sound *)
Theorem C08_pinv_b_sound : forall (n : nat) (t : ptree n), pinv_b n t = true -> PInv n t.
Proof. exact pinv_b_ok. Qed.
Print Assumptions C08_pinv_b_sound.

(* ================= non-vacuity ================= *)

(* PInv has non-trivial inhabitants at arities 2, 3, 9 (shared prefixes, duplicates) *)
Example C08_ex_inv : PInv 3 sample3 /\ PInv 3 sample3b /\ PInv 2 sample2 /\ PInv 9 sample9.
Proof. exact sample3_inv. Qed.
Example C08_ex_tuples :
  tuples 3 sample3 = [[0;5;5]; [1;0;9]; [1;2;3]; [1;2;4]] /\
  tuples 9 sample9 = [[0;1;1;1;1;1;1;1;1]; [1;1;1;1;1;1;1;1;1]; [1;1;1;1;1;1;1;1;2]].
Proof. exact sample3_tuples. Qed.

(* insert (new / already present), remove (pruning the subtree of key 0 / absent) *)
Example C08_ex_insert_remove :
  option_map (fun p => (tuples 3 (fst p), snd p)) (pt_insert 3 sample3 [1;1;1]) =
    Some ([[0;5;5]; [1;0;9]; [1;1;1]; [1;2;3]; [1;2;4]], true) /\
  option_map (fun p => (tuples 3 (fst p), snd p)) (pt_insert 3 sample3 [1;2;3]) =
    Some ([[0;5;5]; [1;0;9]; [1;2;3]; [1;2;4]], false) /\
  option_map (fun p => (tuples 3 (fst p), snd p, pt_enc 3 (fst p))) (pt_remove 3 sample3 [0;5;5]) =
    Some ([[1;0;9]; [1;2;3]; [1;2;4]], true,
          [1; 1;1;1;0;0; 2; 1;2;2; 1;0;1;0;0; 0; 1; 1;9;1;0;0; 2; 1;3;2;0; 1;4;1;0;0]) /\
  option_map (fun p => (tuples 3 (fst p), snd p)) (pt_remove 3 sample3 [9;9;9]) =
    Some ([[0;5;5]; [1;0;9]; [1;2;3]; [1;2;4]], false).
Proof. exact sample_insert_remove. Qed.

Example C08_ex_union_difference :
  tuples 3 (pt_union 3 sample3 sample3b) = [[0;5;5]; [1;0;9]; [1;2;3]; [1;2;4]; [2;2;2]] /\
  tuples 3 (pt_difference 3 sample3 sample3b) = [[0;5;5]; [1;0;9]; [1;2;3]] /\
  tuples 3 (pt_difference 3 sample3b sample3) = [[2;2;2]] /\
  pt_is_empty 3 (pt_difference 3 sample3 sample3) = true.
Proof. exact sample_union_difference. Qed.

Example C08_ex_get :
  option_map (tuples 2) (pt_get 2 sample3 1) = Some [[0;9]; [2;3]; [2;4]] /\
  restrict 1 (tuples 3 sample3) = [[0;9]; [2;3]; [2;4]] /\
  pt_get 2 sample3 4 = None /\ restrict 4 (tuples 3 sample3) = [] /\
  map (fun kr => (fst kr, tuples 2 (snd kr))) (pt_iter_restrictions 2 sample3) =
    [(0, [[5;5]]); (1, [[0;9]; [2;3]; [2;4]])].
Proof. exact sample_get. Qed.

(* restriction ops, including the two repaired cases: removal that empties the subtree of
   key 0, and insertion of an empty restriction *)
Example C08_ex_restrictions :
  option_map (tuples 3) (pt_insert_restriction 2 sample3 0 sample2) =
    Some [[0;2;3]; [0;2;4]; [0;5;5]; [0;7;7]; [1;0;9]; [1;2;3]; [1;2;4]] /\
  option_map (tuples 3) (pt_remove_restriction 2 sample3 1 sample2) =
    Some [[0;5;5]; [1;0;9]] /\
  option_map (fun t => (tuples 3 t, pinv_b 3 t))
    (pt_remove_restriction 2 sample3 0 (ins_all 2 [[5;5]; [6;6]])) =
    Some ([[1;0;9]; [1;2;3]; [1;2;4]], true) /\
  option_map (fun t => (tuples 3 t, pinv_b 3 t)) (pt_insert_restriction 2 sample3 8 (pt_new 2)) =
    Some ([[0;5;5]; [1;0;9]; [1;2;3]; [1;2;4]], true).
Proof. exact sample_restrictions. Qed.

(* mapped with a partial, non-functional map (first value wins, undefined drops, collisions merge) *)
Example C08_ex_mapped :
  PInv 2 sample_map /\ Forall map_ok [Some sample_map; None; None] /\
  tuples 2 sample_map = [[0;7]; [1;4]; [1;5]] /\
  first_val sample_map 1 = Some 4 /\ first_val sample_map 2 = None /\
  option_map (fun t => (tuples 3 t, pinv_b 3 t)) (pt_mapped 3 sample3 [Some sample_map; None; None]) =
    Some ([[4;0;9]; [4;2;3]; [4;2;4]; [7;5;5]], true) /\
  option_map (fun t => (tuples 3 t, pinv_b 3 t)) (pt_mapped 3 sample3 [None; Some sample_map; None]) =
    Some ([[1;7;9]], true) /\
  mapped_spec [None; Some sample_map; None] (tuples 3 sample3) = [[1;7;9]] /\
  option_map (tuples 3) (pt_mapped 3 sample3 [None; None; Some (mk_map2 [(3,4); (4,4); (5,5); (9,9)])]) =
    Some [[0;5;5]; [1;0;9]; [1;2;4]].
Proof. exact sample_mapped. Qed.

(* a well-formed history with a clone, a removal through remove_restriction that empties the
   tree, and a mutation of a sub-tree cloned out of the clone *)
Example C08_ex_wf : Forall (wf_op 2) sample_ops.
Proof. exact sample_ops_wf. Qed.
Example C08_ex_run :
  map (fun o : out => fst (fst o)) (run_ops 2 sample_ops) =
    [Some [[1]]; Some [[1]]; Some []; Some []; Some [[1]]; Some [[1;2]]; Some [[1]]; Some [[1]];
     Some [[1;2]]].
Proof. exact sample_run. Qed.
Example C08_ex_persistence :
  target_m (Insert 0 [5;5]) <> Some 1 /\
  let f := fold_left (step (pt_ops 2) (pt_ops 1) (Some (pt_rops 1))) [Insert 1 [3;4]]
                     (init_fam (pt_ops 2) (pt_ops 1)) in
  tuples 2 (get_m (pt_ops 2) (step (pt_ops 2) (pt_ops 1) (Some (pt_rops 1)) f (Insert 0 [5;5])) 1)
    = [[3;4]].
Proof. exact sample_persistence. Qed.
Example C08_ex_snapshot :
  (N.to_nat 1 < length (mains (init_fam (pt_ops 2) (pt_ops 1))))%nat /\
  Forall (fun o => target_m o <> Some 1) [Insert 0 [5;6]; RemoveRestriction 0 5 0; Clear 0; InsertSub 1 [6]] /\
  tuples 2 (get_m (pt_ops 2)
     (fold_left (step (pt_ops 2) (pt_ops 1) (Some (pt_rops 1)))
        [Insert 0 [7;7]; Clone 0 1; Insert 0 [5;6]; Clear 0] (init_fam (pt_ops 2) (pt_ops 1))) 1)
  = [[7;7]].
Proof. exact sample_snapshot_hyps. Qed.
