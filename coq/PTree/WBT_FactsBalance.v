(* PTree/WBT_FactsBalance.v -- COPY of coq/WBT/FactsBalance.v (property C14's library).  Content unchanged except
   (1) this three-line header and (2) every line `From WBT Require Import A B ...` reads
   `From PTree Require Import WBT_A WBT_B ...`.  checks/c08.py re-derives this file from the original and compares sha256.  DO NOT EDIT. *)
(* WBT/FactsBalance.v -- cached sizes stay exact and every node stays weight-balanced.
   Nothing here depends on key order. *)

From Coq Require Import NArith List Lia Bool.
From PTree Require Import WBT_Model WBT_Spec.
Import ListNotations.
Open Scope N_scope.

Section BalanceFacts.
Context {V : Type}.
Implicit Types (t l r : tree V) (k key : N) (v : V).

(* sizes_ok and balanced in one recursion, convenient for the arithmetic proofs *)
Fixpoint WB (t : tree V) : Prop :=
  match t with
  | E => True
  | T s l _ _ r => s = 1 + size l + size r /\ baln (size l) (size r) /\ WB l /\ WB r
  end.

Lemma WB_iff t : WB t <-> sizes_ok t /\ balanced t.
Proof.
  induction t as [|s l IHl k v r IHr]; cbn [WB sizes_ok balanced].
  - tauto.
  - rewrite IHl, IHr. tauto.
Qed.

Lemma WB_node l k v r : WB l -> WB r -> baln (size l) (size r) -> WB (node l k v r).
Proof.
  intros Wl Wr Hb. unfold node. cbn [WB].
  split; [reflexivity|]. split; [exact Hb|]. split; assumption.
Qed.

Lemma size_node l k v r : size (node l k v r) = 1 + size l + size r.
Proof. reflexivity. Qed.

Lemma WB_singleton k v : WB (singleton k v).
Proof. unfold singleton. cbn [WB size]. unfold baln. repeat split; lia. Qed.

Ltac wb_finish :=
  cbn [rotate_left rotate_right node WB size] in *; unfold baln in *;
  repeat split; try assumption; lia.

(* One balance step repairs a node whose two (balanced) subtrees are at most one
   insertion or deletion away from a balanced pair of sizes (a, b). *)
Lemma balance_off1 l k v r a b :
  WB l -> WB r -> baln a b ->
  (size l = a + 1 /\ size r = b) \/ (size l = a /\ size r = b + 1) \/
  (size l + 1 = a /\ size r = b) \/ (size l = a /\ size r + 1 = b) ->
  WB (balance (node l k v r)) /\ size (balance (node l k v r)) = 1 + size l + size r.
Proof.
  intros Wl Wr Hab Hoff.
  unfold balance, node. cbn [size]. unfold DELTA, GAMMA.
  destruct (N.ltb_spec (size l + size r) 2) as [H1|H1].
  { wb_finish. }
  destruct (N.ltb_spec (3 * (size l + 1)) (size r + 1)) as [H2|H2].
  - destruct r as [|rs rl rk rv rr]; [cbn [size] in *; lia|].
    cbn [WB] in Wr. destruct Wr as (Hrs & Hrb & Wrl & Wrr). cbn [size] in *.
    destruct (N.ltb_spec (size rl + 1) (2 * (size rr + 1))) as [H3|H3].
    { wb_finish. }
    destruct rl as [|rls rll rlk rlv rlr].
    { cbn [size] in *. unfold baln in *. lia. }
    cbn [WB] in Wrl. destruct Wrl as (Hrls & Hrlb & Wrll & Wrlr). cbn [size] in *.
    wb_finish.
  - destruct (N.ltb_spec (3 * (size r + 1)) (size l + 1)) as [H4|H4].
    + destruct l as [|ls ll lk lv lr]; [cbn [size] in *; lia|].
      cbn [WB] in Wl. destruct Wl as (Hls & Hlb & Wll & Wlr). cbn [size] in *.
      destruct (N.ltb_spec (size lr + 1) (2 * (size ll + 1))) as [H3|H3].
      { wb_finish. }
      destruct lr as [|lrs lrl lrk lrv lrr].
      { cbn [size] in *. unfold baln in *. lia. }
      cbn [WB] in Wlr. destruct Wlr as (Hlrs & Hlrb & Wlrl & Wlrr). cbn [size] in *.
      wb_finish.
    + wb_finish.
Qed.

(* join, recursion into the right tree: nl = join l key value rl, then balance (nl, rr).
   ls = size l, rl = size of r's left child. *)
Lemma balance_join_L nl k v rr ls rl :
  WB nl -> WB rr ->
  size nl = ls + 1 + rl -> baln rl (size rr) -> 3 * ls < rl + size rr + 1 ->
  WB (balance (node nl k v rr)) /\ size (balance (node nl k v rr)) = 1 + size nl + size rr.
Proof.
  intros Wl Wr Hsz Hb Hheavy.
  destruct nl as [|s x xk xv y]; [cbn [size] in *; lia|].
  cbn [WB] in Wl. destruct Wl as (Hs & Hxy & Wx & Wy).
  unfold balance, node. cbn [size] in *. unfold DELTA, GAMMA.
  destruct (N.ltb_spec (s + size rr) 2) as [H1|H1].
  { wb_finish. }
  destruct (N.ltb_spec (3 * (s + 1)) (size rr + 1)) as [H2|H2].
  { unfold baln in *. lia. }
  destruct (N.ltb_spec (3 * (size rr + 1)) (s + 1)) as [H4|H4].
  - destruct (N.ltb_spec (size y + 1) (2 * (size x + 1))) as [H3|H3].
    { wb_finish. }
    destruct y as [|ys yl yk yv yr].
    { cbn [size] in *. unfold baln in *. lia. }
    cbn [WB] in Wy. destruct Wy as (Hys & Hyb & Wyl & Wyr). cbn [size] in *.
    wb_finish.
  - wb_finish.
Qed.

(* mirror image: nr = join lr key value r, then balance (ll, nr). *)
Lemma balance_join_R ll k v nr rs lr :
  WB ll -> WB nr ->
  size nr = lr + 1 + rs -> baln (size ll) lr -> 3 * rs < size ll + lr + 1 ->
  WB (balance (node ll k v nr)) /\ size (balance (node ll k v nr)) = 1 + size ll + size nr.
Proof.
  intros Wl Wr Hsz Hb Hheavy.
  destruct nr as [|s x xk xv y]; [cbn [size] in *; lia|].
  cbn [WB] in Wr. destruct Wr as (Hs & Hxy & Wx & Wy).
  unfold balance, node. cbn [size] in *. unfold DELTA, GAMMA.
  destruct (N.ltb_spec (size ll + s) 2) as [H1|H1].
  { wb_finish. }
  destruct (N.ltb_spec (3 * (size ll + 1)) (s + 1)) as [H2|H2].
  - destruct (N.ltb_spec (size x + 1) (2 * (size y + 1))) as [H3|H3].
    { wb_finish. }
    destruct x as [|xs xl xk' xv' xr].
    { cbn [size] in *. unfold baln in *. lia. }
    cbn [WB] in Wx. destruct Wx as (Hxs & Hxb & Wxl & Wxr). cbn [size] in *.
    wb_finish.
  - destruct (N.ltb_spec (3 * (s + 1)) (size ll + 1)) as [H4|H4].
    { unfold baln in *. lia. }
    wb_finish.
Qed.

(* join's last arm: sizes within a factor of 3 of each other => no rotation happens *)
Lemma balance_noop l k v r :
  WB l -> WB r -> size r <= 3 * size l -> size l <= 3 * size r ->
  WB (balance (node l k v r)) /\ size (balance (node l k v r)) = 1 + size l + size r.
Proof.
  intros Wl Wr H1 H2.
  unfold balance, node. cbn [size]. unfold DELTA, GAMMA.
  destruct (N.ltb_spec (size l + size r) 2) as [H0|H0].
  { wb_finish. }
  destruct (N.ltb_spec (3 * (size l + 1)) (size r + 1)) as [H3|H3]; [lia|].
  destruct (N.ltb_spec (3 * (size r + 1)) (size l + 1)) as [H4|H4]; [lia|].
  wb_finish.
Qed.

(* from here on balance is used only through the four lemmas above *)
Opaque balance.

(* ---------- insert ---------- *)

Lemma insert_simple_WB t key value :
  WB t ->
  WB (fst (insert_simple t key value)) /\
  size (fst (insert_simple t key value)) =
    size t + (match snd (insert_simple t key value) with None => 1 | Some _ => 0 end).
Proof.
  induction t as [|s l IHl k v r IHr]; intros Wt.
  - cbn [insert_simple fst snd]. split; [apply WB_singleton|reflexivity].
  - cbn [WB] in Wt. destruct Wt as (Hs & Hb & Wl & Wr).
    cbn [insert_simple].
    destruct (key ?= k).
    + cbn [fst snd WB size].
      split; [split; [exact Hs|split; [exact Hb|split; assumption]]|lia].
    + destruct (IHl Wl) as (Wl' & Sl'). clear IHl IHr.
      destruct (insert_simple l key value) as [l' old]. cbn [fst snd] in *.
      destruct old as [o|]; cbn [fst snd].
      * split; [|cbn [size node]; lia].
        apply WB_node; try assumption. replace (size l') with (size l) by lia. exact Hb.
      * destruct (balance_off1 l' k v r (size l) (size r) Wl' Wr Hb) as (W & S); [lia|].
        split; [exact W|]. rewrite S. cbn [size]. lia.
    + destruct (IHr Wr) as (Wr' & Sr'). clear IHl IHr.
      destruct (insert_simple r key value) as [r' old]. cbn [fst snd] in *.
      destruct old as [o|]; cbn [fst snd].
      * split; [|cbn [size node]; lia].
        apply WB_node; try assumption. replace (size r') with (size r) by lia. exact Hb.
      * destruct (balance_off1 l k v r' (size l) (size r) Wl Wr' Hb) as (W & S); [lia|].
        split; [exact W|]. rewrite S. cbn [size]. lia.
Qed.

(* ---------- remove_min / remove_existing_node ---------- *)

Lemma remove_min_WB l k v r :
  WB l -> WB r -> baln (size l) (size r) ->
  WB (snd (remove_min l k v r)) /\ size (snd (remove_min l k v r)) = size l + size r.
Proof.
  revert k v r. induction l as [|s ll IHll lk lv lr IHlr]; intros k v r Wl Wr Hb.
  - cbn [remove_min snd size]. split; [assumption|lia].
  - cbn [WB] in Wl. destruct Wl as (Hs & Hlb & Wll & Wlr).
    cbn [remove_min].
    destruct (IHll lk lv lr Wll Wlr Hlb) as (W' & S'). clear IHll IHlr.
    destruct (remove_min ll lk lv lr) as [[mk mv] l']. cbn [snd] in *.
    cbn [size] in *.
    destruct (balance_off1 l' k v r s (size r) W' Wr Hb) as (W & S); [lia|].
    split; [exact W|]. rewrite S. lia.
Qed.

Lemma remove_existing_node_WB t key t' value :
  WB t -> remove_existing_node t key = Some (t', value) ->
  WB t' /\ size t' + 1 = size t.
Proof.
  revert t' value. induction t as [|s l IHl k v r IHr]; intros t' value Wt Hrem.
  - discriminate.
  - cbn [WB] in Wt. destruct Wt as (Hs & Hb & Wl & Wr).
    cbn [remove_existing_node] in Hrem. cbn [size].
    destruct (key ?= k).
    + injection Hrem as <- <-.
      destruct l as [|ls ll lk lv lr]; destruct r as [|rs rl rk rv rr].
      * cbn [size WB] in *. split; [trivial|lia].
      * cbn [size] in *. split; [assumption|lia].
      * cbn [size] in *. split; [assumption|lia].
      * pose proof Wr as Wr0. cbn [WB] in Wr. destruct Wr as (Hrs & Hrb & Wrl & Wrr).
        destruct (remove_min_WB rl rk rv rr Wrl Wrr Hrb) as (W' & S').
        destruct (remove_min rl rk rv rr) as [[mk mv] r']. cbn [snd] in *.
        cbn [size] in *.
        destruct (balance_off1 (T ls ll lk lv lr) mk mv r' ls rs Wl W' Hb) as (W & S);
          [cbn [size]; lia|].
        split; [exact W|]. rewrite S. cbn [size]. lia.
    + destruct (remove_existing_node l key) as [[l' value']|] eqn:El; [|discriminate].
      injection Hrem as <- <-.
      destruct (IHl l' value' Wl eq_refl) as (W' & S').
      destruct (balance_off1 l' k v r (size l) (size r) W' Wr Hb) as (W & S); [lia|].
      split; [exact W|]. rewrite S. lia.
    + destruct (remove_existing_node r key) as [[r' value']|] eqn:Er; [|discriminate].
      injection Hrem as <- <-.
      destruct (IHr r' value' Wr eq_refl) as (W' & S').
      destruct (balance_off1 l k v r' (size l) (size r) Wl W' Hb) as (W & S); [lia|].
      split; [exact W|]. rewrite S. lia.
Qed.

(* ---------- join (arbitrarily unbalanced l against r) ---------- *)

Lemma join_f_WB fuel l key value r t :
  WB l -> WB r -> join_f fuel l key value r = Some t ->
  WB t /\ size t = 1 + size l + size r.
Proof.
  revert l r t. induction fuel as [|f IH]; intros l r t Wl Wr Hj.
  - discriminate.
  - cbn [join_f] in Hj. unfold DELTA in Hj.
    destruct (N.ltb_spec (3 * size l) (size r)) as [H1|H1].
    + destruct r as [|rs rl rk rv rr]; [discriminate|].
      destruct (join_f f l key value rl) as [nl|] eqn:Ej; [|discriminate].
      injection Hj as <-.
      cbn [WB] in Wr. destruct Wr as (Hrs & Hrb & Wrl & Wrr). cbn [size] in *.
      destruct (IH l rl nl Wl Wrl Ej) as (Wnl & Snl).
      destruct (balance_join_L nl rk rv rr (size l) (size rl) Wnl Wrr) as (W & S);
        try assumption; try lia.
      split; [exact W|]. rewrite S. lia.
    + destruct (N.ltb_spec (3 * size r) (size l)) as [H2|H2].
      * destruct l as [|ls ll lk lv lr]; [discriminate|].
        destruct (join_f f lr key value r) as [nr|] eqn:Ej; [|discriminate].
        injection Hj as <-.
        cbn [WB] in Wl. destruct Wl as (Hls & Hlb & Wll & Wlr). cbn [size] in *.
        destruct (IH lr r nr Wlr Wr Ej) as (Wnr & Snr).
        destruct (balance_join_R ll lk lv nr (size r) (size lr) Wll Wnr) as (W & S);
          try assumption; try lia.
        split; [exact W|]. rewrite S. lia.
      * injection Hj as <-. apply balance_noop; assumption.
Qed.

Lemma join_WB l key value r t :
  WB l -> WB r -> join l key value r = Some t -> WB t /\ size t = 1 + size l + size r.
Proof. unfold join. apply join_f_WB. Qed.

(* ---------- split ---------- *)

Lemma split_WB t key a fv b :
  WB t -> split t key = Some (a, fv, b) -> WB a /\ WB b.
Proof.
  revert a fv b. induction t as [|s l IHl k v r IHr]; intros a fv b Wt Hs.
  - cbn [split] in Hs. injection Hs as <- <- <-. split; exact I.
  - cbn [WB] in Wt. destruct Wt as (_ & _ & Wl & Wr).
    cbn [split] in Hs. destruct (key ?= k).
    + injection Hs as <- <- <-. split; assumption.
    + destruct (split l key) as [[[nl fo] nr]|] eqn:El; [|discriminate].
      destruct (join nr k v r) as [jr|] eqn:Ej; [|discriminate].
      injection Hs as <- <- <-.
      destruct (IHl nl fo nr Wl eq_refl) as (Wnl & Wnr).
      split; [exact Wnl|]. eapply join_WB; [exact Wnr|exact Wr|exact Ej].
    + destruct (split r key) as [[[nl fo] nr]|] eqn:Er; [|discriminate].
      destruct (join l k v nl) as [jl|] eqn:Ej; [|discriminate].
      injection Hs as <- <- <-.
      destruct (IHr nl fo nr Wr eq_refl) as (Wnl & Wnr).
      split; [|exact Wnr]. eapply join_WB; [exact Wl|exact Wnl|exact Ej].
Qed.

(* ---------- union ---------- *)

Lemma union_f_WB fuel f l r t :
  WB l -> WB r -> union_f fuel f l r = Some t -> WB t.
Proof.
  revert l r t. induction fuel as [|fu IH]; intros l r t Wl Wr Hu.
  - discriminate.
  - cbn [union_f] in Hu.
    destruct l as [|ls ll lk lv lr]; destruct r as [|rs rl rk rv rr].
    + injection Hu as <-. exact I.
    + injection Hu as <-. exact Wr.
    + injection Hu as <-. exact Wl.
    + destruct (rs <=? ls).
      * destruct (split (T rs rl rk rv rr) lk) as [[[r1 rvo] r2]|] eqn:Es; [|discriminate].
        destruct (split_WB _ _ _ _ _ Wr Es) as (Wr1 & Wr2).
        cbn [WB] in Wl. destruct Wl as (_ & _ & Wll & Wlr).
        destruct (union_f fu f ll r1) as [nl|] eqn:E1; [|discriminate].
        destruct (union_f fu f lr r2) as [nr|] eqn:E2; [|discriminate].
        eapply join_WB; [| |exact Hu].
        -- eapply IH; [exact Wll|exact Wr1|exact E1].
        -- eapply IH; [exact Wlr|exact Wr2|exact E2].
      * destruct (split (T ls ll lk lv lr) rk) as [[[l1 lvo] l2]|] eqn:Es; [|discriminate].
        destruct (split_WB _ _ _ _ _ Wl Es) as (Wl1 & Wl2).
        cbn [WB] in Wr. destruct Wr as (_ & _ & Wrl & Wrr).
        destruct (union_f fu f l1 rl) as [nl|] eqn:E1; [|discriminate].
        destruct (union_f fu f l2 rr) as [nr|] eqn:E2; [|discriminate].
        eapply join_WB; [| |exact Hu].
        -- eapply IH; [exact Wl1|exact Wrl|exact E1].
        -- eapply IH; [exact Wl2|exact Wrr|exact E2].
Qed.

(* ---------- difference ---------- *)

Lemma join_without_key_WB l r t :
  WB l -> WB r -> join_without_key l r = Some t -> WB t.
Proof.
  intros Wl Wr Hj. unfold join_without_key in Hj.
  destruct r as [|rs rl rk rv rr]; [discriminate|].
  cbn [WB] in Wr. destruct Wr as (_ & Hrb & Wrl & Wrr).
  destruct (remove_min_WB rl rk rv rr Wrl Wrr Hrb) as (W' & _).
  destruct (remove_min rl rk rv rr) as [[mk mv] r']. cbn [snd] in W'.
  eapply join_WB; [exact Wl|exact W'|exact Hj].
Qed.

Lemma difference_f_WB fuel g l r t :
  WB l -> WB r -> difference_f fuel g l r = Some t -> WB t.
Proof.
  revert l r t. induction fuel as [|fu IH]; intros l r t Wl Wr Hd.
  - discriminate.
  - cbn [difference_f] in Hd.
    destruct l as [|ls ll lk lv lr].
    { injection Hd as <-. exact I. }
    destruct r as [|rs rl rk rv rr].
    { injection Hd as <-. exact Wl. }
    destruct (split (T rs rl rk rv rr) lk) as [[[r1 rvo] r2]|] eqn:Es; [|discriminate].
    destruct (split_WB _ _ _ _ _ Wr Es) as (Wr1 & Wr2).
    cbn [WB] in Wl. destruct Wl as (_ & _ & Wll & Wlr).
    destruct (difference_f fu g ll r1) as [nl|] eqn:E1; [|discriminate].
    destruct (difference_f fu g lr r2) as [nr|] eqn:E2; [|discriminate].
    assert (Wnl : WB nl) by (eapply IH; [exact Wll|exact Wr1|exact E1]).
    assert (Wnr : WB nr) by (eapply IH; [exact Wlr|exact Wr2|exact E2]).
    destruct rvo as [rv'|].
    + destruct (g lk lv rv') as [nv|].
      * eapply join_WB; [exact Wnl|exact Wnr|exact Hd].
      * destruct nl as [|s1 a1 k1 v1 b1]; destruct nr as [|s2 a2 k2 v2 b2].
        -- injection Hd as <-. exact I.
        -- injection Hd as <-. exact Wnr.
        -- injection Hd as <-. exact Wnl.
        -- eapply join_without_key_WB; [exact Wnl|exact Wnr|exact Hd].
    + eapply join_WB; [exact Wnl|exact Wnr|exact Hd].
Qed.

(* ---------- value rewriting keeps the shape ---------- *)

Lemma size_modify_t key (f : V -> V) t : size (modify_t key f t) = size t.
Proof.
  destruct t as [|s l k v r]; cbn [modify_t]; [reflexivity|].
  destruct (key ?= k); reflexivity.
Qed.

Lemma modify_t_WB key (f : V -> V) t : WB t -> WB (modify_t key f t).
Proof.
  induction t as [|s l IHl k v r IHr]; intros Wt; cbn [modify_t]; [exact I|].
  cbn [WB] in Wt. destruct Wt as (Hs & Hb & Wl & Wr).
  destruct (key ?= k); cbn [WB]; rewrite ?size_modify_t;
    (split; [exact Hs|split; [exact Hb|split; auto]]).
Qed.

Lemma size_map_values_t (f : N -> V -> V) t : size (map_values_t f t) = size t.
Proof. destruct t; reflexivity. Qed.

Lemma map_values_t_WB (f : N -> V -> V) t : WB t -> WB (map_values_t f t).
Proof.
  induction t as [|s l IHl k v r IHr]; intros Wt; cbn [map_values_t]; [exact I|].
  cbn [WB] in Wt. destruct Wt as (Hs & Hb & Wl & Wr).
  cbn [WB]. rewrite !size_map_values_t. split; [exact Hs|split; [exact Hb|split; auto]].
Qed.

(* ---------- cached size = number of bindings ---------- *)

Lemma card_inorder t : card t = length (inorder t).
Proof.
  induction t as [|s l IHl k v r IHr]; cbn [card inorder]; [reflexivity|].
  rewrite app_length. cbn [length]. lia.
Qed.

Lemma sizes_ok_size t : sizes_ok t -> size t = N.of_nat (length (inorder t)).
Proof.
  induction t as [|s l IHl k v r IHr]; cbn [sizes_ok size inorder]; [reflexivity|].
  intros (Hs & Sl & Sr). rewrite app_length. cbn [length].
  rewrite Hs, (IHl Sl), (IHr Sr). lia.
Qed.

(* ---------- logarithmic height ---------- *)

Lemma height_log_WB t : WB t -> 4 ^ height t <= 3 ^ height t * (size t + 1).
Proof.
  induction t as [|s l IHl k v r IHr]; intros Wt.
  - cbn [height size]. cbn. lia.
  - cbn [WB] in Wt. destruct Wt as (Hs & Hb & Wl & Wr).
    specialize (IHl Wl). specialize (IHr Wr).
    cbn [height size]. unfold baln in Hb. destruct Hb as (Hb1 & Hb2).
    replace (1 + N.max (height l) (height r)) with (N.succ (N.max (height l) (height r))) by lia.
    rewrite !N.pow_succ_r'.
    destruct (N.max_spec (height l) (height r)) as [(Hlt & ->)|(Hle & ->)].
    + (* right subtree is the higher one *)
      set (A := 4 ^ height r) in *. set (B := 3 ^ height r) in *. nia.
    + set (A := 4 ^ height l) in *. set (B := 3 ^ height l) in *. nia.
Qed.

Transparent balance.

End BalanceFacts.
