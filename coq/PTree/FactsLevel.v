(* PTree/FactsLevel.v -- the laws of one arity (`laws`), and the level theorem: if the methods
   `sub` of PrefixTree(K-1) satisfy the laws at arity a, then the template `ops_lvl sub` of
   PrefixTreeK satisfies them at arity S a.  Everything is stated by membership
   (`In y (o_iter ..) <-> ...`) plus sortedness; FactsOps.v turns this into list equalities. *)

From Coq Require Import NArith List Lia Bool Sorted.
From PTree Require Import WBT_Model WBT_Spec WBT_FactsList WBT_FactsInv Model Spec FactsLex FactsMap.
Import ListNotations.
Open Scope N_scope.

Section Laws.
Context {T : Type}.

Record laws (a : nat) (o : ops T) (inv : T -> Prop) : Prop := mk_laws {
  l_len : forall t x, inv t -> In x (o_iter o t) -> length x = a;
  l_sorted : forall t, inv t -> lsorted (o_iter o t);
  l_new_inv : inv (o_new o);
  l_new_iter : o_iter o (o_new o) = [];
  l_is_empty : forall t, inv t -> (o_is_empty o t = true <-> o_iter o t = []);
  l_contains : forall t x, inv t -> length x = a ->
    (o_contains o t x = true <-> In x (o_iter o t));
  l_insert : forall t x, inv t -> length x = a ->
    exists t', o_insert o t x = Some (t', negb (o_contains o t x)) /\ inv t' /\
               forall y, In y (o_iter o t') <-> y = x \/ In y (o_iter o t);
  l_remove : forall t x, inv t -> length x = a ->
    exists t', o_remove o t x = Some (t', o_contains o t x) /\ inv t' /\
               forall y, In y (o_iter o t') <-> y <> x /\ In y (o_iter o t);
  l_clear : forall t, inv (o_clear o t) /\ o_iter o (o_clear o t) = [];
  l_union : forall t1 t2, inv t1 -> inv t2 ->
    inv (o_union o t1 t2) /\
    forall y, In y (o_iter o (o_union o t1 t2)) <-> In y (o_iter o t1) \/ In y (o_iter o t2);
  l_difference : forall t1 t2, inv t1 -> inv t2 ->
    inv (o_difference o t1 t2) /\
    forall y, In y (o_iter o (o_difference o t1 t2)) <->
              In y (o_iter o t1) /\ ~ In y (o_iter o t2);
  l_mapped : forall t maps, inv t -> Forall map_ok maps ->
    exists t', o_mapped o t maps = Some t' /\ inv t' /\
               forall y, In y (o_iter o t') <->
                         exists x, In x (o_iter o t) /\ map_tuple maps x = Some y
}.

Lemma laws_nonempty a o inv (H : laws a o inv) t :
  inv t -> (o_is_empty o t = false <-> o_iter o t <> []).
Proof.
  intros Hi. pose proof (l_is_empty a o inv H t Hi) as He.
  destruct (o_is_empty o t); split; intros H1; try congruence.
  - exfalso. apply H1. apply He. reflexivity.
  - intros E. apply He in E. discriminate.
Qed.

Lemma laws_nonempty_of_In a o inv (H : laws a o inv) t x :
  inv t -> In x (o_iter o t) -> o_is_empty o t = false.
Proof.
  intros Hi Hx. apply (laws_nonempty a o inv H t Hi). intros E. rewrite E in Hx. destruct Hx.
Qed.

End Laws.

Ltac eqb_case x y := destruct (N.eqb_spec x y) as [?Heq|?Hne]; [subst x|].

(* ------------------------------------------------------------------ *)
(* PrefixTree0                                                          *)

Lemma laws0 : laws 0 ops0 (fun _ => True).
Proof.
  constructor.
  - intros [|] x _ Hx; cbn in Hx; [destruct Hx as [<-|[]]; reflexivity|destruct Hx].
  - intros [|] _; cbn; repeat constructor.
  - exact I.
  - reflexivity.
  - intros [|] _; cbn; split; congruence.
  - intros t [|h x] _ Hx; [|discriminate]. destruct t; cbn; intuition congruence.
  - intros t [|h x] _ Hx; [|discriminate]. exists true. split; [reflexivity|]. split; [exact I|].
    intros y. destruct t; cbn; intuition congruence.
  - intros t [|h x] _ Hx; [|discriminate]. exists false. split; [reflexivity|]. split; [exact I|].
    intros y. destruct t; cbn; intuition congruence.
  - intros t. split; [exact I|reflexivity].
  - intros [|] [|] _ _; (split; [exact I|]); intros y; cbn; intuition congruence.
  - intros [|] [|] _ _; (split; [exact I|]); intros y; cbn; intuition congruence.
  - intros t maps _ _. exists t. split; [reflexivity|]. split; [exact I|].
    intros y. destruct t; cbn.
    + split.
      * intros [<-|[]]. exists []. split; [left; reflexivity|reflexivity].
      * intros (x & [<-|[]] & Hy). cbn in Hy. injection Hy as <-. left. reflexivity.
    + split; [intros []|intros (x & [] & _)].
Qed.

(* ------------------------------------------------------------------ *)
(* PrefixTreeK over PrefixTree(K-1)                                     *)

Section LevelFacts.
Context {V : Type} (sub : ops V) (invV : V -> Prop) (a : nat) (Hsub : laws a sub invV).

Notation tv := (o_iter sub).
Notation lvl := (ops_lvl sub).
Notation invL := (inv_lvl invV (o_is_empty sub)).

Let s_len := @l_len V a sub invV Hsub.
Let s_sorted := @l_sorted V a sub invV Hsub.
Let s_new_inv := @l_new_inv V a sub invV Hsub.
Let s_new_iter := @l_new_iter V a sub invV Hsub.
Let s_is_empty := @l_is_empty V a sub invV Hsub.
Let s_contains := @l_contains V a sub invV Hsub.
Let s_insert := @l_insert V a sub invV Hsub.
Let s_remove := @l_remove V a sub invV Hsub.
Let s_union := @l_union V a sub invV Hsub.
Let s_difference := @l_difference V a sub invV Hsub.
Let s_mapped := @l_mapped V a sub invV Hsub.
Let s_nonempty := @laws_nonempty V a sub invV Hsub.
Let s_nonempty_of_In := @laws_nonempty_of_In V a sub invV Hsub.

Lemma invL_iff (m : wbmap V) :
  invL m <-> Inv_map m /\ forall k v, get k m = Some v -> invV v /\ o_is_empty sub v = false.
Proof.
  unfold inv_lvl. split; intros (Hm & H); (split; [exact Hm|]).
  - intros k v Hg. rewrite Forall_forall in H. apply (H (k, v)). apply In_iter_get; assumption.
  - rewrite Forall_forall. intros [k v] Hin. cbn [snd]. apply (H k v). apply In_iter_get; assumption.
Qed.

Lemma In_iter_lvl (m : wbmap V) y :
  Inv_map m ->
  (In y (o_iter lvl m) <-> exists k r v, y = k :: r /\ get k m = Some v /\ In r (tv v)).
Proof.
  intros Hm. cbn [ops_lvl o_iter]. rewrite in_flat_map. split.
  - intros ([k v] & Hin & Hy). cbn [fst snd] in Hy. apply in_map_iff in Hy.
    destruct Hy as (r & <- & Hr). exists k, r, v. split; [reflexivity|].
    split; [apply In_iter_get; assumption|exact Hr].
  - intros (k & r & v & -> & Hg & Hr). exists (k, v). split; [apply In_iter_get; assumption|].
    cbn [fst snd]. apply in_map. exact Hr.
Qed.

Lemma lvl_len m x : invL m -> In x (o_iter lvl m) -> length x = S a.
Proof.
  intros Hi Hx. apply invL_iff in Hi. destruct Hi as (Hm & Hp).
  apply (In_iter_lvl m x Hm) in Hx. destruct Hx as (k & r & v & -> & Hg & Hr).
  cbn [length]. f_equal. destruct (Hp k v Hg) as (Hv & _). exact (s_len v r Hv Hr).
Qed.

Lemma lsorted_flat (l : list (N * V)) :
  ssorted l -> (forall k v, In (k, v) l -> lsorted (tv v)) ->
  lsorted (flat_map (fun kv => map (cons (fst kv)) (tv (snd kv))) l).
Proof.
  induction l as [|[k v] l IH]; intros Hs Hv; cbn [flat_map]; [constructor|].
  cbn [ssorted fst] in Hs. destruct Hs as (Hg & Hs). cbn [fst snd].
  apply lsorted_app.
  - apply (lsorted_prefix k). apply (Hv k v). left; reflexivity.
  - apply IH; [exact Hs|]. intros k' v' Hin. apply (Hv k' v'). right; exact Hin.
  - intros x y Hx Hy. apply in_map_iff in Hx. destruct Hx as (r & <- & _).
    apply in_flat_map in Hy. destruct Hy as ([k' v'] & Hin & Hy). cbn [fst snd] in Hy.
    apply in_map_iff in Hy. destruct Hy as (r' & <- & _).
    apply lex_lt_cons_lt. exact (keys_gt_in _ _ _ Hg Hin).
Qed.

Lemma lvl_sorted m : invL m -> lsorted (o_iter lvl m).
Proof.
  intros Hi. apply invL_iff in Hi. destruct Hi as (Hm & Hp). cbn [ops_lvl o_iter].
  apply lsorted_flat; [apply iter_ssorted, Hm|].
  intros k v Hin. apply s_sorted. apply (In_iter_get m k v Hm) in Hin. apply (Hp k v Hin).
Qed.

Lemma lvl_new_inv : invL (o_new lvl).
Proof. apply invL_iff. split; [apply Inv_map_empty|]. intros k v Hg. discriminate. Qed.

Lemma lvl_is_empty m : invL m -> (o_is_empty lvl m = true <-> o_iter lvl m = []).
Proof.
  intros Hi. apply invL_iff in Hi. destruct Hi as (Hm & Hp). cbn [ops_lvl o_is_empty o_iter].
  rewrite (is_empty_iter m Hm). split.
  - intros ->. reflexivity.
  - destruct (iter m) as [|[k v] l] eqn:E; [reflexivity|]. cbn [flat_map fst snd].
    intros H. apply app_eq_nil in H. destruct H as (H & _). apply map_eq_nil in H.
    assert (Hg : get k m = Some v) by (apply In_iter_get; [exact Hm|rewrite E; left; reflexivity]).
    destruct (Hp k v Hg) as (Hv & He). apply (s_nonempty v Hv) in He. contradiction.
Qed.

Lemma lvl_contains m x :
  invL m -> length x = S a -> (o_contains lvl m x = true <-> In x (o_iter lvl m)).
Proof.
  intros Hi Hx. destruct x as [|el0 rest]; [discriminate|]. injection Hx as Hx.
  apply invL_iff in Hi. destruct Hi as (Hm & Hp).
  rewrite (In_iter_lvl m _ Hm). cbn [ops_lvl o_contains]. split.
  - destruct (get el0 m) as [tree|] eqn:Hg; [|discriminate]. intros Hc.
    exists el0, rest, tree. split; [reflexivity|]. split; [exact Hg|].
    apply (s_contains tree rest); [apply (Hp el0 tree Hg)|exact Hx|exact Hc].
  - intros (k & r & v & [= <- <-] & Hg & Hr). rewrite Hg.
    apply (s_contains v rest); [apply (Hp el0 v Hg)|exact Hx|exact Hr].
Qed.

Lemma contains_new rest : length rest = a -> o_contains sub (o_new sub) rest = false.
Proof.
  intros Hx. destruct (o_contains sub (o_new sub) rest) eqn:Hc; [|reflexivity].
  apply (s_contains _ _ s_new_inv Hx) in Hc. rewrite s_new_iter in Hc. destruct Hc.
Qed.

Lemma lvl_insert m x :
  invL m -> length x = S a ->
  exists m', o_insert lvl m x = Some (m', negb (o_contains lvl m x)) /\ invL m' /\
             forall y, In y (o_iter lvl m') <-> y = x \/ In y (o_iter lvl m).
Proof.
  intros Hi Hx. destruct x as [|el0 rest]; [discriminate|]. injection Hx as Hx.
  apply invL_iff in Hi. destruct Hi as (Hm & Hp).
  cbn [ops_lvl o_insert o_contains].
  destruct (or_insert_with_get el0 m (fun _ => o_new sub) Hm) as (m1 & v & -> & Hm1 & Hv & Hg1).
  assert (Hvi : invV v).
  { rewrite Hv. destruct (get el0 m) as [y0|] eqn:Hg; [apply (Hp el0 y0 Hg)|apply s_new_inv]. }
  destruct (s_insert v rest Hvi Hx) as (v' & -> & Hv'i & Hv'm).
  destruct (modify_get el0 (fun _ => v') m1 Hm1) as (Hm2 & Hg2).
  assert (Hget : forall k', get k' (modify el0 (fun _ => v') m1) =
                            if k' =? el0 then Some v' else get k' m).
  { intros k'. rewrite Hg2, Hg1. destruct (k' =? el0); reflexivity. }
  assert (Hret : o_contains sub v rest =
                 match get el0 m with None => false | Some tree => o_contains sub tree rest end).
  { rewrite Hv. destruct (get el0 m); [reflexivity|apply contains_new, Hx]. }
  assert (Hslice : forall r, In r (tv v) -> get el0 m = Some v).
  { intros r Hr. rewrite Hv in *. destruct (get el0 m); [reflexivity|].
    rewrite s_new_iter in Hr. destruct Hr. }
  exists (modify el0 (fun _ => v') m1). split; [rewrite Hret; reflexivity|]. split.
  { apply invL_iff. split; [exact Hm2|]. intros k' w. rewrite Hget. eqb_case k' el0.
    - intros [= <-]. split; [exact Hv'i|]. apply (s_nonempty_of_In v' rest Hv'i).
      apply Hv'm. left; reflexivity.
    - apply Hp. }
  intros y. rewrite (In_iter_lvl _ y Hm2), (In_iter_lvl m y Hm). split.
  - intros (k' & r & w & -> & Hgw & Hr). rewrite Hget in Hgw. eqb_case k' el0.
    + injection Hgw as <-. apply Hv'm in Hr. destruct Hr as [->|Hr]; [left; reflexivity|].
      right. exists el0, r, v. split; [reflexivity|]. split; [exact (Hslice r Hr)|exact Hr].
    + right. exists k', r, w. auto.
  - intros [->|(k' & r & w & -> & Hgw & Hr)].
    + exists el0, rest, v'. split; [reflexivity|]. split; [rewrite Hget, N.eqb_refl; reflexivity|].
      apply Hv'm. left; reflexivity.
    + eqb_case k' el0.
      * exists el0, r, v'. split; [reflexivity|]. split; [rewrite Hget, N.eqb_refl; reflexivity|].
        apply Hv'm. right. rewrite Hv, Hgw. exact Hr.
      * exists k', r, w. split; [reflexivity|]. split; [|exact Hr].
        rewrite Hget. destruct (N.eqb_spec k' el0); [contradiction|exact Hgw].
Qed.

Lemma lvl_remove m x :
  invL m -> length x = S a ->
  exists m', o_remove lvl m x = Some (m', o_contains lvl m x) /\ invL m' /\
             forall y, In y (o_iter lvl m') <-> y <> x /\ In y (o_iter lvl m).
Proof.
  intros Hi Hx. destruct x as [|el0 rest]; [discriminate|]. injection Hx as Hx.
  pose proof Hi as Hi0. apply invL_iff in Hi. destruct Hi as (Hm & Hp).
  cbn [ops_lvl o_remove o_contains].
  destruct (get el0 m) as [tree|] eqn:Hg.
  - rewrite (entry_of_some el0 m tree Hg). cbv beta iota zeta.
    rewrite (occ_get_mut_some el0 m tree Hg). cbv beta iota zeta.
    destruct (Hp el0 tree Hg) as (Hti & Hte).
    destruct (s_remove tree rest Hti Hx) as (tree' & -> & Ht'i & Ht'm).
    destruct (modify_set_get el0 tree tree' m Hm Hg) as (Hm2 & Hget2).
    destruct (o_is_empty sub tree') eqn:He.
    + assert (Hg2 : get el0 (modify el0 (fun _ => tree') m) = Some tree')
        by (rewrite Hget2, N.eqb_refl; reflexivity).
      destruct (occ_remove_get el0 _ tree' Hm2 Hg2) as (m3 & -> & Hm3 & Hg3).
      assert (Hget3 : forall k', get k' m3 = if k' =? el0 then None else get k' m).
      { intros k'. rewrite Hg3, Hget2. destruct (k' =? el0); reflexivity. }
      apply (s_is_empty tree' Ht'i) in He.
      exists m3. split; [reflexivity|]. split.
      { apply invL_iff. split; [exact Hm3|]. intros k' w. rewrite Hget3.
        destruct (k' =? el0); [discriminate|apply Hp]. }
      intros y. rewrite (In_iter_lvl m3 y Hm3), (In_iter_lvl m y Hm). split.
      * intros (k' & r & w & -> & Hgw & Hr). rewrite Hget3 in Hgw.
        destruct (N.eqb_spec k' el0) as [Heq|Hne]; [discriminate|].
        split; [intros [= E _]; contradiction|exists k', r, w; auto].
      * intros (Hne & k' & r & w & -> & Hgw & Hr). destruct (N.eqb_spec k' el0) as [Heq|Hne'].
        -- exfalso. subst k'. rewrite Hg in Hgw. injection Hgw as <-.
           assert (Hin : In r (tv tree')).
           { apply Ht'm. split; [intros ->; apply Hne; reflexivity|exact Hr]. }
           rewrite He in Hin. destruct Hin.
        -- exists k', r, w. split; [reflexivity|]. split; [|exact Hr].
           rewrite Hget3. destruct (N.eqb_spec k' el0); [contradiction|exact Hgw].
    + exists (modify el0 (fun _ => tree') m). split; [reflexivity|]. split.
      { apply invL_iff. split; [exact Hm2|]. intros k' w. rewrite Hget2.
        destruct (N.eqb_spec k' el0) as [Heq|Hne].
        - intros [= <-]. split; assumption.
        - apply Hp. }
      intros y. rewrite (In_iter_lvl _ y Hm2), (In_iter_lvl m y Hm). split.
      * intros (k' & r & w & -> & Hgw & Hr). rewrite Hget2 in Hgw.
        destruct (N.eqb_spec k' el0) as [Heq|Hne].
        -- subst k'. injection Hgw as <-. apply Ht'm in Hr. destruct Hr as (Hne & Hr).
           split; [intros [= E]; contradiction|exists el0, r, tree; auto].
        -- split; [intros [= E _]; contradiction|exists k', r, w; auto].
      * intros (Hne & k' & r & w & -> & Hgw & Hr). destruct (N.eqb_spec k' el0) as [Heq|Hne'].
        -- subst k'. rewrite Hg in Hgw. injection Hgw as <-.
           exists el0, r, tree'. split; [reflexivity|].
           split; [rewrite Hget2, N.eqb_refl; reflexivity|].
           apply Ht'm. split; [intros ->; apply Hne; reflexivity|exact Hr].
        -- exists k', r, w. split; [reflexivity|]. split; [|exact Hr].
           rewrite Hget2. destruct (N.eqb_spec k' el0); [contradiction|exact Hgw].
  - rewrite (entry_of_none el0 m Hg). exists m. split; [reflexivity|]. split; [exact Hi0|].
    intros y. split; [|tauto]. intros Hy. split; [|exact Hy]. intros ->.
    apply (In_iter_lvl m _ Hm) in Hy. destruct Hy as (k & r & v & [= <- <-] & Hgv & _). congruence.
Qed.

Lemma lvl_clear m : invL (o_clear lvl m) /\ o_iter lvl (o_clear lvl m) = [].
Proof. split; [apply lvl_new_inv|reflexivity]. Qed.

Lemma lvl_union m1 m2 :
  invL m1 -> invL m2 ->
  invL (o_union lvl m1 m2) /\
  forall y, In y (o_iter lvl (o_union lvl m1 m2)) <-> In y (o_iter lvl m1) \/ In y (o_iter lvl m2).
Proof.
  intros H1 H2. apply invL_iff in H1, H2. destruct H1 as (Hm1 & Hp1). destruct H2 as (Hm2 & Hp2).
  change (o_union lvl m1 m2) with (union_tot (fun _ val1 val2 => o_union sub val1 val2) m1 m2).
  destruct (union_tot_get (fun _ val1 val2 => o_union sub val1 val2) m1 m2 Hm1 Hm2) as (Hm & Hg).
  split.
  - apply invL_iff. split; [exact Hm|]. intros k v. rewrite Hg. unfold union_law.
    destruct (get k m1) as [x1|] eqn:E1; destruct (get k m2) as [x2|] eqn:E2.
    + intros [= <-]. destruct (Hp1 k x1 E1) as (I1 & N1). destruct (Hp2 k x2 E2) as (I2 & N2).
      destruct (s_union x1 x2 I1 I2) as (Iu & Mu). split; [exact Iu|].
      apply (s_nonempty _ I1) in N1. destruct (tv x1) as [|r l] eqn:Er; [congruence|].
      apply (s_nonempty_of_In _ r Iu). apply Mu. left. left; reflexivity.
    + intros [= <-]. apply (Hp1 k x1 E1).
    + intros [= <-]. apply (Hp2 k x2 E2).
    + discriminate.
  - intros y. rewrite (In_iter_lvl _ y Hm), (In_iter_lvl m1 y Hm1), (In_iter_lvl m2 y Hm2). split.
    + intros (k & r & v & -> & Hgv & Hr). rewrite Hg in Hgv. unfold union_law in Hgv.
      destruct (get k m1) as [x1|] eqn:E1; destruct (get k m2) as [x2|] eqn:E2.
      * injection Hgv as <-. destruct (Hp1 k x1 E1) as (I1 & _). destruct (Hp2 k x2 E2) as (I2 & _).
        destruct (s_union x1 x2 I1 I2) as (_ & Mu). apply Mu in Hr.
        destruct Hr as [Hr|Hr]; [left; exists k, r, x1|right; exists k, r, x2]; auto.
      * injection Hgv as <-. left. exists k, r, x1. auto.
      * injection Hgv as <-. right. exists k, r, x2. auto.
      * discriminate.
    + intros [(k & r & v & -> & Hgv & Hr)|(k & r & v & -> & Hgv & Hr)].
      * destruct (get k m2) as [x2|] eqn:E2.
        -- exists k, r, (o_union sub v x2). split; [reflexivity|].
           split; [rewrite Hg, Hgv, E2; reflexivity|].
           destruct (Hp1 k v Hgv) as (I1 & _). destruct (Hp2 k x2 E2) as (I2 & _).
           apply (s_union v x2 I1 I2). left; exact Hr.
        -- exists k, r, v. split; [reflexivity|]. split; [rewrite Hg, Hgv, E2; reflexivity|exact Hr].
      * destruct (get k m1) as [x1|] eqn:E1.
        -- exists k, r, (o_union sub x1 v). split; [reflexivity|].
           split; [rewrite Hg, Hgv, E1; reflexivity|].
           destruct (Hp1 k x1 E1) as (I1 & _). destruct (Hp2 k v Hgv) as (I2 & _).
           apply (s_union x1 v I1 I2). right; exact Hr.
        -- exists k, r, v. split; [reflexivity|]. split; [rewrite Hg, Hgv, E1; reflexivity|exact Hr].
Qed.

Definition diff_cb (_ : N) (val1 val2 : V) : option V :=
  let diff_result := o_difference sub val1 val2 in
  if o_is_empty sub diff_result then None else Some diff_result.

Lemma lvl_difference m1 m2 :
  invL m1 -> invL m2 ->
  invL (o_difference lvl m1 m2) /\
  forall y, In y (o_iter lvl (o_difference lvl m1 m2)) <->
            In y (o_iter lvl m1) /\ ~ In y (o_iter lvl m2).
Proof.
  intros H1 H2. apply invL_iff in H1, H2. destruct H1 as (Hm1 & Hp1). destruct H2 as (Hm2 & Hp2).
  change (o_difference lvl m1 m2) with (difference_tot diff_cb m1 m2).
  destruct (difference_tot_get diff_cb m1 m2 Hm1 Hm2) as (Hm & Hg).
  split.
  - apply invL_iff. split; [exact Hm|]. intros k v. rewrite Hg. unfold difference_law.
    destruct (get k m1) as [x1|] eqn:E1; [|discriminate]. destruct (get k m2) as [x2|] eqn:E2.
    + unfold diff_cb. cbv zeta. destruct (o_is_empty sub (o_difference sub x1 x2)) eqn:He; [discriminate|].
      intros [= <-]. destruct (Hp1 k x1 E1) as (I1 & _). destruct (Hp2 k x2 E2) as (I2 & _).
      split; [apply (s_difference x1 x2 I1 I2)|exact He].
    + intros [= <-]. apply (Hp1 k x1 E1).
  - intros y. rewrite (In_iter_lvl _ y Hm), (In_iter_lvl m1 y Hm1), (In_iter_lvl m2 y Hm2). split.
    + intros (k & r & v & -> & Hgv & Hr). rewrite Hg in Hgv. unfold difference_law in Hgv.
      destruct (get k m1) as [x1|] eqn:E1; [|discriminate]. destruct (get k m2) as [x2|] eqn:E2.
      * unfold diff_cb in Hgv. cbv zeta in Hgv.
        destruct (o_is_empty sub (o_difference sub x1 x2)) eqn:He; [discriminate|].
        injection Hgv as <-. destruct (Hp1 k x1 E1) as (I1 & _). destruct (Hp2 k x2 E2) as (I2 & _).
        apply (s_difference x1 x2 I1 I2) in Hr. destruct Hr as (Hr1 & Hr2).
        split; [exists k, r, x1; auto|].
        intros (k' & r' & w & [= <- <-] & Hgw & Hrw). rewrite E2 in Hgw. injection Hgw as <-. contradiction.
      * injection Hgv as <-. split; [exists k, r, x1; auto|].
        intros (k' & r' & w & [= <- <-] & Hgw & _). congruence.
    + intros ((k & r & x1 & -> & E1 & Hr) & Hn). destruct (get k m2) as [x2|] eqn:E2.
      * destruct (Hp1 k x1 E1) as (I1 & _). destruct (Hp2 k x2 E2) as (I2 & _).
        destruct (s_difference x1 x2 I1 I2) as (Id & Md).
        assert (Hrd : In r (tv (o_difference sub x1 x2))).
        { apply Md. split; [exact Hr|]. intros Hr2. apply Hn. exists k, r, x2. auto. }
        exists k, r, (o_difference sub x1 x2). split; [reflexivity|]. split; [|exact Hrd].
        rewrite Hg, E1, E2. unfold difference_law, diff_cb. cbv zeta.
        rewrite (s_nonempty_of_In _ r Id Hrd). reflexivity.
      * exists k, r, x1. split; [reflexivity|]. split; [|exact Hr].
        rewrite Hg, E1, E2. reflexivity.
Qed.

(* ---------- restriction methods ---------- *)

Lemma lvl_insert_restriction m k r :
  invL m -> invV r ->
  exists m', insert_restriction_lvl sub m k r = Some m' /\ invL m' /\
             forall y, In y (o_iter lvl m') <->
                       In y (o_iter lvl m) \/ exists r0, y = k :: r0 /\ In r0 (tv r).
Proof.
  intros Hi Hr. pose proof Hi as Hi0. apply invL_iff in Hi. destruct Hi as (Hm & Hp).
  unfold insert_restriction_lvl. destruct (o_is_empty sub r) eqn:He.
  - exists m. split; [reflexivity|]. split; [exact Hi0|]. intros y. split; [auto|].
    intros [H|(r0 & -> & H0)]; [exact H|].
    apply (s_is_empty r Hr) in He. rewrite He in H0. destruct H0.
  - destruct (get k m) as [v|] eqn:Hg.
    + rewrite (entry_of_some k m v Hg). cbv beta iota zeta.
      rewrite (occ_get_mut_some k m v Hg). cbv beta iota zeta.
      rewrite (occ_get_mut_some k m v Hg). cbv beta iota zeta.
      destruct (Hp k v Hg) as (Hvi & Hve). destruct (s_union v r Hvi Hr) as (Hui & Hum).
      destruct (modify_set_get k v (o_union sub v r) m Hm Hg) as (Hm2 & Hget2).
      eexists. split; [reflexivity|]. split.
      { apply invL_iff. split; [exact Hm2|]. intros k' w. rewrite Hget2.
        destruct (N.eqb_spec k' k) as [Heq|Hne]; [|apply Hp].
        intros [= <-]. split; [exact Hui|].
        apply (s_nonempty r Hr) in He. destruct (tv r) as [|r0 l] eqn:Er; [congruence|].
        apply (s_nonempty_of_In _ r0 Hui). apply Hum. right. left; reflexivity. }
      intros y. rewrite (In_iter_lvl _ y Hm2), (In_iter_lvl m y Hm). split.
      * intros (k' & r0 & w & -> & Hgw & Hr0). rewrite Hget2 in Hgw.
        destruct (N.eqb_spec k' k) as [Heq|Hne].
        -- subst k'. injection Hgw as <-. apply Hum in Hr0. destruct Hr0 as [Hr0|Hr0].
           ++ left. exists k, r0, v. auto.
           ++ right. exists r0. auto.
        -- left. exists k', r0, w. auto.
      * intros [(k' & r0 & w & -> & Hgw & Hr0)|(r0 & -> & Hr0)].
        -- destruct (N.eqb_spec k' k) as [Heq|Hne].
           ++ subst k'. rewrite Hg in Hgw. injection Hgw as <-.
              exists k, r0, (o_union sub v r). split; [reflexivity|].
              split; [rewrite Hget2, N.eqb_refl; reflexivity|]. apply Hum. left; exact Hr0.
           ++ exists k', r0, w. split; [reflexivity|]. split; [|exact Hr0].
              rewrite Hget2. destruct (N.eqb_spec k' k); [contradiction|exact Hgw].
        -- exists k, r0, (o_union sub v r). split; [reflexivity|].
           split; [rewrite Hget2, N.eqb_refl; reflexivity|]. apply Hum. right; exact Hr0.
    + rewrite (entry_of_none k m Hg). cbv beta iota zeta.
      destruct (vac_insert_get k m r Hm) as (m1 & -> & Hm1 & Hg1). cbv beta iota zeta.
      exists m1. split; [reflexivity|]. split.
      { apply invL_iff. split; [exact Hm1|]. intros k' w. rewrite Hg1.
        destruct (N.eqb_spec k' k) as [Heq|Hne]; [|apply Hp].
        intros [= <-]. split; assumption. }
      intros y. rewrite (In_iter_lvl _ y Hm1), (In_iter_lvl m y Hm). split.
      * intros (k' & r0 & w & -> & Hgw & Hr0). rewrite Hg1 in Hgw.
        destruct (N.eqb_spec k' k) as [Heq|Hne].
        -- subst k'. injection Hgw as <-. right. exists r0. auto.
        -- left. exists k', r0, w. auto.
      * intros [(k' & r0 & w & -> & Hgw & Hr0)|(r0 & -> & Hr0)].
        -- exists k', r0, w. split; [reflexivity|]. split; [|exact Hr0].
           rewrite Hg1. destruct (N.eqb_spec k' k) as [Heq|Hne]; [subst k'; congruence|exact Hgw].
        -- exists k, r0, r. split; [reflexivity|].
           split; [rewrite Hg1, N.eqb_refl; reflexivity|exact Hr0].
Qed.

Lemma lvl_remove_restriction m k r :
  invL m -> invV r ->
  exists m', remove_restriction_lvl sub m k r = Some m' /\ invL m' /\
             forall y, In y (o_iter lvl m') <->
                       In y (o_iter lvl m) /\ ~ exists r0, y = k :: r0 /\ In r0 (tv r).
Proof.
  intros Hi Hr. pose proof Hi as Hi0. apply invL_iff in Hi. destruct Hi as (Hm & Hp).
  unfold remove_restriction_lvl. destruct (get k m) as [v|] eqn:Hg.
  - rewrite (entry_of_some k m v Hg). cbv beta iota zeta.
    rewrite (occ_get_mut_some k m v Hg). cbv beta iota zeta.
    rewrite (occ_get_mut_some k m v Hg). cbv beta iota zeta.
    destruct (Hp k v Hg) as (Hvi & Hve). destruct (s_difference v r Hvi Hr) as (Hdi & Hdm).
    destruct (modify_set_get k v (o_difference sub v r) m Hm Hg) as (Hm3 & Hget3).
    assert (Hg3 : get k (modify k (fun _ => o_difference sub v r) m) = Some (o_difference sub v r))
      by (rewrite Hget3, N.eqb_refl; reflexivity).
    rewrite (occ_get_mut_some k _ _ Hg3). cbv beta iota zeta.
    destruct (o_is_empty sub (o_difference sub v r)) eqn:He.
    + destruct (occ_remove_get k _ _ Hm3 Hg3) as (m5 & -> & Hm5 & Hg5). cbv beta iota zeta.
      assert (Hget5 : forall k', get k' m5 = if k' =? k then None else get k' m).
      { intros k'. rewrite Hg5, Hget3. destruct (k' =? k); reflexivity. }
      apply (s_is_empty _ Hdi) in He.
      exists m5. split; [reflexivity|]. split.
      { apply invL_iff. split; [exact Hm5|]. intros k' w. rewrite Hget5.
        destruct (k' =? k); [discriminate|apply Hp]. }
      intros y. rewrite (In_iter_lvl m5 y Hm5), (In_iter_lvl m y Hm). split.
      * intros (k' & r0 & w & -> & Hgw & Hr0). rewrite Hget5 in Hgw.
        destruct (N.eqb_spec k' k) as [Heq|Hne]; [discriminate|].
        split; [exists k', r0, w; auto|]. intros (r1 & [= E _] & _). contradiction.
      * intros ((k' & r0 & w & -> & Hgw & Hr0) & Hn). destruct (N.eqb_spec k' k) as [Heq|Hne].
        -- exfalso. subst k'. rewrite Hg in Hgw. injection Hgw as <-.
           assert (Hin : In r0 (tv (o_difference sub v r))).
           { apply Hdm. split; [exact Hr0|]. intros Hr1. apply Hn. exists r0. auto. }
           rewrite He in Hin. destruct Hin.
        -- exists k', r0, w. split; [reflexivity|]. split; [|exact Hr0].
           rewrite Hget5. destruct (N.eqb_spec k' k); [contradiction|exact Hgw].
    + eexists. split; [reflexivity|]. split.
      { apply invL_iff. split; [exact Hm3|]. intros k' w. rewrite Hget3.
        destruct (N.eqb_spec k' k) as [Heq|Hne]; [|apply Hp].
        intros [= <-]. split; assumption. }
      intros y. rewrite (In_iter_lvl _ y Hm3), (In_iter_lvl m y Hm). split.
      * intros (k' & r0 & w & -> & Hgw & Hr0). rewrite Hget3 in Hgw.
        destruct (N.eqb_spec k' k) as [Heq|Hne].
        -- subst k'. injection Hgw as <-. apply Hdm in Hr0. destruct Hr0 as (Hr0 & Hr1).
           split; [exists k, r0, v; auto|]. intros (r1 & [= <-] & Hr2). contradiction.
        -- split; [exists k', r0, w; auto|]. intros (r1 & [= E _] & _). contradiction.
      * intros ((k' & r0 & w & -> & Hgw & Hr0) & Hn). destruct (N.eqb_spec k' k) as [Heq|Hne].
        -- subst k'. rewrite Hg in Hgw. injection Hgw as <-.
           exists k, r0, (o_difference sub v r). split; [reflexivity|]. split; [exact Hg3|].
           apply Hdm. split; [exact Hr0|]. intros Hr1. apply Hn. exists r0. auto.
        -- exists k', r0, w. split; [reflexivity|]. split; [|exact Hr0].
           rewrite Hget3. destruct (N.eqb_spec k' k); [contradiction|exact Hgw].
  - rewrite (entry_of_none k m Hg). exists m. split; [reflexivity|]. split; [exact Hi0|].
    intros y. split; [|tauto]. intros Hy. split; [exact Hy|]. intros (r0 & -> & _).
    apply (In_iter_lvl m _ Hm) in Hy. destruct Hy as (k' & r' & w & [= <- <-] & Hgw & _). congruence.
Qed.

Lemma lvl_get_some m k v :
  invL m -> get_lvl m k = Some v ->
  invV v /\ o_is_empty sub v = false /\ forall r0, In r0 (tv v) <-> In (k :: r0) (o_iter lvl m).
Proof.
  intros Hi Hg. apply invL_iff in Hi. destruct Hi as (Hm & Hp). unfold get_lvl in Hg.
  destruct (Hp k v Hg) as (Hv & He). split; [exact Hv|]. split; [exact He|].
  intros r0. rewrite (In_iter_lvl m _ Hm). split.
  - intros H. exists k, r0, v. auto.
  - intros (k' & r' & w & [= <- <-] & Hgw & Hr). rewrite Hg in Hgw. injection Hgw as <-. exact Hr.
Qed.

Lemma lvl_get_none m k :
  invL m -> get_lvl m k = None -> forall r0, ~ In (k :: r0) (o_iter lvl m).
Proof.
  intros Hi Hg r0 Hin. apply invL_iff in Hi. destruct Hi as (Hm & Hp). unfold get_lvl in Hg.
  apply (In_iter_lvl m _ Hm) in Hin. destruct Hin as (k' & r' & w & [= <- <-] & Hgw & _). congruence.
Qed.

Lemma lvl_iter_restrictions m :
  invL m ->
  o_iter lvl m = flat_map (fun kr => prefix (fst kr) (tv (snd kr))) (iter_restrictions_lvl m) /\
  StronglySorted N.lt (map fst (iter_restrictions_lvl m)) /\
  forall k v, In (k, v) (iter_restrictions_lvl m) <-> get_lvl m k = Some v.
Proof.
  intros Hi. apply invL_iff in Hi. destruct Hi as (Hm & Hp).
  split; [reflexivity|]. split; [apply iter_sorted, Hm|].
  intros k v. apply In_iter_get, Hm.
Qed.

(* ---------- mapped ---------- *)

Lemma Forall_tl {A} (P : A -> Prop) l : Forall P l -> Forall P (tl l).
Proof. intros H. destruct l; [constructor|]. inversion H; assumption. Qed.

Lemma mapped_step_spec maps res k v :
  Forall map_ok maps -> invV v -> invL res ->
  exists res', mapped_step sub (hd None maps) (tl maps) (Some res) (k, v) = Some res' /\ invL res' /\
    forall y, In y (o_iter lvl res') <->
              In y (o_iter lvl res) \/ exists r, In r (tv v) /\ map_tuple maps (k :: r) = Some y.
Proof.
  intros Hmaps Hv Hres. unfold mapped_step. cbn [fst snd].
  change (match hd None maps with
          | None => Some k
          | Some mp => match get k mp with None => None | Some restriction => ws_first restriction end
          end) with (map_col (hd None maps) k).
  destruct (map_col (hd None maps) k) as [new_k|] eqn:Hc.
  - destruct (s_mapped v (tl maps) Hv (Forall_tl _ _ Hmaps)) as (new_v & -> & Hnvi & Hnvm).
    destruct (lvl_insert_restriction res new_k new_v Hres Hnvi) as (res' & -> & Hi' & Hm').
    exists res'. split; [reflexivity|]. split; [exact Hi'|].
    intros y. rewrite Hm'. split.
    + intros [H|(r0 & -> & Hr0)]; [left; exact H|]. right. apply Hnvm in Hr0.
      destruct Hr0 as (r & Hr & Hmr). exists r. split; [exact Hr|].
      cbn [map_tuple]. rewrite Hc, Hmr. reflexivity.
    + intros [H|(r & Hr & Hmr)]; [left; exact H|]. right.
      cbn [map_tuple] in Hmr. rewrite Hc in Hmr.
      destruct (map_tuple (tl maps) r) as [r0|] eqn:Hr0; [|discriminate]. injection Hmr as <-.
      exists r0. split; [reflexivity|]. apply Hnvm. exists r. auto.
  - exists res. split; [reflexivity|]. split; [exact Hres|].
    intros y. split; [auto|]. intros [H|(r & Hr & Hmr)]; [exact H|].
    cbn [map_tuple] in Hmr. rewrite Hc in Hmr. discriminate.
Qed.

Lemma mapped_fold maps (l : list (N * V)) res :
  Forall map_ok maps -> (forall k v, In (k, v) l -> invV v) -> invL res ->
  exists res', fold_left (mapped_step sub (hd None maps) (tl maps)) l (Some res) = Some res' /\
    invL res' /\
    forall y, In y (o_iter lvl res') <->
              In y (o_iter lvl res) \/
              exists k v r, In (k, v) l /\ In r (tv v) /\ map_tuple maps (k :: r) = Some y.
Proof.
  intros Hmaps. revert res. induction l as [|[k v] l IH]; intros res Hl Hres; cbn [fold_left].
  - exists res. split; [reflexivity|]. split; [exact Hres|]. intros y. split; [auto|].
    intros [H|(k & v & r & [] & _)]. exact H.
  - destruct (mapped_step_spec maps res k v Hmaps (Hl k v (or_introl eq_refl)) Hres)
      as (res1 & -> & Hres1 & Hm1).
    destruct (IH res1 (fun k' v' H => Hl k' v' (or_intror H)) Hres1) as (res' & Hf & Hres' & Hm').
    exists res'. split; [exact Hf|]. split; [exact Hres'|].
    intros y. rewrite Hm', Hm1. split.
    + intros [[H|(r & Hr & Hmr)]|(k' & v' & r & Hin & Hr & Hmr)].
      * left; exact H.
      * right. exists k, v, r. split; [left; reflexivity|]. auto.
      * right. exists k', v', r. split; [right; exact Hin|]. auto.
    + intros [H|(k' & v' & r & [[= <- <-]|Hin] & Hr & Hmr)].
      * left; left; exact H.
      * left; right. exists r. auto.
      * right. exists k', v', r. auto.
Qed.

Lemma lvl_mapped m maps :
  invL m -> Forall map_ok maps ->
  exists m', o_mapped lvl m maps = Some m' /\ invL m' /\
             forall y, In y (o_iter lvl m') <->
                       exists x, In x (o_iter lvl m) /\ map_tuple maps x = Some y.
Proof.
  intros Hi Hmaps. apply invL_iff in Hi. destruct Hi as (Hm & Hp).
  cbn [ops_lvl o_mapped].
  destruct (mapped_fold maps (iter m) empty Hmaps) as (m' & Hf & Hi' & Hm').
  { intros k v Hin. apply (In_iter_get m k v Hm) in Hin. apply (Hp k v Hin). }
  { apply lvl_new_inv. }
  exists m'. split; [exact Hf|]. split; [exact Hi'|].
  intros y. rewrite Hm'. split.
  - intros [H|(k & v & r & Hin & Hr & Hmr)]; [destruct H|].
    exists (k :: r). split; [|exact Hmr]. apply (In_iter_lvl m _ Hm).
    exists k, r, v. split; [reflexivity|]. split; [apply In_iter_get; assumption|exact Hr].
  - intros (x & Hx & Hmx). right. apply (In_iter_lvl m _ Hm) in Hx.
    destruct Hx as (k & r & v & -> & Hg & Hr). exists k, v, r.
    split; [apply In_iter_get; assumption|]. auto.
Qed.

(* ---------- the level theorem ---------- *)

Theorem lvl_laws : laws (S a) lvl invL.
Proof.
  constructor.
  - exact lvl_len.
  - exact lvl_sorted.
  - exact lvl_new_inv.
  - reflexivity.
  - exact lvl_is_empty.
  - exact lvl_contains.
  - exact lvl_insert.
  - exact lvl_remove.
  - exact lvl_clear.
  - exact lvl_union.
  - exact lvl_difference.
  - exact lvl_mapped.
Qed.

End LevelFacts.
