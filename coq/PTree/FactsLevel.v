(* PTree/FactsLevel.v -- the laws of one arity (`laws`), and the level theorem: if the methods
   `sub` of PrefixTree(K-1) satisfy the laws at arity a, then the template `ops_lvl sub` of
   PrefixTreeK satisfies them at arity S a.  Everything is stated by membership
   (`In y (o_iter ..) <-> ...`) plus sortedness; FactsOps.v turns this into list equalities. *)

From Coq Require Import NArith List Lia Bool Sorted.
From PTree Require Import WBT_Model WBT_Spec WBT_FactsList WBT_FactsInv Model Spec FactsLex FactsMap.
Import ListNotations.
Open Scope N_scope.

Section Laws.
Context {T : Type}.

Record laws (a : nat) (o : ops T) (inv : T -> Prop) : Prop := mk_laws {
  l_len : forall t x, inv t -> In x (o_iter o t) -> length x = a;
  l_sorted : forall t, inv t -> lsorted (o_iter o t);
  l_new_inv : inv (o_new o);
  l_new_iter : o_iter o (o_new o) = [];
  l_is_empty : forall t, inv t -> (o_is_empty o t = true <-> o_iter o t = []);
  l_contains : forall t x, inv t -> length x = a ->
    (o_contains o t x = true <-> In x (o_iter o t));
  l_insert : forall t x, inv t -> length x = a ->
    exists t', o_insert o t x = Some (t', negb (o_contains o t x)) /\ inv t' /\
               forall y, In y (o_iter o t') <-> y = x \/ In y (o_iter o t);
  l_remove : forall t x, inv t -> length x = a ->
    exists t', o_remove o t x = Some (t', o_contains o t x) /\ inv t' /\
               forall y, In y (o_iter o t') <-> y <> x /\ In y (o_iter o t);
  l_clear : forall t, inv (o_clear o t) /\ o_iter o (o_clear o t) = [];
  l_union : forall t1 t2, inv t1 -> inv t2 ->
    inv (o_union o t1 t2) /\
    forall y, In y (o_iter o (o_union o t1 t2)) <-> In y (o_iter o t1) \/ In y (o_iter o t2);
  l_difference : forall t1 t2, inv t1 -> inv t2 ->
    inv (o_difference o t1 t2) /\
    forall y, In y (o_iter o (o_difference o t1 t2)) <->
              In y (o_iter o t1) /\ ~ In y (o_iter o t2);
  l_mapped : forall t maps, inv t -> Forall map_ok maps ->
    exists t', o_mapped o t maps = Some t' /\ inv t' /\
               forall y, In y (o_iter o t') <->
                         exists x, In x (o_iter o t) /\ map_tuple maps x = Some y
}.

Lemma laws_nonempty a o inv (H : laws a o inv) t :
  inv t -> (o_is_empty o t = false <-> o_iter o t <> []).
Proof.
  intros Hi. pose proof (l_is_empty a o inv H t Hi) as He.
  destruct (o_is_empty o t); split; intros H1; try congruence.
  - exfalso. apply H1. apply He. reflexivity.
  - intros E. apply He in E. discriminate.
Qed.

Lemma laws_nonempty_of_In a o inv (H : laws a o inv) t x :
  inv t -> In x (o_iter o t) -> o_is_empty o t = false.
Proof.
  intros Hi Hx. apply (laws_nonempty a o inv H t Hi). intros E. rewrite E in Hx. destruct Hx.
Qed.

End Laws.

Ltac eqb_case x y := destruct (N.eqb_spec x y) as [?|?]; [subst|].

(* ------------------------------------------------------------------ *)
(* PrefixTree0                                                          *)

Lemma laws0 : laws 0 ops0 (fun _ => True).
Proof.
  constructor.
  - intros [|] x _ Hx; cbn in Hx; [destruct Hx as [<-|[]]; reflexivity|destruct Hx].
  - intros [|] _; cbn; repeat constructor.
  - exact I.
  - reflexivity.
  - intros [|] _; cbn; split; congruence.
  - intros t [|h x] _ Hx; [|discriminate]. destruct t; cbn; intuition congruence.
  - intros t [|h x] _ Hx; [|discriminate]. exists true. split; [reflexivity|]. split; [exact I|].
    intros y. destruct t; cbn; intuition congruence.
  - intros t [|h x] _ Hx; [|discriminate]. exists false. split; [reflexivity|]. split; [exact I|].
    intros y. destruct t; cbn; intuition congruence.
  - intros t. split; [exact I|reflexivity].
  - intros [|] [|] _ _; (split; [exact I|]); intros y; cbn; intuition congruence.
  - intros [|] [|] _ _; (split; [exact I|]); intros y; cbn; intuition congruence.
  - intros t maps _ _. exists t. split; [reflexivity|]. split; [exact I|].
    intros y. destruct t; cbn.
    + split.
      * intros [<-|[]]. exists []. split; [left; reflexivity|reflexivity].
      * intros (x & [<-|[]] & Hy). cbn in Hy. injection Hy as <-. left. reflexivity.
    + split; [intros []|intros (x & [] & _)].
Qed.

(* ------------------------------------------------------------------ *)
(* PrefixTreeK over PrefixTree(K-1)                                     *)

Section LevelFacts.
Context {V : Type} (sub : ops V) (invV : V -> Prop) (a : nat) (Hsub : laws a sub invV).

Notation tv := (o_iter sub).
Notation lvl := (ops_lvl sub).
Notation invL := (inv_lvl invV (o_is_empty sub)).

Let s_len := @l_len V a sub invV Hsub.
Let s_sorted := @l_sorted V a sub invV Hsub.
Let s_new_inv := @l_new_inv V a sub invV Hsub.
Let s_new_iter := @l_new_iter V a sub invV Hsub.
Let s_is_empty := @l_is_empty V a sub invV Hsub.
Let s_contains := @l_contains V a sub invV Hsub.
Let s_insert := @l_insert V a sub invV Hsub.
Let s_remove := @l_remove V a sub invV Hsub.
Let s_union := @l_union V a sub invV Hsub.
Let s_difference := @l_difference V a sub invV Hsub.
Let s_mapped := @l_mapped V a sub invV Hsub.
Let s_nonempty := @laws_nonempty V a sub invV Hsub.
Let s_nonempty_of_In := @laws_nonempty_of_In V a sub invV Hsub.

Lemma invL_iff (m : wbmap V) :
  invL m <-> Inv_map m /\ forall k v, get k m = Some v -> invV v /\ o_is_empty sub v = false.
Proof.
  unfold inv_lvl. split; intros (Hm & H); (split; [exact Hm|]).
  - intros k v Hg. rewrite Forall_forall in H. apply (H (k, v)). apply In_iter_get; assumption.
  - rewrite Forall_forall. intros [k v] Hin. cbn [snd]. apply (H k v). apply In_iter_get; assumption.
Qed.

Lemma In_iter_lvl (m : wbmap V) y :
  Inv_map m ->
  (In y (o_iter lvl m) <-> exists k r v, y = k :: r /\ get k m = Some v /\ In r (tv v)).
Proof.
  intros Hm. cbn [ops_lvl o_iter]. rewrite in_flat_map. split.
  - intros ([k v] & Hin & Hy). cbn [fst snd] in Hy. apply in_map_iff in Hy.
    destruct Hy as (r & <- & Hr). exists k, r, v. split; [reflexivity|].
    split; [apply In_iter_get; assumption|exact Hr].
  - intros (k & r & v & -> & Hg & Hr). exists (k, v). split; [apply In_iter_get; assumption|].
    cbn [fst snd]. apply in_map. exact Hr.
Qed.

Lemma lvl_len m x : invL m -> In x (o_iter lvl m) -> length x = S a.
Proof.
  intros Hi Hx. apply invL_iff in Hi. destruct Hi as (Hm & Hp).
  apply (In_iter_lvl m x Hm) in Hx. destruct Hx as (k & r & v & -> & Hg & Hr).
  cbn [length]. f_equal. destruct (Hp k v Hg) as (Hv & _). exact (s_len v r Hv Hr).
Qed.

Lemma lsorted_flat (l : list (N * V)) :
  ssorted l -> (forall k v, In (k, v) l -> lsorted (tv v)) ->
  lsorted (flat_map (fun kv => map (cons (fst kv)) (tv (snd kv))) l).
Proof.
  induction l as [|[k v] l IH]; intros Hs Hv; cbn [flat_map]; [constructor|].
  cbn [ssorted fst] in Hs. destruct Hs as (Hg & Hs). cbn [fst snd].
  apply lsorted_app.
  - apply (lsorted_prefix k). apply (Hv k v). left; reflexivity.
  - apply IH; [exact Hs|]. intros k' v' Hin. apply (Hv k' v'). right; exact Hin.
  - intros x y Hx Hy. apply in_map_iff in Hx. destruct Hx as (r & <- & _).
    apply in_flat_map in Hy. destruct Hy as ([k' v'] & Hin & Hy). cbn [fst snd] in Hy.
    apply in_map_iff in Hy. destruct Hy as (r' & <- & _).
    apply lex_lt_cons_lt. exact (keys_gt_in _ _ _ Hg Hin).
Qed.

Lemma lvl_sorted m : invL m -> lsorted (o_iter lvl m).
Proof.
  intros Hi. apply invL_iff in Hi. destruct Hi as (Hm & Hp). cbn [ops_lvl o_iter].
  apply lsorted_flat; [apply iter_ssorted, Hm|].
  intros k v Hin. apply s_sorted. apply (In_iter_get m k v Hm) in Hin. apply (Hp k v Hin).
Qed.

Lemma lvl_new_inv : invL (o_new lvl).
Proof. apply invL_iff. split; [apply Inv_map_empty|]. intros k v Hg. discriminate. Qed.

Lemma lvl_is_empty m : invL m -> (o_is_empty lvl m = true <-> o_iter lvl m = []).
Proof.
  intros Hi. apply invL_iff in Hi. destruct Hi as (Hm & Hp). cbn [ops_lvl o_is_empty o_iter].
  rewrite (is_empty_iter m Hm). split.
  - intros ->. reflexivity.
  - destruct (iter m) as [|[k v] l] eqn:E; [reflexivity|]. cbn [flat_map fst snd].
    intros H. apply app_eq_nil in H. destruct H as (H & _). apply map_eq_nil in H.
    assert (Hg : get k m = Some v) by (apply In_iter_get; [exact Hm|rewrite E; left; reflexivity]).
    destruct (Hp k v Hg) as (Hv & He). apply (s_nonempty v Hv) in He. contradiction.
Qed.

Lemma lvl_contains m x :
  invL m -> length x = S a -> (o_contains lvl m x = true <-> In x (o_iter lvl m)).
Proof.
  intros Hi Hx. destruct x as [|el0 rest]; [discriminate|]. injection Hx as Hx.
  apply invL_iff in Hi. destruct Hi as (Hm & Hp).
  rewrite (In_iter_lvl m _ Hm). cbn [ops_lvl o_contains]. split.
  - destruct (get el0 m) as [tree|] eqn:Hg; [|discriminate]. intros Hc.
    exists el0, rest, tree. split; [reflexivity|]. split; [reflexivity|].
    apply (s_contains tree rest); [apply (Hp el0 tree Hg)|exact Hx|exact Hc].
  - intros (k & r & v & [= <- <-] & Hg & Hr). rewrite Hg.
    apply (s_contains v rest); [apply (Hp el0 v Hg)|exact Hx|exact Hr].
Qed.

Lemma contains_new rest : length rest = a -> o_contains sub (o_new sub) rest = false.
Proof.
  intros Hx. destruct (o_contains sub (o_new sub) rest) eqn:Hc; [|reflexivity].
  apply (s_contains _ _ s_new_inv Hx) in Hc. rewrite s_new_iter in Hc. destruct Hc.
Qed.

Lemma lvl_insert m x :
  invL m -> length x = S a ->
  exists m', o_insert lvl m x = Some (m', negb (o_contains lvl m x)) /\ invL m' /\
             forall y, In y (o_iter lvl m') <-> y = x \/ In y (o_iter lvl m).
Proof.
  intros Hi Hx. destruct x as [|el0 rest]; [discriminate|]. injection Hx as Hx.
  apply invL_iff in Hi. destruct Hi as (Hm & Hp).
  cbn [ops_lvl o_insert o_contains].
  destruct (or_insert_with_get el0 m (fun _ => o_new sub) Hm) as (m1 & v & -> & Hm1 & Hv & Hg1).
  assert (Hvi : invV v).
  { rewrite Hv. destruct (get el0 m) as [y0|] eqn:Hg; [apply (Hp el0 y0 Hg)|apply s_new_inv]. }
  destruct (s_insert v rest Hvi Hx) as (v' & -> & Hv'i & Hv'm).
  destruct (modify_get el0 (fun _ => v') m1 Hm1) as (Hm2 & Hg2).
  assert (Hget : forall k', get k' (modify el0 (fun _ => v') m1) =
                            if k' =? el0 then Some v' else get k' m).
  { intros k'. rewrite Hg2, Hg1. destruct (k' =? el0); reflexivity. }
  assert (Hret : o_contains sub v rest =
                 match get el0 m with None => false | Some tree => o_contains sub tree rest end).
  { rewrite Hv. destruct (get el0 m); [reflexivity|apply contains_new, Hx]. }
  assert (Hslice : forall r, In r (tv v) -> get el0 m = Some v).
  { intros r Hr. rewrite Hv in *. destruct (get el0 m); [reflexivity|].
    rewrite s_new_iter in Hr. destruct Hr. }
  exists (modify el0 (fun _ => v') m1). split; [rewrite Hret; reflexivity|]. split.
  { apply invL_iff. split; [exact Hm2|]. intros k' w. rewrite Hget. eqb_case k' el0.
    - intros [= <-]. split; [exact Hv'i|]. apply (s_nonempty_of_In v' rest Hv'i).
      apply Hv'm. left; reflexivity.
    - apply Hp. }
  intros y. rewrite (In_iter_lvl _ y Hm2), (In_iter_lvl m y Hm). split.
  - intros (k' & r & w & -> & Hgw & Hr). rewrite Hget in Hgw. eqb_case k' el0.
    + injection Hgw as <-. apply Hv'm in Hr. destruct Hr as [->|Hr]; [left; reflexivity|].
      right. exists el0, r, v. split; [reflexivity|]. split; [exact (Hslice r Hr)|exact Hr].
    + right. exists k', r, w. auto.
  - intros [[= -> ->]|(k' & r & w & -> & Hgw & Hr)].
    + exists el0, rest, v'. split; [reflexivity|]. split; [rewrite Hget, N.eqb_refl; reflexivity|].
      apply Hv'm. left; reflexivity.
    + eqb_case k' el0.
      * exists el0, r, v'. split; [reflexivity|]. split; [rewrite Hget, N.eqb_refl; reflexivity|].
        apply Hv'm. right. rewrite Hv, Hgw. exact Hr.
      * exists k', r, w. split; [reflexivity|]. split; [|exact Hr].
        rewrite Hget. destruct (N.eqb_spec k' el0); [contradiction|exact Hgw].
Qed.

End LevelFacts.
