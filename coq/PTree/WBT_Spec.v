(* PTree/WBT_Spec.v -- COPY of coq/WBT/Spec.v (property C14's library).  Content unchanged except
   (1) this three-line header and (2) every line `From WBT Require Import A B ...` reads
   `From PTree Require Import WBT_A WBT_B ...`.  checks/c08.py re-derives this file from the original and compares sha256.  DO NOT EDIT. *)
(* WBT/Spec.v -- specification vocabulary: association lists, invariants.  Definitions only. *)

From Coq Require Import NArith List.
From PTree Require Import WBT_Model.
Import ListNotations.
Open Scope N_scope.

(* ---------- reference map: key-sorted association lists ---------- *)

Fixpoint assoc {V} (key : N) (l : list (N * V)) : option V :=
  match l with
  | [] => None
  | (k, v) :: tl => if key =? k then Some v else assoc key tl
  end.

Fixpoint assoc_insert {V} (key : N) (value : V) (l : list (N * V)) : list (N * V) :=
  match l with
  | [] => [(key, value)]
  | (k, v) :: tl =>
    match key ?= k with
    | Lt => (key, value) :: l
    | Eq => (key, value) :: tl
    | Gt => (k, v) :: assoc_insert key value tl
    end
  end.

Definition assoc_remove {V} (key : N) (l : list (N * V)) : list (N * V) :=
  filter (fun p => negb (fst p =? key)) l.

(* reference union: start from a, insert every binding of b, combining with f k (a's) (b's) *)
Definition assoc_union_step {V} (f : N -> V -> V -> V) (acc : list (N * V)) (p : N * V) :=
  match assoc (fst p) acc with
  | Some x => assoc_insert (fst p) (f (fst p) x (snd p)) acc
  | None => assoc_insert (fst p) (snd p) acc
  end.
Definition assoc_union {V} (f : N -> V -> V -> V) (a b : list (N * V)) : list (N * V) :=
  fold_left (assoc_union_step f) b a.

(* reference difference: walk a; keys also in b are dropped or rewritten as g says *)
Fixpoint assoc_difference {V} (g : N -> V -> V -> option V) (a b : list (N * V)) : list (N * V) :=
  match a with
  | [] => []
  | (k, x) :: tl =>
    match assoc k b with
    | None => (k, x) :: assoc_difference g tl b
    | Some y =>
      match g k x y with
      | Some z => (k, z) :: assoc_difference g tl b
      | None => assoc_difference g tl b
      end
    end
  end.

Definition assoc_map_values {V} (f : N -> V -> V) (l : list (N * V)) : list (N * V) :=
  map (fun p => (fst p, f (fst p) (snd p))) l.

Definition assoc_modify {V} (key : N) (f : V -> V) (l : list (N * V)) : list (N * V) :=
  map (fun p => if fst p =? key then (fst p, f (snd p)) else p) l.

(* pointwise laws *)
Definition union_law {V} (f : N -> V -> V -> V) (k : N) (a b : option V) : option V :=
  match a, b with
  | Some x, Some y => Some (f k x y)
  | Some x, None => Some x
  | None, Some y => Some y
  | None, None => None
  end.

Definition difference_law {V} (g : N -> V -> V -> option V) (k : N) (a b : option V) : option V :=
  match a, b with
  | Some x, Some y => g k x y
  | Some x, None => Some x
  | None, _ => None
  end.

(* ---------- sortedness ---------- *)

Definition keys_lt {V} (l : list (N * V)) (x : N) : Prop := Forall (fun p => fst p < x) l.
Definition keys_gt {V} (l : list (N * V)) (x : N) : Prop := Forall (fun p => x < fst p) l.

Fixpoint ssorted {V} (l : list (N * V)) : Prop :=
  match l with
  | [] => True
  | p :: tl => keys_gt tl (fst p) /\ ssorted tl
  end.

(* ---------- tree invariants ---------- *)

(* search-tree order: the in-order key sequence is strictly increasing
   (FactsOrder.bst_node_iff gives the usual local characterisation). *)
Definition bst {V} (t : tree V) : Prop := ssorted (inorder t).

Fixpoint sizes_ok {V} (t : tree V) : Prop :=
  match t with
  | E => True
  | T s l _ _ r => s = 1 + size l + size r /\ sizes_ok l /\ sizes_ok r
  end.

Definition baln (a b : N) : Prop := a + 1 <= 3 * (b + 1) /\ b + 1 <= 3 * (a + 1).

Fixpoint balanced {V} (t : tree V) : Prop :=
  match t with
  | E => True
  | T _ l _ _ r => baln (size l) (size r) /\ balanced l /\ balanced r
  end.

Definition Inv {V} (t : tree V) : Prop := bst t /\ sizes_ok t /\ balanced t.

Definition Inv_map {V} (m : wbmap V) : Prop := Inv (root m) /\ len m = size (root m).

Fixpoint height {V} (t : tree V) : N :=
  match t with
  | E => 0
  | T _ l _ _ r => 1 + N.max (height l) (height r)
  end.

(* boolean checkers (used for Examples and by the harness as search oracle) *)
Fixpoint sizes_ok_b {V} (t : tree V) : bool :=
  match t with
  | E => true
  | T s l _ _ r => (s =? 1 + size l + size r) && sizes_ok_b l && sizes_ok_b r
  end.

Fixpoint balanced_b {V} (t : tree V) : bool :=
  match t with
  | E => true
  | T _ l _ _ r =>
    (size l + 1 <=? 3 * (size r + 1)) && (size r + 1 <=? 3 * (size l + 1))
    && balanced_b l && balanced_b r
  end.

Fixpoint sorted_b (l : list N) : bool :=
  match l with
  | [] => true
  | x :: tl => match tl with [] => true | y :: _ => (x <? y) && sorted_b tl end
  end.

Definition inv_b {V} (t : tree V) : bool :=
  sorted_b (map fst (inorder t)) && sizes_ok_b t && balanced_b t.
