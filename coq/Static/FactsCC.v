(* Congruence closure: the partition computed by Model.cc_step only identifies terms that are provably
   equal from the asserted equations (soundness), and with it the surjectivity pass is sound with respect to
   the declarative judgement `SurjPath`: every term of a then-statement is derivably congruent to a term
   that is present earlier on the path. *)
From Coq Require Import List NArith Bool Arith Lia.
From Static Require Import Model FactsBase.
Import ListNotations.
Open Scope N_scope.

(* ---------------------------------------------------------------- derivable congruence *)

Inductive Cong (E : list (uterm * uterm)) : uterm -> uterm -> Prop :=
| C_ax : forall a b, In (a, b) E -> Cong E a b
| C_refl : forall a, Cong E a a
| C_sym : forall a b, Cong E a b -> Cong E b a
| C_trans : forall a b c, Cong E a b -> Cong E b c -> Cong E a c
| C_app : forall f xs ys, CongL E xs ys -> Cong E (UApp f xs) (UApp f ys)
with CongL (E : list (uterm * uterm)) : list uterm -> list uterm -> Prop :=
| CL_nil : CongL E [] []
| CL_cons : forall x y xs ys, Cong E x y -> CongL E xs ys -> CongL E (x :: xs) (y :: ys).

Scheme Cong_mind := Induction for Cong Sort Prop
  with CongL_mind := Induction for CongL Sort Prop.
Combined Scheme Cong_mutind from Cong_mind, CongL_mind.

Lemma Cong_mono E E' : incl E E' ->
  (forall a b, Cong E a b -> Cong E' a b) /\ (forall xs ys, CongL E xs ys -> CongL E' xs ys).
Proof.
  intros Hi. apply Cong_mutind; intros.
  - apply C_ax. apply Hi. assumption.
  - apply C_refl.
  - apply C_sym. assumption.
  - eapply C_trans; eassumption.
  - apply C_app. assumption.
  - constructor.
  - constructor; assumption.
Qed.

(* ---------------------------------------------------------------- equality test on terms *)

Lemma uterm_eqb_eq : forall a b, uterm_eqb a b = true <-> a = b.
Proof.
  induction a as [x | | f xs IH] using uterm_ind'; intros b; destruct b as [y | | g ys]; cbn [uterm_eqb];
    try (split; intros H; discriminate).
  - rewrite N.eqb_eq. split; intros H; [subst; reflexivity | inversion H; reflexivity].
  - split; reflexivity.
  - rewrite andb_true_iff, N.eqb_eq.
    assert (Hgo : forall ys,
               (fix go (xs ys : list uterm) {struct xs} : bool :=
                  match xs, ys with
                  | [], [] => true
                  | x :: xs', y :: ys' => uterm_eqb x y && go xs' ys'
                  | _, _ => false
                  end) xs ys = true <-> xs = ys).
    { clear ys. induction IH as [|x xs Hx Hxs IHxs]; intros ys; destruct ys as [|y ys];
        try (split; intros H; [discriminate | inversion H]); [split; reflexivity|].
      rewrite andb_true_iff, Hx, IHxs. split.
      - intros [H1 H2]. subst. reflexivity.
      - intros H. inversion H. split; reflexivity. }
    rewrite Hgo. split.
    + intros [H1 H2]. subst. reflexivity.
    + intros H. inversion H. split; reflexivity.
Qed.

Lemma uterm_eqb_refl a : uterm_eqb a a = true.
Proof. apply uterm_eqb_eq. reflexivity. Qed.

(* ---------------------------------------------------------------- classes *)

Lemma cls_in_In ns u c : cls_in ns u = Some c -> In (u, c) ns.
Proof.
  induction ns as [|[v k] r IH]; cbn [cls_in]; [discriminate|].
  destruct (uterm_eqb u v) eqn:E.
  - apply uterm_eqb_eq in E. subst. intros H. inversion H. left. reflexivity.
  - intros H. right. apply IH. exact H.
Qed.

Lemma cls_In st u c : cls st u = Some c -> In (u, c) (cc_nodes st).
Proof. apply cls_in_In. Qed.

Lemma In_cls_some ns u c : In (u, c) ns -> exists c', cls_in ns u = Some c'.
Proof.
  induction ns as [|[v k] r IH]; intros H; [destruct H|]. cbn [cls_in].
  destruct (uterm_eqb u v) eqn:E; [exists k; reflexivity|].
  destruct H as [H | H]; [inversion H; subst; rewrite uterm_eqb_refl in E; discriminate | apply IH; exact H].
Qed.

(* the invariant: same class => derivably congruent; class numbers below the counter *)
Definition Sound (E : list (uterm * uterm)) (st : cc) : Prop :=
  forall u v c, In (u, c) (cc_nodes st) -> In (v, c) (cc_nodes st) -> Cong E u v.

Definition Fresh (st : cc) : Prop :=
  forall u c, In (u, c) (cc_nodes st) -> c < cc_next st.

Definition Inv (E : list (uterm * uterm)) (st : cc) : Prop := Sound E st /\ Fresh st.

(* the terms of the partition all come from O *)
Definition NodesIn (st : cc) (O : list uterm) : Prop :=
  forall u c, In (u, c) (cc_nodes st) -> In u O.

Lemma Inv_empty E : Inv E cc_empty.
Proof. split; intros u; intros; cbn in *; contradiction. Qed.

Lemma Inv_mono E E' st : incl E E' -> Inv E st -> Inv E' st.
Proof.
  intros Hi [Hs Hf]. split; [|exact Hf]. intros u v c Hu Hv.
  apply (proj1 (Cong_mono E E' Hi)). apply (Hs u v c); assumption.
Qed.

(* ---------------------------------------------------------------- adding terms *)

Lemma add_node_Inv E st u : Inv E st -> Inv E (add_node st u).
Proof.
  intros [Hs Hf]. unfold add_node. destruct (cls st u) as [k|] eqn:Ek; [split; assumption|].
  split.
  - intros a b c Ha Hb. cbn [cc_nodes] in Ha, Hb. destruct Ha as [Ha | Ha]; destruct Hb as [Hb | Hb].
    + inversion Ha; inversion Hb; subst. apply C_refl.
    + inversion Ha; subst. specialize (Hf b (cc_next st) Hb). lia.
    + inversion Hb; subst. specialize (Hf a (cc_next st) Ha). lia.
    + apply (Hs a b c); assumption.
  - intros a c Ha. cbn [cc_nodes cc_next] in *. destruct Ha as [Ha | Ha].
    + inversion Ha; subst. lia.
    + specialize (Hf a c Ha). lia.
Qed.

Lemma add_node_nodes st u a c :
  In (a, c) (cc_nodes (add_node st u)) -> In (a, c) (cc_nodes st) \/ a = u.
Proof.
  unfold add_node. destruct (cls st u); [left; assumption|].
  cbn [cc_nodes]. intros [H | H]; [inversion H; right; reflexivity | left; exact H].
Qed.

Fixpoint usub (u : uterm) : list uterm :=
  u :: match u with UApp _ args => flat_map usub args | _ => [] end.

Lemma fold_add_Inv E (P : uterm -> Prop) args :
  Forall (fun u => forall st, Inv E st -> Inv E (add_term st u)) args ->
  forall st, Inv E st -> Inv E (fold_left add_term args st).
Proof.
  induction 1 as [|u r Hu Hr IH]; intros st Hi; cbn [fold_left]; [exact Hi|].
  apply IH. apply Hu. exact Hi.
Qed.

Lemma add_term_Inv E : forall u st, Inv E st -> Inv E (add_term st u).
Proof.
  induction u as [x | | f args IH] using uterm_ind'; intros st Hi; cbn [add_term].
  - apply add_node_Inv. exact Hi.
  - apply add_node_Inv. exact Hi.
  - apply add_node_Inv. apply (fold_add_Inv E (fun _ => True)); assumption.
Qed.

Lemma fold_add_nodes args :
  Forall (fun u => forall st O, NodesIn st O -> NodesIn (add_term st u) (O ++ usub u)) args ->
  forall st O, NodesIn st O -> NodesIn (fold_left add_term args st) (O ++ flat_map usub args).
Proof.
  induction 1 as [|u r Hu Hr IH]; intros st O Hn; cbn [fold_left flat_map].
  - rewrite app_nil_r. exact Hn.
  - rewrite app_assoc. apply IH. apply Hu. exact Hn.
Qed.

Lemma add_term_nodes : forall u st O, NodesIn st O -> NodesIn (add_term st u) (O ++ usub u).
Proof.
  induction u as [x | | f args IH] using uterm_ind'; intros st O Hn; cbn [add_term usub].
  - intros a c Ha. apply add_node_nodes in Ha. apply in_or_app.
    destruct Ha as [Ha | Ha]; [left; apply (Hn a c Ha) | right; left; symmetry; exact Ha].
  - intros a c Ha. apply add_node_nodes in Ha. apply in_or_app.
    destruct Ha as [Ha | Ha]; [left; apply (Hn a c Ha) | right; left; symmetry; exact Ha].
  - intros a c Ha. apply add_node_nodes in Ha. destruct Ha as [Ha | Ha].
    + pose proof (fold_add_nodes args IH st O Hn a c Ha) as H.
      apply in_app_or in H. apply in_or_app. destruct H as [H | H]; [left; exact H | right; right; exact H].
    + apply in_or_app. right. left. symmetry. exact Ha.
Qed.

Lemma fold_add_terms_Inv E us : forall st, Inv E st -> Inv E (fold_left add_term us st).
Proof.
  induction us as [|u r IH]; intros st Hi; cbn [fold_left]; [exact Hi|].
  apply IH. apply add_term_Inv. exact Hi.
Qed.

Lemma fold_add_terms_nodes us : forall st O, NodesIn st O ->
  NodesIn (fold_left add_term us st) (O ++ flat_map usub us).
Proof.
  apply fold_add_nodes. rewrite Forall_forall. intros u _. apply add_term_nodes.
Qed.

(* ---------------------------------------------------------------- merging *)

Lemma merge_nodes st c1 c2 u k :
  In (u, k) (cc_nodes (merge st c1 c2)) <->
  exists c, In (u, c) (cc_nodes st) /\ k = (if N.eqb c c2 then c1 else c).
Proof.
  unfold merge. cbn [cc_nodes]. rewrite in_map_iff. split.
  - intros [[v c] [He Hin]]. cbn [fst snd] in He. inversion He; subst. exists c. split; [exact Hin | reflexivity].
  - intros [c [Hin He]]. exists (u, c). cbn [fst snd]. subst. split; [reflexivity | exact Hin].
Qed.

Lemma merge_Inv E st a b c1 c2 :
  Inv E st -> In (a, c1) (cc_nodes st) -> In (b, c2) (cc_nodes st) -> Cong E a b -> Inv E (merge st c1 c2).
Proof.
  intros [Hs Hf] Ha Hb Hab. split.
  - intros u v k Hu Hv. apply merge_nodes in Hu. apply merge_nodes in Hv.
    destruct Hu as [cu [Hu Eu]]. destruct Hv as [cv [Hv Ev]].
    destruct (N.eqb cu c2) eqn:E1; destruct (N.eqb cv c2) eqn:E2.
    + apply N.eqb_eq in E1. apply N.eqb_eq in E2. subst cu cv. apply (Hs u v c2); assumption.
    + (* u in c2, v in c1 *)
      apply N.eqb_eq in E1. subst cu. subst k. subst cv.
      apply C_trans with (b := b); [apply (Hs u b c2); assumption|].
      apply C_trans with (b := a); [apply C_sym; exact Hab | apply (Hs a v c1); assumption].
    + apply N.eqb_eq in E2. subst cv. subst k. subst cu.
      apply C_trans with (b := a); [apply (Hs u a c1); assumption|].
      apply C_trans with (b := b); [exact Hab | apply (Hs b v c2); assumption].
    + subst k. subst cu. apply (Hs u v cv); assumption.
  - intros u k Hu. apply merge_nodes in Hu. destruct Hu as [cu [Hu Eu]]. cbn [merge cc_next].
    destruct (N.eqb cu c2); subst k; [apply (Hf a c1 Ha) | apply (Hf u cu Hu)].
Qed.

Lemma merge_NodesIn st c1 c2 O : NodesIn st O -> NodesIn (merge st c1 c2) O.
Proof.
  intros Hn u k Hu. apply merge_nodes in Hu. destruct Hu as [c [Hu _]]. apply (Hn u c Hu).
Qed.

Lemma union_Inv E st a b : Inv E st -> Cong E a b -> Inv E (union st a b).
Proof.
  intros Hi Hab. unfold union. destruct (cls st a) as [ca|] eqn:Ea; [|exact Hi].
  destruct (cls st b) as [cb|] eqn:Eb; [|exact Hi].
  destruct (N.eqb ca cb); [exact Hi|].
  apply (merge_Inv E st a b ca cb Hi); [apply cls_In; exact Ea | apply cls_In; exact Eb | exact Hab].
Qed.

Lemma union_NodesIn st a b O : NodesIn st O -> NodesIn (union st a b) O.
Proof.
  intros Hn. unfold union. destruct (cls st a); [|exact Hn]. destruct (cls st b); [|exact Hn].
  destruct (N.eqb _ _); [exact Hn | apply merge_NodesIn; exact Hn].
Qed.

(* ---------------------------------------------------------------- congruence steps *)

Lemma opt_eqb_true a b : opt_eqb a b = true -> exists k, a = Some k /\ b = Some k.
Proof.
  destruct a as [x|], b as [y|]; cbn; try discriminate. intros H. apply N.eqb_eq in H. subst.
  exists y. split; reflexivity.
Qed.

Lemma opts_eqb_CongL E st : Sound E st -> forall xs ys,
  opts_eqb (map (cls st) xs) (map (cls st) ys) = true -> CongL E xs ys.
Proof.
  intros Hs. induction xs as [|x xs IH]; intros ys H; destruct ys as [|y ys]; cbn [map opts_eqb] in H;
    try discriminate; [constructor|].
  apply andb_true_iff in H. destruct H as [H1 H2]. apply opt_eqb_true in H1. destruct H1 as [k [Hx Hy]].
  constructor; [|apply IH; exact H2].
  apply (Hs x y k); apply cls_In; assumption.
Qed.

Lemma nsigs_In st f cs c :
  In (f, cs, c) (nsigs st) -> exists args, In (UApp f args, c) (cc_nodes st) /\ cs = map (cls st) args.
Proof.
  unfold nsigs. rewrite in_flat_map. intros [[u k] [Hin H]]. cbn [fst snd] in H.
  destruct u as [x | | g args]; [destruct H | destruct H |].
  destruct H as [H | []]. inversion H; subst. exists args. split; [exact Hin | reflexivity].
Qed.

Lemma find_cong_sound E st c1 c2 : Sound E st ->
  (forall sgs, incl sgs (nsigs st) -> find_cong sgs = Some (c1, c2) ->
     exists f xs ys, In (UApp f xs, c1) (cc_nodes st) /\ In (UApp f ys, c2) (cc_nodes st) /\ CongL E xs ys).
Proof.
  intros Hs. induction sgs as [|s r IH]; intros Hi H; cbn [find_cong] in H; [discriminate|].
  destruct (find (sig_match s) r) as [s'|] eqn:Ef.
  - inversion H; subst. apply find_some in Ef. destruct Ef as [Hin Hm].
    destruct s as [[f xs] k1]. destruct s' as [[g ys] k2]. cbn [snd] in *. cbn [sig_match] in Hm.
    apply andb_true_iff in Hm. destruct Hm as [Hm Ho]. apply andb_true_iff in Hm. destruct Hm as [Hfg _].
    apply N.eqb_eq in Hfg. subst g.
    destruct (nsigs_In st f xs k1) as [ax [Hax Ex]]; [apply Hi; left; reflexivity|].
    destruct (nsigs_In st f ys k2) as [ay [Hay Ey]]; [apply Hi; right; exact Hin|].
    subst. exists f, ax, ay. split; [exact Hax | split; [exact Hay|]].
    apply (opts_eqb_CongL E st Hs). exact Ho.
  - apply IH; [intros x Hx; apply Hi; right; exact Hx | exact H].
Qed.

Lemma close_Inv E : forall fuel st, Inv E st -> Inv E (close fuel st).
Proof.
  induction fuel as [|k IH]; intros st Hi; cbn [close]; [exact Hi|].
  destruct (find_cong (nsigs st)) as [[c1 c2]|] eqn:Ef; [|exact Hi].
  apply IH. destruct (find_cong_sound E st c1 c2 (proj1 Hi) (nsigs st) (incl_refl _) Ef)
    as [f [xs [ys [H1 [H2 H3]]]]].
  apply (merge_Inv E st (UApp f xs) (UApp f ys) c1 c2 Hi H1 H2). apply C_app. exact H3.
Qed.

Lemma close_NodesIn : forall fuel st O, NodesIn st O -> NodesIn (close fuel st) O.
Proof.
  induction fuel as [|k IH]; intros st O Hn; cbn [close]; [exact Hn|].
  destruct (find_cong (nsigs st)) as [[c1 c2]|]; [|exact Hn]. apply IH. apply merge_NodesIn. exact Hn.
Qed.

(* ---------------------------------------------------------------- one atom *)

Definition ueqs (a : atom) : list (uterm * uterm) :=
  map (fun e => (erase (fst e), erase (snd e))) (atom_eqs a).

Definition uterms (a : atom) : list uterm := map erase (atom_terms a).

Lemma fold_union_Inv E eqs : forall st, Inv E st ->
  (forall e, In e eqs -> In (erase (fst e), erase (snd e)) E) ->
  Inv E (fold_left (fun st e => union st (erase (fst e)) (erase (snd e))) eqs st).
Proof.
  induction eqs as [|e r IH]; intros st Hi He; cbn [fold_left]; [exact Hi|].
  apply IH; [|intros e' H; apply He; right; exact H].
  apply union_Inv; [exact Hi | apply C_ax; apply He; left; reflexivity].
Qed.

Lemma fold_union_NodesIn eqs O : forall st, NodesIn st O ->
  NodesIn (fold_left (fun st e => union st (erase (fst e)) (erase (snd e))) eqs st) O.
Proof.
  induction eqs as [|e r IH]; intros st Hn; cbn [fold_left]; [exact Hn|].
  apply IH. apply union_NodesIn. exact Hn.
Qed.

Lemma cc_step_Inv E st a : Inv E st -> Inv (E ++ ueqs a) (cc_step st a).
Proof.
  intros Hi. unfold cc_step. apply close_Inv. apply fold_union_Inv.
  - apply fold_add_terms_Inv. apply (Inv_mono E); [apply incl_appl; apply incl_refl | exact Hi].
  - intros e He. apply in_or_app. right. unfold ueqs. apply in_map_iff. exists e. split; [reflexivity | exact He].
Qed.

Lemma cc_step_NodesIn st a O : NodesIn st O -> NodesIn (cc_step st a) (O ++ flat_map usub (uterms a)).
Proof.
  intros Hn. unfold cc_step. apply close_NodesIn. apply fold_union_NodesIn.
  apply fold_add_terms_nodes. exact Hn.
Qed.

(* ---------------------------------------------------------------- surjectivity along a path *)

(* E: equations asserted so far; O: terms present so far *)
Inductive SurjPath : list (uterm * uterm) -> list uterm -> list atom -> Prop :=
| SP_nil : forall E O, SurjPath E O []
| SP_if : forall E O l a r,
    SurjPath (E ++ ueqs (AIf l a)) (O ++ flat_map usub (uterms (AIf l a))) r ->
    SurjPath E O (AIf l a :: r)
| SP_then : forall E O l a r,
    (forall s, In s (then_checked a) ->
       exists o, (In o O \/ In o (map erase (then_exempt a))) /\ Cong (E ++ ueqs (AThen l a)) (erase s) o) ->
    SurjPath (E ++ ueqs (AThen l a)) (O ++ flat_map usub (uterms (AThen l a))) r ->
    SurjPath E O (AThen l a :: r).

Lemma same_cls_Cong E st a b : Sound E st -> same_cls st a b = true -> Cong E a b.
Proof.
  intros Hs H. unfold same_cls in H. apply opt_eqb_true in H. destruct H as [k [Ha Hb]].
  apply (Hs a b k); apply cls_In; assumption.
Qed.

Lemma surj_atom_sound E st' old a :
  Sound E st' -> surj_atom old st' a = [] ->
  forall s, In s (then_checked a) ->
    exists o, (In o old \/ In o (map erase (then_exempt a))) /\ Cong E (erase s) o.
Proof.
  intros Hs H s Hin. unfold surj_atom in H. rewrite flat_map_nil_iff, Forall_forall in H.
  specialize (H s Hin). cbn beta in H.
  destruct (existsb (same_cls st' (erase s)) (old ++ map erase (then_exempt a))) eqn:Ex; [|discriminate].
  apply existsb_exists in Ex. destruct Ex as [o [Ho Hc]]. exists o. split.
  - apply in_app_or in Ho. exact Ho.
  - apply (same_cls_Cong E st'); assumption.
Qed.

Theorem surj_path_sound : forall p st E O,
  Inv E st -> NodesIn st O -> surj_path st p = [] -> SurjPath E O p.
Proof.
  induction p as [|a r IH]; intros st E O Hi Hn H; [constructor|].
  cbn [surj_path] in H. apply app_eq_nil in H. destruct H as [H1 H2].
  pose proof (cc_step_Inv E st a Hi) as Hi'. pose proof (cc_step_NodesIn st a O Hn) as Hn'.
  destruct a as [l ia | l ta].
  - apply SP_if. apply (IH (cc_step st (AIf l ia))); assumption.
  - apply SP_then.
    + intros s Hs. destruct (surj_atom_sound _ _ _ _ (proj1 Hi') H1 s Hs) as [o [Ho Hc]].
      exists o. split; [|exact Hc]. destruct Ho as [Ho | Ho]; [left | right; exact Ho].
      apply in_map_iff in Ho. destruct Ho as [[u c] [He Hin]]. cbn [fst] in He. subst o. apply (Hn u c Hin).
    + apply (IH (cc_step st (AThen l ta))); assumption.
Qed.

(* every control-flow path of a resolved rule body *)
Definition SurjRule (rb : block) : Prop := forall p, In p (paths_block rb) -> SurjPath [] [] p.

Theorem surj_defects_sound rb : surj_defects rb = [] -> SurjRule rb.
Proof.
  unfold surj_defects, SurjRule. rewrite flat_map_nil_iff, Forall_forall. intros H p Hp.
  apply (surj_path_sound p cc_empty); [apply Inv_empty | intros u c [] | apply H; exact Hp].
Qed.
