(* The declarative well-formedness judgement WF and the soundness of acceptance:
   defects p = [] -> WF p. *)
From Coq Require Import List NArith Bool Arith Lia.
From Static Require Import Model FactsBase FactsSymbols FactsScope FactsTyping FactsResolve FactsCC FactsEnum.
Import ListNotations.
Open Scope N_scope.

(* a rule body: scoped along its control-flow paths, every variable used twice, and, after making
   bindings unique (resolve), typable, surjective on every path, enum terms introduced by
   constructors, matches over one enum and exhaustive *)
Definition RuleWF (sg : list sym) (body : block) : Prop :=
  ScBlock [] body /\ OnBlock [] body /\
  exists rho,
    Forall (TyAtom sg rho) (all_atoms_block (fst (resolve body))) /\
    SurjRule (fst (resolve body)) /\
    EnBlock sg rho (fst (resolve body)).

Definition WF (p : prog) : Prop :=
  WFsym p /\ forall l n body, In (DRule l n body) p -> RuleWF (symbols p) body.

Lemma rule_defects_sound sg body :
  Unique sg -> sym_block sg body = [] -> rule_defects sg body = [] -> RuleWF sg body.
Proof.
  intros Hu Hsym H. unfold rule_defects in H. unfold RuleWF.
  apply app_eq_nil in H. destruct H as [Hscope H]. apply app_eq_nil in H. destruct H as [Honce H].
  pose proof (resolved_atoms_sym sg body Hu Hsym) as Hatoms.
  destruct (resolve body) as [rb n] eqn:Er. cbn [fst] in *.
  apply app_eq_nil in H. destruct H as [Hty H]. apply app_eq_nil in H. destruct H as [Hsurj Henum].
  split; [apply scope_block_exact; exact Hscope|].
  split; [apply once_block_exact; exact Honce|].
  exists (infer sg n (all_atoms_block rb)). split; [|split].
  - apply (type_defects_sound sg _ (rule_cc (all_atoms_block rb))); assumption.
  - apply surj_defects_sound. exact Hsurj.
  - apply (enum_block_sound sg _ (rule_cc (all_atoms_block rb)) (all_occ (all_atoms_block rb))); assumption.
Qed.

Theorem defects_nil_WF (p : prog) : defects p = [] -> WF p.
Proof.
  unfold defects. intros H. apply app_eq_nil in H. destruct H as [Hs Hr].
  apply symbol_defects_exact in Hs. split; [exact Hs|].
  destruct Hs as [Hu Hd]. intros l n body Hin.
  rewrite flat_map_nil_iff, Forall_forall in Hr. specialize (Hr _ Hin). cbn [decl_defects] in Hr.
  rewrite Forall_forall in Hd. specialize (Hd _ Hin). cbn [SymDecl] in Hd.
  apply rule_defects_sound; [exact Hu | apply (sym_syntax_nil _ Hu); exact Hd | exact Hr].
Qed.

(* what the exact passes report is a real defect: the program is not well-formed *)
Theorem symbol_defect_not_WF (p : prog) d : In d (symbol_defects p) -> ~ WF p.
Proof.
  intros Hin [Hs _]. apply symbol_defects_exact in Hs. rewrite Hs in Hin. destruct Hin.
Qed.

Theorem scope_defect_not_WF (p : prog) l n body d :
  In (DRule l n body) p -> In d (scope_block [] body ++ once_block [] body) -> ~ WF p.
Proof.
  intros Hr Hin [_ Hw]. destruct (Hw l n body Hr) as [Hsc [Hon _]].
  apply scope_block_exact in Hsc. apply once_block_exact in Hon. rewrite Hsc, Hon in Hin. destruct Hin.
Qed.
