(* Basic facts: induction principles for the syntax, membership tests, list helpers. *)
From Coq Require Import List NArith Bool Arith Lia.
From Static Require Import Model.
Import ListNotations.
Open Scope N_scope.

(* ---------------------------------------------------------------- induction principles *)

Section TermInd.
  Variable P : term -> Prop.
  Hypothesis Hvar : forall l x, P (Var l x).
  Hypothesis Hwild : forall l, P (Wild l).
  Hypothesis Happ : forall l f args, Forall P args -> P (App l f args).

  Fixpoint term_ind' (t : term) : P t :=
    match t with
    | Var l x => Hvar l x
    | Wild l => Hwild l
    | App l f args =>
        Happ l f args
          ((fix go (ts : list term) : Forall P ts :=
              match ts with
              | [] => Forall_nil P
              | t' :: r => Forall_cons t' (term_ind' t') (go r)
              end) args)
    end.
End TermInd.

Section UtermInd.
  Variable P : uterm -> Prop.
  Hypothesis Hvar : forall x, P (UVar x).
  Hypothesis Hwild : P UWild.
  Hypothesis Happ : forall f args, Forall P args -> P (UApp f args).

  Fixpoint uterm_ind' (t : uterm) : P t :=
    match t with
    | UVar x => Hvar x
    | UWild => Hwild
    | UApp f args =>
        Happ f args
          ((fix go (ts : list uterm) : Forall P ts :=
              match ts with
              | [] => Forall_nil P
              | t' :: r => Forall_cons t' (uterm_ind' t') (go r)
              end) args)
    end.
End UtermInd.

Scheme stmt_mind := Induction for stmt Sort Prop
  with block_mind := Induction for block Sort Prop
  with blocks_mind := Induction for blocks Sort Prop
  with cases_mind := Induction for cases Sort Prop.
Combined Scheme syntax_mutind from stmt_mind, block_mind, blocks_mind, cases_mind.

(* ---------------------------------------------------------------- lists *)

Lemma app_nil_iff {A} (xs ys : list A) : xs ++ ys = [] <-> xs = [] /\ ys = [].
Proof.
  split.
  - intros H. apply app_eq_nil in H. exact H.
  - intros [H1 H2]. subst. reflexivity.
Qed.

Lemma flat_map_nil_iff {A B} (f : A -> list B) (xs : list A) :
  flat_map f xs = [] <-> Forall (fun x => f x = []) xs.
Proof.
  induction xs as [|x xs IH]; cbn [flat_map].
  - split; intros _; [constructor | reflexivity].
  - rewrite app_nil_iff, IH. split.
    + intros [H1 H2]. constructor; assumption.
    + intros H. inversion H; subst. split; assumption.
Qed.

Lemma mem_In (x : N) (xs : list N) : mem x xs = true <-> In x xs.
Proof.
  unfold mem. rewrite existsb_exists. split.
  - intros [y [Hy He]]. apply N.eqb_eq in He. subst. exact Hy.
  - intros H. exists x. split; [exact H | apply N.eqb_refl].
Qed.

Lemma mem_false (x : N) (xs : list N) : mem x xs = false <-> ~ In x xs.
Proof.
  rewrite <- mem_In. destruct (mem x xs).
  - split; intros H; [discriminate | exfalso; apply H; reflexivity].
  - split; intros H; [intros H'; discriminate | reflexivity].
Qed.

Lemma kind_eqb_eq (a b : kind) : kind_eqb a b = true <-> a = b.
Proof. destruct a, b; cbn; split; intros H; try reflexivity; try discriminate. Qed.

Lemma assoc_In {B} (x : N) (m : list (N * B)) (v : B) : assoc x m = Some v -> In (x, v) m.
Proof.
  induction m as [|[y w] m IH]; cbn [assoc]; intros H; [discriminate|].
  destruct (N.eqb x y) eqn:E.
  - apply N.eqb_eq in E. inversion H; subst. left. reflexivity.
  - right. apply IH. exact H.
Qed.
