(* Static semantics of the eqlog fragment  (property C10).

   Fragment: type / pred / func / enum declarations and rules built from if/then statements,
   nested terms, `branch` and `match`.  No `model` declarations, no member syntax, no morphisms.

   This file contains the AST and the executable reference checker
       defects : prog -> list (dclass * list line)
   (a program is accepted iff the list is empty).  NO proofs here.

   The reference is written from the language description (README "Language", the 45 error tests, the
   property text), not derived from eqlog.eql.  Where the compiler deviates from it the deviation is a
   finding, not something the reference imitates:
     * control flow follows *paths*: a statement after `branch`/`match` is reached once per block of the
       branch, with everything on that block's path available (the compiler loses the contents of a
       branch/match that is the LAST statement of a nested block);
     * in `then x := t!` the variable x is not in scope inside t;
     * typing is rule-wide, also for statements after a `match` without cases.

   Identifiers are numbers.  Casing errors are excluded by construction: the printer of gen/static_gen.py
   maps identifier numbers to well-cased names (see the casing rules documented there). *)
From Coq Require Import List NArith Bool Arith.
Import ListNotations.
Open Scope N_scope.
Arguments N.add : simpl never.
Arguments N.sub : simpl never.
Arguments N.mul : simpl never.
Arguments N.eqb : simpl never.
Arguments N.ltb : simpl never.
Arguments N.leb : simpl never.

Definition name := N.
Definition line := N.

(* ------------------------------------------------------------------ AST *)

Inductive term : Type :=
| Var (l : line) (x : name)
| Wild (l : line)
| App (l : line) (f : name) (args : list term).

Inductive ifatom : Type :=
| IEq (a b : term)                      (* if a = b;   *)
| IDef (t : term)                       (* if t!;      *)
| IPred (p : name) (args : list term)   (* if p(args); *)
| IType (t : term) (ty : name).         (* if t : Ty;  *)

Inductive thenatom : Type :=
| TEq (a b : term)                      (* then a = b;     *)
| TDef (x : option term) (t : term)     (* then [x :=] t!; *)
| TPred (p : name) (args : list term).  (* then p(args);   *)

Inductive stmt : Type :=
| SIf (l : line) (a : ifatom)
| SThen (l : line) (a : thenatom)
| SBranch (l : line) (bs : blocks)
| SMatch (l : line) (d : term) (cs : cases)     (* a case's line is the line of its pattern *)
with block : Type := BNil | BCons (s : stmt) (b : block)
with blocks : Type := BsNil | BsCons (b : block) (bs : blocks)
with cases : Type := CNil | CCons (pat : term) (b : block) (cs : cases).

Inductive decl : Type :=
| DType (l : line) (n : name)
| DPred (l : line) (n : name) (args : list name)
| DFunc (l : line) (n : name) (args : list name) (res : name)
| DEnum (l : line) (n : name) (ctors : list (line * name * list name))
| DRule (l : line) (n : option name) (body : block).

Definition prog := list decl.

(* list-style smart constructors, used by generated terms *)
Fixpoint blk (ss : list stmt) : block :=
  match ss with [] => BNil | s :: r => BCons s (blk r) end.
Fixpoint blks (bs : list block) : blocks :=
  match bs with [] => BsNil | b :: r => BsCons b (blks r) end.
Fixpoint css (cs : list (term * block)) : cases :=
  match cs with [] => CNil | (p, b) :: r => CCons p b (css r) end.

(* ------------------------------------------------------------------ defects *)

Inductive dclass : Type :=
| SymbolDeclaredTwice | UndeclaredSymbol | BadSymbolKind
| PredArgNumber | FuncArgNumber
| ConflictingTermType | UndeterminedTermType
| VarIntroducedInThen | WildcardInThen
| VariableOccursOnlyOnce
| ThenDefinedNotVar | ThenDefinedVarNotNew
| SurjectivityViolation
| EnumCtorsNotSurjective
| MatchPatternIsVariable | MatchPatternIsWildcard
| MatchPatternCtorArgIsApp | MatchPatternArgVarIsNotFresh
| MatchConflictingEnum | MatchNotExhaustive.

Definition defect := (dclass * list line)%type.

(* ------------------------------------------------------------------ small helpers *)

Definition mem (x : N) (xs : list N) : bool := existsb (N.eqb x) xs.

Fixpoint assoc {B} (x : N) (m : list (N * B)) : option B :=
  match m with
  | [] => None
  | (y, v) :: r => if N.eqb x y then Some v else assoc x r
  end.

Definition tline (t : term) : line :=
  match t with Var l _ => l | Wild l => l | App l _ _ => l end.

(* variable / wildcard occurrences of a term, left to right *)
Fixpoint leaves (t : term) : list (line * option name) :=
  match t with
  | Var l x => [(l, Some x)]
  | Wild l => [(l, None)]
  | App _ _ args => flat_map leaves args
  end.

Definition leaf_vars (ls : list (line * option name)) : list name :=
  flat_map (fun lo => match snd lo with Some x => [x] | None => [] end) ls.

Definition tvars (t : term) : list name := leaf_vars (leaves t).

(* all subterm occurrences, the term itself first *)
Fixpoint subterms (t : term) : list term :=
  t :: match t with App _ _ args => flat_map subterms args | _ => [] end.

(* terms of an atom in scope order *)
Definition ifatom_terms (a : ifatom) : list term :=
  match a with
  | IEq a b => [a; b]
  | IDef t => [t]
  | IPred _ args => args
  | IType t _ => [t]
  end.

Definition thenatom_terms (a : thenatom) : list term :=
  match a with
  | TEq a b => [a; b]
  | TDef (Some x) t => [x; t]
  | TDef None t => [t]
  | TPred _ args => args
  end.

(* ------------------------------------------------------------------ symbols *)

Inductive kind : Type := KType | KPred | KFunc | KRule | KEnum | KCtor.

Definition kind_eqb (a b : kind) : bool :=
  match a, b with
  | KType, KType | KPred, KPred | KFunc, KFunc | KRule, KRule | KEnum, KEnum | KCtor, KCtor => true
  | _, _ => false
  end.

Record sym : Type := mkSym {
  s_name : name; s_kind : kind; s_line : line;
  s_dom : list name;          (* argument types of a pred / func / ctor *)
  s_cod : option name         (* result type of a func, enum of a ctor *)
}.

(* declarations in the order of the END of their source text (an enum comes after its constructors) *)
Definition decl_syms (d : decl) : list sym :=
  match d with
  | DType l n => [mkSym n KType l [] None]
  | DPred l n args => [mkSym n KPred l args None]
  | DFunc l n args res => [mkSym n KFunc l args (Some res)]
  | DEnum l n ctors =>
      map (fun c => match c with (cl, cn, cargs) => mkSym cn KCtor cl cargs (Some n) end) ctors
      ++ [mkSym n KEnum l [] None]
  | DRule l (Some n) _ => [mkSym n KRule l [] None]
  | DRule _ None _ => []
  end.

Definition symbols (p : prog) : list sym := flat_map decl_syms p.

Definition named (n : name) (sg : list sym) : list sym :=
  filter (fun s => N.eqb (s_name s) n) sg.

Definition has_kind (ks : list kind) (s : sym) : bool := existsb (kind_eqb (s_kind s)) ks.

Definition find_kind (ks : list kind) (sg : list sym) (n : name) : option sym :=
  find (has_kind ks) (named n sg).

Definition find_type := find_kind [KType; KEnum].
Definition find_pred := find_kind [KPred].
Definition find_func := find_kind [KFunc; KCtor].
Definition find_ctor := find_kind [KCtor].

(* every declaration whose name was declared before (in end order) *)
Fixpoint dup_defects (seen : list name) (sg : list sym) : list defect :=
  match sg with
  | [] => []
  | s :: r =>
      (if mem (s_name s) seen then [(SymbolDeclaredTwice, [s_line s])] else [])
      ++ dup_defects (s_name s :: seen) r
  end.

(* use of name n at line l where one of the kinds ks is expected *)
Definition lookup_defects (ks : list kind) (sg : list sym) (n : name) (l : line) : list defect :=
  match named n sg with
  | [] => [(UndeclaredSymbol, [l])]
  | ds => if existsb (has_kind ks) ds then [] else [(BadSymbolKind, [l])]
  end.

Definition argnum_defects (c : dclass) (fd : option sym) (nargs : nat) (l : line) : list defect :=
  match fd with
  | Some s => if Nat.eqb (length (s_dom s)) nargs then [] else [(c, [l])]
  | None => []
  end.

Fixpoint sym_term (sg : list sym) (t : term) : list defect :=
  match t with
  | Var _ _ => []
  | Wild _ => []
  | App l f args =>
      lookup_defects [KFunc; KCtor] sg f l
      ++ argnum_defects FuncArgNumber (find_func sg f) (length args) l
      ++ flat_map (sym_term sg) args
  end.

Definition sym_pred (sg : list sym) (l : line) (p : name) (args : list term) : list defect :=
  lookup_defects [KPred] sg p l
  ++ argnum_defects PredArgNumber (find_pred sg p) (length args) l
  ++ flat_map (sym_term sg) args.

Definition sym_ifatom (sg : list sym) (l : line) (a : ifatom) : list defect :=
  match a with
  | IEq a b => sym_term sg a ++ sym_term sg b
  | IDef t => sym_term sg t
  | IPred p args => sym_pred sg l p args
  | IType t ty => lookup_defects [KType; KEnum] sg ty l ++ sym_term sg t
  end.

Definition sym_thenatom (sg : list sym) (l : line) (a : thenatom) : list defect :=
  match a with
  | TEq a b => sym_term sg a ++ sym_term sg b
  | TDef (Some x) t => sym_term sg x ++ sym_term sg t
  | TDef None t => sym_term sg t
  | TPred p args => sym_pred sg l p args
  end.

(* a pattern that is an application must name a constructor *)
Definition sym_pattern (sg : list sym) (pat : term) : list defect :=
  match pat with
  | App l f _ => lookup_defects [KCtor] sg f l
  | _ => []
  end.

Fixpoint sym_stmt (sg : list sym) (s : stmt) : list defect :=
  match s with
  | SIf l a => sym_ifatom sg l a
  | SThen l a => sym_thenatom sg l a
  | SBranch _ bs => sym_blocks sg bs
  | SMatch _ d cs => sym_term sg d ++ sym_cases sg cs
  end
with sym_block (sg : list sym) (b : block) : list defect :=
  match b with BNil => [] | BCons s r => sym_stmt sg s ++ sym_block sg r end
with sym_blocks (sg : list sym) (bs : blocks) : list defect :=
  match bs with BsNil => [] | BsCons b r => sym_block sg b ++ sym_blocks sg r end
with sym_cases (sg : list sym) (cs : cases) : list defect :=
  match cs with
  | CNil => []
  | CCons pat b r => sym_pattern sg pat ++ sym_term sg pat ++ sym_block sg b ++ sym_cases sg r
  end.

Definition sym_types (sg : list sym) (l : line) (tys : list name) : list defect :=
  flat_map (fun ty => lookup_defects [KType; KEnum] sg ty l) tys.

Definition sym_decl (sg : list sym) (d : decl) : list defect :=
  match d with
  | DType _ _ => []
  | DPred l _ args => sym_types sg l args
  | DFunc l _ args res => sym_types sg l (args ++ [res])
  | DEnum _ _ ctors => flat_map (fun c => match c with (cl, _, cargs) => sym_types sg cl cargs end) ctors
  | DRule _ _ body => sym_block sg body
  end.

Definition symbol_defects (p : prog) : list defect :=
  let sg := symbols p in dup_defects [] sg ++ flat_map (sym_decl sg) p.

(* ------------------------------------------------------------------ scopes (on the source AST) *)

(* Terms that must be "epic": every variable already in scope, no wildcard. *)
Fixpoint epic_leaves (sc : list name) (ls : list (line * option name)) : list defect :=
  match ls with
  | [] => []
  | (l, None) :: r => (WildcardInThen, [l]) :: epic_leaves sc r
  | (l, Some x) :: r =>
      if mem x sc then epic_leaves sc r
      else (VarIntroducedInThen, [l]) :: epic_leaves (x :: sc) r
  end.

Definition terms_vars (ts : list term) : list name := flat_map tvars ts.

Definition scope_thenatom (sc : list name) (a : thenatom) : list defect :=
  match a with
  | TEq a b => epic_leaves sc (leaves a ++ leaves b)
  | TPred _ args => epic_leaves sc (flat_map leaves args)
  | TDef None t => epic_leaves sc (leaves t)
  | TDef (Some x) t =>
      match x with
      | Wild _ => []
      | App l _ _ => [(ThenDefinedNotVar, [l])]
      | Var l v => if mem v sc then [(ThenDefinedVarNotNew, [l])] else []
      end
      ++ epic_leaves sc (leaves t)       (* x itself is not in scope inside t *)
  end.

(* arguments of a constructor pattern: fresh variables or wildcards *)
Fixpoint scope_pat_args (sc : list name) (args : list term) : list defect :=
  match args with
  | [] => []
  | a :: r =>
      match a with
      | App l _ _ => [(MatchPatternCtorArgIsApp, [l])]
      | Var l v => if mem v sc then [(MatchPatternArgVarIsNotFresh, [l])] else []
      | Wild _ => []
      end ++ scope_pat_args (tvars a ++ sc) r
  end.

Definition scope_pattern (sc : list name) (pat : term) : list defect :=
  match pat with
  | Var l _ => [(MatchPatternIsVariable, [l])]
  | Wild l => [(MatchPatternIsWildcard, [l])]
  | App _ _ args => scope_pat_args sc args
  end.

(* variables a statement adds to the scope of the statements after it *)
Definition stmt_vars (s : stmt) : list name :=
  match s with
  | SIf _ a => terms_vars (ifatom_terms a)
  | SThen _ a => terms_vars (thenatom_terms a)
  | SBranch _ _ => []
  | SMatch _ d _ => tvars d
  end.

Fixpoint scope_stmt (sc : list name) (s : stmt) : list defect :=
  match s with
  | SIf _ _ => []
  | SThen _ a => scope_thenatom sc a
  | SBranch _ bs => scope_blocks sc bs
  | SMatch _ d cs => scope_cases (tvars d ++ sc) cs
  end
with scope_block (sc : list name) (b : block) : list defect :=
  match b with
  | BNil => []
  | BCons s r => scope_stmt sc s ++ scope_block (stmt_vars s ++ sc) r
  end
with scope_blocks (sc : list name) (bs : blocks) : list defect :=
  match bs with BsNil => [] | BsCons b r => scope_block sc b ++ scope_blocks sc r end
with scope_cases (sc : list name) (cs : cases) : list defect :=
  match cs with
  | CNil => []
  | CCons pat b r => scope_pattern sc pat ++ scope_block (tvars pat ++ sc) b ++ scope_cases sc r
  end.

(* ------------------------------------------------------------------ variables used only once *)

Definition count_leaves (x : name) (ls : list (line * option name)) : nat :=
  length (filter (N.eqb x) (leaf_vars ls)).

Definition count_terms (x : name) (ts : list term) : nat := count_leaves x (flat_map leaves ts).

Fixpoint count_stmt (x : name) (s : stmt) : nat :=
  match s with
  | SIf _ a => count_terms x (ifatom_terms a)
  | SThen _ a => count_terms x (thenatom_terms a)
  | SBranch _ bs => count_blocks x bs
  | SMatch _ d cs => count_terms x [d] + count_cases x cs
  end
with count_block (x : name) (b : block) : nat :=
  match b with BNil => O | BCons s r => count_stmt x s + count_block x r end
with count_blocks (x : name) (bs : blocks) : nat :=
  match bs with BsNil => O | BsCons b r => count_block x b + count_blocks x r end
with count_cases (x : name) (cs : cases) : nat :=
  match cs with CNil => O | CCons pat b r => count_terms x [pat] + count_block x b + count_cases x r end.

(* first occurrences of the variables that are not in scope yet *)
Fixpoint new_vars (sc : list name) (ls : list (line * option name)) : list (name * line) :=
  match ls with
  | [] => []
  | (_, None) :: r => new_vars sc r
  | (l, Some x) :: r => if mem x sc then new_vars sc r else (x, l) :: new_vars (x :: sc) r
  end.

(* the leaves through which a statement introduces variables into the enclosing block *)
Definition stmt_leaves (s : stmt) : list (line * option name) :=
  match s with
  | SIf _ a => flat_map leaves (ifatom_terms a)
  | SThen _ a => flat_map leaves (thenatom_terms a)
  | SBranch _ _ => []
  | SMatch _ d _ => leaves d
  end.

Definition once_check (intro : list (name * line)) (cnt : name -> nat) : list defect :=
  flat_map (fun xl => if Nat.leb 2 (cnt (fst xl)) then [] else [(VariableOccursOnlyOnce, [snd xl])]) intro.

(* `after x` = occurrences of x in the rest of the enclosing block *)
Fixpoint once_stmt (sc : list name) (after : name -> nat) (s : stmt) : list defect :=
  once_check (new_vars sc (stmt_leaves s)) (fun x => (count_stmt x s + after x)%nat)
  ++ match s with
     | SIf _ _ => []
     | SThen _ _ => []
     | SBranch _ bs => once_blocks sc bs
     | SMatch _ d cs => once_cases (tvars d ++ sc) cs
     end
with once_block (sc : list name) (b : block) : list defect :=
  match b with
  | BNil => []
  | BCons s r => once_stmt sc (fun x => count_block x r) s ++ once_block (stmt_vars s ++ sc) r
  end
with once_blocks (sc : list name) (bs : blocks) : list defect :=
  match bs with BsNil => [] | BsCons b r => once_block sc b ++ once_blocks sc r end
with once_cases (sc : list name) (cs : cases) : list defect :=
  match cs with
  | CNil => []
  | CCons pat b r =>
      once_check (new_vars sc (leaves pat)) (fun x => (count_terms x [pat] + count_block x b)%nat)
      ++ once_block (tvars pat ++ sc) b ++ once_cases sc r
  end.

(* ------------------------------------------------------------------ resolution of variables

   Every variable binding gets its own number and every wildcard becomes a variable of its own, so that
   the passes below need no scopes: `Var l i` is the i-th binding of the rule. *)

Definition renv := list (name * N).

Fixpoint res_term (sc : renv) (c : N) (t : term) : term * renv * N :=
  match t with
  | Var l x =>
      match assoc x sc with
      | Some i => (Var l i, sc, c)
      | None => (Var l c, (x, c) :: sc, c + 1)
      end
  | Wild l => (Var l c, sc, c + 1)
  | App l f args =>
      let r := (fix go (ts : list term) (sc : renv) (c : N) : list term * renv * N :=
                  match ts with
                  | [] => ([], sc, c)
                  | t' :: ts' =>
                      match res_term sc c t' with
                      | (t1, sc1, c1) =>
                          match go ts' sc1 c1 with (ts2, sc2, c2) => (t1 :: ts2, sc2, c2) end
                      end
                  end) args sc c in
      match r with (args', sc', c') => (App l f args', sc', c') end
  end.

Fixpoint res_terms (sc : renv) (c : N) (ts : list term) : list term * renv * N :=
  match ts with
  | [] => ([], sc, c)
  | t :: r =>
      match res_term sc c t with
      | (t1, sc1, c1) => match res_terms sc1 c1 r with (r2, sc2, c2) => (t1 :: r2, sc2, c2) end
      end
  end.

Definition res_ifatom (sc : renv) (c : N) (a : ifatom) : ifatom * renv * N :=
  match a with
  | IEq a b =>
      match res_term sc c a with
      | (a1, sc1, c1) => match res_term sc1 c1 b with (b1, sc2, c2) => (IEq a1 b1, sc2, c2) end
      end
  | IDef t => match res_term sc c t with (t1, sc1, c1) => (IDef t1, sc1, c1) end
  | IPred p args => match res_terms sc c args with (a1, sc1, c1) => (IPred p a1, sc1, c1) end
  | IType t ty => match res_term sc c t with (t1, sc1, c1) => (IType t1 ty, sc1, c1) end
  end.

Definition res_thenatom (sc : renv) (c : N) (a : thenatom) : thenatom * renv * N :=
  match a with
  | TEq a b =>
      match res_term sc c a with
      | (a1, sc1, c1) => match res_term sc1 c1 b with (b1, sc2, c2) => (TEq a1 b1, sc2, c2) end
      end
  | TDef None t => match res_term sc c t with (t1, sc1, c1) => (TDef None t1, sc1, c1) end
  | TDef (Some x) t =>
      (* t first: x is not in scope inside t *)
      match res_term sc c t with
      | (t1, sc1, c1) => match res_term sc1 c1 x with (x1, sc2, c2) => (TDef (Some x1) t1, sc2, c2) end
      end
  | TPred p args => match res_terms sc c args with (a1, sc1, c1) => (TPred p a1, sc1, c1) end
  end.

Fixpoint res_stmt (sc : renv) (c : N) (s : stmt) : stmt * renv * N :=
  match s with
  | SIf l a => match res_ifatom sc c a with (a1, sc1, c1) => (SIf l a1, sc1, c1) end
  | SThen l a => match res_thenatom sc c a with (a1, sc1, c1) => (SThen l a1, sc1, c1) end
  | SBranch l bs => match res_blocks sc c bs with (bs1, c1) => (SBranch l bs1, sc, c1) end
  | SMatch l d cs =>
      match res_term sc c d with
      | (d1, sc1, c1) => match res_cases sc1 c1 cs with (cs1, c2) => (SMatch l d1 cs1, sc1, c2) end
      end
  end
with res_block (sc : renv) (c : N) (b : block) : block * N :=
  match b with
  | BNil => (BNil, c)
  | BCons s r =>
      match res_stmt sc c s with
      | (s1, sc1, c1) => match res_block sc1 c1 r with (r1, c2) => (BCons s1 r1, c2) end
      end
  end
with res_blocks (sc : renv) (c : N) (bs : blocks) : blocks * N :=
  match bs with
  | BsNil => (BsNil, c)
  | BsCons b r =>
      match res_block sc c b with
      | (b1, c1) => match res_blocks sc c1 r with (r1, c2) => (BsCons b1 r1, c2) end
      end
  end
with res_cases (sc : renv) (c : N) (cs : cases) : cases * N :=
  match cs with
  | CNil => (CNil, c)
  | CCons pat b r =>
      match res_term sc c pat with
      | (p1, sc1, c1) =>
          match res_block sc1 c1 b with
          | (b1, c2) => match res_cases sc c2 r with (r1, c3) => (CCons p1 b1 r1, c3) end
          end
      end
  end.

(* resolved body and the number of bindings *)
Definition resolve (body : block) : block * N := res_block [] 1 body.

(* ------------------------------------------------------------------ atoms and paths *)

Inductive atom : Type :=
| AIf (l : line) (a : ifatom)
| AThen (l : line) (a : thenatom).

(* `match d { p1 => b1 ... }` reads d and then, per case, `if d = p_i;` followed by b_i *)
Fixpoint all_atoms_stmt (s : stmt) : list atom :=
  match s with
  | SIf l a => [AIf l a]
  | SThen l a => [AThen l a]
  | SBranch _ bs => all_atoms_blocks bs
  | SMatch l d cs => AIf l (IDef d) :: all_atoms_cases d cs
  end
with all_atoms_block (b : block) : list atom :=
  match b with BNil => [] | BCons s r => all_atoms_stmt s ++ all_atoms_block r end
with all_atoms_blocks (bs : blocks) : list atom :=
  match bs with BsNil => [] | BsCons b r => all_atoms_block b ++ all_atoms_blocks r end
with all_atoms_cases (d : term) (cs : cases) : list atom :=
  match cs with
  | CNil => []
  | CCons pat b r => AIf (tline pat) (IEq d pat) :: all_atoms_block b ++ all_atoms_cases d r
  end.

(* control-flow paths: one list of atoms per way through the statements *)
Fixpoint paths_stmt (s : stmt) : list (list atom) :=
  match s with
  | SIf l a => [[AIf l a]]
  | SThen l a => [[AThen l a]]
  | SBranch _ bs => paths_blocks bs
  | SMatch l d cs => map (cons (AIf l (IDef d))) (paths_cases d cs)
  end
with paths_block (b : block) : list (list atom) :=
  match b with
  | BNil => [[]]
  | BCons s r => flat_map (fun p => map (app p) (paths_block r)) (paths_stmt s)
  end
with paths_blocks (bs : blocks) : list (list atom) :=
  match bs with BsNil => [] | BsCons b r => paths_block b ++ paths_blocks r end
with paths_cases (d : term) (cs : cases) : list (list atom) :=
  match cs with
  | CNil => []
  | CCons pat b r => map (cons (AIf (tline pat) (IEq d pat))) (paths_block b) ++ paths_cases d r
  end.

Definition atom_terms (a : atom) : list term :=
  match a with AIf _ a => ifatom_terms a | AThen _ a => thenatom_terms a end.

Definition atom_eqs (a : atom) : list (term * term) :=
  match a with
  | AIf _ (IEq a b) => [(a, b)]
  | AThen _ (TEq a b) => [(a, b)]
  | AThen _ (TDef (Some x) t) => [(x, t)]
  | _ => []
  end.

(* ------------------------------------------------------------------ congruence closure *)

(* terms without lines; wildcards do not occur after resolution *)
Inductive uterm : Type :=
| UVar (x : name)
| UWild
| UApp (f : name) (args : list uterm).

Fixpoint erase (t : term) : uterm :=
  match t with
  | Var _ x => UVar x
  | Wild _ => UWild
  | App _ f args => UApp f (map erase args)
  end.

Fixpoint uterm_eqb (a b : uterm) : bool :=
  match a, b with
  | UVar x, UVar y => N.eqb x y
  | UWild, UWild => true
  | UApp f xs, UApp g ys =>
      N.eqb f g &&
      (fix go (xs ys : list uterm) : bool :=
         match xs, ys with
         | [], [] => true
         | x :: xs', y :: ys' => uterm_eqb x y && go xs' ys'
         | _, _ => false
         end) xs ys
  | _, _ => false
  end.

(* a partition of a set of terms: node -> class number *)
Record cc : Type := mkCC { cc_nodes : list (uterm * N); cc_next : N }.

Definition cc_empty : cc := mkCC [] 0.

Fixpoint cls_in (ns : list (uterm * N)) (u : uterm) : option N :=
  match ns with
  | [] => None
  | (v, c) :: r => if uterm_eqb u v then Some c else cls_in r u
  end.

Definition cls (st : cc) (u : uterm) : option N := cls_in (cc_nodes st) u.

Definition add_node (st : cc) (u : uterm) : cc :=
  match cls st u with
  | Some _ => st
  | None => mkCC ((u, cc_next st) :: cc_nodes st) (cc_next st + 1)
  end.

(* add a term and all its subterms *)
Fixpoint add_term (st : cc) (u : uterm) : cc :=
  match u with
  | UApp _ args => add_node (fold_left add_term args st) u
  | _ => add_node st u
  end.

Definition merge (st : cc) (c1 c2 : N) : cc :=
  mkCC (map (fun uc => (fst uc, if N.eqb (snd uc) c2 then c1 else snd uc)) (cc_nodes st)) (cc_next st).

Definition union (st : cc) (a b : uterm) : cc :=
  match cls st a, cls st b with
  | Some ca, Some cb => if N.eqb ca cb then st else merge st ca cb
  | _, _ => st
  end.

Definition opt_eqb (a b : option N) : bool :=
  match a, b with
  | Some x, Some y => N.eqb x y
  | _, _ => false            (* an argument without class never matches *)
  end.

Fixpoint opts_eqb (xs ys : list (option N)) : bool :=
  match xs, ys with
  | [], [] => true
  | x :: xs', y :: ys' => opt_eqb x y && opts_eqb xs' ys'
  | _, _ => false
  end.

(* signature of an application node: head symbol, classes of the arguments, own class *)
Definition nsigs (st : cc) : list (name * list (option N) * N) :=
  flat_map (fun uc => match fst uc with
                      | UApp f args => [(f, map (cls st) args, snd uc)]
                      | _ => []
                      end) (cc_nodes st).

Definition sig_match (s1 s2 : name * list (option N) * N) : bool :=
  match s1, s2 with
  | (f, xs, c1), (g, ys, c2) => N.eqb f g && negb (N.eqb c1 c2) && opts_eqb xs ys
  end.

(* two application nodes in different classes with the same head and pairwise equivalent arguments *)
Fixpoint find_cong (sg : list (name * list (option N) * N)) : option (N * N) :=
  match sg with
  | [] => None
  | s :: r =>
      match find (sig_match s) r with
      | Some s' => Some (snd s, snd s')
      | None => find_cong r
      end
  end.

Fixpoint close (fuel : nat) (st : cc) : cc :=
  match fuel with
  | O => st
  | S k =>
      match find_cong (nsigs st) with
      | Some (c1, c2) => close k (merge st c1 c2)
      | None => st
      end
  end.

(* add the terms of an atom, assert its equations, close under congruence *)
Definition cc_step (st : cc) (a : atom) : cc :=
  let st1 := fold_left add_term (map erase (atom_terms a)) st in
  let st2 := fold_left (fun st e => union st (erase (fst e)) (erase (snd e))) (atom_eqs a) st1 in
  close (length (cc_nodes st2)) st2.

Definition same_cls (st : cc) (a b : uterm) : bool := opt_eqb (cls st a) (cls st b).

(* ------------------------------------------------------------------ surjectivity, path by path *)

(* terms of a then-atom that must be equal to an earlier term, and the exempted ones *)
Definition then_checked (a : thenatom) : list term :=
  flat_map subterms (thenatom_terms a).

Definition then_exempt (a : thenatom) : list term :=
  match a with TDef _ t => [t] | _ => [] end.

Definition surj_atom (old : list uterm) (st' : cc) (a : thenatom) : list defect :=
  let ok := old ++ map erase (then_exempt a) in
  flat_map (fun s => if existsb (same_cls st' (erase s)) ok then []
                     else [(SurjectivityViolation, [tline s])]) (then_checked a).

Fixpoint surj_path (st : cc) (p : list atom) : list defect :=
  match p with
  | [] => []
  | a :: r =>
      let st' := cc_step st a in
      match a with
      | AThen _ ta => surj_atom (map fst (cc_nodes st)) st' ta
      | AIf _ _ => []
      end ++ surj_path st' r
  end.

Definition surj_defects (rb : block) : list defect :=
  flat_map (surj_path cc_empty) (paths_block rb).

(* ------------------------------------------------------------------ types (rule-wide) *)

Definition tenv := list (N * name).    (* binding -> type name *)

Definition tyof (sg : list sym) (rho : tenv) (t : term) : option name :=
  match t with
  | Var _ x => assoc x rho
  | Wild _ => None
  | App _ f _ => match find_func sg f with Some s => s_cod s | None => None end
  end.

Definition func_dom (sg : list sym) (f : name) : list (option name) :=
  match find_func sg f with Some s => map Some (s_dom s) | None => [] end.

Definition pred_dom (sg : list sym) (p : name) : list (option name) :=
  match find_pred sg p with Some s => map Some (s_dom s) | None => [] end.

Definition type_exp (sg : list sym) (ty : name) : option name :=
  match find_type sg ty with Some _ => Some ty | None => None end.

(* --- inference: propagate known types into variables (no claim is made about this part; the
       result is checked by chk_* below) *)

Fixpoint prop_term (sg : list sym) (rho : tenv) (t : term) (exp : option name) : tenv :=
  match t with
  | Var _ x =>
      match exp, assoc x rho with
      | Some T, None => (x, T) :: rho
      | _, _ => rho
      end
  | Wild _ => rho
  | App _ f args =>
      (fix go (ts : list term) (ds : list (option name)) (rho : tenv) : tenv :=
         match ts with
         | [] => rho
         | t' :: ts' =>
             match ds with
             | [] => go ts' [] (prop_term sg rho t' None)
             | d :: ds' => go ts' ds' (prop_term sg rho t' d)
             end
         end) args (func_dom sg f) rho
  end.

Fixpoint prop_terms (sg : list sym) (rho : tenv) (ts : list term) (ds : list (option name)) : tenv :=
  match ts with
  | [] => rho
  | t :: r =>
      match ds with
      | [] => prop_terms sg (prop_term sg rho t None) r []
      | d :: ds' => prop_terms sg (prop_term sg rho t d) r ds'
      end
  end.

Definition prop_eq (sg : list sym) (rho : tenv) (a b : term) : tenv :=
  let rho1 := prop_term sg rho a (tyof sg rho b) in
  prop_term sg rho1 b (tyof sg rho1 a).

Definition prop_atom (sg : list sym) (rho : tenv) (a : atom) : tenv :=
  match a with
  | AIf _ (IEq a b) => prop_eq sg rho a b
  | AIf _ (IDef t) => prop_term sg rho t None
  | AIf _ (IPred p args) => prop_terms sg rho args (pred_dom sg p)
  | AIf _ (IType t ty) => prop_term sg rho t (type_exp sg ty)
  | AThen _ (TEq a b) => prop_eq sg rho a b
  | AThen _ (TDef (Some x) t) => prop_eq sg rho x t
  | AThen _ (TDef None t) => prop_term sg rho t None
  | AThen _ (TPred p args) => prop_terms sg rho args (pred_dom sg p)
  end.

Fixpoint infer_rounds (fuel : nat) (sg : list sym) (rho : tenv) (atoms : list atom) : tenv :=
  match fuel with
  | O => rho
  | S k =>
      let rho' := fold_left (prop_atom sg) atoms rho in
      if Nat.eqb (length rho') (length rho) then rho else infer_rounds k sg rho' atoms
  end.

Definition infer (sg : list sym) (nvars : N) (atoms : list atom) : tenv :=
  infer_rounds (S (N.to_nat nvars)) sg [] atoms.

(* --- checking: the type checker proper.  A finding is a class and the offending term. *)

Definition chk_here (sg : list sym) (rho : tenv) (t : term) (exp : option name) : list (dclass * term) :=
  match tyof sg rho t, exp with
  | None, _ => [(UndeterminedTermType, t)]
  | Some T', Some T => if N.eqb T T' then [] else [(ConflictingTermType, t)]
  | Some _, None => []
  end.

Fixpoint chk_term (sg : list sym) (rho : tenv) (t : term) (exp : option name) : list (dclass * term) :=
  chk_here sg rho t exp ++
  match t with
  | App _ f args =>
      (fix go (ts : list term) (ds : list (option name)) : list (dclass * term) :=
         match ts with
         | [] => []
         | t' :: ts' =>
             match ds with
             | [] => chk_term sg rho t' None ++ go ts' []
             | d :: ds' => chk_term sg rho t' d ++ go ts' ds'
             end
         end) args (func_dom sg f)
  | _ => []
  end.

Fixpoint chk_terms (sg : list sym) (rho : tenv) (ts : list term) (ds : list (option name)) : list (dclass * term) :=
  match ts with
  | [] => []
  | t :: r =>
      match ds with
      | [] => chk_term sg rho t None ++ chk_terms sg rho r []
      | d :: ds' => chk_term sg rho t d ++ chk_terms sg rho r ds'
      end
  end.

Definition chk_eq (sg : list sym) (rho : tenv) (a b : term) : list (dclass * term) :=
  chk_term sg rho a (tyof sg rho b) ++ chk_term sg rho b (tyof sg rho a).

Definition chk_atom (sg : list sym) (rho : tenv) (a : atom) : list (dclass * term) :=
  match a with
  | AIf _ (IEq a b) => chk_eq sg rho a b
  | AIf _ (IDef t) => chk_term sg rho t None
  | AIf _ (IPred p args) => chk_terms sg rho args (pred_dom sg p)
  | AIf _ (IType t ty) => chk_term sg rho t (type_exp sg ty)
  | AThen _ (TEq a b) => chk_eq sg rho a b
  | AThen _ (TDef (Some x) t) => chk_eq sg rho x t
  | AThen _ (TDef None t) => chk_term sg rho t None
  | AThen _ (TPred p args) => chk_terms sg rho args (pred_dom sg p)
  end.

(* --- lines of a finding: all occurrences of terms that some path identifies with the offending
       term (the compiler reports the first of them).  Over-approximated by one closure over all
       equations of the rule. *)

Definition rule_cc (atoms : list atom) : cc :=
  let st1 := fold_left add_term (map erase (flat_map atom_terms atoms)) cc_empty in
  let st2 := fold_left (fun st e => union st (erase (fst e)) (erase (snd e))) (flat_map atom_eqs atoms) st1 in
  close (length (cc_nodes st2)) st2.

Definition component_lines (st : cc) (occ : list term) (t : term) : list line :=
  map tline (filter (fun s => same_cls st (erase s) (erase t)) occ).

Definition all_occ (atoms : list atom) : list term := flat_map subterms (flat_map atom_terms atoms).

Definition type_defects (sg : list sym) (rho : tenv) (st : cc) (atoms : list atom) : list defect :=
  map (fun ct => (fst ct, tline (snd ct) :: component_lines st (all_occ atoms) (snd ct)))
      (flat_map (chk_atom sg rho) atoms).

(* ------------------------------------------------------------------ enums and matches (resolved rule) *)

Definition is_enum (sg : list sym) (ty : name) : bool :=
  match find_type sg ty with
  | Some s => kind_eqb (s_kind s) KEnum
  | None => false
  end.

(* constructors (as symbols) of enum e *)
Definition ctors_of (sg : list sym) (e : name) : list sym :=
  filter (fun s => kind_eqb (s_kind s) KCtor &&
                   match s_cod s with Some e' => N.eqb e e' | None => false end) sg.

(* is t an application of a constructor of enum e? *)
Definition given_by_ctor (sg : list sym) (e : name) (t : term) : bool :=
  match t with
  | App _ f _ => existsb (fun s => N.eqb (s_name s) f) (ctors_of sg e)
  | _ => false
  end.

(* The types of a term: its own and those of the terms some equation of the rule identifies it with
   (more than one only if the rule has a type conflict). *)
Definition types_of (sg : list sym) (rho : tenv) (st : cc) (occ : list term) (t : term) : list name :=
  flat_map (fun s => match tyof sg rho s with Some T => [T] | None => [] end)
           (t :: filter (fun s => same_cls st (erase s) (erase t)) occ).

Definition enum_then (sg : list sym) (tys : term -> list name) (a : thenatom) : list defect :=
  match a with
  | TDef _ t =>
      if existsb (fun ty => is_enum sg ty && negb (given_by_ctor sg ty t)) (tys t)
      then [(EnumCtorsNotSurjective, [tline t])] else []
  | _ => []
  end.

(* names of the constructors used as patterns *)
Fixpoint case_ctors (sg : list sym) (cs : cases) : list sym :=
  match cs with
  | CNil => []
  | CCons pat _ r =>
      match pat with
      | App _ f _ => match find_ctor sg f with Some s => [s] | None => [] end
      | _ => []
      end ++ case_ctors sg r
  end.

Definition ctor_enums (cts : list sym) : list name :=
  flat_map (fun s => match s_cod s with Some e => [e] | None => [] end) cts.

Definition all_same (xs : list N) : bool :=
  match xs with
  | [] => true
  | x :: r => forallb (N.eqb x) r
  end.

Definition covers (sg : list sym) (cts : list sym) (ty : name) : bool :=
  forallb (fun c => existsb (fun c' => N.eqb (s_name c) (s_name c')) cts) (ctors_of sg ty).

Definition match_defects (sg : list sym) (tys : term -> list name) (l : line) (d : term) (cs : cases) : list defect :=
  let cts := case_ctors sg cs in
  (if all_same (ctor_enums cts) then [] else [(MatchConflictingEnum, [l])])
  ++ (if forallb (fun ty => negb (is_enum sg ty) || covers sg cts ty) (tys d)
      then [] else [(MatchNotExhaustive, [l])]).

Fixpoint enum_stmt (sg : list sym) (tys : term -> list name) (s : stmt) : list defect :=
  match s with
  | SIf _ _ => []
  | SThen _ a => enum_then sg tys a
  | SBranch _ bs => enum_blocks sg tys bs
  | SMatch l d cs => match_defects sg tys l d cs ++ enum_cases sg tys cs
  end
with enum_block (sg : list sym) (tys : term -> list name) (b : block) : list defect :=
  match b with BNil => [] | BCons s r => enum_stmt sg tys s ++ enum_block sg tys r end
with enum_blocks (sg : list sym) (tys : term -> list name) (bs : blocks) : list defect :=
  match bs with BsNil => [] | BsCons b r => enum_block sg tys b ++ enum_blocks sg tys r end
with enum_cases (sg : list sym) (tys : term -> list name) (cs : cases) : list defect :=
  match cs with CNil => [] | CCons _ b r => enum_block sg tys b ++ enum_cases sg tys r end.

(* ------------------------------------------------------------------ the checker *)

Definition rule_defects (sg : list sym) (body : block) : list defect :=
  scope_block [] body ++ once_block [] body ++
  match resolve body with
  | (rb, n) =>
      let atoms := all_atoms_block rb in
      let rho := infer sg n atoms in
      let st := rule_cc atoms in
      type_defects sg rho st atoms ++ surj_defects rb
      ++ enum_block sg (types_of sg rho st (all_occ atoms)) rb
  end.

Definition decl_defects (sg : list sym) (d : decl) : list defect :=
  match d with
  | DRule _ _ body => rule_defects sg body
  | _ => []
  end.

Definition defects (p : prog) : list defect :=
  symbol_defects p ++ flat_map (decl_defects (symbols p)) p.

Definition accepted (p : prog) : bool := match defects p with [] => true | _ => false end.
