(* Enum constructors and matches: declarative conditions and soundness of the enum pass. *)
From Coq Require Import List NArith Bool Arith Lia.
From Static Require Import Model FactsBase FactsSymbols.
Import ListNotations.
Open Scope N_scope.

(* ---------------------------------------------------------------- declarative side *)

Definition IsEnum (sg : list sym) (ty : name) : Prop := exists s, declared sg ty [KEnum] s.

(* c is (the name of) a constructor of enum e *)
Definition CtorOf (sg : list sym) (e c : name) : Prop :=
  exists s, In s sg /\ s_name s = c /\ s_kind s = KCtor /\ s_cod s = Some e.

Inductive GivenByCtor (sg : list sym) (e : name) : term -> Prop :=
| GBC : forall l f args, CtorOf sg e f -> GivenByCtor sg e (App l f args).

(* a term made defined in an enum type is a constructor application *)
Definition EnThen (sg : list sym) (rho : tenv) (a : thenatom) : Prop :=
  match a with
  | TDef _ t => forall ty, tyof sg rho t = Some ty -> IsEnum sg ty -> GivenByCtor sg ty t
  | _ => True
  end.

Fixpoint pat_heads (cs : cases) : list name :=
  match cs with
  | CNil => []
  | CCons (App _ f _) _ r => f :: pat_heads r
  | CCons _ _ r => pat_heads r
  end.

Definition EnMatch (sg : list sym) (rho : tenv) (d : term) (cs : cases) : Prop :=
  (* the constructors used as patterns belong to one enum *)
  (forall f1 f2 e1 e2, In f1 (pat_heads cs) -> In f2 (pat_heads cs) ->
                       CtorOf sg e1 f1 -> CtorOf sg e2 f2 -> e1 = e2) /\
  (* every constructor of the matched term's enum has a case *)
  (forall ty c, tyof sg rho d = Some ty -> IsEnum sg ty -> CtorOf sg ty c -> In c (pat_heads cs)).

Inductive EnStmt (sg : list sym) (rho : tenv) : stmt -> Prop :=
| En_if : forall l a, EnStmt sg rho (SIf l a)
| En_then : forall l a, EnThen sg rho a -> EnStmt sg rho (SThen l a)
| En_branch : forall l bs, EnBlocks sg rho bs -> EnStmt sg rho (SBranch l bs)
| En_match : forall l d cs, EnMatch sg rho d cs -> EnCases sg rho cs -> EnStmt sg rho (SMatch l d cs)
with EnBlock (sg : list sym) (rho : tenv) : block -> Prop :=
| EnB_nil : EnBlock sg rho BNil
| EnB_cons : forall s r, EnStmt sg rho s -> EnBlock sg rho r -> EnBlock sg rho (BCons s r)
with EnBlocks (sg : list sym) (rho : tenv) : blocks -> Prop :=
| EnBs_nil : EnBlocks sg rho BsNil
| EnBs_cons : forall b r, EnBlock sg rho b -> EnBlocks sg rho r -> EnBlocks sg rho (BsCons b r)
with EnCases (sg : list sym) (rho : tenv) : cases -> Prop :=
| EnC_nil : EnCases sg rho CNil
| EnC_cons : forall pat b r, EnBlock sg rho b -> EnCases sg rho r -> EnCases sg rho (CCons pat b r).

(* ---------------------------------------------------------------- lookups *)

Lemma is_enum_true sg ty : Unique sg -> IsEnum sg ty -> is_enum sg ty = true.
Proof.
  intros Hu [s [Hin [Hn Hk]]]. unfold is_enum, find_type.
  assert (Hd : declared sg ty [KType; KEnum] s).
  { split; [exact Hin | split; [exact Hn|]]. destruct Hk as [Hk | []]. rewrite <- Hk. right. left. reflexivity. }
  rewrite (declared_find_kind _ _ _ _ Hu Hd). destruct Hk as [Hk | []]. rewrite <- Hk. reflexivity.
Qed.

Lemma ctors_of_In sg e s :
  In s (ctors_of sg e) <-> In s sg /\ s_kind s = KCtor /\ s_cod s = Some e.
Proof.
  unfold ctors_of. rewrite filter_In, andb_true_iff, kind_eqb_eq. split.
  - intros [H1 [H2 H3]]. split; [exact H1 | split; [exact H2|]].
    destruct (s_cod s) as [e'|]; [|discriminate]. apply N.eqb_eq in H3. subst. reflexivity.
  - intros [H1 [H2 H3]]. split; [exact H1 | split; [exact H2|]]. rewrite H3. apply N.eqb_refl.
Qed.

Lemma given_by_ctor_true sg e t : given_by_ctor sg e t = true -> GivenByCtor sg e t.
Proof.
  destruct t as [l x | l | l f args]; cbn [given_by_ctor]; try discriminate.
  intros H. apply existsb_exists in H. destruct H as [s [Hin He]]. apply N.eqb_eq in He.
  apply ctors_of_In in Hin. destruct Hin as [H1 [H2 H3]].
  constructor. exists s. repeat split; assumption.
Qed.

(* ---------------------------------------------------------------- the pass *)

Section Pass.
  Variable sg : list sym.
  Variable rho : tenv.
  Variable tys : term -> list name.
  Hypothesis Hu : Unique sg.
  Hypothesis Htys : forall t ty, tyof sg rho t = Some ty -> In ty (tys t).

  Lemma enum_then_sound a : enum_then sg tys a = [] -> EnThen sg rho a.
  Proof.
    destruct a as [a b | x t | p args]; cbn [enum_then EnThen]; try (intros _; exact I).
    intros H ty Hty He.
    destruct (existsb (fun ty0 => is_enum sg ty0 && negb (given_by_ctor sg ty0 t)) (tys t)) eqn:Ex; [discriminate|].
    destruct (given_by_ctor sg ty t) eqn:Eg; [apply given_by_ctor_true; exact Eg|]. exfalso.
    assert (Hex : existsb (fun ty0 => is_enum sg ty0 && negb (given_by_ctor sg ty0 t)) (tys t) = true).
    { apply existsb_exists. exists ty. split; [apply Htys; exact Hty|].
      rewrite (is_enum_true sg ty Hu He), Eg. reflexivity. }
    rewrite Hex in Ex. discriminate.
  Qed.

  Lemma case_ctors_heads cs f e :
    In f (pat_heads cs) -> CtorOf sg e f -> In e (ctor_enums (case_ctors sg cs)).
  Proof.
    intros Hin [s [Hs [Hn [Hk Hc]]]].
    induction cs as [|pat b r IH]; [destruct Hin|].
    cbn [case_ctors]. unfold ctor_enums. rewrite flat_map_app. apply in_or_app.
    destruct pat as [l x | l | l g args]; cbn [pat_heads] in Hin.
    - right. apply IH. exact Hin.
    - right. apply IH. exact Hin.
    - destruct Hin as [Hin | Hin]; [left | right; apply IH; exact Hin]. subst g.
      assert (Hd : declared sg f [KCtor] s).
      { split; [exact Hs | split; [exact Hn | rewrite Hk; left; reflexivity]]. }
      unfold find_ctor. rewrite (declared_find_kind _ _ _ _ Hu Hd). cbn [flat_map]. rewrite Hc. left. reflexivity.
  Qed.

  Lemma all_same_eq xs a b : all_same xs = true -> In a xs -> In b xs -> a = b.
  Proof.
    destruct xs as [|x r]; [intros _ []|]. cbn [all_same]. rewrite forallb_forall. intros H Ha Hb.
    assert (Hx : forall y, In y (x :: r) -> y = x).
    { intros y [Hy | Hy]; [symmetry; exact Hy|]. specialize (H y Hy). apply N.eqb_eq in H. symmetry. exact H. }
    rewrite (Hx a Ha), (Hx b Hb). reflexivity.
  Qed.

  Lemma case_ctors_names cs s : In s (case_ctors sg cs) -> In (s_name s) (pat_heads cs).
  Proof.
    induction cs as [|pat b r IH]; [intros []|]. cbn [case_ctors]. intros H. apply in_app_or in H.
    destruct pat as [l x | l | l g args]; cbn [pat_heads].
    - destruct H as [[] | H]. apply IH. exact H.
    - destruct H as [[] | H]. apply IH. exact H.
    - destruct H as [H | H]; [|right; apply IH; exact H].
      unfold find_ctor in H. destruct (find_kind [KCtor] sg g) as [s'|] eqn:Ef; [|destruct H].
      destruct H as [H | []]. subst s'. apply find_kind_declared in Ef. destruct Ef as [_ [Hn _]]. left. symmetry. exact Hn.
  Qed.

  Lemma match_defects_sound l d cs : match_defects sg tys l d cs = [] -> EnMatch sg rho d cs.
  Proof.
    unfold match_defects. intros H. apply app_eq_nil in H. destruct H as [H1 H2]. split.
    - intros f1 f2 e1 e2 Hf1 Hf2 Hc1 Hc2.
      destruct (all_same (ctor_enums (case_ctors sg cs))) eqn:Ea; [|discriminate].
      apply (all_same_eq _ e1 e2 Ea); [apply (case_ctors_heads cs f1); assumption | apply (case_ctors_heads cs f2); assumption].
    - intros ty c Hty He [s [Hs [Hn [Hk Hc]]]].
      destruct (forallb (fun ty0 => negb (is_enum sg ty0) || covers sg (case_ctors sg cs) ty0) (tys d)) eqn:Ef; [|discriminate].
      rewrite forallb_forall in Ef. specialize (Ef ty (Htys d ty Hty)).
      rewrite (is_enum_true sg ty Hu He) in Ef. cbn [negb orb] in Ef.
      unfold covers in Ef. rewrite forallb_forall in Ef.
      assert (Hin : In s (ctors_of sg ty)) by (apply ctors_of_In; repeat split; assumption).
      specialize (Ef s Hin). apply existsb_exists in Ef. destruct Ef as [s' [Hs' He']].
      apply N.eqb_eq in He'. rewrite <- Hn, He'. apply case_ctors_names. exact Hs'.
  Qed.

  Lemma enum_syntax_sound :
    (forall s, enum_stmt sg tys s = [] -> EnStmt sg rho s) /\
    (forall b, enum_block sg tys b = [] -> EnBlock sg rho b) /\
    (forall bs, enum_blocks sg tys bs = [] -> EnBlocks sg rho bs) /\
    (forall cs, enum_cases sg tys cs = [] -> EnCases sg rho cs).
  Proof.
    apply syntax_mutind.
    - intros l a _. constructor.
    - intros l a H. constructor. apply enum_then_sound. exact H.
    - intros l bs IH H. constructor. apply IH. exact H.
    - intros l d cs IH H. cbn [enum_stmt] in H. apply app_eq_nil in H. destruct H as [H1 H2].
      constructor; [apply (match_defects_sound l); exact H1 | apply IH; exact H2].
    - intros _. constructor.
    - intros s IHs r IHr H. cbn [enum_block] in H. apply app_eq_nil in H. destruct H as [H1 H2].
      constructor; [apply IHs; exact H1 | apply IHr; exact H2].
    - intros _. constructor.
    - intros b IHb r IHr H. cbn [enum_blocks] in H. apply app_eq_nil in H. destruct H as [H1 H2].
      constructor; [apply IHb; exact H1 | apply IHr; exact H2].
    - intros _. constructor.
    - intros pat b IHb r IHr H. cbn [enum_cases] in H. apply app_eq_nil in H. destruct H as [H1 H2].
      constructor; [apply IHb; exact H1 | apply IHr; exact H2].
  Qed.
End Pass.

Lemma types_of_own sg rho st occ t ty : tyof sg rho t = Some ty -> In ty (types_of sg rho st occ t).
Proof.
  intros H. unfold types_of. cbn [flat_map]. rewrite H. left. reflexivity.
Qed.

Theorem enum_block_sound sg rho st occ rb :
  Unique sg -> enum_block sg (types_of sg rho st occ) rb = [] -> EnBlock sg rho rb.
Proof.
  intros Hu. apply (enum_syntax_sound sg rho (types_of sg rho st occ) Hu).
  intros t ty. apply types_of_own.
Qed.
