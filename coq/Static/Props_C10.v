(* Property C10: static checks accept exactly the well-formed programs and name the right error.

   `Model.defects` is the reference checker; `FactsTop.WF` the declarative well-formedness judgement:
     symbols   WFsym    every name declared once; uses have a right kind and the right argument number
     scopes    ScBlock  along control-flow paths: then-statements introduce no variable / wildcard
                        (except `x := t!` with x new), pattern arguments are fresh variables
     once      OnBlock  every variable occurs twice where it is visible
     typing    TyAtom   `HasType sg rho t T` for a type assignment rho to the rule's bindings
     epic/surj SurjPath on every path every term of a then-statement is derivably congruent (Cong) to a
                        term present earlier, the term of `t!` excepted
     enums     EnBlock  terms made defined in an enum type are constructor applications; the patterns of
                        a match belong to one enum and cover it.

   Proved: exactness for symbols, scopes, once-only; exactness of the type check for a given type
   assignment; soundness of acceptance for everything (C10_accept_sound_partial).
   Not proved (Definitions ..._full below): that type inference finds an assignment whenever one exists
   and it is determined, and that the congruence closure finds every derivable congruence.  These two are
   validated by the typed generator (checks/c10.py), not proved. *)
From Coq Require Import List NArith.
From Static Require Import Model Run FactsBase FactsSymbols FactsScope FactsTyping FactsResolve FactsCC FactsEnum FactsTop.
Import ListNotations.
Open Scope N_scope.

(* ---------------------------------------------------------------- exact passes *)

Theorem C10_symbols_exact : forall p, symbol_defects p = [] <-> WFsym p.
Proof. exact symbol_defects_exact. Qed.
Print Assumptions C10_symbols_exact.

Theorem C10_scopes_exact : forall b, scope_block [] b = [] <-> ScBlock [] b.
Proof. exact scope_block_exact. Qed.
Print Assumptions C10_scopes_exact.

Theorem C10_once_exact : forall b, once_block [] b = [] <-> OnBlock [] b.
Proof. exact once_block_exact. Qed.
Print Assumptions C10_once_exact.

(* for a given assignment of types to bindings the type pass is exact *)
Theorem C10_typing_check_exact : forall sg rho st atoms,
  Unique sg -> Forall (SymAtom sg) atoms ->
  (type_defects sg rho st atoms = [] <-> Forall (TyAtom sg rho) atoms).
Proof. exact type_defects_exact. Qed.
Print Assumptions C10_typing_check_exact.

(* ---------------------------------------------------------------- sound passes *)

Theorem C10_typing_sound : forall sg rho st atoms,
  Unique sg -> Forall (SymAtom sg) atoms -> type_defects sg rho st atoms = [] -> Forall (TyAtom sg rho) atoms.
Proof. exact type_defects_sound. Qed.
Print Assumptions C10_typing_sound.

(* the partition of the congruence closure only identifies derivably congruent terms *)
Theorem C10_congruence_sound : forall E st a,
  Inv E st -> Inv (E ++ ueqs a) (cc_step st a).
Proof. exact cc_step_Inv. Qed.
Print Assumptions C10_congruence_sound.

Theorem C10_surjectivity_sound : forall rb, surj_defects rb = [] -> SurjRule rb.
Proof. exact surj_defects_sound. Qed.
Print Assumptions C10_surjectivity_sound.

Theorem C10_enums_sound : forall sg rho st occ rb,
  Unique sg -> enum_block sg (types_of sg rho st occ) rb = [] -> EnBlock sg rho rb.
Proof. exact enum_block_sound. Qed.
Print Assumptions C10_enums_sound.

(* ---------------------------------------------------------------- the property *)

(* accepted programs are well-formed *)
Theorem C10_accept_sound_partial : forall p, defects p = [] -> WF p.
Proof. exact defects_nil_WF. Qed.
Print Assumptions C10_accept_sound_partial.

(* what the exact passes report is a defect: the program is not well-formed *)
Theorem C10_reject_sound_symbols_partial : forall p d, In d (symbol_defects p) -> ~ WF p.
Proof. exact symbol_defect_not_WF. Qed.
Print Assumptions C10_reject_sound_symbols_partial.

Theorem C10_reject_sound_scopes_partial : forall p l n body d,
  In (DRule l n body) p -> In d (scope_block [] body ++ once_block [] body) -> ~ WF p.
Proof. exact scope_defect_not_WF. Qed.
Print Assumptions C10_reject_sound_scopes_partial.

(* Full statements, NOT proved.

   WF asks for *some* type assignment; the language asks for a *determined* one (a variable that no
   atom constrains has no type: `if x = y;`).  Determined = all assignments that type the rule agree on
   the rule's bindings. *)
Definition Determined (sg : list sym) (body : block) : Prop :=
  forall rho1 rho2 x,
    Forall (TyAtom sg rho1) (all_atoms_block (fst (resolve body))) ->
    Forall (TyAtom sg rho2) (all_atoms_block (fst (resolve body))) ->
    x < snd (resolve body) -> 1 <= x -> assoc x rho1 = assoc x rho2.

Definition WFfull (p : prog) : Prop :=
  WF p /\ forall l n body, In (DRule l n body) p -> Determined (symbols p) body.

(* missing for C10_exact_full: (1) completeness of `infer` (principal types: if a determined assignment
   exists, the propagation finds it), (2) completeness of the congruence closure (`Cong E s o` for nodes s, o
   implies that `close` put them into one class), (3) exactness instead of soundness of the enum pass, which
   follows from (1) because `types_of` is a singleton when there is no type conflict *)
Definition C10_exact_full : Prop := forall p, defects p = [] <-> WFfull p.

(* every reported defect is one: class-and-line level statement for all passes *)
Definition C10_defects_sound_full : Prop := forall p d, In d (defects p) -> ~ WFfull p.

(* ---------------------------------------------------------------- non-vacuity *)

(* eqlog-test-eval/src/matches.eql: an enum, a match with a pattern variable, the same name bound again
   after the match *)
Definition ex_matches : prog :=
  [DType 1 1; DPred 2 2 [1]; DPred 3 3 [1]; DEnum 5 4 [(6, 5, []); (7, 6, [1])];
   DRule 10 (Some 7) (blk [SIf 11 (IType (Var 11 8) 4);
     SMatch 12 (Var 12 8) (css [(App 13 5 [], (blk [])); (App 14 6 [Var 14 9], (blk [SThen 15 (TPred 2 [Var 15 9])]))]);
     SIf 20 (IType (Var 20 9) 1); SThen 21 (TPred 3 [Var 21 9])])].

Example ex_matches_accepted : defects ex_matches = [].
Proof. vm_compute. reflexivity. Qed.

Example ex_matches_WF : WF ex_matches.
Proof. exact (defects_nil_WF ex_matches ex_matches_accepted). Qed.

(* error test surjectivity-violation-branch: foo(x) is asserted in one block of the branch only *)
Definition ex_surj_branch : prog :=
  [DType 1 1; DFunc 2 2 [1] 1; DFunc 3 3 [1] 1;
   DRule 5 None (blk [SIf 6 (IType (Var 6 4) 1);
     SBranch 7 (blks [(blk [SIf 8 (IDef (App 8 2 [Var 8 4]))]); (blk [])]);
     SThen 11 (TEq (App 11 2 [Var 11 4]) (App 11 3 [Var 11 4]))])].

Example ex_surj_branch_rejected : In (SurjectivityViolation, [11]) (defects ex_surj_branch).
Proof. vm_compute. tauto. Qed.

(* symbols: both sides of the exact theorem are inhabited *)
Example ex_dup_rejected : symbol_defects [DType 1 1; DPred 2 1 []] = [(SymbolDeclaredTwice, [2])].
Proof. vm_compute. reflexivity. Qed.

Example ex_dup_not_WF : ~ WF [DType 1 1; DPred 2 1 []].
Proof. apply (symbol_defect_not_WF _ (SymbolDeclaredTwice, [2])). vm_compute. tauto. Qed.

Example ex_scope_rejected :
  scope_block [] (blk [SIf 1 (IType (Var 1 1) 9); SThen 2 (TEq (Var 2 1) (Var 2 2))]) = [(VarIntroducedInThen, [2])].
Proof. vm_compute. reflexivity. Qed.

Example ex_once_rejected :
  once_block [] (blk [SIf 1 (IPred 5 [Var 1 1; Var 1 2]); SThen 2 (TPred 6 [Var 2 1])]) = [(VariableOccursOnlyOnce, [1])].
Proof. vm_compute. reflexivity. Qed.

(* ---------------------------------------------------------------- the four findings (see corpus/C10/finding-*.json)

   What the reference says about the inputs on which the compiler of the unchanged tree deviates. *)

(* nested-last-branch: foo(x) is asserted on every path; the compiler rejects line 14 *)
Definition finding_nested_last_branch : prog :=
  [DType 1 1; DFunc 2 2 [1] 1;
   DRule 3 None (blk [SIf 4 (IType (Var 4 3) 1);
     SBranch 5 (blks [(blk [SBranch 6 (blks [(blk [SIf 7 (IDef (App 7 2 [Var 7 3]))]); (blk [SIf 9 (IDef (App 9 2 [Var 9 3]))])])]);
                      (blk [SIf 12 (IDef (App 12 2 [Var 12 3]))])]);
     SThen 14 (TEq (App 14 2 [Var 14 3]) (App 14 2 [Var 14 3]))])].

Example finding_nested_last_branch_is_WF : defects finding_nested_last_branch = [] /\ WF finding_nested_last_branch.
Proof. assert (H : defects finding_nested_last_branch = []) by (vm_compute; reflexivity). split; [exact H | exact (defects_nil_WF _ H)]. Qed.

(* then-defined-self-reference: `then y := foo(y)!`; the compiler accepts and then panics *)
Definition finding_self_reference : prog :=
  [DType 1 1; DFunc 2 2 [1] 1;
   DRule 3 None (blk [SIf 4 (IType (Var 4 3) 1); SThen 5 (TDef (Some (Var 5 4)) (App 5 2 [Var 5 4])); SThen 6 (TEq (Var 6 3) (Var 6 4))])].

Example finding_self_reference_not_WF : ~ WF finding_self_reference.
Proof.
  eapply (scope_defect_not_WF finding_self_reference 3 None _ (VarIntroducedInThen, [5])).
  - unfold finding_self_reference. right. right. left. reflexivity.
  - vm_compute. tauto.
Qed.

(* empty-match-dead-code: p expects type 2, y has type 1, after `match x {}`; the compiler accepts *)
Definition finding_empty_match : prog :=
  [DType 1 1; DType 2 2; DEnum 3 3 []; DPred 4 4 [2];
   DRule 5 None (blk [SIf 6 (IType (Var 6 5) 3); SIf 7 (IType (Var 7 6) 1); SMatch 8 (Var 8 5) (css []); SThen 9 (TPred 4 [Var 9 6])])].

Example finding_empty_match_rejected : In (ConflictingTermType, [9; 7; 9]) (defects finding_empty_match).
Proof. vm_compute. tauto. Qed.

(* dup-func-blames-types: the second declaration of function 3 is at line 4; the compiler blames line 2 *)
Definition finding_dup_func : prog := [DType 1 1; DType 2 2; DFunc 3 3 [2] 1; DFunc 4 3 [] 2].

Example finding_dup_func_line : defects finding_dup_func = [(SymbolDeclaredTwice, [4])].
Proof. vm_compute. reflexivity. Qed.

(* match-discriminee-scope-leak: the z of the first block (line 7) occurs once; the compiler accepts *)
Definition finding_discriminee_leak : prog :=
  [DType 1 1; DType 2 2; DEnum 3 3 [(3, 4, []); (3, 5, [1])]; DPred 4 6 [2];
   DRule 5 None (blk [SBranch 6 (blks [
     (blk [SMatch 7 (Var 7 7) (css [(App 7 4 [], (blk [])); (App 7 5 [Wild 7], (blk []))])]);
     (blk [SIf 9 (IPred 6 [Var 9 7]); SIf 10 (IPred 6 [Var 10 7])])])])].

Example finding_discriminee_leak_rejected : defects finding_discriminee_leak = [(VariableOccursOnlyOnce, [7])].
Proof. vm_compute. reflexivity. Qed.
