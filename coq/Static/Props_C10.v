(* Property C10: the reference checker against the declarative well-formedness judgement. *)
From Coq Require Import List NArith.
From Static Require Import Model Run FactsBase FactsSymbols FactsScope.
Import ListNotations.
Open Scope N_scope.

Theorem C10_symbols_exact : forall p, symbol_defects p = [] <-> WFsym p.
Proof. exact symbol_defects_exact. Qed.
Print Assumptions C10_symbols_exact.

Theorem C10_scopes_exact : forall b, scope_block [] b = [] <-> ScBlock [] b.
Proof. exact scope_block_exact. Qed.
Print Assumptions C10_scopes_exact.

Theorem C10_once_exact : forall b, once_block [] b = [] <-> OnBlock [] b.
Proof. exact once_block_exact. Qed.
Print Assumptions C10_once_exact.
