(* Symbols: declared once, used with the right kind and the right number of arguments.
   Declarative judgement and its equivalence with `symbol_defects p = []`. *)
From Coq Require Import List NArith Bool Arith Lia.
From Static Require Import Model FactsBase.
Import ListNotations.
Open Scope N_scope.

(* ---------------------------------------------------------------- declarative side *)

(* s is a declaration of name n whose kind is one of ks *)
Definition declared (sg : list sym) (n : name) (ks : list kind) (s : sym) : Prop :=
  In s sg /\ s_name s = n /\ In (s_kind s) ks.

(* every name is declared at most once (types, predicates, functions, rules, enums and constructors
   share one name space) *)
Definition Unique (sg : list sym) : Prop := NoDup (map s_name sg).

Inductive SymTerm (sg : list sym) : term -> Prop :=
| ST_var : forall l x, SymTerm sg (Var l x)
| ST_wild : forall l, SymTerm sg (Wild l)
| ST_app : forall l f args s,
    declared sg f [KFunc; KCtor] s -> length (s_dom s) = length args ->
    Forall (SymTerm sg) args -> SymTerm sg (App l f args).

Definition SymPred (sg : list sym) (p : name) (args : list term) : Prop :=
  (exists s, declared sg p [KPred] s /\ length (s_dom s) = length args) /\ Forall (SymTerm sg) args.

Definition SymType (sg : list sym) (ty : name) : Prop := exists s, declared sg ty [KType; KEnum] s.

Inductive SymIf (sg : list sym) : ifatom -> Prop :=
| SI_eq : forall a b, SymTerm sg a -> SymTerm sg b -> SymIf sg (IEq a b)
| SI_def : forall t, SymTerm sg t -> SymIf sg (IDef t)
| SI_pred : forall p args, SymPred sg p args -> SymIf sg (IPred p args)
| SI_type : forall t ty, SymType sg ty -> SymTerm sg t -> SymIf sg (IType t ty).

Inductive SymThen (sg : list sym) : thenatom -> Prop :=
| STh_eq : forall a b, SymTerm sg a -> SymTerm sg b -> SymThen sg (TEq a b)
| STh_def : forall t, SymTerm sg t -> SymThen sg (TDef None t)
| STh_defx : forall x t, SymTerm sg x -> SymTerm sg t -> SymThen sg (TDef (Some x) t)
| STh_pred : forall p args, SymPred sg p args -> SymThen sg (TPred p args).

(* a pattern that is an application names a constructor *)
Definition SymPattern (sg : list sym) (pat : term) : Prop :=
  match pat with
  | App _ f _ => exists s, declared sg f [KCtor] s
  | _ => True
  end.

Inductive SymStmt (sg : list sym) : stmt -> Prop :=
| SS_if : forall l a, SymIf sg a -> SymStmt sg (SIf l a)
| SS_then : forall l a, SymThen sg a -> SymStmt sg (SThen l a)
| SS_branch : forall l bs, SymBlocks sg bs -> SymStmt sg (SBranch l bs)
| SS_match : forall l d cs, SymTerm sg d -> SymCases sg cs -> SymStmt sg (SMatch l d cs)
with SymBlock (sg : list sym) : block -> Prop :=
| SB_nil : SymBlock sg BNil
| SB_cons : forall s r, SymStmt sg s -> SymBlock sg r -> SymBlock sg (BCons s r)
with SymBlocks (sg : list sym) : blocks -> Prop :=
| SBs_nil : SymBlocks sg BsNil
| SBs_cons : forall b r, SymBlock sg b -> SymBlocks sg r -> SymBlocks sg (BsCons b r)
with SymCases (sg : list sym) : cases -> Prop :=
| SC_nil : SymCases sg CNil
| SC_cons : forall pat b r, SymPattern sg pat -> SymTerm sg pat -> SymBlock sg b -> SymCases sg r ->
                            SymCases sg (CCons pat b r).

Definition SymTypes (sg : list sym) (tys : list name) : Prop := Forall (SymType sg) tys.

Definition SymDecl (sg : list sym) (d : decl) : Prop :=
  match d with
  | DType _ _ => True
  | DPred _ _ args => SymTypes sg args
  | DFunc _ _ args res => SymTypes sg args /\ SymType sg res
  | DEnum _ _ ctors => Forall (fun c => SymTypes sg (snd c)) ctors
  | DRule _ _ body => SymBlock sg body
  end.

Definition WFsym (p : prog) : Prop :=
  Unique (symbols p) /\ Forall (SymDecl (symbols p)) p.

(* ---------------------------------------------------------------- lookups *)

Lemma has_kind_In (ks : list kind) (s : sym) : has_kind ks s = true <-> In (s_kind s) ks.
Proof.
  unfold has_kind. rewrite existsb_exists. split.
  - intros [k [Hk He]]. apply kind_eqb_eq in He. rewrite He. exact Hk.
  - intros H. exists (s_kind s). split; [exact H | apply kind_eqb_eq; reflexivity].
Qed.

Lemma named_In (n : name) (sg : list sym) (s : sym) : In s (named n sg) <-> In s sg /\ s_name s = n.
Proof.
  unfold named. rewrite filter_In. split; intros [H1 H2]; split; try exact H1.
  - apply N.eqb_eq. exact H2.
  - apply N.eqb_eq. exact H2.
Qed.

Lemma find_kind_declared ks sg n s : find_kind ks sg n = Some s -> declared sg n ks s.
Proof.
  unfold find_kind. intros H. apply find_some in H. destruct H as [Hin Hk].
  apply named_In in Hin. destruct Hin as [Hin Hn].
  split; [exact Hin | split; [exact Hn | apply has_kind_In; exact Hk]].
Qed.

Lemma named_unique sg s : Unique sg -> In s sg -> named (s_name s) sg = [s].
Proof.
  unfold Unique, named. induction sg as [|a sg IH]; intros Hu Hin; [destruct Hin|].
  cbn [map] in Hu. inversion Hu as [|x xs Hnot Hnd]; subst.
  cbn [filter]. destruct Hin as [Heq | Hin].
  - subst a. rewrite N.eqb_refl. f_equal.
    (* no other element has this name *)
    clear IH Hu. induction sg as [|b sg IH]; [reflexivity|].
    cbn [filter]. cbn [map] in Hnot, Hnd. inversion Hnd; subst.
    destruct (N.eqb (s_name b) (s_name s)) eqn:E.
    + apply N.eqb_eq in E. exfalso. apply Hnot. left. exact E.
    + apply IH; [intros H; apply Hnot; right; exact H | assumption].
  - destruct (N.eqb (s_name a) (s_name s)) eqn:E.
    + apply N.eqb_eq in E. exfalso. apply Hnot. rewrite E. apply in_map. exact Hin.
    + apply IH; assumption.
Qed.

Lemma declared_find_kind ks sg n s : Unique sg -> declared sg n ks s -> find_kind ks sg n = Some s.
Proof.
  intros Hu [Hin [Hn Hk]]. unfold find_kind. subst n. rewrite (named_unique sg s Hu Hin).
  cbn [find]. apply has_kind_In in Hk. rewrite Hk. reflexivity.
Qed.

Lemma lookup_defects_nil ks sg n l : lookup_defects ks sg n l = [] <-> exists s, declared sg n ks s.
Proof.
  unfold lookup_defects. destruct (named n sg) as [|d ds] eqn:E.
  - split; [discriminate|]. intros [s [Hin [Hn _]]].
    assert (H : In s (named n sg)) by (apply named_In; split; assumption).
    rewrite E in H. destruct H.
  - destruct (existsb (has_kind ks) (d :: ds)) eqn:Ex.
    + split; [|reflexivity]. intros _. apply existsb_exists in Ex. destruct Ex as [s [Hin Hk]].
      rewrite <- E in Hin. apply named_In in Hin. destruct Hin as [Hin Hn].
      exists s. split; [exact Hin | split; [exact Hn | apply has_kind_In; exact Hk]].
    + split; [discriminate|]. intros [s [Hin [Hn Hk]]]. exfalso.
      assert (H : existsb (has_kind ks) (d :: ds) = true).
      { apply existsb_exists. exists s. split.
        - rewrite <- E. apply named_In. split; assumption.
        - apply has_kind_In. exact Hk. }
      rewrite H in Ex. discriminate.
Qed.

Lemma argnum_defects_nil c fd nargs l :
  argnum_defects c fd nargs l = [] <-> (forall s, fd = Some s -> length (s_dom s) = nargs).
Proof.
  unfold argnum_defects. destruct fd as [s|].
  - destruct (Nat.eqb (length (s_dom s)) nargs) eqn:E.
    + apply Nat.eqb_eq in E. split; [|reflexivity]. intros _ s' H. injection H as Hs. rewrite <- Hs. exact E.
    + apply Nat.eqb_neq in E. split; [discriminate|]. intros H. exfalso. apply E. apply H. reflexivity.
  - split; [|reflexivity]. intros _ s H. discriminate.
Qed.

(* use of a name: declared with a right kind and, for predicates and functions, the right arity *)
Lemma use_nil c ks sg n nargs l :
  Unique sg ->
  (lookup_defects ks sg n l ++ argnum_defects c (find_kind ks sg n) nargs l = []
   <-> exists s, declared sg n ks s /\ length (s_dom s) = nargs).
Proof.
  intros Hu. rewrite app_nil_iff, lookup_defects_nil, argnum_defects_nil. split.
  - intros [[s Hd] Ha]. exists s. split; [exact Hd|]. apply Ha. apply declared_find_kind; assumption.
  - intros [s [Hd Hl]]. split; [exists s; exact Hd|].
    intros s' Hf. rewrite (declared_find_kind ks sg n s Hu Hd) in Hf. injection Hf as Hs. rewrite <- Hs. exact Hl.
Qed.

(* ---------------------------------------------------------------- terms and atoms *)

Lemma sym_term_nil sg : Unique sg -> forall t, sym_term sg t = [] <-> SymTerm sg t.
Proof.
  intros Hu. induction t as [l x | l | l f args IH] using term_ind'.
  - cbn. split; intros _; [constructor | reflexivity].
  - cbn. split; intros _; [constructor | reflexivity].
  - cbn [sym_term]. rewrite app_assoc, app_nil_iff.
    unfold find_func. rewrite (use_nil FuncArgNumber [KFunc; KCtor] sg f (length args) l Hu).
    rewrite flat_map_nil_iff. split.
    + intros [[s [Hd Hl]] Hargs]. apply ST_app with (s := s); try assumption.
      rewrite Forall_forall in *. intros t Ht. apply IH; [exact Ht|]. apply Hargs. exact Ht.
    + intros H. inversion H as [| | l' f' args' s Hd Hl Hargs]; subst. split.
      * exists s. split; assumption.
      * rewrite Forall_forall in *. intros t Ht. apply IH; [exact Ht|]. apply Hargs. exact Ht.
Qed.

Lemma sym_terms_nil sg : Unique sg -> forall ts, flat_map (sym_term sg) ts = [] <-> Forall (SymTerm sg) ts.
Proof.
  intros Hu ts. rewrite flat_map_nil_iff. rewrite !Forall_forall. split; intros H t Ht.
  - apply sym_term_nil; [exact Hu|]. apply H. exact Ht.
  - apply sym_term_nil; [exact Hu|]. apply H. exact Ht.
Qed.

Lemma sym_pred_nil sg l p args : Unique sg -> sym_pred sg l p args = [] <-> SymPred sg p args.
Proof.
  intros Hu. unfold sym_pred, SymPred. rewrite app_assoc, app_nil_iff.
  unfold find_pred. rewrite (use_nil PredArgNumber [KPred] sg p (length args) l Hu).
  rewrite (sym_terms_nil sg Hu). reflexivity.
Qed.

Lemma sym_ifatom_nil sg l a : Unique sg -> sym_ifatom sg l a = [] <-> SymIf sg a.
Proof.
  intros Hu. destruct a as [a b | t | p args | t ty]; cbn [sym_ifatom].
  - rewrite app_nil_iff, !(sym_term_nil sg Hu). split.
    + intros [H1 H2]. constructor; assumption.
    + intros H. inversion H; subst. split; assumption.
  - rewrite (sym_term_nil sg Hu). split; intros H; [constructor; exact H | inversion H; assumption].
  - rewrite (sym_pred_nil sg l p args Hu). split; intros H; [constructor; exact H | inversion H; assumption].
  - rewrite app_nil_iff, lookup_defects_nil, (sym_term_nil sg Hu). split.
    + intros [H1 H2]. constructor; assumption.
    + intros H. inversion H; subst. split; assumption.
Qed.

Lemma sym_thenatom_nil sg l a : Unique sg -> sym_thenatom sg l a = [] <-> SymThen sg a.
Proof.
  intros Hu. destruct a as [a b | [x|] t | p args]; cbn [sym_thenatom].
  - rewrite app_nil_iff, !(sym_term_nil sg Hu). split.
    + intros [H1 H2]. constructor; assumption.
    + intros H. inversion H; subst. split; assumption.
  - rewrite app_nil_iff, !(sym_term_nil sg Hu). split.
    + intros [H1 H2]. constructor; assumption.
    + intros H. inversion H; subst. split; assumption.
  - rewrite (sym_term_nil sg Hu). split; intros H; [constructor; exact H | inversion H; assumption].
  - rewrite (sym_pred_nil sg l p args Hu). split; intros H; [constructor; exact H | inversion H; assumption].
Qed.

Lemma sym_pattern_nil sg pat : sym_pattern sg pat = [] <-> SymPattern sg pat.
Proof.
  destruct pat as [l x | l | l f args]; cbn [sym_pattern SymPattern].
  - split; intros _; [exact I | reflexivity].
  - split; intros _; [exact I | reflexivity].
  - apply lookup_defects_nil.
Qed.

(* ---------------------------------------------------------------- statements *)

Lemma sym_syntax_nil sg : Unique sg ->
  (forall s, sym_stmt sg s = [] <-> SymStmt sg s) /\
  (forall b, sym_block sg b = [] <-> SymBlock sg b) /\
  (forall bs, sym_blocks sg bs = [] <-> SymBlocks sg bs) /\
  (forall cs, sym_cases sg cs = [] <-> SymCases sg cs).
Proof.
  intros Hu. apply syntax_mutind.
  - intros l a. cbn [sym_stmt]. rewrite (sym_ifatom_nil sg l a Hu).
    split; intros H; [constructor; exact H | inversion H; assumption].
  - intros l a. cbn [sym_stmt]. rewrite (sym_thenatom_nil sg l a Hu).
    split; intros H; [constructor; exact H | inversion H; assumption].
  - intros l bs IH. cbn [sym_stmt]. rewrite IH.
    split; intros H; [constructor; exact H | inversion H; assumption].
  - intros l d cs IH. cbn [sym_stmt]. rewrite app_nil_iff, (sym_term_nil sg Hu), IH. split.
    + intros [H1 H2]. constructor; assumption.
    + intros H. inversion H; subst. split; assumption.
  - cbn. split; intros _; [constructor | reflexivity].
  - intros s IHs r IHr. cbn [sym_block]. rewrite app_nil_iff, IHs, IHr. split.
    + intros [H1 H2]. constructor; assumption.
    + intros H. inversion H; subst. split; assumption.
  - cbn. split; intros _; [constructor | reflexivity].
  - intros b IHb r IHr. cbn [sym_blocks]. rewrite app_nil_iff, IHb, IHr. split.
    + intros [H1 H2]. constructor; assumption.
    + intros H. inversion H; subst. split; assumption.
  - cbn. split; intros _; [constructor | reflexivity].
  - intros pat b IHb r IHr. cbn [sym_cases].
    rewrite !app_nil_iff, sym_pattern_nil, (sym_term_nil sg Hu), IHb, IHr. split.
    + intros [H1 [H2 [H3 H4]]]. constructor; assumption.
    + intros H. inversion H; subst. repeat split; assumption.
Qed.

(* ---------------------------------------------------------------- declarations *)

Lemma sym_types_nil sg l tys : sym_types sg l tys = [] <-> SymTypes sg tys.
Proof.
  unfold sym_types, SymTypes. rewrite flat_map_nil_iff. rewrite !Forall_forall.
  split; intros H ty Hty; apply lookup_defects_nil with (l := l); apply H; exact Hty.
Qed.

Lemma sym_decl_nil sg d : Unique sg -> sym_decl sg d = [] <-> SymDecl sg d.
Proof.
  intros Hu. destruct d as [l n | l n args | l n args res | l n ctors | l n body]; cbn [sym_decl SymDecl].
  - split; intros _; [exact I | reflexivity].
  - apply sym_types_nil.
  - rewrite sym_types_nil. unfold SymTypes. rewrite Forall_app. split.
    + intros [H1 H2]. split; [exact H1|]. inversion H2; assumption.
    + intros [H1 H2]. split; [exact H1|]. constructor; [exact H2 | constructor].
  - rewrite flat_map_nil_iff. rewrite !Forall_forall. split; intros H c Hc.
    + specialize (H c Hc). destruct c as [[cl cn] cargs]. cbn [snd]. apply sym_types_nil in H. exact H.
    + specialize (H c Hc). destruct c as [[cl cn] cargs]. cbn [snd] in H. apply sym_types_nil. exact H.
  - apply (sym_syntax_nil sg Hu).
Qed.

(* ---------------------------------------------------------------- duplicates *)

Lemma dup_defects_nil seen sg :
  dup_defects seen sg = [] <-> NoDup (map s_name sg) /\ (forall s, In s sg -> ~ In (s_name s) seen).
Proof.
  revert seen. induction sg as [|s sg IH]; intros seen; cbn [dup_defects map].
  - split; [intros _; split; [constructor | intros s []] | reflexivity].
  - rewrite app_nil_iff, IH. destruct (mem (s_name s) seen) eqn:E.
    + split; [intros [H _]; discriminate|]. intros [_ H]. exfalso.
      apply mem_In in E. apply (H s); [left; reflexivity | exact E].
    + apply mem_false in E. split.
      * intros [_ [Hnd Hseen]]. split.
        -- constructor; [|exact Hnd]. intros Hin. apply in_map_iff in Hin. destruct Hin as [s' [He Hin]].
           apply (Hseen s' Hin). left. symmetry. exact He.
        -- intros s' [He | Hin]; [subst; exact E|]. intros Hc. apply (Hseen s' Hin). right. exact Hc.
      * intros [Hnd Hseen]. inversion Hnd as [|x xs Hnot Hnd']; subst. split; [reflexivity|]. split; [exact Hnd'|].
        intros s' Hin [He | Hc].
        -- apply Hnot. rewrite He. apply in_map. exact Hin.
        -- apply (Hseen s'); [right; exact Hin | exact Hc].
Qed.

Theorem symbol_defects_exact (p : prog) : symbol_defects p = [] <-> WFsym p.
Proof.
  unfold symbol_defects, WFsym, Unique. rewrite app_nil_iff, dup_defects_nil, flat_map_nil_iff. split.
  - intros [[Hnd _] Hd]. split; [exact Hnd|]. rewrite Forall_forall in *. intros d Hin.
    apply sym_decl_nil; [exact Hnd | apply Hd; exact Hin].
  - intros [Hnd Hd]. split; [split; [exact Hnd | intros s _ []]|]. rewrite Forall_forall in *. intros d Hin.
    apply sym_decl_nil; [exact Hnd | apply Hd; exact Hin].
Qed.
