(* Scopes along control-flow paths and variables used only once:
   declarative judgements and their equivalence with the checker's passes. *)
From Coq Require Import List NArith Bool Arith Lia.
From Static Require Import Model FactsBase.
Import ListNotations.
Open Scope N_scope.

(* ---------------------------------------------------------------- epic terms *)

(* every leaf is a variable that is in scope: no new variable, no wildcard *)
Definition EpicOk (sc : list name) (ls : list (line * option name)) : Prop :=
  forall l o, In (l, o) ls -> exists x, o = Some x /\ In x sc.

Lemma epic_leaves_nil sc ls : epic_leaves sc ls = [] <-> EpicOk sc ls.
Proof.
  unfold EpicOk. induction ls as [|[l0 o0] r IH]; cbn [epic_leaves].
  - split; [intros _ l o [] | reflexivity].
  - destruct o0 as [x|].
    + destruct (mem x sc) eqn:E.
      * rewrite IH. apply mem_In in E. split.
        -- intros H l o [Heq | Hin]; [inversion Heq; subst; exists x; split; [reflexivity | exact E] | exact (H l o Hin)].
        -- intros H l o Hin. apply (H l o). right. exact Hin.
      * apply mem_false in E. split; [discriminate|]. intros H. exfalso.
        destruct (H l0 (Some x) (or_introl eq_refl)) as [y [Hy Hin]]. inversion Hy; subst. apply E. exact Hin.
    + split; [discriminate|]. intros H. exfalso.
      destruct (H l0 None (or_introl eq_refl)) as [y [Hy _]]. discriminate.
Qed.

Inductive ScThen (sc : list name) : thenatom -> Prop :=
| ScT_eq : forall a b, EpicOk sc (leaves a ++ leaves b) -> ScThen sc (TEq a b)
| ScT_pred : forall p args, EpicOk sc (flat_map leaves args) -> ScThen sc (TPred p args)
| ScT_def : forall t, EpicOk sc (leaves t) -> ScThen sc (TDef None t)
| ScT_defwild : forall l t, EpicOk sc (leaves t) -> ScThen sc (TDef (Some (Wild l)) t)
| ScT_defvar : forall l v t, ~ In v sc -> EpicOk sc (leaves t) -> ScThen sc (TDef (Some (Var l v)) t).

Lemma scope_thenatom_nil sc a : scope_thenatom sc a = [] <-> ScThen sc a.
Proof.
  destruct a as [a b | [x|] t | p args]; cbn [scope_thenatom].
  - rewrite epic_leaves_nil. split; intros H; [constructor; exact H | inversion H; assumption].
  - destruct x as [l v | l | l f args].
    + destruct (mem v sc) eqn:E.
      * apply mem_In in E. split; [discriminate|]. intros H. inversion H; subst. contradiction.
      * apply mem_false in E. cbn [app]. rewrite epic_leaves_nil.
        split; intros H; [constructor; assumption | inversion H; assumption].
    + cbn [app]. rewrite epic_leaves_nil. split; intros H; [constructor; exact H | inversion H; assumption].
    + split; [discriminate|]. intros H. inversion H.
  - rewrite epic_leaves_nil. split; intros H; [constructor; exact H | inversion H; assumption].
  - rewrite epic_leaves_nil. split; intros H; [constructor; exact H | inversion H; assumption].
Qed.

(* ---------------------------------------------------------------- patterns *)

Inductive FreshArgs : list name -> list term -> Prop :=
| FA_nil : forall sc, FreshArgs sc []
| FA_wild : forall sc l r, FreshArgs sc r -> FreshArgs sc (Wild l :: r)
| FA_var : forall sc l v r, ~ In v sc -> FreshArgs (v :: sc) r -> FreshArgs sc (Var l v :: r).

Inductive ScPattern (sc : list name) : term -> Prop :=
| ScP : forall l f args, FreshArgs sc args -> ScPattern sc (App l f args).

Lemma scope_pat_args_nil args : forall sc, scope_pat_args sc args = [] <-> FreshArgs sc args.
Proof.
  induction args as [|a r IH]; intros sc; cbn [scope_pat_args].
  - split; intros _; [constructor | reflexivity].
  - destruct a as [l v | l | l f args'].
    + change (tvars (Var l v) ++ sc) with (v :: sc).
      destruct (mem v sc) eqn:E.
      * apply mem_In in E. split; [discriminate|]. intros H. inversion H; subst. contradiction.
      * apply mem_false in E. cbn [app]. rewrite IH.
        split; intros H; [constructor; assumption | inversion H; assumption].
    + change (tvars (Wild l) ++ sc) with sc. cbn [app]. rewrite IH.
      split; intros H; [constructor; exact H | inversion H; assumption].
    + split; [discriminate|]. intros H. inversion H.
Qed.

Lemma scope_pattern_nil sc pat : scope_pattern sc pat = [] <-> ScPattern sc pat.
Proof.
  destruct pat as [l v | l | l f args]; cbn [scope_pattern].
  - split; [discriminate | intros H; inversion H].
  - split; [discriminate | intros H; inversion H].
  - rewrite scope_pat_args_nil. split; intros H; [constructor; exact H | inversion H; assumption].
Qed.

(* ---------------------------------------------------------------- statements *)

Inductive ScStmt : list name -> stmt -> Prop :=
| Sc_if : forall sc l a, ScStmt sc (SIf l a)
| Sc_then : forall sc l a, ScThen sc a -> ScStmt sc (SThen l a)
| Sc_branch : forall sc l bs, ScBlocks sc bs -> ScStmt sc (SBranch l bs)
| Sc_match : forall sc l d cs, ScCases (tvars d ++ sc) cs -> ScStmt sc (SMatch l d cs)
with ScBlock : list name -> block -> Prop :=
| ScB_nil : forall sc, ScBlock sc BNil
| ScB_cons : forall sc s r, ScStmt sc s -> ScBlock (stmt_vars s ++ sc) r -> ScBlock sc (BCons s r)
with ScBlocks : list name -> blocks -> Prop :=
| ScBs_nil : forall sc, ScBlocks sc BsNil
| ScBs_cons : forall sc b r, ScBlock sc b -> ScBlocks sc r -> ScBlocks sc (BsCons b r)
with ScCases : list name -> cases -> Prop :=
| ScC_nil : forall sc, ScCases sc CNil
| ScC_cons : forall sc pat b r, ScPattern sc pat -> ScBlock (tvars pat ++ sc) b -> ScCases sc r ->
                               ScCases sc (CCons pat b r).

Lemma scope_syntax_nil :
  (forall s sc, scope_stmt sc s = [] <-> ScStmt sc s) /\
  (forall b sc, scope_block sc b = [] <-> ScBlock sc b) /\
  (forall bs sc, scope_blocks sc bs = [] <-> ScBlocks sc bs) /\
  (forall cs sc, scope_cases sc cs = [] <-> ScCases sc cs).
Proof.
  apply syntax_mutind.
  - intros l a sc. cbn. split; intros _; [constructor | reflexivity].
  - intros l a sc. cbn [scope_stmt]. rewrite scope_thenatom_nil.
    split; intros H; [constructor; exact H | inversion H; assumption].
  - intros l bs IH sc. cbn [scope_stmt]. rewrite IH.
    split; intros H; [constructor; exact H | inversion H; assumption].
  - intros l d cs IH sc. cbn [scope_stmt]. rewrite IH.
    split; intros H; [constructor; exact H | inversion H; assumption].
  - intros sc. cbn. split; intros _; [constructor | reflexivity].
  - intros s IHs r IHr sc. cbn [scope_block]. rewrite app_nil_iff, IHs, IHr. split.
    + intros [H1 H2]. constructor; assumption.
    + intros H. inversion H; subst. split; assumption.
  - intros sc. cbn. split; intros _; [constructor | reflexivity].
  - intros b IHb r IHr sc. cbn [scope_blocks]. rewrite app_nil_iff, IHb, IHr. split.
    + intros [H1 H2]. constructor; assumption.
    + intros H. inversion H; subst. split; assumption.
  - intros sc. cbn. split; intros _; [constructor | reflexivity].
  - intros pat b IHb r IHr sc. cbn [scope_cases]. rewrite !app_nil_iff, scope_pattern_nil, IHb, IHr. split.
    + intros [H1 [H2 H3]]. constructor; assumption.
    + intros H. inversion H; subst. repeat split; assumption.
Qed.

Theorem scope_block_exact (b : block) : scope_block [] b = [] <-> ScBlock [] b.
Proof. apply scope_syntax_nil. Qed.

(* ---------------------------------------------------------------- used only once *)

(* every variable that the leaves ls bring into scope occurs at least twice where it is visible *)
Definition OnceOk (sc : list name) (ls : list (line * option name)) (cnt : name -> nat) : Prop :=
  forall x, In x (leaf_vars ls) -> ~ In x sc -> (2 <= cnt x)%nat.

Lemma leaf_vars_cons_some l y r : leaf_vars ((l, Some y) :: r) = y :: leaf_vars r.
Proof. reflexivity. Qed.

Lemma leaf_vars_cons_none l r : leaf_vars ((l, None) :: r) = leaf_vars r.
Proof. reflexivity. Qed.

Lemma new_vars_spec ls : forall sc x,
  (exists l, In (x, l) (new_vars sc ls)) <-> In x (leaf_vars ls) /\ ~ In x sc.
Proof.
  induction ls as [|[l0 o0] r IH]; intros sc x; cbn [new_vars].
  - split; [intros [l []] | intros [[] _]].
  - destruct o0 as [y|].
    + rewrite leaf_vars_cons_some. destruct (mem y sc) eqn:E.
      * apply mem_In in E. rewrite IH. split.
        -- intros [H1 H2]. split; [right; exact H1 | exact H2].
        -- intros [[Heq | H1] H2]; [subst; contradiction | split; assumption].
      * apply mem_false in E. split.
        -- intros [l [Heq | Hin]].
           ++ inversion Heq; subst. split; [left; reflexivity | exact E].
           ++ destruct (proj1 (IH (y :: sc) x) (ex_intro _ l Hin)) as [H1 H2].
              split; [right; exact H1 | intros Hc; apply H2; right; exact Hc].
        -- intros [[Heq | H1] H2].
           ++ subst. exists l0. left. reflexivity.
           ++ destruct (N.eq_dec x y) as [Hxy | Hxy].
              ** subst. exists l0. left. reflexivity.
              ** destruct (proj2 (IH (y :: sc) x)) as [l Hl].
                 { split; [exact H1|]. intros [Hc | Hc]; [apply Hxy; symmetry; exact Hc | apply H2; exact Hc]. }
                 exists l. right. exact Hl.
    + rewrite leaf_vars_cons_none. apply IH.
Qed.

Lemma once_check_nil sc ls cnt : once_check (new_vars sc ls) cnt = [] <-> OnceOk sc ls cnt.
Proof.
  unfold once_check, OnceOk. rewrite flat_map_nil_iff, Forall_forall. split.
  - intros H x Hin Hsc. destruct (proj2 (new_vars_spec ls sc x) (conj Hin Hsc)) as [l Hl].
    specialize (H (x, l) Hl). cbn [fst snd] in H.
    destruct (Nat.leb 2 (cnt x)) eqn:E; [apply Nat.leb_le; exact E | discriminate].
  - intros H [x l] Hin. cbn [fst snd].
    destruct (proj1 (new_vars_spec ls sc x) (ex_intro _ l Hin)) as [H1 H2].
    specialize (H x H1 H2). apply Nat.leb_le in H. rewrite H. reflexivity.
Qed.

Inductive OnStmt : list name -> (name -> nat) -> stmt -> Prop :=
| On_if : forall sc after l a,
    OnceOk sc (stmt_leaves (SIf l a)) (fun x => (count_stmt x (SIf l a) + after x)%nat) ->
    OnStmt sc after (SIf l a)
| On_then : forall sc after l a,
    OnceOk sc (stmt_leaves (SThen l a)) (fun x => (count_stmt x (SThen l a) + after x)%nat) ->
    OnStmt sc after (SThen l a)
| On_branch : forall sc after l bs, OnBlocks sc bs -> OnStmt sc after (SBranch l bs)
| On_match : forall sc after l d cs,
    OnceOk sc (leaves d) (fun x => (count_stmt x (SMatch l d cs) + after x)%nat) ->
    OnCases (tvars d ++ sc) cs -> OnStmt sc after (SMatch l d cs)
with OnBlock : list name -> block -> Prop :=
| OnB_nil : forall sc, OnBlock sc BNil
| OnB_cons : forall sc s r, OnStmt sc (fun x => count_block x r) s -> OnBlock (stmt_vars s ++ sc) r ->
                            OnBlock sc (BCons s r)
with OnBlocks : list name -> blocks -> Prop :=
| OnBs_nil : forall sc, OnBlocks sc BsNil
| OnBs_cons : forall sc b r, OnBlock sc b -> OnBlocks sc r -> OnBlocks sc (BsCons b r)
with OnCases : list name -> cases -> Prop :=
| OnC_nil : forall sc, OnCases sc CNil
| OnC_cons : forall sc pat b r,
    OnceOk sc (leaves pat) (fun x => (count_terms x [pat] + count_block x b)%nat) ->
    OnBlock (tvars pat ++ sc) b -> OnCases sc r -> OnCases sc (CCons pat b r).

Lemma once_syntax_nil :
  (forall s sc after, once_stmt sc after s = [] <-> OnStmt sc after s) /\
  (forall b sc, once_block sc b = [] <-> OnBlock sc b) /\
  (forall bs sc, once_blocks sc bs = [] <-> OnBlocks sc bs) /\
  (forall cs sc, once_cases sc cs = [] <-> OnCases sc cs).
Proof.
  apply syntax_mutind.
  - intros l a sc after. cbn [once_stmt]. rewrite app_nil_r, once_check_nil.
    split; intros H; [constructor; exact H | inversion H; assumption].
  - intros l a sc after. cbn [once_stmt]. rewrite app_nil_r, once_check_nil.
    split; intros H; [constructor; exact H | inversion H; assumption].
  - intros l bs IH sc after. cbn [once_stmt stmt_leaves new_vars once_check flat_map app]. rewrite IH.
    split; intros H; [constructor; exact H | inversion H; assumption].
  - intros l d cs IH sc after. cbn [once_stmt stmt_leaves]. rewrite app_nil_iff, once_check_nil, IH. split.
    + intros [H1 H2]. constructor; assumption.
    + intros H. inversion H; subst. split; assumption.
  - intros sc. cbn. split; intros _; [constructor | reflexivity].
  - intros s IHs r IHr sc. cbn [once_block]. rewrite app_nil_iff, IHs, IHr. split.
    + intros [H1 H2]. constructor; assumption.
    + intros H. inversion H; subst. split; assumption.
  - intros sc. cbn. split; intros _; [constructor | reflexivity].
  - intros b IHb r IHr sc. cbn [once_blocks]. rewrite app_nil_iff, IHb, IHr. split.
    + intros [H1 H2]. constructor; assumption.
    + intros H. inversion H; subst. split; assumption.
  - intros sc. cbn. split; intros _; [constructor | reflexivity].
  - intros pat b IHb r IHr sc. cbn [once_cases]. rewrite !app_nil_iff, once_check_nil, IHb, IHr. split.
    + intros [H1 [H2 H3]]. constructor; assumption.
    + intros H. inversion H; subst. repeat split; assumption.
Qed.

Theorem once_block_exact (b : block) : once_block [] b = [] <-> OnBlock [] b.
Proof. apply once_syntax_nil. Qed.
