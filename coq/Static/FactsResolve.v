(* Resolution of variables (Model.resolve) keeps everything the symbol pass looks at, and the atoms of a
   symbol-correct body are symbol-correct. *)
From Coq Require Import List NArith Bool Arith Lia.
From Static Require Import Model FactsBase FactsSymbols FactsTyping.
Import ListNotations.
Open Scope N_scope.

Lemma res_term_app sc c l f args :
  res_term sc c (App l f args) =
  match res_terms sc c args with (args', sc', c') => (App l f args', sc', c') end.
Proof.
  cbn [res_term].
  assert (H : forall ts sc c,
             (fix go (ts : list term) (sc : renv) (c : N) {struct ts} : list term * renv * N :=
                match ts with
                | [] => ([], sc, c)
                | t' :: ts' =>
                    match res_term sc c t' with
                    | (t1, sc1, c1) =>
                        match go ts' sc1 c1 with (ts2, sc2, c2) => (t1 :: ts2, sc2, c2) end
                    end
                end) ts sc c = res_terms sc c ts).
  { induction ts as [|t r IH]; intros sc0 c0; [reflexivity|].
    cbn [res_terms]. destruct (res_term sc0 c0 t) as [[t1 sc1] c1]. rewrite IH. reflexivity. }
  rewrite H. reflexivity.
Qed.

Section Sym.
  Variable sg : list sym.

  Definition keeps_term (t : term) : Prop :=
    forall sc c, sym_term sg (fst (fst (res_term sc c t))) = sym_term sg t.

  Lemma res_terms_keeps args : Forall keeps_term args ->
    forall sc c, length (fst (fst (res_terms sc c args))) = length args /\
                 flat_map (sym_term sg) (fst (fst (res_terms sc c args))) = flat_map (sym_term sg) args.
  Proof.
    induction 1 as [|t r Ht Hr IH]; intros sc c; [split; reflexivity|].
    cbn [res_terms]. specialize (Ht sc c). destruct (res_term sc c t) as [[t1 sc1] c1]. cbn [fst] in Ht.
    specialize (IH sc1 c1). destruct (res_terms sc1 c1 r) as [[r2 sc2] c2]. cbn [fst] in *.
    destruct IH as [IH1 IH2]. cbn [length flat_map]. rewrite IH1, IH2, Ht. split; reflexivity.
  Qed.

  Lemma res_term_keeps : forall t, keeps_term t.
  Proof.
    induction t as [l x | l | l f args IH] using term_ind'; intros sc c.
    - cbn [res_term]. destruct (assoc x sc); reflexivity.
    - reflexivity.
    - rewrite res_term_app. destruct (res_terms_keeps args IH sc c) as [H1 H2].
      destruct (res_terms sc c args) as [[args' sc'] c']. cbn [fst] in *.
      cbn [sym_term]. rewrite H1, H2. reflexivity.
  Qed.

  Lemma res_terms_keeps' args sc c :
    length (fst (fst (res_terms sc c args))) = length args /\
    flat_map (sym_term sg) (fst (fst (res_terms sc c args))) = flat_map (sym_term sg) args.
  Proof.
    apply res_terms_keeps. rewrite Forall_forall. intros t _. apply res_term_keeps.
  Qed.

  Lemma res_ifatom_keeps l a sc c : sym_ifatom sg l (fst (fst (res_ifatom sc c a))) = sym_ifatom sg l a.
  Proof.
    destruct a as [a b | t | p args | t ty]; cbn [res_ifatom].
    - pose proof (res_term_keeps a sc c) as Ha. destruct (res_term sc c a) as [[a1 sc1] c1].
      pose proof (res_term_keeps b sc1 c1) as Hb. destruct (res_term sc1 c1 b) as [[b1 sc2] c2].
      cbn [fst] in *. cbn [sym_ifatom]. rewrite Ha, Hb. reflexivity.
    - pose proof (res_term_keeps t sc c) as Ht. destruct (res_term sc c t) as [[t1 sc1] c1].
      cbn [fst] in *. cbn [sym_ifatom]. exact Ht.
    - destruct (res_terms_keeps' args sc c) as [H1 H2]. destruct (res_terms sc c args) as [[a1 sc1] c1].
      cbn [fst] in *. cbn [sym_ifatom]. unfold sym_pred. rewrite H1, H2. reflexivity.
    - pose proof (res_term_keeps t sc c) as Ht. destruct (res_term sc c t) as [[t1 sc1] c1].
      cbn [fst] in *. cbn [sym_ifatom]. rewrite Ht. reflexivity.
  Qed.

  Lemma res_thenatom_keeps l a sc c : sym_thenatom sg l (fst (fst (res_thenatom sc c a))) = sym_thenatom sg l a.
  Proof.
    destruct a as [a b | [x|] t | p args]; cbn [res_thenatom].
    - pose proof (res_term_keeps a sc c) as Ha. destruct (res_term sc c a) as [[a1 sc1] c1].
      pose proof (res_term_keeps b sc1 c1) as Hb. destruct (res_term sc1 c1 b) as [[b1 sc2] c2].
      cbn [fst] in *. cbn [sym_thenatom]. rewrite Ha, Hb. reflexivity.
    - pose proof (res_term_keeps t sc c) as Ht. destruct (res_term sc c t) as [[t1 sc1] c1].
      pose proof (res_term_keeps x sc1 c1) as Hx. destruct (res_term sc1 c1 x) as [[x1 sc2] c2].
      cbn [fst] in *. cbn [sym_thenatom]. rewrite Ht, Hx. reflexivity.
    - pose proof (res_term_keeps t sc c) as Ht. destruct (res_term sc c t) as [[t1 sc1] c1].
      cbn [fst] in *. cbn [sym_thenatom]. exact Ht.
    - destruct (res_terms_keeps' args sc c) as [H1 H2]. destruct (res_terms sc c args) as [[a1 sc1] c1].
      cbn [fst] in *. cbn [sym_thenatom]. unfold sym_pred. rewrite H1, H2. reflexivity.
  Qed.

  Lemma res_pattern_keeps pat sc c : sym_pattern sg (fst (fst (res_term sc c pat))) = sym_pattern sg pat.
  Proof.
    destruct pat as [l x | l | l f args].
    - cbn [res_term]. destruct (assoc x sc); reflexivity.
    - reflexivity.
    - rewrite res_term_app. destruct (res_terms sc c args) as [[a1 sc1] c1]. reflexivity.
  Qed.

  Lemma res_syntax_keeps :
    (forall s sc c, sym_stmt sg (fst (fst (res_stmt sc c s))) = sym_stmt sg s) /\
    (forall b sc c, sym_block sg (fst (res_block sc c b)) = sym_block sg b) /\
    (forall bs sc c, sym_blocks sg (fst (res_blocks sc c bs)) = sym_blocks sg bs) /\
    (forall cs sc c, sym_cases sg (fst (res_cases sc c cs)) = sym_cases sg cs).
  Proof.
    apply syntax_mutind.
    - intros l a sc c. cbn [res_stmt]. pose proof (res_ifatom_keeps l a sc c) as H.
      destruct (res_ifatom sc c a) as [[a1 sc1] c1]. exact H.
    - intros l a sc c. cbn [res_stmt]. pose proof (res_thenatom_keeps l a sc c) as H.
      destruct (res_thenatom sc c a) as [[a1 sc1] c1]. exact H.
    - intros l bs IH sc c. cbn [res_stmt]. specialize (IH sc c).
      destruct (res_blocks sc c bs) as [bs1 c1]. exact IH.
    - intros l d cs IH sc c. cbn [res_stmt]. pose proof (res_term_keeps d sc c) as Hd.
      destruct (res_term sc c d) as [[d1 sc1] c1]. specialize (IH sc1 c1).
      destruct (res_cases sc1 c1 cs) as [cs1 c2]. cbn [fst] in *. cbn [sym_stmt]. rewrite Hd, IH. reflexivity.
    - intros sc c. reflexivity.
    - intros s IHs r IHr sc c. cbn [res_block]. specialize (IHs sc c).
      destruct (res_stmt sc c s) as [[s1 sc1] c1]. specialize (IHr sc1 c1).
      destruct (res_block sc1 c1 r) as [r1 c2]. cbn [fst] in *. cbn [sym_block]. rewrite IHs, IHr. reflexivity.
    - intros sc c. reflexivity.
    - intros b IHb r IHr sc c. cbn [res_blocks]. specialize (IHb sc c).
      destruct (res_block sc c b) as [b1 c1]. specialize (IHr sc c1).
      destruct (res_blocks sc c1 r) as [r1 c2]. cbn [fst] in *. cbn [sym_blocks]. rewrite IHb, IHr. reflexivity.
    - intros sc c. reflexivity.
    - intros pat b IHb r IHr sc c. cbn [res_cases].
      pose proof (res_pattern_keeps pat sc c) as Hp. pose proof (res_term_keeps pat sc c) as Ht.
      destruct (res_term sc c pat) as [[p1 sc1] c1]. specialize (IHb sc1 c1).
      destruct (res_block sc1 c1 b) as [b1 c2]. specialize (IHr sc c2).
      destruct (res_cases sc c2 r) as [r1 c3]. cbn [fst] in *. cbn [sym_cases]. rewrite Hp, Ht, IHb, IHr. reflexivity.
  Qed.

  Lemma resolve_keeps body : sym_block sg (fst (resolve body)) = sym_block sg body.
  Proof. unfold resolve. apply res_syntax_keeps. Qed.

  (* ---------------------------------------------------------------- atoms of a symbol-correct body *)

  Lemma all_atoms_sym :
    (forall s, SymStmt sg s -> Forall (SymAtom sg) (all_atoms_stmt s)) /\
    (forall b, SymBlock sg b -> Forall (SymAtom sg) (all_atoms_block b)) /\
    (forall bs, SymBlocks sg bs -> Forall (SymAtom sg) (all_atoms_blocks bs)) /\
    (forall cs, SymCases sg cs -> forall d, SymTerm sg d -> Forall (SymAtom sg) (all_atoms_cases d cs)).
  Proof.
    apply syntax_mutind.
    - intros l a H. inversion H; subst. cbn [all_atoms_stmt]. constructor; [assumption | constructor].
    - intros l a H. inversion H; subst. cbn [all_atoms_stmt]. constructor; [assumption | constructor].
    - intros l bs IH H. inversion H; subst. cbn [all_atoms_stmt]. apply IH. assumption.
    - intros l d cs IH H. inversion H; subst. cbn [all_atoms_stmt]. constructor.
      + cbn [SymAtom]. constructor. assumption.
      + apply IH; assumption.
    - intros _. constructor.
    - intros s IHs r IHr H. inversion H; subst. cbn [all_atoms_block]. apply Forall_app. split; [apply IHs | apply IHr]; assumption.
    - intros _. constructor.
    - intros b IHb r IHr H. inversion H; subst. cbn [all_atoms_blocks]. apply Forall_app. split; [apply IHb | apply IHr]; assumption.
    - intros _ d _. constructor.
    - intros pat b IHb r IHr H d Hd. inversion H; subst. cbn [all_atoms_cases]. constructor.
      + cbn [SymAtom]. constructor; assumption.
      + apply Forall_app. split; [apply IHb; assumption | apply IHr; assumption].
  Qed.
End Sym.

(* the atoms of the resolved body of a rule without symbol defects *)
Lemma resolved_atoms_sym sg body :
  Unique sg -> sym_block sg body = [] -> Forall (SymAtom sg) (all_atoms_block (fst (resolve body))).
Proof.
  intros Hu H. apply all_atoms_sym. apply (sym_syntax_nil sg Hu). rewrite resolve_keeps. exact H.
Qed.
