(* Typing: the declarative judgement `HasType sg rho t T` for resolved rules and soundness of the
   checking half of the type pass (the chk_ functions).  The inference half (prop_ functions, infer) is not
   reasoned about:
   whatever environment it proposes is checked. *)
From Coq Require Import List NArith Bool Arith Lia.
From Static Require Import Model FactsBase FactsSymbols.
Import ListNotations.
Open Scope N_scope.

(* ---------------------------------------------------------------- declarative side *)

Inductive HasType (sg : list sym) (rho : tenv) : term -> name -> Prop :=
| HT_var : forall l x T, assoc x rho = Some T -> HasType sg rho (Var l x) T
| HT_app : forall l f args s T,
    declared sg f [KFunc; KCtor] s -> s_cod s = Some T ->
    ArgsTyped sg rho args (s_dom s) -> HasType sg rho (App l f args) T
with ArgsTyped (sg : list sym) (rho : tenv) : list term -> list name -> Prop :=
| AT_nil : ArgsTyped sg rho [] []
| AT_cons : forall t ts T Ts, HasType sg rho t T -> ArgsTyped sg rho ts Ts ->
                              ArgsTyped sg rho (t :: ts) (T :: Ts).

Inductive TyIf (sg : list sym) (rho : tenv) : ifatom -> Prop :=
| TI_eq : forall a b T, HasType sg rho a T -> HasType sg rho b T -> TyIf sg rho (IEq a b)
| TI_def : forall t T, HasType sg rho t T -> TyIf sg rho (IDef t)
| TI_pred : forall p args s, declared sg p [KPred] s -> ArgsTyped sg rho args (s_dom s) ->
                             TyIf sg rho (IPred p args)
| TI_type : forall t ty, SymType sg ty -> HasType sg rho t ty -> TyIf sg rho (IType t ty).

Inductive TyThen (sg : list sym) (rho : tenv) : thenatom -> Prop :=
| TT_eq : forall a b T, HasType sg rho a T -> HasType sg rho b T -> TyThen sg rho (TEq a b)
| TT_def : forall t T, HasType sg rho t T -> TyThen sg rho (TDef None t)
| TT_defx : forall x t T, HasType sg rho x T -> HasType sg rho t T -> TyThen sg rho (TDef (Some x) t)
| TT_pred : forall p args s, declared sg p [KPred] s -> ArgsTyped sg rho args (s_dom s) ->
                             TyThen sg rho (TPred p args).

Definition TyAtom (sg : list sym) (rho : tenv) (a : atom) : Prop :=
  match a with AIf _ a => TyIf sg rho a | AThen _ a => TyThen sg rho a end.

Definition SymAtom (sg : list sym) (a : atom) : Prop :=
  match a with AIf _ a => SymIf sg a | AThen _ a => SymThen sg a end.

(* ---------------------------------------------------------------- the checker *)

Lemma chk_term_app sg rho l f args exp :
  chk_term sg rho (App l f args) exp =
  chk_here sg rho (App l f args) exp ++ chk_terms sg rho args (func_dom sg f).
Proof.
  cbn [chk_term]. f_equal. generalize (func_dom sg f) as ds.
  induction args as [|t r IH]; intros ds; [reflexivity|].
  cbn [chk_terms]. destruct ds as [|d ds']; rewrite IH; reflexivity.
Qed.

(* what a clean check of one term gives *)
Definition term_ok (sg : list sym) (rho : tenv) (t : term) : Prop :=
  forall exp, chk_term sg rho t exp = [] -> SymTerm sg t ->
    exists T, HasType sg rho t T /\ tyof sg rho t = Some T /\ (forall T', exp = Some T' -> T' = T).

Lemma chk_here_nil sg rho t exp :
  chk_here sg rho t exp = [] ->
  exists T, tyof sg rho t = Some T /\ (forall T', exp = Some T' -> T' = T).
Proof.
  unfold chk_here. destruct (tyof sg rho t) as [T|]; [|discriminate].
  intros H. exists T. split; [reflexivity|]. intros T' He. subst exp.
  destruct (N.eqb T' T) eqn:E; [apply N.eqb_eq; exact E | discriminate].
Qed.

Lemma chk_terms_sound sg rho args : Forall (term_ok sg rho) args ->
  forall Ts, chk_terms sg rho args (map Some Ts) = [] -> length Ts = length args ->
  Forall (SymTerm sg) args -> ArgsTyped sg rho args Ts.
Proof.
  induction 1 as [|t r Ht Hr IH]; intros Ts Hc Hl Hs.
  - destruct Ts; [constructor | discriminate].
  - destruct Ts as [|T Ts]; [discriminate|]. cbn [map chk_terms] in Hc.
    apply app_eq_nil in Hc. destruct Hc as [Hc1 Hc2]. inversion Hs; subst.
    destruct (Ht (Some T) Hc1) as [T0 [Hty [_ He]]]; [assumption|].
    rewrite <- (He T eq_refl) in Hty. constructor; [exact Hty|].
    apply IH; [exact Hc2 | cbn in Hl; lia | assumption].
Qed.

Lemma chk_term_sound sg rho : Unique sg -> forall t, term_ok sg rho t.
Proof.
  intros Hu. induction t as [l x | l | l f args IH] using term_ind'; intros exp Hc Hs.
  - cbn [chk_term] in Hc. rewrite app_nil_r in Hc. destruct (chk_here_nil _ _ _ _ Hc) as [T [Ht He]].
    exists T. split; [constructor; exact Ht | split; assumption].
  - cbn [chk_term] in Hc. rewrite app_nil_r in Hc. destruct (chk_here_nil _ _ _ _ Hc) as [T [Ht _]]. discriminate.
  - rewrite chk_term_app in Hc. apply app_eq_nil in Hc. destruct Hc as [Hh Ha].
    destruct (chk_here_nil _ _ _ _ Hh) as [T [Ht He]].
    inversion Hs as [| | l' f' args' s Hd Hl Hargs]; subst.
    assert (Hf : find_func sg f = Some s) by (apply declared_find_kind; assumption).
    cbn [tyof] in Ht. rewrite Hf in Ht. unfold func_dom in Ha. rewrite Hf in Ha.
    exists T. split; [|split; [cbn [tyof]; rewrite Hf; exact Ht | exact He]].
    apply HT_app with (s := s); [exact Hd | exact Ht|].
    apply (chk_terms_sound sg rho args IH); assumption.
Qed.

Lemma chk_eq_sound sg rho a b : Unique sg -> chk_eq sg rho a b = [] -> SymTerm sg a -> SymTerm sg b ->
  exists T, HasType sg rho a T /\ HasType sg rho b T.
Proof.
  intros Hu Hc Ha Hb. unfold chk_eq in Hc. apply app_eq_nil in Hc. destruct Hc as [H1 H2].
  destruct (chk_term_sound sg rho Hu a _ H1 Ha) as [Ta [Hta [Htya _]]].
  destruct (chk_term_sound sg rho Hu b _ H2 Hb) as [Tb [Htb [_ Heb]]].
  exists Tb. split; [|exact Htb]. rewrite <- (Heb Ta Htya). exact Hta.
Qed.

Lemma chk_pred_sound sg rho p args : Unique sg ->
  chk_terms sg rho args (pred_dom sg p) = [] -> SymPred sg p args ->
  exists s, declared sg p [KPred] s /\ ArgsTyped sg rho args (s_dom s).
Proof.
  intros Hu Hc [[s [Hd Hl]] Hargs]. exists s. split; [exact Hd|].
  assert (Hf : find_pred sg p = Some s) by (apply declared_find_kind; assumption).
  unfold pred_dom in Hc. rewrite Hf in Hc.
  apply (chk_terms_sound sg rho args); try assumption.
  rewrite Forall_forall. intros t _. apply chk_term_sound. exact Hu.
Qed.

Theorem chk_atom_sound sg rho a : Unique sg -> SymAtom sg a -> chk_atom sg rho a = [] -> TyAtom sg rho a.
Proof.
  intros Hu Hs Hc. destruct a as [l a | l a]; cbn [TyAtom SymAtom] in *.
  - destruct a as [a b | t | p args | t ty]; cbn [chk_atom] in Hc; inversion Hs; subst.
    + destruct (chk_eq_sound sg rho a b Hu Hc) as [T [HA HB]]; try assumption. apply TI_eq with (T := T); assumption.
    + destruct (chk_term_sound sg rho Hu t _ Hc) as [T [HA _]]; [assumption|]. apply TI_def with (T := T). exact HA.
    + destruct (chk_pred_sound sg rho p args Hu Hc) as [s [HA HB]]; [assumption|]. apply TI_pred with (s := s); assumption.
    + match goal with H : SymType sg ty |- _ => rename H into Hty end.
      assert (He : type_exp sg ty = Some ty).
      { unfold type_exp, find_type. destruct Hty as [s Hd]. rewrite (declared_find_kind _ _ _ _ Hu Hd). reflexivity. }
      rewrite He in Hc. destruct (chk_term_sound sg rho Hu t _ Hc) as [T [HA [_ HC]]]; [assumption|].
      rewrite <- (HC ty eq_refl) in HA. constructor; assumption.
  - destruct a as [a b | [x|] t | p args]; cbn [chk_atom] in Hc; inversion Hs; subst.
    + destruct (chk_eq_sound sg rho a b Hu Hc) as [T [HA HB]]; try assumption. apply TT_eq with (T := T); assumption.
    + destruct (chk_eq_sound sg rho x t Hu Hc) as [T [HA HB]]; try assumption. apply TT_defx with (T := T); assumption.
    + destruct (chk_term_sound sg rho Hu t _ Hc) as [T [HA _]]; [assumption|]. apply TT_def with (T := T). exact HA.
    + destruct (chk_pred_sound sg rho p args Hu Hc) as [s [HA HB]]; [assumption|]. apply TT_pred with (s := s); assumption.
Qed.

Lemma type_defects_nil sg rho st atoms :
  type_defects sg rho st atoms = [] <-> Forall (fun a => chk_atom sg rho a = []) atoms.
Proof.
  unfold type_defects. rewrite <- flat_map_nil_iff.
  destruct (flat_map (chk_atom sg rho) atoms); cbn [map]; split; intros H; try reflexivity; discriminate.
Qed.

(* all atoms of a rule are typed when the type pass reports nothing (and the symbols are right) *)
Theorem type_defects_sound sg rho st atoms :
  Unique sg -> Forall (SymAtom sg) atoms -> type_defects sg rho st atoms = [] -> Forall (TyAtom sg rho) atoms.
Proof.
  intros Hu Hs Hc. apply type_defects_nil in Hc. rewrite Forall_forall in *.
  intros a Hin. apply chk_atom_sound; [exact Hu | apply Hs; exact Hin | apply Hc; exact Hin].
Qed.

(* ---------------------------------------------------------------- the checker is not too strict:
   for a given environment, whatever is typable passes the check *)

Scheme HasType_mind := Induction for HasType Sort Prop
  with ArgsTyped_mind := Induction for ArgsTyped Sort Prop.
Combined Scheme HasType_mutind from HasType_mind, ArgsTyped_mind.

Lemma chk_here_ok sg rho t T exp :
  tyof sg rho t = Some T -> (forall T', exp = Some T' -> T' = T) -> chk_here sg rho t exp = [].
Proof.
  intros Ht He. unfold chk_here. rewrite Ht. destruct exp as [T'|]; [|reflexivity].
  rewrite (He T' eq_refl). rewrite N.eqb_refl. reflexivity.
Qed.

Lemma chk_complete sg rho : Unique sg ->
  (forall t T, HasType sg rho t T ->
     tyof sg rho t = Some T /\ forall exp, (forall T', exp = Some T' -> T' = T) -> chk_term sg rho t exp = []) /\
  (forall ts Ts, ArgsTyped sg rho ts Ts -> chk_terms sg rho ts (map Some Ts) = []).
Proof.
  intros Hu. apply HasType_mutind.
  - intros l x T Ha. split; [exact Ha|]. intros exp He. cbn [chk_term]. rewrite app_nil_r.
    apply (chk_here_ok sg rho (Var l x) T); assumption.
  - intros l f args s T Hd Hc Hargs IH.
    assert (Hf : find_func sg f = Some s) by (apply declared_find_kind; assumption).
    assert (Ht : tyof sg rho (App l f args) = Some T) by (cbn [tyof]; rewrite Hf; exact Hc).
    split; [exact Ht|]. intros exp He. rewrite chk_term_app.
    rewrite (chk_here_ok sg rho _ T exp Ht He). unfold func_dom. rewrite Hf. exact IH.
  - reflexivity.
  - intros t ts T Ts Ht [_ IHt] Hts IHts. cbn [map chk_terms].
    rewrite IHt; [exact IHts|]. intros T' H. inversion H. reflexivity.
Qed.

Lemma chk_eq_complete sg rho a b T : Unique sg ->
  HasType sg rho a T -> HasType sg rho b T -> chk_eq sg rho a b = [].
Proof.
  intros Hu Ha Hb. destruct (proj1 (chk_complete sg rho Hu) a T Ha) as [Hta Hca].
  destruct (proj1 (chk_complete sg rho Hu) b T Hb) as [Htb Hcb].
  unfold chk_eq. rewrite Hta, Htb.
  rewrite Hca, Hcb; [reflexivity | |]; intros T' H; inversion H; reflexivity.
Qed.

Theorem chk_atom_complete sg rho a : Unique sg -> TyAtom sg rho a -> chk_atom sg rho a = [].
Proof.
  intros Hu H. destruct a as [l a | l a]; cbn [TyAtom] in H; inversion H; subst; cbn [chk_atom].
  - apply (chk_eq_complete sg rho _ _ T); assumption.
  - apply (proj1 (chk_complete sg rho Hu) _ T); [assumption | intros T' He; discriminate].
  - unfold pred_dom, find_pred.
    match goal with Hd : declared sg p [KPred] s |- _ => rewrite (declared_find_kind _ _ _ _ Hu Hd) end.
    apply (proj2 (chk_complete sg rho Hu)). assumption.
  - match goal with Hs : SymType sg ty |- _ => destruct Hs as [s0 Hd] end.
    unfold type_exp, find_type. rewrite (declared_find_kind _ _ _ _ Hu Hd).
    apply (proj1 (chk_complete sg rho Hu) _ ty); [assumption | intros T' He; inversion He; reflexivity].
  - apply (chk_eq_complete sg rho _ _ T); assumption.
  - apply (proj1 (chk_complete sg rho Hu) _ T); [assumption | intros T' He; discriminate].
  - apply (chk_eq_complete sg rho _ _ T); assumption.
  - unfold pred_dom, find_pred.
    match goal with Hd : declared sg p [KPred] s |- _ => rewrite (declared_find_kind _ _ _ _ Hu Hd) end.
    apply (proj2 (chk_complete sg rho Hu)). assumption.
Qed.

(* for a given environment the type pass is exact *)
Theorem type_defects_exact sg rho st atoms :
  Unique sg -> Forall (SymAtom sg) atoms ->
  (type_defects sg rho st atoms = [] <-> Forall (TyAtom sg rho) atoms).
Proof.
  intros Hu Hs. split; [apply type_defects_sound; assumption|].
  intros H. apply type_defects_nil. rewrite Forall_forall in *. intros a Hin.
  apply chk_atom_complete; [exact Hu | apply H; exact Hin].
Qed.
