(* Helpers used by generated cases (checks/c10.py): cases are Gallina `prog` terms. *)
From Coq Require Import List NArith.
From Static Require Import Model.
Import ListNotations.
Open Scope N_scope.

Definition class_code (c : dclass) : N :=
  match c with
  | SymbolDeclaredTwice => 1 | UndeclaredSymbol => 2 | BadSymbolKind => 3
  | PredArgNumber => 4 | FuncArgNumber => 5
  | ConflictingTermType => 6 | UndeterminedTermType => 7
  | VarIntroducedInThen => 8 | WildcardInThen => 9
  | VariableOccursOnlyOnce => 10
  | ThenDefinedNotVar => 11 | ThenDefinedVarNotNew => 12
  | SurjectivityViolation => 13
  | EnumCtorsNotSurjective => 14
  | MatchPatternIsVariable => 15 | MatchPatternIsWildcard => 16
  | MatchPatternCtorArgIsApp => 17 | MatchPatternArgVarIsNotFresh => 18
  | MatchConflictingEnum => 19 | MatchNotExhaustive => 20
  end.

Definition check_prog (p : prog) : list (N * list N) :=
  map (fun d => (class_code (fst d), snd d)) (defects p).
