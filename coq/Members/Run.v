(* Entry points used by generated case files (checks/c17.py). Outputs are built from N, bool, list, option, pairs.
   Elements are the caller's handles (creation indices): member predicates create no elements in this fragment, so a
   dump of the implementation and a state of a model are compared as sets of facts over handles (no isomorphism
   search is needed: the identity on handles is the only candidate). *)
From Coq Require Import List BinNat Bool.
From Members Require Import Model.
Import ListNotations.
Open Scope N_scope.

(* ------------------------------------------------------------------ specification *)
(* state after the last call; None: out of fuel, not range restricted, or outside the fragment (an equality would be
   forced: dom, cod or a constant with two values) *)
Definition spec_close (fuel : nat) (p : mprogram) (h : list mcall) : option (list fact) :=
  if wf_program p then
    match spec_run fuel p h [] with
    | Some St => if functional_b p St then Some St else None
    | None => None
    end
  else None.

(* states after every close of the history *)
Fixpoint spec_trace_from (fuel : nat) (p : mprogram) (h : list mcall) (S : list fact) : option (list (list fact)) :=
  match h with
  | [] => Some []
  | MFact t :: h' => spec_trace_from fuel p h' (add_fact t S)
  | MClose :: h' =>
      match chase fuel p S with
      | Some St => match spec_trace_from fuel p h' St with Some l => Some (St :: l) | None => None end
      | None => None
      end
  end.
Definition spec_trace (fuel : nat) (p : mprogram) (h : list mcall) : option (list (list fact)) :=
  if wf_program p then
    match spec_trace_from fuel p h [] with
    | Some l => if forallb (functional_b p) l then Some l else None
    | None => None
    end
  else None.

(* ------------------------------------------------------------------ faithful model *)
Definition faithful_close (fuel : nat) (p : mprogram) (h : list mcall) : option (list fact) :=
  match f_run fuel p h f_empty with Some st => Some (f_visible st) | None => None end.

Fixpoint faithful_trace_from (fuel : nat) (p : mprogram) (h : list mcall) (st : fstate) : option (list (list fact)) :=
  match h with
  | [] => Some []
  | MFact t :: h' => faithful_trace_from fuel p h' (f_insert p st t)
  | MClose :: h' =>
      match f_close fuel p st with
      | Some st' => match faithful_trace_from fuel p h' st' with Some l => Some (f_visible st' :: l) | None => None end
      | None => None
      end
  end.
Definition faithful_trace (fuel : nat) (p : mprogram) (h : list mcall) : option (list (list fact)) :=
  faithful_trace_from fuel p h f_empty.

(* ------------------------------------------------------------------ oracles *)
(* S is closed under the rules and under inheritance (with respect to its own morphisms), dom / cod / constants are
   single-valued: nothing that [step] produces is missing *)
Definition member_closed_b (p : mprogram) (S : list fact) : bool :=
  wf_program p && forallb (fun t => mem t S) (step p S) && functional_b p S.
(* the first fact that a rule or inheritance forces and S lacks *)
Definition member_violation (p : mprogram) (S : list fact) : option fact :=
  find (fun t => negb (mem t S)) (step p S).

Definition subset_b (A B : list fact) : bool := forallb (fun t => mem t B) A.
(* equality of the two sets of facts over the caller's handles (the identity is the only candidate isomorphism) *)
Definition member_iso_b (A B : list fact) : bool := subset_b A B && subset_b B A.
Definition diff (A B : list fact) : list fact := filter (fun t => negb (mem t B)) A.

(* the side condition of the proved part for the emitted loop: no rule concludes dom / cod and every dom / cod tuple is
   asserted before the first close *)
Definition concludes_mor (p : mprogram) : bool :=
  existsb (fun r => existsb (fun a => N.eqb (fst a) rel_dom || N.eqb (fst a) rel_cod) (r_concl r)) (mp_rules p).
Definition is_mor_fact (t : fact) : bool := N.eqb (fst t) rel_dom || N.eqb (fst t) rel_cod.
Fixpoint no_mor_facts (h : list mcall) : bool :=
  match h with
  | [] => true
  | MFact t :: h' => negb (is_mor_fact t) && no_mor_facts h'
  | MClose :: h' => no_mor_facts h'
  end.
Fixpoint early_morphisms_h (h : list mcall) : bool :=
  match h with
  | [] => true
  | MFact _ :: h' => early_morphisms_h h'
  | MClose :: h' => no_mor_facts h'
  end.
Definition early_morphisms (p : mprogram) (h : list mcall) : bool := negb (concludes_mor p) && early_morphisms_h h.

(* a finer, state-dependent side condition (proved sufficient: FactsRun.faithful_final_timely): whenever a dom / cod
   tuple is asserted, no OLD member tuple sits in the domain model of a morphism that this tuple completes.
   "every morphism precedes the first close after the facts it transports" implies it. *)
Definition pair_mem (e : N * N) (l : list (N * N)) : bool := existsb (fun x => N.eqb (fst x) (fst e) && N.eqb (snd x) (snd e)) l.
Definition transports_old (st : fstate) (t : fact) : bool :=
  existsb (fun e => negb (pair_mem e (f_edges st)) && existsb (at_model (fst e)) (all_old st))
          (edges ((g_new st ++ [t]) ++ g_old st)).
Definition safe_b (st : fstate) (t : fact) : bool := negb (transports_old st t).
Fixpoint timely_from (fuel : nat) (p : mprogram) (h : list mcall) (st : fstate) : bool :=
  match h with
  | [] => true
  | MFact t :: h' => safe_b st t && timely_from fuel p h' (f_insert p st t)
  | MClose :: h' => match f_close fuel p st with Some st' => timely_from fuel p h' st' | None => true end
  end.
Definition timely (fuel : nat) (p : mprogram) (h : list mcall) : bool :=
  negb (concludes_mor p) && timely_from fuel p h f_empty.

(* one judgement per dump D_i (taken after the i-th close):
     (spec \ D_i, D_i \ spec, faithful \ D_i, D_i \ faithful, member_closed_b D_i) *)
Definition judge_one (p : mprogram) (S F D : list fact) :=
  (diff S D, diff D S, diff F D, diff D F, member_closed_b p D).
Fixpoint zip3 {A B C} (a : list A) (b : list B) (c : list C) : list (A * B * C) :=
  match a, b, c with
  | x :: a', y :: b', z :: c' => (x, y, z) :: zip3 a' b' c'
  | _, _, _ => []
  end.
(* outer None: the specification is undefined for this history (outside the fragment / fuel);
   inner None: the faithful model is undefined (cycle / fuel) *)
Definition c17_judge (fuel : nat) (p : mprogram) (h : list mcall) (Ds : list (list fact)) :=
  match spec_trace fuel p h with
  | None => None
  | Some Ss =>
      Some (match faithful_trace fuel p h with
            | None => None
            | Some Fs => Some (map (fun x => match x with (Sx, Fx, Dx) => judge_one p Sx Fx Dx end) (zip3 Ss Fs Ds))
            end,
            (early_morphisms p h, timely fuel p h))
  end.
