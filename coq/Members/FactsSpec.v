(* The specification model: the chase computes the least set of facts that contains the asserted ones and is closed
   under the rules and under inheritance (Derivable). *)
From Coq Require Import List NArith Bool Lia.
From Members Require Import Model FactsBasic FactsMatch.
Import ListNotations.
Open Scope N_scope.

(* ------------------------------------------------------------------ morphisms *)
Lemma In_cods_of : forall f S c, In c (cods_of f S) <-> In (rel_cod, [f; c]) S.
Proof.
  intros f S c. unfold cods_of. rewrite in_flat_map. split.
  - intros [[r xs] [Ht Hin]]. destruct xs as [|f' [|c' [|z xs]]]; try contradiction.
    destruct (N.eqb r rel_cod && N.eqb f' f) eqn:E; [|contradiction]. destruct Hin as [Hin|[]]. subst c'.
    apply andb_true_iff in E. destruct E as [E1 E2]. apply N.eqb_eq in E1. apply N.eqb_eq in E2. subst. exact Ht.
  - intro H. exists (rel_cod, [f; c]). split; [exact H|]. rewrite !N.eqb_refl. cbn. left. reflexivity.
Qed.

Lemma In_edges : forall S d c, In (d, c) (edges S) <-> exists f, In (rel_dom, [f; d]) S /\ In (rel_cod, [f; c]) S.
Proof.
  intros S d c. unfold edges. rewrite in_flat_map. split.
  - intros [[r xs] [Ht Hin]]. destruct xs as [|f [|d' [|z xs]]]; try contradiction.
    destruct (N.eqb r rel_dom) eqn:E; [|contradiction]. apply N.eqb_eq in E. subst r.
    apply in_map_iff in Hin. destruct Hin as [c' [E' Hc]]. inversion E'; subst. exists f. split; [exact Ht|].
    apply In_cods_of. exact Hc.
  - intros [f [Hd Hc]]. exists (rel_dom, [f; d]). split; [exact Hd|]. rewrite N.eqb_refl.
    apply in_map_iff. exists c. split; [reflexivity|]. apply In_cods_of. exact Hc.
Qed.

Lemma edges_incl : forall S T, incl_f S T -> forall e, In e (edges S) -> In e (edges T).
Proof.
  intros S T H [d c] He. apply In_edges in He. destruct He as [f [Hd Hc]]. apply In_edges. exists f.
  split; apply H; assumption.
Qed.

Lemma In_mapped : forall e S x, In x (mapped e S) <->
  exists r xs, In (r, fst e :: xs) S /\ x = (r, snd e :: xs).
Proof.
  intros [d c] S x. unfold mapped. cbn [fst snd]. rewrite in_map_iff. split.
  - intros [[r ys] [Hx Hin]]. apply filter_In in Hin. destruct Hin as [Hin Hat].
    unfold at_model in Hat. cbn [snd] in Hat. destruct ys as [|m xs]; [discriminate|]. apply N.eqb_eq in Hat. subst m.
    exists r, xs. split; [exact Hin|]. subst x. reflexivity.
  - intros [r [xs [Hin Hx]]]. exists (r, d :: xs). split; [subst x; reflexivity|].
    apply filter_In. split; [exact Hin|]. unfold at_model. cbn [snd]. apply N.eqb_refl.
Qed.

Lemma In_inherit_step : forall p E S x, In x (inherit_step p E S) <->
  exists d c r xs, In (d, c) E /\ is_member p r = true /\ In (r, d :: xs) S /\ x = (r, c :: xs).
Proof.
  intros p E S x. unfold inherit_step. rewrite in_flat_map. split.
  - intros [[d c] [He Hx]]. apply In_mapped in Hx. destruct Hx as [r [xs [Hin Hx]]]. cbn [fst snd] in *.
    apply filter_In in Hin. destruct Hin as [Hin Hm]. cbn [fst] in Hm. exists d, c, r, xs. tauto.
  - intros [d [c [r [xs [He [Hm [Hin Hx]]]]]]]. exists (d, c). split; [exact He|]. apply In_mapped. exists r, xs.
    cbn [fst snd]. split; [|exact Hx]. apply filter_In. split; [exact Hin | exact Hm].
Qed.

(* ------------------------------------------------------------------ the specification as a least fixed point *)
Inductive Derivable (p : mprogram) (F : list fact) : fact -> Prop :=
| D_base : forall t, In t F -> Derivable p F t
| D_inherit : forall r f d c xs, is_member p r = true ->
    Derivable p F (r, d :: xs) -> Derivable p F (rel_dom, [f; d]) -> Derivable p F (rel_cod, [f; c]) ->
    Derivable p F (r, c :: xs)
| D_rule : forall rl sigma c, In rl (mp_rules p) ->
    (forall a, In a (r_prem rl) -> Derivable p F (inst sigma a)) -> In c (r_concl rl) ->
    Derivable p F (inst sigma c).

Definition inherit_closed (p : mprogram) (S : list fact) : Prop :=
  forall r f d c xs, is_member p r = true -> In (r, d :: xs) S -> In (rel_dom, [f; d]) S -> In (rel_cod, [f; c]) S ->
                     In (r, c :: xs) S.
Definition rules_closed (p : mprogram) (S : list fact) : Prop :=
  forall rl sigma c, In rl (mp_rules p) -> (forall a, In a (r_prem rl) -> In (inst sigma a) S) -> In c (r_concl rl) ->
                     In (inst sigma c) S.
(* closed with respect to `all`: the member tuples that rules read include the inherited ones *)
Definition Closed (p : mprogram) (S : list fact) : Prop := inherit_closed p S /\ rules_closed p S.

Lemma wf_program_rule : forall p rl, wf_program p = true -> In rl (mp_rules p) -> wf_rule rl = true.
Proof. intros p rl H Hin. unfold wf_program in H. rewrite forallb_forall in H. apply H. exact Hin. Qed.

Lemma step_closed_iff : forall p S, wf_program p = true -> ((forall x, In x (step p S) -> In x S) <-> Closed p S).
Proof.
  intros p S Hwf. unfold step. split.
  - intro H. split.
    + intros r f d c xs Hm Hin Hd Hc. apply H. apply in_app_iff. left. apply In_inherit_step.
      exists d, c, r, xs. split; [apply In_edges; exists f; tauto|]. tauto.
    + intros rl sigma c Hrl Hsat Hc. apply H. apply in_app_iff. right. apply in_flat_map. exists rl. split; [exact Hrl|].
      apply rule_step_complete; [eapply wf_program_rule; eassumption | exact Hsat | exact Hc].
  - intros [Hi Hr] x Hx. apply in_app_iff in Hx. destruct Hx as [Hx|Hx].
    + apply In_inherit_step in Hx. destruct Hx as [d [c [r [xs [He [Hm [Hin Hx]]]]]]]. subst x.
      apply In_edges in He. destruct He as [f [Hd Hc]]. eapply Hi; eassumption.
    + apply in_flat_map in Hx. destruct Hx as [rl [Hrl Hx]]. apply rule_step_sound in Hx.
      destruct Hx as [sigma [Hsat [c [Hc Hx]]]]. subst x. eapply Hr; eassumption.
Qed.

Lemma step_sound : forall p F S, (forall t, In t S -> Derivable p F t) -> forall x, In x (step p S) -> Derivable p F x.
Proof.
  intros p F S HS x Hx. unfold step in Hx. apply in_app_iff in Hx. destruct Hx as [Hx|Hx].
  - apply In_inherit_step in Hx. destruct Hx as [d [c [r [xs [He [Hm [Hin Hx]]]]]]]. subst x.
    apply In_edges in He. destruct He as [f [Hd Hc]]. eapply D_inherit; [exact Hm | apply HS; exact Hin | apply HS; exact Hd | apply HS; exact Hc].
  - apply in_flat_map in Hx. destruct Hx as [rl [Hrl Hx]]. apply rule_step_sound in Hx.
    destruct Hx as [sigma [Hsat [c [Hc Hx]]]]. subst x. eapply D_rule; [exact Hrl | | exact Hc].
    intros a Ha. apply HS. apply Hsat. exact Ha.
Qed.

Lemma chase_spec : forall n p S S', chase n p S = Some S' ->
  incl_f S S' /\ (forall x, In x (step p S') -> In x S') /\
  (forall F, (forall t, In t S -> Derivable p F t) -> forall t, In t S' -> Derivable p F t).
Proof.
  induction n as [|n IH]; intros p S S' H; cbn [chase] in H; [discriminate|].
  destruct (Nat.eqb (length (add_all (step p S) S)) (length S)) eqn:E.
  - inversion H; subst S'. apply PeanoNat.Nat.eqb_eq in E. split; [intros x Hx; exact Hx|]. split.
    + intros x Hx. eapply add_all_same_length; eassumption.
    + intros F HF t Ht. apply HF. exact Ht.
  - destruct (IH _ _ _ H) as [H1 [H2 H3]]. split.
    + intros x Hx. apply H1. apply In_add_all. left. exact Hx.
    + split; [exact H2|]. intros F HF t Ht. apply (H3 F); [|exact Ht].
      intros t' Ht'. apply In_add_all in Ht'. destruct Ht' as [Ht'|Ht']; [apply HF; exact Ht' | eapply step_sound; eassumption].
Qed.

Lemma Derivable_least : forall p F T, Closed p T -> incl_f F T -> forall t, Derivable p F t -> In t T.
Proof.
  intros p F T [Hi Hr] HF t Ht. induction Ht as [t Hin | r f d c xs Hm _ IH1 _ IH2 _ IH3 | rl sigma c Hrl _ IH Hc].
  - apply HF. exact Hin.
  - eapply Hi; eassumption.
  - eapply Hr; eassumption.
Qed.

Lemma Derivable_mono : forall p F G, incl_f F G -> forall t, Derivable p F t -> Derivable p G t.
Proof.
  intros p F G H t Ht. induction Ht as [t Hin | r f d c xs Hm _ IH1 _ IH2 _ IH3 | rl sigma c Hrl _ IH Hc].
  - apply D_base. apply H. exact Hin.
  - eapply D_inherit; eassumption.
  - eapply D_rule; eassumption.
Qed.

Lemma Derivable_idem : forall p F G, (forall t, In t G -> Derivable p F t) -> forall t, Derivable p G t -> Derivable p F t.
Proof.
  intros p F G H t Ht. induction Ht as [t Hin | r f d c xs Hm _ IH1 _ IH2 _ IH3 | rl sigma c Hrl _ IH Hc].
  - apply H. exact Hin.
  - eapply D_inherit; eassumption.
  - eapply D_rule; eassumption.
Qed.

(* the chase result is exactly the least fixed point *)
Theorem spec_lfp : forall n p F S, wf_program p = true -> chase n p F = Some S ->
  forall t, In t S <-> Derivable p F t.
Proof.
  intros n p F S Hwf H t. destruct (chase_spec _ _ _ _ H) as [H1 [H2 H3]]. split.
  - apply (H3 F). intros t' Ht'. apply D_base. exact Ht'.
  - apply Derivable_least; [apply step_closed_iff; assumption | exact H1].
Qed.

Theorem spec_closed : forall n p F S, wf_program p = true -> chase n p F = Some S -> Closed p S.
Proof.
  intros n p F S Hwf H. destruct (chase_spec _ _ _ _ H) as [_ [H2 _]]. apply step_closed_iff; assumption.
Qed.

(* ------------------------------------------------------------------ paths *)
Inductive path (E : list (N * N)) : N -> N -> Prop :=
| path_refl : forall m, path E m m
| path_step : forall a b c, In (a, b) E -> path E b c -> path E a c.

Lemma path_snoc : forall E a b c, path E a b -> In (b, c) E -> path E a c.
Proof.
  intros E a b c H. induction H as [m | x y z Hxy _ IH]; intro Hbc.
  - eapply path_step; [exact Hbc | apply path_refl].
  - eapply path_step; [exact Hxy | apply IH; exact Hbc].
Qed.

Lemma path_incl : forall E E' a b, (forall e, In e E -> In e E') -> path E a b -> path E' a b.
Proof.
  intros E E' a b H Hp. induction Hp as [m | x y z Hxy _ IH]; [apply path_refl|].
  eapply path_step; [apply H; exact Hxy | exact IH].
Qed.

(* inheritance along composable morphisms *)
Theorem inherit_transitive_closed : forall p S r m m' xs, inherit_closed p S -> is_member p r = true ->
  In (r, m :: xs) S -> path (edges S) m m' -> In (r, m' :: xs) S.
Proof.
  intros p S r m m' xs Hc Hm Hin Hp. induction Hp as [m | a b c Hab _ IH]; [exact Hin|].
  apply IH. apply In_edges in Hab. destruct Hab as [f [Hd Hcd]]. eapply Hc; eassumption.
Qed.

Theorem inherit_transitive : forall n p F S r m m' xs, wf_program p = true -> chase n p F = Some S ->
  is_member p r = true -> In (r, m :: xs) S -> path (edges S) m m' -> In (r, m' :: xs) S.
Proof.
  intros n p F S r m m' xs Hwf H Hm Hin Hp. destruct (spec_closed _ _ _ _ Hwf H) as [Hi _].
  eapply inherit_transitive_closed; eassumption.
Qed.

(* nothing flows between unconnected models: a member tuple of a relation that no rule concludes sits in m' only if
   it was asserted in some m with a path of morphisms m ->* m' *)
Definition no_rule_concludes (p : mprogram) (r : N) : Prop :=
  forall rl c, In rl (mp_rules p) -> In c (r_concl rl) -> fst c <> r.

Lemma lfp_only_along_paths : forall p F S r m' xs, (forall t, In t S <-> Derivable p F t) ->
  no_rule_concludes p r -> In (r, m' :: xs) S ->
  exists m, In (r, m :: xs) F /\ path (edges S) m m'.
Proof.
  intros p F S r m' xs Hlfp Hno Hin.
  assert (Hd : Derivable p F (r, m' :: xs)) by (apply Hlfp; exact Hin).
  remember (r, m' :: xs) as t eqn:Et. revert m' xs Et Hin.
  induction Hd as [t Hin0 | r0 f d c xs0 Hm Hd1 IH1 Hd2 _ Hd3 _ | rl sigma c Hrl _ _ Hc]; intros m' xs Et Hin.
  - subst t. exists m'. split; [exact Hin0 | apply path_refl].
  - inversion Et; subst r0 c xs0. clear Et.
    assert (H1 : In (r, d :: xs) S) by (apply Hlfp; exact Hd1).
    destruct (IH1 d xs eq_refl H1) as [m [HmF Hp]]. exists m. split; [exact HmF|].
    eapply path_snoc; [exact Hp|]. apply In_edges. exists f.
    split; apply Hlfp; assumption.
  - exfalso. apply (Hno rl c Hrl Hc). unfold inst in Et. inversion Et. reflexivity.
Qed.

Theorem inherit_only_along_paths : forall n p F S r m' xs, wf_program p = true -> chase n p F = Some S ->
  no_rule_concludes p r -> In (r, m' :: xs) S ->
  exists m, In (r, m :: xs) F /\ path (edges S) m m'.
Proof.
  intros n p F S r m' xs Hwf H. apply lfp_only_along_paths. apply (spec_lfp _ _ _ _ Hwf H).
Qed.

(* inherited tuples are treated like asserted ones: asserting a tuple of the closure changes nothing *)
Theorem inherited_like_asserted : forall n n' p F S S' t, wf_program p = true -> chase n p F = Some S -> In t S ->
  chase n' p (t :: F) = Some S' -> equiv_f S S'.
Proof.
  intros n n' p F S S' t Hwf H Ht H' x. rewrite (spec_lfp _ _ _ _ Hwf H). rewrite (spec_lfp _ _ _ _ Hwf H'). split.
  - apply Derivable_mono. intros y Hy. right. exact Hy.
  - apply Derivable_idem. intros y [Hy|Hy].
    + subst y. apply (spec_lfp _ _ _ _ Hwf H). exact Ht.
    + apply D_base. exact Hy.
Qed.

(* ------------------------------------------------------------------ histories *)
Definition ends_with_close (h : list mcall) : Prop := exists h', h = h' ++ [MClose].

Definition sandwich (p : mprogram) (F S : list fact) : Prop := incl_f F S /\ forall t, In t S -> Derivable p F t.

Lemma spec_run_sandwich : forall n p h F S S', wf_program p = true -> sandwich p F S -> spec_run n p h S = Some S' ->
  sandwich p (F ++ facts_of h) S' /\ (ends_with_close h -> Closed p S').
Proof.
  intros n p. induction h as [|[t|] h IH]; intros F S S' Hwf [H1 H2] Hrun; cbn [spec_run facts_of flat_map] in *.
  - inversion Hrun; subst S'. rewrite app_nil_r. split; [split; assumption|].
    intros [h' E]. destruct h'; discriminate.
  - assert (Hs : sandwich p (F ++ [t]) (add_fact t S)).
    { split.
      - intros x Hx. apply In_add_fact. apply in_app_iff in Hx. destruct Hx as [Hx|[Hx|[]]]; [left; apply H1; exact Hx | right; symmetry; exact Hx].
      - intros x Hx. apply In_add_fact in Hx. destruct Hx as [Hx|Hx].
        + eapply Derivable_mono; [|apply H2; exact Hx]. intros y Hy. apply in_app_iff. left. exact Hy.
        + subst x. apply D_base. apply in_app_iff. right. left. reflexivity. }
    destruct (IH _ _ _ Hwf Hs Hrun) as [H3 H4]. cbn [app]. rewrite <- app_assoc in H3. cbn [app] in H3. split; [exact H3|].
    intros [h' E]. apply H4. destruct h' as [|c h']; cbn [app] in E; [discriminate|]. injection E as _ E2. exists h'. exact E2.
  - destruct (chase n p S) as [S1|] eqn:Ec; [|discriminate].
    destruct (chase_spec _ _ _ _ Ec) as [C1 [C2 C3]].
    assert (Hs : sandwich p F S1).
    { split; [intros x Hx; apply C1; apply H1; exact Hx|]. apply (C3 F). exact H2. }
    destruct (IH _ _ _ Hwf Hs Hrun) as [H3 H4]. cbn [app]. split; [exact H3|].
    intros [h' E]. destruct h' as [|c h']; cbn [app] in E.
    + inversion E; subst h. cbn [spec_run] in Hrun. inversion Hrun; subst S'. apply step_closed_iff; assumption.
    + injection E as _ E2. apply H4. exists h'. exact E2.
Qed.

(* after a final close the state is the least fixed point over the asserted facts, wherever the other closes were *)
Theorem spec_run_lfp : forall n p h S, wf_program p = true -> ends_with_close h -> spec_run n p h [] = Some S ->
  forall t, In t S <-> Derivable p (facts_of h) t.
Proof.
  intros n p h S Hwf He Hrun t.
  destruct (spec_run_sandwich n p h [] [] S Hwf) as [[H1 H2] H3]; [|exact Hrun|].
  - split; [intros x []|intros x []].
  - cbn [app] in *. split; [apply H2|]. apply Derivable_least; [apply H3; exact He | exact H1].
Qed.

(* independence of when morphisms (or anything else) were asserted: the closed state is a function of the SET of facts *)
Theorem spec_history_indep : forall n n' p h h' S S', wf_program p = true ->
  ends_with_close h -> ends_with_close h' -> equiv_f (facts_of h) (facts_of h') ->
  spec_run n p h [] = Some S -> spec_run n' p h' [] = Some S' -> equiv_f S S'.
Proof.
  intros n n' p h h' S S' Hwf He He' Heq Hr Hr' t.
  rewrite (spec_run_lfp _ _ _ _ Hwf He Hr). rewrite (spec_run_lfp _ _ _ _ Hwf He' Hr'). split.
  - apply Derivable_mono. intros x Hx. apply Heq. exact Hx.
  - apply Derivable_mono. intros x Hx. apply Heq. exact Hx.
Qed.
