(* The matcher: soundness and completeness with respect to total valuations sigma : N -> N. *)
From Coq Require Import List NArith Bool Lia.
From Members Require Import Model FactsBasic.
Import ListNotations.
Open Scope N_scope.

Definition agrees (sigma : N -> N) (s : subst) : Prop := forall v x, lookup v s = Some x -> sigma v = x.
Definition extends (s s' : subst) : Prop := forall v x, lookup v s = Some x -> lookup v s' = Some x.
Definition bound (s : subst) (v : N) : Prop := lookup v s <> None.

Lemma extends_refl : forall s, extends s s.
Proof. intros s v x H. exact H. Qed.

Lemma extends_trans : forall a b c, extends a b -> extends b c -> extends a c.
Proof. intros a b c H1 H2 v x H. apply H2. apply H1. exact H. Qed.

Lemma bound_extends : forall s s' v, extends s s' -> bound s v -> bound s' v.
Proof.
  intros s s' v He Hb. unfold bound in *. destruct (lookup v s) as [x|] eqn:E; [|congruence].
  rewrite (He v x E). discriminate.
Qed.

Lemma val_of_extends : forall s s' v, extends s s' -> bound s v -> val_of s' v = val_of s v.
Proof.
  intros s s' v He Hb. unfold bound in Hb. unfold val_of. destruct (lookup v s) as [x|] eqn:E; [|congruence].
  rewrite (He v x E). reflexivity.
Qed.

Lemma val_of_agrees : forall sigma s v, agrees sigma s -> bound s v -> val_of s v = sigma v.
Proof.
  intros sigma s v Ha Hb. unfold bound in Hb. unfold val_of. destruct (lookup v s) as [x|] eqn:E; [|congruence].
  symmetry. apply Ha. exact E.
Qed.

Lemma match_args_sound : forall vs xs s s', match_args vs xs s = Some s' ->
  extends s s' /\ map (val_of s') vs = xs /\ (forall v, In v vs -> bound s' v).
Proof.
  induction vs as [|v vs IH]; intros [|x xs] s s' H; cbn [match_args] in H; try discriminate.
  - inversion H; subst. split; [apply extends_refl|]. split; [reflexivity|]. intros v [].
  - destruct (lookup v s) as [y|] eqn:E.
    + destruct (N.eqb x y) eqn:Exy; [|discriminate]. apply N.eqb_eq in Exy. subst y.
      destruct (IH _ _ _ H) as [He [Hm Hb]]. split; [exact He|]. split.
      * cbn [map]. f_equal; [|exact Hm]. unfold val_of. rewrite (He v x E). reflexivity.
      * intros w [Hw|Hw]; [subst w; unfold bound; rewrite (He v x E); discriminate | apply Hb; exact Hw].
    + destruct (IH _ _ _ H) as [He [Hm Hb]].
      assert (Hv : lookup v s' = Some x).
      { apply He. cbn [lookup]. rewrite N.eqb_refl. reflexivity. }
      split.
      * intros w z Hw. apply He. cbn [lookup]. destruct (N.eqb w v) eqn:Ewv; [|exact Hw].
        apply N.eqb_eq in Ewv. subst w. congruence.
      * split.
        -- cbn [map]. f_equal; [|exact Hm]. unfold val_of. rewrite Hv. reflexivity.
        -- intros w [Hw|Hw]; [subst w; unfold bound; rewrite Hv; discriminate | apply Hb; exact Hw].
Qed.

Lemma match_args_complete : forall sigma vs xs s, agrees sigma s -> map sigma vs = xs ->
  exists s', match_args vs xs s = Some s' /\ agrees sigma s'.
Proof.
  intros sigma. induction vs as [|v vs IH]; intros xs s Ha Hm; cbn [map] in Hm; subst xs; cbn [match_args].
  - exists s. split; [reflexivity | exact Ha].
  - destruct (lookup v s) as [y|] eqn:E.
    + rewrite (Ha v y E). rewrite N.eqb_refl. apply IH; [exact Ha | reflexivity].
    + apply IH; [|reflexivity]. intros w z Hw. cbn [lookup] in Hw. destruct (N.eqb w v) eqn:Ewv.
      * apply N.eqb_eq in Ewv. subst w. inversion Hw; subst. reflexivity.
      * apply Ha. exact Hw.
Qed.

Lemma In_match_atom : forall a Fs s s', In s' (match_atom a Fs s) <->
  exists f, In f Fs /\ fst f = fst a /\ match_args (snd a) (snd f) s = Some s'.
Proof.
  intros a Fs s s'. unfold match_atom. rewrite in_flat_map. split.
  - intros [f [Hf Hm]]. exists f. split; [exact Hf|]. unfold match_fact in Hm.
    destruct (N.eqb (fst f) (fst a)) eqn:E; [|contradiction]. apply N.eqb_eq in E. split; [exact E|].
    destruct (match_args (snd a) (snd f) s) as [s1|]; [|contradiction]. destruct Hm as [Hm|[]]. subst. reflexivity.
  - intros [f [Hf [He Hm]]]. exists f. split; [exact Hf|]. unfold match_fact. rewrite He. rewrite N.eqb_refl. rewrite Hm.
    left. reflexivity.
Qed.

Lemma match_srcs_sound_gen : forall srcs ss s', In s' (match_srcs srcs ss) ->
  exists s, In s ss /\ extends s s' /\ forall a Fs, In (a, Fs) srcs -> In (inst (val_of s') a) Fs.
Proof.
  induction srcs as [|[a Fs] rest IH]; intros ss s' H; cbn [match_srcs] in H.
  - exists s'. split; [exact H|]. split; [apply extends_refl|]. intros a Fs [].
  - destruct (IH _ _ H) as [s1 [Hs1 [He1 Hrest]]].
    apply in_flat_map in Hs1. destruct Hs1 as [s0 [Hs0 Hs1]].
    apply In_match_atom in Hs1. destruct Hs1 as [f [Hf [Hfa Hm]]].
    destruct (match_args_sound _ _ _ _ Hm) as [He0 [Hmap Hb]].
    exists s0. split; [exact Hs0|]. split; [eapply extends_trans; eassumption|].
    intros b Fb [Hb'|Hb'].
    + inversion Hb'; subst b Fb. clear Hb'.
      assert (Hi : inst (val_of s') a = f).
      { unfold inst. destruct f as [r xs]. cbn [fst snd] in *. subst r. f_equal. rewrite <- Hmap.
        apply map_ext_in. intros v Hv. apply val_of_extends; [exact He1 | apply Hb; exact Hv]. }
      rewrite Hi. exact Hf.
    + apply Hrest. exact Hb'.
Qed.

Lemma match_srcs_sound : forall srcs s', In s' (match_srcs srcs [[]]) ->
  forall a Fs, In (a, Fs) srcs -> In (inst (val_of s') a) Fs.
Proof.
  intros srcs s' H. destruct (match_srcs_sound_gen _ _ _ H) as [s [_ [_ Hs]]]. exact Hs.
Qed.

Lemma match_srcs_complete_gen : forall sigma srcs ss s,
  (forall a Fs, In (a, Fs) srcs -> In (inst sigma a) Fs) -> In s ss -> agrees sigma s ->
  exists s', In s' (match_srcs srcs ss) /\ agrees sigma s' /\ extends s s' /\
             forall a Fs, In (a, Fs) srcs -> forall v, In v (snd a) -> bound s' v.
Proof.
  intros sigma. induction srcs as [|[a Fs] rest IH]; intros ss s Hsat Hs Ha; cbn [match_srcs].
  - exists s. split; [exact Hs|]. split; [exact Ha|]. split; [apply extends_refl|]. intros a Fs [].
  - assert (Hin : In (inst sigma a) Fs) by (apply Hsat; left; reflexivity).
    destruct (match_args_complete sigma (snd a) (map sigma (snd a)) s Ha eq_refl) as [s1 [Hm Ha1]].
    assert (Hs1 : In s1 (flat_map (match_atom a Fs) ss)).
    { apply in_flat_map. exists s. split; [exact Hs|]. apply In_match_atom. exists (inst sigma a).
      split; [exact Hin|]. split; [reflexivity | exact Hm]. }
    destruct (match_args_sound _ _ _ _ Hm) as [He0 [_ Hb0]].
    destruct (IH _ s1 (fun b Fb Hb => Hsat b Fb (or_intror Hb)) Hs1 Ha1) as [s' [Hs' [Ha' [He' Hb']]]].
    exists s'. split; [exact Hs'|]. split; [exact Ha'|]. split; [eapply extends_trans; eassumption|].
    intros b Fb [Hb|Hb] v Hv.
    + inversion Hb; subst b Fb. eapply bound_extends; [exact He' | apply Hb0; exact Hv].
    + eapply Hb'; eassumption.
Qed.

Lemma match_srcs_complete : forall sigma srcs,
  (forall a Fs, In (a, Fs) srcs -> In (inst sigma a) Fs) ->
  exists s', In s' (match_srcs srcs [[]]) /\
             forall a Fs, In (a, Fs) srcs -> forall v, In v (snd a) -> val_of s' v = sigma v.
Proof.
  intros sigma srcs Hsat.
  destruct (match_srcs_complete_gen sigma srcs [[]] [] Hsat (or_introl eq_refl)) as [s' [Hs' [Ha' [_ Hb']]]].
  { intros v x H. cbn in H. discriminate. }
  exists s'. split; [exact Hs'|]. intros a Fs Hin v Hv. apply val_of_agrees; [exact Ha' | eapply Hb'; eassumption].
Qed.

(* ------------------------------------------------------------------ conclusions of range-restricted rules *)
Lemma wf_rule_vars : forall r, wf_rule r = true ->
  r_prem r <> [] /\ forall c v, In c (r_concl r) -> In v (snd c) -> exists a, In a (r_prem r) /\ In v (snd a).
Proof.
  intros r H. unfold wf_rule in H. apply andb_true_iff in H. destruct H as [H1 H2]. split.
  - intro E. rewrite E in H1. cbn in H1. discriminate.
  - intros c v Hc Hv. rewrite forallb_forall in H2.
    assert (Hin : In v (vars_of (r_concl r))).
    { unfold vars_of. apply in_flat_map. exists c. split; assumption. }
    specialize (H2 v Hin). apply existsb_exists in H2. destruct H2 as [w [Hw Hvw]]. apply N.eqb_eq in Hvw. subst w.
    unfold vars_of in Hw. apply in_flat_map in Hw. exact Hw.
Qed.

Lemma inst_ext : forall f g a, (forall v, In v (snd a) -> f v = g v) -> inst f a = inst g a.
Proof. intros f g a H. unfold inst. f_equal. apply map_ext_in. exact H. Qed.

(* ------------------------------------------------------------------ the specification's rule step *)
Lemma rule_step_sound : forall r S t, In t (rule_step r S) ->
  exists sigma, (forall a, In a (r_prem r) -> In (inst sigma a) S) /\ exists c, In c (r_concl r) /\ t = inst sigma c.
Proof.
  intros r S t H. unfold rule_step in H. apply in_flat_map in H. destruct H as [s [Hs Ht]].
  unfold conclusions in Ht. apply in_map_iff in Ht. destruct Ht as [c [Hc Hin]].
  exists (val_of s). split.
  - intros a Ha. unfold match_all in Hs. apply (match_srcs_sound _ _ Hs a S). apply in_map_iff. exists a. split; [reflexivity | exact Ha].
  - exists c. split; [exact Hin | symmetry; exact Hc].
Qed.

Lemma rule_step_complete : forall r S sigma c, wf_rule r = true ->
  (forall a, In a (r_prem r) -> In (inst sigma a) S) -> In c (r_concl r) -> In (inst sigma c) (rule_step r S).
Proof.
  intros r S sigma c Hwf Hsat Hc. destruct (wf_rule_vars r Hwf) as [_ Hv].
  destruct (match_srcs_complete sigma (map (fun a => (a, S)) (r_prem r))) as [s' [Hs' Hval]].
  { intros a Fs Hin. apply in_map_iff in Hin. destruct Hin as [a' [Ha' Hin]]. inversion Ha'; subst. apply Hsat. exact Hin. }
  unfold rule_step. apply in_flat_map. exists s'. split; [exact Hs'|].
  unfold conclusions. apply in_map_iff. exists c. split; [|exact Hc].
  apply inst_ext. intros v Hvc. destruct (Hv c v Hc Hvc) as [a [Ha Hva]].
  apply (Hval a S); [|exact Hva]. apply in_map_iff. exists a. split; [reflexivity | exact Ha].
Qed.

(* ------------------------------------------------------------------ the semi-naive variants *)
Lemma variants_srcs_incl : forall todo done Nw Od srcs, In srcs (variants done todo Nw Od) ->
  forall a Fs, In (a, Fs) srcs -> In a (done ++ todo) /\ (forall x, In x Fs -> In x (Nw ++ Od)).
Proof.
  induction todo as [|b rest IH]; intros done Nw Od srcs H a Fs Hin; cbn [variants] in H; [contradiction|].
  destruct H as [H|H].
  - subst srcs. apply in_app_iff in Hin. destruct Hin as [Hin|[Hin|Hin]].
    + apply in_map_iff in Hin. destruct Hin as [a' [E Hin]]. inversion E; subst. split.
      * apply in_app_iff. left. exact Hin.
      * intros x Hx. apply in_app_iff. right. exact Hx.
    + inversion Hin; subst. split.
      * apply in_app_iff. right. left. reflexivity.
      * intros x Hx. apply in_app_iff. left. exact Hx.
    + apply in_map_iff in Hin. destruct Hin as [a' [E Hin]]. inversion E; subst. split.
      * apply in_app_iff. right. right. exact Hin.
      * intros x Hx. exact Hx.
  - destruct (IH _ _ _ _ H a Fs Hin) as [H1 H2]. split; [|exact H2].
    rewrite <- app_assoc in H1. exact H1.
Qed.

Lemma variants_split : forall todo done Nw Od pre a post, todo = pre ++ a :: post ->
  In (map (fun b => (b, Od)) (done ++ pre) ++ (a, Nw) :: map (fun b => (b, Nw ++ Od)) post) (variants done todo Nw Od).
Proof.
  induction todo as [|b rest IH]; intros done Nw Od pre a post E.
  - destruct pre; discriminate.
  - destruct pre as [|b' pre]; cbn [app] in E; inversion E; subst.
    + cbn [variants]. left. rewrite app_nil_r. reflexivity.
    + cbn [variants]. right. specialize (IH (done ++ [b']) Nw Od pre a post eq_refl).
      rewrite <- app_assoc in IH. exact IH.
Qed.

Lemma first_such : forall (l : list atom) (P : atom -> bool), (exists a, In a l /\ P a = true) ->
  exists pre a post, l = pre ++ a :: post /\ P a = true /\ forall b, In b pre -> P b = false.
Proof.
  induction l as [|x l IH]; intros P [a [Ha HP]]; [contradiction|].
  destruct (P x) eqn:Ex.
  - exists [], x, l. split; [reflexivity|]. split; [exact Ex|]. intros b [].
  - destruct Ha as [Ha|Ha]; [subst; congruence|].
    destruct (IH P (ex_intro _ a (conj Ha HP))) as [pre [a' [post [E [HP' Hpre]]]]].
    exists (x :: pre), a', post. split; [cbn [app]; f_equal; exact E|]. split; [exact HP'|].
    intros b [Hb|Hb]; [subst; exact Ex | apply Hpre; exact Hb].
Qed.

Lemma fire_rule_sound : forall r Nw Od t, In t (fire_rule r Nw Od) ->
  exists sigma, (forall a, In a (r_prem r) -> In (inst sigma a) (Nw ++ Od)) /\ exists c, In c (r_concl r) /\ t = inst sigma c.
Proof.
  intros r Nw Od t H. unfold fire_rule in H. apply in_flat_map in H. destruct H as [srcs [Hsrcs H]].
  apply in_flat_map in H. destruct H as [s [Hs Ht]].
  unfold conclusions in Ht. apply in_map_iff in Ht. destruct Ht as [c [Hc Hin]].
  exists (val_of s). split; [|exists c; split; [exact Hin | symmetry; exact Hc]].
  (* every premise atom occurs in every variant *)
  assert (Hall : forall todo done srcs, In srcs (variants done todo Nw Od) -> forall a, In a (done ++ todo) -> exists Fs, In (a, Fs) srcs).
  { induction todo as [|b rest IH]; intros done srcs' H' a Ha; cbn [variants] in H'; [contradiction|].
    destruct H' as [H'|H'].
    - subst srcs'. apply in_app_iff in Ha. destruct Ha as [Ha|[Ha|Ha]].
      + exists Od. apply in_app_iff. left. apply in_map_iff. exists a. split; [reflexivity | exact Ha].
      + subst b. exists Nw. apply in_app_iff. right. left. reflexivity.
      + exists (Nw ++ Od). apply in_app_iff. right. right. apply in_map_iff. exists a. split; [reflexivity | exact Ha].
    - apply (IH _ _ H'). rewrite <- app_assoc. exact Ha. }
  intros a Ha. destruct (Hall _ _ _ Hsrcs a Ha) as [Fs HFs].
  destruct (variants_srcs_incl _ _ _ _ _ Hsrcs a Fs HFs) as [_ Hincl].
  apply Hincl. apply (match_srcs_sound _ _ Hs a Fs HFs).
Qed.

Lemma fire_rule_complete : forall r Nw Od sigma c, wf_rule r = true ->
  (forall a, In a (r_prem r) -> In (inst sigma a) (Nw ++ Od)) ->
  (exists a, In a (r_prem r) /\ In (inst sigma a) Nw) ->
  In c (r_concl r) -> In (inst sigma c) (fire_rule r Nw Od).
Proof.
  intros r Nw Od sigma c Hwf Hsat Hnew Hc. destruct (wf_rule_vars r Hwf) as [_ Hv].
  destruct (first_such (r_prem r) (fun a => mem (inst sigma a) Nw)) as [pre [a [post [E [Ha Hpre]]]]].
  { destruct Hnew as [a [Ha Hin]]. exists a. split; [exact Ha | apply mem_In; exact Hin]. }
  set (srcs := map (fun b => (b, Od)) ([] ++ pre) ++ (a, Nw) :: map (fun b => (b, Nw ++ Od)) post).
  assert (Hsrcs : In srcs (variants [] (r_prem r) Nw Od)) by (apply variants_split; exact E).
  destruct (match_srcs_complete sigma srcs) as [s' [Hs' Hval]].
  { intros b Fb Hin. unfold srcs in Hin. cbn [app] in Hin. apply in_app_iff in Hin. destruct Hin as [Hin|[Hin|Hin]].
    - apply in_map_iff in Hin. destruct Hin as [b' [E' Hin]]. inversion E'; subst b' Fb.
      assert (Hb : In (inst sigma b) (Nw ++ Od)) by (apply Hsat; rewrite E; apply in_app_iff; left; exact Hin).
      apply in_app_iff in Hb. destruct Hb as [Hb|Hb]; [|exact Hb].
      apply mem_In in Hb. rewrite (Hpre b Hin) in Hb. discriminate.
    - inversion Hin; subst b Fb. apply mem_In. exact Ha.
    - apply in_map_iff in Hin. destruct Hin as [b' [E' Hin]]. inversion E'; subst b' Fb.
      apply Hsat. rewrite E. apply in_app_iff. right. right. exact Hin. }
  unfold fire_rule. apply in_flat_map. exists srcs. split; [exact Hsrcs|].
  apply in_flat_map. exists s'. split; [exact Hs'|].
  unfold conclusions. apply in_map_iff. exists c. split; [|exact Hc].
  apply inst_ext. intros v Hvc. destruct (Hv c v Hc Hvc) as [b [Hb Hvb]].
  assert (Hbs : exists Fb, In (b, Fb) srcs).
  { rewrite E in Hb. unfold srcs. cbn [app]. apply in_app_iff in Hb. destruct Hb as [Hb|[Hb|Hb]].
    - exists Od. apply in_app_iff. left. apply in_map_iff. exists b. split; [reflexivity | exact Hb].
    - subst b. exists Nw. apply in_app_iff. right. left. reflexivity.
    - exists (Nw ++ Od). apply in_app_iff. right. right. apply in_map_iff. exists b. split; [reflexivity | exact Hb]. }
  destruct Hbs as [Fb HFb]. apply (Hval b Fb HFb v Hvb).
Qed.
