(* Finite sets of facts as lists: membership, add_all, remove_all, lengths. *)
From Coq Require Import List NArith Bool Lia.
From Members Require Import Model.
Import ListNotations.
Open Scope N_scope.

Lemma tuple_eqb_eq : forall a b, tuple_eqb a b = true <-> a = b.
Proof.
  induction a as [|x a IH]; intros [|y b]; cbn [tuple_eqb]; split; intro H; try reflexivity; try discriminate.
  - apply andb_true_iff in H. destruct H as [H1 H2]. apply N.eqb_eq in H1. apply IH in H2. subst. reflexivity.
  - inversion H; subst. apply andb_true_iff. split; [apply N.eqb_refl | apply IH; reflexivity].
Qed.

Lemma fact_eqb_eq : forall a b, fact_eqb a b = true <-> a = b.
Proof.
  intros [r xs] [r' ys]. unfold fact_eqb. cbn [fst snd]. split; intro H.
  - apply andb_true_iff in H. destruct H as [H1 H2]. apply N.eqb_eq in H1. apply tuple_eqb_eq in H2. subst. reflexivity.
  - inversion H; subst. apply andb_true_iff. split; [apply N.eqb_refl | apply tuple_eqb_eq; reflexivity].
Qed.

Lemma fact_eq_dec : forall a b : fact, {a = b} + {a <> b}.
Proof.
  intros a b. destruct (fact_eqb a b) eqn:E.
  - left. apply fact_eqb_eq. exact E.
  - right. intro H. apply fact_eqb_eq in H. congruence.
Qed.

Lemma mem_In : forall t S, mem t S = true <-> In t S.
Proof.
  intros t S. unfold mem. rewrite existsb_exists. split.
  - intros [x [Hx He]]. apply fact_eqb_eq in He. subst. exact Hx.
  - intro H. exists t. split; [exact H | apply fact_eqb_eq; reflexivity].
Qed.

Lemma mem_false : forall t S, mem t S = false <-> ~ In t S.
Proof.
  intros t S. split.
  - intros H Hin. apply mem_In in Hin. congruence.
  - intro H. destruct (mem t S) eqn:E; [|reflexivity]. apply mem_In in E. contradiction.
Qed.

Lemma In_add_fact : forall x t S, In x (add_fact t S) <-> In x S \/ x = t.
Proof.
  intros x t S. unfold add_fact. destruct (mem t S) eqn:E.
  - split; [intro H; left; exact H|]. intros [H|H]; [exact H|]. subst. apply mem_In. exact E.
  - rewrite in_app_iff. cbn [In]. split.
    + intros [H|[H|[]]]; [left; exact H | right; symmetry; exact H].
    + intros [H|H]; [left; exact H | right; left; symmetry; exact H].
Qed.

Lemma In_add_all : forall l x S, In x (add_all l S) <-> In x S \/ In x l.
Proof.
  unfold add_all. induction l as [|t l IH]; intros x S; cbn [fold_left In].
  - tauto.
  - rewrite IH. rewrite In_add_fact. split.
    + intros [[H|H]|H]; [left; exact H | right; left; symmetry; exact H | right; right; exact H].
    + intros [H|[H|H]]; [left; left; exact H | left; right; symmetry; exact H | right; exact H].
Qed.

Lemma In_remove_all : forall l x S, In x (remove_all l S) <-> In x S /\ ~ In x l.
Proof.
  intros l x S. unfold remove_all. rewrite filter_In. rewrite negb_true_iff. rewrite mem_false. tauto.
Qed.

Lemma length_add_fact : forall t S, (length S <= length (add_fact t S))%nat.
Proof.
  intros t S. unfold add_fact. destruct (mem t S); [lia|]. rewrite app_length. cbn [length]. lia.
Qed.

Lemma length_add_all : forall l S, (length S <= length (add_all l S))%nat.
Proof.
  unfold add_all. induction l as [|t l IH]; intro S; cbn [fold_left]; [lia|].
  specialize (IH (add_fact t S)). pose proof (length_add_fact t S). lia.
Qed.

(* add_all does not grow the list iff everything was already there *)
Lemma add_all_same_length : forall l S, length (add_all l S) = length S -> forall x, In x l -> In x S.
Proof.
  unfold add_all. induction l as [|t l IH]; intros S Hlen x Hx; cbn [fold_left In] in *; [contradiction|].
  pose proof (length_add_all l (add_fact t S)) as H1. unfold add_all in H1.
  pose proof (length_add_fact t S) as H2.
  assert (Hl : length (add_fact t S) = length S) by lia.
  assert (Ht : In t S).
  { unfold add_fact in Hl. destruct (mem t S) eqn:E; [apply mem_In; exact E|].
    rewrite app_length in Hl. cbn [length] in Hl. lia. }
  destruct Hx as [Hx|Hx]; [subst; exact Ht|].
  assert (Hin : In x (add_fact t S)).
  { apply IH; [|exact Hx]. rewrite Hlen. symmetry. exact Hl. }
  apply In_add_fact in Hin. destruct Hin as [Hin|Hin]; [exact Hin | subst; exact Ht].
Qed.

Lemma add_all_fix : forall l S, (forall x, In x l -> In x S) -> add_all l S = S.
Proof.
  unfold add_all. induction l as [|t l IH]; intros S H; cbn [fold_left]; [reflexivity|].
  assert (Ht : add_fact t S = S).
  { unfold add_fact. assert (E : mem t S = true) by (apply mem_In; apply H; left; reflexivity). rewrite E. reflexivity. }
  rewrite Ht. apply IH. intros x Hx. apply H. right. exact Hx.
Qed.

Definition incl_f (A B : list fact) : Prop := forall x, In x A -> In x B.
Definition equiv_f (A B : list fact) : Prop := forall x, In x A <-> In x B.

Lemma is_nil_true : forall {A} (l : list A), is_nil l = true <-> l = [].
Proof. intros A [|x l]; cbn; split; intro H; try reflexivity; discriminate. Qed.
