(* The faithful model of the emitted loop: invariant of the loop and of the calls between closes, under the side
   condition that the set of morphisms does not change while old member tuples exist. *)
From Coq Require Import List NArith Bool Lia.
From Members Require Import Model FactsBasic FactsMatch FactsSpec FactsTopo.
Import ListNotations.
Open Scope N_scope.

Definition mems (p : mprogram) (t : fact) : bool := is_member p (fst t).

(* dom and cod are not member relations (they are global functions of the morphism type) *)
Definition wf_members (p : mprogram) : bool := negb (is_member p rel_dom) && negb (is_member p rel_cod).
Definition is_mor (t : fact) : bool := N.eqb (fst t) rel_dom || N.eqb (fst t) rel_cod.
Definition no_mor_concl (p : mprogram) : Prop :=
  forall rl c, In rl (mp_rules p) -> In c (r_concl rl) -> is_mor (inst (fun _ => 0) c) = false.

(* ------------------------------------------------------------------ insertion *)
Record ins_spec (p : mprogram) (l : list fact) (a b : fstate) : Prop := {
  is_g_old : g_old b = g_old a;
  is_own_old : own_old b = own_old a;
  is_all_old : all_old b = all_old a;
  is_g_new_mono : incl_f (g_new a) (g_new b);
  is_own_new_mono : incl_f (own_new a) (own_new b);
  is_all_new_mono : incl_f (all_new a) (all_new b);
  is_g_new : forall x, In x (g_new b) -> In x (g_new a) \/ (In x l /\ mems p x = false);
  is_own_new : forall x, In x (own_new b) -> In x (own_new a) \/ (In x l /\ mems p x = true);
  is_all_new : forall x, In x (all_new b) -> In x (all_new a) \/ In x (own_new b);
  is_in_m : forall x, In x l -> mems p x = true -> In x (all_new b) \/ In x (all_old b);
  is_in_g : forall x, In x l -> mems p x = false -> In x (g_new b) \/ In x (g_old b) }.

Lemma ins_spec_nil : forall p a, ins_spec p [] a a.
Proof.
  intros p a. constructor; try reflexivity; try (intros x Hx; exact Hx); try (intros x Hx; left; exact Hx);
    intros x [].
Qed.

Lemma ins_spec_one : forall p a t, ins_spec p [t] a (f_insert p a t).
Proof.
  intros p a t. unfold f_insert. fold (mems p t). destruct (mems p t) eqn:Em.
  - destruct (mem t (all_new a) || mem t (all_old a)) eqn:Ec.
    + constructor; try reflexivity; try (intros x Hx; exact Hx); try (intros x Hx; left; exact Hx).
      * intros x [Hx|[]] _. subst x. apply orb_true_iff in Ec. destruct Ec as [Ec|Ec]; apply mem_In in Ec; tauto.
      * intros x [Hx|[]] Hm. subst x. congruence.
    + constructor; cbn [g_new g_old own_new own_old all_new all_old]; try reflexivity;
        try (intros x Hx; exact Hx); try (intros x Hx; apply in_app_iff; left; exact Hx).
      * intros x Hx. left. exact Hx.
      * intros x Hx. apply in_app_iff in Hx. destruct Hx as [Hx|[Hx|[]]]; [left; exact Hx|].
        subst x. right. split; [left; reflexivity | exact Em].
      * intros x Hx. apply in_app_iff in Hx. destruct Hx as [Hx|[Hx|[]]]; [left; exact Hx|].
        subst x. right. apply in_app_iff. right. left. reflexivity.
      * intros x [Hx|[]] _. subst x. left. apply in_app_iff. right. left. reflexivity.
      * intros x [Hx|[]] Hm. subst x. congruence.
  - destruct (mem t (g_new a) || mem t (g_old a)) eqn:Ec.
    + constructor; try reflexivity; try (intros x Hx; exact Hx); try (intros x Hx; left; exact Hx).
      * intros x [Hx|[]] Hm. subst x. congruence.
      * intros x [Hx|[]] _. subst x. apply orb_true_iff in Ec. destruct Ec as [Ec|Ec]; apply mem_In in Ec; tauto.
    + constructor; cbn [g_new g_old own_new own_old all_new all_old]; try reflexivity;
        try (intros x Hx; exact Hx); try (intros x Hx; apply in_app_iff; left; exact Hx).
      * intros x Hx. apply in_app_iff in Hx. destruct Hx as [Hx|[Hx|[]]]; [left; exact Hx|].
        subst x. right. split; [left; reflexivity | exact Em].
      * intros x Hx. left. exact Hx.
      * intros x Hx. left. exact Hx.
      * intros x [Hx|[]] Hm. subst x. congruence.
      * intros x [Hx|[]] _. subst x. left. apply in_app_iff. right. left. reflexivity.
Qed.

Lemma ins_spec_trans : forall p l1 l2 a b c, ins_spec p l1 a b -> ins_spec p l2 b c -> ins_spec p (l1 ++ l2) a c.
Proof.
  intros p l1 l2 a b c [A1 A2 A3 A4 A5 A6 A7 A8 A9 A10 A11] [B1 B2 B3 B4 B5 B6 B7 B8 B9 B10 B11]. constructor.
  - congruence.
  - congruence.
  - congruence.
  - intros x Hx. apply B4. apply A4. exact Hx.
  - intros x Hx. apply B5. apply A5. exact Hx.
  - intros x Hx. apply B6. apply A6. exact Hx.
  - intros x Hx. destruct (B7 x Hx) as [H|[H Hm]].
    + destruct (A7 x H) as [H'|[H' Hm]]; [left; exact H' | right; split; [apply in_app_iff; left; exact H' | exact Hm]].
    + right. split; [apply in_app_iff; right; exact H | exact Hm].
  - intros x Hx. destruct (B8 x Hx) as [H|[H Hm]].
    + destruct (A8 x H) as [H'|[H' Hm]]; [left; exact H' | right; split; [apply in_app_iff; left; exact H' | exact Hm]].
    + right. split; [apply in_app_iff; right; exact H | exact Hm].
  - intros x Hx. destruct (B9 x Hx) as [H|H]; [|right; exact H].
    destruct (A9 x H) as [H'|H']; [left; exact H' | right; apply B5; exact H'].
  - intros x Hx Hm. apply in_app_iff in Hx. destruct Hx as [Hx|Hx].
    + destruct (A10 x Hx Hm) as [H|H]; [left; apply B6; exact H | right; rewrite B3; exact H].
    + apply B10; assumption.
  - intros x Hx Hm. apply in_app_iff in Hx. destruct Hx as [Hx|Hx].
    + destruct (A11 x Hx Hm) as [H|H]; [left; apply B4; exact H | right; rewrite B1; exact H].
    + apply B11; assumption.
Qed.

Lemma ins_spec_fold : forall p l a, ins_spec p l a (fold_left (f_insert p) l a).
Proof.
  intros p. induction l as [|t l IH]; intro a; cbn [fold_left]; [apply ins_spec_nil|].
  change (t :: l) with ([t] ++ l). eapply ins_spec_trans; [apply ins_spec_one | apply IH].
Qed.

(* ------------------------------------------------------------------ the invariant *)
Definition stored (st : fstate) (t : fact) : Prop :=
  In t (g_new st) \/ In t (g_old st) \/ In t (own_new st) \/ In t (own_old st) \/ In t (all_new st) \/ In t (all_old st).

Record Inv (p : mprogram) (F : list fact) (st : fstate) : Prop := {
  inv_sound : forall t, stored st t -> Derivable p F t;
  inv_old_closed : forall rl sigma c, In rl (mp_rules p) -> (forall a, In a (r_prem rl) -> In (inst sigma a) (old_of st)) ->
                   In c (r_concl rl) -> In (inst sigma c) (f_visible st);
  inv_old_edges : forall d c r xs, In (d, c) (f_edges st) -> In (r, d :: xs) (all_old st) -> In (r, c :: xs) (all_old st);
  inv_old_regen : forall x, In x (all_old st) -> Reach (own_old st) (f_edges st) x;
  inv_new_regen : forall x, In x (all_new st) -> Reach (own_new st) (f_edges st) x;
  inv_own_old : incl_f (own_old st) (all_old st);
  inv_own_new : incl_f (own_new st) (all_new st);
  inv_facts : incl_f F (f_visible st);
  inv_route_g : forall t, In t (g_new st) \/ In t (g_old st) -> mems p t = false;
  inv_route_m : forall t, In t (own_new st) \/ In t (own_old st) \/ In t (all_new st) \/ In t (all_old st) -> mems p t = true }.

Definition LoopHead (p : mprogram) (F : list fact) (st : fstate) : Prop :=
  Inv p F st /\ forall d c r xs, In (d, c) (f_edges st) -> In (r, d :: xs) (all_new st) -> In (r, c :: xs) (all_new st).

Lemma In_visible : forall st t, In t (f_visible st) <->
  In t (g_new st) \/ In t (g_old st) \/ In t (all_new st) \/ In t (all_old st).
Proof. intros st t. unfold f_visible. rewrite !in_app_iff. tauto. Qed.

Lemma Reach_rel : forall own E x, Reach own E x -> exists y, In y own /\ fst y = fst x.
Proof.
  intros own E x H. induction H as [t Hin | r d c xs _ _ IH]; [exists t; split; [exact Hin | reflexivity]|].
  destruct IH as [y [Hy Hf]]. exists y. split; [exact Hy | exact Hf].
Qed.

Lemma Reach_nil : forall E x, ~ Reach [] E x.
Proof. intros E x H. destruct (Reach_rel _ _ _ H) as [y [[] _]]. Qed.

Lemma Reach_derivable : forall p F own G x,
  (forall t, In t own -> Derivable p F t /\ mems p t = true) -> (forall t, In t G -> Derivable p F t) ->
  Reach own (edges G) x -> Derivable p F x.
Proof.
  intros p F own G x Ho HG H. induction H as [t Hin | r d c xs Hdc Hr IH]; [apply Ho; exact Hin|].
  apply In_edges in Hdc. destruct Hdc as [f [Hd Hc]].
  destruct (Reach_rel _ _ _ Hr) as [y [Hy Hf]]. cbn [fst] in Hf.
  eapply D_inherit; [|exact IH | apply HG; exact Hd | apply HG; exact Hc].
  destruct (Ho y Hy) as [_ Hm]. unfold mems in Hm. rewrite Hf in Hm. exact Hm.
Qed.

(* ------------------------------------------------------------------ recompute *)
Record rec_spec (a b : fstate) : Prop := {
  rs_g_new : g_new b = g_new a;
  rs_g_old : g_old b = g_old a;
  rs_all_new : forall x, In x (all_new b) <-> Reach (own_new a) (f_edges a) x;
  rs_all_old : forall x, In x (all_old b) <-> Reach (own_old a) (f_edges a) x;
  rs_regen_new : forall x, In x (all_new b) -> Reach (own_new b) (f_edges a) x;
  rs_regen_old : forall x, In x (all_old b) -> Reach (own_old b) (f_edges a) x;
  rs_own_new : incl_f (own_new b) (own_new a);
  rs_own_old : incl_f (own_old b) (own_old a);
  rs_own_all_new : incl_f (own_new b) (all_new b);
  rs_own_all_old : incl_f (own_old b) (all_old b) }.

Lemma f_recompute_spec : forall a b, f_recompute a = Some b -> rec_spec a b.
Proof.
  intros a b H. unfold f_recompute in H.
  destruct (toposort (length (f_edges a)) (f_edges a)) as [order|] eqn:Et; [|discriminate].
  destruct (toposort_valid _ _ _ Et) as [Hv Hin].
  pose proof (recompute_age_spec order (own_new a) Hv) as [N1 [N2 [N3 N4]]].
  pose proof (recompute_age_spec order (own_old a) Hv) as [O1 [O2 [O3 O4]]].
  inversion H; subst b; clear H.
  assert (To : forall own x, Reach own order x -> Reach own (f_edges a) x).
  { intros own x. apply Reach_mono; [intros y Hy; exact Hy | intros e He; apply Hin; exact He]. }
  assert (From : forall own x, Reach own (f_edges a) x -> Reach own order x).
  { intros own x. apply Reach_mono; [intros y Hy; exact Hy | intros e He; apply Hin; exact He]. }
  constructor; cbn [g_new g_old own_new own_old all_new all_old]; try reflexivity.
  - intro x. rewrite N1. split; [apply To | apply From].
  - intro x. rewrite O1. split; [apply To | apply From].
  - intros x Hx. apply To. apply N2. exact Hx.
  - intros x Hx. apply To. apply O2. exact Hx.
  - exact N3.
  - exact O3.
  - exact N4.
  - exact O4.
Qed.

Lemma rec_edges : forall a b, rec_spec a b -> f_edges b = f_edges a.
Proof. intros a b H. unfold f_edges. rewrite (rs_g_new _ _ H). rewrite (rs_g_old _ _ H). reflexivity. Qed.

(* recompute at the start of a close: from the between-calls invariant to the loop-head invariant *)
Lemma recompute_inv : forall p F a b, Inv p F a -> f_recompute a = Some b -> LoopHead p F b.
Proof.
  intros p F a b HI Hr. pose proof (f_recompute_spec _ _ Hr) as R. pose proof (rec_edges _ _ R) as HE.
  destruct HI as [I1 I2 I3 I4 I5 I6 I7 I8 I9 I10].
  assert (Hold : incl_f (all_old b) (all_old a)).
  { intros x Hx. apply (rs_all_old _ _ R) in Hx. induction Hx as [t Hin | r d c xs Hdc _ IH]; [apply I6; exact Hin|].
    eapply I3; eassumption. }
  assert (Hnew_mono : incl_f (all_new a) (all_new b)) by (intros x Hx; apply (rs_all_new _ _ R); apply I5; exact Hx).
  assert (Hold_mono : incl_f (all_old a) (all_old b)) by (intros x Hx; apply (rs_all_old _ _ R); apply I4; exact Hx).
  assert (Hvis : incl_f (f_visible a) (f_visible b)).
  { intros x Hx. apply In_visible in Hx. apply In_visible. rewrite (rs_g_new _ _ R), (rs_g_old _ _ R).
    destruct Hx as [Hx|[Hx|[Hx|Hx]]]; [tauto | tauto | right; right; left; apply Hnew_mono; exact Hx | right; right; right; apply Hold_mono; exact Hx]. }
  assert (Hown_m : forall t, In t (own_new a) \/ In t (own_old a) -> Derivable p F t /\ mems p t = true).
  { intros t Ht. split; [apply I1; unfold stored; tauto | apply I10; tauto]. }
  assert (HG : forall t, In t (g_new a ++ g_old a) -> Derivable p F t).
  { intros t Ht. apply in_app_iff in Ht. apply I1. unfold stored. tauto. }
  split; [constructor|].
  - intros t Ht. unfold stored in Ht. rewrite (rs_g_new _ _ R), (rs_g_old _ _ R) in Ht.
    destruct Ht as [Ht|[Ht|[Ht|[Ht|[Ht|Ht]]]]].
    + apply I1. unfold stored. tauto.
    + apply I1. unfold stored. tauto.
    + apply I1. apply (rs_own_new _ _ R) in Ht. unfold stored. tauto.
    + apply I1. apply (rs_own_old _ _ R) in Ht. unfold stored. tauto.
    + apply (rs_all_new _ _ R) in Ht. eapply Reach_derivable; [| exact HG | exact Ht]. intros y Hy. apply Hown_m. tauto.
    + apply (rs_all_old _ _ R) in Ht. eapply Reach_derivable; [| exact HG | exact Ht]. intros y Hy. apply Hown_m. tauto.
  - intros rl sigma c Hrl Hsat Hc. apply Hvis. eapply I2; [exact Hrl | | exact Hc].
    intros x Hx. specialize (Hsat x Hx). unfold old_of in *. rewrite (rs_g_old _ _ R) in Hsat.
    apply in_app_iff in Hsat. apply in_app_iff. destruct Hsat as [Hsat|Hsat]; [left; exact Hsat | right; apply Hold; exact Hsat].
  - intros d c r xs Hdc Hin. rewrite HE in Hdc. apply (rs_all_old _ _ R). eapply R_edge; [exact Hdc|].
    apply (rs_all_old _ _ R). exact Hin.
  - intros x Hx. rewrite HE. apply (rs_regen_old _ _ R). exact Hx.
  - intros x Hx. rewrite HE. apply (rs_regen_new _ _ R). exact Hx.
  - exact (rs_own_all_old _ _ R).
  - exact (rs_own_all_new _ _ R).
  - intros x Hx. apply Hvis. apply I8. exact Hx.
  - intros t Ht. apply I9. rewrite (rs_g_new _ _ R), (rs_g_old _ _ R) in Ht. exact Ht.
  - intros t Ht.
    assert (Hr2 : forall own x, (forall y, In y own -> mems p y = true) -> Reach own (f_edges a) x -> mems p x = true).
    { intros own x Ho Hx. destruct (Reach_rel _ _ _ Hx) as [y [Hy Hf]]. unfold mems. rewrite <- Hf. apply Ho. exact Hy. }
    destruct Ht as [Ht|[Ht|[Ht|Ht]]].
    + apply I10. left. apply (rs_own_new _ _ R). exact Ht.
    + apply I10. right. left. apply (rs_own_old _ _ R). exact Ht.
    + apply (rs_all_new _ _ R) in Ht. eapply Hr2; [|exact Ht]. intros y Hy. apply I10. tauto.
    + apply (rs_all_old _ _ R) in Ht. eapply Hr2; [|exact Ht]. intros y Hy. apply I10. tauto.
  - intros d c r xs Hdc Hin. rewrite HE in Hdc. apply (rs_all_new _ _ R). eapply R_edge; [exact Hdc|].
    apply (rs_all_new _ _ R). exact Hin.
Qed.

(* ------------------------------------------------------------------ one iteration of the loop *)
Lemma In_f_fire : forall p st t, In t (f_fire p st) -> exists rl, In rl (mp_rules p) /\ In t (fire_rule rl (new_of st) (old_of st)).
Proof. intros p st t H. unfold f_fire in H. apply in_flat_map in H. exact H. Qed.

Lemma new_old_visible : forall st x, In x (new_of st ++ old_of st) <-> In x (f_visible st).
Proof. intros st x. unfold new_of, old_of, f_visible. rewrite !in_app_iff. tauto. Qed.

Lemma is_mor_inst : forall sigma tau c, is_mor (inst sigma c) = is_mor (inst tau c).
Proof. intros. unfold is_mor, inst. cbn [fst]. reflexivity. Qed.

Lemma iteration_inv : forall p F st st', wf_program p = true -> no_mor_concl p ->
  LoopHead p F st -> f_recompute (fold_left (f_insert p) (f_fire p st) (f_move st)) = Some st' -> LoopHead p F st'.
Proof.
  intros p F st st' Hwf Hnm [[I1 I2 I3 I4 I5 I6 I7 I8 I9 I10] I11] Hr.
  set (delta := f_fire p st) in *. set (st1 := f_move st) in *.
  set (st2 := fold_left (f_insert p) delta st1) in *.
  pose proof (ins_spec_fold p delta st1) as X. fold st2 in X.
  destruct X as [X1 X2 X3 X4 X5 X6 X7 X8 X9 X10 X11].
  pose proof (f_recompute_spec _ _ Hr) as R. pose proof (rec_edges _ _ R) as HE.
  (* the moved state *)
  assert (M_gold : forall x, In x (g_old st2) <-> In x (g_old st) \/ In x (g_new st)).
  { intro x. rewrite X1. unfold st1, f_move. cbn [g_old]. apply In_add_all. }
  assert (M_oold : forall x, In x (own_old st2) <-> In x (own_old st) \/ In x (own_new st)).
  { intro x. rewrite X2. unfold st1, f_move. cbn [own_old]. apply In_add_all. }
  assert (M_aold : forall x, In x (all_old st2) <-> In x (all_old st) \/ In x (own_new st)).
  { intro x. rewrite X3. unfold st1, f_move. cbn [all_old]. apply In_add_all. }
  assert (M_gnew : g_new st1 = []) by reflexivity.
  assert (M_onew : own_new st1 = []) by reflexivity.
  assert (M_anew : all_new st1 = all_new st) by reflexivity.
  (* the delta *)
  assert (Dl : forall t, In t delta -> Derivable p F t /\ is_mor t = false).
  { intros t Ht. apply In_f_fire in Ht. destruct Ht as [rl [Hrl Ht]]. apply fire_rule_sound in Ht.
    destruct Ht as [sigma [Hsat [c [Hc Et]]]]. subst t. split.
    - eapply D_rule; [exact Hrl | | exact Hc]. intros a Ha. apply I1. specialize (Hsat a Ha).
      apply new_old_visible in Hsat. apply In_visible in Hsat. unfold stored. tauto.
    - rewrite (is_mor_inst sigma (fun _ => 0)). eapply Hnm; eassumption. }
  assert (G2 : forall x, In x (g_new st2 ++ g_old st2) -> In x (g_new st ++ g_old st) \/ (In x delta /\ mems p x = false)).
  { intros x Hx. apply in_app_iff in Hx. destruct Hx as [Hx|Hx].
    - destruct (X7 x Hx) as [H|H]; [rewrite M_gnew in H; contradiction | right; exact H].
    - left. apply in_app_iff. apply M_gold in Hx. tauto. }
  assert (G2' : forall x, In x (g_new st ++ g_old st) -> In x (g_new st2 ++ g_old st2)).
  { intros x Hx. apply in_app_iff in Hx. apply in_app_iff. right. apply M_gold. tauto. }
  assert (Edges : forall e, In e (f_edges st2) <-> In e (f_edges st)).
  { intros [d c]. unfold f_edges. rewrite !In_edges. split.
    - intros [f [Hd Hc]]. exists f. split.
      + destruct (G2 _ Hd) as [H|[H _]]; [exact H|]. destruct (Dl _ H) as [_ Hm]. discriminate Hm.
      + destruct (G2 _ Hc) as [H|[H _]]; [exact H|]. destruct (Dl _ H) as [_ Hm]. discriminate Hm.
    - intros [f [Hd Hc]]. exists f. split; apply G2'; assumption. }
  assert (Onew2 : forall x, In x (own_new st2) -> In x delta /\ mems p x = true).
  { intros x Hx. destruct (X8 x Hx) as [H|H]; [rewrite M_onew in H; contradiction | exact H]. }
  (* old tuples after the iteration were visible before it *)
  assert (Hold : forall x, In x (all_old st') -> In x (all_new st) \/ In x (all_old st)).
  { intros x Hx. apply (rs_all_old _ _ R) in Hx. induction Hx as [t Hin | r d c xs Hdc _ IH].
    - apply M_oold in Hin. destruct Hin as [Hin|Hin]; [right; apply I6; exact Hin | left; apply I7; exact Hin].
    - apply Edges in Hdc. destruct IH as [IH|IH]; [left; eapply I11; eassumption | right; eapply I3; eassumption]. }
  (* nothing that was visible is lost *)
  assert (Hkeep : forall x, In x (all_new st) \/ In x (all_old st) -> In x (all_old st')).
  { intros x Hx. apply (rs_all_old _ _ R). destruct Hx as [Hx|Hx].
    - eapply Reach_mono; [| | apply I5; exact Hx]; [intros y Hy; apply M_oold; tauto | intros e He; apply Edges; exact He].
    - eapply Reach_mono; [| | apply I4; exact Hx]; [intros y Hy; apply M_oold; tauto | intros e He; apply Edges; exact He]. }
  assert (Hvis : incl_f (f_visible st) (f_visible st')).
  { intros x Hx. apply In_visible in Hx. apply In_visible. rewrite (rs_g_old _ _ R).
    destruct Hx as [Hx|[Hx|[Hx|Hx]]].
    - right. left. apply M_gold. tauto.
    - right. left. apply M_gold. tauto.
    - right. right. right. apply Hkeep. tauto.
    - right. right. right. apply Hkeep. tauto. }
  assert (Hdelta : incl_f delta (f_visible st')).
  { intros x Hx. apply In_visible. destruct (mems p x) eqn:Em.
    - destruct (X10 x Hx Em) as [H|H].
      + destruct (X9 x H) as [H'|H'].
        * rewrite M_anew in H'. right. right. right. apply Hkeep. tauto.
        * right. right. left. apply (rs_all_new _ _ R). apply R_own. exact H'.
      + apply M_aold in H. right. right. right. destruct H as [H|H]; [apply Hkeep; tauto|].
        apply Hkeep. left. apply I7. exact H.
    - rewrite (rs_g_new _ _ R), (rs_g_old _ _ R). destruct (X11 x Hx Em); tauto. }
  assert (Hown2 : forall t, In t (own_new st2) \/ In t (own_old st2) -> Derivable p F t /\ mems p t = true).
  { intros t [Ht|Ht].
    - destruct (Onew2 t Ht) as [Hd Hm]. split; [apply Dl; exact Hd | exact Hm].
    - apply M_oold in Ht. split; [apply I1; unfold stored; tauto | apply I10; tauto]. }
  assert (HG : forall t, In t (g_new st2 ++ g_old st2) -> Derivable p F t).
  { intros t Ht. destruct (G2 t Ht) as [H|[H _]]; [|apply Dl; exact H].
    apply in_app_iff in H. apply I1. unfold stored. tauto. }
  split; [constructor|].
  - intros t Ht. unfold stored in Ht. rewrite (rs_g_new _ _ R), (rs_g_old _ _ R) in Ht.
    destruct Ht as [Ht|[Ht|[Ht|[Ht|[Ht|Ht]]]]].
    + apply HG. apply in_app_iff. tauto.
    + apply HG. apply in_app_iff. tauto.
    + apply Hown2. left. apply (rs_own_new _ _ R). exact Ht.
    + apply Hown2. right. apply (rs_own_old _ _ R). exact Ht.
    + apply (rs_all_new _ _ R) in Ht. eapply Reach_derivable; [| exact HG | exact Ht]. intros y Hy. apply Hown2. tauto.
    + apply (rs_all_old _ _ R) in Ht. eapply Reach_derivable; [| exact HG | exact Ht]. intros y Hy. apply Hown2. tauto.
  - (* old-closedness *)
    intros rl sigma c Hrl Hsat Hc.
    assert (Hsat' : forall a, In a (r_prem rl) -> In (inst sigma a) (new_of st ++ old_of st)).
    { intros a Ha. specialize (Hsat a Ha). apply new_old_visible. apply In_visible. unfold old_of in Hsat.
      rewrite (rs_g_old _ _ R) in Hsat. apply in_app_iff in Hsat. destruct Hsat as [Hsat|Hsat].
      - apply M_gold in Hsat. tauto.
      - apply Hold in Hsat. tauto. }
    destruct (existsb (fun a => mem (inst sigma a) (new_of st)) (r_prem rl)) eqn:Ex.
    + apply existsb_exists in Ex. destruct Ex as [a [Ha Hm]]. apply mem_In in Hm.
      apply Hdelta. unfold delta, f_fire. apply in_flat_map. exists rl. split; [exact Hrl|].
      apply fire_rule_complete; [eapply wf_program_rule; eassumption | exact Hsat' | exists a; tauto | exact Hc].
    + apply Hvis. eapply I2; [exact Hrl | | exact Hc]. intros a Ha. specialize (Hsat' a Ha).
      apply in_app_iff in Hsat'. destruct Hsat' as [Hn|Ho]; [|exact Ho]. exfalso.
      assert (Hf : existsb (fun a => mem (inst sigma a) (new_of st)) (r_prem rl) = true).
      { apply existsb_exists. exists a. split; [exact Ha | apply mem_In; exact Hn]. }
      congruence.
  - intros d c r xs Hdc Hin. rewrite HE in Hdc. apply (rs_all_old _ _ R). eapply R_edge; [exact Hdc|].
    apply (rs_all_old _ _ R). exact Hin.
  - intros x Hx. rewrite HE. apply (rs_regen_old _ _ R). exact Hx.
  - intros x Hx. rewrite HE. apply (rs_regen_new _ _ R). exact Hx.
  - exact (rs_own_all_old _ _ R).
  - exact (rs_own_all_new _ _ R).
  - intros x Hx. apply Hvis. apply I8. exact Hx.
  - intros t Ht. rewrite (rs_g_new _ _ R), (rs_g_old _ _ R) in Ht. destruct Ht as [Ht|Ht].
    + destruct (X7 t Ht) as [H|[_ H]]; [rewrite M_gnew in H; contradiction | exact H].
    + apply M_gold in Ht. apply I9. tauto.
  - intros t Ht.
    assert (Hr2 : forall own x, (forall y, In y own -> mems p y = true) -> Reach own (f_edges st2) x -> mems p x = true).
    { intros own x Ho Hx. destruct (Reach_rel _ _ _ Hx) as [y [Hy Hf]]. unfold mems. rewrite <- Hf. apply Ho. exact Hy. }
    destruct Ht as [Ht|[Ht|[Ht|Ht]]].
    + apply Hown2. left. apply (rs_own_new _ _ R). exact Ht.
    + apply Hown2. right. apply (rs_own_old _ _ R). exact Ht.
    + apply (rs_all_new _ _ R) in Ht. eapply Hr2; [|exact Ht]. intros y Hy. apply Hown2. tauto.
    + apply (rs_all_old _ _ R) in Ht. eapply Hr2; [|exact Ht]. intros y Hy. apply Hown2. tauto.
  - intros d c r xs Hdc Hin. rewrite HE in Hdc. apply (rs_all_new _ _ R). eapply R_edge; [exact Hdc|].
    apply (rs_all_new _ _ R). exact Hin.
Qed.

Lemma f_loop_inv : forall n p F st st', wf_program p = true -> no_mor_concl p ->
  LoopHead p F st -> f_loop n p st = Some st' -> LoopHead p F st' /\ f_dirty st' = false.
Proof.
  induction n as [|n IH]; intros p F st st' Hwf Hnm HL H; cbn [f_loop] in H; [discriminate|].
  destruct (f_recompute (fold_left (f_insert p) (f_fire p st) (f_move st))) as [st1|] eqn:Er; [|discriminate].
  pose proof (iteration_inv _ _ _ _ Hwf Hnm HL Er) as HL1.
  destruct (f_dirty st1) eqn:Ed.
  - eapply IH; eassumption.
  - inversion H; subst st'. split; assumption.
Qed.

(* a finished close: the visible facts are closed under the rules and inheritance, and all of them are derivable *)
Lemma clean_closed : forall p F st, wf_members p = true -> LoopHead p F st -> f_dirty st = false ->
  Closed p (f_visible st) /\ incl_f F (f_visible st) /\ (forall t, In t (f_visible st) -> Derivable p F t) /\
  g_new st = [] /\ own_new st = [] /\ all_new st = [].
Proof.
  intros p F st Hwm [[I1 I2 I3 I4 I5 I6 I7 I8 I9 I10] I11] Hd.
  unfold f_dirty in Hd. apply orb_false_iff in Hd. destruct Hd as [Hd1 Hd2].
  rewrite negb_false_iff in Hd1, Hd2. apply is_nil_true in Hd1. apply is_nil_true in Hd2.
  assert (Han : all_new st = []).
  { destruct (all_new st) as [|x l] eqn:E; [reflexivity|]. exfalso.
    assert (Hx : Reach (own_new st) (f_edges st) x) by (apply I5; left; reflexivity).
    rewrite Hd2 in Hx. eapply Reach_nil. exact Hx. }
  assert (Hvo : forall x, In x (f_visible st) <-> In x (old_of st)).
  { intro x. rewrite In_visible. unfold old_of. rewrite in_app_iff. rewrite Hd1, Han. cbn [In]. tauto. }
  unfold wf_members in Hwm. apply andb_true_iff in Hwm. destruct Hwm as [Hw1 Hw2]. rewrite negb_true_iff in Hw1, Hw2.
  split; [split|split; [exact I8 | split; [|tauto]]].
  - intros r f d c xs Hm Hin Hdm Hcd. apply In_visible. apply In_visible in Hin, Hdm, Hcd.
    rewrite Hd1, Han in *. cbn [In] in *.
    assert (Hg : forall t, In t (g_old st) -> mems p t = false) by (intros t Ht; apply I9; tauto).
    assert (Ha : forall t, In t (all_old st) -> mems p t = true) by (intros t Ht; apply I10; tauto).
    destruct Hin as [[]|[Hin|[[]|Hin]]]; [specialize (Hg _ Hin); unfold mems in Hg; cbn [fst] in Hg; congruence|].
    destruct Hdm as [[]|[Hdm|[[]|Hdm]]]; [|specialize (Ha _ Hdm); unfold mems in Ha; cbn [fst] in Ha; congruence].
    destruct Hcd as [[]|[Hcd|[[]|Hcd]]]; [|specialize (Ha _ Hcd); unfold mems in Ha; cbn [fst] in Ha; congruence].
    right. right. right. eapply I3; [|exact Hin]. unfold f_edges. apply In_edges. exists f.
    split; apply in_app_iff; right; assumption.
  - intros rl sigma c Hrl Hsat Hc. eapply I2; [exact Hrl | | exact Hc]. intros a Ha. apply Hvo. apply Hsat. exact Ha.
  - intros t Ht. apply I1. apply In_visible in Ht. unfold stored. tauto.
Qed.

(* ------------------------------------------------------------------ calls between closes *)
Lemma edges_add_non_mor : forall G t e, is_mor t = false -> In e (edges (G ++ [t])) -> In e (edges G).
Proof.
  intros G t [d c] Hm He. apply In_edges in He. destruct He as [f [Hd Hc]]. apply In_edges. exists f.
  apply in_app_iff in Hd. apply in_app_iff in Hc.
  destruct Hd as [Hd|[Hd|[]]]; [|subst t; discriminate Hm].
  destruct Hc as [Hc|[Hc|[]]]; [|subst t; unfold is_mor in Hm; cbn in Hm; discriminate Hm].
  split; assumption.
Qed.

(* asserting t completes no morphism whose domain model already holds an old member tuple *)
Definition no_old_transport (st : fstate) (t : fact) : Prop :=
  forall d c r xs, In (d, c) (edges ((g_new st ++ [t]) ++ g_old st)) -> ~ In (d, c) (edges (g_new st ++ g_old st)) ->
                   ~ In (r, d :: xs) (all_old st).

Lemma pair_dec : forall a b : N * N, {a = b} + {a <> b}.
Proof. decide equality; apply N.eq_dec. Qed.

Lemma insert_inv_gen : forall p F st t, Inv p F st -> no_old_transport st t ->
  Inv p (F ++ [t]) (f_insert p st t).
Proof.
  intros p F st t [I1 I2 I3 I4 I5 I6 I7 I8 I9 I10] Hside.
  assert (HF : forall x, Derivable p F x -> Derivable p (F ++ [t]) x).
  { apply Derivable_mono. intros y Hy. apply in_app_iff. left. exact Hy. }
  assert (Ht : Derivable p (F ++ [t]) t) by (apply D_base; apply in_app_iff; right; left; reflexivity).
  unfold f_insert. fold (mems p t). destruct (mems p t) eqn:Em.
  - destruct (mem t (all_new st) || mem t (all_old st)) eqn:Ec.
    + constructor; try assumption.
      * intros x Hx. apply HF. apply I1. exact Hx.
      * intros x Hx. apply in_app_iff in Hx. destruct Hx as [Hx|[Hx|[]]]; [apply I8; exact Hx|]. subst x.
        apply In_visible. apply orb_true_iff in Ec. destruct Ec as [Ec|Ec]; apply mem_In in Ec; tauto.
    + constructor; cbn [g_new g_old own_new own_old all_new all_old]; unfold f_edges, old_of, f_visible in *;
        cbn [g_new g_old own_new own_old all_new all_old] in *; try assumption.
      * intros x Hx. unfold stored in Hx. cbn [g_new g_old own_new own_old all_new all_old] in Hx.
        rewrite !in_app_iff in Hx. cbn [In] in Hx.
        destruct Hx as [Hx|[Hx|[[Hx|[Hx|[]]]|[Hx|[[Hx|[Hx|[]]]|Hx]]]]]; try (subst x; exact Ht); apply HF; apply I1; unfold stored; tauto.
      * intros rl sigma c Hrl Hsat Hc. specialize (I2 rl sigma c Hrl Hsat Hc). rewrite !in_app_iff in *. tauto.
      * intros x Hx. apply in_app_iff in Hx. destruct Hx as [Hx|[Hx|[]]].
        -- eapply Reach_mono; [| |apply I5; exact Hx]; [intros y Hy; apply in_app_iff; left; exact Hy | intros e He; exact He].
        -- subst x. apply R_own. apply in_app_iff. right. left. reflexivity.
      * intros x Hx. apply in_app_iff in Hx. apply in_app_iff. destruct Hx as [Hx|Hx]; [left; apply I7; exact Hx | right; exact Hx].
      * intros x Hx. rewrite !in_app_iff. cbn [In]. apply in_app_iff in Hx. destruct Hx as [Hx|[Hx|[]]]; [|tauto].
        specialize (I8 x Hx). rewrite !in_app_iff in I8. tauto.
      * intros x Hx. rewrite !in_app_iff in Hx. cbn [In] in Hx.
        destruct Hx as [[Hx|[Hx|[]]]|[Hx|[[Hx|[Hx|[]]]|Hx]]]; try (subst x; exact Em); apply I10; tauto.
  - destruct (mem t (g_new st) || mem t (g_old st)) eqn:Ec.
    + constructor; try assumption.
      * intros x Hx. apply HF. apply I1. exact Hx.
      * intros x Hx. apply in_app_iff in Hx. destruct Hx as [Hx|[Hx|[]]]; [apply I8; exact Hx|]. subst x.
        apply In_visible. apply orb_true_iff in Ec. destruct Ec as [Ec|Ec]; apply mem_In in Ec; tauto.
    + assert (Hmono : forall e, In e (edges (g_new st ++ g_old st)) -> In e (edges ((g_new st ++ [t]) ++ g_old st))).
      { apply edges_incl. intros y Hy. rewrite !in_app_iff in *. tauto. }
      constructor; cbn [g_new g_old own_new own_old all_new all_old]; unfold f_edges, old_of, f_visible in *;
        cbn [g_new g_old own_new own_old all_new all_old] in *; try assumption.
      * intros x Hx. unfold stored in Hx. cbn [g_new g_old own_new own_old all_new all_old] in Hx.
        rewrite !in_app_iff in Hx. cbn [In] in Hx.
        destruct Hx as [[Hx|[Hx|[]]]|Hx]; try (subst x; exact Ht); apply HF; apply I1; unfold stored; tauto.
      * intros rl sigma c Hrl Hsat Hc. specialize (I2 rl sigma c Hrl Hsat Hc). rewrite !in_app_iff in *. tauto.
      * intros d c r xs Hdc Hin. destruct (in_dec pair_dec (d, c) (edges (g_new st ++ g_old st))) as [He|He].
        -- eapply I3; eassumption.
        -- exfalso. eapply Hside; eassumption.
      * intros x Hx. eapply Reach_mono; [| |apply I4; exact Hx]; [intros y Hy; exact Hy | exact Hmono].
      * intros x Hx. eapply Reach_mono; [| |apply I5; exact Hx]; [intros y Hy; exact Hy | exact Hmono].
      * intros x Hx. rewrite !in_app_iff. cbn [In]. apply in_app_iff in Hx. destruct Hx as [Hx|[Hx|[]]]; [|tauto].
        specialize (I8 x Hx). rewrite !in_app_iff in I8. tauto.
      * intros x Hx. rewrite !in_app_iff in Hx. cbn [In] in Hx.
        destruct Hx as [[Hx|[Hx|[]]]|Hx]; try (subst x; exact Em); apply I9; tauto.
Qed.

Lemma insert_inv : forall p F st t, Inv p F st -> (is_mor t = false \/ all_old st = []) ->
  Inv p (F ++ [t]) (f_insert p st t).
Proof.
  intros p F st t HI Hside. apply insert_inv_gen; [exact HI|]. intros d c r xs Hdc Hn Hin.
  destruct Hside as [Hside|Hside]; [|rewrite Hside in Hin; contradiction]. apply Hn.
  apply (edges_add_non_mor _ t); [exact Hside|].
  eapply edges_incl; [|exact Hdc]. intros y Hy. rewrite !in_app_iff in *. cbn [In]. tauto.
Qed.
