(* C17 - member relations are inherited along morphisms like ordinary facts.
   Specification model (least fixed point of rules + inheritance): C17_spec_lfp, C17_inherit_transitive,
   C17_inherit_only_along_paths, C17_spec_closed, C17_inherited_like_asserted, C17_spec_history_indep.
   Faithful model of the emitted loop: C17_recompute_inherit (what recompute_model_indices computes) and the same
   statements under the side condition early_morphisms (no rule concludes dom / cod, every dom / cod tuple is asserted
   before the first close): C17_partial, C17_*_partial.  The full statement C17_full is FALSE of the faithful model
   (finding F7): C17_full_refuted.
   A finer, state-dependent side condition is proved sufficient too: C17_partial_timely (Run.timely).
   Missing for the full strength of the partial part: (1) rules that conclude dom / cod are excluded by both side
   conditions; (2) the purely syntactic reading "every morphism (with dom and cod) precedes the first close after the
   facts it transports" is not shown to imply timely in Coq; checks/c17.py tests it on every generated history
   (gen/members_gen.late_transport: a disagreement without late_transport is a violation). *)
From Coq Require Import List NArith Bool.
From Members Require Import Model Run FactsBasic FactsMatch FactsSpec FactsTopo FactsFaithful FactsRun.
Import ListNotations.
Open Scope N_scope.

(* ---------------------------------------------------------------- specification model *)
Theorem C17_spec_lfp : forall n p F S, wf_program p = true -> chase n p F = Some S ->
  forall t, In t S <-> Derivable p F t.
Proof. exact spec_lfp. Qed.
Print Assumptions C17_spec_lfp.

Theorem C17_inherit_transitive : forall n p F S r m m' xs, wf_program p = true -> chase n p F = Some S ->
  is_member p r = true -> In (r, m :: xs) S -> path (edges S) m m' -> In (r, m' :: xs) S.
Proof. exact inherit_transitive. Qed.
Print Assumptions C17_inherit_transitive.

Theorem C17_inherit_only_along_paths : forall n p F S r m' xs, wf_program p = true -> chase n p F = Some S ->
  no_rule_concludes p r -> In (r, m' :: xs) S -> exists m, In (r, m :: xs) F /\ path (edges S) m m'.
Proof. exact inherit_only_along_paths. Qed.
Print Assumptions C17_inherit_only_along_paths.

Theorem C17_spec_closed : forall n p F S, wf_program p = true -> chase n p F = Some S -> Closed p S.
Proof. exact spec_closed. Qed.
Print Assumptions C17_spec_closed.

Theorem C17_inherited_like_asserted : forall n n' p F S S' t, wf_program p = true -> chase n p F = Some S -> In t S ->
  chase n' p (t :: F) = Some S' -> equiv_f S S'.
Proof. exact inherited_like_asserted. Qed.
Print Assumptions C17_inherited_like_asserted.

Theorem C17_spec_history_indep : forall n n' p h h' S S', wf_program p = true ->
  ends_with_close h -> ends_with_close h' -> equiv_f (facts_of h) (facts_of h') ->
  spec_run n p h [] = Some S -> spec_run n' p h' [] = Some S' -> equiv_f S S'.
Proof. exact spec_history_indep. Qed.
Print Assumptions C17_spec_history_indep.

(* `inherit` alone (fixed morphisms): the least fixed point pushing member tuples along morphisms is "own tuples moved
   along paths", i.e. what the emitted loop keeps in `all` (compare C17_recompute_inherit) *)
Theorem C17_inherit_spec : forall n p E S S', inherit n p E S = Some S' ->
  forall x, In x S' <-> In x S \/ Reach (filter (fun t => is_member p (fst t)) S) E x.
Proof. exact inherit_spec. Qed.
Print Assumptions C17_inherit_spec.

(* ---------------------------------------------------------------- oracles used on implementation dumps *)
Theorem C17_member_closed_b_sound : forall p S, member_closed_b p S = true -> Closed p S /\ functional_b p S = true.
Proof. exact member_closed_b_sound. Qed.
Print Assumptions C17_member_closed_b_sound.

Theorem C17_member_iso_b_sound : forall A B, member_iso_b A B = true <-> equiv_f A B.
Proof. exact member_iso_b_sound. Qed.
Print Assumptions C17_member_iso_b_sound.

Theorem C17_diff_spec : forall A B x, In x (diff A B) <-> In x A /\ ~ In x B.
Proof. exact diff_spec. Qed.
Print Assumptions C17_diff_spec.

(* ---------------------------------------------------------------- faithful model of the emitted loop *)
Theorem C17_toposort_valid : forall n E l, toposort n E = Some l -> topo_valid l /\ forall e, In e l <-> In e E.
Proof. exact toposort_valid. Qed.
Print Assumptions C17_toposort_valid.

Theorem C17_recompute_age_any_order : forall order own, topo_valid order ->
  let oa := recompute_age order own in
  (forall x, In x (snd oa) <-> Reach own order x) /\ (forall x, In x (snd oa) -> Reach (fst oa) order x) /\
  incl_f (fst oa) own /\ incl_f (fst oa) (snd oa).
Proof. exact recompute_age_spec. Qed.
Print Assumptions C17_recompute_age_any_order.

Theorem C17_recompute_inherit : forall a b, f_recompute a = Some b ->
  (forall r m' xs, In (r, m' :: xs) (all_new b) <-> exists m, In (r, m :: xs) (own_new a) /\ path (f_edges a) m m') /\
  (forall r m' xs, In (r, m' :: xs) (all_old b) <-> exists m, In (r, m :: xs) (own_old a) /\ path (f_edges a) m m').
Proof. exact recompute_inherit. Qed.
Print Assumptions C17_recompute_inherit.

Theorem C17_partial : forall n n' p h V S, wf_program p = true -> wf_members p = true ->
  early_morphisms p h = true -> ends_with_close h ->
  faithful_close n p h = Some V -> spec_run n' p h [] = Some S -> equiv_f V S.
Proof. exact faithful_eq_spec_partial. Qed.
Print Assumptions C17_partial.

Theorem C17_closed_partial : forall n p h V, wf_program p = true -> wf_members p = true ->
  early_morphisms p h = true -> ends_with_close h -> faithful_close n p h = Some V ->
  Closed p V /\ forall t, In t V <-> Derivable p (facts_of h) t.
Proof. exact faithful_final_partial. Qed.
Print Assumptions C17_closed_partial.

Theorem C17_inherit_transitive_partial : forall n p h V r m m' xs, wf_program p = true -> wf_members p = true ->
  early_morphisms p h = true -> ends_with_close h -> faithful_close n p h = Some V ->
  is_member p r = true -> In (r, m :: xs) V -> path (edges V) m m' -> In (r, m' :: xs) V.
Proof. exact faithful_transitive_partial. Qed.
Print Assumptions C17_inherit_transitive_partial.

Theorem C17_inherit_only_along_paths_partial : forall n p h V r m' xs, wf_program p = true -> wf_members p = true ->
  early_morphisms p h = true -> ends_with_close h -> faithful_close n p h = Some V ->
  no_rule_concludes p r -> In (r, m' :: xs) V -> exists m, In (r, m :: xs) (facts_of h) /\ path (edges V) m m'.
Proof. exact faithful_only_along_paths_partial. Qed.
Print Assumptions C17_inherit_only_along_paths_partial.

Theorem C17_history_indep_partial : forall n n' p h h' V V', wf_program p = true -> wf_members p = true ->
  early_morphisms p h = true -> early_morphisms p h' = true -> ends_with_close h -> ends_with_close h' ->
  equiv_f (facts_of h) (facts_of h') ->
  faithful_close n p h = Some V -> faithful_close n' p h' = Some V' -> equiv_f V V'.
Proof. exact faithful_history_indep_partial. Qed.
Print Assumptions C17_history_indep_partial.

(* the finer side condition: whenever a dom / cod tuple is asserted, no old member tuple sits in the domain model of a
   morphism it completes (Run.timely, evaluated along the faithful run; no rule concludes dom / cod).  A history in
   which every morphism precedes the first close after the facts it transports satisfies it. *)
Theorem C17_partial_timely : forall n n' p h V S, wf_program p = true -> wf_members p = true ->
  timely n p h = true -> ends_with_close h ->
  faithful_close n p h = Some V -> spec_run n' p h [] = Some S -> equiv_f V S.
Proof. exact faithful_eq_spec_timely. Qed.
Print Assumptions C17_partial_timely.

Theorem C17_closed_partial_timely : forall n p h V, wf_program p = true -> wf_members p = true ->
  timely n p h = true -> ends_with_close h -> faithful_close n p h = Some V ->
  Closed p V /\ forall t, In t V <-> Derivable p (facts_of h) t.
Proof. exact faithful_final_timely. Qed.
Print Assumptions C17_closed_partial_timely.

Theorem C17_early_timely : forall n p h, early_morphisms p h = true -> timely n p h = true.
Proof. exact early_timely. Qed.
Print Assumptions C17_early_timely.

(* the statement at full strength: the emitted loop agrees with the specification on EVERY acyclic history of the
   fragment (faithful_close = Some includes acyclicity). It is false: F7. *)
Definition C17_full : Prop :=
  forall n n' p h V S, wf_program p = true -> wf_members p = true -> ends_with_close h ->
    faithful_close n p h = Some V -> spec_close n' p h = Some S -> equiv_f V S.

Theorem C17_full_refuted : ~ C17_full.
Proof. exact full_stmt_refuted. Qed.
Print Assumptions C17_full_refuted.

(* the witness: pa(ca, x); close; morphism ca -> cb; close.  Queries see pa(cb, x) [5,[1;2]], the rule
   `if cb().pa(x); then qa(x)` never fired: qa(x) [6,[2]] is in the specification and not in the implementation. *)
Theorem C17_full_refuted_witness : exists n n' p h V S, wf_program p = true /\ wf_members p = true /\ ends_with_close h /\
  faithful_close n p h = Some V /\ spec_close n' p h = Some S /\
  In (5, [1; 2]) V /\ In (5, [1; 2]) S /\ In (6, [2]) S /\ ~ In (6, [2]) V.
Proof. exact full_refuted. Qed.
Print Assumptions C17_full_refuted_witness.

(* ---------------------------------------------------------------- non-vacuity *)
(* the same facts with the morphism asserted before the first close satisfy the side condition, and the rule fires *)
Definition early_history : list mcall :=
  [MFact (3, [0]); MFact (7, [0]); MFact (3, [1]); MFact (8, [1]); MFact (2, [2]);
   MFact (4, [3]); MFact (0, [3; 0]); MFact (1, [3; 1]); MFact (5, [0; 2]); MClose; MClose].
Example ex_partial_hypotheses :
  wf_program f7_prog = true /\ wf_members f7_prog = true /\ early_morphisms f7_prog early_history = true /\
  ends_with_close early_history /\
  (exists V, faithful_close 10 f7_prog early_history = Some V /\ mem (6, [2]) V = true /\ mem (5, [1; 2]) V = true) /\
  (exists S, spec_run 10 f7_prog early_history [] = Some S /\ mem (6, [2]) S = true).
Proof.
  split; [reflexivity|]. split; [reflexivity|]. split; [reflexivity|].
  split; [exists (removelast early_history); reflexivity|].
  split; eexists; (split; [vm_compute; reflexivity|]); repeat split; vm_compute; reflexivity.
Qed.
(* same set of facts as the F7 history: the specification does not care when the morphism was asserted *)
Example ex_history_indep_hypotheses :
  equiv_f (facts_of f7_history) (facts_of early_history) /\ early_morphisms f7_prog f7_history = false.
Proof.
  split; [|reflexivity]. apply member_iso_b_sound. vm_compute. reflexivity.
Qed.
(* timely but not early: the morphism m1 -> m0 is asserted after a close, its domain m1 (= cb) holds no old tuple *)
Definition timely_history : list mcall :=
  [MFact (3, [0]); MFact (7, [0]); MFact (3, [1]); MFact (8, [1]); MFact (2, [2]); MFact (5, [0; 2]); MClose;
   MFact (4, [3]); MFact (0, [3; 1]); MFact (1, [3; 0]); MFact (5, [1; 2]); MClose].
Example ex_timely_hypotheses :
  timely 10 f7_prog timely_history = true /\ early_morphisms f7_prog timely_history = false /\
  timely 10 f7_prog f7_history = false /\
  (exists V, faithful_close 10 f7_prog timely_history = Some V /\ mem (6, [2]) V = true /\ mem (5, [0; 2]) V = true).
Proof.
  split; [vm_compute; reflexivity|]. split; [vm_compute; reflexivity|]. split; [vm_compute; reflexivity|].
  eexists. split; [vm_compute; reflexivity|]. split; vm_compute; reflexivity.
Qed.
(* a chain m0 -> m1 -> m2: inheritance along the composite, and nothing into the unconnected m3 *)
Definition chain_prog : mprogram := {| mp_members := [5]; mp_funcs := [0; 1]; mp_rules := [] |}.
Definition chain_facts : list fact :=
  [(0, [10; 0]); (1, [10; 1]); (0, [11; 1]); (1, [11; 2]); (5, [0; 7])].
Example ex_chain : exists S, chase 10 chain_prog chain_facts = Some S /\
  mem (5, [2; 7]) S = true /\ mem (5, [3; 7]) S = false /\ path (edges S) 0 2 /\ no_rule_concludes chain_prog 5.
Proof.
  eexists. split; [vm_compute; reflexivity|]. split; [vm_compute; reflexivity|]. split; [vm_compute; reflexivity|].
  split.
  - apply (path_step _ 0 1 2); [vm_compute; tauto|]. apply (path_step _ 1 2 2); [vm_compute; tauto|]. apply path_refl.
  - intros rl c [].
Qed.
Example ex_recompute : exists b, f_recompute {| g_new := [(0, [10; 0]); (1, [10; 1])]; g_old := [];
                                               own_new := [(5, [0; 7])]; own_old := [(5, [1; 7])];
                                               all_new := [(5, [0; 7])]; all_old := [(5, [1; 7])] |} = Some b /\
  all_new b = [(5, [0; 7]); (5, [1; 7])] /\ own_old b = [(5, [1; 7])].
Proof. eexists. split; [vm_compute; reflexivity|]. split; reflexivity. Qed.
