(* recompute_model_indices, one age: folding the morphisms in a topologically valid order computes the closure of
   `own` under inheritance (Reach), and the reduced `own` (inherited tuples subtracted) still generates it. *)
From Coq Require Import List NArith Bool Lia.
From Members Require Import Model FactsBasic FactsSpec.
Import ListNotations.
Open Scope N_scope.

(* order is valid when no later (or the same) edge ends where an earlier edge starts: "if f: A -> B is before g: C -> D
   then D != A" (eqlog-runtime/src/toposort.rs), and no edge is a loop *)
Fixpoint topo_valid (l : list (N * N)) : Prop :=
  match l with
  | [] => True
  | e :: l' => (forall e', In e' (e :: l') -> snd e' <> fst e) /\ topo_valid l'
  end.

Lemma topo_valid_app : forall A B, (forall e e', In e A -> In e' (A ++ B) -> snd e' <> fst e) -> topo_valid B ->
  topo_valid (A ++ B).
Proof.
  induction A as [|a A IH]; intros B H HB; cbn [app]; [exact HB|]. cbn [topo_valid]. split.
  - intros e' He'. apply (H a e'); [left; reflexivity | exact He'].
  - apply IH; [|exact HB]. intros e e' He He'. apply (H e e'); [right; exact He | right; exact He'].
Qed.

Lemma topo_valid_mid : forall l1 e l2, topo_valid (l1 ++ e :: l2) ->
  (forall e', In e' l1 -> snd e <> fst e') /\ snd e <> fst e.
Proof.
  induction l1 as [|x l1 IH]; intros e l2 H; cbn [app topo_valid] in H.
  - destruct H as [H _]. split; [intros e' []|]. apply H. left. reflexivity.
  - destruct H as [Hx H]. destruct (IH _ _ H) as [H1 H2]. split; [|exact H2].
    intros e' [He'|He']; [subst e'; apply Hx; right; apply in_app_iff; right; left; reflexivity | apply H1; exact He'].
Qed.

Lemma no_incoming_true : forall E n, no_incoming E n = true <-> forall e, In e E -> snd e <> n.
Proof.
  intros E n. unfold no_incoming. rewrite forallb_forall. split.
  - intros H e He Heq. specialize (H e He). rewrite negb_true_iff in H. apply N.eqb_neq in H. contradiction.
  - intros H e He. rewrite negb_true_iff. apply N.eqb_neq. apply H. exact He.
Qed.

Theorem toposort_valid : forall n E l, toposort n E = Some l -> topo_valid l /\ forall e, In e l <-> In e E.
Proof.
  induction n as [|n IH]; intros E l H.
  - destruct E; cbn [toposort] in H; [|discriminate]. inversion H; subst. split; [exact I | tauto].
  - destruct E as [|e0 E0]; [cbn [toposort] in H; inversion H; subst; split; [exact I | tauto]|].
    remember (e0 :: E0) as E eqn:EE. cbn [toposort] in H. rewrite EE in H. rewrite <- EE in H.
    set (ready := filter (fun e => no_incoming E (fst e)) E) in *.
    set (rest := filter (fun e => negb (no_incoming E (fst e))) E) in *.
    destruct ready as [|r0 ready0] eqn:Er; [discriminate|]. rewrite <- Er in H.
    destruct (toposort n rest) as [l'|] eqn:El; [|discriminate]. inversion H; subst l. clear H.
    destruct (IH _ _ El) as [Hv Hin].
    assert (Hmem : forall e, In e (ready ++ l') <-> In e E).
    { intro e. rewrite in_app_iff. rewrite Hin. unfold ready, rest. rewrite !filter_In.
      destruct (no_incoming E (fst e)); cbn [negb]; intuition discriminate. }
    split; [|exact Hmem].
    apply topo_valid_app; [|exact Hv]. intros e e' He He'.
    unfold ready in He. apply filter_In in He. destruct He as [_ He].
    apply (proj1 (no_incoming_true E (fst e)) He). apply Hmem. exact He'.
Qed.

(* ------------------------------------------------------------------ closure under inheritance along a set of edges *)
Inductive Reach (own : list fact) (E : list (N * N)) : fact -> Prop :=
| R_own : forall t, In t own -> Reach own E t
| R_edge : forall r d c xs, In (d, c) E -> Reach own E (r, d :: xs) -> Reach own E (r, c :: xs).

Lemma Reach_mono : forall own own' E E' t, incl_f own own' -> (forall e, In e E -> In e E') -> Reach own E t -> Reach own' E' t.
Proof.
  intros own own' E E' t Ho He H. induction H as [t Hin | r d c xs Hdc _ IH].
  - apply R_own. apply Ho. exact Hin.
  - eapply R_edge; [apply He; exact Hdc | exact IH].
Qed.

Lemma Reach_path : forall own E r m' xs, Reach own E (r, m' :: xs) <-> exists m, In (r, m :: xs) own /\ path E m m'.
Proof.
  intros own E r m' xs. split.
  - intro H. remember (r, m' :: xs) as t eqn:Et. revert m' Et.
    induction H as [t Hin | r0 d c xs0 Hdc _ IH]; intros m' Et.
    + subst t. exists m'. split; [exact Hin | apply path_refl].
    + inversion Et; subst r0 c xs0. destruct (IH d eq_refl) as [m [Hm Hp]]. exists m. split; [exact Hm|].
      eapply path_snoc; eassumption.
  - intros [m [Hm Hp]]. apply (R_own own E) in Hm. revert Hm.
    induction Hp as [m | a b c Hab _ IH]; intro Hm; [exact Hm|].
    apply IH. eapply R_edge; [exact Hab | exact Hm].
Qed.

Definition head_is (c : N) (t : fact) : Prop := match snd t with m :: _ => m = c | [] => False end.

Lemma In_mapped_head : forall e S x, In x (mapped e S) -> head_is (snd e) x.
Proof.
  intros e S x H. apply In_mapped in H. destruct H as [r [xs [_ Hx]]]. subst x. unfold head_is. cbn [snd]. reflexivity.
Qed.

(* invariant of the fold over order = done ++ todo *)
Record fold_inv (own0 : list fact) (done : list (N * N)) (own all : list fact) : Prop := {
  fi_own_sub : incl_f own own0;
  fi_own_all : incl_f own all;
  fi_own0_all : incl_f own0 all;
  fi_regen : forall x, In x all -> Reach own done x;
  fi_sound : forall x, In x all -> Reach own0 done x;
  fi_closed : forall d c r xs, In (d, c) done -> In (r, d :: xs) all -> In (r, c :: xs) all }.

Lemma rec_edge_inv : forall own0 done e own all,
  (forall e', In e' done -> snd e <> fst e') -> snd e <> fst e ->
  fold_inv own0 done own all ->
  fold_inv own0 (done ++ [e]) (fst (rec_edge (own, all) e)) (snd (rec_edge (own, all) e)).
Proof.
  intros own0 done [d c] own all V2 V1 [Ha Hf Hb Hc He Hd]. cbn [fst snd] in V1, V2.
  unfold rec_edge. cbn [fst snd]. set (mp := mapped (d, c) all).
  assert (Hmp : forall x, In x mp <-> exists r xs, In (r, d :: xs) all /\ x = (r, c :: xs)).
  { intro x. unfold mp. rewrite In_mapped. cbn [fst snd]. tauto. }
  assert (Hsub : forall e', In e' done -> In e' (done ++ [(d, c)])) by (intros e' H; apply in_app_iff; left; exact H).
  assert (Hlast : In (d, c) (done ++ [(d, c)])) by (apply in_app_iff; right; left; reflexivity).
  (* Reach derivations of tuples that do not sit at c survive the subtraction *)
  assert (L : forall y, Reach own done y -> ~ head_is c y -> Reach (remove_all mp own) (done ++ [(d, c)]) y).
  { intros y Hy. induction Hy as [y Hin | r d0 c0 xs Hdc Hy IH]; intro Hh.
    - apply R_own. apply In_remove_all. split; [exact Hin|]. intro Hm. apply Hh.
      apply (In_mapped_head (d, c) all y). exact Hm.
    - eapply R_edge; [apply Hsub; exact Hdc|]. apply IH. unfold head_is. cbn [snd]. intro E. subst d0.
      apply (V2 (c, c0) Hdc). reflexivity. }
  constructor.
  - intros x Hx. apply In_remove_all in Hx. apply Ha. tauto.
  - intros x Hx. apply In_remove_all in Hx. apply In_add_all. left. apply Hf. tauto.
  - intros x Hx. apply In_add_all. left. apply Hb. exact Hx.
  - (* regeneration from the reduced own *)
    intros x Hx. apply In_add_all in Hx.
    assert (Hvia : forall r xs, In (r, d :: xs) all -> Reach (remove_all mp own) (done ++ [(d, c)]) (r, c :: xs)).
    { intros r xs Hin. eapply R_edge; [exact Hlast|]. apply L; [apply Hc; exact Hin|].
      unfold head_is. cbn [snd]. intro E. apply V1. symmetry. exact E. }
    destruct Hx as [Hx|Hx].
    + destruct x as [r ys]. destruct ys as [|m xs].
      * apply L; [apply Hc; exact Hx|]. unfold head_is. cbn [snd]. tauto.
      * destruct (N.eq_dec m c) as [Emc|Emc].
        -- subst m. destruct (mem (r, d :: xs) all) eqn:Em.
           ++ apply Hvia. apply mem_In. exact Em.
           ++ apply mem_false in Em.
              assert (Hnm : ~ In (r, c :: xs) mp).
              { intro Hm. apply Hmp in Hm. destruct Hm as [r' [xs' [Hin E]]]. inversion E; subst. contradiction. }
              specialize (Hc _ Hx). inversion Hc as [t Hin Et | r0 d0 c0 xs0 Hdc Hy Et]; subst.
              ** apply R_own. apply In_remove_all. split; assumption.
              ** eapply R_edge; [apply Hsub; exact Hdc|]. apply L; [exact Hy|].
                 unfold head_is. cbn [snd]. intro E. subst d0. apply (V2 (c, c) Hdc). reflexivity.
        -- apply L; [apply Hc; exact Hx|]. unfold head_is. cbn [snd]. exact Emc.
    + apply Hmp in Hx. destruct Hx as [r [xs [Hin Hx]]]. subst x. apply Hvia. exact Hin.
  - intros x Hx. apply In_add_all in Hx. destruct Hx as [Hx|Hx].
    + eapply Reach_mono; [intros y Hy; exact Hy | exact Hsub | apply He; exact Hx].
    + apply Hmp in Hx. destruct Hx as [r [xs [Hin Hx]]]. subst x. eapply R_edge; [exact Hlast|].
      eapply Reach_mono; [intros y Hy; exact Hy | exact Hsub | apply He; exact Hin].
  - intros d' c' r xs Hdc Hin. apply in_app_iff in Hdc. apply In_add_all in Hin. apply In_add_all.
    destruct Hdc as [Hdc|[Hdc|[]]].
    + destruct Hin as [Hin|Hin].
      * left. eapply Hd; eassumption.
      * exfalso. apply Hmp in Hin. destruct Hin as [r' [xs' [_ E]]]. inversion E; subst. apply (V2 (c, c') Hdc). reflexivity.
    + inversion Hdc; subst d' c'. destruct Hin as [Hin|Hin].
      * right. apply Hmp. exists r, xs. split; [exact Hin | reflexivity].
      * exfalso. apply Hmp in Hin. destruct Hin as [r' [xs' [_ E]]]. inversion E; subst. apply V1. reflexivity.
Qed.

Lemma fold_rec_edge_inv : forall own0 todo done own all, topo_valid (done ++ todo) -> fold_inv own0 done own all ->
  fold_inv own0 (done ++ todo) (fst (fold_left rec_edge todo (own, all))) (snd (fold_left rec_edge todo (own, all))).
Proof.
  intros own0. induction todo as [|e todo IH]; intros done own all Hv Hinv; cbn [fold_left].
  - rewrite app_nil_r. exact Hinv.
  - destruct (topo_valid_mid _ _ _ Hv) as [V2 V1].
    pose proof (rec_edge_inv own0 done e own all V2 V1 Hinv) as Hstep.
    destruct (rec_edge (own, all) e) as [own1 all1] eqn:Er. cbn [fst snd] in Hstep.
    specialize (IH (done ++ [e]) own1 all1). rewrite <- app_assoc in IH. cbn [app] in IH. apply IH; assumption.
Qed.

(* what one age of recompute_model_indices computes, for ANY topologically valid order of the morphisms *)
Theorem recompute_age_spec : forall order own, topo_valid order ->
  let oa := recompute_age order own in
  (forall x, In x (snd oa) <-> Reach own order x) /\
  (forall x, In x (snd oa) -> Reach (fst oa) order x) /\
  incl_f (fst oa) own /\ incl_f (fst oa) (snd oa).
Proof.
  intros order own Hv. unfold recompute_age.
  assert (H0 : fold_inv own [] own own).
  { constructor; try (intros x Hx; exact Hx); try (intros x Hx; apply R_own; exact Hx). intros d c r xs []. }
  pose proof (fold_rec_edge_inv own order [] own own Hv H0) as [Ha Hf Hb Hc He Hd]. cbn [app] in *.
  cbn zeta. split; [|split; [exact Hc | split; [exact Ha | exact Hf]]].
  intro x. split; [apply He|].
  intro H. induction H as [t Hin | r d c xs Hdc _ IH]; [apply Hb; exact Hin | eapply Hd; eassumption].
Qed.

(* ------------------------------------------------------------------ the specification's `inherit` *)
(* inherit = least fixed point pushing member tuples along the morphisms E: exactly what `all` is for `own` *)
Lemma inherit_inv : forall n p E S0 S S', inherit n p E S = Some S' ->
  (forall x, In x S -> In x S0 \/ Reach (filter (fun t => is_member p (fst t)) S0) E x) ->
  incl_f S S' /\ (forall x, In x (inherit_step p E S') -> In x S') /\
  (forall x, In x S' -> In x S0 \/ Reach (filter (fun t => is_member p (fst t)) S0) E x).
Proof.
  induction n as [|n IH]; intros p E S0 S S' H HS; cbn [inherit] in H; [discriminate|].
  destruct (Nat.eqb (length (add_all (inherit_step p E S) S)) (length S)) eqn:El.
  - inversion H; subst S'. apply PeanoNat.Nat.eqb_eq in El. split; [intros x Hx; exact Hx|]. split; [|exact HS].
    intros x Hx. eapply add_all_same_length; eassumption.
  - destruct (IH _ _ S0 _ _ H) as [H1 [H2 H3]].
    + intros x Hx. apply In_add_all in Hx. destruct Hx as [Hx|Hx]; [apply HS; exact Hx|]. right.
      apply In_inherit_step in Hx. destruct Hx as [d [c [r [xs [He [Hm [Hin Hx]]]]]]]. subst x.
      eapply R_edge; [exact He|]. destruct (HS _ Hin) as [H0|H0]; [|exact H0].
      apply R_own. apply filter_In. split; [exact H0 | exact Hm].
    + split; [|split; [exact H2 | exact H3]]. intros x Hx. apply H1. apply In_add_all. left. exact Hx.
Qed.

Theorem inherit_spec : forall n p E S S', inherit n p E S = Some S' ->
  forall x, In x S' <-> In x S \/ Reach (filter (fun t => is_member p (fst t)) S) E x.
Proof.
  intros n p E S S' H x. destruct (inherit_inv n p E S S S' H) as [H1 [H2 H3]]; [intros y Hy; left; exact Hy|].
  split; [apply H3|]. intros [Hx|Hx]; [apply H1; exact Hx|].
  induction Hx as [t Hin | r d c xs Hdc Hr IH].
  - apply filter_In in Hin. apply H1. tauto.
  - apply H2. apply In_inherit_step. exists d, c, r, xs. split; [exact Hdc|]. split; [|split; [exact IH | reflexivity]].
    clear IH. remember (r, d :: xs) as t eqn:Et.
    assert (Hm : is_member p (fst t) = true).
    { clear Et. induction Hr as [t Hin | r0 d0 c0 xs0 _ _ IH0]; [apply filter_In in Hin; tauto | exact IH0]. }
    subst t. exact Hm.
Qed.
