(* Run level: the faithful model agrees with the specification on histories whose morphisms are all in place before
   the first close (early_morphisms); the oracles of Run.v are sound; the F7 witness. *)
From Coq Require Import List NArith Bool Lia.
From Members Require Import Model Run FactsBasic FactsMatch FactsSpec FactsTopo FactsFaithful.
Import ListNotations.
Open Scope N_scope.

Lemma is_mor_fact_eq : forall t, is_mor_fact t = is_mor t.
Proof. reflexivity. Qed.

Lemma concludes_mor_false : forall p, concludes_mor p = false -> no_mor_concl p.
Proof.
  intros p H rl c Hrl Hc. unfold concludes_mor in H.
  destruct (is_mor (inst (fun _ => 0) c)) eqn:E; [|reflexivity]. exfalso.
  assert (Ht : existsb (fun r => existsb (fun a => N.eqb (fst a) rel_dom || N.eqb (fst a) rel_cod) (r_concl r)) (mp_rules p) = true).
  { apply existsb_exists. exists rl. split; [exact Hrl|]. apply existsb_exists. exists c. split; [exact Hc | exact E]. }
  congruence.
Qed.

Lemma Inv_empty : forall p, wf_program p = true -> Inv p [] f_empty.
Proof.
  intros p Hwf. constructor.
  - intros t Ht. unfold stored in Ht. cbn in Ht. tauto.
  - intros rl sigma c Hrl Hsat Hc. exfalso. destruct (wf_rule_vars rl (wf_program_rule _ _ Hwf Hrl)) as [Hne _].
    destruct (r_prem rl) as [|a l] eqn:E; [apply Hne; reflexivity|]. apply (Hsat a). left. reflexivity.
  - intros d c r xs _ [].
  - intros x [].
  - intros x [].
  - intros x [].
  - intros x [].
  - intros x [].
  - intros t Ht. cbn in Ht. tauto.
  - intros t Ht. cbn in Ht. tauto.
Qed.

(* the state after a close *)
Definition Final (p : mprogram) (F : list fact) (st : fstate) : Prop :=
  Closed p (f_visible st) /\ forall t, In t (f_visible st) <-> Derivable p F t.

Lemma f_close_inv : forall n p F st st', wf_program p = true -> wf_members p = true -> no_mor_concl p ->
  Inv p F st -> f_close n p st = Some st' -> Inv p F st' /\ Final p F st'.
Proof.
  intros n p F st st' Hwf Hwm Hnm HI H. unfold f_close in H.
  destruct (f_recompute st) as [st1|] eqn:Er; [|discriminate].
  pose proof (recompute_inv _ _ _ _ HI Er) as HL1.
  destruct (f_loop_inv _ _ _ _ _ Hwf Hnm HL1 H) as [HL Hd].
  destruct (clean_closed _ _ _ Hwm HL Hd) as [Hc [Hf [Hs _]]].
  split; [exact (proj1 HL)|]. split; [exact Hc|]. intro t. split; [apply Hs|].
  apply Derivable_least; assumption.
Qed.

Lemma Final_mono : forall p F st, Final p F st -> Final p (F ++ []) st.
Proof. intros p F st H. rewrite app_nil_r. exact H. Qed.

(* after the first close: no dom / cod facts are asserted any more *)
Lemma f_run_after : forall n p h F st st', wf_program p = true -> wf_members p = true -> no_mor_concl p ->
  Inv p F st -> no_mor_facts h = true -> f_run n p h st = Some st' ->
  Inv p (F ++ facts_of h) st' /\ (ends_with_close h -> Final p (F ++ facts_of h) st').
Proof.
  intros n p. induction h as [|[t|] h IH]; intros F st st' Hwf Hwm Hnm HI Hh Hrun; cbn [f_run facts_of flat_map no_mor_facts] in *.
  - inversion Hrun; subst st'. rewrite app_nil_r. split; [exact HI|]. intros [h' E]. destruct h'; discriminate.
  - apply andb_true_iff in Hh. destruct Hh as [Ht Hh]. rewrite negb_true_iff in Ht. rewrite is_mor_fact_eq in Ht.
    assert (HI' : Inv p (F ++ [t]) (f_insert p st t)) by (apply insert_inv; [exact HI | left; exact Ht]).
    destruct (IH _ _ _ Hwf Hwm Hnm HI' Hh Hrun) as [H1 H2]. cbn [app]. rewrite <- app_assoc in H1, H2. cbn [app] in H1, H2.
    split; [exact H1|]. intros [h' E]. apply H2. destruct h' as [|c h']; cbn [app] in E; [discriminate|].
    injection E as _ E2. exists h'. exact E2.
  - destruct (f_close n p st) as [st1|] eqn:Ec; [|discriminate].
    destruct (f_close_inv _ _ _ _ _ Hwf Hwm Hnm HI Ec) as [HI1 HF1].
    destruct (IH _ _ _ Hwf Hwm Hnm HI1 Hh Hrun) as [H1 H2]. cbn [app]. split; [exact H1|].
    intros [h' E]. destruct h' as [|c h']; cbn [app] in E.
    + inversion E; subst h. cbn [f_run] in Hrun. inversion Hrun; subst st'. cbn [facts_of flat_map]. rewrite app_nil_r. exact HF1.
    + injection E as _ E2. apply H2. exists h'. exact E2.
Qed.

Lemma f_insert_all_old : forall p st t, all_old (f_insert p st t) = all_old st.
Proof.
  intros p st t. unfold f_insert. destruct (is_member p (fst t)).
  - destruct (mem t (all_new st) || mem t (all_old st)); reflexivity.
  - destruct (mem t (g_new st) || mem t (g_old st)); reflexivity.
Qed.

(* up to the first close: no old tuples exist, morphisms may be asserted in any order *)
Lemma f_run_before : forall n p h F st st', wf_program p = true -> wf_members p = true -> no_mor_concl p ->
  Inv p F st -> all_old st = [] -> early_morphisms_h h = true -> f_run n p h st = Some st' ->
  Inv p (F ++ facts_of h) st' /\ (ends_with_close h -> Final p (F ++ facts_of h) st').
Proof.
  intros n p. induction h as [|[t|] h IH]; intros F st st' Hwf Hwm Hnm HI Hao Hh Hrun; cbn [f_run facts_of flat_map early_morphisms_h] in *.
  - inversion Hrun; subst st'. rewrite app_nil_r. split; [exact HI|]. intros [h' E]. destruct h'; discriminate.
  - assert (HI' : Inv p (F ++ [t]) (f_insert p st t)) by (apply insert_inv; [exact HI | right; exact Hao]).
    assert (Hao' : all_old (f_insert p st t) = []) by (rewrite f_insert_all_old; exact Hao).
    destruct (IH _ _ _ Hwf Hwm Hnm HI' Hao' Hh Hrun) as [H1 H2]. cbn [app]. rewrite <- app_assoc in H1, H2. cbn [app] in H1, H2.
    split; [exact H1|]. intros [h' E]. apply H2. destruct h' as [|c h']; cbn [app] in E; [discriminate|].
    injection E as _ E2. exists h'. exact E2.
  - destruct (f_close n p st) as [st1|] eqn:Ec; [|discriminate].
    destruct (f_close_inv _ _ _ _ _ Hwf Hwm Hnm HI Ec) as [HI1 HF1].
    destruct (f_run_after _ _ _ _ _ _ Hwf Hwm Hnm HI1 Hh Hrun) as [H1 H2]. cbn [app]. split; [exact H1|].
    intros [h' E]. destruct h' as [|c h']; cbn [app] in E.
    + inversion E; subst h. cbn [f_run] in Hrun. inversion Hrun; subst st'. cbn [facts_of flat_map]. rewrite app_nil_r. exact HF1.
    + injection E as _ E2. apply H2. exists h'. exact E2.
Qed.

(* ------------------------------------------------------------------ the proved part for the emitted loop *)
Theorem faithful_final_partial : forall n p h V, wf_program p = true -> wf_members p = true ->
  early_morphisms p h = true -> ends_with_close h -> faithful_close n p h = Some V ->
  Closed p V /\ forall t, In t V <-> Derivable p (facts_of h) t.
Proof.
  intros n p h V Hwf Hwm He Hend Hf. unfold faithful_close in Hf.
  destruct (f_run n p h f_empty) as [st|] eqn:Er; [|discriminate]. inversion Hf; subst V. clear Hf.
  unfold early_morphisms in He. apply andb_true_iff in He. destruct He as [He1 He2]. rewrite negb_true_iff in He1.
  destruct (f_run_before _ _ _ _ _ _ Hwf Hwm (concludes_mor_false _ He1) (Inv_empty p Hwf) eq_refl He2 Er) as [_ H].
  exact (H Hend).
Qed.

Theorem faithful_eq_spec_partial : forall n n' p h V S, wf_program p = true -> wf_members p = true ->
  early_morphisms p h = true -> ends_with_close h ->
  faithful_close n p h = Some V -> spec_run n' p h [] = Some S -> equiv_f V S.
Proof.
  intros n n' p h V S Hwf Hwm He Hend Hf Hs t.
  destruct (faithful_final_partial _ _ _ _ Hwf Hwm He Hend Hf) as [_ H]. rewrite H.
  symmetry. apply (spec_run_lfp _ _ _ _ Hwf Hend Hs).
Qed.

Theorem faithful_transitive_partial : forall n p h V r m m' xs, wf_program p = true -> wf_members p = true ->
  early_morphisms p h = true -> ends_with_close h -> faithful_close n p h = Some V ->
  is_member p r = true -> In (r, m :: xs) V -> path (edges V) m m' -> In (r, m' :: xs) V.
Proof.
  intros n p h V r m m' xs Hwf Hwm He Hend Hf Hm Hin Hp.
  destruct (faithful_final_partial _ _ _ _ Hwf Hwm He Hend Hf) as [[Hi _] _].
  eapply inherit_transitive_closed; eassumption.
Qed.

Theorem faithful_only_along_paths_partial : forall n p h V r m' xs, wf_program p = true -> wf_members p = true ->
  early_morphisms p h = true -> ends_with_close h -> faithful_close n p h = Some V ->
  no_rule_concludes p r -> In (r, m' :: xs) V -> exists m, In (r, m :: xs) (facts_of h) /\ path (edges V) m m'.
Proof.
  intros n p h V r m' xs Hwf Hwm He Hend Hf Hno Hin.
  destruct (faithful_final_partial _ _ _ _ Hwf Hwm He Hend Hf) as [_ H].
  eapply lfp_only_along_paths; eassumption.
Qed.

Theorem faithful_history_indep_partial : forall n n' p h h' V V', wf_program p = true -> wf_members p = true ->
  early_morphisms p h = true -> early_morphisms p h' = true -> ends_with_close h -> ends_with_close h' ->
  equiv_f (facts_of h) (facts_of h') ->
  faithful_close n p h = Some V -> faithful_close n' p h' = Some V' -> equiv_f V V'.
Proof.
  intros n n' p h h' V V' Hwf Hwm He He' Hend Hend' Heq Hf Hf' t.
  destruct (faithful_final_partial _ _ _ _ Hwf Hwm He Hend Hf) as [_ H].
  destruct (faithful_final_partial _ _ _ _ Hwf Hwm He' Hend' Hf') as [_ H'].
  rewrite H, H'. split; apply Derivable_mono; intros x Hx; apply Heq; exact Hx.
Qed.

(* ------------------------------------------------------------------ the finer, state-dependent side condition *)
Lemma pair_mem_In : forall e l, pair_mem e l = true <-> In e l.
Proof.
  intros [d c] l. unfold pair_mem. rewrite existsb_exists. split.
  - intros [[d' c'] [Hin H]]. cbn [fst snd] in H. apply andb_true_iff in H. destruct H as [H1 H2].
    apply N.eqb_eq in H1. apply N.eqb_eq in H2. subst. exact Hin.
  - intro H. exists (d, c). split; [exact H|]. cbn [fst snd]. rewrite !N.eqb_refl. reflexivity.
Qed.

Lemma safe_b_sound : forall st t, safe_b st t = true -> no_old_transport st t.
Proof.
  intros st t H d c r xs Hdc Hn Hin. unfold safe_b in H. rewrite negb_true_iff in H.
  assert (Ht : transports_old st t = true); [|congruence].
  unfold transports_old. apply existsb_exists. exists (d, c). split; [exact Hdc|]. apply andb_true_iff. split.
  - rewrite negb_true_iff. destruct (pair_mem (d, c) (f_edges st)) eqn:E; [|reflexivity].
    apply pair_mem_In in E. contradiction.
  - apply existsb_exists. exists (r, d :: xs). split; [exact Hin|]. unfold at_model. cbn [snd fst]. apply N.eqb_refl.
Qed.

Lemma f_run_timely : forall n p h F st st', wf_program p = true -> wf_members p = true -> no_mor_concl p ->
  Inv p F st -> timely_from n p h st = true -> f_run n p h st = Some st' ->
  Inv p (F ++ facts_of h) st' /\ (ends_with_close h -> Final p (F ++ facts_of h) st').
Proof.
  intros n p. induction h as [|[t|] h IH]; intros F st st' Hwf Hwm Hnm HI Hh Hrun; cbn [f_run facts_of flat_map timely_from] in *.
  - inversion Hrun; subst st'. rewrite app_nil_r. split; [exact HI|]. intros [h' E]. destruct h'; discriminate.
  - apply andb_true_iff in Hh. destruct Hh as [Ht Hh].
    assert (HI' : Inv p (F ++ [t]) (f_insert p st t)) by (apply insert_inv_gen; [exact HI | apply safe_b_sound; exact Ht]).
    destruct (IH _ _ _ Hwf Hwm Hnm HI' Hh Hrun) as [H1 H2]. cbn [app]. rewrite <- app_assoc in H1, H2. cbn [app] in H1, H2.
    split; [exact H1|]. intros [h' E]. apply H2. destruct h' as [|c h']; cbn [app] in E; [discriminate|].
    injection E as _ E2. exists h'. exact E2.
  - destruct (f_close n p st) as [st1|] eqn:Ec; [|discriminate].
    destruct (f_close_inv _ _ _ _ _ Hwf Hwm Hnm HI Ec) as [HI1 HF1].
    destruct (IH _ _ _ Hwf Hwm Hnm HI1 Hh Hrun) as [H1 H2]. cbn [app]. split; [exact H1|].
    intros [h' E]. destruct h' as [|c h']; cbn [app] in E.
    + inversion E; subst h. cbn [f_run] in Hrun. inversion Hrun; subst st'. cbn [facts_of flat_map]. rewrite app_nil_r. exact HF1.
    + injection E as _ E2. apply H2. exists h'. exact E2.
Qed.

Theorem faithful_final_timely : forall n p h V, wf_program p = true -> wf_members p = true ->
  timely n p h = true -> ends_with_close h -> faithful_close n p h = Some V ->
  Closed p V /\ forall t, In t V <-> Derivable p (facts_of h) t.
Proof.
  intros n p h V Hwf Hwm He Hend Hf. unfold faithful_close in Hf.
  destruct (f_run n p h f_empty) as [st|] eqn:Er; [|discriminate]. inversion Hf; subst V. clear Hf.
  unfold timely in He. apply andb_true_iff in He. destruct He as [He1 He2]. rewrite negb_true_iff in He1.
  destruct (f_run_timely _ _ _ _ _ _ Hwf Hwm (concludes_mor_false _ He1) (Inv_empty p Hwf) He2 Er) as [_ H].
  exact (H Hend).
Qed.

Theorem faithful_eq_spec_timely : forall n n' p h V S, wf_program p = true -> wf_members p = true ->
  timely n p h = true -> ends_with_close h ->
  faithful_close n p h = Some V -> spec_run n' p h [] = Some S -> equiv_f V S.
Proof.
  intros n n' p h V S Hwf Hwm He Hend Hf Hs t.
  destruct (faithful_final_timely _ _ _ _ Hwf Hwm He Hend Hf) as [_ H]. rewrite H.
  symmetry. apply (spec_run_lfp _ _ _ _ Hwf Hend Hs).
Qed.

(* early_morphisms is an instance of timely *)
Lemma safe_b_no_old : forall st t, all_old st = [] -> safe_b st t = true.
Proof.
  intros st t H. unfold safe_b, transports_old. rewrite negb_true_iff. rewrite H.
  induction (edges ((g_new st ++ [t]) ++ g_old st)) as [|e l IH]; [reflexivity|].
  cbn [existsb] in *. rewrite IH. rewrite andb_false_r. reflexivity.
Qed.

Lemma safe_b_non_mor : forall st t, is_mor t = false -> safe_b st t = true.
Proof.
  intros st t H. unfold safe_b, transports_old. rewrite negb_true_iff.
  destruct (existsb _ (edges ((g_new st ++ [t]) ++ g_old st))) eqn:E; [|reflexivity]. exfalso.
  apply existsb_exists in E. destruct E as [e [He H2]]. apply andb_true_iff in H2. destruct H2 as [H2 _].
  rewrite negb_true_iff in H2.
  assert (Hin : In e (f_edges st)).
  { unfold f_edges. apply (edges_add_non_mor _ t); [exact H|]. eapply edges_incl; [|exact He].
    intros y Hy. rewrite !in_app_iff in *. cbn [In]. tauto. }
  apply pair_mem_In in Hin. congruence.
Qed.

Lemma timely_after : forall n p h st, no_mor_facts h = true -> timely_from n p h st = true.
Proof.
  intros n p. induction h as [|[t|] h IH]; intros st H; cbn [timely_from no_mor_facts] in *; [reflexivity| |].
  - apply andb_true_iff in H. destruct H as [H1 H2]. rewrite negb_true_iff in H1. rewrite is_mor_fact_eq in H1.
    rewrite (safe_b_non_mor _ _ H1). cbn [andb]. apply IH. exact H2.
  - destruct (f_close n p st); [apply IH; exact H | reflexivity].
Qed.

Lemma timely_before : forall n p h st, all_old st = [] -> early_morphisms_h h = true -> timely_from n p h st = true.
Proof.
  intros n p. induction h as [|[t|] h IH]; intros st Ha H; cbn [timely_from early_morphisms_h] in *; [reflexivity| |].
  - rewrite (safe_b_no_old _ t Ha). cbn [andb]. apply IH; [rewrite f_insert_all_old; exact Ha | exact H].
  - destruct (f_close n p st); [apply timely_after; exact H | reflexivity].
Qed.

Theorem early_timely : forall n p h, early_morphisms p h = true -> timely n p h = true.
Proof.
  intros n p h H. unfold early_morphisms in H. unfold timely. apply andb_true_iff in H. destruct H as [H1 H2].
  rewrite H1. cbn [andb]. apply timely_before; [reflexivity | exact H2].
Qed.

(* what recompute_model_indices computes: `all` is `own` pushed along every path of morphisms *)
Theorem recompute_inherit : forall a b, f_recompute a = Some b ->
  (forall r m' xs, In (r, m' :: xs) (all_new b) <-> exists m, In (r, m :: xs) (own_new a) /\ path (f_edges a) m m') /\
  (forall r m' xs, In (r, m' :: xs) (all_old b) <-> exists m, In (r, m :: xs) (own_old a) /\ path (f_edges a) m m').
Proof.
  intros a b H. pose proof (f_recompute_spec _ _ H) as R. split; intros r m' xs.
  - rewrite (rs_all_new _ _ R). apply Reach_path.
  - rewrite (rs_all_old _ _ R). apply Reach_path.
Qed.

(* ------------------------------------------------------------------ oracles *)
Theorem member_closed_b_sound : forall p S, member_closed_b p S = true -> Closed p S /\ functional_b p S = true.
Proof.
  intros p S H. unfold member_closed_b in H. apply andb_true_iff in H. destruct H as [H H3].
  apply andb_true_iff in H. destruct H as [H1 H2]. split; [|exact H3].
  apply step_closed_iff; [exact H1|]. intros x Hx. rewrite forallb_forall in H2. apply mem_In. apply H2. exact Hx.
Qed.

Theorem member_iso_b_sound : forall A B, member_iso_b A B = true <-> equiv_f A B.
Proof.
  intros A B. unfold member_iso_b, subset_b. rewrite andb_true_iff. rewrite !forallb_forall. split.
  - intros [H1 H2] x. split; intro Hx; apply mem_In; [apply H1 | apply H2]; exact Hx.
  - intro H. split; intros x Hx; apply mem_In; apply H; exact Hx.
Qed.

Theorem diff_spec : forall A B x, In x (diff A B) <-> In x A /\ ~ In x B.
Proof. intros A B x. unfold diff. rewrite filter_In. rewrite negb_true_iff. rewrite mem_false. tauto. Qed.

(* ------------------------------------------------------------------ the full statement and its refutation (F7) *)
Definition C17_full_stmt : Prop :=
  forall n n' p h V S, wf_program p = true -> wf_members p = true -> ends_with_close h ->
    faithful_close n p h = Some V -> spec_close n' p h = Some S -> equiv_f V S.

(* model Mm { pred pa(x: Ta); }  func ca() -> Mm;  func cb() -> Mm;  pred qa(Ta);  rule { if cb().pa(x); then qa(x); }
   relations: 0 dom, 1 cod, 2 Ta, 3 Mm, 4 Mor(Mm), 5 pa, 6 qa, 7 ca, 8 cb *)
Definition f7_prog : mprogram :=
  {| mp_members := [5]; mp_funcs := [0; 1; 7; 8];
     mp_rules := [ {| r_prem := [(8, [0]); (5, [0; 1])]; r_concl := [(6, [1])] |} ] |}.
(* a = define_ca(); b = define_cb(); x = new_ta(); insert_pa(a, x); close();
   f = new_mm_mor(); insert_mm_mor_dom(f, a); insert_mm_mor_cod(f, b); close() *)
Definition f7_history : list mcall :=
  [MFact (3, [0]); MFact (7, [0]); MFact (3, [1]); MFact (8, [1]); MFact (2, [2]); MFact (5, [0; 2]); MClose;
   MFact (4, [3]); MFact (0, [3; 0]); MFact (1, [3; 1]); MClose].

Theorem full_refuted : exists n n' p h V S, wf_program p = true /\ wf_members p = true /\ ends_with_close h /\
  faithful_close n p h = Some V /\ spec_close n' p h = Some S /\
  In (5, [1; 2]) V /\ In (5, [1; 2]) S /\ In (6, [2]) S /\ ~ In (6, [2]) V.
Proof.
  exists 10%nat, 10%nat, f7_prog, f7_history.
  destruct (faithful_close 10 f7_prog f7_history) as [V|] eqn:EV; [|vm_compute in EV; discriminate].
  destruct (spec_close 10 f7_prog f7_history) as [S|] eqn:ES; [|vm_compute in ES; discriminate].
  exists V, S. vm_compute in EV. vm_compute in ES. inversion EV; subst V. inversion ES; subst S.
  split; [reflexivity|]. split; [reflexivity|]. split; [exists (removelast f7_history); reflexivity|].
  split; [reflexivity|]. split; [reflexivity|].
  split; [apply mem_In; vm_compute; reflexivity|]. split; [apply mem_In; vm_compute; reflexivity|].
  split; [apply mem_In; vm_compute; reflexivity|]. apply mem_false. vm_compute. reflexivity.
Qed.

Theorem full_stmt_refuted : ~ C17_full_stmt.
Proof.
  intro H. destruct full_refuted as [n [n' [p [h [V [S [H1 [H2 [H3 [H4 [H5 [_ [_ [H8 H9]]]]]]]]]]]]]].
  apply H9. apply (H n n' p h V S H1 H2 H3 H4 H5). exact H8.
Qed.
