(* NOT part of the faithful model: a candidate repair of F7, kept as an executable note (definitions + examples).
   recompute_model_indices would compute the old copies first and, in the fold for the NEW copies, push
   all_old[dom] as well through every morphism whose dom or cod tuple is new.  The inherited old tuples are then
   presented to the rules as new exactly once (the morphism's tuples make the model dirty, so an iteration follows).
   On the F7 witness and on every generated history tried (see the report of checks/c17.py's author) the repaired
   loop agrees with the specification. *)
From Coq Require Import List BinNat Bool.
From Members Require Import Model Run.
Import ListNotations.
Open Scope N_scope.

Definition pair_eqb (a b : N * N) : bool := N.eqb (fst a) (fst b) && N.eqb (snd a) (snd b).
(* edges of the morphisms that have a new dom or cod tuple *)
Definition new_edges (st : fstate) : list (N * N) :=
  let G := g_new st ++ g_old st in
  flat_map (fun t => match t with
                     | (r, [f; d]) =>
                         if N.eqb r rel_dom then
                           flat_map (fun c => if mem (rel_dom, [f; d]) (g_new st) || mem (rel_cod, [f; c]) (g_new st)
                                              then [(d, c)] else []) (cods_of f G)
                         else []
                     | _ => [] end) G.

Definition rec_edge_rep (allold : list fact) (newE : list (N * N)) (oa : list fact * list fact) (e : N * N) :=
  let src := snd oa ++ (if existsb (pair_eqb e) newE then allold else []) in
  let mp := mapped e src in (remove_all mp (fst oa), add_all mp (snd oa)).

Definition r_recompute (st : fstate) : option fstate :=
  let E := f_edges st in
  match toposort (length E) E with
  | None => None
  | Some order =>
      let o := recompute_age order (own_old st) in
      let n := fold_left (rec_edge_rep (snd o) (new_edges st)) order (own_new st, own_new st) in
      Some {| g_new := g_new st; g_old := g_old st; own_new := fst n; own_old := fst o;
              all_new := snd n; all_old := snd o |}
  end.

Fixpoint r_loop (fuel : nat) (p : mprogram) (st : fstate) : option fstate :=
  match fuel with
  | O => None
  | Datatypes.S n =>
      match r_recompute (fold_left (f_insert p) (f_fire p st) (f_move st)) with
      | None => None
      | Some st' => if f_dirty st' then r_loop n p st' else Some st'
      end
  end.
Definition r_close (fuel : nat) (p : mprogram) (st : fstate) : option fstate :=
  match r_recompute st with None => None | Some st' => r_loop fuel p st' end.
Fixpoint r_trace_from (fuel : nat) (p : mprogram) (h : list mcall) (st : fstate) : option (list (list fact)) :=
  match h with
  | [] => Some []
  | MFact t :: h' => r_trace_from fuel p h' (f_insert p st t)
  | MClose :: h' =>
      match r_close fuel p st with
      | Some st' => match r_trace_from fuel p h' st' with Some l => Some (f_visible st' :: l) | None => None end
      | None => None
      end
  end.
(* per close: (spec \ repaired, repaired \ spec) *)
Fixpoint zip2 {A B} (a : list A) (b : list B) : list (A * B) :=
  match a, b with x :: a', y :: b' => (x, y) :: zip2 a' b' | _, _ => [] end.
Definition repair_judge (fuel : nat) (p : mprogram) (h : list mcall) : option (list (list fact * list fact)) :=
  match spec_trace fuel p h, r_trace_from fuel p h f_empty with
  | Some Ss, Some Rs => Some (map (fun x => (diff (fst x) (snd x), diff (snd x) (fst x))) (zip2 Ss Rs))
  | _, _ => None
  end.

(* the F7 witness (FactsRun.f7_prog / f7_history): with the repair both closes agree with the specification *)
Example repair_f7 :
  repair_judge 10 {| mp_members := [5]; mp_funcs := [0; 1; 7; 8];
                     mp_rules := [ {| r_prem := [(8, [0]); (5, [0; 1])]; r_concl := [(6, [1])] |} ] |}
    [MFact (3, [0]); MFact (7, [0]); MFact (3, [1]); MFact (8, [1]); MFact (2, [2]); MFact (5, [0; 2]); MClose;
     MFact (4, [3]); MFact (0, [3; 0]); MFact (1, [3; 1]); MClose]
  = Some [([], []); ([], [])].
Proof. vm_compute. reflexivity. Qed.
