(* C17 - member relations are inherited along morphisms like ordinary facts.

   FRAGMENT (the property's own quantifier, restricted): programs with ONE `model` declaration that contains member
   *predicates* only, global types / predicates / nullary functions (constants of type M and Mor(M)), and global
   rules whose premises and conclusions are atoms over variables.  Rules create no elements and force no
   equalities: a state is a finite set of facts over caller-created elements.  Everything is flat:

     relation 0 = dom  (tuples [f; m]),  relation 1 = cod  (tuples [f; m]),
     a member predicate p of the model is a relation whose column 0 is the model element  (m.p(x) is p [m; x]),
     a constant c() is a unary relation,  `x : T` is the unary relation of the type T.

   What is restricted: conjunctive premises over member / global predicates, constants, dom / cod and type atoms;
   predicate conclusions (global, member, dom / cod); no `!` in conclusions, no equality conclusions, no member
   functions, no nested member types.  dom, cod and the constants must stay single-valued ([functional_b]); a
   history that would force an equality is outside the fragment (spec_close returns None).

   PART 1 is the SPECIFICATION model: the least set of facts containing the asserted ones and closed under the
   rules and under inheritance (a member tuple of the domain model of a morphism holds in its codomain model).
   PART 2 is the FAITHFUL set-level model of the emitted close loop (eqlog/src/rust_gen/mod.rs,
   display_close_until_fn / display_recompute_model_indices_fn): per member relation the copies own_new, own_old,
   all_new, all_old; `recompute` rebuilds `all` from `own` along the topologically sorted morphisms, separately for
   new and old, and subtracts inherited tuples from `own`; rules read `all`.  It says what the code does now,
   including the defect F7 (old facts pushed through a new morphism arrive as old tuples).

   No proofs in this file. *)
From Coq Require Import List BinNat Bool.
Import ListNotations.
Open Scope N_scope.

(* ------------------------------------------------------------------ syntax *)
Definition tuple := list N.
Definition fact := (N * tuple)%type.      (* relation id, elements *)
Definition atom := (N * list N)%type.     (* relation id, variables *)
Record mrule := { r_prem : list atom; r_concl : list atom }.
Record mprogram := { mp_members : list N;   (* member predicates: column 0 is the model element *)
                     mp_funcs : list N;     (* single-valued relations: dom, cod, constants (last column = value) *)
                     mp_rules : list mrule }.
Definition rel_dom : N := 0.
Definition rel_cod : N := 1.

Inductive mcall := MFact (t : fact) | MClose.

(* ------------------------------------------------------------------ finite sets of facts as lists *)
Fixpoint tuple_eqb (a b : tuple) : bool :=
  match a, b with
  | [], [] => true
  | x :: a', y :: b' => N.eqb x y && tuple_eqb a' b'
  | _, _ => false
  end.
Definition fact_eqb (a b : fact) : bool := N.eqb (fst a) (fst b) && tuple_eqb (snd a) (snd b).
Definition mem (t : fact) (S : list fact) : bool := existsb (fact_eqb t) S.
Definition add_fact (t : fact) (S : list fact) : list fact := if mem t S then S else S ++ [t].
Definition add_all (l S : list fact) : list fact := fold_left (fun acc t => add_fact t acc) l S.
Definition remove_all (l S : list fact) : list fact := filter (fun t => negb (mem t l)) S.
Definition is_nil {A} (l : list A) : bool := match l with [] => true | _ => false end.

(* ------------------------------------------------------------------ matching *)
Definition subst := list (N * N).
Fixpoint lookup (v : N) (s : subst) : option N :=
  match s with
  | [] => None
  | (w, x) :: s' => if N.eqb v w then Some x else lookup v s'
  end.
Definition val_of (s : subst) (v : N) : N := match lookup v s with Some x => x | None => 0 end.
Definition inst (sigma : N -> N) (a : atom) : fact := (fst a, map sigma (snd a)).

Fixpoint match_args (vs : list N) (xs : tuple) (s : subst) : option subst :=
  match vs, xs with
  | [], [] => Some s
  | v :: vs', x :: xs' =>
      match lookup v s with
      | Some y => if N.eqb x y then match_args vs' xs' s else None
      | None => match_args vs' xs' ((v, x) :: s)
      end
  | _, _ => None
  end.
Definition match_fact (a : atom) (s : subst) (f : fact) : list subst :=
  if N.eqb (fst f) (fst a) then match match_args (snd a) (snd f) s with Some s' => [s'] | None => [] end else [].
Definition match_atom (a : atom) (S : list fact) (s : subst) : list subst := flat_map (match_fact a s) S.
(* every atom comes with the set of facts it is matched against *)
Fixpoint match_srcs (srcs : list (atom * list fact)) (ss : list subst) : list subst :=
  match srcs with
  | [] => ss
  | (a, Fs) :: rest => match_srcs rest (flat_map (match_atom a Fs) ss)
  end.
Definition conclusions (r : mrule) (s : subst) : list fact := map (inst (val_of s)) (r_concl r).

(* range restriction: at least one premise, conclusion variables occur in the premises *)
Definition vars_of (l : list atom) : list N := flat_map (fun a => snd a) l.
Definition wf_rule (r : mrule) : bool :=
  negb (is_nil (r_prem r)) &&
  forallb (fun v => existsb (N.eqb v) (vars_of (r_prem r))) (vars_of (r_concl r)).
Definition wf_program (p : mprogram) : bool := forallb wf_rule (mp_rules p).

(* ------------------------------------------------------------------ morphisms *)
Definition is_member (p : mprogram) (r : N) : bool := existsb (N.eqb r) (mp_members p).
Definition cods_of (f : N) (S : list fact) : list N :=
  flat_map (fun t => match t with
                     | (r, [f'; c]) => if N.eqb r rel_cod && N.eqb f' f then [c] else []
                     | _ => [] end) S.
(* one edge (dom f, cod f) per morphism f that has both *)
Definition edges (S : list fact) : list (N * N) :=
  flat_map (fun t => match t with
                     | (r, [f; d]) => if N.eqb r rel_dom then map (fun c => (d, c)) (cods_of f S) else []
                     | _ => [] end) S.
Definition at_model (m : N) (t : fact) : bool := match snd t with m' :: _ => N.eqb m' m | [] => false end.
Definition retarget (c : N) (t : fact) : fact := (fst t, c :: tl (snd t)).
(* the tuples of the domain model, pushed forward into the codomain model *)
Definition mapped (e : N * N) (S : list fact) : list fact := map (retarget (snd e)) (filter (at_model (fst e)) S).

(* ================================================================== PART 1: specification model *)
(* A state is one set of facts: the dom / cod facts are the morphism graph, a member fact (r, m :: xs) is an own or
   inherited tuple of the model element m, the rest are global facts. *)
Definition own_of (p : mprogram) (S : list fact) (m : N) : list fact :=
  filter (fun t => is_member p (fst t) && at_model m t) S.

(* inheritance alone: least fixed point pushing member tuples along a fixed set of morphisms *)
Definition inherit_step (p : mprogram) (E : list (N * N)) (S : list fact) : list fact :=
  flat_map (fun e => mapped e (filter (fun t => is_member p (fst t)) S)) E.
Fixpoint inherit (fuel : nat) (p : mprogram) (E : list (N * N)) (S : list fact) : option (list fact) :=
  match fuel with
  | O => None
  | Datatypes.S n =>
      let S' := add_all (inherit_step p E S) S in
      if Nat.eqb (length S') (length S) then Some S else inherit n p E S'
  end.

Definition match_all (prem : list atom) (S : list fact) : list subst :=
  match_srcs (map (fun a => (a, S)) prem) [[]].
Definition rule_step (r : mrule) (S : list fact) : list fact := flat_map (conclusions r) (match_all (r_prem r) S).
Definition step (p : mprogram) (S : list fact) : list fact :=
  inherit_step p (edges S) S ++ flat_map (fun r => rule_step r S) (mp_rules p).
(* naive chase with fuel *)
Fixpoint chase (fuel : nat) (p : mprogram) (S : list fact) : option (list fact) :=
  match fuel with
  | O => None
  | Datatypes.S n =>
      let S' := add_all (step p S) S in
      if Nat.eqb (length S') (length S) then Some S else chase n p S'
  end.

Definition same_key (a b : fact) : bool :=
  N.eqb (fst a) (fst b) && tuple_eqb (removelast (snd a)) (removelast (snd b)).
Definition functional_b (p : mprogram) (S : list fact) : bool :=
  forallb (fun a => negb (existsb (N.eqb (fst a)) (mp_funcs p)) ||
                    forallb (fun b => negb (same_key a b) || fact_eqb a b) S) S.

(* the specification run: a close replaces the state by its closure *)
Fixpoint spec_run (fuel : nat) (p : mprogram) (h : list mcall) (S : list fact) : option (list fact) :=
  match h with
  | [] => Some S
  | MFact t :: h' => spec_run fuel p h' (add_fact t S)
  | MClose :: h' => match chase fuel p S with Some S' => spec_run fuel p h' S' | None => None end
  end.
Definition facts_of (h : list mcall) : list fact :=
  flat_map (fun c => match c with MFact t => [t] | MClose => [] end) h.

(* ================================================================== PART 2: faithful model of the emitted loop *)
Record fstate := { g_new : list fact; g_old : list fact;            (* relations without a parent model *)
                   own_new : list fact; own_old : list fact;        (* <rel>_new_*_own, <rel>_old_*_own *)
                   all_new : list fact; all_old : list fact }.      (* <rel>_new_*_all, <rel>_old_*_all *)
Definition f_empty : fstate :=
  {| g_new := []; g_old := []; own_new := []; own_old := []; all_new := []; all_old := [] |}.

(* insert_<rel>: the guard looks at the (possibly stale) `all` copies; a new tuple goes to own AND all *)
Definition f_insert (p : mprogram) (st : fstate) (t : fact) : fstate :=
  if is_member p (fst t) then
    if mem t (all_new st) || mem t (all_old st) then st
    else {| g_new := g_new st; g_old := g_old st; own_new := own_new st ++ [t]; own_old := own_old st;
            all_new := all_new st ++ [t]; all_old := all_old st |}
  else
    if mem t (g_new st) || mem t (g_old st) then st
    else {| g_new := g_new st ++ [t]; g_old := g_old st; own_new := own_new st; own_old := own_old st;
            all_new := all_new st; all_old := all_old st |}.

(* morphism_toposort, set level: layers of edges whose domain has no incoming edge (Kahn). None = cycle.
   Any valid topological order gives the same sets below (FactsTopo.recompute_age_spec). *)
Definition no_incoming (E : list (N * N)) (n : N) : bool := forallb (fun e => negb (N.eqb (snd e) n)) E.
Fixpoint toposort (fuel : nat) (E : list (N * N)) : option (list (N * N)) :=
  match E with
  | [] => Some []
  | _ => match fuel with
         | O => None
         | Datatypes.S n =>
             let ready := filter (fun e => no_incoming E (fst e)) E in
             let rest := filter (fun e => negb (no_incoming E (fst e))) E in
             match ready with
             | [] => None
             | _ => match toposort n rest with Some l => Some (ready ++ l) | None => None end
             end
         end
  end.

(* one age of recompute_model_indices: all := own.clone(); for every morphism in order:
   own.remove_restriction(cod, mapped(all[dom])); all.insert_restriction(cod, mapped(all[dom])) *)
Definition rec_edge (oa : list fact * list fact) (e : N * N) : list fact * list fact :=
  let mp := mapped e (snd oa) in (remove_all mp (fst oa), add_all mp (snd oa)).
Definition recompute_age (order : list (N * N)) (own : list fact) : list fact * list fact :=
  fold_left rec_edge order (own, own).

Definition f_edges (st : fstate) : list (N * N) := edges (g_new st ++ g_old st).
Definition f_recompute (st : fstate) : option fstate :=
  let E := f_edges st in
  match toposort (length E) E with
  | None => None                         (* .expect("TODO: Return error about a cycle ...") panics *)
  | Some order =>
      let n := recompute_age order (own_new st) in
      let o := recompute_age order (own_old st) in
      Some {| g_new := g_new st; g_old := g_old st; own_new := fst n; own_old := fst o;
              all_new := snd n; all_old := snd o |}
  end.

(* move_new_to_old: own_new goes to own_old and to all_old; all_new is left stale until the next recompute *)
Definition f_move (st : fstate) : fstate :=
  {| g_new := []; g_old := add_all (g_new st) (g_old st);
     own_new := []; own_old := add_all (own_new st) (own_old st);
     all_new := all_new st; all_old := add_all (own_new st) (all_old st) |}.

(* the rule functions read `all` for member relations *)
Definition new_of (st : fstate) : list fact := g_new st ++ all_new st.
Definition old_of (st : fstate) : list fact := g_old st ++ all_old st.
(* semi-naive variants of a flat rule: atom i new, atoms before it old, atoms after it all *)
Fixpoint variants (done todo : list atom) (Nw Od : list fact) : list (list (atom * list fact)) :=
  match todo with
  | [] => []
  | a :: rest => (map (fun b => (b, Od)) done ++ (a, Nw) :: map (fun b => (b, Nw ++ Od)) rest)
                 :: variants (done ++ [a]) rest Nw Od
  end.
Definition fire_rule (r : mrule) (Nw Od : list fact) : list fact :=
  flat_map (fun srcs => flat_map (conclusions r) (match_srcs srcs [[]])) (variants [] (r_prem r) Nw Od).
Definition f_fire (p : mprogram) (st : fstate) : list fact :=
  flat_map (fun r => fire_rule r (new_of st) (old_of st)) (mp_rules p).

Definition f_dirty (st : fstate) : bool := negb (is_nil (g_new st)) || negb (is_nil (own_new st)).

(* loop { rules; move_new_to_old; apply_tuples; recompute_model_indices; if !is_dirty { return } } *)
Fixpoint f_loop (fuel : nat) (p : mprogram) (st : fstate) : option fstate :=
  match fuel with
  | O => None
  | Datatypes.S n =>
      let delta := f_fire p st in
      match f_recompute (fold_left (f_insert p) delta (f_move st)) with
      | None => None
      | Some st' => if f_dirty st' then f_loop n p st' else Some st'
      end
  end.
(* close_until(|_| false): canonicalize (nothing to do without equalities); recompute_model_indices; loop *)
Definition f_close (fuel : nat) (p : mprogram) (st : fstate) : option fstate :=
  match f_recompute st with
  | None => None
  | Some st' => f_loop fuel p st'
  end.
(* what the public iterators and queries show: <rel>_new ++ <rel>_old, the `all` copies for member relations *)
Definition f_visible (st : fstate) : list fact := g_new st ++ g_old st ++ all_new st ++ all_old st.

Fixpoint f_run (fuel : nat) (p : mprogram) (h : list mcall) (st : fstate) : option fstate :=
  match h with
  | [] => Some st
  | MFact t :: h' => f_run fuel p h' (f_insert p st t)
  | MClose :: h' => match f_close fuel p st with Some st' => f_run fuel p h' st' | None => None end
  end.
