(* Build/Props_C13.v -- C13 (the part the build model can see): the parallel component build is
   deterministic.  Proof for schedules; determinism of the sequential passes is validation (see DESIGN.md). *)

From Coq Require Import List NArith Bool.
From Build Require Import Model FactsBase FactsComp FactsSched FactsHistory FactsExamples.
Import ListNotations.
Open Scope N_scope.

(* The file system after a completed component build is the same for every schedule: every interleaving of
   the component steps, every removal order of stale files (and every set of armed rustc failures, as long
   as the build reports success).  The initial file system is arbitrary (any leftovers of earlier crashed
   builds). *)
Theorem C13_schedule_indep :
  forall (tbl : table) v cs fs sched1 sched2 ms1 ms2,
    NoDup (names cs) -> tbl v = Good cs ->
    build_steps ComponentMode tbl v fs sched1 = (ms1, Success) ->
    build_steps ComponentMode tbl v fs sched2 = (ms2, Success) ->
    forall k, get (apply_steps ms1 fs) k = get (apply_steps ms2 fs) k.
Proof. exact schedule_indep. Qed.
Print Assumptions C13_schedule_indep.

(* ... and it is this function of the initial file system. *)
Theorem C13_final_tree :
  forall (tbl : table) v cs fs sched ms,
    NoDup (names cs) -> tbl v = Good cs -> digest_matches ComponentMode v fs = false ->
    build_steps ComponentMode tbl v fs sched = (ms, Success) ->
    forall k, get (apply_steps ms fs) k = final_tree cs v fs k.
Proof. exact build_final. Qed.
Print Assumptions C13_final_tree.

(* When rustc succeeds on every component the build completes with success under every schedule (the fuel
   of the model's loop always suffices). *)
Theorem C13_build_succeeds :
  forall (tbl : table) v cs fs sched,
    tbl v = Good cs -> s_rustc_fail sched = [] ->
    snd (build_steps ComponentMode tbl v fs sched) = Success.
Proof. exact build_succeeds. Qed.
Print Assumptions C13_build_succeeds.

(* Steps of different components touch different files, given distinct component names ... *)
Theorem C13_paths_disjoint :
  forall faults1 faults2 fs1 fs2 t1 t2 m1 m2 p1 p2,
    t_c t1 <> t_c t2 ->
    task_step faults1 fs1 t1 = (Some m1, p1) ->
    task_step faults2 fs2 t2 = (Some m2, p2) ->
    s_key m1 <> s_key m2.
Proof. exact paths_disjoint. Qed.
Print Assumptions C13_paths_disjoint.

(* ... every step of a component touches only that component's source, library or digest ... *)
Theorem C13_step_owner :
  forall faults fs t m p,
    task_step faults fs t = (Some m, p) -> comp_key_name (s_key m) = Some (t_c t).
Proof. exact task_step_owner. Qed.
Print Assumptions C13_step_owner.

(* ... and steps on different files commute. *)
Theorem C13_steps_commute :
  forall m1 m2 fs k,
    s_key m1 <> s_key m2 ->
    get (apply_step m1 (apply_step m2 fs)) k = get (apply_step m2 (apply_step m1 fs)) k.
Proof. exact steps_commute. Qed.
Print Assumptions C13_steps_commute.

(* ------------------------------------------------------------------ non-vacuity *)

(* Version 1 built from the leftovers of a crashed build of it (after a complete build of version 0), under
   three schedules: different step lists, all succeed, same tree. *)
Example C13_scenario :
  let fs := st_fs (fst (run_history ComponentMode tbl_e
                          [Build seq_sched None; Edit 1; Build seq_sched (Some (5%nat, true))])) in
  let b1 := build_steps ComponentMode tbl_e 1 fs seq_sched in
  let b2 := build_steps ComponentMode tbl_e 1 fs sched_a in
  let b3 := build_steps ComponentMode tbl_e 1 fs sched_c in
  snd b1 = Success /\ snd b2 = Success /\ snd b3 = Success /\
  length (fst b1) = 7%nat /\
  digest_matches ComponentMode 1 fs = false /\
  forallb (fun k => content_eqb (get (apply_steps (fst b1) fs) k) (get (apply_steps (fst b2) fs) k) &&
                    content_eqb (get (apply_steps (fst b1) fs) k) (get (apply_steps (fst b3) fs) k))
          [Module; TheoryDigest; CompSrc 1; CompLib 1; CompDigest 1; CompSrc 2; CompLib 2; CompDigest 2;
           CompSrc 3; CompLib 3; CompDigest 3] = true.
Proof. vm_compute. repeat split; reflexivity. Qed.

(* From empty directories the three schedules give three different step orders. *)
Example C13_scenario_orders :
  let b1 := build_steps ComponentMode tbl_e 0 [] seq_sched in
  let b2 := build_steps ComponentMode tbl_e 0 [] sched_a in
  let b3 := build_steps ComponentMode tbl_e 0 [] sched_c in
  map s_key (fst b1) <> map s_key (fst b2) /\ map s_key (fst b2) <> map s_key (fst b3) /\
  length (fst b1) = 15%nat /\ length (fst b2) = 15%nat /\ length (fst b3) = 15%nat.
Proof. vm_compute. repeat split; try reflexivity; discriminate. Qed.
