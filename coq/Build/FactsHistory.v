(* Build/FactsHistory.v -- a whole build preserves the invariant at every crash point; histories;
   fresh_after_success and noop_when_unchanged. *)

From Coq Require Import List NArith Bool Lia.
From Build Require Import Model FactsBase FactsComp FactsSched FactsPrune.
Import ListNotations.
Open Scope N_scope.

(* ------------------------------------------------------------------ small facts *)

Lemma pruned_absent sched cs fs k c :
  comp_key_name k = Some c -> find_comp c cs = None ->
  get (apply_steps (map rm_step (prune_list sched cs fs)) fs) k = Absent.
Proof.
  intros Hk F. rewrite get_rm_steps.
  destruct (mem_key k (prune_list sched cs fs)) eqn:M; [reflexivity|].
  apply mem_key_false in M. rewrite prune_list_spec in M.
  destruct (get fs k) eqn:G; try reflexivity;
    exfalso; apply M; exists c; (split; [exact Hk|split; [exact F|congruence]]).
Qed.

Lemma prune_keys_stale sched cs fs k :
  In k (prune_list sched cs fs) ->
  exists c, comp_key_name k = Some c /\ find_comp c cs = None.
Proof.
  rewrite prune_list_spec. intros [c [H1 [H2 _]]]. exists c. split; assumption.
Qed.

Lemma last_outcome_snoc recs r : last_outcome (recs ++ [r]) = Some (br_out r).
Proof. unfold last_outcome. rewrite rev_app_distr. reflexivity. Qed.

(* ------------------------------------------------------------------ histories, generically *)

Lemma run_events_snoc md tbl h : forall st sc cr stf recs,
  run_events md tbl st (h ++ [Build sc cr]) = (stf, recs) ->
  exists st1 recs1 fs' out ms,
    run_events md tbl st h = (st1, recs1) /\
    run_build md tbl (st_cur st1) (st_fs st1) sc cr = (fs', out, ms) /\
    stf = mkState fs' (st_cur st1) /\
    recs = recs1 ++ [mkRec out ms (steps_prune_safe (st_fs st1) ms)].
Proof.
  induction h as [|e h IH]; intros st sc cr stf recs H.
  - cbn [app run_events] in H.
    destruct (run_build md tbl (st_cur st) (st_fs st) sc cr) as [[fs' out] ms] eqn:RB.
    injection H as H1 H2. subst.
    exists st, [], fs', out, ms. cbn [run_events app]. repeat split; try reflexivity. exact RB.
  - cbn [app] in H. destruct e as [v|sc0 cr0]; cbn [run_events] in H |- *.
    + apply IH. exact H.
    + destruct (run_build md tbl (st_cur st) (st_fs st) sc0 cr0) as [[fs0 out0] ms0] eqn:RB0.
      destruct (run_events md tbl (mkState fs0 (st_cur st)) (h ++ [Build sc cr])) as [stf0 recs0] eqn:RE.
      injection H as H1 H2. subst.
      destruct (IH _ _ _ _ _ RE) as [st1 [recs1 [fs' [out [ms [E1 [E2 [E3 E4]]]]]]]].
      rewrite E1. exists st1, (mkRec out0 ms0 (steps_prune_safe (st_fs st) ms0) :: recs1), fs', out, ms.
      subst. repeat split; try reflexivity. exact E2.
Qed.

Lemma run_events_inv md tbl (I : fsys -> Prop) (C : build_rec -> Prop) :
  (forall v fs sc cr fs' out ms,
      I fs -> run_build md tbl v fs sc cr = (fs', out, ms) ->
      C (mkRec out ms (steps_prune_safe fs ms)) -> I fs') ->
  forall h st stf recs,
    I (st_fs st) -> run_events md tbl st h = (stf, recs) -> Forall C recs -> I (st_fs stf).
Proof.
  intros HB. induction h as [|e h IH]; intros st stf recs HI H HC; cbn [run_events] in H.
  - injection H as H1 H2. subst. exact HI.
  - destruct e as [v|sc cr].
    + eapply IH; [|exact H|exact HC]. exact HI.
    + destruct (run_build md tbl (st_cur st) (st_fs st) sc cr) as [[fs0 out0] ms0] eqn:RB0.
      destruct (run_events md tbl (mkState fs0 (st_cur st)) h) as [stf0 recs0] eqn:RE.
      injection H as H1 H2. subst. inversion HC as [|r l HC1 HC2 Eq]; subst.
      eapply IH; [|exact RE|exact HC2]. cbn [st_fs]. eapply HB; eassumption.
Qed.

(* ------------------------------------------------------------------ component mode *)

Section CompBuild.
  Variable tbl : table.
  Variable strict : bool.
  Hypothesis WF : wf_table tbl.

  Lemma guards_of_safe ms : forall fs,
    (strict = true -> steps_prune_safe fs ms = true) -> guards (guard strict) fs ms = true.
  Proof.
    induction ms as [|m r IH]; intros fs H; cbn [guards]; [reflexivity|].
    apply andb_true_iff. split.
    - unfold guard. destruct strict; [|reflexivity]. cbn [negb orb].
      specialize (H eq_refl). cbn [steps_prune_safe] in H. apply andb_true_iff in H. apply H.
    - apply IH. intro St. specialize (H St). cbn [steps_prune_safe] in H.
      apply andb_true_iff in H. apply H.
  Qed.

  Lemma build_chain v fs sched ms out :
    Inv tbl strict fs -> build_steps ComponentMode tbl v fs sched = (ms, out) ->
    chain (guard strict) (Inv tbl strict) (fun _ => True) fs ms.
  Proof.
    intros HI BS. unfold build_steps in BS.
    destruct (digest_matches ComponentMode v fs) eqn:DM.
    { injection BS as B1 B2. subst. apply ch_nil; [exact HI|exact I]. }
    set (m1 := mkStep remove_theory_digest (digest_key ComponentMode) Absent) in *.
    set (m2 := mkStep write_module Module (Val v)) in *.
    assert (M1 : Mid strict (apply_step m1 fs)).
    { destruct HI as [_ H2]. unfold apply_step, m1. cbn [s_key s_val digest_key]. split.
      - gp. reflexivity.
      - apply I2_put_other; [exact H2|reflexivity]. }
    destruct (tbl v) as [|cs] eqn:TV.
    { injection BS as B1 B2. subst.
      apply ch_cons; [exact HI|exact HI|]. intros _. apply ch_nil; [apply Mid_Inv; exact M1|exact I]. }
    assert (M2 : forall x, Mid strict (put Module x (apply_step m1 fs))).
    { intro x. destruct M1 as [A B]. split.
      - gp. exact A.
      - apply I2_put_other; [exact B|reflexivity]. }
    set (fs2 := apply_step m2 (apply_step m1 fs)) in *.
    destruct (comp_loop (4 * length (init_tasks cs)) (s_rustc_fail sched) (s_comp sched) (init_tasks cs) fs2)
      as [[ms0 tsf] fs3] eqn:CL.
    assert (CH : chain (guard strict) (Inv tbl strict)
                       (fun f => f = fs3 /\ J strict v cs f tsf) fs2 ms0).
    { refine (comp_loop_chain (guard strict) (Inv tbl strict) (s_rustc_fail sched) (J strict v cs)
                _ _ _ _ _ _ _ _ _ _ CL).
      - intros f ts HJ. eapply J_Inv. exact HJ.
      - intros f ts c om ts' HJ ST. eapply J_step; eassumption.
      - split; [exact (M2 (Val v))|]. split; [unfold fs2, apply_step, m2; cbn [s_key s_val]; gp; reflexivity|].
        split; [|split].
        + apply Forall_forall. intros t It. unfold init_tasks in It. apply in_map_iff in It.
          destruct It as [x [E _]]. subst t. exact I.
        + rewrite init_tasks_names. eapply WF. exact TV.
        + apply init_tasks_keys. }
    assert (PRE : forall rest, chain (guard strict) (Inv tbl strict) (fun _ => True) fs2 rest ->
                               chain (guard strict) (Inv tbl strict) (fun _ => True) fs (m1 :: m2 :: rest)).
    { intros rest C. apply ch_cons; [exact HI|exact HI|]. intros _.
      apply ch_cons; [apply Mid_Inv; exact M1|apply Mid_Inv; exact (M2 Torn)|]. intros _. exact C. }
    destruct (any_failed tsf).
    { injection BS as B1 B2. subst. apply PRE. eapply chain_weaken; [|exact CH]. intros; exact I. }
    destruct (all_done tsf) eqn:AD.
    2:{ injection BS as B1 B2. subst. apply PRE. eapply chain_weaken; [|exact CH]. intros; exact I. }
    injection BS as B1 B2. subst. apply PRE.
    eapply chain_app; [exact CH|]. intros f [Ef HJ]. subst f.
    assert (HP : P' strict v cs fs3).
    { destruct HJ as [HM [HMod HR]]. split; [exact HM|]. split; [exact HMod|].
      eapply J_done_members; [|exact AD]. exact (conj HM (conj HMod HR)). }
    unfold prune_steps. change (fun k => mkStep remove_stale_component_file k Absent) with rm_step.
    eapply chain_app.
    { apply (prune_chain tbl strict v cs); [|exact HP]. intros k Ik. eapply prune_keys_stale. exact Ik. }
    intros f [HPf Ef]. destruct HPf as [[HT H2] [HMod HG]].
    apply ch_cons.
    - apply Mid_Inv. split; assumption.
    - unfold apply_torn. cbn [s_lbl is_write s_key]. apply Mid_Inv. split.
      + gp. reflexivity.
      + apply I2_put_other; [exact H2|reflexivity].
    - intros _. apply ch_nil; [|exact I]. unfold apply_step. cbn [s_key s_val]. split.
      + intros v' Hv'. rewrite get_put_same in Hv'. injection Hv' as Hv'. subst v'.
        exists cs. split; [exact TV|]. apply tree_after_prune.
        * split; [split; assumption|]. split; assumption.
        * intros k c Hk F. subst f. eapply pruned_absent; eassumption.
      + apply I2_put_other; [exact H2|reflexivity].
  Qed.

  Lemma run_build_Inv v fs sc cr fs' out ms :
    Inv tbl strict fs -> run_build ComponentMode tbl v fs sc cr = (fs', out, ms) ->
    (strict = true -> steps_prune_safe fs ms = true) -> Inv tbl strict fs'.
  Proof.
    intros HI RB HS. unfold run_build in RB.
    destruct (build_steps ComponentMode tbl v fs sc) as [ms0 out0] eqn:BS.
    pose proof (build_chain _ _ _ _ _ HI BS) as CH.
    assert (DONE : ms = ms0 -> fs' = apply_steps ms0 fs -> Inv tbl strict fs').
    { intros E1 E2. subst.
      destruct (chain_prefix _ _ _ _ _ (length ms0) CH) as [K _].
      - rewrite firstn_all. apply guards_of_safe. exact HS.
      - rewrite firstn_all in K. exact K. }
    destruct cr as [[k torn]|].
    - destruct (skipn k ms0) as [|m r] eqn:SK.
      + injection RB as R1 R2 R3. subst. apply DONE; reflexivity.
      + injection RB as R1 R2 R3. subst.
        destruct (chain_prefix _ _ _ _ _ k CH) as [K1 K2].
        * apply guards_of_safe. exact HS.
        * destruct torn; [eapply K2; exact SK|exact K1].
    - injection RB as R1 R2 R3. subst. apply DONE; reflexivity.
  Qed.

  (* The pruning proviso always holds (FactsPrune), so the strict invariant needs no side condition. *)
  Lemma run_build_Inv_always v fs sc cr fs' out ms :
    Inv tbl strict fs -> run_build ComponentMode tbl v fs sc cr = (fs', out, ms) -> Inv tbl strict fs'.
  Proof.
    intros HI RB. eapply run_build_Inv; [exact HI|exact RB|]. intros _.
    eapply run_build_prune_safe. exact RB.
  Qed.

  Lemma build_steps_success v fs sched ms :
    build_steps ComponentMode tbl v fs sched = (ms, Success) ->
    get (apply_steps ms fs) TheoryDigest = Val v.
  Proof.
    intro BS. unfold build_steps in BS.
    destruct (digest_matches ComponentMode v fs) eqn:DM.
    - injection BS as B1. subst. cbn [apply_steps]. unfold digest_matches in DM.
      apply content_eqb_true in DM. exact DM.
    - destruct (tbl v) as [|cs]; [discriminate BS|].
      destruct (comp_loop _ _ _ _ _) as [[ms0 tsf] fs3].
      destruct (any_failed tsf); [discriminate BS|].
      destruct (all_done tsf); [|discriminate BS].
      injection BS as B1. subst. cbn [apply_steps]. rewrite !apply_steps_app. cbn [apply_steps].
      unfold apply_step at 1. cbn [s_key s_val]. gp. reflexivity.
  Qed.

  Lemma run_build_success v fs sc cr fs' ms :
    run_build ComponentMode tbl v fs sc cr = (fs', Success, ms) -> get fs' TheoryDigest = Val v.
  Proof.
    unfold run_build. destruct (build_steps ComponentMode tbl v fs sc) as [ms0 out0] eqn:BS. intro RB.
    destruct cr as [[k torn]|].
    - destruct (skipn k ms0) as [|m r]; [|discriminate RB].
      injection RB as R1 R2 R3. subst. eapply build_steps_success. exact BS.
    - injection RB as R1 R2 R3. subst. eapply build_steps_success. exact BS.
  Qed.

  (* The tree after a history whose last build reports success. *)
  Lemma comp_fresh_tree h sc cr st recs :
    run_history ComponentMode tbl (h ++ [Build sc cr]) = (st, recs) ->
    last_outcome recs = Some Success ->
    (strict = true -> Forall (fun r => br_prune_safe r = true) recs) ->
    exists cs, tbl (st_cur st) = Good cs /\ tree_is strict cs (st_cur st) (st_fs st).
  Proof.
    intros RH LO HS. unfold run_history in RH.
    destruct (run_events_snoc _ _ _ _ _ _ _ _ RH) as [st1 [recs1 [fs' [out [ms [E1 [E2 [E3 E4]]]]]]]].
    subst st recs. rewrite last_outcome_snoc in LO. cbn [br_out] in LO. injection LO as LO. subst out.
    cbn [st_cur st_fs].
    assert (I1' : Inv tbl strict (st_fs st1)).
    { eapply (run_events_inv ComponentMode tbl (Inv tbl strict)
               (fun r => strict = true -> br_prune_safe r = true)); [| |exact E1|].
      - intros v fs sc0 cr0 fs0 out0 ms0 HI RB HC. eapply run_build_Inv; eassumption.
      - apply Inv_nil.
      - apply Forall_forall. intros r Ir St. specialize (HS St). rewrite Forall_forall in HS.
        apply HS. apply in_or_app. left. exact Ir. }
    assert (I2' : Inv tbl strict fs').
    { eapply run_build_Inv; [exact I1'|exact E2|]. intro St. specialize (HS St).
      rewrite Forall_forall in HS.
      apply (HS (mkRec Success ms (steps_prune_safe (st_fs st1) ms))). apply in_or_app. right. left. reflexivity. }
    apply run_build_success in E2. destruct I2' as [A _]. exact (A _ E2).
  Qed.
End CompBuild.

(* ------------------------------------------------------------------ what a clean build produces *)

Definition expected (md : mode) (cs : list comp) (v : N) (k : fkey) : content :=
  match md with
  | ModuleMode => match k with Module => ValD v | _ => Absent end
  | ComponentMode =>
      match k with
      | Module => Val v
      | TheoryDigest => Val v
      | CompSrc c | CompLib c | CompDigest c =>
          match find_comp c cs with Some s => Val s | None => Absent end
      end
  end.

Lemma clean_comp tbl v cs :
  NoDup (names cs) -> tbl v = Good cs ->
  clean_outcome ComponentMode tbl v = Success /\
  forall k, get (clean_build ComponentMode tbl v) k = expected ComponentMode cs v k.
Proof.
  intros ND TV. unfold clean_outcome, clean_build, clean_run, run_build.
  pose proof (build_succeeds tbl v cs [] seq_sched TV eq_refl) as S.
  destruct (build_steps ComponentMode tbl v [] seq_sched) as [ms out] eqn:BS. cbn [snd fst] in *. subst out.
  split; [reflexivity|]. intro k.
  assert (DM : digest_matches ComponentMode v [] = false).
  { unfold digest_matches. rewrite get_nil. reflexivity. }
  rewrite (build_final tbl v cs [] seq_sched ms ND TV DM BS).
  assert (SK : forall c s, skip_test [] c s = false).
  { intros c s. unfold skip_test. rewrite !get_nil. reflexivity. }
  destruct k as [| |c|c|c]; cbn [final_tree expected]; try reflexivity;
    destruct (find_comp c cs); try reflexivity; rewrite SK; reflexivity.
Qed.

Lemma clean_module tbl v cs :
  tbl v = Good cs ->
  clean_outcome ModuleMode tbl v = Success /\
  forall k, get (clean_build ModuleMode tbl v) k = expected ModuleMode cs v k.
Proof.
  intro TV. unfold clean_outcome, clean_build, clean_run, run_build, build_steps, digest_matches.
  rewrite get_nil. cbn [content_eqb]. rewrite TV. cbn [fst snd]. split; [reflexivity|].
  intro k. cbn [apply_steps]. unfold apply_step. cbn [s_key s_val digest_key expected].
  destruct k; gp; try reflexivity; rewrite get_nil; reflexivity.
Qed.

(* ------------------------------------------------------------------ module mode *)

Section ModuleBuild.
  Variable tbl : table.

  Definition InvM (fs : fsys) : Prop :=
    (forall k, k <> Module -> get fs k = Absent) /\
    (forall w, get fs Module = ValD w -> exists cs, tbl w = Good cs).

  Definition okstep (m : step) : Prop :=
    s_key m = Module /\ (forall w, s_val m = ValD w -> exists cs, tbl w = Good cs).

  Lemma InvM_step fs m : InvM fs -> okstep m -> InvM (apply_step m fs).
  Proof.
    intros [A B] [K V]. unfold apply_step. rewrite K. split.
    - intros k Hk. rewrite get_put_other by congruence. apply A. exact Hk.
    - intros w. gp. apply V.
  Qed.

  Lemma InvM_torn fs m : InvM fs -> okstep m -> InvM (apply_torn m fs).
  Proof.
    intros [A B] [K V]. unfold apply_torn. destruct (is_write (s_lbl m)); [|split; assumption].
    rewrite K. split.
    - intros k Hk. rewrite get_put_other by congruence. apply A. exact Hk.
    - intros w. gp. discriminate.
  Qed.

  Lemma InvM_steps ms : forall fs, InvM fs -> Forall okstep ms -> InvM (apply_steps ms fs).
  Proof.
    induction ms as [|m r IH]; intros fs HI HF; cbn [apply_steps]; [exact HI|].
    inversion HF as [|a l H1 H2 Eq]; subst. apply IH; [apply InvM_step; assumption|exact H2].
  Qed.

  Lemma module_steps_ok v fs sched ms out :
    build_steps ModuleMode tbl v fs sched = (ms, out) -> Forall okstep ms.
  Proof.
    unfold build_steps. destruct (digest_matches ModuleMode v fs).
    - intro H. injection H as H1 H2. subst. constructor.
    - destruct (tbl v) as [|cs] eqn:TV; intro H; injection H as H1 H2; subst.
      + constructor; [|constructor]. split; [reflexivity|]. cbn [s_val]. discriminate.
      + repeat constructor; cbn [s_val]; try discriminate.
        intros w E. injection E as E. subst w. exists cs. exact TV.
  Qed.

  Lemma run_build_InvM v fs sc cr fs' out ms :
    InvM fs -> run_build ModuleMode tbl v fs sc cr = (fs', out, ms) -> InvM fs'.
  Proof.
    intros HI RB. unfold run_build in RB.
    destruct (build_steps ModuleMode tbl v fs sc) as [ms0 out0] eqn:BS.
    pose proof (module_steps_ok _ _ _ _ _ BS) as OK.
    destruct cr as [[k torn]|].
    - destruct (skipn k ms0) as [|m r] eqn:SK.
      + injection RB as R1 R2 R3. subst. apply InvM_steps; assumption.
      + injection RB as R1 R2 R3. subst.
        rewrite <- (firstn_skipn k ms0) in OK. apply Forall_app in OK. destruct OK as [O1 O2].
        rewrite SK in O2. inversion O2 as [|a l O3 O4 Eq]; subst.
        pose proof (InvM_steps _ _ HI O1) as K.
        destruct torn; [apply InvM_torn; assumption|exact K].
    - injection RB as R1 R2 R3. subst. apply InvM_steps; assumption.
  Qed.

  Lemma build_steps_success_module v fs sched ms :
    build_steps ModuleMode tbl v fs sched = (ms, Success) -> get (apply_steps ms fs) Module = ValD v.
  Proof.
    unfold build_steps. destruct (digest_matches ModuleMode v fs) eqn:DM.
    - intro H. injection H as H. subst. unfold digest_matches in DM. apply content_eqb_true in DM. exact DM.
    - destruct (tbl v); intro H; [discriminate H|]. injection H as H. subst.
      cbn [apply_steps]. unfold apply_step. cbn [s_key s_val]. gp. reflexivity.
  Qed.

  Lemma run_build_success_module v fs sc cr fs' ms :
    run_build ModuleMode tbl v fs sc cr = (fs', Success, ms) -> get fs' Module = ValD v.
  Proof.
    unfold run_build. destruct (build_steps ModuleMode tbl v fs sc) as [ms0 out0] eqn:BS. intro RB.
    destruct cr as [[k torn]|].
    - destruct (skipn k ms0) as [|m r]; [|discriminate RB].
      injection RB as R1 R2 R3. subst. eapply build_steps_success_module. exact BS.
    - injection RB as R1 R2 R3. subst. eapply build_steps_success_module. exact BS.
  Qed.

  Lemma InvM_nil : InvM [].
  Proof. split; intros; rewrite get_nil in *; [reflexivity|discriminate]. Qed.

  Lemma module_fresh_tree h sc cr st recs :
    run_history ModuleMode tbl (h ++ [Build sc cr]) = (st, recs) ->
    last_outcome recs = Some Success ->
    exists cs, tbl (st_cur st) = Good cs /\
               forall k, get (st_fs st) k = expected ModuleMode cs (st_cur st) k.
  Proof.
    intros RH LO. unfold run_history in RH.
    destruct (run_events_snoc _ _ _ _ _ _ _ _ RH) as [st1 [recs1 [fs' [out [ms [E1 [E2 [E3 E4]]]]]]]].
    subst st recs. rewrite last_outcome_snoc in LO. cbn [br_out] in LO. injection LO as LO. subst out.
    cbn [st_cur st_fs].
    assert (I1' : InvM (st_fs st1)).
    { eapply (run_events_inv ModuleMode tbl InvM (fun _ => True)); [| |exact E1|].
      - intros v fs sc0 cr0 fs0 out0 ms0 HI RB _. eapply run_build_InvM; eassumption.
      - apply InvM_nil.
      - apply Forall_forall. intros; exact I. }
    pose proof (run_build_InvM _ _ _ _ _ _ _ I1' E2) as [A B].
    apply run_build_success_module in E2. destruct (B _ E2) as [cs TV].
    exists cs. split; [exact TV|]. intro k. cbn [expected].
    destruct k; try (apply A; discriminate). exact E2.
  Qed.
End ModuleBuild.

(* ------------------------------------------------------------------ the theorems *)

Definition fresh_concl (md : mode) (tbl : table) (st : state) : Prop :=
  let v := st_cur st in
  let fs := st_fs st in
  let clean := clean_build md tbl v in
  clean_outcome md tbl v = Success /\
  (forall k, get fs k = get clean k) /\
  (forall c, In c (linked md fs) <-> In c (linked md clean)) /\
  (md = ComponentMode -> forall cs, tbl v = Good cs -> forall c, In c (linked md fs) <-> In c (names cs)).

Definition fresh_after_success_stmt (md : mode) : Prop :=
  forall tbl, wf_table tbl ->
  forall h sc cr st recs,
    run_history md tbl (h ++ [Build sc cr]) = (st, recs) ->
    last_outcome recs = Some Success ->
    fresh_concl md tbl st.

Lemma linked_lib_equiv fs1 fs2 :
  (forall c, get fs1 (CompLib c) = get fs2 (CompLib c)) ->
  forall c, In c (linked ComponentMode fs1) <-> In c (linked ComponentMode fs2).
Proof. intros H c. rewrite !linked_spec, H. tauto. Qed.

Lemma tree_lib_names strict cs v fs c :
  tree_is strict cs v fs -> (In c (linked ComponentMode fs) <-> In c (names cs)).
Proof.
  intros [_ T]. rewrite linked_spec. specialize (T c). destruct (find_comp c cs) as [s|] eqn:F.
  - destruct T as [_ [T _]]. rewrite T. split; [intros _|discriminate].
    apply find_comp_some_in in F. apply (in_map cname) in F. exact F.
  - destruct T as [_ [T _]]. rewrite T. apply find_comp_none in F. tauto.
Qed.

Theorem fresh_after_success_module : fresh_after_success_stmt ModuleMode.
Proof.
  intros tbl WF h sc cr st recs RH LO.
  destruct (module_fresh_tree tbl _ _ _ _ _ RH LO) as [cs [TV T]].
  destruct (clean_module tbl _ cs TV) as [CO CT].
  split; [exact CO|]. split; [|split].
  - intro k. rewrite T, CT. reflexivity.
  - intro c. cbn [linked]. tauto.
  - discriminate.
Qed.

(* Component mode, for histories whose performed pruning steps never removed a component source ahead of a
   still-valid component digest (which is every history, see fresh_after_success_comp below; this form also
   applies to traces in which the removal order is not the model's). *)
Theorem fresh_after_success_comp_safe tbl :
  wf_table tbl ->
  forall h sc cr st recs,
    run_history ComponentMode tbl (h ++ [Build sc cr]) = (st, recs) ->
    last_outcome recs = Some Success ->
    Forall (fun r => br_prune_safe r = true) recs ->
    fresh_concl ComponentMode tbl st.
Proof.
  intros WF h sc cr st recs RH LO SAFE.
  destruct (comp_fresh_tree tbl true WF _ _ _ _ _ RH LO (fun _ => SAFE)) as [cs [TV T]].
  destruct (clean_comp tbl _ cs (WF _ _ TV) TV) as [CO CT].
  assert (EQ : forall k, get (st_fs st) k = get (clean_build ComponentMode tbl (st_cur st)) k).
  { intro k. rewrite CT. destruct T as [TM TC]. cbn [expected].
    destruct k as [| |c|c|c].
    - exact TM.
    - (* the theory digest *)
      unfold run_history in RH.
      destruct (run_events_snoc _ _ _ _ _ _ _ _ RH) as [st1 [recs1 [fs' [out [ms [E1 [E2 [E3 E4]]]]]]]].
      subst st recs. rewrite last_outcome_snoc in LO. cbn [br_out] in LO. injection LO as LO. subst out.
      cbn [st_fs st_cur]. eapply run_build_success. exact E2.
    - specialize (TC c). destruct (find_comp c cs); [|apply TC].
      destruct TC as [[S|[S _]] _]; [exact S|discriminate S].
    - specialize (TC c). destruct (find_comp c cs); apply TC.
    - specialize (TC c). destruct (find_comp c cs); apply TC. }
  split; [exact CO|]. split; [exact EQ|]. split.
  - apply linked_lib_equiv. intro c. apply EQ.
  - intros _ cs' TV' c. rewrite TV in TV'. injection TV' as TV'. subst cs'.
    eapply tree_lib_names. exact T.
Qed.

Theorem fresh_after_success_comp : fresh_after_success_stmt ComponentMode.
Proof.
  intros tbl WF h sc cr st recs RH LO.
  eapply fresh_after_success_comp_safe; try eassumption.
  eapply run_events_prune_safe. exact RH.
Qed.

Theorem fresh_after_success : forall md, fresh_after_success_stmt md.
Proof. intros [|]; [exact fresh_after_success_module|exact fresh_after_success_comp]. Qed.

(* ------------------------------------------------------------------ no-op *)

Lemma noop_build md tbl v fs sc cr :
  digest_matches md v fs = true -> run_build md tbl v fs sc cr = (fs, Success, []).
Proof.
  intro DM. unfold run_build, build_steps. rewrite DM. destruct cr as [[k torn]|]; [|reflexivity].
  destruct k; reflexivity.
Qed.

Lemma success_digest_matches md tbl v fs sc cr fs' ms :
  run_build md tbl v fs sc cr = (fs', Success, ms) -> digest_matches md v fs' = true.
Proof.
  intro RB. destruct md; unfold digest_matches.
  - apply run_build_success_module in RB. rewrite RB. apply content_eqb_refl.
  - apply run_build_success in RB. rewrite RB. apply content_eqb_refl.
Qed.

(* A build directly after a successful build of the same version (an Edit that restores the same version
   in between changes nothing) performs no mutation, whatever its schedule or armed crash point. *)
Theorem noop_when_unchanged md tbl h sc cr st recs :
  run_history md tbl (h ++ [Build sc cr]) = (st, recs) ->
  last_outcome recs = Some Success ->
  forall sc' cr',
    run_build md tbl (st_cur st) (st_fs st) sc' cr' = (st_fs st, Success, []) /\
    run_history md tbl ((h ++ [Build sc cr]) ++ [Edit (st_cur st); Build sc' cr'])
      = (st, recs ++ [mkRec Success [] true]) /\
    run_history md tbl ((h ++ [Build sc cr]) ++ [Build sc' cr'])
      = (st, recs ++ [mkRec Success [] true]).
Proof.
  intros RH LO sc' cr'. unfold run_history in *.
  destruct (run_events_snoc _ _ _ _ _ _ _ _ RH) as [st1 [recs1 [fs' [out [ms [E1 [E2 [E3 E4]]]]]]]].
  subst recs. rewrite last_outcome_snoc in LO. cbn [br_out] in LO. injection LO as LO. subst out.
  pose proof (success_digest_matches _ _ _ _ _ _ _ _ E2) as DM.
  assert (NB : run_build md tbl (st_cur st) (st_fs st) sc' cr' = (st_fs st, Success, [])).
  { subst st. cbn [st_cur st_fs]. apply noop_build. exact DM. }
  split; [exact NB|].
  assert (APP : forall h2 st2 r2, run_events md tbl st h2 = (st2, r2) ->
            run_events md tbl init_state ((h ++ [Build sc cr]) ++ h2)
            = (st2, (recs1 ++ [mkRec Success ms (steps_prune_safe (st_fs st1) ms)]) ++ r2)).
  { clear NB. revert RH. generalize (recs1 ++ [mkRec Success ms (steps_prune_safe (st_fs st1) ms)]).
    generalize (h ++ [Build sc cr]). generalize init_state.
    intros s0 l. revert s0. induction l as [|e l IH]; intros s0 rr RH h2 st2 r2 H2.
    - cbn [run_events app] in *. injection RH as R1 R2. subst. exact H2.
    - cbn [app]. destruct e as [v|sc0 cr0]; cbn [run_events] in *.
      + eapply IH; eassumption.
      + destruct (run_build md tbl (st_cur s0) (st_fs s0) sc0 cr0) as [[fs0 out0] ms0].
        destruct (run_events md tbl (mkState fs0 (st_cur s0)) l) as [stf0 recs0] eqn:RE.
        injection RH as R1 R2. subst.
        rewrite (IH _ _ RE _ _ _ H2). reflexivity. }
  split.
  - apply APP. cbn [run_events st_fs st_cur]. rewrite NB. destruct st; reflexivity.
  - apply APP. cbn [run_events st_fs st_cur]. rewrite NB. destruct st; reflexivity.
Qed.
