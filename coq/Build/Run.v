(* Build/Run.v -- entry point for generated cases (`Eval vm_compute in (run_hist ...)`).

   ENCODING
   ========
   Input  run_hist (md : mode) (decls : list version_decl) (h : list revent) : result

   md        ModuleMode | ComponentMode                 (fixed for the whole history)
   decls     the versions of the theory; version v is the v-th element (0-based); ids past the end are Bad.
               None                              parse/check error (Bad)
               Some [(name, src, r); ...]        Good; one triple per rule component in rule order:
                                                   name : N  component name (distinct inside a version)
                                                   src  : N  identity of the generated component source; two
                                                             versions that generate the same text for the
                                                             component use the same number
                                                   r    : N  0 rustc succeeds on it, 1 rustc fails and leaves
                                                             the rlib as it was, 2 rustc fails and leaves a
                                                             torn rlib.  (Sugar: whenever this version is
                                                             built, (name, r=2) is appended to the build's
                                                             s_rustc_fail list.)
             The digest of version v, the module text of v are identified by the number v.
             The current version is 0 until the first REdit.
   h         REdit v                              the source file now holds version v
             RBuild sched crash                   run eqlog::process
               sched : schedule = mkSched comp_order prune_order rustc_fail   (Model.v)
                          seq_sched = mkSched [] [] []  is RAYON_NUM_THREADS=1 (components in rule order),
                          canonical read_dir order, no injected failure.
                          comp_order  : list N        component names, one entry = one step of that component
                          prune_order : list fkey     read_dir order of the stale files, e.g.
                                                      [CompSrc 2; CompDigest 2; CompLib 2]: listed stale files
                                                      first, unlisted ones after them (per stale component:
                                                      digest, rlib, source).  As in build.rs:669 the removal
                                                      order is this list with all digests moved to the front
                                                      (stable), so only the relative order inside the digest
                                                      group and inside the rs/rlib group matters.
                          rustc_fail  : list (N*bool) (name, leaves_torn) extra failures for this build only
               crash : option (N * bool)
                          None               not killed
                          Some (k, torn)     EQLOG_VERIF_CRASH_AT=k: killed when k mutation points have been
                                             passed and performed, i.e. right before mutation number k
                                             (0-based, the number printed in the trace); torn = EQLOG_VERIF_TORN
                                             set: if that mutation is a write_* its file is left torn.
                                             k >= number of mutations of the build: it completes.

   Output  (files, builds, linked)          Coq prints nested pairs left-flattened: a file entry appears as
                                            `(kind, name, (tag, x))`, a build as `(outcome, n, prune_safe, [..])`,
                                            a label entry as `(label, (kind, name))`.
   files   : list ((kind, name), (tag, x))   every existing file, sorted: module, theory digest, then per
                                             component name ascending: source, library, digest
               kind 0 module (name 0) | 1 theory digest file (name 0) | 2 component source <name>.rs
                    | 3 component library lib<name>.rlib | 4 component digest <name>.digest
               tag  1 torn (x = 0)
                    2 intact: x = version id (module, theory digest) or source id (component files)
                    3 module text of version x followed by the digest line of version x (module mode)
   builds  : one entry per RBuild, in order: (outcome, n, prune_safe, [(label, (kind, name)); ...])
               outcome    Success | Failed | Crashed | OutOfFuel (the last never happens, see Facts)
               n          number of mutations performed (= length of the label list)
               prune_safe false iff some performed remove_stale_component_file removed a component source
                          while that component's digest file was still a valid digest.  Always true for
                          the modelled order (Props_C12.C12_prune_always_safe); the same check can be run on
                          a trace of the implementation.
               labels     the verif_fs::point names, with the file they touched, in the order performed
   linked  : names of the component libraries in the component directory after the history, ascending
             (what print_cargo_link_directives would emit; [] in module mode).

   Comparison with the real tree: intact files are compared by identity (the driver knows which version /
   component source produced the bytes), torn files by "exists and is not any intact content".  Within the
   digest group and within the rs/rlib group stale files are removed in read_dir order in the implementation;
   for crash points that fall inside the pruning phase either pass the traced order as prune_order or compare
   modulo the files of stale components (the number of removed digests / other files is determined). *)

From Coq Require Import List NArith Bool.
From Build Require Import Model.
Import ListNotations.
Open Scope N_scope.

Definition version_decl := option (list (N * N * N)).

Inductive revent :=
| REdit (v : N)
| RBuild (sched : schedule) (crash : option (N * bool)).

Definition decl_body (d : version_decl) : vbody :=
  match d with
  | None => Bad
  | Some l => Good (map (fun x => mkComp (fst (fst x)) (snd (fst x))) l)
  end.

Definition table_of (decls : list version_decl) : table :=
  fun v => decl_body (nth (N.to_nat v) decls None).

Definition decl_faults (d : version_decl) : list (N * bool) :=
  match d with
  | None => []
  | Some l =>
      flat_map (fun x => match snd x with
                         | 0 => []
                         | 1 => [(fst (fst x), false)]
                         | _ => [(fst (fst x), true)]
                         end) l
  end.

(* Translate run-level events to model events (needs the current version for the rustc sugar). *)
Fixpoint to_events (decls : list version_decl) (cur : N) (h : list revent) : list event :=
  match h with
  | [] => []
  | REdit v :: r => Edit v :: to_events decls v r
  | RBuild sc cr :: r =>
      let sc' := mkSched (s_comp sc) (s_prune sc)
                         (s_rustc_fail sc ++ decl_faults (nth (N.to_nat cur) decls None)) in
      let cr' := match cr with None => None | Some (k, t) => Some (N.to_nat k, t) end in
      Build sc' cr' :: to_events decls cur r
  end.

Definition key_code (k : fkey) : N * N :=
  match k with
  | Module => (0, 0)
  | TheoryDigest => (1, 0)
  | CompSrc c => (2, c)
  | CompLib c => (3, c)
  | CompDigest c => (4, c)
  end.

Definition content_code (x : content) : N * N :=
  match x with
  | Absent => (0, 0)
  | Torn => (1, 0)
  | Val x => (2, x)
  | ValD x => (3, x)
  end.

Fixpoint insertN (c : N) (l : list N) : list N :=
  match l with
  | [] => [c]
  | d :: r => if N.leb c d then c :: l else d :: insertN c r
  end.

Definition sortN (l : list N) : list N := fold_right insertN [] l.

Definition all_keys (fs : fsys) : list fkey :=
  Module :: TheoryDigest ::
  flat_map (fun c => [CompSrc c; CompLib c; CompDigest c]) (sortN (dir_names fs)).

Definition file_map (fs : fsys) : list ((N * N) * (N * N)) :=
  flat_map (fun k => if exists_file (get fs k) then [(key_code k, content_code (get fs k))] else [])
           (all_keys fs).

Definition rec_code (r : build_rec) : outcome * N * bool * list (label * (N * N)) :=
  (br_out r, N.of_nat (length (br_steps r)), br_prune_safe r,
   map (fun m => (s_lbl m, key_code (s_key m))) (br_steps r)).

Definition result : Type :=
  (list ((N * N) * (N * N)) * list (outcome * N * bool * list (label * (N * N))) * list N)%type.

Definition run_hist (md : mode) (decls : list version_decl) (h : list revent) : result :=
  let '(st, recs) := run_history md (table_of decls) (to_events decls 0 h) in
  (file_map (st_fs st), map rec_code recs, sortN (linked md (st_fs st))).

(* The tree of a clean build of version v, same encoding of the file map. *)
Definition clean_tree (md : mode) (decls : list version_decl) (v : N) : list ((N * N) * (N * N)) :=
  file_map (clean_build md (table_of decls) v).

(* true iff the history ends in the tree of a clean build of its current version. *)
Definition ends_clean (md : mode) (decls : list version_decl) (h : list revent) : bool :=
  let '(st, _) := run_history md (table_of decls) (to_events decls 0 h) in
  let clean := clean_build md (table_of decls) (st_cur st) in
  forallb (fun k => content_eqb (get (st_fs st) k) (get clean k))
          (all_keys (st_fs st) ++ all_keys clean).
