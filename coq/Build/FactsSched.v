(* Build/FactsSched.v -- the parallel loop: tasks own disjoint files, enough fuel, no spurious failure,
   and the final file system of a completed component build as a function of the initial one
   (hence independent of the schedule). *)

From Coq Require Import List NArith Bool Lia.
From Build Require Import Model FactsBase FactsComp.
Import ListNotations.
Open Scope N_scope.

(* ------------------------------------------------------------------ disjoint paths *)

Lemma task_step_owner faults fs t m p :
  task_step faults fs t = (Some m, p) -> comp_key_name (s_key m) = Some (t_c t).
Proof.
  unfold task_step. intro H.
  destruct (t_pc t); try (destruct (skip_test fs (t_c t) (t_s t)));
    try (destruct (fault_of faults (t_c t))); try discriminate H;
    injection H as H1 H2; subst m; reflexivity.
Qed.

Lemma paths_disjoint faults1 faults2 fs1 fs2 t1 t2 m1 m2 p1 p2 :
  t_c t1 <> t_c t2 ->
  task_step faults1 fs1 t1 = (Some m1, p1) ->
  task_step faults2 fs2 t2 = (Some m2, p2) ->
  s_key m1 <> s_key m2.
Proof.
  intros D H1 H2 E. apply task_step_owner in H1. apply task_step_owner in H2.
  rewrite E in H1. rewrite H1 in H2. injection H2 as H2. contradiction.
Qed.

(* Steps of different components commute. *)
Lemma steps_commute m1 m2 fs k :
  s_key m1 <> s_key m2 ->
  get (apply_step m1 (apply_step m2 fs)) k = get (apply_step m2 (apply_step m1 fs)) k.
Proof.
  intro D. unfold apply_step. rewrite !get_put.
  destruct (fkey_eqb_spec (s_key m1) k) as [E1|E1], (fkey_eqb_spec (s_key m2) k) as [E2|E2];
    try reflexivity. congruence.
Qed.

(* ------------------------------------------------------------------ lifting a per-task invariant *)

Section Lift.
  Variable faults : list (N * bool).
  Variable fs0 : fsys.
  Variable tk0 : list (N * N).
  Variable TI : fsys -> task -> Prop.

  Hypothesis TI_frame : forall fs fs' u,
      (forall k, comp_key_name k = Some (t_c u) -> get fs' k = get fs k) -> TI fs u -> TI fs' u.
  Hypothesis TI_step : forall fs t om p,
      TI fs t -> task_step faults fs t = (om, p) ->
      match om with
      | None => TI fs (mkTask (t_c t) (t_s t) p)
      | Some m => TI (apply_step m fs) (mkTask (t_c t) (t_s t) p)
      end.

  Definition RL (fs : fsys) (ts : list task) : Prop :=
    Forall (TI fs) ts /\ NoDup (map t_c ts) /\ map tkey ts = tk0 /\
    (forall k, (forall c, comp_key_name k = Some c -> ~ In c (map fst tk0)) -> get fs k = get fs0 k).

  Lemma RL_step fs ts c om ts' :
    RL fs ts -> step_task faults fs c ts = (om, ts') ->
    match om with None => RL fs ts' | Some m => RL (apply_step m fs) ts' end.
  Proof.
    intros [HF [ND [HK HFr]]] ST.
    destruct (step_task_spec _ _ _ _ _ _ ST) as [[E1 E2]|[l1 [t [l2 [p [E1 [E2 [TS [E4 RN]]]]]]]]].
    - subst. exact (conj HF (conj ND (conj HK HFr))).
    - subst ts ts'.
      assert (HIt : TI fs t).
      { rewrite Forall_forall in HF. apply HF. apply in_or_app. right. left. reflexivity. }
      pose proof (TI_step _ _ _ _ HIt TS) as K.
      assert (ND' : NoDup (map t_c (l1 ++ mkTask (t_c t) (t_s t) p :: l2))).
      { rewrite map_app in *. cbn [map t_c] in *. exact ND. }
      assert (HK' : map tkey (l1 ++ mkTask (t_c t) (t_s t) p :: l2) = tk0).
      { rewrite <- HK. rewrite !map_app. cbn [map]. reflexivity. }
      destruct om as [m|].
      + pose proof (task_step_owner _ _ _ _ _ TS) as KK.
        assert (FR : forall u, In u (l1 ++ l2) -> TI (apply_step m fs) u).
        { intros u Iu. apply (TI_frame fs).
          - intros k Hk. unfold apply_step. apply get_put_other. intro E. subst k.
            rewrite KK in Hk. injection Hk as Hk. eapply NoDup_map_mid; eauto.
          - rewrite Forall_forall in HF. apply HF. apply in_app_or in Iu. apply in_or_app.
            destruct Iu as [Iu|Iu]; [left; exact Iu|right; right; exact Iu]. }
        split; [|split; [exact ND'|split; [exact HK'|]]].
        * apply Forall_forall. intros u Iu. apply in_app_or in Iu. destruct Iu as [Iu|[Iu|Iu]].
          -- apply FR. apply in_or_app. left. exact Iu.
          -- subst u. exact K.
          -- apply FR. apply in_or_app. right. exact Iu.
        * intros k Hk. unfold apply_step. rewrite get_put_other; [apply HFr; exact Hk|].
          intro E. subst k. apply (Hk _ KK). rewrite <- HK. rewrite map_map.
          apply in_map_iff. exists t. split; [reflexivity|]. apply in_or_app. right. left. reflexivity.
      + split; [|split; [exact ND'|split; [exact HK'|exact HFr]]].
        apply Forall_forall. intros u Iu. rewrite Forall_forall in HF.
        apply in_app_or in Iu. destruct Iu as [Iu|[Iu|Iu]].
        * apply HF. apply in_or_app. left. exact Iu.
        * subst u. exact K.
        * apply HF. apply in_or_app. right. right. exact Iu.
  Qed.
End Lift.

(* ------------------------------------------------------------------ enough fuel *)

Definition pc_left (p : pc) : nat :=
  match p with P0 => 4 | P1 => 3 | P2 => 2 | P3 => 1 | PDone => 0 | PFail => 0 end.

Definition total (ts : list task) : nat := fold_right (fun t n => (pc_left (t_pc t) + n)%nat) 0%nat ts.

Lemma total_app a b : total (a ++ b) = (total a + total b)%nat.
Proof. induction a as [|t a IH]; cbn [app total fold_right]; [reflexivity|]. fold (total (a ++ b)). fold (total a). lia. Qed.

Lemma total_init cs : total (init_tasks cs) = (4 * length cs)%nat.
Proof.
  induction cs as [|x r IH]; [reflexivity|].
  cbn [init_tasks map total fold_right t_pc pc_left length]. fold (init_tasks r). fold (total (init_tasks r)). lia.
Qed.

Lemma task_step_decreases faults fs t om p :
  runnable (t_pc t) = true -> task_step faults fs t = (om, p) -> (pc_left p < pc_left (t_pc t))%nat.
Proof.
  unfold task_step. intros RN H.
  destruct (t_pc t); try discriminate RN;
    try (destruct (skip_test fs (t_c t) (t_s t)));
    try (destruct (fault_of faults (t_c t)));
    injection H as H1 H2; subst p; cbn [pc_left]; lia.
Qed.

Lemma step_task_runnable faults fs c ts om ts' :
  runnable_name c ts = true -> step_task faults fs c ts = (om, ts') ->
  exists l1 t l2 p,
    ts = l1 ++ t :: l2 /\ ts' = l1 ++ mkTask (t_c t) (t_s t) p :: l2 /\
    task_step faults fs t = (om, p) /\ t_c t = c /\ runnable (t_pc t) = true.
Proof.
  unfold runnable_name. revert om ts'.
  induction ts as [|t r IH]; intros om ts' RN ST; cbn [existsb] in RN; [discriminate|].
  cbn [step_task] in ST. destruct (N.eqb (t_c t) c && runnable (t_pc t)) eqn:B.
  - destruct (task_step faults fs t) as [om0 p] eqn:TS. injection ST as H1 H2. subst.
    apply andb_true_iff in B. destruct B as [B1 B2]. apply N.eqb_eq in B1.
    exists [], t, r, p. cbn [app]. repeat split; assumption.
  - cbn [orb] in RN. destruct (step_task faults fs c r) as [om0 r'] eqn:ST'.
    injection ST as H1 H2. subst.
    destruct (IH om r' RN eq_refl) as [l1 [t0 [l2 [p [E1 [E2 [E3 [E4 E5]]]]]]]].
    exists (t :: l1), t0, l2, p. subst. cbn [app]. repeat split; assumption.
Qed.

Lemma runnable_name_step faults fs c ts om ts' :
  runnable_name c ts = true -> step_task faults fs c ts = (om, ts') -> (total ts' < total ts)%nat.
Proof.
  intros RN ST.
  destruct (step_task_runnable _ _ _ _ _ _ RN ST) as [l1 [t [l2 [p [E1 [E2 [TS [E4 R]]]]]]]].
  subst. rewrite !total_app. cbn [total fold_right t_pc].
  pose proof (task_step_decreases _ _ _ _ _ R TS) as D. fold (total l2). lia.
Qed.

Lemma first_runnable_name ts c : first_runnable ts = Some c -> runnable_name c ts = true.
Proof.
  unfold runnable_name. induction ts as [|t r IH]; cbn [first_runnable existsb]; [discriminate|].
  destruct (runnable (t_pc t)) eqn:RN; intro H.
  - injection H as H. subst c. rewrite N.eqb_refl. reflexivity.
  - rewrite (IH H). apply orb_true_r.
Qed.

Lemma find_runnable_name sched ts c r : find_runnable sched ts = Some (c, r) -> runnable_name c ts = true.
Proof.
  induction sched as [|d s IH]; cbn [find_runnable]; [discriminate|].
  destruct (runnable_name d ts) eqn:RN; intro H.
  - injection H as H1 H2. subst. exact RN.
  - apply IH. exact H.
Qed.

Lemma choose_name sched ts c r : choose sched ts = Some (c, r) -> runnable_name c ts = true.
Proof.
  unfold choose. destruct (find_runnable sched ts) as [[c0 r0]|] eqn:F.
  - intro H. injection H as H1 H2. subst. eapply find_runnable_name. exact F.
  - destruct (any_failed ts); [discriminate|].
    destruct (first_runnable ts) as [c0|] eqn:FR; [|discriminate].
    intro H. injection H as H1 H2. subst. apply first_runnable_name. exact FR.
Qed.

Lemma first_runnable_none ts : first_runnable ts = None -> forall t, In t ts -> runnable (t_pc t) = false.
Proof.
  induction ts as [|u r IH]; cbn [first_runnable In]; intros H t I; [contradiction|].
  destruct (runnable (t_pc u)) eqn:RN; [discriminate|].
  destruct I as [I|I]; [subst; exact RN|apply IH; assumption].
Qed.

Lemma stopped_done ts :
  (forall t, In t ts -> runnable (t_pc t) = false) -> any_failed ts = false -> all_done ts = true.
Proof.
  intros H F. unfold all_done. apply forallb_forall. intros t I.
  unfold any_failed in F. pose proof (H t I) as RN.
  assert (NF : is_fail (t_pc t) = false).
  { destruct (is_fail (t_pc t)) eqn:IF; [|reflexivity].
    assert (X : existsb (fun t => is_fail (t_pc t)) ts = true) by (apply existsb_exists; exists t; split; assumption).
    congruence. }
  destruct (t_pc t); try discriminate RN; try discriminate NF; reflexivity.
Qed.

Lemma total_zero ts : total ts = 0%nat -> forall t, In t ts -> runnable (t_pc t) = false.
Proof.
  induction ts as [|u r IH]; cbn [total fold_right In]; intros H t I; [contradiction|].
  fold (total r) in H. destruct I as [I|I].
  - subst. destruct (t_pc t); cbn [pc_left] in H; try lia; reflexivity.
  - apply IH; [lia|exact I].
Qed.

Lemma comp_loop_terminates faults fuel sched ts fs ms tsf fsf :
  (total ts <= fuel)%nat -> comp_loop fuel faults sched ts fs = (ms, tsf, fsf) ->
  any_failed tsf = true \/ all_done tsf = true.
Proof.
  revert sched ts fs ms tsf fsf.
  induction fuel as [|fuel IH]; intros sched ts fs ms tsf fsf LE H; cbn [comp_loop] in H.
  - injection H as H1 H2 H3. subst. destruct (any_failed tsf) eqn:AF; [left; reflexivity|right].
    apply stopped_done; [apply total_zero; lia|exact AF].
  - destruct (choose sched ts) as [[c r]|] eqn:CH.
    + pose proof (choose_name _ _ _ _ CH) as RN.
      destruct (step_task faults fs c ts) as [om ts'] eqn:ST.
      pose proof (runnable_name_step _ _ _ _ _ _ RN ST) as D.
      destruct om as [m|].
      * destruct (comp_loop fuel faults r ts' (apply_step m fs)) as [[ms0 tsf0] fsf0] eqn:CL.
        injection H as H1 H2 H3. subst. eapply IH; [|exact CL]. lia.
      * eapply IH; [|exact H]. lia.
    + injection H as H1 H2 H3. subst. unfold choose in CH.
      destruct (find_runnable sched tsf) as [[c0 r0]|]; [discriminate|].
      destruct (any_failed tsf) eqn:AF; [left; reflexivity|right].
      destruct (first_runnable tsf) eqn:FR; [discriminate|].
      apply stopped_done; [apply first_runnable_none; exact FR|exact AF].
Qed.

(* ------------------------------------------------------------------ no injected fault, no failure *)

Lemma comp_loop_nofail fuel sched ts fs ms tsf fsf :
  any_failed ts = false -> comp_loop fuel [] sched ts fs = (ms, tsf, fsf) -> any_failed tsf = false.
Proof.
  intros AF H.
  pose (R := fun (_ : fsys) (l : list task) => any_failed l = false).
  assert (K : fsf = apply_steps ms fs /\ R fsf tsf).
  { eapply (comp_loop_final [] R); [|exact AF|exact H].
    intros fs0 ts0 c om ts' HR ST. unfold R in *.
    assert (G : any_failed ts' = false).
    { destruct (step_task_spec _ _ _ _ _ _ ST) as [[E1 E2]|[l1 [t [l2 [p [E1 [E2 [TS [E4 RN]]]]]]]]].
      - subst. exact HR.
      - subst. unfold any_failed in *. rewrite existsb_app in *. cbn [existsb t_pc] in *.
        apply orb_false_iff in HR. destruct HR as [HR1 HR2]. apply orb_false_iff in HR2.
        destruct HR2 as [HR2 HR3]. rewrite HR1, HR3.
        assert (PF : is_fail p = false).
        { unfold task_step in TS. cbn [fault_of] in TS.
          destruct (t_pc t); try (destruct (skip_test fs0 (t_c t) (t_s t)));
            injection TS as T1 T2; subst p; try reflexivity; discriminate HR2. }
        rewrite PF. reflexivity. }
    destruct om; exact G. }
  apply K.
Qed.

Lemma any_failed_init cs : any_failed (init_tasks cs) = false.
Proof.
  unfold any_failed, init_tasks. induction cs as [|x r IH]; cbn [map existsb t_pc is_fail orb]; [reflexivity|exact IH].
Qed.

(* ------------------------------------------------------------------ the final tree of a completed build *)

Section Final.
  Variable faults : list (N * bool).
  Variable fs0 : fsys.

  (* What a task has done to its three files, as a function of the state at loop start. *)
  Definition task_det (fs : fsys) (t : task) : Prop :=
    let c := t_c t in
    let s := t_s t in
    match t_pc t with
    | P0 => get fs (CompDigest c) = get fs0 (CompDigest c) /\
            get fs (CompSrc c) = get fs0 (CompSrc c) /\ get fs (CompLib c) = get fs0 (CompLib c)
    | P1 => skip_test fs0 c s = false
    | P2 => skip_test fs0 c s = false /\ get fs (CompSrc c) = Val s
    | P3 => skip_test fs0 c s = false /\ get fs (CompSrc c) = Val s /\ get fs (CompLib c) = Val s
    | PDone =>
        if skip_test fs0 c s
        then get fs (CompDigest c) = get fs0 (CompDigest c) /\
             get fs (CompSrc c) = get fs0 (CompSrc c) /\ get fs (CompLib c) = get fs0 (CompLib c)
        else get fs (CompDigest c) = Val s /\ get fs (CompSrc c) = Val s /\ get fs (CompLib c) = Val s
    | PFail => True
    end.

  Lemma task_det_frame fs fs' u :
    (forall k, comp_key_name k = Some (t_c u) -> get fs' k = get fs k) ->
    task_det fs u -> task_det fs' u.
  Proof.
    intros F H. unfold task_det in *. rewrite ?F by reflexivity. exact H.
  Qed.

  Lemma task_det_step fs t om p :
    task_det fs t -> task_step faults fs t = (om, p) ->
    match om with
    | None => task_det fs (mkTask (t_c t) (t_s t) p)
    | Some m => task_det (apply_step m fs) (mkTask (t_c t) (t_s t) p)
    end.
  Proof.
    intros HI H. unfold task_step in H. unfold task_det in HI.
    destruct (t_pc t) eqn:PC.
    - destruct HI as [H1 [H2 H3]].
      assert (SK : skip_test fs (t_c t) (t_s t) = skip_test fs0 (t_c t) (t_s t)).
      { unfold skip_test. rewrite H1, H3. reflexivity. }
      destruct (skip_test fs (t_c t) (t_s t)) eqn:S; injection H as E1 E2; subst om p;
        unfold task_det; cbn [t_pc t_c t_s].
      + rewrite <- SK. repeat split; assumption.
      + symmetry. exact SK.
    - injection H as E1 E2; subst om p. unfold task_det, apply_step. cbn [t_pc t_c t_s s_key s_val].
      gp. split; [exact HI|reflexivity].
    - destruct HI as [H1 H2].
      destruct (fault_of faults (t_c t)) as [torn|]; injection H as E1 E2; subst om p;
        unfold task_det, apply_step; cbn [t_pc t_c t_s s_key s_val]; [exact I|].
      gp. repeat split; assumption.
    - destruct HI as [H1 [H2 H3]]. injection H as E1 E2; subst om p.
      unfold task_det, apply_step. cbn [t_pc t_c t_s s_key s_val]. rewrite H1. gp.
      repeat split; assumption.
    - injection H as E1 E2; subst om p. unfold task_det. cbn [t_pc t_c t_s]. exact HI.
    - injection H as E1 E2; subst om p. unfold task_det. cbn [t_pc t_c t_s]. exact HI.
  Qed.
End Final.

Definition final_tree (cs : list comp) (v : N) (fs : fsys) (k : fkey) : content :=
  match k with
  | Module => Val v
  | TheoryDigest => Val v
  | CompSrc c | CompLib c | CompDigest c =>
      match find_comp c cs with
      | Some s => if skip_test fs c s then get fs k else Val s
      | None => Absent
      end
  end.

Lemma init_tasks_names cs : map t_c (init_tasks cs) = names cs.
Proof. unfold init_tasks, names. rewrite map_map. reflexivity. Qed.

Lemma init_tasks_keys cs : map tkey (init_tasks cs) = map ckey cs.
Proof. unfold init_tasks. rewrite map_map. reflexivity. Qed.

Lemma map_fst_ckey cs : map fst (map ckey cs) = names cs.
Proof. unfold names. rewrite map_map. reflexivity. Qed.

Lemma build_final tbl v cs fs sched ms :
  NoDup (names cs) -> tbl v = Good cs -> digest_matches ComponentMode v fs = false ->
  build_steps ComponentMode tbl v fs sched = (ms, Success) ->
  forall k, get (apply_steps ms fs) k = final_tree cs v fs k.
Proof.
  intros ND TV DM BS k. unfold build_steps in BS. rewrite DM, TV in BS.
  set (m1 := mkStep remove_theory_digest (digest_key ComponentMode) Absent) in *.
  set (m2 := mkStep write_module Module (Val v)) in *.
  set (fs2 := apply_step m2 (apply_step m1 fs)) in *.
  destruct (comp_loop (4 * length (init_tasks cs)) (s_rustc_fail sched) (s_comp sched) (init_tasks cs) fs2)
    as [[ms0 tsf] fs3] eqn:CL.
  destruct (any_failed tsf); [discriminate BS|].
  destruct (all_done tsf) eqn:AD; [|discriminate BS].
  injection BS as BS. subst ms.
  (* the loop *)
  pose (R := RL fs2 (map ckey cs) (task_det fs2)).
  assert (K : fs3 = apply_steps ms0 fs2 /\ R fs3 tsf).
  { eapply (comp_loop_final (s_rustc_fail sched) R); [| |exact CL].
    - intros f ts c om ts' HR ST. eapply RL_step; try eassumption.
      + apply task_det_frame.
      + apply task_det_step.
    - unfold R, RL. split; [|split; [|split]].
      + apply Forall_forall. intros t It. unfold init_tasks in It. apply in_map_iff in It.
        destruct It as [x [E _]]. subst t. unfold task_det. cbn [t_pc]. repeat split; reflexivity.
      + rewrite init_tasks_names. exact ND.
      + apply init_tasks_keys.
      + intros; reflexivity. }
  destruct K as [E3 [HF [_ [HK HFr]]]].
  (* keys of fs2 vs fs *)
  assert (F2 : forall k', comp_key_name k' <> None -> get fs2 k' = get fs k').
  { intros k' Hk. unfold fs2, apply_step, m1, m2. cbn [s_key s_val digest_key].
    rewrite !get_put_other; [reflexivity| |]; intro E; subst k'; apply Hk; reflexivity. }
  assert (SK : forall c s, skip_test fs2 c s = skip_test fs c s).
  { intros c s. unfold skip_test. rewrite !F2 by discriminate. reflexivity. }
  (* members after the loop *)
  assert (MEM : forall c s k', find_comp c cs = Some s -> comp_key_name k' = Some c ->
                               get fs3 k' = if skip_test fs c s then get fs k' else Val s).
  { intros c s k' F Hk. apply find_comp_some_in in F. apply (in_map ckey) in F. rewrite <- HK in F.
    apply in_map_iff in F. destruct F as [t [E It]]. unfold ckey, tkey in E. cbn [cname csrc] in E.
    injection E as E1 E2. rewrite Forall_forall in HF. pose proof (HF t It) as HI.
    unfold all_done in AD. rewrite forallb_forall in AD. pose proof (AD t It) as D.
    unfold task_det in HI. destruct (t_pc t); try discriminate D. subst c s.
    rewrite SK in HI. destruct (skip_test fs (t_c t) (t_s t)).
    - destruct HI as [H1 [H2 H3]].
      destruct k' as [| |d|d|d]; try discriminate Hk; injection Hk as Hk; subst d;
        rewrite <- F2 by discriminate; assumption.
    - destruct HI as [H1 [H2 H3]].
      destruct k' as [| |d|d|d]; try discriminate Hk; injection Hk as Hk; subst d; assumption. }
  assert (MOD : get fs3 Module = Val v).
  { rewrite HFr; [|intros c Hc; discriminate Hc]. unfold fs2, apply_step, m2. cbn [s_key s_val]. gp. reflexivity. }
  (* assemble *)
  change (m1 :: m2 :: ms0 ++ prune_steps sched cs fs3 ++ [mkStep write_theory_digest TheoryDigest (Val v)])
    with ([m1; m2] ++ ms0 ++ prune_steps sched cs fs3 ++ [mkStep write_theory_digest TheoryDigest (Val v)]).
  rewrite !apply_steps_app. change (apply_steps [m1; m2] fs) with fs2. rewrite <- E3.
  cbn [apply_steps]. unfold apply_step at 1. cbn [s_key s_val].
  unfold prune_steps. change (fun k0 => mkStep remove_stale_component_file k0 Absent) with rm_step.
  set (ks := prune_list sched cs fs3).
  assert (KS : forall k', In k' ks <-> exists c, comp_key_name k' = Some c /\ find_comp c cs = None /\ get fs3 k' <> Absent).
  { intro k'. unfold ks. apply prune_list_spec. }
  assert (CK : forall c k', comp_key_name k' = Some c ->
             get (put TheoryDigest (Val v) (apply_steps (map rm_step ks) fs3)) k' = final_tree cs v fs k').
  { intros c k' Hk. rewrite get_put_other by (intro E; subst k'; discriminate Hk).
    rewrite get_rm_steps.
    assert (FT : final_tree cs v fs k' = match find_comp c cs with
                  | Some s => if skip_test fs c s then get fs k' else Val s | None => Absent end).
    { destruct k' as [| |d|d|d]; try discriminate Hk; injection Hk as Hk; subst d; reflexivity. }
    rewrite FT. destruct (find_comp c cs) as [s|] eqn:F.
    - assert (NI : mem_key k' ks = false).
      { apply mem_key_false. intro I. apply KS in I. destruct I as [c' [H1 [H2 _]]]. congruence. }
      rewrite NI. eapply MEM; eassumption.
    - destruct (mem_key k' ks) eqn:M; [reflexivity|].
      apply mem_key_false in M. destruct (get fs3 k') eqn:G; try reflexivity;
        exfalso; apply M; apply KS; exists c; (split; [exact Hk|split; [exact F|congruence]]). }
  destruct k as [| |c|c|c].
  - rewrite get_put_other by discriminate. rewrite get_rm_steps.
    destruct (mem_key Module ks) eqn:M; [|exact MOD].
    apply mem_key_spec in M. apply KS in M. destruct M as [c [Hc _]]. discriminate Hc.
  - gp. reflexivity.
  - apply (CK c). reflexivity.
  - apply (CK c). reflexivity.
  - apply (CK c). reflexivity.
Qed.

(* C13: the file system after a completed build does not depend on the schedule (order of component
   steps, order of removals, not even on which failures were armed as long as none fired). *)
Lemma schedule_indep tbl v cs fs sched1 sched2 ms1 ms2 :
  NoDup (names cs) -> tbl v = Good cs ->
  build_steps ComponentMode tbl v fs sched1 = (ms1, Success) ->
  build_steps ComponentMode tbl v fs sched2 = (ms2, Success) ->
  forall k, get (apply_steps ms1 fs) k = get (apply_steps ms2 fs) k.
Proof.
  intros ND TV B1 B2 k. destruct (digest_matches ComponentMode v fs) eqn:DM.
  - unfold build_steps in B1, B2. rewrite DM in B1, B2.
    injection B1 as B1. injection B2 as B2. subst. reflexivity.
  - rewrite (build_final _ _ _ _ _ _ ND TV DM B1), (build_final _ _ _ _ _ _ ND TV DM B2). reflexivity.
Qed.

(* Without injected rustc failures a build of a good version completes, whatever the schedule. *)
Lemma build_succeeds tbl v cs fs sched :
  tbl v = Good cs -> s_rustc_fail sched = [] ->
  snd (build_steps ComponentMode tbl v fs sched) = Success.
Proof.
  intros TV NF. unfold build_steps. destruct (digest_matches ComponentMode v fs); [reflexivity|].
  rewrite TV, NF.
  destruct (comp_loop (4 * length (init_tasks cs)) [] (s_comp sched) (init_tasks cs)
              (apply_step (mkStep write_module Module (Val v))
                 (apply_step (mkStep remove_theory_digest (digest_key ComponentMode) Absent) fs)))
    as [[ms0 tsf] fs3] eqn:CL.
  pose proof (comp_loop_nofail _ _ _ _ _ _ _ (any_failed_init cs) CL) as AF.
  assert (T : any_failed tsf = true \/ all_done tsf = true).
  { eapply comp_loop_terminates; [|exact CL]. rewrite total_init. unfold init_tasks. rewrite map_length. lia. }
  rewrite AF. destruct T as [T|T]; [congruence|]. rewrite T. reflexivity.
Qed.
