(* Build/FactsComp.v -- component mode: the invariant "a digest that parses vouches only for good files"
   and its preservation by every mutation of a build (hence by every crashed prefix and interleaving). *)

From Coq Require Import List NArith Bool Lia.
From Build Require Import Model FactsBase.
Import ListNotations.
Open Scope N_scope.

Ltac gp :=
  rewrite ?get_put_same; rewrite ?get_put_other by (discriminate || congruence).

(* ------------------------------------------------------------------ the parallel loop, generically *)

Lemma step_task_spec faults fs c ts om ts' :
  step_task faults fs c ts = (om, ts') ->
  (om = None /\ ts' = ts) \/
  exists l1 t l2 p,
    ts = l1 ++ t :: l2 /\ ts' = l1 ++ mkTask (t_c t) (t_s t) p :: l2 /\
    task_step faults fs t = (om, p) /\ t_c t = c /\ runnable (t_pc t) = true.
Proof.
  revert om ts'. induction ts as [|t r IH]; intros om ts' H; cbn [step_task] in H.
  - left. injection H as H1 H2. subst. split; reflexivity.
  - destruct (N.eqb (t_c t) c && runnable (t_pc t)) eqn:B.
    + destruct (task_step faults fs t) as [om0 p] eqn:TS. injection H as H1 H2. subst.
      apply andb_true_iff in B. destruct B as [B1 B2]. apply N.eqb_eq in B1.
      right. exists [], t, r, p. cbn [app]. repeat split; assumption.
    + destruct (step_task faults fs c r) as [om0 r'] eqn:ST. injection H as H1 H2. subst.
      destruct (IH om r' eq_refl) as [[E1 E2]|[l1 [t0 [l2 [p [E1 [E2 [E3 [E4 E5]]]]]]]]].
      * left. subst. split; reflexivity.
      * right. exists (t :: l1), t0, l2, p. subst. cbn [app]. repeat split; assumption.
Qed.

Section Loop.
  Variable g : fsys -> step -> bool.
  Variable P : fsys -> Prop.
  Variable faults : list (N * bool).
  Variable R : fsys -> list task -> Prop.

  Hypothesis R_P : forall fs ts, R fs ts -> P fs.
  Hypothesis R_step : forall fs ts c om ts',
      R fs ts -> step_task faults fs c ts = (om, ts') ->
      match om with
      | None => R fs ts'
      | Some m => P (apply_torn m fs) /\ R (apply_step m fs) ts'
      end.

  Lemma comp_loop_chain fuel sched ts fs ms tsf fsf :
    R fs ts -> comp_loop fuel faults sched ts fs = (ms, tsf, fsf) ->
    chain g P (fun f => f = fsf /\ R f tsf) fs ms.
  Proof.
    revert sched ts fs ms tsf fsf.
    induction fuel as [|fuel IH]; intros sched ts fs ms tsf fsf HR H; cbn [comp_loop] in H.
    - injection H as H1 H2 H3. subst. apply ch_nil; [eapply R_P; eassumption|split; [reflexivity|assumption]].
    - destruct (choose sched ts) as [[c r]|] eqn:CH.
      + destruct (step_task faults fs c ts) as [om ts'] eqn:ST.
        pose proof (R_step _ _ _ _ _ HR ST) as HS.
        destruct om as [m|].
        * destruct (comp_loop fuel faults r ts' (apply_step m fs)) as [[ms0 tsf0] fsf0] eqn:CL.
          injection H as H1 H2 H3. subst. destruct HS as [HT HR'].
          apply ch_cons; [eapply R_P; eassumption|exact HT|]. intros _.
          eapply IH; eassumption.
        * eapply IH; eassumption.
      + injection H as H1 H2 H3. subst.
        apply ch_nil; [eapply R_P; eassumption|split; [reflexivity|assumption]].
  Qed.
End Loop.

(* The loop's result is the result of applying its mutations, and any step-invariant holds at its end. *)
Lemma comp_loop_final faults (R : fsys -> list task -> Prop) :
  (forall fs ts c om ts',
      R fs ts -> step_task faults fs c ts = (om, ts') ->
      match om with None => R fs ts' | Some m => R (apply_step m fs) ts' end) ->
  forall fuel sched ts fs ms tsf fsf,
    R fs ts -> comp_loop fuel faults sched ts fs = (ms, tsf, fsf) ->
    fsf = apply_steps ms fs /\ R fsf tsf.
Proof.
  intros HS fuel sched ts fs ms tsf fsf HR H.
  assert (C : chain (fun _ _ => true) (fun _ => True) (fun f => f = fsf /\ R f tsf) fs ms).
  { eapply comp_loop_chain with (R := R); try eassumption.
    - intros; exact I.
    - intros fs0 ts0 c om ts' HR0 ST. pose proof (HS _ _ _ _ _ HR0 ST) as K.
      destruct om; [split; [exact I|exact K]|exact K]. }
  apply chain_end in C.
  - destruct C as [E HR']. split; [symmetry; exact E|rewrite <- E; exact HR'].
  - clear. revert fs. induction ms as [|m r IH]; intro fs; cbn [guards andb]; [reflexivity|apply IH].
Qed.

(* ------------------------------------------------------------------ the invariant *)

Section Inv.
  Variable tbl : table.
  (* strict = true : a valid component digest vouches for its source (and for its library if that exists).
                     This is the invariant of the model; it needs every performed pruning step to be
                     [step_safe], which FactsPrune.v proves for the digests-first removal order.
     strict = false: ... vouches for the source only if the source exists.  Holds for every removal order;
                     kept for judging traces whose removal order is not the model's (Regress.v). *)
  Variable strict : bool.

  Definition src_ok (fs : fsys) (c s : N) : Prop :=
    get fs (CompSrc c) = Val s \/ (strict = false /\ get fs (CompSrc c) = Absent).

  Definition lib_ok (fs : fsys) (c s : N) : Prop :=
    get fs (CompLib c) = Val s \/ get fs (CompLib c) = Absent.

  Definition I2 (fs : fsys) : Prop :=
    forall c s, get fs (CompDigest c) = Val s -> src_ok fs c s /\ lib_ok fs c s.

  Definition tree_is (cs : list comp) (v : N) (fs : fsys) : Prop :=
    get fs Module = Val v /\
    forall c,
      match find_comp c cs with
      | Some s => src_ok fs c s /\ get fs (CompLib c) = Val s /\ get fs (CompDigest c) = Val s
      | None => get fs (CompSrc c) = Absent /\ get fs (CompLib c) = Absent /\
                get fs (CompDigest c) = Absent
      end.

  Definition I1 (fs : fsys) : Prop :=
    forall v, get fs TheoryDigest = Val v -> exists cs, tbl v = Good cs /\ tree_is cs v fs.

  Definition Inv (fs : fsys) : Prop := I1 fs /\ I2 fs.

  (* While a build is between remove_theory_digest and write_theory_digest. *)
  Definition Mid (fs : fsys) : Prop := is_val (get fs TheoryDigest) = false /\ I2 fs.

  Definition guard (fs : fsys) (m : step) : bool := negb strict || step_safe fs m.

  Lemma Mid_Inv fs : Mid fs -> Inv fs.
  Proof.
    intros [HT H2]. split; [|exact H2]. intros v Hv. rewrite Hv in HT. discriminate HT.
  Qed.

  Lemma Inv_nil : Inv [].
  Proof.
    split.
    - intros v H. rewrite get_nil in H. discriminate H.
    - intros c s H. rewrite get_nil in H. discriminate H.
  Qed.

  Lemma I2_put_other fs k x : I2 fs -> comp_key_name k = None -> I2 (put k x fs).
  Proof.
    intros H Hk c s. unfold src_ok, lib_ok.
    rewrite !get_put_other by (intro E; subst k; discriminate Hk). apply H.
  Qed.

  Lemma I2_put_digest_noval fs c x : I2 fs -> is_val x = false -> I2 (put (CompDigest c) x fs).
  Proof.
    intros H Hx c' s. unfold src_ok, lib_ok. gp. rewrite get_put.
    destruct (fkey_eqb_spec (CompDigest c) (CompDigest c')) as [E|E].
    - intro E0. subst x. discriminate Hx.
    - apply H.
  Qed.

  Lemma I2_put_src fs c x :
    I2 fs -> is_val (get fs (CompDigest c)) = false -> I2 (put (CompSrc c) x fs).
  Proof.
    intros H Hd c' s. unfold src_ok, lib_ok. gp. intro Hg. destruct (H c' s Hg) as [Hs Hl].
    split; [|exact Hl]. rewrite get_put.
    destruct (fkey_eqb_spec (CompSrc c) (CompSrc c')) as [E|E]; [|exact Hs].
    injection E as E. subst c'. rewrite Hg in Hd. discriminate Hd.
  Qed.

  Lemma I2_put_lib fs c x :
    I2 fs -> is_val (get fs (CompDigest c)) = false -> I2 (put (CompLib c) x fs).
  Proof.
    intros H Hd c' s. unfold src_ok, lib_ok. gp. intro Hg. destruct (H c' s Hg) as [Hs Hl].
    split; [exact Hs|]. rewrite get_put.
    destruct (fkey_eqb_spec (CompLib c) (CompLib c')) as [E|E]; [|exact Hl].
    injection E as E. subst c'. rewrite Hg in Hd. discriminate Hd.
  Qed.

  Lemma I2_put_digest_val fs c s :
    I2 fs -> src_ok fs c s -> lib_ok fs c s -> I2 (put (CompDigest c) (Val s) fs).
  Proof.
    intros H Hs Hl c' s'. unfold src_ok, lib_ok in *. gp. rewrite get_put.
    destruct (fkey_eqb_spec (CompDigest c) (CompDigest c')) as [E|E].
    - injection E as E. subst c'. intro E0. injection E0 as E0. subst s'. split; assumption.
    - apply H.
  Qed.

  Lemma I2_rm_lib fs c : I2 fs -> I2 (put (CompLib c) Absent fs).
  Proof.
    intros H c' s. unfold src_ok, lib_ok. gp. intro Hg. destruct (H c' s Hg) as [Hs Hl].
    split; [exact Hs|]. rewrite get_put.
    destruct (fkey_eqb_spec (CompLib c) (CompLib c')) as [E|E]; [right; reflexivity|exact Hl].
  Qed.

  Lemma I2_rm_src_weak fs c : strict = false -> I2 fs -> I2 (put (CompSrc c) Absent fs).
  Proof.
    intros St H c' s. unfold src_ok, lib_ok. gp. intro Hg. destruct (H c' s Hg) as [Hs Hl].
    split; [|exact Hl]. rewrite get_put.
    destruct (fkey_eqb_spec (CompSrc c) (CompSrc c')) as [E|E]; [right; split; [exact St|reflexivity]|exact Hs].
  Qed.

  Lemma Mid_put_comp fs k x c :
    comp_key_name k = Some c -> is_val (get fs TheoryDigest) = false -> I2 (put k x fs) ->
    Mid (put k x fs).
  Proof.
    intros Hk HT H. split; [|exact H].
    rewrite get_put_other by (intro E; subst k; discriminate Hk). exact HT.
  Qed.

  (* ---------------------------------------------------------------- tasks *)

  Variable v : N.
  Variable faults : list (N * bool).

  Definition task_inv (fs : fsys) (t : task) : Prop :=
    let c := t_c t in
    let s := t_s t in
    match t_pc t with
    | P0 => True
    | P1 | PFail => is_val (get fs (CompDigest c)) = false
    | P2 => is_val (get fs (CompDigest c)) = false /\ get fs (CompSrc c) = Val s
    | P3 => is_val (get fs (CompDigest c)) = false /\ get fs (CompSrc c) = Val s /\
            get fs (CompLib c) = Val s
    | PDone => get fs (CompDigest c) = Val s /\ src_ok fs c s /\ get fs (CompLib c) = Val s
    end.

  Definition tkey (t : task) : N * N := (t_c t, t_s t).
  Definition ckey (x : comp) : N * N := (cname x, csrc x).

  Definition J (cs : list comp) (fs : fsys) (ts : list task) : Prop :=
    Mid fs /\ get fs Module = Val v /\ Forall (task_inv fs) ts /\
    NoDup (map t_c ts) /\ map tkey ts = map ckey cs.

  Lemma task_inv_frame fs fs' u :
    (forall k, comp_key_name k = Some (t_c u) -> get fs' k = get fs k) ->
    task_inv fs u -> task_inv fs' u.
  Proof.
    intros F H. unfold task_inv, src_ok in *. rewrite ?F by reflexivity. exact H.
  Qed.

  Lemma task_step_key fs t m p :
    task_step faults fs t = (Some m, p) -> comp_key_name (s_key m) = Some (t_c t).
  Proof.
    unfold task_step. intro H.
    destruct (t_pc t); try (destruct (skip_test fs (t_c t) (t_s t)));
      try (destruct (fault_of faults (t_c t))); try discriminate H;
      injection H as H1 H2; subst m; reflexivity.
  Qed.

  Lemma task_step_Mid fs t om p :
    Mid fs -> task_inv fs t -> task_step faults fs t = (om, p) ->
    match om with
    | None => task_inv fs (mkTask (t_c t) (t_s t) p)
    | Some m => Mid (apply_step m fs) /\ Mid (apply_torn m fs) /\
                task_inv (apply_step m fs) (mkTask (t_c t) (t_s t) p)
    end.
  Proof.
    intros [HT H2] HI H. unfold task_step in H. unfold task_inv in HI.
    destruct (t_pc t) eqn:PC.
    - (* P0 *)
      destruct (skip_test fs (t_c t) (t_s t)) eqn:SK; injection H as H1 H2'; subst om p.
      + unfold skip_test in SK. apply andb_true_iff in SK. destruct SK as [S1 S2].
        apply content_eqb_true in S1. apply exists_file_true in S2.
        destruct (H2 _ _ S1) as [Hs Hl]. unfold task_inv. cbn [t_pc t_c t_s].
        split; [exact S1|]. split; [exact Hs|]. destruct Hl as [Hl|Hl]; [exact Hl|contradiction].
      + unfold apply_step, apply_torn. cbn [s_key s_val s_lbl is_write].
        split; [|split].
        * eapply Mid_put_comp; [reflexivity|exact HT|]. apply I2_put_digest_noval; [exact H2|reflexivity].
        * split; assumption.
        * unfold task_inv. cbn [t_pc t_c t_s]. gp. reflexivity.
    - (* P1 *)
      injection H as H1 H2'; subst om p. unfold apply_step, apply_torn. cbn [s_key s_val s_lbl is_write].
      split; [|split].
      + eapply Mid_put_comp; [reflexivity|exact HT|]. apply I2_put_src; assumption.
      + eapply Mid_put_comp; [reflexivity|exact HT|]. apply I2_put_src; assumption.
      + unfold task_inv. cbn [t_pc t_c t_s]. gp. split; [exact HI|reflexivity].
    - (* P2 *)
      destruct HI as [HI1 HI2].
      destruct (fault_of faults (t_c t)) as [torn|]; injection H as H1 H2'; subst om p;
        unfold apply_step, apply_torn; cbn [s_key s_val s_lbl is_write].
      + split; [|split].
        * eapply Mid_put_comp; [reflexivity|exact HT|]. apply I2_put_lib; assumption.
        * split; assumption.
        * unfold task_inv. cbn [t_pc t_c t_s]. gp. exact HI1.
      + split; [|split].
        * eapply Mid_put_comp; [reflexivity|exact HT|]. apply I2_put_lib; assumption.
        * split; assumption.
        * unfold task_inv. cbn [t_pc t_c t_s]. gp. repeat split; assumption.
    - (* P3 *)
      destruct HI as [HI1 [HI2 HI3]]. injection H as H1 H2'; subst om p.
      unfold apply_step, apply_torn. cbn [s_key s_val s_lbl is_write].
      split; [|split].
      + eapply Mid_put_comp; [reflexivity|exact HT|].
        apply I2_put_digest_val; [exact H2|left; exact HI2|left; exact HI3].
      + eapply Mid_put_comp; [reflexivity|exact HT|]. apply I2_put_digest_noval; [exact H2|reflexivity].
      + unfold task_inv, src_ok. cbn [t_pc t_c t_s]. gp. split; [reflexivity|]. split; [left|]; assumption.
    - injection H as H1 H2'; subst om p. unfold task_inv. cbn [t_pc t_c t_s]. exact HI.
    - injection H as H1 H2'; subst om p. unfold task_inv. cbn [t_pc t_c t_s]. exact HI.
  Qed.

  Lemma NoDup_map_mid (l1 l2 : list task) t u :
    NoDup (map t_c (l1 ++ t :: l2)) -> In u (l1 ++ l2) -> t_c u <> t_c t.
  Proof.
    rewrite map_app. cbn [map]. intros ND I E. apply NoDup_remove_2 in ND. apply ND.
    rewrite <- map_app, <- E. apply in_map. exact I.
  Qed.

  Lemma J_step cs fs ts c om ts' :
    J cs fs ts -> step_task faults fs c ts = (om, ts') ->
    match om with
    | None => J cs fs ts'
    | Some m => Inv (apply_torn m fs) /\ J cs (apply_step m fs) ts'
    end.
  Proof.
    intros [HM [HMod [HF [ND HK]]]] ST.
    destruct (step_task_spec _ _ _ _ _ _ ST) as [[E1 E2]|[l1 [t [l2 [p [E1 [E2 [TS [E4 RN]]]]]]]]].
    - subst. exact (conj HM (conj HMod (conj HF (conj ND HK)))).
    - subst ts ts'.
      assert (HIt : task_inv fs t).
      { rewrite Forall_forall in HF. apply HF. apply in_or_app. right. left. reflexivity. }
      pose proof (task_step_Mid _ _ _ _ HM HIt TS) as K.
      assert (ND' : NoDup (map t_c (l1 ++ mkTask (t_c t) (t_s t) p :: l2))).
      { rewrite map_app in *. cbn [map t_c] in *. exact ND. }
      assert (HK' : map tkey (l1 ++ mkTask (t_c t) (t_s t) p :: l2) = map ckey cs).
      { rewrite <- HK. rewrite !map_app. cbn [map]. reflexivity. }
      destruct om as [m|].
      + destruct K as [K1 [K2 K3]]. pose proof (task_step_key _ _ _ _ TS) as KK.
        split; [apply Mid_Inv; exact K2|].
        assert (FR : forall u, In u (l1 ++ l2) -> task_inv (apply_step m fs) u).
        { intros u Iu. apply (task_inv_frame fs).
          - intros k Hk. unfold apply_step. apply get_put_other. intro E. subst k.
            rewrite KK in Hk. injection Hk as Hk. eapply NoDup_map_mid; eauto.
          - rewrite Forall_forall in HF. apply HF. apply in_app_or in Iu. apply in_or_app.
            destruct Iu as [Iu|Iu]; [left; exact Iu|right; right; exact Iu]. }
        split; [exact K1|]. split.
        { unfold apply_step. rewrite get_put_other; [exact HMod|].
          intro E. rewrite E in KK. discriminate KK. }
        split; [|split; assumption].
        apply Forall_forall. intros u Iu. apply in_app_or in Iu. destruct Iu as [Iu|[Iu|Iu]].
        * apply FR. apply in_or_app. left. exact Iu.
        * subst u. exact K3.
        * apply FR. apply in_or_app. right. exact Iu.
      + split; [exact HM|]. split; [exact HMod|]. split; [|split; assumption].
        apply Forall_forall. intros u Iu. rewrite Forall_forall in HF.
        apply in_app_or in Iu. destruct Iu as [Iu|[Iu|Iu]].
        * apply HF. apply in_or_app. left. exact Iu.
        * subst u. exact K.
        * apply HF. apply in_or_app. right. right. exact Iu.
  Qed.

  Lemma J_Inv cs fs ts : J cs fs ts -> Inv fs.
  Proof. intros [HM _]. apply Mid_Inv. exact HM. Qed.

  (* ---------------------------------------------------------------- after the loop *)

  Definition members_good (cs : list comp) (fs : fsys) : Prop :=
    forall c s, find_comp c cs = Some s ->
      get fs (CompDigest c) = Val s /\ src_ok fs c s /\ get fs (CompLib c) = Val s.

  Lemma J_done_members cs fs ts :
    J cs fs ts -> all_done ts = true -> members_good cs fs.
  Proof.
    intros [_ [_ [HF [_ HK]]]] AD c s F.
    apply find_comp_some_in in F. apply (in_map ckey) in F. rewrite <- HK in F.
    apply in_map_iff in F. destruct F as [t [E It]]. unfold ckey, tkey in E. cbn [cname csrc] in E.
    injection E as E1 E2.
    rewrite Forall_forall in HF. pose proof (HF t It) as HI.
    unfold all_done in AD. rewrite forallb_forall in AD. pose proof (AD t It) as D.
    unfold task_inv in HI. destruct (t_pc t); try discriminate D. subst c s. exact HI.
  Qed.

  Definition P' (cs : list comp) (fs : fsys) : Prop :=
    Mid fs /\ get fs Module = Val v /\ members_good cs fs.

  Lemma members_good_frame cs fs fs' :
    (forall k c, comp_key_name k = Some c -> find_comp c cs <> None -> get fs' k = get fs k) ->
    members_good cs fs -> members_good cs fs'.
  Proof.
    intros F H c s Fc. unfold src_ok.
    rewrite !(F _ c) by (try reflexivity; congruence). apply H. exact Fc.
  Qed.

  Lemma prune_chain cs ks :
    (forall k, In k ks -> exists c, comp_key_name k = Some c /\ find_comp c cs = None) ->
    forall fs, P' cs fs ->
    chain guard Inv (fun f => P' cs f /\ f = apply_steps (map rm_step ks) fs) fs (map rm_step ks).
  Proof.
    induction ks as [|k r IH]; intros HK fs HP; cbn [map].
    - apply ch_nil; [apply Mid_Inv; apply HP|split; [exact HP|reflexivity]].
    - assert (HI : Inv fs) by (apply Mid_Inv; apply HP).
      apply ch_cons; [exact HI|exact HI|]. intro G.
      cbn [apply_steps]. apply IH.
      + intros k' I. apply HK. right. exact I.
      + destruct (HK k (or_introl eq_refl)) as [c [Hc Hf]].
        destruct HP as [[HT H2] [HMod HG]]. unfold apply_step, rm_step. cbn [s_key s_val].
        split; [|split].
        * eapply Mid_put_comp; [exact Hc|exact HT|].
          destruct k as [| |d|d|d]; try discriminate Hc.
          -- unfold guard, step_safe, rm_step in G. cbn [s_lbl s_key] in G.
             destruct strict eqn:St; cbn [negb orb] in G.
             ++ apply I2_put_src; [exact H2|]. apply negb_true_iff in G. exact G.
             ++ apply I2_rm_src_weak; [exact St|exact H2].
          -- apply I2_rm_lib. exact H2.
          -- apply I2_put_digest_noval; [exact H2|reflexivity].
        * rewrite get_put_other; [exact HMod|]. intro E. subst k. discriminate Hc.
        * apply (members_good_frame cs fs); [|exact HG].
          intros k' c' Hk' Hn. apply get_put_other. intro E. subst k'. congruence.
  Qed.

  Lemma tree_after_prune cs fs :
    P' cs fs ->
    (forall k c, comp_key_name k = Some c -> find_comp c cs = None -> get fs k = Absent) ->
    tree_is cs v (put TheoryDigest (Val v) fs).
  Proof.
    intros [_ [HMod HG]] HA. split.
    - gp. exact HMod.
    - intro c. unfold src_ok. gp. destruct (find_comp c cs) as [s|] eqn:F.
      + destruct (HG c s F) as [G1 [G2 G3]]. repeat split; assumption.
      + repeat split; apply (HA _ c); (reflexivity || assumption).
  Qed.
End Inv.
