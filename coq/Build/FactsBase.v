(* Build/FactsBase.v -- get/put, directory listing, pruning order, the `chain` predicate. *)

From Coq Require Import List NArith Bool Lia.
From Build Require Import Model.
Import ListNotations.
Open Scope N_scope.

(* ------------------------------------------------------------------ keys and contents *)

Lemma fkey_eqb_spec a b : reflect (a = b) (fkey_eqb a b).
Proof.
  destruct a as [| |c|c|c], b as [| |d|d|d]; cbn [fkey_eqb];
    try (constructor; congruence);
    destruct (N.eqb_spec c d) as [E|E]; constructor; congruence.
Qed.

Lemma fkey_eqb_refl k : fkey_eqb k k = true.
Proof. destruct (fkey_eqb_spec k k) as [E|E]; [reflexivity|congruence]. Qed.

Lemma fkey_eqb_neq a b : a <> b -> fkey_eqb a b = false.
Proof. intro H. destruct (fkey_eqb_spec a b) as [E|E]; [congruence|reflexivity]. Qed.

Lemma content_eqb_spec a b : reflect (a = b) (content_eqb a b).
Proof.
  destruct a as [| |x|x], b as [| |y|y]; cbn [content_eqb];
    try (constructor; congruence);
    destruct (N.eqb_spec x y) as [E|E]; constructor; congruence.
Qed.

Lemma content_eqb_true a b : content_eqb a b = true -> a = b.
Proof. destruct (content_eqb_spec a b) as [E|E]; [auto|discriminate]. Qed.

Lemma content_eqb_refl a : content_eqb a a = true.
Proof. destruct (content_eqb_spec a a) as [E|E]; [reflexivity|congruence]. Qed.

Lemma is_val_false_not_val x s : is_val x = false -> x <> Val s.
Proof. intros H E. subst x. discriminate H. Qed.

Lemma exists_file_true x : exists_file x = true <-> x <> Absent.
Proof. destruct x; cbn [exists_file]; split; intro H; try congruence; try reflexivity. Qed.

(* ------------------------------------------------------------------ get / put *)

Lemma get_put k x fs k' : get (put k x fs) k' = if fkey_eqb k k' then x else get fs k'.
Proof. reflexivity. Qed.

Lemma get_put_same k x fs : get (put k x fs) k = x.
Proof. rewrite get_put, fkey_eqb_refl. reflexivity. Qed.

Lemma get_put_other k x fs k' : k <> k' -> get (put k x fs) k' = get fs k'.
Proof. intro H. rewrite get_put, (fkey_eqb_neq _ _ H). reflexivity. Qed.

Lemma get_nil k : get [] k = Absent.
Proof. reflexivity. Qed.

Lemma get_apply_step m fs k :
  get (apply_step m fs) k = if fkey_eqb (s_key m) k then s_val m else get fs k.
Proof. reflexivity. Qed.

Lemma apply_steps_app a b fs : apply_steps (a ++ b) fs = apply_steps b (apply_steps a fs).
Proof.
  revert fs. induction a as [|m a IH]; intro fs; cbn [apply_steps app]; [reflexivity|apply IH].
Qed.

Lemma get_in_keys fs k : get fs k <> Absent -> In k (map fst fs).
Proof.
  induction fs as [|[k' x] r IH]; cbn [get map fst]; intro H.
  - congruence.
  - destruct (fkey_eqb_spec k' k) as [E|E].
    + left. exact E.
    + right. apply IH. exact H.
Qed.

Global Opaque get put.

(* Case analysis on every key comparison produced by get_put. *)
Ltac kcase :=
  repeat match goal with
  | H : context [fkey_eqb ?a ?b] |- _ =>
      let E := fresh "E" in destruct (fkey_eqb_spec a b) as [E|E];
      [ try discriminate E; try (injection E as E; subst) | ]
  | |- context [fkey_eqb ?a ?b] =>
      let E := fresh "E" in destruct (fkey_eqb_spec a b) as [E|E];
      [ try discriminate E; try (injection E as E; subst) | ]
  end.

(* ------------------------------------------------------------------ membership helpers *)

Lemma memN_spec c l : memN c l = true <-> In c l.
Proof.
  induction l as [|d r IH]; cbn [memN In].
  - split; [discriminate|tauto].
  - rewrite orb_true_iff, IH. destruct (N.eqb_spec d c) as [E|E]; split; intro H.
    + left. exact E.
    + left. reflexivity.
    + destruct H as [H|H]; [discriminate|right; exact H].
    + destruct H as [H|H]; [congruence|right; exact H].
Qed.

Lemma dedupN_in c l : In c (dedupN l) <-> In c l.
Proof.
  induction l as [|d r IH]; cbn [dedupN In]; [tauto|].
  destruct (memN d r) eqn:M.
  - rewrite IH. apply memN_spec in M. split; [tauto|]. intros [H|H]; [subst; exact M|exact H].
  - cbn [In]. rewrite IH. tauto.
Qed.

Lemma mem_key_spec k l : mem_key k l = true <-> In k l.
Proof.
  induction l as [|d r IH]; cbn [mem_key In].
  - split; [discriminate|tauto].
  - rewrite orb_true_iff, IH. destruct (fkey_eqb_spec d k) as [E|E]; split; intro H.
    + left. exact E.
    + left. reflexivity.
    + destruct H as [H|H]; [discriminate|right; exact H].
    + destruct H as [H|H]; [congruence|right; exact H].
Qed.

Lemma mem_key_false k l : mem_key k l = false <-> ~ In k l.
Proof.
  rewrite <- mem_key_spec. destruct (mem_key k l); split; intro H; congruence.
Qed.

Lemma dedup_keys_in k l : In k (dedup_keys l) <-> In k l.
Proof.
  induction l as [|d r IH]; cbn [dedup_keys In]; [tauto|].
  destruct (mem_key d r) eqn:M.
  - rewrite IH. apply mem_key_spec in M. split; [tauto|]. intros [H|H]; [subst; exact M|exact H].
  - cbn [In]. rewrite IH. tauto.
Qed.

Lemma prune_order_in pref stale k : In k (prune_order pref stale) <-> In k stale.
Proof.
  unfold prune_order. rewrite in_app_iff, dedup_keys_in, !filter_In, negb_true_iff.
  rewrite mem_key_spec, mem_key_false, dedup_keys_in, filter_In, mem_key_spec.
  split.
  - intros [[_ H]|[H _]]; exact H.
  - intro H. destruct (in_dec (fun a b => reflect_dec _ _ (fkey_eqb_spec a b)) k pref) as [I|I].
    + left. tauto.
    + right. tauto.
Qed.

(* ------------------------------------------------------------------ directory listing, stale files *)

Lemma dir_names_complete fs k c :
  get fs k <> Absent -> comp_key_name k = Some c -> In c (dir_names fs).
Proof.
  intros H Hc. apply get_in_keys in H. unfold dir_names. apply dedupN_in.
  apply in_flat_map. apply in_map_iff in H. destruct H as [[k' x] [E I]]. cbn [fst] in E. subst k'.
  exists (k, x). split; [exact I|]. cbn [fst]. rewrite Hc. left. reflexivity.
Qed.

Lemma find_comp_none c cs : find_comp c cs = None <-> ~ In c (names cs).
Proof.
  unfold names. induction cs as [|x r IH]; cbn [find_comp map In]; [tauto|].
  destruct (N.eqb_spec (cname x) c) as [E|E].
  - split; [discriminate|]. intro H. exfalso. apply H. left. exact E.
  - rewrite IH. tauto.
Qed.

Lemma find_comp_some_in c s cs : find_comp c cs = Some s -> In (mkComp c s) cs.
Proof.
  induction cs as [|x r IH]; cbn [find_comp In]; [discriminate|].
  destruct (N.eqb_spec (cname x) c) as [E|E]; intro H.
  - left. injection H as H. destruct x as [n sr]. cbn [cname csrc] in *. subst. reflexivity.
  - right. apply IH. exact H.
Qed.

Lemma find_comp_in_nodup c s cs :
  NoDup (names cs) -> In (mkComp c s) cs -> find_comp c cs = Some s.
Proof.
  unfold names. induction cs as [|x r IH]; cbn [find_comp In map]; intros ND I; [contradiction|].
  inversion ND as [|a l Hnot ND' Eq]; subst.
  destruct I as [I|I].
  - subst x. cbn [cname csrc]. rewrite N.eqb_refl. reflexivity.
  - destruct (N.eqb_spec (cname x) c) as [E|E].
    + exfalso. apply Hnot. rewrite E. apply (in_map cname) in I. exact I.
    + apply IH; assumption.
Qed.

Lemma is_member_true c cs : is_member cs c = true <-> In c (names cs).
Proof.
  unfold is_member. destruct (find_comp c cs) eqn:F.
  - split; [intros _|reflexivity].
    apply find_comp_some_in in F. apply (in_map cname) in F. exact F.
  - apply find_comp_none in F. split; [discriminate|contradiction].
Qed.

Lemma is_member_false c cs : is_member cs c = false <-> find_comp c cs = None.
Proof.
  unfold is_member. destruct (find_comp c cs); split; congruence.
Qed.

Lemma comp_keys_in k c : In k (comp_keys c) <-> comp_key_name k = Some c.
Proof.
  unfold comp_keys. cbn [In]. split.
  - intros [H|[H|[H|[]]]]; subst k; reflexivity.
  - destruct k as [| |d|d|d]; cbn [comp_key_name]; intro H; try discriminate;
      injection H as H; subst d; tauto.
Qed.

Lemma stale_keys_spec cs fs k :
  In k (stale_keys cs fs) <->
  exists c, comp_key_name k = Some c /\ find_comp c cs = None /\ get fs k <> Absent.
Proof.
  unfold stale_keys. rewrite in_flat_map. split.
  - intros [c [Hd Hk]]. destruct (is_member cs c) eqn:M; [contradiction|].
    apply filter_In in Hk. destruct Hk as [Hk He].
    exists c. split; [apply comp_keys_in; exact Hk|]. split.
    + apply is_member_false. exact M.
    + apply exists_file_true. exact He.
  - intros [c [Hn [Hf Hg]]]. exists c. split.
    + eapply dir_names_complete; eassumption.
    + apply is_member_false in Hf. rewrite Hf. apply filter_In. split.
      * apply comp_keys_in. exact Hn.
      * apply exists_file_true. exact Hg.
Qed.

Lemma digest_first_in o k : In k (digest_first o) <-> In k o.
Proof.
  unfold digest_first. rewrite in_app_iff, !filter_In, negb_true_iff.
  destruct (is_digest_key k); split; intro H; tauto.
Qed.

Lemma prune_list_spec sched cs fs k :
  In k (prune_list sched cs fs) <->
  exists c, comp_key_name k = Some c /\ find_comp c cs = None /\ get fs k <> Absent.
Proof. unfold prune_list. rewrite digest_first_in, prune_order_in. apply stale_keys_spec. Qed.

Lemma linked_spec fs c :
  In c (linked ComponentMode fs) <-> get fs (CompLib c) <> Absent.
Proof.
  unfold linked. rewrite filter_In, exists_file_true. split; [tauto|].
  intro H. split; [|exact H]. eapply dir_names_complete; [exact H|reflexivity].
Qed.

(* Removing a list of keys. *)
Definition rm_step (k : fkey) : step := mkStep remove_stale_component_file k Absent.

Lemma get_rm_steps ks fs k :
  get (apply_steps (map rm_step ks) fs) k = if mem_key k ks then Absent else get fs k.
Proof.
  revert fs. induction ks as [|d r IH]; intro fs; cbn [map apply_steps mem_key]; [reflexivity|].
  rewrite IH. unfold apply_step, rm_step. cbn [s_key s_val]. rewrite get_put.
  destruct (fkey_eqb d k); cbn [orb]; [destruct (mem_key k r); reflexivity|reflexivity].
Qed.

(* ------------------------------------------------------------------ chains *)

(* [chain g P Q fs ms]: P holds in fs, after every prefix of ms, and after a torn version of every next
   step, as long as the guard g accepts the steps performed; Q holds at the end.  *)
Section Chain.
  Variable g : fsys -> step -> bool.
  Variable P : fsys -> Prop.

  Inductive chain (Q : fsys -> Prop) : fsys -> list step -> Prop :=
  | ch_nil fs : P fs -> Q fs -> chain Q fs []
  | ch_cons fs m ms :
      P fs -> P (apply_torn m fs) ->
      (g fs m = true -> chain Q (apply_step m fs) ms) ->
      chain Q fs (m :: ms).

  Fixpoint guards (fs : fsys) (ms : list step) : bool :=
    match ms with
    | [] => true
    | m :: r => g fs m && guards (apply_step m fs) r
    end.

  Lemma chain_P Q fs ms : chain Q fs ms -> P fs.
  Proof. intro H. destruct H; assumption. Qed.

  Lemma chain_app Q1 Q2 fs a b :
    chain Q1 fs a -> (forall f, Q1 f -> chain Q2 f b) -> chain Q2 fs (a ++ b).
  Proof.
    intros H K. induction H as [fs HP HQ|fs m ms HP HT HC IH]; cbn [app].
    - apply K. exact HQ.
    - apply ch_cons; [exact HP|exact HT|]. intro G. apply IH. exact G.
  Qed.

  Lemma chain_weaken (Q1 Q2 : fsys -> Prop) fs ms :
    (forall f, Q1 f -> Q2 f) -> chain Q1 fs ms -> chain Q2 fs ms.
  Proof.
    intros W H. induction H as [fs HP HQ|fs m ms HP HT HC IH].
    - apply ch_nil; auto.
    - apply ch_cons; auto.
  Qed.

  Lemma chain_end Q fs ms : chain Q fs ms -> guards fs ms = true -> Q (apply_steps ms fs).
  Proof.
    intro H. induction H as [fs HP HQ|fs m ms HP HT HC IH]; cbn [guards apply_steps]; intro G.
    - exact HQ.
    - apply andb_true_iff in G. destruct G as [G1 G2]. apply IH; assumption.
  Qed.

  Lemma guards_firstn k fs ms : guards fs ms = true -> guards fs (firstn k ms) = true.
  Proof.
    revert fs ms. induction k as [|k IH]; intros fs ms G; [reflexivity|].
    destruct ms as [|m r]; [reflexivity|]. cbn [firstn guards] in *.
    apply andb_true_iff in G. destruct G as [G1 G2]. rewrite G1. cbn [andb]. apply IH. exact G2.
  Qed.

  (* State after a crash at point k. *)
  Lemma chain_prefix Q fs ms k :
    chain Q fs ms -> guards fs (firstn k ms) = true ->
    P (apply_steps (firstn k ms) fs) /\
    (forall m r, skipn k ms = m :: r -> P (apply_torn m (apply_steps (firstn k ms) fs))).
  Proof.
    intro H. revert k. induction H as [fs HP HQ|fs m ms HP HT HC IH]; intros k G.
    - destruct k; cbn [firstn skipn apply_steps]; (split; [exact HP|intros m r E; discriminate E]).
    - destruct k as [|k]; cbn [firstn skipn apply_steps].
      + split; [exact HP|]. intros m' r E. injection E as E1 E2. subst m'. exact HT.
      + cbn [firstn guards] in G. apply andb_true_iff in G. destruct G as [G1 G2].
        apply IH; assumption.
  Qed.
End Chain.

Arguments ch_nil {g P Q}.
Arguments ch_cons {g P Q}.
