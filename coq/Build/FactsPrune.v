(* Build/FactsPrune.v -- the pruning loop removes all stale digests before any other stale file
   (build.rs:669), hence no performed pruning step ever removes a component source while that component's
   digest still parses: steps_prune_safe holds for every build, every schedule (read_dir order) and every
   crashed prefix. *)

From Coq Require Import List NArith Bool Lia.
From Build Require Import Model FactsBase FactsComp.
Import ListNotations.
Open Scope N_scope.

Lemma steps_prune_safe_app a b fs :
  steps_prune_safe fs (a ++ b) = steps_prune_safe fs a && steps_prune_safe (apply_steps a fs) b.
Proof.
  revert fs. induction a as [|m a IH]; intro fs; cbn [app steps_prune_safe apply_steps]; [reflexivity|].
  rewrite IH, andb_assoc. reflexivity.
Qed.

Lemma steps_prune_safe_firstn k : forall ms fs,
  steps_prune_safe fs ms = true -> steps_prune_safe fs (firstn k ms) = true.
Proof.
  induction k as [|k IH]; intros ms fs H; [reflexivity|].
  destruct ms as [|m r]; [reflexivity|]. cbn [firstn steps_prune_safe] in *.
  apply andb_true_iff in H. destruct H as [H1 H2]. rewrite H1. cbn [andb]. apply IH. exact H2.
Qed.

Definition nonprune (m : step) : Prop := s_lbl m <> remove_stale_component_file.

Lemma nonprune_safe ms : Forall nonprune ms -> forall fs, steps_prune_safe fs ms = true.
Proof.
  induction ms as [|m r IH]; intros HF fs; cbn [steps_prune_safe]; [reflexivity|].
  inversion HF as [|a l H1 H2 Eq]; subst. rewrite (IH H2). rewrite andb_true_r.
  unfold step_safe. unfold nonprune in H1. destruct (s_lbl m); try reflexivity. contradiction.
Qed.

Lemma task_step_label faults fs t m p : task_step faults fs t = (Some m, p) -> nonprune m.
Proof.
  unfold task_step, nonprune. intro H.
  destruct (t_pc t); try (destruct (skip_test fs (t_c t) (t_s t)));
    try (destruct (fault_of faults (t_c t))); try discriminate H;
    injection H as H1 H2; subst m; cbn [s_lbl]; discriminate.
Qed.

Lemma comp_loop_labels faults : forall fuel sched ts fs ms tsf fsf,
  comp_loop fuel faults sched ts fs = (ms, tsf, fsf) -> Forall nonprune ms.
Proof.
  induction fuel as [|fuel IH]; intros sched ts fs ms tsf fsf H; cbn [comp_loop] in H.
  - injection H as H1 H2 H3. subst. constructor.
  - destruct (choose sched ts) as [[c r]|].
    + destruct (step_task faults fs c ts) as [om ts'] eqn:ST. destruct om as [m|].
      * destruct (comp_loop fuel faults r ts' (apply_step m fs)) as [[ms0 tsf0] fsf0] eqn:CL.
        injection H as H1 H2 H3. subst. constructor; [|eapply IH; exact CL].
        destruct (step_task_spec _ _ _ _ _ _ ST) as [[E1 E2]|[l1 [t [l2 [p [E1 [E2 [TS _]]]]]]]].
        -- discriminate E1.
        -- eapply task_step_label. exact TS.
      * eapply IH. exact H.
    + injection H as H1 H2 H3. subst. constructor.
Qed.

(* Removing digests is always safe. *)
Lemma digests_safe ks : Forall (fun k => is_digest_key k = true) ks ->
  forall fs, steps_prune_safe fs (map rm_step ks) = true.
Proof.
  induction ks as [|k r IH]; intros HF fs; cbn [map steps_prune_safe]; [reflexivity|].
  inversion HF as [|a l H1 H2 Eq]; subst. rewrite (IH H2). rewrite andb_true_r.
  unfold step_safe, rm_step. cbn [s_lbl s_key]. destruct k; try reflexivity. discriminate H1.
Qed.

(* Removing anything is safe once the digest of every component whose source is to be removed is gone. *)
Lemma rest_safe ks : forall fs,
  (forall c, In (CompSrc c) ks -> get fs (CompDigest c) = Absent) ->
  steps_prune_safe fs (map rm_step ks) = true.
Proof.
  induction ks as [|k r IH]; intros fs H; cbn [map steps_prune_safe]; [reflexivity|].
  apply andb_true_iff. split.
  - unfold step_safe, rm_step. cbn [s_lbl s_key]. destruct k as [| |c|c|c]; try reflexivity.
    rewrite (H c (or_introl eq_refl)). reflexivity.
  - apply IH. intros c I. unfold apply_step, rm_step. cbn [s_key s_val]. rewrite get_put.
    destruct (fkey_eqb_spec k (CompDigest c)); [reflexivity|]. apply H. right. exact I.
Qed.

Lemma prune_steps_safe sched cs fs : steps_prune_safe fs (prune_steps sched cs fs) = true.
Proof.
  unfold prune_steps. change (fun k => mkStep remove_stale_component_file k Absent) with rm_step.
  unfold prune_list. set (o := prune_order (s_prune sched) (stale_keys cs fs)).
  unfold digest_first. rewrite map_app, steps_prune_safe_app. apply andb_true_iff. split.
  - apply digests_safe. apply Forall_forall. intros k I. apply filter_In in I. apply I.
  - apply rest_safe. intros c I. apply filter_In in I. destruct I as [I _].
    rewrite get_rm_steps.
    destruct (mem_key (CompDigest c) (filter is_digest_key o)) eqn:M; [reflexivity|].
    apply mem_key_false in M. rewrite filter_In in M.
    (* the source is stale, so the component is not a member; its digest is either stale too or absent *)
    unfold o in I. rewrite prune_order_in, stale_keys_spec in I.
    destruct I as [c' [Hn [Hf _]]]. cbn [comp_key_name] in Hn. injection Hn as Hn. subst c'.
    destruct (get fs (CompDigest c)) eqn:G; try reflexivity; exfalso; apply M;
      (split; [|reflexivity]); unfold o; rewrite prune_order_in, stale_keys_spec;
      exists c; (split; [reflexivity|split; [exact Hf|congruence]]).
Qed.

Lemma build_prune_safe tbl v fs sched ms out :
  build_steps ComponentMode tbl v fs sched = (ms, out) -> steps_prune_safe fs ms = true.
Proof.
  intros BS. unfold build_steps in BS.
  destruct (digest_matches ComponentMode v fs).
  { injection BS as B1 B2. subst. reflexivity. }
  destruct (tbl v) as [|cs].
  { injection BS as B1 B2. subst. apply nonprune_safe. repeat constructor; cbn [s_lbl]; discriminate. }
  set (m1 := mkStep remove_theory_digest (digest_key ComponentMode) Absent) in *.
  set (m2 := mkStep write_module Module (Val v)) in *.
  set (fs2 := apply_step m2 (apply_step m1 fs)) in *.
  destruct (comp_loop (4 * length (init_tasks cs)) (s_rustc_fail sched) (s_comp sched) (init_tasks cs) fs2)
    as [[ms0 tsf] fs3] eqn:CL.
  pose proof (comp_loop_labels _ _ _ _ _ _ _ _ CL) as LB.
  assert (PRE : Forall nonprune (m1 :: m2 :: ms0)).
  { constructor; [unfold nonprune, m1; cbn [s_lbl]; discriminate|].
    constructor; [unfold nonprune, m2; cbn [s_lbl]; discriminate|exact LB]. }
  assert (E3 : fs3 = apply_steps ms0 fs2).
  { eapply (comp_loop_final (s_rustc_fail sched) (fun _ _ => True)); [|exact I|exact CL].
    intros f ts c om ts' _ _. destruct om; exact I. }
  destruct (any_failed tsf); [injection BS as B1 B2; subst; apply nonprune_safe; exact PRE|].
  destruct (all_done tsf); [|injection BS as B1 B2; subst; apply nonprune_safe; exact PRE].
  injection BS as B1 B2. subst ms out.
  change (m1 :: m2 :: ms0 ++ prune_steps sched cs fs3 ++ [mkStep write_theory_digest TheoryDigest (Val v)])
    with ((m1 :: m2 :: ms0) ++ prune_steps sched cs fs3 ++ [mkStep write_theory_digest TheoryDigest (Val v)]).
  rewrite !steps_prune_safe_app. rewrite (nonprune_safe _ PRE). cbn [andb].
  change (apply_steps (m1 :: m2 :: ms0) fs) with (apply_steps ms0 fs2). rewrite <- E3.
  rewrite prune_steps_safe. reflexivity.
Qed.

Lemma run_build_prune_safe tbl v fs sc cr fs' out ms :
  run_build ComponentMode tbl v fs sc cr = (fs', out, ms) -> steps_prune_safe fs ms = true.
Proof.
  intros RB. unfold run_build in RB.
  destruct (build_steps ComponentMode tbl v fs sc) as [ms0 out0] eqn:BS.
  pose proof (build_prune_safe _ _ _ _ _ _ BS) as S.
  destruct cr as [[k torn]|].
  - destruct (skipn k ms0) as [|m r].
    + injection RB as R1 R2 R3. subst. exact S.
    + injection RB as R1 R2 R3. subst. apply steps_prune_safe_firstn. exact S.
  - injection RB as R1 R2 R3. subst. exact S.
Qed.

Lemma run_events_prune_safe tbl h : forall st stf recs,
  run_events ComponentMode tbl st h = (stf, recs) ->
  Forall (fun r => br_prune_safe r = true) recs.
Proof.
  induction h as [|e h IH]; intros st stf recs H; cbn [run_events] in H.
  - injection H as H1 H2. subst. constructor.
  - destruct e as [v|sc cr].
    + eapply IH; eassumption.
    + destruct (run_build ComponentMode tbl (st_cur st) (st_fs st) sc cr) as [[fs0 out0] ms0] eqn:RB.
      destruct (run_events ComponentMode tbl (mkState fs0 (st_cur st)) h) as [stf0 recs0] eqn:RE.
      injection H as H1 H2. subst. constructor.
      * cbn [br_prune_safe]. eapply run_build_prune_safe. exact RB.
      * eapply IH; eassumption.
Qed.
