(* Build/Props_C12.v -- C12: incremental builds are never stale, whatever edits and crashes came before.

   Model: Model.v (faithful to /repo/eqlog/src/build.rs at HEAD: component digest removed before its source
   and library are rewritten; stale component files pruned, digests first, before the theory digest is
   written).  Quantifiers: every table of versions with distinct component names per version, every history
   of Edit / Build events, every schedule (interleaving of component steps, read_dir order of the pruning
   loop, injected rustc failures leaving the old or a torn library), every crash point, torn or not.

   Status: everything below is proved at full strength; nothing partial.
     C12_fresh_after_success            both modes
     C12_invariant_every_crash_point    the invariant behind it ("a digest that is present and valid vouches
                                        only for good files"), preserved by every build killed anywhere
     C12_prune_always_safe              the flag br_prune_safe (printed by Run.v) is true for every build
     C12_noop_when_unchanged            both modes
   The three step orders that were fixed on the way (component digest not removed first; no pruning; pruning
   in plain read_dir order) are refuted in Regress.v, which is not part of the model. *)

From Coq Require Import List NArith Bool.
From Build Require Import Model FactsBase FactsComp FactsSched FactsPrune FactsHistory FactsExamples.
Import ListNotations.
Open Scope N_scope.

(* ------------------------------------------------------------------ C12-a *)

Theorem C12_fresh_after_success :
  forall (md : mode) (tbl : table),
    wf_table tbl ->
    forall h sc cr st recs,
      run_history md tbl (h ++ [Build sc cr]) = (st, recs) ->
      last_outcome recs = Some Success ->
      let v := st_cur st in
      let fs := st_fs st in
      let clean := clean_build md tbl v in
      clean_outcome md tbl v = Success /\
      (forall k, get fs k = get clean k) /\
      (forall c, In c (linked md fs) <-> In c (linked md clean)) /\
      (md = ComponentMode -> forall cs, tbl v = Good cs ->
                             forall c, In c (linked md fs) <-> In c (names cs)).
Proof. exact fresh_after_success. Qed.
Print Assumptions C12_fresh_after_success.

(* What the clean build is, explicitly (so that the theorem above cannot be true for a silly reason). *)
Theorem C12_clean_build_component :
  forall (tbl : table) v cs,
    NoDup (names cs) -> tbl v = Good cs ->
    clean_outcome ComponentMode tbl v = Success /\
    forall k, get (clean_build ComponentMode tbl v) k =
              match k with
              | Module => Val v
              | TheoryDigest => Val v
              | CompSrc c | CompLib c | CompDigest c =>
                  match find_comp c cs with Some s => Val s | None => Absent end
              end.
Proof. exact clean_comp. Qed.
Print Assumptions C12_clean_build_component.

Theorem C12_clean_build_module :
  forall (tbl : table) v cs,
    tbl v = Good cs ->
    clean_outcome ModuleMode tbl v = Success /\
    forall k, get (clean_build ModuleMode tbl v) k = match k with Module => ValD v | _ => Absent end.
Proof. exact clean_module. Qed.
Print Assumptions C12_clean_build_module.

(* "A digest that is present and valid vouches only for good files":
     Inv tbl true fs  :=  (forall v, theory digest = Val v -> v is Good cs and the whole tree is the tree of v)
                       /\ (forall c s, CompDigest c = Val s -> CompSrc c = Val s /\ CompLib c in {Val s, Absent})
   holds for empty directories (Inv_nil) and is preserved by every build, killed at any point, torn or not. *)
Theorem C12_invariant_every_crash_point :
  forall (tbl : table),
    wf_table tbl ->
    forall v fs sc cr fs' out ms,
      Inv tbl true fs ->
      run_build ComponentMode tbl v fs sc cr = (fs', out, ms) ->
      Inv tbl true fs'.
Proof. exact (fun tbl WF => run_build_Inv_always tbl true WF). Qed.
Print Assumptions C12_invariant_every_crash_point.

Theorem C12_invariant_initially : forall (tbl : table), Inv tbl true [].
Proof. exact (fun tbl => Inv_nil tbl true). Qed.
Print Assumptions C12_invariant_initially.

(* No performed pruning step removes a component source while that component's digest is still valid. *)
Theorem C12_prune_always_safe :
  forall (tbl : table) h st recs,
    run_history ComponentMode tbl h = (st, recs) ->
    Forall (fun r => br_prune_safe r = true) recs.
Proof. exact (fun tbl h => run_events_prune_safe tbl h init_state). Qed.
Print Assumptions C12_prune_always_safe.

(* For traces whose removal order is not the model's: freshness needs exactly that flag. *)
Theorem C12_fresh_after_success_if_prune_safe :
  forall (tbl : table),
    wf_table tbl ->
    forall h sc cr st recs,
      run_history ComponentMode tbl (h ++ [Build sc cr]) = (st, recs) ->
      last_outcome recs = Some Success ->
      Forall (fun r => br_prune_safe r = true) recs ->
      let v := st_cur st in
      let fs := st_fs st in
      let clean := clean_build ComponentMode tbl v in
      clean_outcome ComponentMode tbl v = Success /\
      (forall k, get fs k = get clean k) /\
      (forall c, In c (linked ComponentMode fs) <-> In c (linked ComponentMode clean)) /\
      (ComponentMode = ComponentMode -> forall cs, tbl v = Good cs ->
                             forall c, In c (linked ComponentMode fs) <-> In c (names cs)).
Proof. exact fresh_after_success_comp_safe. Qed.
Print Assumptions C12_fresh_after_success_if_prune_safe.

(* ------------------------------------------------------------------ C12-b *)

Theorem C12_noop_when_unchanged :
  forall (md : mode) (tbl : table) h sc cr st recs,
    run_history md tbl (h ++ [Build sc cr]) = (st, recs) ->
    last_outcome recs = Some Success ->
    forall sc' cr',
      run_build md tbl (st_cur st) (st_fs st) sc' cr' = (st_fs st, Success, []) /\
      run_history md tbl ((h ++ [Build sc cr]) ++ [Edit (st_cur st); Build sc' cr'])
        = (st, recs ++ [mkRec Success [] true]) /\
      run_history md tbl ((h ++ [Build sc cr]) ++ [Build sc' cr'])
        = (st, recs ++ [mkRec Success [] true]).
Proof. exact noop_when_unchanged. Qed.
Print Assumptions C12_noop_when_unchanged.

(* ------------------------------------------------------------------ non-vacuity *)

(* Three good versions (component source changed, component removed) and a syntax error; a build killed
   with a torn digest write, a failing rustc that leaves a torn library, a failed parse, a build killed
   inside the pruning phase (read_dir lists the source of the stale component first; its digest is removed
   first all the same); the last build reports success and the tree is the clean build of the current
   version. *)
Example C12_scenario_component :
  let r := run_history ComponentMode tbl_e (h_e ++ [Build seq_sched None]) in
  wf_table tbl_e /\
  map br_out (snd r) = [Success; Crashed; Failed; Failed; Crashed; Success] /\
  map (fun b => length (br_steps b)) (snd r) = [15; 5; 5; 1; 7; 5]%nat /\
  map s_key (skipn 6 (br_steps (nth 4 (snd r) (mkRec Failed [] true)))) = [CompDigest 2] /\
  last_outcome (snd r) = Some Success /\
  st_cur (fst r) = 2 /\
  forallb (fun k => content_eqb (get (st_fs (fst r)) k) (get (clean_build ComponentMode tbl_e 2) k))
          [Module; TheoryDigest; CompSrc 1; CompLib 1; CompDigest 1; CompSrc 2; CompLib 2; CompDigest 2;
           CompSrc 3; CompLib 3; CompDigest 3] = true /\
  get (st_fs (fst r)) (CompLib 1) = Val 11 /\
  linked ComponentMode (st_fs (fst r)) = [1; 3].
Proof.
  split; [exact tbl_e_wf|]. vm_compute. repeat split; reflexivity.
Qed.

Example C12_scenario_module :
  let r := run_history ModuleMode tbl_e (h_e_module ++ [Build seq_sched None]) in
  map br_out (snd r) = [Success; Crashed; Failed; Crashed; Success] /\
  last_outcome (snd r) = Some Success /\
  st_cur (fst r) = 2 /\
  get (st_fs (fst r)) Module = ValD 2 /\
  get (clean_build ModuleMode tbl_e 2) Module = ValD 2.
Proof. vm_compute. repeat split; reflexivity. Qed.

(* The no-op claim on the same scenario: the next build performs no mutation (even with a crash armed). *)
Example C12_scenario_noop :
  let r := run_history ComponentMode tbl_e
             ((h_e ++ [Build seq_sched None]) ++ [Build sched_a (Some (0%nat, true))]) in
  map (fun b => (br_out b, length (br_steps b))) (snd r)
  = [(Success, 15); (Crashed, 5); (Failed, 5); (Failed, 1); (Crashed, 7); (Success, 5); (Success, 0)]%nat.
Proof. vm_compute. reflexivity. Qed.

(* The invariant is not trivially true: a valid component digest next to a missing source violates it. *)
Example C12_invariant_discriminates :
  ~ Inv tbl_e true (put (CompLib 2) (Val 20) (put (CompDigest 2) (Val 20) [])).
Proof.
  intros [_ H].
  assert (D : get (put (CompLib 2) (Val 20) (put (CompDigest 2) (Val 20) [])) (CompDigest 2) = Val 20)
    by (vm_compute; reflexivity).
  destruct (H 2 20 D) as [[S|[S _]] _]; [vm_compute in S|]; discriminate S.
Qed.
