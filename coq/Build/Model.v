(* Build/Model.v -- executable model of the digest protocol of eqlog's build driver.

   SOURCE: /repo/eqlog/src/build.rs  (process, process_file, read_digest, write_digest, remove_digest,
   compile_component_rlib, the stale-file pruning loop, print_cargo_link_directives).

   No proofs in this file (Definitions / Fixpoints only).

   What is modelled
   ----------------
   * One theory file.  A *version* of the theory is a number [v : N] (its source identity; the theory digest
     is an injective function of it) and a [table : N -> vbody] says what the source of version v is:
     [Bad] (parse / check fails) or [Good cs] with the list of rule components (name, source identity).
   * Files: [Module | TheoryDigest | CompSrc c | CompLib c | CompDigest c];
     contents [Absent | Torn | Val x | ValD x].
       Module       : Val v  = generated module text of version v, no digest line
                      ValD v = module text of version v + "// DIGEST: <digest v>" as last line (module mode only)
       TheoryDigest : Val v  = <theory>.digest holding the digest of version v      (component mode only)
       CompSrc c    : Val s  = component source text with identity s
       CompLib c    : Val s  = rlib compiled from source s
       CompDigest c : Val s  = digest of (name c, source s)
       Torn         = a proper prefix of what was being written (never parses as a digest, but `exists()`).
   * A build is the list of file-system mutations the Rust code performs, in program order; the labels are
     the names of the `verif_fs::point` calls in build.rs, one per mutation.  Every mutation is preceded by
     the reads that decide it (the reads see the state left by the previous mutations).
       process_file, both modes:
         read_digest == digest v           -> no mutation, Success                       (build.rs:530)
         remove_theory_digest               (point fires even when the file is absent)   (build.rs:537,406)
         parse/check fails                 -> Failed                                     (build.rs:539,564)
         write_module                                                                    (build.rs:594)
       module mode:   write_module_digest (re-writes the module with the digest line)    (build.rs:390)
       component mode, per component, interleaved arbitrarily across components (par_bridge, build.rs:609):
         digest matches && rlib exists     -> nothing                                    (build.rs:445)
         remove_component_digest            (point fires even when absent)               (build.rs:453)
         write_component_source                                                          (build.rs:464)
         run_rustc                          ok: CompLib := Val s; fails: old value or Torn, component stops
         write_component_digest                                                          (build.rs:497)
       any component failed                -> Failed (no pruning, no theory digest)      (build.rs:633)
       remove_stale_component_file*         every existing file of a component that is not in v: the stale
                                            paths are collected in read_dir order (arbitrary: the schedule
                                            gives it) and stably sorted so that all `.digest` files come
                                            first; then removed in that order          (build.rs:649-675)
       write_theory_digest                                                               (build.rs:374)
   * A crash keeps the first k mutations; with the torn flag, and if mutation k+1 is a `write_*`, its file is
     left [Torn].
   * rustc reads the source *file*; the model writes [Val s] for the task's own s.  This is the same thing
     when component names are distinct (nobody else writes that file) -- theorems assume [wf_table].
   * Not modelled: create_dir_all (idempotent), several .eql files (each is handled independently, one after
     the other), fsync / power loss. *)

From Coq Require Import List NArith Bool.
Import ListNotations.
Open Scope N_scope.

Arguments N.add : simpl never.
Arguments N.sub : simpl never.
Arguments N.mul : simpl never.
Arguments N.eqb : simpl never.
Arguments N.ltb : simpl never.
Arguments N.leb : simpl never.

(* ------------------------------------------------------------------ files *)

Inductive mode := ModuleMode | ComponentMode.

Inductive fkey :=
| Module
| TheoryDigest
| CompSrc (c : N)
| CompLib (c : N)
| CompDigest (c : N).

Inductive content :=
| Absent
| Torn
| Val (x : N)
| ValD (x : N).

Definition fkey_eqb (a b : fkey) : bool :=
  match a, b with
  | Module, Module => true
  | TheoryDigest, TheoryDigest => true
  | CompSrc c, CompSrc d => N.eqb c d
  | CompLib c, CompLib d => N.eqb c d
  | CompDigest c, CompDigest d => N.eqb c d
  | _, _ => false
  end.

Definition content_eqb (a b : content) : bool :=
  match a, b with
  | Absent, Absent => true
  | Torn, Torn => true
  | Val x, Val y => N.eqb x y
  | ValD x, ValD y => N.eqb x y
  | _, _ => false
  end.

(* The file system: an association list, newest binding first. Only [get]/[put] are used on it, plus the
   directory listing [dir_names]. *)
Definition fsys := list (fkey * content).

Fixpoint get (fs : fsys) (k : fkey) : content :=
  match fs with
  | [] => Absent
  | (k', x) :: r => if fkey_eqb k' k then x else get r k
  end.

Definition put (k : fkey) (x : content) (fs : fsys) : fsys := (k, x) :: fs.

Definition exists_file (x : content) : bool :=
  match x with Absent => false | _ => true end.

Definition is_val (x : content) : bool :=
  match x with Val _ => true | _ => false end.

(* ------------------------------------------------------------------ mutations *)

(* Exactly the names passed to verif_fs::point in build.rs. *)
Inductive label :=
| remove_theory_digest
| write_module
| write_module_digest
| write_theory_digest
| remove_component_digest
| write_component_source
| run_rustc
| write_component_digest
| remove_stale_component_file.

Record step := mkStep { s_lbl : label; s_key : fkey; s_val : content }.

(* The points that pass `Some(content)` to verif_fs::point, i.e. the fs::write calls. *)
Definition is_write (l : label) : bool :=
  match l with
  | write_module | write_module_digest | write_theory_digest
  | write_component_source | write_component_digest => true
  | _ => false
  end.

Definition apply_step (m : step) (fs : fsys) : fsys := put (s_key m) (s_val m) fs.

Definition apply_torn (m : step) (fs : fsys) : fsys :=
  if is_write (s_lbl m) then put (s_key m) Torn fs else fs.

Fixpoint apply_steps (ms : list step) (fs : fsys) : fsys :=
  match ms with
  | [] => fs
  | m :: r => apply_steps r (apply_step m fs)
  end.

(* ------------------------------------------------------------------ versions *)

Record comp := mkComp { cname : N; csrc : N }.

Inductive vbody := Bad | Good (cs : list comp).

Definition table := N -> vbody.

Fixpoint find_comp (c : N) (cs : list comp) : option N :=
  match cs with
  | [] => None
  | x :: r => if N.eqb (cname x) c then Some (csrc x) else find_comp c r
  end.

Definition is_member (cs : list comp) (c : N) : bool :=
  match find_comp c cs with Some _ => true | None => false end.

(* ------------------------------------------------------------------ schedules *)

(* s_comp       : component names; each entry advances that component by one step (entries naming a
                  component that is finished are skipped).  When the list is exhausted the first unfinished
                  component in rule order advances -- unless some rustc has failed, in which case the build
                  stops there (so after a failure the others perform exactly the steps the schedule lists:
                  any prefix of their work).
   s_prune      : read_dir order of the stale files: the listed stale files first, in that order, the stale
                  files not listed after them in the canonical order (per stale component: digest, library,
                  source).  The removal order is this list stably sorted digests-first (build.rs:669).
   s_rustc_fail : (component name, leaves_torn) -- rustc fails for that component in this build and leaves
                  the library as it was (false) or torn (true). *)
Record schedule := mkSched {
  s_comp : list N;
  s_prune : list fkey;
  s_rustc_fail : list (N * bool)
}.

(* RAYON_NUM_THREADS=1: components one after the other in rule order, no injected rustc failure. *)
Definition seq_sched : schedule := mkSched [] [] [].

Fixpoint fault_of (faults : list (N * bool)) (c : N) : option bool :=
  match faults with
  | [] => None
  | (d, t) :: r => if N.eqb d c then Some t else fault_of r c
  end.

(* ------------------------------------------------------------------ component tasks *)

(* Program counter of compile_component_rlib for one component. *)
Inductive pc := P0 | P1 | P2 | P3 | PDone | PFail.

Record task := mkTask { t_c : N; t_s : N; t_pc : pc }.

Definition runnable (p : pc) : bool :=
  match p with PDone | PFail => false | _ => true end.

Definition init_tasks (cs : list comp) : list task :=
  map (fun x => mkTask (cname x) (csrc x) P0) cs.

(* build.rs:445  `source_digest_matches && rlib_path.exists()` *)
Definition skip_test (fs : fsys) (c s : N) : bool :=
  content_eqb (get fs (CompDigest c)) (Val s) && exists_file (get fs (CompLib c)).

(* One step of one task: the mutation (if any) and the next program counter. *)
Definition task_step (faults : list (N * bool)) (fs : fsys) (t : task) : option step * pc :=
  let c := t_c t in
  let s := t_s t in
  match t_pc t with
  | P0 => if skip_test fs c s then (None, PDone)
          else (Some (mkStep remove_component_digest (CompDigest c) Absent), P1)
  | P1 => (Some (mkStep write_component_source (CompSrc c) (Val s)), P2)
  | P2 => match fault_of faults c with
          | None => (Some (mkStep run_rustc (CompLib c) (Val s)), P3)
          | Some torn =>
              (Some (mkStep run_rustc (CompLib c) (if torn then Torn else get fs (CompLib c))), PFail)
          end
  | P3 => (Some (mkStep write_component_digest (CompDigest c) (Val s)), PDone)
  | PDone => (None, PDone)
  | PFail => (None, PFail)
  end.

(* Advance the first unfinished task named c. *)
Fixpoint step_task (faults : list (N * bool)) (fs : fsys) (c : N) (ts : list task)
  : option step * list task :=
  match ts with
  | [] => (None, [])
  | t :: r =>
      if N.eqb (t_c t) c && runnable (t_pc t) then
        let '(om, p) := task_step faults fs t in
        (om, mkTask (t_c t) (t_s t) p :: r)
      else
        let '(om, r') := step_task faults fs c r in (om, t :: r')
  end.

Definition runnable_name (c : N) (ts : list task) : bool :=
  existsb (fun t => N.eqb (t_c t) c && runnable (t_pc t)) ts.

Fixpoint find_runnable (sched : list N) (ts : list task) : option (N * list N) :=
  match sched with
  | [] => None
  | c :: r => if runnable_name c ts then Some (c, r) else find_runnable r ts
  end.

Fixpoint first_runnable (ts : list task) : option N :=
  match ts with
  | [] => None
  | t :: r => if runnable (t_pc t) then Some (t_c t) else first_runnable r
  end.

Definition is_fail (p : pc) : bool := match p with PFail => true | _ => false end.
Definition is_done (p : pc) : bool := match p with PDone => true | _ => false end.
Definition any_failed (ts : list task) : bool := existsb (fun t => is_fail (t_pc t)) ts.
Definition all_done (ts : list task) : bool := forallb (fun t => is_done (t_pc t)) ts.

Definition choose (sched : list N) (ts : list task) : option (N * list N) :=
  match find_runnable sched ts with
  | Some x => Some x
  | None => if any_failed ts then None
            else match first_runnable ts with Some c => Some (c, []) | None => None end
  end.

(* The parallel loop over the components. Returns the mutations in the order performed, the final tasks and
   the final file system. *)
Fixpoint comp_loop (fuel : nat) (faults : list (N * bool)) (sched : list N) (ts : list task) (fs : fsys)
  : list step * list task * fsys :=
  match fuel with
  | O => ([], ts, fs)
  | S f =>
      match choose sched ts with
      | None => ([], ts, fs)
      | Some (c, r) =>
          let '(om, ts') := step_task faults fs c ts in
          match om with
          | None => comp_loop f faults r ts' fs
          | Some m =>
              let '(ms, tsf, fsf) := comp_loop f faults r ts' (apply_step m fs) in
              (m :: ms, tsf, fsf)
          end
      end
  end.

(* ------------------------------------------------------------------ pruning *)

Definition comp_key_name (k : fkey) : option N :=
  match k with
  | CompSrc c | CompLib c | CompDigest c => Some c
  | _ => None
  end.

Fixpoint memN (c : N) (l : list N) : bool :=
  match l with [] => false | d :: r => N.eqb d c || memN c r end.

Fixpoint dedupN (l : list N) : list N :=
  match l with
  | [] => []
  | c :: r => if memN c r then dedupN r else c :: dedupN r
  end.

Fixpoint mem_key (k : fkey) (l : list fkey) : bool :=
  match l with [] => false | d :: r => fkey_eqb d k || mem_key k r end.

Fixpoint dedup_keys (l : list fkey) : list fkey :=
  match l with
  | [] => []
  | k :: r => if mem_key k r then dedup_keys r else k :: dedup_keys r
  end.

(* Names of the components that have (had) a file in the component directory. *)
Definition dir_names (fs : fsys) : list N :=
  dedupN (flat_map (fun kx => match comp_key_name (fst kx) with Some c => [c] | None => [] end) fs).

Definition comp_keys (c : N) : list fkey := [CompDigest c; CompLib c; CompSrc c].

(* Existing files of components that are not in the version, canonical order. *)
Definition stale_keys (cs : list comp) (fs : fsys) : list fkey :=
  flat_map (fun c => if is_member cs c then []
                     else filter (fun k => exists_file (get fs k)) (comp_keys c))
           (dir_names fs).

Definition prune_order (pref stale : list fkey) : list fkey :=
  let p := dedup_keys (filter (fun k => mem_key k stale) pref) in
  p ++ filter (fun k => negb (mem_key k p)) stale.

Definition is_digest_key (k : fkey) : bool :=
  match k with CompDigest _ => true | _ => false end.

(* build.rs:669  `stale_paths.sort_by_key(|path| path.extension() != Some("digest"))` -- a stable sort on a
   boolean key is this partition. *)
Definition digest_first (o : list fkey) : list fkey :=
  filter is_digest_key o ++ filter (fun k => negb (is_digest_key k)) o.

(* The removal order: read_dir order of the stale files, digests moved to the front. *)
Definition prune_list (sched : schedule) (cs : list comp) (fs : fsys) : list fkey :=
  digest_first (prune_order (s_prune sched) (stale_keys cs fs)).

Definition prune_steps (sched : schedule) (cs : list comp) (fs : fsys) : list step :=
  map (fun k => mkStep remove_stale_component_file k Absent) (prune_list sched cs fs).

(* What print_cargo_link_directives emits: every *.rlib in the component directory (module mode: nothing). *)
Definition linked (md : mode) (fs : fsys) : list N :=
  match md with
  | ModuleMode => []
  | ComponentMode => filter (fun c => exists_file (get fs (CompLib c))) (dir_names fs)
  end.

(* ------------------------------------------------------------------ one build *)

Inductive outcome := Success | Failed | Crashed | OutOfFuel.

Definition digest_key (md : mode) : fkey :=
  match md with ModuleMode => Module | ComponentMode => TheoryDigest end.

(* build.rs:530  `out_digest == Some(src_digest)` *)
Definition digest_matches (md : mode) (v : N) (fs : fsys) : bool :=
  match md with
  | ModuleMode => content_eqb (get fs Module) (ValD v)
  | ComponentMode => content_eqb (get fs TheoryDigest) (Val v)
  end.

Definition build_steps (md : mode) (tbl : table) (v : N) (fs : fsys) (sched : schedule)
  : list step * outcome :=
  if digest_matches md v fs then ([], Success)
  else
    let m1 := mkStep remove_theory_digest (digest_key md) Absent in
    match tbl v with
    | Bad => ([m1], Failed)
    | Good cs =>
        let m2 := mkStep write_module Module (Val v) in
        match md with
        | ModuleMode => ([m1; m2; mkStep write_module_digest Module (ValD v)], Success)
        | ComponentMode =>
            let fs2 := apply_step m2 (apply_step m1 fs) in
            let ts := init_tasks cs in
            let '(ms, tsf, fs3) :=
              comp_loop (4 * length ts) (s_rustc_fail sched) (s_comp sched) ts fs2 in
            if any_failed tsf then (m1 :: m2 :: ms, Failed)
            else if all_done tsf then
              (m1 :: m2 :: ms ++ prune_steps sched cs fs3
                  ++ [mkStep write_theory_digest TheoryDigest (Val v)], Success)
            else (m1 :: m2 :: ms, OutOfFuel)
        end
    end.

(* The no-op claim: a build whose digest matches performs no mutation. *)
Definition noop (md : mode) (tbl : table) (v : N) (fs : fsys) (sched : schedule) : bool :=
  match fst (build_steps md tbl v fs sched) with [] => true | _ => false end.

(* crash = Some (k, torn): killed when k mutations have been performed (EQLOG_VERIF_CRASH_AT = k);
   a k beyond the last mutation means the build ran to completion. *)
Definition run_build (md : mode) (tbl : table) (v : N) (fs : fsys) (sched : schedule)
           (crash : option (nat * bool)) : fsys * outcome * list step :=
  let '(ms, out) := build_steps md tbl v fs sched in
  match crash with
  | None => (apply_steps ms fs, out, ms)
  | Some (k, torn) =>
      match skipn k ms with
      | [] => (apply_steps ms fs, out, ms)
      | m :: _ =>
          let fs' := apply_steps (firstn k ms) fs in
          (if torn then apply_torn m fs' else fs', Crashed, firstn k ms)
      end
  end.

(* A pruning step that removes a component source while that component's digest still parses is the one
   order of removals after which a kill leaves a digest vouching for a missing file (Regress.v shows the
   stale build this caused when the removals were done in plain read_dir order).  With digests removed first
   it cannot happen: FactsPrune.build_prune_safe proves this check true for every build of this model.  It
   is kept (and printed by Run.v) so that traces of the implementation can be checked against it. *)
Definition step_safe (fs : fsys) (m : step) : bool :=
  match s_lbl m, s_key m with
  | remove_stale_component_file, CompSrc c => negb (is_val (get fs (CompDigest c)))
  | _, _ => true
  end.

Fixpoint steps_prune_safe (fs : fsys) (ms : list step) : bool :=
  match ms with
  | [] => true
  | m :: r => step_safe fs m && steps_prune_safe (apply_step m fs) r
  end.

(* ------------------------------------------------------------------ histories *)

Inductive event :=
| Edit (v : N)
| Build (sched : schedule) (crash : option (nat * bool)).

Record state := mkState { st_fs : fsys; st_cur : N }.

Record build_rec := mkRec { br_out : outcome; br_steps : list step; br_prune_safe : bool }.

Fixpoint run_events (md : mode) (tbl : table) (st : state) (h : list event)
  : state * list build_rec :=
  match h with
  | [] => (st, [])
  | Edit v :: r => run_events md tbl (mkState (st_fs st) v) r
  | Build sc cr :: r =>
      let '(fs', out, ms) := run_build md tbl (st_cur st) (st_fs st) sc cr in
      let '(stf, recs) := run_events md tbl (mkState fs' (st_cur st)) r in
      (stf, mkRec out ms (steps_prune_safe (st_fs st) ms) :: recs)
  end.

(* Empty output directories; the current version is 0 until the first Edit. *)
Definition init_state : state := mkState [] 0.

Definition run_history (md : mode) (tbl : table) (h : list event) : state * list build_rec :=
  run_events md tbl init_state h.

Definition last_outcome (recs : list build_rec) : option outcome :=
  match rev recs with [] => None | r :: _ => Some (br_out r) end.

(* A build of v into empty directories, sequential, no fault. *)
Definition clean_run (md : mode) (tbl : table) (v : N) : fsys * outcome * list step :=
  run_build md tbl v [] seq_sched None.

Definition clean_build (md : mode) (tbl : table) (v : N) : fsys := fst (fst (clean_run md tbl v)).
Definition clean_outcome (md : mode) (tbl : table) (v : N) : outcome := snd (fst (clean_run md tbl v)).

(* Distinct component names in every good version (the instance obligation of C13). *)
Definition names (cs : list comp) : list N := map cname cs.
Definition wf_table (tbl : table) : Prop := forall v cs, tbl v = Good cs -> NoDup (names cs).
