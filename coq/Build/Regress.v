(* Build/Regress.v -- regression witnesses for the three defects fixed in build.rs at HEAD.
   NOT part of the model and not imported by any Props file.

   old order 1 (fix_digest = false): compile_component_rlib did not remove the component digest before it
       rewrote the component source and library:  skip-test; write source; rustc; write digest.
   old order 2 (prune = false): files of components that are no longer part of the theory were never removed.
   old order 3 (sort_digests = false): the first version of the pruning loop removed the stale files in plain
       read_dir order, so a component's source could be removed while its digest was still there.

   All three variants break fresh_after_success; the witnesses below are the reason why the invariant in
   FactsComp.v needs "digest removed first" (task_inv P1..P3 say the digest does not parse while the files are
   being rewritten), the pruning phase (tree_is says the files of non-members are absent) and the
   digests-first removal order (step_safe / FactsPrune.v). *)

From Coq Require Import List NArith Bool.
From Build Require Import Model.
Import ListNotations.
Open Scope N_scope.

Section Old.
  Variable fix_digest : bool.
  Variable prune : bool.
  Variable sort_digests : bool.

  Definition task_step_old (faults : list (N * bool)) (fs : fsys) (t : task) : option step * pc :=
    match t_pc t with
    | P0 =>
        if skip_test fs (t_c t) (t_s t) then (None, PDone)
        else if fix_digest then task_step faults fs t
        else (Some (mkStep write_component_source (CompSrc (t_c t)) (Val (t_s t))), P2)
    | _ => task_step faults fs t
    end.

  Fixpoint step_task_old (faults : list (N * bool)) (fs : fsys) (c : N) (ts : list task)
    : option step * list task :=
    match ts with
    | [] => (None, [])
    | t :: r =>
        if N.eqb (t_c t) c && runnable (t_pc t) then
          let '(om, p) := task_step_old faults fs t in
          (om, mkTask (t_c t) (t_s t) p :: r)
        else
          let '(om, r') := step_task_old faults fs c r in (om, t :: r')
    end.

  Fixpoint comp_loop_old (fuel : nat) (faults : list (N * bool)) (sched : list N) (ts : list task)
           (fs : fsys) : list step * list task * fsys :=
    match fuel with
    | O => ([], ts, fs)
    | S f =>
        match choose sched ts with
        | None => ([], ts, fs)
        | Some (c, r) =>
            let '(om, ts') := step_task_old faults fs c ts in
            match om with
            | None => comp_loop_old f faults r ts' fs
            | Some m =>
                let '(ms, tsf, fsf) := comp_loop_old f faults r ts' (apply_step m fs) in
                (m :: ms, tsf, fsf)
            end
        end
    end.

  Definition prune_steps_old (sched : schedule) (cs : list comp) (fs : fsys) : list step :=
    if sort_digests then prune_steps sched cs fs
    else map (fun k => mkStep remove_stale_component_file k Absent)
             (prune_order (s_prune sched) (stale_keys cs fs)).

  Definition build_steps_old (tbl : table) (v : N) (fs : fsys) (sched : schedule)
    : list step * outcome :=
    if digest_matches ComponentMode v fs then ([], Success)
    else
      let m1 := mkStep remove_theory_digest TheoryDigest Absent in
      match tbl v with
      | Bad => ([m1], Failed)
      | Good cs =>
          let m2 := mkStep write_module Module (Val v) in
          let fs2 := apply_step m2 (apply_step m1 fs) in
          let ts := init_tasks cs in
          let '(ms, tsf, fs3) :=
            comp_loop_old (4 * length ts) (s_rustc_fail sched) (s_comp sched) ts fs2 in
          if any_failed tsf then (m1 :: m2 :: ms, Failed)
          else if all_done tsf then
            (m1 :: m2 :: ms ++ (if prune then prune_steps_old sched cs fs3 else [])
                ++ [mkStep write_theory_digest TheoryDigest (Val v)], Success)
          else (m1 :: m2 :: ms, OutOfFuel)
      end.

  Definition run_build_old (tbl : table) (v : N) (fs : fsys) (sched : schedule)
             (crash : option (nat * bool)) : fsys * outcome * list step :=
    let '(ms, out) := build_steps_old tbl v fs sched in
    match crash with
    | None => (apply_steps ms fs, out, ms)
    | Some (k, torn) =>
        match skipn k ms with
        | [] => (apply_steps ms fs, out, ms)
        | m :: _ =>
            let fs' := apply_steps (firstn k ms) fs in
            (if torn then apply_torn m fs' else fs', Crashed, firstn k ms)
        end
    end.

  Fixpoint run_events_old (tbl : table) (st : state) (h : list event) : state * list outcome :=
    match h with
    | [] => (st, [])
    | Edit v :: r => run_events_old tbl (mkState (st_fs st) v) r
    | Build sc cr :: r =>
        let '(fs', out, _) := run_build_old tbl (st_cur st) (st_fs st) sc cr in
        let '(stf, outs) := run_events_old tbl (mkState fs' (st_cur st)) r in
        (stf, out :: outs)
    end.
End Old.

Definition build_steps_nofix_digest := build_steps_old false true true.
Definition build_steps_noprune := build_steps_old true false true.
Definition build_steps_readdir_prune := build_steps_old true true false.

(* version 0 = A: component 1 with source 10; version 1 = B: component 1 with source 11;
   version 2 = C: components 1 (source 10) and 2 (source 20). *)
Definition tbl_r : table :=
  fun v => match v with
           | 0 => Good [mkComp 1 10]
           | 1 => Good [mkComp 1 11]
           | 2 => Good [mkComp 1 10; mkComp 2 20]
           | _ => Bad
           end.

(* With both fixes on, the copy is the model (sanity check of the copy on the histories used below). *)
Example old_with_fixes_is_model :
  forall h, In h [ [Build seq_sched None; Edit 1; Build seq_sched (Some (4%nat, false)); Edit 0;
                    Build seq_sched None];
                   [Edit 2; Build seq_sched None; Edit 0; Build seq_sched None];
                   [Edit 2; Build seq_sched None; Edit 0;
                    Build (mkSched [] [CompSrc 2] []) (Some (3%nat, false)); Edit 2; Build seq_sched None] ] ->
    st_fs (fst (run_events_old true true true tbl_r init_state h))
    = st_fs (fst (run_events ComponentMode tbl_r init_state h)) /\
    snd (run_events_old true true true tbl_r init_state h)
    = map br_out (snd (run_events ComponentMode tbl_r init_state h)).
Proof.
  intros h [E|[E|[E|[]]]]; subst h; vm_compute; split; reflexivity.
Qed.

(* build A; edit B; build B killed right after run_rustc of the changed component (4 mutations:
   remove_theory_digest, write_module, write_component_source, run_rustc); edit A; build A.
   The last build reports success, performs no component step, and leaves B's source and library under
   A's component digest. *)
Definition h_stale : list event :=
  [Build seq_sched None; Edit 1; Build seq_sched (Some (4%nat, false)); Edit 0; Build seq_sched None].

Example old_order_stale :
  exists h st outs,
    run_events_old false true true tbl_r init_state h = (st, outs) /\
    last outs Failed = Success /\
    st_cur st = 0 /\
    get (st_fs st) (CompDigest 1) = Val 10 /\
    get (st_fs st) (CompSrc 1) = Val 11 /\
    get (st_fs st) (CompLib 1) = Val 11 /\
    get (st_fs st) (CompLib 1) <> get (clean_build ComponentMode tbl_r 0) (CompLib 1).
Proof.
  exists h_stale. eexists. eexists. split; [vm_compute; reflexivity|].
  vm_compute. repeat split; try reflexivity. discriminate.
Qed.

(* The same history in the model (digest removed first): fresh. *)
Example new_order_fresh :
  let r := run_events ComponentMode tbl_r init_state h_stale in
  map br_out (snd r) = [Success; Crashed; Success] /\
  get (st_fs (fst r)) (CompLib 1) = Val 10 /\ get (st_fs (fst r)) (CompSrc 1) = Val 10.
Proof. vm_compute. repeat split; reflexivity. Qed.

(* build C (components 1, 2); edit A (component 2 removed); build A: success, but component 2's library is
   still in the component directory and would be linked. *)
Definition h_noprune : list event :=
  [Edit 2; Build seq_sched None; Edit 0; Build seq_sched None].

Example old_noprune_stale :
  exists h st outs,
    run_events_old true false true tbl_r init_state h = (st, outs) /\
    last outs Failed = Success /\
    st_cur st = 0 /\
    linked ComponentMode (st_fs st) = [2; 1] /\
    linked ComponentMode (clean_build ComponentMode tbl_r 0) = [1] /\
    get (st_fs st) (CompLib 2) <> get (clean_build ComponentMode tbl_r 0) (CompLib 2).
Proof.
  exists h_noprune. eexists. eexists. split; [vm_compute; reflexivity|].
  vm_compute. repeat split; try reflexivity. discriminate.
Qed.

Example new_prune_fresh :
  let r := run_events ComponentMode tbl_r init_state h_noprune in
  map br_out (snd r) = [Success; Success] /\ linked ComponentMode (st_fs (fst r)) = [1].
Proof. vm_compute. split; reflexivity. Qed.

(* build C (components 1, 2); edit A (component 2 removed); build A with read_dir listing <2>.rs first,
   killed after 3 mutations (remove_theory_digest, write_module, remove_stale_component_file <2>.rs);
   edit C; build C: component 2 is skipped (its digest matches, its library exists), the build reports
   success, and <2>.rs is missing. *)
Definition h_readdir : list event :=
  [Edit 2; Build seq_sched None; Edit 0; Build (mkSched [] [CompSrc 2] []) (Some (3%nat, false));
   Edit 2; Build seq_sched None].

Example old_readdir_prune_stale :
  exists h st outs,
    run_events_old true true false tbl_r init_state h = (st, outs) /\
    outs = [Success; Crashed; Success] /\
    st_cur st = 2 /\
    get (st_fs st) (CompDigest 2) = Val 20 /\
    get (st_fs st) (CompLib 2) = Val 20 /\
    get (st_fs st) (CompSrc 2) = Absent /\
    get (st_fs st) (CompSrc 2) <> get (clean_build ComponentMode tbl_r 2) (CompSrc 2).
Proof.
  exists h_readdir. eexists. eexists. split; [vm_compute; reflexivity|].
  vm_compute. repeat split; try reflexivity. discriminate.
Qed.

(* The same history in the model (digests first): the killed build removed <2>.digest instead, so component
   2 is rebuilt. *)
Example new_digests_first_fresh :
  let r := run_events ComponentMode tbl_r init_state h_readdir in
  map br_out (snd r) = [Success; Crashed; Success] /\
  map s_key (br_steps (nth 1 (snd r) (mkRec Failed [] true))) = [TheoryDigest; Module; CompDigest 2] /\
  get (st_fs (fst r)) (CompSrc 2) = Val 20 /\ get (st_fs (fst r)) (CompLib 2) = Val 20 /\
  get (st_fs (fst r)) (CompDigest 2) = Val 20 /\
  map br_prune_safe (snd r) = [true; true; true].
Proof. vm_compute. repeat split; reflexivity. Qed.
