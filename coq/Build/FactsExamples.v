(* Build/FactsExamples.v -- the concrete scenario used by the non-vacuity Examples of Props_C12/C13. *)

From Coq Require Import List NArith Bool.
From Build Require Import Model FactsBase.
Import ListNotations.
Open Scope N_scope.

(* version 0: components 1 (source 10), 2 (source 20), 3 (source 30)
   version 1: component 1's source changed (11)
   version 2: component 2 removed
   version 3: syntax error *)
Definition tbl_e : table :=
  fun v => match v with
           | 0 => Good [mkComp 1 10; mkComp 2 20; mkComp 3 30]
           | 1 => Good [mkComp 1 11; mkComp 2 20; mkComp 3 30]
           | 2 => Good [mkComp 1 11; mkComp 3 30]
           | _ => Bad
           end.

Ltac nodup_tac := repeat (constructor; [cbn [In]; intuition discriminate|]); constructor.

Lemma tbl_e_wf : wf_table tbl_e.
Proof.
  intros v cs H. unfold tbl_e in H.
  destruct v as [|[[p|p|]|[p|p|]|]]; try discriminate H; injection H as H; subst cs;
    cbn [names map cname]; nodup_tac.
Qed.

(* interleaved schedule *)
Definition sched_a : schedule := mkSched [3; 1; 2; 1; 3; 3; 2; 1] [] [].
(* another interleaving; rustc of component 1 fails and leaves a torn library *)
Definition sched_b : schedule := mkSched [2; 1; 3; 1; 3; 1] [] [(1, true)].
(* reverse rule order; read_dir lists component 2's source, digest, library in that order *)
Definition sched_c : schedule := mkSched [3; 3; 3; 3; 2; 2; 2; 2; 1; 1; 1; 1] [CompSrc 2; CompDigest 2; CompLib 2] [].

(* build 0 (interleaved); edit 1; build killed after 5 mutations with a torn write; build with a failing
   rustc; edit 3 (syntax error); build fails; edit 2; build killed inside the pruning phase; build. *)
Definition h_e : list event :=
  [ Build sched_a None;
    Edit 1; Build seq_sched (Some (5%nat, true));
    Build sched_b None;
    Edit 3; Build seq_sched None;
    Edit 2; Build sched_c (Some (7%nat, false)) ].

Definition h_e_module : list event :=
  [ Build seq_sched None;
    Edit 1; Build seq_sched (Some (2%nat, true));
    Edit 3; Build seq_sched None;
    Edit 2; Build seq_sched (Some (1%nat, false)) ].
