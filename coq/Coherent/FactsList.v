(* Coherent.FactsList -- list-level facts: row equality, sets-as-lists, positions. *)
From Coq Require Import List NArith Arith Bool Lia.
Import ListNotations.
Require Import Coherent.Model.

Lemma row_eqb_eq a b : row_eqb a b = true <-> a = b.
Proof.
  revert b. induction a as [|x a IH]; intros [|y b]; cbn [row_eqb]; try (split; [discriminate|discriminate]); try tauto.
  rewrite andb_true_iff, N.eqb_eq, IH. split.
  - intros [H1 H2]. subst. reflexivity.
  - intros H. inversion H. auto.
Qed.
Lemma row_eqb_refl a : row_eqb a a = true.
Proof. apply row_eqb_eq. reflexivity. Qed.
Lemma row_eqb_neq a b : row_eqb a b = false <-> a <> b.
Proof.
  split.
  - intros H E. apply row_eqb_eq in E. congruence.
  - intros H. destruct (row_eqb a b) eqn:E; [|reflexivity]. apply row_eqb_eq in E. contradiction.
Qed.

Lemma mem_In t l : mem t l = true <-> In t l.
Proof.
  unfold mem. rewrite existsb_exists. split.
  - intros [u [Hu E]]. apply row_eqb_eq in E. subst. exact Hu.
  - intros H. exists t. split; [exact H|apply row_eqb_refl].
Qed.
Lemma mem_false t l : mem t l = false <-> ~ In t l.
Proof.
  split.
  - intros H I. apply mem_In in I. congruence.
  - intros H. destruct (mem t l) eqn:E; [|reflexivity]. apply mem_In in E. contradiction.
Qed.

Lemma radd_In t u l : In u (radd t l) <-> In u l \/ u = t.
Proof.
  unfold radd. destruct (mem t l) eqn:E.
  - apply mem_In in E. split; [auto|]. intros [H|H]; subst; auto.
  - rewrite in_app_iff. cbn [In]. intuition.
Qed.
Lemma NoDup_snoc {A} (l : list A) x : NoDup l -> ~ In x l -> NoDup (l ++ [x]).
Proof.
  induction l as [|y l IH]; intros Hn Hx; cbn [app].
  - constructor; [intros []|constructor].
  - inversion Hn as [|? ? Hy Hl]; subst. constructor.
    + rewrite in_app_iff. cbn [In]. intros [H|[H|[]]]; [contradiction|]. subst. apply Hx. left. reflexivity.
    + apply IH; [exact Hl|]. intros H. apply Hx. right. exact H.
Qed.
Lemma radd_NoDup t l : NoDup l -> NoDup (radd t l).
Proof.
  intros H. unfold radd. destruct (mem t l) eqn:E; [exact H|].
  apply mem_false in E. apply NoDup_snoc; assumption.
Qed.
Lemma rrem_In t u l : In u (rrem t l) <-> In u l /\ u <> t.
Proof.
  unfold rrem. rewrite filter_In, negb_true_iff, row_eqb_neq. tauto.
Qed.
Lemma rrem_NoDup t l : NoDup l -> NoDup (rrem t l).
Proof. intros H. unfold rrem. apply NoDup_filter. exact H. Qed.

Lemma nodup_rows_NoDup l : nodup_rows l = true <-> NoDup l.
Proof.
  induction l as [|t l IH]; cbn [nodup_rows].
  - split; [constructor|reflexivity].
  - rewrite andb_true_iff, negb_true_iff, mem_false, IH. split.
    + intros [H1 H2]. constructor; assumption.
    + intros H. inversion H; subst. split; assumption.
Qed.

Lemma mem_nat_In x l : mem_nat x l = true <-> In x l.
Proof.
  unfold mem_nat. rewrite existsb_exists. split.
  - intros [y [Hy E]]. apply Nat.eqb_eq in E. subst. exact Hy.
  - intros H. exists x. split; [exact H|apply Nat.eqb_refl].
Qed.
Lemma nodup_nat_NoDup l : nodup_nat l = true -> NoDup l.
Proof.
  induction l as [|x l IH]; cbn [nodup_nat]; intros H; [constructor|].
  apply andb_true_iff in H. destruct H as [H1 H2]. constructor; [|apply IH; exact H2].
  intros I. apply mem_nat_In in I. rewrite I in H1. discriminate.
Qed.
Lemma list_nat_eqb_eq a b : list_nat_eqb a b = true -> a = b.
Proof.
  revert b. induction a as [|x a IH]; intros [|y b]; cbn [list_nat_eqb]; try discriminate; [reflexivity|].
  intros H. apply andb_true_iff in H. destruct H as [H1 H2]. apply Nat.eqb_eq in H1. subst. f_equal. apply IH. exact H2.
Qed.
Lemma memN_In x l : memN x l = true <-> In x l.
Proof.
  unfold memN. rewrite existsb_exists. split.
  - intros [y [Hy E]]. apply N.eqb_eq in E. subst. exact Hy.
  - intros H. exists x. split; [exact H|apply N.eqb_refl].
Qed.

(* ---- positions *)
Lemma find_pos_nth c l : In c l -> nth (find_pos c l) l 0 = c.
Proof.
  induction l as [|x l IH]; intros H; [destruct H|]. cbn [find_pos].
  destruct (Nat.eqb x c) eqn:E.
  - apply Nat.eqb_eq in E. exact E.
  - cbn [nth]. apply IH. destruct H as [H|H]; [|exact H]. subst. rewrite Nat.eqb_refl in E. discriminate.
Qed.
Lemma find_pos_lt c l : In c l -> find_pos c l < length l.
Proof.
  induction l as [|x l IH]; intros H; [destruct H|]. cbn [find_pos length].
  destruct (Nat.eqb x c) eqn:E; [lia|].
  assert (In c l) as I. { destruct H as [H|H]; [|exact H]. subst. rewrite Nat.eqb_refl in E. discriminate. }
  specialize (IH I). lia.
Qed.
Lemma find_pos_nodup l p : NoDup l -> p < length l -> find_pos (nth p l 0) l = p.
Proof.
  revert p. induction l as [|x l IH]; intros p Hn Hp; cbn [length] in Hp; [lia|].
  inversion Hn as [|? ? Hx Hl]; subst. destruct p as [|p]; cbn [nth find_pos].
  - rewrite Nat.eqb_refl. reflexivity.
  - destruct (Nat.eqb x (nth p l 0)) eqn:E.
    + apply Nat.eqb_eq in E. exfalso. apply Hx. rewrite E. apply nth_In. lia.
    + f_equal. apply IH; [exact Hl|lia].
Qed.

Lemma nthN_pick cs r p : p < length cs -> nthN (pick cs r) p = nthN r (nth p cs 0).
Proof.
  intros H. unfold pick, nthN at 1. rewrite nth_indep with (d' := nthN r 0) by (rewrite map_length; exact H).
  rewrite map_nth. reflexivity.
Qed.
Lemma pick_length cs r : length (pick cs r) = length cs.
Proof. apply map_length. Qed.

Lemma nth_ext_N (a b : row) : length a = length b -> (forall i, i < length a -> nthN a i = nthN b i) -> a = b.
Proof.
  intros HL H. apply nth_ext with (d := 0%N) (d' := 0%N); [exact HL|]. intros i Hi. apply H. exact Hi.
Qed.

Lemma nthN_map_seq (f : nat -> N) n i : i < n -> nthN (map f (seq 0 n)) i = f i.
Proof.
  intros H. unfold nthN. rewrite nth_indep with (d' := f 0) by (rewrite map_length, seq_length; exact H).
  rewrite map_nth. rewrite seq_nth by exact H. reflexivity.
Qed.

Lemma forallb_seq (f : nat -> bool) n : forallb f (seq 0 n) = true -> forall i, i < n -> f i = true.
Proof.
  intros H i Hi. rewrite forallb_forall in H. apply H. apply in_seq. lia.
Qed.

Lemma In_nth_N (r : row) e : In e r -> exists i, i < length r /\ nthN r i = e.
Proof. intros H. destruct (In_nth r e 0%N H) as [i [Hi E]]. exists i. split; assumption. Qed.
Lemma nthN_In (r : row) i : i < length r -> In (nthN r i) r.
Proof. intros H. apply nth_In. exact H. Qed.
