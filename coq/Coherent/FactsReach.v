(* Coherent.FactsReach -- reachable states of a whole module: every history of the four update paths keeps every
   relation coherent; after canonicalize (followed by insertions only - the points where close_until evaluates
   its condition) the state is canonical. *)
From Coq Require Import List NArith Arith Bool Lia.
Import ListNotations.
Require Import Coherent.Model Coherent.FactsList Coherent.FactsIdx Coherent.FactsGuard Coherent.FactsOps Coherent.FactsCoh
  Coherent.FactsStep Coherent.FactsCanon.

Definition WfAll (ds : list rel_desc) : Prop := forall i, i < length ds -> WfDesc (desc_at ds i).

Lemma WfAll_of_bool ds : forallb wf_desc ds = true -> WfAll ds.
Proof.
  intros H i Hi. apply wf_desc_sound. rewrite forallb_forall in H. apply H. unfold desc_at. apply nth_In. exact Hi.
Qed.

Definition RelInv (d : rel_desc) (root : N -> N) (up : list N) (s : state) : Prop :=
  exists R, CohG d s R [] /\ ElenOk d s /\ (forall a x e, In x (R a) -> In e x -> root e <> e -> In e up).

Record Minv (ds : list rel_desc) (m : mstate) : Prop := {
  mi_idem : forall x, ms_root m (ms_root m x) = ms_root m x;
  mi_up : forall e, In e (ms_up m) -> ms_root m e <> e;
  mi_rel : forall i, i < length ds -> RelInv (desc_at ds i) (ms_root m) (ms_up m) (ms_rel m i)
}.

Lemma CohG_empty d : CohG d empty_state (fun _ => []) [].
Proof.
  constructor.
  - intros a r [].
  - intros k Hk. cbn [tab empty_state]. split; [constructor|intros t []].
  - intros k Hk r HL HD. cbn [tab empty_state]. tauto.
  - intros r [].
  - intros a r e [].
Qed.

Lemma Minv_init ds : Minv ds minit.
Proof.
  constructor; cbn [minit ms_root ms_up ms_rel].
  - reflexivity.
  - intros e [].
  - intros i Hi. exists (fun _ => []). split; [apply CohG_empty|]. split; [intros e u []|intros a x e []].
Qed.

Lemma Minv_step ds m o : WfAll ds -> op_ok ds o -> Minv ds m -> Minv ds (mstep ds m o).
Proof.
  intros W Ho [I1 I2 I3]. destruct o as [i r|a b kl| |]; cbn [mstep op_ok] in *.
  - (* insert *)
    constructor; cbn [ms_root ms_up ms_rel]; [exact I1|exact I2|].
    intros j Hj. destruct (Nat.eqb j i) eqn:E.
    + apply Nat.eqb_eq in E. subst j. destruct (I3 i Hj) as [R [C [El P]]].
      eexists. split; [apply (insert_CohG _ (ms_root m) _ R [] r (W i Hj) C Ho)|]. split.
      * apply insert_ElenOk; assumption.
      * intros a x e Hx He Hr.
        destruct (contains_any (d_contains (desc_at ds i)) (ms_rel m i) (map (ms_root m) r)); [apply (P a x e Hx He Hr)|].
        apply Radd_In in Hx. destruct Hx as [Hx|[_ Hx]]; [apply (P a x e Hx He Hr)|].
        subst x. exfalso. apply Hr. apply (all_roots_map (ms_root m) r I1 e He).
    + apply (I3 j Hj).
  - (* equate *)
    destruct (N.eqb (ms_root m a) (ms_root m b)) eqn:E; [constructor; assumption|].
    apply N.eqb_neq in E.
    set (rt := if kl then ms_root m a else ms_root m b). set (ch := if kl then ms_root m b else ms_root m a).
    assert (ms_root m rt = rt) as Hrt by (unfold rt; destruct kl; apply I1).
    assert (ms_root m ch = ch) as Hch by (unfold ch; destruct kl; apply I1).
    assert (rt <> ch) as Hne by (unfold rt, ch; destruct kl; congruence).
    constructor; cbn [ms_root ms_up ms_rel].
    + intros x. destruct (N.eqb (ms_root m x) ch) eqn:Ex.
      * rewrite Hrt. destruct (N.eqb rt ch) eqn:Q; [apply N.eqb_eq in Q; contradiction|reflexivity].
      * rewrite I1, Ex. reflexivity.
    + intros e He. apply in_app_or in He. destruct He as [He|[He|[]]].
      * specialize (I2 e He). destruct (N.eqb (ms_root m e) ch) eqn:Ex; [|exact I2].
        intros Q. apply I2. rewrite <- Q. exact Hrt.
      * subst e. rewrite Hch, N.eqb_refl. exact Hne.
    + intros i Hi. destruct (I3 i Hi) as [R [C [El P]]]. exists R. split; [exact C|]. split; [exact El|].
      intros a0 x e Hx He Hr. apply in_or_app.
      destruct (N.eq_dec (ms_root m e) e) as [Q|Q]; [|left; apply (P a0 x e Hx He Q)].
      right. left. rewrite Q in Hr. destruct (N.eqb e ch) eqn:Ex; [apply N.eqb_eq in Ex; auto|contradiction].
  - (* canonicalize *)
    constructor; cbn [ms_root ms_up ms_rel]; [exact I1|intros e []|].
    intros i Hi. destruct (I3 i Hi) as [R [C [El P]]].
    destruct (canonicalize_CohG _ (ms_root m) (ms_up m) _ R (W i Hi) C El I1 I2 P) as [R' [C' [El' Hr]]].
    exists R'. split; [exact C'|]. split; [exact El'|].
    intros a x e Hx He Hne. exfalso. apply Hne. apply (Hr a x Hx e He).
  - (* move *)
    constructor; cbn [ms_root ms_up ms_rel]; [exact I1|exact I2|].
    intros i Hi. destruct (I3 i Hi) as [R [C [El P]]]. exists (Rmove R).
    split; [apply (move_CohG _ _ R [] (W i Hi) C)|]. split; [apply (move_ElenOk _ _ El)|].
    intros a x e Hx He Hr. destruct a; cbn [Rmove] in Hx; [destruct Hx|].
    apply in_app_or in Hx. destruct Hx as [Hx|Hx]; [apply (P Old x e Hx He Hr)|apply (P New x e Hx He Hr)].
Qed.

Lemma Minv_run ds h : forall m, WfAll ds -> Forall (op_ok ds) h -> Minv ds m -> Minv ds (mrun ds m h).
Proof.
  unfold mrun. induction h as [|o h IH]; intros m W Hh Hm; cbn [fold_left]; [exact Hm|].
  inversion Hh as [|? ? Ho Hh']; subst. apply IH; [exact W|exact Hh'|]. apply Minv_step; assumption.
Qed.

Lemma Minv_MCoherent ds m : WfAll ds -> Minv ds m -> MCoherent ds m.
Proof.
  intros W [_ _ I3] i Hi. destruct (I3 i Hi) as [R [C _]]. apply (CohG_Coherent _ _ R (W i Hi) C).
Qed.

(* Coherent holds in EVERY state of EVERY history *)
Theorem reachable_coherent ds h :
  WfAll ds -> Forall (op_ok ds) h -> MCoherent ds (mrun ds minit h).
Proof.
  intros W Hh. apply (Minv_MCoherent ds _ W). apply (Minv_run ds h minit W Hh). apply Minv_init.
Qed.

(* canonical points: canonicalize, then insertions only *)
Record MinvC (ds : list rel_desc) (m : mstate) : Prop := {
  mc_inv : Minv ds m;
  mc_up : ms_up m = [];
  mc_roots : forall i, i < length ds -> forall R, CohG (desc_at ds i) (ms_rel m i) R [] ->
             forall a x, In x (R a) -> all_roots (ms_root m) x
}.

Lemma CohG_same_rows d s R R' : WfDesc d -> CohG d s R [] -> CohG d s R' [] -> forall a x, In x (R a) <-> In x (R' a).
Proof.
  intros W C C' a x. rewrite <- (CohG_Rows d s R [] a x W C), <- (CohG_Rows d s R' [] a x W C'). tauto.
Qed.

Lemma MinvC_canon ds m : WfAll ds -> Minv ds m -> MinvC ds (mstep ds m MCanon).
Proof.
  intros W Hm. pose proof (Minv_step ds m MCanon W I Hm) as Hm'. constructor; [exact Hm'|reflexivity|].
  destruct Hm as [I1 I2 I3]. intros i Hi R0 C0 a x Hx. cbn [mstep ms_rel ms_root] in *.
  destruct (I3 i Hi) as [R [C [El P]]].
  destruct (canonicalize_CohG _ (ms_root m) (ms_up m) _ R (W i Hi) C El I1 I2 P) as [R' [C' [_ Hr]]].
  apply (Hr a x). apply (CohG_same_rows _ _ R0 R' (W i Hi) C0 C' a x). exact Hx.
Qed.

Lemma MinvC_insert ds m i r :
  WfAll ds -> length r = d_arity (desc_at ds i) -> MinvC ds m -> MinvC ds (mstep ds m (MInsert i r)).
Proof.
  intros W Ho [Hm Hu Hr]. pose proof (Minv_step ds m (MInsert i r) W Ho Hm) as Hm'.
  constructor; [exact Hm'|exact Hu|].
  intros j Hj R0 C0 a x Hx. cbn [mstep ms_rel ms_root] in *. destruct (Nat.eqb j i) eqn:E.
  - apply Nat.eqb_eq in E. subst j. destruct Hm as [I1 I2 I3]. destruct (I3 i Hj) as [R [C [El P]]].
    pose proof (insert_CohG _ (ms_root m) _ R [] r (W i Hj) C Ho) as C1.
    apply (CohG_same_rows _ _ R0 _ (W i Hj) C0 C1 a x) in Hx.
    destruct (contains_any (d_contains (desc_at ds i)) (ms_rel m i) (map (ms_root m) r)); [apply (Hr i Hj R C a x Hx)|].
    apply Radd_In in Hx. destruct Hx as [Hx|[_ Hx]]; [apply (Hr i Hj R C a x Hx)|].
    subst x. apply all_roots_map. exact I1.
  - apply (Hr j Hj R0 C0 a x Hx).
Qed.

Lemma MinvC_MCanonical ds m : WfAll ds -> MinvC ds m -> MCanonical ds m.
Proof.
  intros W [Hm Hu Hr]. split; [exact Hu|]. intros i Hi a x Hx.
  destruct Hm as [_ _ I3]. destruct (I3 i Hi) as [R [C _]].
  apply (Hr i Hi R C a x). apply (CohG_Rows _ _ R [] a x (W i Hi) C). exact Hx.
Qed.

(* the state at every point where close_until evaluates its condition *)
Theorem reachable_canonical ds pre ins :
  WfAll ds -> Forall (op_ok ds) pre -> Forall (op_ok ds) ins -> Forall is_insert ins ->
  MCoherent ds (mrun ds minit (pre ++ MCanon :: ins)) /\ MCanonical ds (mrun ds minit (pre ++ MCanon :: ins)).
Proof.
  intros W Hp Hi Hins.
  assert (MinvC ds (mrun ds minit (pre ++ MCanon :: ins))) as HC.
  { unfold mrun. rewrite fold_left_app. cbn [fold_left]. fold (mrun ds minit pre).
    pose proof (MinvC_canon ds (mrun ds minit pre) W (Minv_run ds pre minit W Hp (Minv_init ds))) as H0.
    revert H0. generalize (mstep ds (mrun ds minit pre) MCanon). clear Hp.
    induction ins as [|o ins IH]; intros m H0; cbn [fold_left]; [exact H0|].
    inversion Hi as [|? ? Ho Hi']; subst. inversion Hins as [|? ? Hio Hins']; subst.
    apply (IH Hi' Hins'). destruct o as [i r| | |]; cbn [is_insert] in Hio; try contradiction.
    apply MinvC_insert; assumption. }
  split; [apply (Minv_MCoherent ds _ W (mc_inv ds _ HC))|apply (MinvC_MCanonical ds _ W HC)].
Qed.
