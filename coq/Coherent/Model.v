(* Coherent.Model -- ONE relation of a generated eqlog module, stored in a family of redundant index copies.

   The generated struct keeps, per relation, one PrefixTreeN per (age, column order, optional diagonal
   restriction) plus an "element index" (element -> rows it occurs in).  The four update paths of the generated
   module (insert_<rel>, canonicalize, move_new_to_old; equate_<type> does not touch relation fields) are written
   here against a *descriptor* [rel_desc] that has exactly the shape translate/desc.py extracts from the emitted
   text: which fields are written / removed from / cleared, with which argument lists, under which guard.
   The operations interpret the descriptor literally (a wrong guard or a missing field in the descriptor gives a
   wrong state here, exactly as in the emitted code); [wf_desc] is the conjunction of the generator obligations
   under which the copies stay coherent (Facts*.v).

   Definitions only; no proofs in this file.

   Abstractions (stated, not hidden): a PrefixTree is a finite set of fixed-length tuples (list without
   duplicates, iteration order not modelled; PrefixTree correctness is C08); u32 ids are N; elements of
   different types are made distinct by the caller (global id = id * ntypes + type), so the per-(relation,type)
   element indices are one map here (wf_desc checks that pushes and drains are per column type);
   weights are not modelled (they only choose which root survives). *)
From Coq Require Import List NArith Arith Bool.
Import ListNotations.
Arguments N.add : simpl never.
Arguments N.sub : simpl never.
Arguments N.mul : simpl never.
Arguments N.eqb : simpl never.
Arguments N.ltb : simpl never.
Arguments N.leb : simpl never.

(* ------------------------------------------------------------------------------------------------ rows *)
Definition row := list N.
Definition nthN (r : row) (c : nat) : N := nth c r 0%N.
Definition pick (cs : list nat) (r : row) : row := map (nthN r) cs.

Fixpoint row_eqb (a b : row) : bool :=
  match a, b with
  | [], [] => true
  | x :: a', y :: b' => N.eqb x y && row_eqb a' b'
  | _, _ => false
  end.
Definition mem (t : row) (l : list row) : bool := existsb (row_eqb t) l.
Definition radd (t : row) (l : list row) : list row := if mem t l then l else l ++ [t].
Definition rrem (t : row) (l : list row) : list row := filter (fun u => negb (row_eqb u t)) l.
Fixpoint nodup_rows (l : list row) : bool :=
  match l with [] => true | t :: l' => negb (mem t l') && nodup_rows l' end.
Definition memN (x : N) (l : list N) : bool := existsb (N.eqb x) l.
Definition mem_nat (x : nat) (l : list nat) : bool := existsb (Nat.eqb x) l.
Fixpoint nodup_nat (l : list nat) : bool :=
  match l with [] => true | x :: l' => negb (mem_nat x l') && nodup_nat l' end.
Fixpoint list_nat_eqb (a b : list nat) : bool :=
  match a, b with
  | [], [] => true
  | x :: a', y :: b' => Nat.eqb x y && list_nat_eqb a' b'
  | _, _ => false
  end.

(* ------------------------------------------------------------------------------------------------ indices *)
Inductive age := New | Old.
Definition age_eqb (a b : age) : bool :=
  match a, b with New, New => true | Old, Old => true | _, _ => false end.

(* [i_diag = Some e]: the field <rel>_<age>_eqs_<e>_order_<o>; e[i] is the first column carrying the same
   variable as column i; only columns with e[i] = i are stored; [i_order] permutes the stored columns. *)
Record idx := { i_age : age; i_order : list nat; i_diag : option (list nat) }.
Definition dummy_idx : idx := {| i_age := New; i_order := []; i_diag := None |}.

Definition eqs_of (n : nat) (ix : idx) : list nat :=
  match i_diag ix with Some e => e | None => seq 0 n end.
Definition reps (e : list nat) : list nat :=
  filter (fun i => Nat.eqb (nth i e 0) i) (seq 0 (length e)).
(* the columns of a full row that the index stores, in storage order *)
Definition cols (n : nat) (ix : idx) : list nat :=
  map (fun p => nth p (reps (eqs_of n ix)) 0) (i_order ix).
Definition store (n : nat) (ix : idx) (r : row) : row := pick (cols n ix) r.

Fixpoint find_pos (c : nat) (l : list nat) : nat :=
  match l with [] => 0 | x :: l' => if Nat.eqb x c then 0 else S (find_pos c l') end.
(* undo order and diagonal projection *)
Definition unstore (n : nat) (ix : idx) (t : row) : row :=
  map (fun i => nthN t (find_pos (nth i (eqs_of n ix) 0) (cols n ix))) (seq 0 n).
(* the full rows an index content stands for *)
Definition denote (n : nat) (ix : idx) (S : list row) : list row := map (unstore n ix) S.
(* a `for [el_a, el_b, ..] in field.iter()` pattern: stored position p binds column pat[p] *)
Definition unpat (n : nat) (pat : list nat) (t : row) : row :=
  map (fun c => nthN t (find_pos c pat)) (seq 0 n).

(* ------------------------------------------------------------------------------------------------ guards *)
Inductive guard :=
| GTrue
| GEq (i j : nat)                 (* el_i == el_j *)
| GNot (a : guard)
| GAnd (a b : guard)
| GOr (a b : guard).

Fixpoint geval (g : guard) (r : row) : bool :=
  match g with
  | GTrue => true
  | GEq i j => N.eqb (nthN r i) (nthN r j)
  | GNot a => negb (geval a r)
  | GAnd a b => geval a r && geval b r
  | GOr a b => geval a r || geval b r
  end.
Fixpoint gcols_ok (n : nat) (g : guard) : bool :=
  match g with
  | GTrue => true
  | GEq i j => Nat.ltb i n && Nat.ltb j n
  | GNot a => gcols_ok n a
  | GAnd a b | GOr a b => gcols_ok n a && gcols_ok n b
  end.

(* the conjunction of the diagonal's equalities *)
Definition diag_guard (n : nat) (ix : idx) : guard :=
  fold_right (fun i g => GAnd (GEq i (nth i (eqs_of n ix) 0)) g) GTrue (seq 0 n).
Definition on_diag_b (n : nat) (ix : idx) (r : row) : bool := geval (diag_guard n ix) r.

(* Candidate rows representing every equality pattern (set partition) of n columns: entry i ranges over
   0 .. n-1-i (the label of a value is n-1 minus the position of its last occurrence).  n! candidates;
   every set partition of the columns is the equality pattern of at least one of them (FactsGuard.relab_cands). *)
Fixpoint cands (n : nat) : list row :=
  match n with
  | O => [[]]
  | S n' => flat_map (fun c => map (fun v => N.of_nat v :: c) (seq 0 (S n'))) (cands n')
  end.
Definition gvalid_b (n : nat) (g : guard) : bool := gcols_ok n g && forallb (geval g) (cands n).
Definition gequiv_b (n : nat) (g1 g2 : guard) : bool :=
  gcols_ok n g1 && gcols_ok n g2 && forallb (fun c => Bool.eqb (geval g1 c) (geval g2 c)) (cands n).

(* ------------------------------------------------------------------------------------------------ descriptor *)
(* `if <guard> { self.<field>.insert/remove([el_a, el_b, ..]); }` *)
Record wr := { w_field : nat; w_guard : guard; w_args : list nat }.
(* `if true && el_c != el_a && .. { self.<rel>_<type>_element_index.entry(el_c).or_default().push(row) }` *)
Record push := { p_col : nat; p_neq : list nat; p_type : nat }.

Record rel_desc := {
  d_arity : nat;
  d_col_types : list nat;
  d_indices : list idx;                   (* the struct's index fields of this relation; fields are referred to by position *)
  (* insert_<rel> *)
  d_contains : list (nat * list nat);     (* early-return tests: field, argument list *)
  d_ins : list wr;                        (* index writes *)
  d_epush : list push;                    (* element-index pushes *)
  (* canonicalize *)
  d_src_types : list nat;                 (* types whose uprooted list / element index is drained *)
  d_prim_new : nat * list nat;            (* `if self.<f>.remove([..])` on the primary new index *)
  d_rm_new : list wr;                     (* removals in that branch *)
  d_prim_old : nat * list nat;
  d_rm_old : list wr;
  (* move_new_to_old *)
  d_mv_iter : nat * list nat;             (* iterated field, binding pattern *)
  d_mv_fill : list wr;
  d_mv_clear : list nat;
  (* is_dirty *)
  d_dirty : nat;
  (* public queries *)
  d_q_contains : list (nat * list nat);   (* p(..): field, argument list *)
  d_q_iter : list (nat * list nat);       (* iter_<rel>: field, binding pattern *)
  d_q_eval : list (nat * list nat)        (* f(..): field, argument columns of the successive get()s; [] for predicates *)
}.

(* ------------------------------------------------------------------------------------------------ state *)
Record state := { tab : nat -> list row; eix : N -> list row }.
Definition empty_state : state := {| tab := fun _ => []; eix := fun _ => [] |}.

Definition tab_upd (k : nat) (f : list row -> list row) (s : state) : state :=
  {| tab := fun j => if Nat.eqb j k then f (tab s j) else tab s j; eix := eix s |}.
Definition epush (e : N) (r : row) (s : state) : state :=
  {| tab := tab s; eix := fun x => if N.eqb x e then eix s x ++ [r] else eix s x |}.

Definition apply_wr (f : row -> list row -> list row) (r : row) (s : state) (w : wr) : state :=
  if geval (w_guard w) r then tab_upd (w_field w) (f (pick (w_args w) r)) s else s.
Definition apply_wrs (f : row -> list row -> list row) (ws : list wr) (r : row) (s : state) : state :=
  fold_left (apply_wr f r) ws s.

Definition push_guard (p : push) : guard :=
  fold_right (fun c g => GAnd (GNot (GEq (p_col p) c)) g) GTrue (p_neq p).
Definition apply_push (r : row) (s : state) (p : push) : state :=
  if geval (push_guard p) r then epush (nthN r (p_col p)) r s else s.

Definition contains_any (cs : list (nat * list nat)) (s : state) (r : row) : bool :=
  existsb (fun c => mem (pick (snd c) r) (tab s (fst c))) cs.

(* insert_<rel>(args): root the arguments, early return if present, write the new indices, push into the
   element index (weights not modelled) *)
Definition insert (d : rel_desc) (root : N -> N) (s : state) (r0 : row) : state :=
  let r := map root r0 in
  if contains_any (d_contains d) s r then s
  else fold_left (apply_push r) (d_epush d) (apply_wrs radd (d_ins d) r s).

(* the removal half of one iteration of canonicalize's row loop; None = `!was_in_indices` *)
Definition remove_row (d : rel_desc) (s : state) (r : row) : option state :=
  let pn := d_prim_new d in
  let po := d_prim_old d in
  if mem (pick (snd pn) r) (tab s (fst pn)) then
    Some (apply_wrs rrem (d_rm_new d) r (tab_upd (fst pn) (rrem (pick (snd pn) r)) s))
  else if mem (pick (snd po) r) (tab s (fst po)) then
    Some (apply_wrs rrem (d_rm_old d) r (tab_upd (fst po) (rrem (pick (snd po) r)) s))
  else None.
Definition canon_row (d : rel_desc) (root : N -> N) (s : state) (r : row) : state :=
  match remove_row d s r with Some s' => insert d root s' r | None => s end.

(* `for el in uprooted { if let Some(rows) = element_index.remove(&el) { non_canonical_rows.push(rows) } }` *)
Fixpoint take_rows (up : list N) (ei : N -> list row) : list row * (N -> list row) :=
  match up with
  | [] => ([], ei)
  | e :: up' =>
      let res := take_rows up' (fun x => if N.eqb x e then [] else ei x) in
      (ei e ++ fst res, snd res)
  end.
Definition canonicalize (d : rel_desc) (root : N -> N) (up : list N) (s : state) : state :=
  let tr := take_rows up (eix s) in
  fold_left (canon_row d root) (fst tr) {| tab := tab s; eix := snd tr |}.

Definition move (d : rel_desc) (s : state) : state :=
  let rows := map (unpat (d_arity d) (snd (d_mv_iter d))) (tab s (fst (d_mv_iter d))) in
  let s1 := fold_left (fun s r => apply_wrs radd (d_mv_fill d) r s) rows s in
  fold_left (fun s k => tab_upd k (fun _ => []) s) (d_mv_clear d) s1.

Definition is_dirty (d : rel_desc) (s : state) : bool :=
  match tab s (d_dirty d) with [] => false | _ => true end.

(* public queries *)
Definition q_holds (d : rel_desc) (root : N -> N) (s : state) (args : row) : bool :=
  contains_any (d_q_contains d) s (map root args).
Definition q_iter (d : rel_desc) (s : state) : list row :=
  flat_map (fun c => map (unpat (d_arity d) (snd c)) (tab s (fst c))) (d_q_iter d).
(* f(args): all results reachable through the successive get()s, per queried field in or_else order *)
Definition q_eval_hits (d : rel_desc) (root : N -> N) (s : state) (args : row) : list N :=
  let a := map root args in
  flat_map (fun c =>
              map (fun t => nthN t (length (snd c)))
                  (filter (fun t => row_eqb (firstn (length (snd c)) t) (pick (snd c) a)) (tab s (fst c))))
           (d_q_eval d).

(* ------------------------------------------------------------------------------------------------ coherence *)
Definition prim (d : rel_desc) (a : age) : nat :=
  match a with New => fst (d_prim_new d) | Old => fst (d_prim_old d) end.
Definition idx_at (d : rel_desc) (k : nat) : idx := nth k (d_indices d) dummy_idx.
(* the set of rows of age a: what the primary index of that age stands for *)
Definition Rows (d : rel_desc) (s : state) (a : age) : list row :=
  denote (d_arity d) (idx_at d (prim d a)) (tab s (prim d a)).

Record Coherent (d : rel_desc) (s : state) : Prop := {
  (* every copy is a set of tuples of the field's arity *)
  co_shape : forall k, k < length (d_indices d) ->
      NoDup (tab s k) /\ Forall (fun t => length t = length (i_order (idx_at d k))) (tab s k);
  (* every index of age A denotes exactly {rows of age A} /\ its diagonal *)
  co_denote : forall k, k < length (d_indices d) -> forall r,
      In r (denote (d_arity d) (idx_at d k) (tab s k)) <->
      In r (Rows d s (i_age (idx_at d k))) /\ on_diag_b (d_arity d) (idx_at d k) r = true;
  (* new /\ old = empty *)
  co_disj : forall r, In r (Rows d s New) -> ~ In r (Rows d s Old);
  (* the element index lists (a superset of) the rows an element occurs in *)
  co_eidx : forall a r e, In r (Rows d s a) -> In e r -> In r (eix s e)
}.

(* rows kept in the element index have the relation's arity (they are `[u32; N]` in the emitted code) *)
Definition ElenOk (d : rel_desc) (s : state) : Prop := forall e u, In u (eix s e) -> length u = d_arity d.

Definition all_roots (root : N -> N) (r : row) : Prop := forall e, In e r -> root e = e.
(* only roots occur *)
Definition CanonicalRel (d : rel_desc) (root : N -> N) (s : state) : Prop :=
  forall a r, In r (Rows d s a) -> all_roots root r.

(* ------------------------------------------------------------------------------------------------ wf_desc *)
Definition wf_idx (n : nat) (ix : idx) : bool :=
  let e := eqs_of n ix in
  let cs := cols n ix in
  Nat.eqb (length e) n
  && forallb (fun i => Nat.leb (nth i e 0) i && Nat.eqb (nth (nth i e 0) e 0) (nth i e 0)) (seq 0 n)
  && nodup_nat cs
  && forallb (fun c => Nat.ltb c n && Nat.eqb (nth c e 0) c) cs
  && forallb (fun i => mem_nat (nth i e 0) cs) (seq 0 n).

Definition is_full (ix : idx) : bool := match i_diag ix with None => true | Some _ => false end.

(* (field, args) addresses a full-order (no diagonal) index of age a with the right argument permutation *)
Definition full_ok (d : rel_desc) (a : age) (c : nat * list nat) : bool :=
  Nat.ltb (fst c) (length (d_indices d))
  && age_eqb (i_age (idx_at d (fst c))) a
  && is_full (idx_at d (fst c))
  && list_nat_eqb (snd c) (cols (d_arity d) (idx_at d (fst c))).
Definition full_any (d : rel_desc) (c : nat * list nat) : bool := full_ok d New c || full_ok d Old c.
Definition is_nil {A} (l : list A) : bool := match l with [] => true | _ => false end.
(* a list of membership tests is either absent or tests full-order indices only, at least one of each age
   (p(..) for predicates, the get() chain of f(..) for functions) *)
Definition pair_ok (d : rel_desc) (cs : list (nat * list nat)) : bool :=
  is_nil cs || (forallb (full_any d) cs && existsb (full_ok d New) cs && existsb (full_ok d Old) cs).

(* a write/removal addresses an index of age a, stores the right columns, under a guard equivalent to the
   conjunction of the index's diagonal equalities (decided over all equality patterns of the columns) *)
Definition wr_ok (d : rel_desc) (a : age) (w : wr) : bool :=
  Nat.ltb (w_field w) (length (d_indices d))
  && age_eqb (i_age (idx_at d (w_field w))) a
  && list_nat_eqb (w_args w) (cols (d_arity d) (idx_at d (w_field w)))
  && gequiv_b (d_arity d) (w_guard w) (diag_guard (d_arity d) (idx_at d (w_field w))).

Definition fields_of_age (d : rel_desc) (a : age) : list nat :=
  filter (fun k => age_eqb (i_age (idx_at d k)) a) (seq 0 (length (d_indices d))).
Definition covers (ks : list nat) (ws : list wr) : bool :=
  forallb (fun k => existsb (fun w => Nat.eqb (w_field w) k) ws) ks.

(* for every column there is a push whose key equals that column's element and whose guard holds *)
Definition cover_guard (d : rel_desc) (c : nat) : guard :=
  fold_right (fun p g => GOr (GAnd (GEq (p_col p) c) (push_guard p)) g) (GNot GTrue) (d_epush d).

Definition wf_base (d : rel_desc) : bool :=
  let n := d_arity d in
  Nat.leb n 9
  && Nat.eqb (length (d_col_types d)) n
  && forallb (wf_idx n) (d_indices d).

(* insert_: contains test on a full-order pair, every new index written under the diagonal's guard;
   element-index pushes cover every distinct column, into the index of the column's type *)
Definition wf_insert (d : rel_desc) : bool :=
  let n := d_arity d in
  negb (is_nil (d_contains d)) && pair_ok d (d_contains d)
  && forallb (wr_ok d New) (d_ins d) && covers (fields_of_age d New) (d_ins d)
  && forallb (fun p => Nat.eqb (nth (p_col p) (d_col_types d) 0) (p_type p)) (d_epush d)
  && forallb (fun c => gvalid_b n (cover_guard d c)) (seq 0 n).

(* canonicalize: drains every column type; removes from every index of the row's age under the same guard *)
Definition wf_canon (d : rel_desc) : bool :=
  forallb (fun t => mem_nat t (d_src_types d)) (d_col_types d)
  && full_ok d New (d_prim_new d) && full_ok d Old (d_prim_old d)
  && forallb (wr_ok d New) (d_rm_new d)
  && covers (filter (fun k => negb (Nat.eqb k (fst (d_prim_new d)))) (fields_of_age d New)) (d_rm_new d)
  && forallb (wr_ok d Old) (d_rm_old d)
  && covers (filter (fun k => negb (Nat.eqb k (fst (d_prim_old d)))) (fields_of_age d Old)) (d_rm_old d).

(* move_new_to_old: iterates a full new index, fills every old index, clears every new one (and nothing else);
   is_dirty reads the primary new index *)
Definition wf_move (d : rel_desc) : bool :=
  full_ok d New (d_mv_iter d)
  && forallb (wr_ok d Old) (d_mv_fill d) && covers (fields_of_age d Old) (d_mv_fill d)
  && forallb (fun k => mem_nat k (d_mv_clear d)) (fields_of_age d New)
  && forallb (fun k => mem_nat k (fields_of_age d New)) (d_mv_clear d)
  && Nat.eqb (d_dirty d) (fst (d_prim_new d)).

(* queries: p(..) / f(..) test a full-order pair (one of them exists); iter_ chains exactly one full new and one
   full old index *)
Definition wf_query (d : rel_desc) : bool :=
  negb (is_nil (d_q_contains d) && is_nil (d_q_eval d))
  && pair_ok d (d_q_contains d)
  && match d_q_iter d with
     | [c1; c2] => (full_ok d New c1 && full_ok d Old c2) || (full_ok d Old c1 && full_ok d New c2)
     | _ => false
     end
  && pair_ok d (map (fun c => (fst c, snd c ++ [pred (d_arity d)])) (d_q_eval d)).

Definition wf_desc (d : rel_desc) : bool :=
  wf_base d && wf_insert d && wf_canon d && wf_move d && wf_query d.

(* ------------------------------------------------------------------------------------------------ deciding a dump *)
Definition subset_rows (a b : list row) : bool := forallb (fun r => mem r b) a.

Definition shape_b (d : rel_desc) (s : state) (k : nat) : bool :=
  nodup_rows (tab s k) && forallb (fun t => Nat.eqb (length t) (length (i_order (idx_at d k)))) (tab s k).
Definition denote_b (d : rel_desc) (s : state) (k : nat) : bool :=
  let n := d_arity d in
  let ix := idx_at d k in
  let have := denote n ix (tab s k) in
  let want := filter (on_diag_b n ix) (Rows d s (i_age ix)) in
  subset_rows have want && subset_rows want have.
Definition disj_b (d : rel_desc) (s : state) : bool :=
  forallb (fun r => negb (mem r (Rows d s Old))) (Rows d s New).
Definition eidx_b (d : rel_desc) (s : state) : bool :=
  forallb (fun r => forallb (fun e => mem r (eix s e)) r) (Rows d s New ++ Rows d s Old).

Definition coherent_b (d : rel_desc) (s : state) : bool :=
  forallb (shape_b d s) (seq 0 (length (d_indices d)))
  && forallb (denote_b d s) (seq 0 (length (d_indices d)))
  && disj_b d s && eidx_b d s.

(* ------------------------------------------------------------------------------------------------ module level *)
(* All relations of a module, the union-find abstracted to its root function (ids are global ids), the
   uprooted lists of all types merged.  Rule evaluation is abstracted away completely: a history is ANY
   sequence of the four update paths (whatever tuples and equalities the rule functions produce). *)
Record mstate := { ms_rel : nat -> state; ms_root : N -> N; ms_up : list N }.

Inductive mop :=
| MInsert (i : nat) (r : row)           (* insert_<rel_i>(r); also the insertion half of define_ *)
| MEquate (a b : N) (keep_left : bool)  (* equate_<type>(a, b); the weights decide which root survives: either *)
| MCanon                                (* canonicalize() *)
| MMove.                                (* move_new_to_old() *)

Definition dummy_desc : rel_desc :=
  {| d_arity := 0; d_col_types := []; d_indices := []; d_contains := []; d_ins := []; d_epush := [];
     d_src_types := []; d_prim_new := (0, []); d_rm_new := []; d_prim_old := (0, []); d_rm_old := [];
     d_mv_iter := (0, []); d_mv_fill := []; d_mv_clear := []; d_dirty := 0; d_q_contains := [];
     d_q_iter := []; d_q_eval := [] |}.
Definition desc_at (ds : list rel_desc) (i : nat) : rel_desc := nth i ds dummy_desc.

Definition mstep (ds : list rel_desc) (m : mstate) (o : mop) : mstate :=
  match o with
  | MInsert i r =>
      {| ms_rel := fun j => if Nat.eqb j i then insert (desc_at ds i) (ms_root m) (ms_rel m i) r else ms_rel m j;
         ms_root := ms_root m; ms_up := ms_up m |}
  | MEquate a b keep_left =>
      let ra := ms_root m a in
      let rb := ms_root m b in
      if N.eqb ra rb then m else
      let rt := if keep_left then ra else rb in
      let ch := if keep_left then rb else ra in
      {| ms_rel := ms_rel m;
         ms_root := fun x => if N.eqb (ms_root m x) ch then rt else ms_root m x;
         ms_up := ms_up m ++ [ch] |}
  | MCanon =>
      {| ms_rel := fun j => canonicalize (desc_at ds j) (ms_root m) (ms_up m) (ms_rel m j);
         ms_root := ms_root m; ms_up := [] |}
  | MMove =>
      {| ms_rel := fun j => move (desc_at ds j) (ms_rel m j); ms_root := ms_root m; ms_up := ms_up m |}
  end.
Definition mrun (ds : list rel_desc) (m : mstate) (h : list mop) : mstate := fold_left (mstep ds) h m.
Definition minit : mstate := {| ms_rel := fun _ => empty_state; ms_root := fun x => x; ms_up := [] |}.
Definition is_insert (o : mop) : Prop := match o with MInsert _ _ => True | _ => False end.
(* the API is typed: insert_<rel> takes exactly arity-many arguments *)
Definition op_ok (ds : list rel_desc) (o : mop) : Prop :=
  match o with MInsert i r => length r = d_arity (desc_at ds i) | _ => True end.

(* what C04 asks of a state in which close_until evaluates its condition *)
Definition MCoherent (ds : list rel_desc) (m : mstate) : Prop :=
  forall i, i < length ds -> Coherent (desc_at ds i) (ms_rel m i).
Definition MCanonical (ds : list rel_desc) (m : mstate) : Prop :=
  ms_up m = [] /\ forall i, i < length ds -> CanonicalRel (desc_at ds i) (ms_root m) (ms_rel m i).
