(* Coherent.Run -- entry points for generated cases (checks/c04.py): Gallina terms in, numbers out.
   check_desc : the instance obligation wf_desc for one relation of one emitted module.
   check_state: judges one *dumped* state (every private index field, element indices, roots, uprooted, type sets)
                of one emitted module; 0 = coherent (and canonical if asked), otherwise a reason code
                100000 * (relation + 1) + 100 * field + reason   (relation-level reasons 1..5, 8)
                or a module-level reason 6, 7:
                  1 a copy holds a duplicate or a tuple of the wrong length
                  2 the copy does not denote {rows of its age} /\ its diagonal
                  3 new /\ old is not empty            4 the element index misses an occurrence
                  5 a row contains a non-root (at a point where the model must be canonical)
                  8 a row contains a non-root that is not pending in `uprooted`
                  6 `uprooted` is not empty at a canonical point
                  7 the type sets do not partition the roots *)
From Coq Require Import List NArith Arith Bool.
Import ListNotations.
Require Import Coherent.Model.

Definition check_desc (d : rel_desc) : bool := wf_desc d.

Definition dump_rel := (list (list row) * list (N * list row))%type.
Definition dump := (list dump_rel * list (N * N) * list N * list N * list N)%type.

Definition lookup_rows (e : N) (m : list (N * list row)) : list row :=
  flat_map (fun p => if N.eqb (fst p) e then snd p else []) m.
Definition mk_state (dr : dump_rel) : state :=
  {| tab := fun k => nth k (fst dr) []; eix := fun e => lookup_rows e (snd dr) |}.
Definition root_of (roots : list (N * N)) (e : N) : N :=
  match find (fun p => N.eqb (fst p) e) roots with Some p => snd p | None => e end.

Definition first_fail (f : nat -> bool) (ks : list nat) : option nat := find (fun k => negb (f k)) ks.

Definition check_rel (d : rel_desc) (s : state) : N :=
  let ks := seq 0 (length (d_indices d)) in
  match first_fail (shape_b d s) ks with
  | Some k => N.of_nat (100 * k + 1)
  | None =>
    match first_fail (denote_b d s) ks with
    | Some k => N.of_nat (100 * k + 2)
    | None => if negb (disj_b d s) then 3%N else if negb (eidx_b d s) then 4%N else 0%N
    end
  end.

Definition all_rows (d : rel_desc) (s : state) : list row := Rows d s New ++ Rows d s Old.
Definition canonical_rel_b (d : rel_desc) (root : N -> N) (s : state) : bool :=
  forallb (fun r => forallb (fun e => N.eqb (root e) e) r) (all_rows d s).
Definition pending_rel_b (d : rel_desc) (root : N -> N) (up : list N) (s : state) : bool :=
  forallb (fun r => forallb (fun e => N.eqb (root e) e || memN e up) r) (all_rows d s).

Fixpoint nodupN (l : list N) : bool :=
  match l with [] => true | x :: l' => negb (memN x l') && nodupN l' end.
Definition typeset_b (roots : list (N * N)) (tnew told : list N) : bool :=
  let ts := tnew ++ told in
  nodupN ts
  && forallb (fun e => N.eqb (root_of roots e) e && memN e (map fst roots)) ts
  && forallb (fun p => if N.eqb (fst p) (snd p) then memN (fst p) ts else true) roots.

Fixpoint check_rels (ds : list rel_desc) (drs : list dump_rel) (root : N -> N) (up : list N) (canon : bool) (i : nat) : N :=
  match ds, drs with
  | d :: ds', dr :: drs' =>
      let s := mk_state dr in
      let c := check_rel d s in
      let base := (100000 * N.of_nat (i + 1))%N in
      if negb (N.eqb c 0) then (base + c)%N
      else if canon && negb (canonical_rel_b d root s) then (base + N.of_nat (100 * prim d New) + 5)%N
      else if negb (pending_rel_b d root up s) then (base + N.of_nat (100 * prim d New) + 8)%N
      else check_rels ds' drs' root up canon (S i)
  | [], [] => 0%N
  | _, _ => 9%N
  end.

Definition check_state (ds : list rel_desc) (canon : bool) (dp : dump) : N :=
  let '(drs, roots, up, tnew, told) := dp in
  let c := check_rels ds drs (root_of roots) up canon 0 in
  if negb (N.eqb c 0) then c
  else if canon && negb (match up with [] => true | _ => false end) then 6%N
  else if negb (typeset_b roots tnew told) then 7%N
  else 0%N.

(* model-side replay of a history on ONE relation (used by Regress and by the examples) *)
Inductive rop := RIns (r : row) | RCanon (root : N -> N) (up : list N) | RMove.
Definition rstep (d : rel_desc) (root : N -> N) (s : state) (o : rop) : state :=
  match o with
  | RIns r => insert d root s r
  | RCanon root' up => canonicalize d root' up s
  | RMove => move d s
  end.
