(* Coherent.FactsCanon -- the composed canonicalize: coherence is kept and canonicity is restored. *)
From Coq Require Import List NArith Arith Bool Lia.
Import ListNotations.
Require Import Coherent.Model Coherent.FactsList Coherent.FactsIdx Coherent.FactsGuard Coherent.FactsOps Coherent.FactsCoh
  Coherent.FactsStep.

Lemma pushes_only' ps r s e u : In u (eix (pushes ps r s) e) -> In u (eix s e) \/ u = r.
Proof.
  unfold pushes. revert s. induction ps as [|q ps IH]; intros s H; cbn [fold_left] in H; [left; exact H|].
  apply IH in H. destruct H as [H|H]; [|right; exact H].
  unfold apply_push in H. destruct (geval (push_guard q) r); [|left; exact H].
  cbn [eix epush] in H. destruct (N.eqb e (nthN r (p_col q))); [|left; exact H].
  apply in_app_or in H. destruct H as [H|[H|[]]]; [left; exact H|right; symmetry; exact H].
Qed.

Lemma insert_ElenOk d root s r0 : ElenOk d s -> length r0 = d_arity d -> ElenOk d (insert d root s r0).
Proof.
  intros E HL. rewrite insert_unfold. destruct (contains_any (d_contains d) s (map root r0)); [exact E|].
  intros e u Hu. apply pushes_only' in Hu. destruct Hu as [Hu|Hu].
  - rewrite apply_wrs_eix in Hu. apply (E e u Hu).
  - subst u. rewrite map_length. exact HL.
Qed.
Lemma remove_row_ElenOk d s r s' : ElenOk d s -> remove_row d s r = Some s' -> ElenOk d s'.
Proof.
  intros E H. unfold remove_row in H.
  destruct (mem (pick (snd (d_prim_new d)) r) (tab s (fst (d_prim_new d)))).
  - inversion H; subst. intros e u Hu. rewrite apply_wrs_eix, eix_tab_upd in Hu. apply (E e u Hu).
  - destruct (mem (pick (snd (d_prim_old d)) r) (tab s (fst (d_prim_old d)))); [|discriminate].
    inversion H; subst. intros e u Hu. rewrite apply_wrs_eix, eix_tab_upd in Hu. apply (E e u Hu).
Qed.
Lemma move_ElenOk d s : ElenOk d s -> ElenOk d (move d s).
Proof. intros E e u Hu. rewrite move_unfold, clear_all_eix, mv_rows_eix in Hu. apply (E e u Hu). Qed.
Lemma canon_row_ElenOk d root s r : ElenOk d s -> length r = d_arity d -> ElenOk d (canon_row d root s r).
Proof.
  intros E HL. unfold canon_row. destruct (remove_row d s r) as [s'|] eqn:H; [|exact E].
  apply insert_ElenOk; [apply (remove_row_ElenOk d s r s' E H)|exact HL].
Qed.

(* one iteration of canonicalize's row loop keeps coherence (any exempt set U) *)
Theorem canon_row_CohG d root s R U r :
  WfDesc d -> CohG d s R U -> length r = d_arity d ->
  exists R', CohG d (canon_row d root s r) R' U /\
    (forall a x, In x (R' a) -> (In x (R a) /\ x <> r) \/ x = map root r) /\
    (~ In r (R New) -> ~ In r (R Old) -> forall a x, In x (R' a) <-> In x (R a)).
Proof.
  intros W C HL. unfold canon_row. pose proof (remove_row_CohG d s R U r W C HL) as H.
  destruct (remove_row d s r) as [s'|].
  - destruct H as [a0 [Hr C']].
    pose proof (insert_CohG d root s' _ U r W C' HL) as C2.
    eexists. split; [exact C2|]. split.
    + intros a x Hx.
      assert (In x (Rrem R a0 r a) \/ x = map root r) as Hx'.
      { destruct (contains_any (d_contains d) s' (map root r)); [left; exact Hx|].
        apply Radd_In in Hx. destruct Hx as [Hx|[_ Hx]]; [left; exact Hx|right; exact Hx]. }
      destruct Hx' as [Hx'|Hx']; [|right; exact Hx']. left. apply Rrem_In in Hx'. destruct Hx' as [H1 H2].
      split; [exact H1|]. intros E. subst x.
      destruct a, a0; try (apply H2; reflexivity).
      * apply (cg_disj d s R U C r H1 Hr).
      * apply (cg_disj d s R U C r Hr H1).
    + intros Hn Ho. destruct a0; contradiction.
  - exists R. split; [exact C|]. split; [|tauto].
    intros a x Hx. left. split; [exact Hx|]. intros E. subst x. destruct H as [Hn Ho]. destruct a; contradiction.
Qed.

Lemma take_rows_fst_only up ei u : In u (fst (take_rows up ei)) -> exists e, In u (ei e).
Proof.
  revert ei. induction up as [|x up IH]; intros ei H; cbn [take_rows fst] in H; [destruct H|].
  apply in_app_or in H. destruct H as [H|H]; [exists x; exact H|].
  destruct (IH _ H) as [e He]. destruct (N.eqb e x); [destruct He|exists e; exact He].
Qed.

Lemma all_roots_dec root (x : row) : all_roots root x \/ exists e, In e x /\ root e <> e.
Proof.
  induction x as [|y x IH].
  - left. intros e [].
  - destruct (N.eq_dec (root y) y) as [E|E].
    + destruct IH as [IH|[e [He Hr]]].
      * left. intros e [H|H]; [subst; exact E|apply IH; exact H].
      * right. exists e. split; [right; exact He|exact Hr].
    + right. exists y. split; [left; reflexivity|exact E].
Qed.

Lemma all_roots_map root (r : row) : (forall x, root (root x) = root x) -> all_roots root (map root r).
Proof. intros I e He. apply in_map_iff in He. destruct He as [y [E _]]. subst e. apply I. Qed.

(* the loop over the drained rows *)
Lemma canon_fold d root U todo : forall s R,
  WfDesc d -> (forall x, root (root x) = root x) ->
  CohG d s R U -> ElenOk d s -> Forall (fun u => length u = d_arity d) todo ->
  (forall a x, In x (R a) -> all_roots root x \/ In x todo) ->
  exists R', CohG d (fold_left (canon_row d root) todo s) R' U /\ ElenOk d (fold_left (canon_row d root) todo s) /\
             forall a x, In x (R' a) -> all_roots root x.
Proof.
  induction todo as [|r todo IH]; intros s R W I C E HL Hinv; cbn [fold_left].
  - exists R. split; [exact C|]. split; [exact E|]. intros a x Hx. destruct (Hinv a x Hx) as [H|[]]. exact H.
  - inversion HL as [|? ? HLr HLt]; subst.
    destruct (canon_row_CohG d root s R U r W C HLr) as [R1 [C1 [Hsub _]]].
    apply (IH _ R1 W I C1 (canon_row_ElenOk d root s r E HLr) HLt).
    intros a x Hx. destruct (Hsub a x Hx) as [[H1 H2]|H1].
    + destruct (Hinv a x H1) as [H|[H|H]]; [left; exact H|congruence|right; exact H].
    + left. subst x. apply all_roots_map. exact I.
Qed.

(* Theorem: canonicalize keeps the copies coherent and leaves only roots, provided the union-find side is sane:
   root is idempotent, uprooted elements are non-roots, and every non-root occurring in a row is pending in `up`. *)
Theorem canonicalize_CohG d root up s R :
  WfDesc d -> CohG d s R [] -> ElenOk d s ->
  (forall x, root (root x) = root x) ->
  (forall e, In e up -> root e <> e) ->
  (forall a x e, In x (R a) -> In e x -> root e <> e -> In e up) ->
  exists R', CohG d (canonicalize d root up s) R' [] /\ ElenOk d (canonicalize d root up s) /\
             forall a x, In x (R' a) -> all_roots root x.
Proof.
  intros W C E I Hup Hpend. unfold canonicalize.
  set (tr := take_rows up (eix s)). set (s0 := {| tab := tab s; eix := snd tr |}).
  assert (CohG d s0 R up) as C0.
  { destruct C as [C1 C2 C3 C4 C5]. constructor; try assumption.
    intros a x e Hx He HU. unfold s0, tr. cbn [eix]. rewrite take_rows_snd.
    destruct (memN e up) eqn:M; [apply memN_In in M; contradiction|]. apply (C5 a x e Hx He). intros []. }
  assert (ElenOk d s0) as E0.
  { intros e u Hu. unfold s0, tr in Hu. cbn [eix] in Hu. rewrite take_rows_snd in Hu.
    destruct (memN e up); [destruct Hu|apply (E e u Hu)]. }
  assert (Forall (fun u => length u = d_arity d) (fst tr)) as HL.
  { apply Forall_forall. intros u Hu. destruct (take_rows_fst_only _ _ _ Hu) as [e He]. apply (E e u He). }
  assert (forall a x, In x (R a) -> all_roots root x \/ In x (fst tr)) as Hinv.
  { intros a x Hx. destruct (all_roots_dec root x) as [H|[e [He Hr]]]; [left; exact H|]. right.
    apply (take_rows_fst up (eix s) e x); [apply (Hpend a x e Hx He Hr)|].
    apply (cg_eidx d s R [] C a x e Hx He). intros []. }
  destruct (canon_fold d root up (fst tr) s0 R W I C0 E0 HL Hinv) as [R' [C' [E' Hr]]].
  exists R'. split; [|split; [exact E'|exact Hr]].
  destruct C' as [C1 C2 C3 C4 C5]. constructor; try assumption.
  intros a x e Hx He _. apply (C5 a x e Hx He). intros Hu. apply (Hup e Hu). apply (Hr a x Hx e He).
Qed.

(* without any assumption on the union-find side the drained loop still keeps every index copy coherent
   (only the element-index clause is relative to the drained elements) *)
Lemma canon_fold_weak d root U todo : forall s R,
  WfDesc d -> CohG d s R U -> ElenOk d s -> Forall (fun u => length u = d_arity d) todo ->
  exists R', CohG d (fold_left (canon_row d root) todo s) R' U.
Proof.
  induction todo as [|r todo IH]; intros s R W C E HL; cbn [fold_left]; [exists R; exact C|].
  inversion HL as [|? ? HLr HLt]; subst.
  destruct (canon_row_CohG d root s R U r W C HLr) as [R1 [C1 _]].
  apply (IH _ R1 W C1 (canon_row_ElenOk d root s r E HLr) HLt).
Qed.

Theorem canonicalize_CohG_weak d root up s R :
  WfDesc d -> CohG d s R [] -> ElenOk d s ->
  exists R', CohG d (canonicalize d root up s) R' up.
Proof.
  intros W C E. unfold canonicalize.
  set (tr := take_rows up (eix s)). set (s0 := {| tab := tab s; eix := snd tr |}).
  assert (CohG d s0 R up) as C0.
  { destruct C as [C1 C2 C3 C4 C5]. constructor; try assumption.
    intros a x e Hx He HU. unfold s0, tr. cbn [eix]. rewrite take_rows_snd.
    destruct (memN e up) eqn:M; [apply memN_In in M; contradiction|]. apply (C5 a x e Hx He). intros []. }
  assert (ElenOk d s0) as E0.
  { intros e u Hu. unfold s0, tr in Hu. cbn [eix] in Hu. rewrite take_rows_snd in Hu.
    destruct (memN e up); [destruct Hu|apply (E e u Hu)]. }
  assert (Forall (fun u => length u = d_arity d) (fst tr)) as HL.
  { apply Forall_forall. intros u Hu. destruct (take_rows_fst_only _ _ _ Hu) as [e He]. apply (E e u He). }
  apply (canon_fold_weak d root up (fst tr) s0 R W C0 E0 HL).
Qed.
