(* Coherent.FactsDec -- the boolean judge of a dumped state is exactly [Coherent]; Run.check_state is sound. *)
From Coq Require Import List NArith Arith Bool Lia.
Import ListNotations.
Require Import Coherent.Model Coherent.Run Coherent.FactsList.

Lemma forallb_seq_iff (f : nat -> bool) n : forallb f (seq 0 n) = true <-> forall k, k < n -> f k = true.
Proof.
  rewrite forallb_forall. split.
  - intros H k Hk. apply H. apply in_seq. lia.
  - intros H k Hk. apply in_seq in Hk. apply H. lia.
Qed.

Lemma subset_rows_spec a b : subset_rows a b = true <-> forall r, In r a -> In r b.
Proof.
  unfold subset_rows. rewrite forallb_forall. split.
  - intros H r Hr. apply mem_In. apply H. exact Hr.
  - intros H r Hr. apply mem_In. apply H. exact Hr.
Qed.

Lemma shape_b_spec d s k :
  shape_b d s k = true <->
  NoDup (tab s k) /\ Forall (fun t => length t = length (i_order (idx_at d k))) (tab s k).
Proof.
  unfold shape_b. rewrite andb_true_iff, nodup_rows_NoDup, forallb_forall, Forall_forall. split.
  - intros [H1 H2]. split; [exact H1|]. intros t Ht. apply Nat.eqb_eq. apply H2. exact Ht.
  - intros [H1 H2]. split; [exact H1|]. intros t Ht. apply Nat.eqb_eq. apply H2. exact Ht.
Qed.

Lemma denote_b_spec d s k :
  denote_b d s k = true <->
  forall r, In r (denote (d_arity d) (idx_at d k) (tab s k)) <->
            In r (Rows d s (i_age (idx_at d k))) /\ on_diag_b (d_arity d) (idx_at d k) r = true.
Proof.
  unfold denote_b. rewrite andb_true_iff, !subset_rows_spec. split.
  - intros [H1 H2] r. split.
    + intros H. apply H1 in H. apply filter_In in H. exact H.
    + intros H. apply H2. apply filter_In. exact H.
  - intros H. split; intros r Hr.
    + apply filter_In. apply H. exact Hr.
    + apply H. apply filter_In in Hr. exact Hr.
Qed.

Lemma disj_b_spec d s : disj_b d s = true <-> forall r, In r (Rows d s New) -> ~ In r (Rows d s Old).
Proof.
  unfold disj_b. rewrite forallb_forall. split.
  - intros H r Hr. specialize (H r Hr). apply negb_true_iff in H. apply mem_false. exact H.
  - intros H r Hr. apply negb_true_iff. apply mem_false. apply H. exact Hr.
Qed.

Lemma eidx_b_spec d s :
  eidx_b d s = true <-> forall a r e, In r (Rows d s a) -> In e r -> In r (eix s e).
Proof.
  unfold eidx_b. rewrite forallb_forall. split.
  - intros H a r e Hr He.
    assert (In r (Rows d s New ++ Rows d s Old)) as I by (apply in_or_app; destruct a; [left|right]; exact Hr).
    specialize (H r I). rewrite forallb_forall in H. apply mem_In. apply H. exact He.
  - intros H r Hr. rewrite forallb_forall. intros e He. apply mem_In.
    apply in_app_or in Hr. destruct Hr as [Hr|Hr]; [apply (H New r e Hr He)|apply (H Old r e Hr He)].
Qed.

Theorem coherent_b_iff d s : coherent_b d s = true <-> Coherent d s.
Proof.
  unfold coherent_b. rewrite !andb_true_iff, !forallb_seq_iff, disj_b_spec, eidx_b_spec. split.
  - intros [[[H1 H2] H3] H4]. constructor.
    + intros k Hk. apply shape_b_spec. apply H1. exact Hk.
    + intros k Hk. apply denote_b_spec. apply H2. exact Hk.
    + exact H3.
    + exact H4.
  - intros [C1 C2 C3 C4]. repeat split.
    + intros k Hk. apply shape_b_spec. apply C1. exact Hk.
    + intros k Hk. apply denote_b_spec. apply C2. exact Hk.
    + exact C3.
    + exact C4.
Qed.
Corollary coherent_b_sound d s : coherent_b d s = true -> Coherent d s.
Proof. apply coherent_b_iff. Qed.
Corollary coherent_b_complete d s : Coherent d s -> coherent_b d s = true.
Proof. apply coherent_b_iff. Qed.

Lemma first_fail_none f ks : first_fail f ks = None -> forallb f ks = true.
Proof.
  unfold first_fail. intros H. apply forallb_forall. intros k Hk.
  pose proof (find_none _ _ H k Hk) as Q. apply negb_false_iff in Q. exact Q.
Qed.

Lemma check_rel_sound d s : check_rel d s = 0%N -> coherent_b d s = true.
Proof.
  unfold check_rel, coherent_b. intros H.
  destruct (first_fail (shape_b d s) (seq 0 (length (d_indices d)))) as [k|] eqn:E1.
  { exfalso. change 0%N with (N.of_nat 0) in H. apply Nat2N.inj in H. lia. }
  destruct (first_fail (denote_b d s) (seq 0 (length (d_indices d)))) as [k|] eqn:E2.
  { exfalso. change 0%N with (N.of_nat 0) in H. apply Nat2N.inj in H. lia. }
  rewrite (first_fail_none _ _ E1), (first_fail_none _ _ E2). cbn [andb].
  destruct (disj_b d s); cbn [negb] in H; [|discriminate].
  destruct (eidx_b d s); cbn [negb] in H; [reflexivity|discriminate].
Qed.

Lemma canonical_rel_b_sound d root s : canonical_rel_b d root s = true -> CanonicalRel d root s.
Proof.
  unfold canonical_rel_b, all_rows, CanonicalRel, all_roots. rewrite forallb_forall. intros H a r Hr e He.
  assert (In r (Rows d s New ++ Rows d s Old)) as I by (apply in_or_app; destruct a; [left|right]; exact Hr).
  specialize (H r I). rewrite forallb_forall in H. apply N.eqb_eq. apply H. exact He.
Qed.

Lemma check_rels_sound ds : forall drs root up canon i,
  check_rels ds drs root up canon i = 0%N ->
  Forall2 (fun d dr => Coherent d (mk_state dr) /\ (canon = true -> CanonicalRel d root (mk_state dr))) ds drs.
Proof.
  induction ds as [|d ds IH]; intros [|dr drs] root up canon i H; cbn [check_rels] in H; try discriminate.
  - constructor.
  - destruct (N.eqb (check_rel d (mk_state dr)) 0) eqn:E1; cbn [negb] in H.
    2:{ exfalso. apply N.eqb_neq in E1. lia. }
    apply N.eqb_eq in E1.
    destruct (canon && negb (canonical_rel_b d root (mk_state dr))) eqn:E2.
    { exfalso. lia. }
    destruct (pending_rel_b d root up (mk_state dr)); cbn [negb] in H.
    2:{ exfalso. lia. }
    constructor; [|apply (IH _ _ _ _ _ H)]. split.
    + apply coherent_b_sound. apply check_rel_sound. exact E1.
    + intros Hc. subst canon. cbn [andb] in E2. apply negb_false_iff in E2. apply canonical_rel_b_sound. exact E2.
Qed.

Theorem check_state_sound ds canon drs roots up tnew told :
  check_state ds canon (drs, roots, up, tnew, told) = 0%N ->
  Forall2 (fun d dr => Coherent d (mk_state dr)) ds drs /\
  (canon = true -> up = [] /\ Forall2 (fun d dr => CanonicalRel d (root_of roots) (mk_state dr)) ds drs).
Proof.
  unfold check_state. intros H.
  destruct (N.eqb (check_rels ds drs (root_of roots) up canon 0) 0) eqn:E1; cbn [negb] in H.
  2:{ apply N.eqb_neq in E1. contradiction. }
  apply N.eqb_eq in E1. pose proof (check_rels_sound _ _ _ _ _ _ E1) as F.
  split.
  - clear H E1. induction F as [|d dr ds' drs' [Hc _] F IH]; constructor; assumption.
  - intros Hc. subst canon. cbn [andb] in H. split.
    + destruct up; [reflexivity|]. cbn [negb] in H. discriminate.
    + clear H E1. induction F as [|d dr ds' drs' [_ Hk] F IH]; constructor; [apply Hk; reflexivity|assumption].
Qed.
