(* Coherent.FactsIdx -- what an index field stands for: store / unstore are mutually inverse on the diagonal. *)
From Coq Require Import List NArith Arith Bool Lia.
Import ListNotations.
Require Import Coherent.Model Coherent.FactsList.

Record WfIdx (n : nat) (ix : idx) : Prop := {
  wi_len : length (eqs_of n ix) = n;
  wi_le : forall i, i < n -> nth i (eqs_of n ix) 0 <= i;
  wi_idem : forall i, i < n -> nth (nth i (eqs_of n ix) 0) (eqs_of n ix) 0 = nth i (eqs_of n ix) 0;
  wi_nodup : NoDup (cols n ix);
  wi_rep : forall c, In c (cols n ix) -> c < n /\ nth c (eqs_of n ix) 0 = c;
  wi_cover : forall i, i < n -> In (nth i (eqs_of n ix) 0) (cols n ix)
}.

Lemma wf_idx_sound n ix : wf_idx n ix = true -> WfIdx n ix.
Proof.
  unfold wf_idx. intros H.
  repeat (apply andb_true_iff in H; let H2 := fresh "H" in destruct H as [H H2]).
  apply Nat.eqb_eq in H.
  constructor.
  - exact H.
  - intros i Hi. pose proof (forallb_seq _ _ H3 i Hi) as Hq. apply andb_true_iff in Hq. destruct Hq as [Hq _].
    apply Nat.leb_le in Hq. exact Hq.
  - intros i Hi. pose proof (forallb_seq _ _ H3 i Hi) as Hq. apply andb_true_iff in Hq. destruct Hq as [_ Hq].
    apply Nat.eqb_eq in Hq. exact Hq.
  - apply nodup_nat_NoDup. exact H2.
  - intros c Hc. rewrite forallb_forall in H1. specialize (H1 c Hc). apply andb_true_iff in H1. destruct H1 as [Ha Hb].
    apply Nat.ltb_lt in Ha. apply Nat.eqb_eq in Hb. split; assumption.
  - intros i Hi. pose proof (forallb_seq _ _ H0 i Hi) as Hq. apply mem_nat_In in Hq. exact Hq.
Qed.

Lemma cols_length n ix : length (cols n ix) = length (i_order ix).
Proof. unfold cols. apply map_length. Qed.
Lemma store_length n ix r : length (store n ix r) = length (i_order ix).
Proof. unfold store. rewrite pick_length. apply cols_length. Qed.
Lemma unstore_length n ix t : length (unstore n ix t) = n.
Proof. unfold unstore. rewrite map_length, seq_length. reflexivity. Qed.
Lemma unpat_length n pat t : length (unpat n pat t) = n.
Proof. unfold unpat. rewrite map_length, seq_length. reflexivity. Qed.

Lemma geval_diag_list ix n (l : list nat) r :
  geval (fold_right (fun i g => GAnd (GEq i (nth i (eqs_of n ix) 0)) g) GTrue l) r =
  forallb (fun i => N.eqb (nthN r i) (nthN r (nth i (eqs_of n ix) 0))) l.
Proof.
  induction l as [|i l IH]; cbn [fold_right geval forallb]; [reflexivity|]. rewrite IH. reflexivity.
Qed.
Lemma on_diag_spec n ix r :
  on_diag_b n ix r = true <-> forall i, i < n -> nthN r i = nthN r (nth i (eqs_of n ix) 0).
Proof.
  unfold on_diag_b, diag_guard. rewrite geval_diag_list, forallb_forall. split.
  - intros H i Hi. apply N.eqb_eq. apply H. apply in_seq. lia.
  - intros H i Hi. apply in_seq in Hi. apply N.eqb_eq. apply H. lia.
Qed.

Lemma unstore_store n ix r :
  WfIdx n ix -> length r = n -> on_diag_b n ix r = true -> unstore n ix (store n ix r) = r.
Proof.
  intros W HL HD. apply nth_ext_N; [rewrite unstore_length; auto|].
  rewrite unstore_length. intros i Hi. unfold unstore. rewrite nthN_map_seq by exact Hi.
  pose proof (wi_cover _ _ W i Hi) as Hc. unfold store.
  rewrite nthN_pick by (apply find_pos_lt; exact Hc). rewrite find_pos_nth by exact Hc.
  symmetry. apply (proj1 (on_diag_spec n ix r) HD). exact Hi.
Qed.

Lemma store_unstore n ix t :
  WfIdx n ix -> length t = length (i_order ix) -> store n ix (unstore n ix t) = t.
Proof.
  intros W HL. unfold store. apply nth_ext_N; [rewrite pick_length, cols_length; auto|].
  rewrite pick_length. intros p Hp. rewrite nthN_pick by exact Hp.
  assert (In (nth p (cols n ix) 0) (cols n ix)) as Hin by (apply nth_In; exact Hp).
  destruct (wi_rep _ _ W _ Hin) as [Hlt Hrep].
  unfold unstore. rewrite nthN_map_seq by exact Hlt. rewrite Hrep.
  rewrite find_pos_nodup; [reflexivity|apply (wi_nodup _ _ W)|exact Hp].
Qed.

Lemma on_diag_unstore n ix t : WfIdx n ix -> on_diag_b n ix (unstore n ix t) = true.
Proof.
  intros W. apply on_diag_spec. intros i Hi. unfold unstore.
  pose proof (wi_le _ _ W i Hi) as Hle.
  rewrite nthN_map_seq by exact Hi. rewrite nthN_map_seq by lia.
  rewrite (wi_idem _ _ W i Hi). reflexivity.
Qed.

Lemma denote_spec n ix S r :
  WfIdx n ix -> (forall t, In t S -> length t = length (i_order ix)) ->
  (In r (denote n ix S) <-> length r = n /\ on_diag_b n ix r = true /\ In (store n ix r) S).
Proof.
  intros W HS. unfold denote. rewrite in_map_iff. split.
  - intros [t [E Ht]]. subst r. split; [apply unstore_length|]. split; [apply on_diag_unstore; exact W|].
    rewrite store_unstore; [exact Ht|exact W|apply HS; exact Ht].
  - intros [HL [HD Hin]]. exists (store n ix r). split; [apply unstore_store; assumption|exact Hin].
Qed.

Lemma store_inj n ix r1 r2 :
  WfIdx n ix -> length r1 = n -> length r2 = n -> on_diag_b n ix r1 = true -> on_diag_b n ix r2 = true ->
  store n ix r1 = store n ix r2 -> r1 = r2.
Proof.
  intros W L1 L2 D1 D2 E. rewrite <- (unstore_store n ix r1 W L1 D1), <- (unstore_store n ix r2 W L2 D2), E. reflexivity.
Qed.

Lemma denote_NoDup n ix S :
  WfIdx n ix -> (forall t, In t S -> length t = length (i_order ix)) -> NoDup S -> NoDup (denote n ix S).
Proof.
  intros W HS HN. unfold denote. induction HN as [|t S Ht HN IH]; cbn [map]; [constructor|].
  constructor.
  - rewrite in_map_iff. intros [u [E Hu]]. apply Ht.
    rewrite <- (store_unstore n ix t W), <- E, (store_unstore n ix u W); [exact Hu| |].
    + apply HS. right. exact Hu.
    + apply HS. left. reflexivity.
  - apply IH. intros u Hu. apply HS. right. exact Hu.
Qed.

(* ---- full-order indices *)
Lemma full_eqs n ix i : is_full ix = true -> i < n -> nth i (eqs_of n ix) 0 = i.
Proof.
  unfold is_full, eqs_of. destruct (i_diag ix); [discriminate|]. intros _ Hi. rewrite seq_nth by exact Hi. reflexivity.
Qed.
Lemma full_on_diag n ix r : is_full ix = true -> on_diag_b n ix r = true.
Proof.
  intros F. apply on_diag_spec. intros i Hi. rewrite (full_eqs n ix i F Hi). reflexivity.
Qed.
Lemma full_unstore_unpat n ix t : is_full ix = true -> unstore n ix t = unpat n (cols n ix) t.
Proof.
  intros F. unfold unstore, unpat. apply map_ext_in. intros i Hi. apply in_seq in Hi.
  rewrite (full_eqs n ix i F) by lia. reflexivity.
Qed.
