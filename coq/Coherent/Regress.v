(* Coherent.Regress -- the templates as they were before the repairs, as descriptors: the diagonal insert guard
   joined with `||` (F1) and the unguarded removal from diagonal indices in canonicalize (F2).  Both are rejected
   by wf_desc, and both break coherence on concrete rows (witnesses by vm_compute).  Not imported by Props_C04. *)
From Coq Require Import List NArith Arith Bool.
Import ListNotations.
Require Import Coherent.Model Coherent.Run Coherent.Examples Coherent.FactsDec.

Lemma F1_rejected : wf_desc ex_d_F1 = false.
Proof. vm_compute. reflexivity. Qed.
Lemma F2_rejected : wf_desc ex_d_F2 = false.
Proof. vm_compute. reflexivity. Qed.

(* F1: pa(1,1,2) is inserted into the (x,x,x)-diagonal index although it is not on that diagonal *)
Lemma F1_phantom_diagonal_row :
  tab (insert ex_d_F1 ex_id empty_state [1; 1; 2]%N) 2 = [[1%N]].
Proof. vm_compute. reflexivity. Qed.
Theorem F1_breaks_coherence :
  exists s r, Coherent ex_d_F1 s /\ length r = d_arity ex_d_F1 /\ ~ Coherent ex_d_F1 (insert ex_d_F1 ex_id s r).
Proof.
  exists empty_state, [1; 1; 2]%N. split; [apply coherent_b_sound; vm_compute; reflexivity|]. split; [reflexivity|].
  intros C. apply coherent_b_complete in C. vm_compute in C. discriminate.
Qed.

(* F2: removing pa(0,1,2) (off the (x,x,y) diagonal) also removes the projection [2,0] of pa(0,0,2) *)
Definition f2_s : state := move ex_d_F2 (fold_left (insert ex_d_F2 ex_id) [[0; 0; 2]; [0; 1; 2]]%N empty_state).
Lemma F2_lost_diagonal_row :
  match remove_row ex_d_F2 f2_s [0; 1; 2]%N with
  | Some s' => tab s' 1 = [[0; 0; 2]]%N /\ tab s' 4 = []
  | None => False
  end.
Proof. vm_compute. split; reflexivity. Qed.
Theorem F2_breaks_coherence :
  exists s r s', Coherent ex_d_F2 s /\ length r = d_arity ex_d_F2 /\ remove_row ex_d_F2 s r = Some s' /\ ~ Coherent ex_d_F2 s'.
Proof.
  exists f2_s, [0; 1; 2]%N.
  destruct (remove_row ex_d_F2 f2_s [0; 1; 2]%N) as [s'|] eqn:E; [|vm_compute in E; discriminate].
  exists s'. split; [apply coherent_b_sound; vm_compute; reflexivity|]. split; [reflexivity|]. split; [reflexivity|].
  intros C. apply coherent_b_complete in C.
  assert (coherent_b ex_d_F2 (match remove_row ex_d_F2 f2_s [0; 1; 2]%N with Some s' => s' | None => empty_state end) = true) as C2
    by (rewrite E; exact C).
  vm_compute in C2. discriminate.
Qed.

(* the repaired templates on the same rows *)
Lemma repaired_same_rows_coherent :
  coherent_b ex_d (insert ex_d ex_id empty_state [1; 1; 2]%N) = true /\
  match remove_row ex_d (move ex_d (fold_left (insert ex_d ex_id) [[0; 0; 2]; [0; 1; 2]]%N empty_state)) [0; 1; 2]%N with
  | Some s' => coherent_b ex_d s' = true /\ tab s' 4 = [[2; 0]]%N
  | None => False
  end.
Proof. vm_compute. repeat split; reflexivity. Qed.

Print Assumptions F1_breaks_coherence.
Print Assumptions F2_breaks_coherence.
