(* Coherent.FactsOps -- what the descriptor-driven folds do to each field. *)
From Coq Require Import List NArith Arith Bool Lia.
Import ListNotations.
Require Import Coherent.Model Coherent.FactsList.

Lemma tab_upd_same k f s : tab (tab_upd k f s) k = f (tab s k).
Proof. cbn [tab tab_upd]. rewrite Nat.eqb_refl. reflexivity. Qed.
Lemma tab_upd_other k j f s : j <> k -> tab (tab_upd k f s) j = tab s j.
Proof. intros H. cbn [tab tab_upd]. apply Nat.eqb_neq in H. rewrite H. reflexivity. Qed.
Lemma eix_tab_upd k f s : eix (tab_upd k f s) = eix s.
Proof. reflexivity. Qed.

(* some write of the list fires on row r and puts / removes tuple t in field k *)
Definition fires (ws : list wr) (r : row) (k : nat) (t : row) : Prop :=
  exists w, In w ws /\ w_field w = k /\ geval (w_guard w) r = true /\ t = pick (w_args w) r.

Lemma fires_nil r k t : ~ fires [] r k t.
Proof. intros [w [[] _]]. Qed.
Lemma fires_cons w ws r k t :
  fires (w :: ws) r k t <-> (w_field w = k /\ geval (w_guard w) r = true /\ t = pick (w_args w) r) \/ fires ws r k t.
Proof.
  split.
  - intros [w' [[E|I] H]]; [subst; left; exact H|right; exists w'; split; assumption].
  - intros [H|[w' [I H]]]; [exists w; split; [left; reflexivity|exact H]|exists w'; split; [right; exact I|exact H]].
Qed.

Lemma apply_wr_eix f r s w : eix (apply_wr f r s w) = eix s.
Proof. unfold apply_wr. destruct (geval (w_guard w) r); reflexivity. Qed.
Lemma apply_wrs_eix f ws r s : eix (apply_wrs f ws r s) = eix s.
Proof.
  unfold apply_wrs. revert s. induction ws as [|w ws IH]; intros s; cbn [fold_left]; [reflexivity|].
  rewrite IH. apply apply_wr_eix.
Qed.

Lemma apply_wr_add_In r s w k t :
  In t (tab (apply_wr radd r s w) k) <->
  In t (tab s k) \/ (w_field w = k /\ geval (w_guard w) r = true /\ t = pick (w_args w) r).
Proof.
  unfold apply_wr. destruct (geval (w_guard w) r) eqn:G.
  - destruct (Nat.eq_dec k (w_field w)) as [E|E].
    + subst k. rewrite tab_upd_same, radd_In. intuition.
    + rewrite tab_upd_other by exact E. intuition congruence.
  - intuition congruence.
Qed.
Lemma apply_wrs_add_In ws r s k t :
  In t (tab (apply_wrs radd ws r s) k) <-> In t (tab s k) \/ fires ws r k t.
Proof.
  unfold apply_wrs. revert s. induction ws as [|w ws IH]; intros s; cbn [fold_left].
  - pose proof (fires_nil r k t). tauto.
  - rewrite IH, apply_wr_add_In, fires_cons. tauto.
Qed.

Lemma apply_wr_rem_In r s w k t :
  In t (tab (apply_wr rrem r s w) k) <->
  In t (tab s k) /\ ~ (w_field w = k /\ geval (w_guard w) r = true /\ t = pick (w_args w) r).
Proof.
  unfold apply_wr. destruct (geval (w_guard w) r) eqn:G.
  - destruct (Nat.eq_dec k (w_field w)) as [E|E].
    + subst k. rewrite tab_upd_same, rrem_In. intuition.
    + rewrite tab_upd_other by exact E. intuition congruence.
  - intuition congruence.
Qed.
Lemma apply_wrs_rem_In ws r s k t :
  In t (tab (apply_wrs rrem ws r s) k) <-> In t (tab s k) /\ ~ fires ws r k t.
Proof.
  unfold apply_wrs. revert s. induction ws as [|w ws IH]; intros s; cbn [fold_left].
  - pose proof (fires_nil r k t). tauto.
  - rewrite IH, apply_wr_rem_In, fires_cons. tauto.
Qed.

Lemma apply_wrs_NoDup f ws r s k :
  (forall t l, NoDup l -> NoDup (f t l)) -> NoDup (tab s k) -> NoDup (tab (apply_wrs f ws r s) k).
Proof.
  intros Hf. unfold apply_wrs. revert s. induction ws as [|w ws IH]; intros s H; cbn [fold_left]; [exact H|].
  apply IH. unfold apply_wr. destruct (geval (w_guard w) r); [|exact H].
  destruct (Nat.eq_dec k (w_field w)) as [E|E].
  - subst k. rewrite tab_upd_same. apply Hf. exact H.
  - rewrite tab_upd_other by exact E. exact H.
Qed.

Lemma apply_wrs_untouched f ws r s k :
  (forall w, In w ws -> w_field w <> k) -> tab (apply_wrs f ws r s) k = tab s k.
Proof.
  unfold apply_wrs. revert s. induction ws as [|w ws IH]; intros s H; cbn [fold_left]; [reflexivity|].
  rewrite IH by (intros w' Hw'; apply H; right; exact Hw').
  unfold apply_wr. destruct (geval (w_guard w) r); [|reflexivity].
  apply tab_upd_other. intros E. apply (H w); [left; reflexivity|]. symmetry. exact E.
Qed.

(* ---- move: the nested fold *)
Definition mv_rows (ws : list wr) (rows : list row) (s : state) : state :=
  fold_left (fun s r => apply_wrs radd ws r s) rows s.

Lemma mv_rows_In ws rows s k t :
  In t (tab (mv_rows ws rows s) k) <-> In t (tab s k) \/ exists r, In r rows /\ fires ws r k t.
Proof.
  unfold mv_rows. revert s. induction rows as [|r rows IH]; intros s; cbn [fold_left].
  - split; [auto|]. intros [H|[r [[] _]]]. exact H.
  - rewrite IH, apply_wrs_add_In. split.
    + intros [[H|H]|[r' [I H]]]; [left; exact H|right; exists r; split; [left; reflexivity|exact H]|].
      right. exists r'. split; [right; exact I|exact H].
    + intros [H|[r' [[E|I] H]]]; [left; left; exact H|subst; left; right; exact H|].
      right. exists r'. split; assumption.
Qed.
Lemma mv_rows_NoDup ws rows s k : NoDup (tab s k) -> NoDup (tab (mv_rows ws rows s) k).
Proof.
  unfold mv_rows. revert s. induction rows as [|r rows IH]; intros s H; cbn [fold_left]; [exact H|].
  apply IH. apply apply_wrs_NoDup; [apply radd_NoDup|exact H].
Qed.
Lemma mv_rows_eix ws rows s : eix (mv_rows ws rows s) = eix s.
Proof.
  unfold mv_rows. revert s. induction rows as [|r rows IH]; intros s; cbn [fold_left]; [reflexivity|].
  rewrite IH. apply apply_wrs_eix.
Qed.

Definition clear_all (ks : list nat) (s : state) : state :=
  fold_left (fun s k => tab_upd k (fun _ => []) s) ks s.
Lemma clear_all_tab ks s k : tab (clear_all ks s) k = if mem_nat k ks then [] else tab s k.
Proof.
  unfold clear_all. revert s. induction ks as [|j ks IH]; intros s; cbn [fold_left]; [reflexivity|].
  rewrite IH. unfold mem_nat. cbn [existsb]. fold (mem_nat k ks).
  destruct (mem_nat k ks); [rewrite orb_true_r; reflexivity|]. rewrite orb_false_r.
  cbn [tab tab_upd]. reflexivity.
Qed.
Lemma clear_all_eix ks s : eix (clear_all ks s) = eix s.
Proof.
  unfold clear_all. revert s. induction ks as [|j ks IH]; intros s; cbn [fold_left]; [reflexivity|].
  rewrite IH. reflexivity.
Qed.
Lemma move_unfold d s :
  move d s = clear_all (d_mv_clear d)
               (mv_rows (d_mv_fill d) (map (unpat (d_arity d) (snd (d_mv_iter d))) (tab s (fst (d_mv_iter d)))) s).
Proof. reflexivity. Qed.

(* ---- pushes *)
Definition pushes (ps : list push) (r : row) (s : state) : state := fold_left (apply_push r) ps s.

Lemma pushes_tab ps r s : tab (pushes ps r s) = tab s.
Proof.
  unfold pushes. revert s. induction ps as [|p ps IH]; intros s; cbn [fold_left]; [reflexivity|].
  rewrite IH. unfold apply_push. destruct (geval (push_guard p) r); reflexivity.
Qed.
Lemma apply_push_mono p r s e u : In u (eix s e) -> In u (eix (apply_push r s p) e).
Proof.
  intros H. unfold apply_push. destruct (geval (push_guard p) r); [|exact H].
  cbn [eix epush]. destruct (N.eqb e (nthN r (p_col p))); [apply in_or_app; left; exact H|exact H].
Qed.
Lemma pushes_mono ps r s e u : In u (eix s e) -> In u (eix (pushes ps r s) e).
Proof.
  unfold pushes. revert s. induction ps as [|p ps IH]; intros s H; cbn [fold_left]; [exact H|].
  apply IH. apply apply_push_mono. exact H.
Qed.
Lemma pushes_hit ps r s p :
  In p ps -> geval (push_guard p) r = true -> In r (eix (pushes ps r s) (nthN r (p_col p))).
Proof.
  unfold pushes. revert s. induction ps as [|q ps IH]; intros s Hin G; [destruct Hin|]. cbn [fold_left].
  destruct Hin as [E|Hin].
  - subst q. apply (pushes_mono ps r). unfold apply_push. rewrite G. cbn [eix epush].
    rewrite N.eqb_refl. apply in_or_app. right. left. reflexivity.
  - apply IH; assumption.
Qed.
Lemma pushes_only ps r s e u : In u (eix (pushes ps r s) e) -> In u (eix s e) \/ (u = r /\ In e r) \/ (u = r /\ e = 0%N).
Proof.
  unfold pushes. revert s. induction ps as [|q ps IH]; intros s H; cbn [fold_left] in H; [left; exact H|].
  apply IH in H. destruct H as [H|H]; [|right; exact H].
  unfold apply_push in H. destruct (geval (push_guard q) r); [|left; exact H].
  cbn [eix epush] in H. destruct (N.eqb e (nthN r (p_col q))) eqn:E; [|left; exact H].
  apply in_app_or in H. destruct H as [H|[H|[]]]; [left; exact H|]. subst u. apply N.eqb_eq in E. subst e.
  right. unfold nthN. destruct (nth_in_or_default (p_col q) r 0%N) as [I|D]; [left; split; [reflexivity|exact I]|].
  right. split; [reflexivity|exact D].
Qed.

Lemma insert_unfold d root s r0 :
  insert d root s r0 =
  if contains_any (d_contains d) s (map root r0) then s
  else pushes (d_epush d) (map root r0) (apply_wrs radd (d_ins d) (map root r0) s).
Proof. reflexivity. Qed.

(* ---- take_rows *)
Lemma take_rows_snd up ei x : snd (take_rows up ei) x = if memN x up then [] else ei x.
Proof.
  revert ei. induction up as [|e up IH]; intros ei; cbn [take_rows snd]; [reflexivity|].
  rewrite IH. unfold memN. cbn [existsb]. fold (memN x up).
  destruct (memN x up); [rewrite orb_true_r; reflexivity|]. rewrite orb_false_r. reflexivity.
Qed.
Lemma take_rows_fst up ei e u : In e up -> In u (ei e) -> In u (fst (take_rows up ei)).
Proof.
  revert ei. induction up as [|x up IH]; intros ei He Hu; [destruct He|]. cbn [take_rows fst].
  apply in_or_app. destruct (N.eq_dec x e) as [E|E].
  - subst x. left. exact Hu.
  - right. apply IH.
    + destruct He as [He|He]; [contradiction|exact He].
    + destruct (N.eqb e x) eqn:Q; [apply N.eqb_eq in Q; congruence|exact Hu].
Qed.
