(* Coherent.FactsMain -- the statements of C04 in terms of wf_desc = true and Coherent. *)
From Coq Require Import List NArith Arith Bool Lia.
Import ListNotations.
Require Import Coherent.Model Coherent.Run Coherent.FactsList Coherent.FactsIdx Coherent.FactsGuard Coherent.FactsOps
  Coherent.FactsCoh Coherent.FactsStep Coherent.FactsCanon Coherent.FactsQuery Coherent.FactsDec Coherent.FactsReach.

Theorem insert_coherent d root s r :
  wf_desc d = true -> Coherent d s -> length r = d_arity d -> Coherent d (insert d root s r).
Proof.
  intros Hw C HL. pose proof (wf_desc_sound d Hw) as W.
  apply (CohG_Coherent d _ _ W (insert_CohG d root s (Rows d s) [] r W (Coherent_CohG d s W C) HL)).
Qed.

Theorem remove_row_coherent d s r s' :
  wf_desc d = true -> Coherent d s -> length r = d_arity d -> remove_row d s r = Some s' -> Coherent d s'.
Proof.
  intros Hw C HL E. pose proof (wf_desc_sound d Hw) as W.
  pose proof (remove_row_CohG d s (Rows d s) [] r W (Coherent_CohG d s W C) HL) as H. rewrite E in H.
  destruct H as [a [_ C']]. apply (CohG_Coherent d s' _ W C').
Qed.

(* a removed row really is gone, from every copy, and nothing else is *)
Theorem remove_row_rows d s r s' :
  wf_desc d = true -> Coherent d s -> length r = d_arity d -> remove_row d s r = Some s' ->
  forall a x, In x (Rows d s' a) <-> In x (Rows d s a) /\ x <> r.
Proof.
  intros Hw C HL E. pose proof (wf_desc_sound d Hw) as W. pose proof (Coherent_CohG d s W C) as G.
  pose proof (remove_row_CohG d s (Rows d s) [] r W G HL) as H. rewrite E in H.
  destruct H as [a0 [Hr C']]. intros a x. rewrite (CohG_Rows d s' _ [] a x W C'), Rrem_In. split.
  - intros [H1 H2]. split; [exact H1|]. intros Ex. subst x. destruct a, a0; try (apply H2; reflexivity).
    + apply (co_disj d s C r H1 Hr).
    + apply (co_disj d s C r Hr H1).
  - intros [H1 H2]. split; [exact H1|]. intros _. exact H2.
Qed.

Theorem insert_rows d root s r :
  wf_desc d = true -> Coherent d s -> length r = d_arity d ->
  (forall x, In x (Rows d (insert d root s r) Old) <-> In x (Rows d s Old)) /\
  (forall x, In x (Rows d (insert d root s r) New) <->
             In x (Rows d s New) \/ (x = map root r /\ ~ In x (Rows d s Old))).
Proof.
  intros Hw C HL. pose proof (wf_desc_sound d Hw) as W. pose proof (Coherent_CohG d s W C) as G.
  pose proof (insert_CohG d root s (Rows d s) [] r W G HL) as C'.
  assert (length (map root r) = d_arity d) as HL' by (rewrite map_length; exact HL).
  pose proof (insert_present d s (Rows d s) [] (map root r) W G HL') as P.
  split; intros x; rewrite (CohG_Rows d _ _ [] _ x W C').
  - destruct (contains_any (d_contains d) s (map root r)); [tauto|]. rewrite Radd_In. split; [|tauto].
    intros [H|[H _]]; [exact H|discriminate].
  - destruct (contains_any (d_contains d) s (map root r)) eqn:E.
    + split; [tauto|]. intros [H|[H1 H2]]; [exact H|]. subst x. destruct (proj1 P eq_refl) as [H|H]; [exact H|contradiction].
    + rewrite Radd_In. split.
      * intros [H|[_ H]]; [left; exact H|]. right. split; [exact H|]. subst x. intros H. 
        assert (false = true) as Q by (apply P; right; exact H). discriminate.
      * intros [H|[H _]]; [left; exact H|right; split; [reflexivity|exact H]].
Qed.

Theorem move_coherent d s : wf_desc d = true -> Coherent d s -> Coherent d (move d s).
Proof.
  intros Hw C. pose proof (wf_desc_sound d Hw) as W.
  apply (CohG_Coherent d _ _ W (move_CohG d s (Rows d s) [] W (Coherent_CohG d s W C))).
Qed.

Theorem move_rows d s :
  wf_desc d = true -> Coherent d s ->
  Rows d (move d s) New = [] /\ forall x, In x (Rows d (move d s) Old) <-> In x (Rows d s Old) \/ In x (Rows d s New).
Proof.
  intros Hw C. pose proof (wf_desc_sound d Hw) as W. pose proof (move_CohG d s (Rows d s) [] W (Coherent_CohG d s W C)) as C'.
  split.
  - destruct (Rows d (move d s) New) as [|x l] eqn:E; [reflexivity|]. exfalso.
    assert (In x (Rows d (move d s) New)) as I by (rewrite E; left; reflexivity).
    apply (CohG_Rows d _ _ [] New x W C') in I. destruct I.
  - intros x. rewrite (CohG_Rows d _ _ [] Old x W C'). cbn [Rmove]. apply in_app_iff.
Qed.

Theorem canon_row_coherent d root s r :
  wf_desc d = true -> Coherent d s -> length r = d_arity d -> Coherent d (canon_row d root s r).
Proof.
  intros Hw C HL. pose proof (wf_desc_sound d Hw) as W.
  destruct (canon_row_CohG d root s (Rows d s) [] r W (Coherent_CohG d s W C) HL) as [R' [C' _]].
  apply (CohG_Coherent d _ R' W C').
Qed.

Theorem canonicalize_coherent d root up s :
  wf_desc d = true -> Coherent d s -> ElenOk d s ->
  (forall x, root (root x) = root x) ->
  (forall e, In e up -> root e <> e) ->
  (forall a x e, In x (Rows d s a) -> In e x -> root e <> e -> In e up) ->
  Coherent d (canonicalize d root up s) /\ CanonicalRel d root (canonicalize d root up s) /\ ElenOk d (canonicalize d root up s).
Proof.
  intros Hw C E I Hup Hp. pose proof (wf_desc_sound d Hw) as W.
  destruct (canonicalize_CohG d root up s (Rows d s) W (Coherent_CohG d s W C) E I Hup Hp) as [R' [C' [E' Hr]]].
  split; [apply (CohG_Coherent d _ R' W C')|]. split; [|exact E'].
  intros a x Hx. apply (Hr a x). apply (CohG_Rows d _ R' [] a x W C'). exact Hx.
Qed.

(* all index copies stay coherent under canonicalize whatever the union-find side looks like; only the
   element-index clause needs the drained elements to be non-roots *)
Theorem canonicalize_indices_coherent d root up s :
  wf_desc d = true -> Coherent d s -> ElenOk d s ->
  let s' := canonicalize d root up s in
  (forall k, k < length (d_indices d) -> NoDup (tab s' k)) /\
  (forall k, k < length (d_indices d) -> forall r,
      In r (denote (d_arity d) (idx_at d k) (tab s' k)) <->
      In r (Rows d s' (i_age (idx_at d k))) /\ on_diag_b (d_arity d) (idx_at d k) r = true) /\
  (forall r, In r (Rows d s' New) -> ~ In r (Rows d s' Old)).
Proof.
  intros Hw C E s'. pose proof (wf_desc_sound d Hw) as W.
  destruct (canonicalize_CohG_weak d root up s (Rows d s) W (Coherent_CohG d s W C) E) as [R' C'].
  fold s' in C'. split; [|split].
  - intros k Hk. apply (cg_shape d s' R' up C' k Hk).
  - intros k Hk r. rewrite denote_spec; [|apply (wd_idx d W); exact Hk|apply (cg_shape d s' R' up C' k Hk)].
    rewrite (CohG_Rows d s' R' up _ r W C'). split.
    + intros [HL [HD Hin]]. split; [|exact HD]. apply (cg_tab d s' R' up C' k Hk r HL HD). exact Hin.
    + intros [Hin HD]. pose proof (cg_len d s' R' up C' _ r Hin) as HL. split; [exact HL|]. split; [exact HD|].
      apply (cg_tab d s' R' up C' k Hk r HL HD). exact Hin.
  - intros r H1 H2. apply (CohG_Rows d s' R' up New r W C') in H1. apply (CohG_Rows d s' R' up Old r W C') in H2.
    apply (cg_disj d s' R' up C' r H1 H2).
Qed.

Theorem member_agree_b d s k r :
  wf_desc d = true -> Coherent d s -> k < length (d_indices d) -> length r = d_arity d ->
  on_diag_b (d_arity d) (idx_at d k) r = true ->
  mem (store (d_arity d) (idx_at d k) r) (tab s k) = mem r (Rows d s (i_age (idx_at d k))).
Proof.
  intros Hw C Hk HL HD. pose proof (member_agree d s k r (wf_desc_sound d Hw) C Hk HL HD) as M.
  destruct (mem (store (d_arity d) (idx_at d k) r) (tab s k)) eqn:E1; destruct (mem r (Rows d s (i_age (idx_at d k)))) eqn:E2;
    try reflexivity.
  - apply mem_In in E1. apply mem_false in E2. exfalso. apply E2. apply M. exact E1.
  - apply mem_In in E2. apply mem_false in E1. exfalso. apply E1. apply M. exact E2.
Qed.

Theorem iter_agree_wf d s k :
  wf_desc d = true -> Coherent d s -> k < length (d_indices d) -> is_full (idx_at d k) = true ->
  NoDup (denote (d_arity d) (idx_at d k) (tab s k)) /\
  forall x, In x (denote (d_arity d) (idx_at d k) (tab s k)) <-> In x (Rows d s (i_age (idx_at d k))).
Proof. intros Hw. apply iter_agree. apply wf_desc_sound. exact Hw. Qed.

Theorem q_iter_wf d s :
  wf_desc d = true -> Coherent d s ->
  NoDup (q_iter d s) /\ forall x, In x (q_iter d s) <-> In x (Rows d s New) \/ In x (Rows d s Old).
Proof. intros Hw. apply q_iter_spec. apply wf_desc_sound. exact Hw. Qed.

Theorem q_holds_wf d root s args :
  wf_desc d = true -> Coherent d s -> d_q_contains d <> [] -> length args = d_arity d ->
  (q_holds d root s args = true <-> In (map root args) (q_iter d s)).
Proof. intros Hw. apply q_holds_iter. apply wf_desc_sound. exact Hw. Qed.

Theorem is_dirty_wf d s : wf_desc d = true -> Coherent d s -> (is_dirty d s = true <-> Rows d s New <> []).
Proof. intros Hw. apply is_dirty_spec. apply wf_desc_sound. exact Hw. Qed.

Theorem wr_guard_decided d a w :
  wr_ok d a w = true -> forall r, length r = d_arity d ->
  geval (w_guard w) r = on_diag_b (d_arity d) (idx_at d (w_field w)) r.
Proof. intros H. apply (wo_guard d a w (wr_ok_sound d a w H)). Qed.

(* ---- reachable states *)
Definition reachable_full_stmt : Prop :=
  forall (ds : list rel_desc), forallb wf_desc ds = true ->
  forall (h : list mop), Forall (op_ok ds) h ->
    MCoherent ds (mrun ds minit h) /\
    (forall pre ins, h = pre ++ MCanon :: ins -> Forall is_insert ins -> MCanonical ds (mrun ds minit h)).

Theorem reachable_full : reachable_full_stmt.
Proof.
  intros ds Hw h Hh. pose proof (WfAll_of_bool ds Hw) as W. split.
  - apply reachable_coherent; assumption.
  - intros pre ins E Hins. subst h. apply Forall_app in Hh. destruct Hh as [Hp Hi].
    inversion Hi as [|? ? _ Hi']; subst.
    apply (reachable_canonical ds pre ins W Hp Hi' Hins).
Qed.

(* finite compositions of single operations on one relation *)
Fixpoint rrun (d : rel_desc) (root : N -> N) (s : state) (ops : list rop) : state :=
  match ops with [] => s | o :: ops' => rrun d root (rstep d root s o) ops' end.
Definition rop_ok (d : rel_desc) (o : rop) : Prop :=
  match o with RIns r => length r = d_arity d | RCanon _ _ => False | RMove => True end.
Theorem rrun_coherent d root ops : forall s,
  wf_desc d = true -> Forall (rop_ok d) ops -> Coherent d s -> Coherent d (rrun d root s ops).
Proof.
  induction ops as [|o ops IH]; intros s Hw Ho C; cbn [rrun]; [exact C|].
  inversion Ho as [|? ? H1 H2]; subst. apply (IH _ Hw H2).
  destruct o as [r|root' up|]; cbn [rstep rop_ok] in *; [apply insert_coherent; assumption|contradiction|apply move_coherent; assumption].
Qed.
