(* Coherent.FactsQuery -- every query path gives the same answer. *)
From Coq Require Import List NArith Arith Bool Lia.
Import ListNotations.
Require Import Coherent.Model Coherent.FactsList Coherent.FactsIdx Coherent.FactsGuard Coherent.FactsOps Coherent.FactsCoh
  Coherent.FactsStep.

(* membership through ANY index of the right age (on whose diagonal the row lies) answers "is r a row of that age" *)
Theorem member_agree d s k r :
  WfDesc d -> Coherent d s -> k < length (d_indices d) -> length r = d_arity d ->
  on_diag_b (d_arity d) (idx_at d k) r = true ->
  (In (store (d_arity d) (idx_at d k) r) (tab s k) <-> In r (Rows d s (i_age (idx_at d k)))).
Proof.
  intros W C Hk HL HD. apply (cg_tab d s (Rows d s) [] (Coherent_CohG d s W C) k Hk r HL HD).
Qed.

Corollary member_agree2 d s k1 k2 r :
  WfDesc d -> Coherent d s -> k1 < length (d_indices d) -> k2 < length (d_indices d) ->
  i_age (idx_at d k1) = i_age (idx_at d k2) -> length r = d_arity d ->
  on_diag_b (d_arity d) (idx_at d k1) r = true -> on_diag_b (d_arity d) (idx_at d k2) r = true ->
  (mem (store (d_arity d) (idx_at d k1) r) (tab s k1) = mem (store (d_arity d) (idx_at d k2) r) (tab s k2)).
Proof.
  intros W C H1 H2 Ea HL D1 D2.
  pose proof (member_agree d s k1 r W C H1 HL D1) as M1. pose proof (member_agree d s k2 r W C H2 HL D2) as M2.
  rewrite Ea in M1.
  destruct (mem (store (d_arity d) (idx_at d k1) r) (tab s k1)) eqn:E1;
    destruct (mem (store (d_arity d) (idx_at d k2) r) (tab s k2)) eqn:E2; try reflexivity.
  - apply mem_In in E1. apply mem_false in E2. exfalso. apply E2. apply M2. apply M1. exact E1.
  - apply mem_In in E2. apply mem_false in E1. exfalso. apply E1. apply M1. apply M2. exact E2.
Qed.

(* iterating any full-order index and undoing its order yields the duplicate-free set of rows of its age *)
Theorem iter_agree d s k :
  WfDesc d -> Coherent d s -> k < length (d_indices d) -> is_full (idx_at d k) = true ->
  NoDup (denote (d_arity d) (idx_at d k) (tab s k)) /\
  forall x, In x (denote (d_arity d) (idx_at d k) (tab s k)) <-> In x (Rows d s (i_age (idx_at d k))).
Proof.
  intros W C Hk F. destruct (co_shape d s C k Hk) as [S1 S2]. rewrite Forall_forall in S2. split.
  - apply denote_NoDup; [apply (wd_idx d W k Hk)|exact S2|exact S1].
  - intros x. rewrite (co_denote d s C k Hk x). split; [tauto|]. intros H. split; [exact H|apply full_on_diag; exact F].
Qed.

Lemma NoDup_app2 {A} (a b : list A) : NoDup a -> NoDup b -> (forall x, In x a -> ~ In x b) -> NoDup (a ++ b).
Proof.
  induction a as [|y a IH]; intros Ha Hb Hd; cbn [app]; [exact Hb|].
  inversion Ha as [|? ? Hy Ha']; subst. constructor.
  - rewrite in_app_iff. intros [H|H]; [contradiction|]. apply (Hd y); [left; reflexivity|exact H].
  - apply IH; [exact Ha'|exact Hb|]. intros x Hx. apply Hd. right. exact Hx.
Qed.

Lemma full_iter_NoDup d s c a :
  WfDesc d -> Coherent d s -> FullOk d a c -> NoDup (map (unpat (d_arity d) (snd c)) (tab s (fst c))).
Proof.
  intros W C F. destruct F as [F1 F2 F3 F4].
  assert (map (unpat (d_arity d) (snd c)) (tab s (fst c)) = denote (d_arity d) (idx_at d (fst c)) (tab s (fst c))) as E.
  { unfold denote. apply map_ext. intros t. rewrite F4. symmetry. apply full_unstore_unpat. exact F3. }
  rewrite E. apply (iter_agree d s (fst c) W C F1 F3).
Qed.

(* iter_<rel>: each row exactly once, exactly the rows of either age *)
Theorem q_iter_spec d s :
  WfDesc d -> Coherent d s ->
  NoDup (q_iter d s) /\ forall x, In x (q_iter d s) <-> In x (Rows d s New) \/ In x (Rows d s Old).
Proof.
  intros W C. pose proof (Coherent_CohG d s W C) as G.
  destruct (wd_q_iter d W) as [c1 [c2 [Hq [F1 F2]]]].
  pose proof (full_iter d s (Rows d s) [] New c1 ) as I1. pose proof (full_iter d s (Rows d s) [] Old c2) as I2.
  pose proof (full_iter_NoDup d s c1 New W C F1) as N1. pose proof (full_iter_NoDup d s c2 Old W C F2) as N2.
  unfold q_iter. destruct Hq as [Hq|Hq]; rewrite Hq; cbn [flat_map]; rewrite app_nil_r; split.
  - apply NoDup_app2; [exact N1|exact N2|]. intros x H1 H2. apply (I1 x W G F1) in H1. apply (I2 x W G F2) in H2.
    apply (co_disj d s C x H1 H2).
  - intros x. rewrite in_app_iff, (I1 x W G F1), (I2 x W G F2). tauto.
  - apply NoDup_app2; [exact N2|exact N1|]. intros x H2 H1. apply (I1 x W G F1) in H1. apply (I2 x W G F2) in H2.
    apply (co_disj d s C x H1 H2).
  - intros x. rewrite in_app_iff, (I1 x W G F1), (I2 x W G F2). tauto.
Qed.

(* p(args): true iff the rooted argument tuple is a row (of either age) *)
Theorem q_holds_spec d root s args :
  WfDesc d -> Coherent d s -> d_q_contains d <> [] -> length args = d_arity d ->
  (q_holds d root s args = true <-> In (map root args) (Rows d s New) \/ In (map root args) (Rows d s Old)).
Proof.
  intros W C Hne HL. unfold q_holds.
  apply (contains_any_spec d s (Rows d s) [] _ _ W (Coherent_CohG d s W C) (wd_q_contains d W) Hne).
  rewrite map_length. exact HL.
Qed.

(* ... hence invariant under replacing an argument by an equal element *)
Theorem q_holds_equal_args d root s args args' :
  map root args = map root args' -> q_holds d root s args = q_holds d root s args'.
Proof. intros E. unfold q_holds. rewrite E. reflexivity. Qed.

(* p(args) agrees with the iterator *)
Corollary q_holds_iter d root s args :
  WfDesc d -> Coherent d s -> d_q_contains d <> [] -> length args = d_arity d ->
  (q_holds d root s args = true <-> In (map root args) (q_iter d s)).
Proof.
  intros W C Hne HL. rewrite (q_holds_spec d root s args W C Hne HL). symmetry. apply (q_iter_spec d s W C).
Qed.

(* is_dirty: "some row is new" *)
Theorem is_dirty_spec d s : WfDesc d -> Coherent d s -> (is_dirty d s = true <-> Rows d s New <> []).
Proof.
  intros W C. unfold is_dirty. rewrite (wd_dirty d W). unfold Rows, denote. cbn [prim].
  destruct (tab s (fst (d_prim_new d))); cbn [map]; split; congruence.
Qed.
