(* Coherent.FactsGuard -- deciding guards over all equality patterns (set partitions) of the columns.
   A guard only compares columns, so its value on a row depends only on the row's equality pattern; every
   pattern of n columns is realised by a row in [cands n] (relabel every value by n-1 minus the position of
   its last occurrence).  Hence [gvalid_b] / [gequiv_b] decide validity / equivalence for ALL rows. *)
From Coq Require Import List NArith Arith Bool Lia.
Import ListNotations.
Require Import Coherent.Model Coherent.FactsList.

Fixpoint lab (x : N) (r : row) : nat :=
  match r with [] => 0 | _ :: r' => if memN x r' then lab x r' else length r' end.
Definition relab (r : row) : row := map (fun x => N.of_nat (lab x r)) r.

Lemma lab_lt x r : In x r -> lab x r < length r.
Proof.
  induction r as [|y r IH]; intros H; [destruct H|]. cbn [lab length].
  destruct (memN x r) eqn:E; [|lia]. apply memN_In in E. specialize (IH E). lia.
Qed.

Lemma lab_inj x y r : In x r -> In y r -> lab x r = lab y r -> x = y.
Proof.
  induction r as [|z r IH]; intros Hx Hy E; [destruct Hx|]. cbn [lab] in E.
  destruct (memN x r) eqn:Ex; destruct (memN y r) eqn:Ey.
  - apply memN_In in Ex. apply memN_In in Ey. apply IH; assumption.
  - apply memN_In in Ex. pose proof (lab_lt x r Ex). lia.
  - apply memN_In in Ey. pose proof (lab_lt y r Ey). lia.
  - assert (x = z) as E1.
    { destruct Hx as [Hx|Hx]; [auto|]. apply memN_In in Hx. congruence. }
    assert (y = z) as E2.
    { destruct Hy as [Hy|Hy]; [auto|]. apply memN_In in Hy. congruence. }
    congruence.
Qed.

Lemma relab_cons y r : relab (y :: r) = N.of_nat (lab y (y :: r)) :: relab r.
Proof.
  unfold relab. cbn [map]. f_equal. apply map_ext_in. intros x Hx. cbn [lab].
  apply memN_In in Hx. rewrite Hx. reflexivity.
Qed.

Lemma relab_cands r : In (relab r) (cands (length r)).
Proof.
  induction r as [|y r IH]; [left; reflexivity|].
  cbn [length cands]. rewrite relab_cons. apply in_flat_map. exists (relab r). split; [exact IH|].
  apply in_map_iff. exists (lab y (y :: r)). split; [reflexivity|].
  apply in_seq. pose proof (lab_lt y (y :: r) (or_introl eq_refl)) as H. cbn [length] in H. lia.
Qed.

Lemma relab_length r : length (relab r) = length r.
Proof. apply map_length. Qed.

Lemma nthN_relab r i : i < length r -> nthN (relab r) i = N.of_nat (lab (nthN r i) r).
Proof.
  intros H. unfold relab, nthN.
  rewrite nth_indep with (d' := N.of_nat (lab 0%N r)) by (rewrite map_length; exact H).
  rewrite (map_nth (fun x => N.of_nat (lab x r))). reflexivity.
Qed.

Lemma relab_eqb r i j :
  i < length r -> j < length r ->
  N.eqb (nthN (relab r) i) (nthN (relab r) j) = N.eqb (nthN r i) (nthN r j).
Proof.
  intros Hi Hj. rewrite !nthN_relab by assumption.
  destruct (N.eqb (nthN r i) (nthN r j)) eqn:E.
  - apply N.eqb_eq in E. rewrite E. apply N.eqb_refl.
  - apply N.eqb_neq. intros H. apply Nat2N.inj in H.
    apply lab_inj in H; [|apply nthN_In; assumption|apply nthN_In; assumption].
    apply N.eqb_neq in E. contradiction.
Qed.

Lemma geval_relab n g r : gcols_ok n g = true -> length r = n -> geval g (relab r) = geval g r.
Proof.
  intros H HL. subst n. induction g as [|i j|a IHa|a IHa b IHb|a IHa b IHb]; cbn [geval gcols_ok] in *.
  - reflexivity.
  - apply andb_true_iff in H. destruct H as [Hi Hj]. apply Nat.ltb_lt in Hi. apply Nat.ltb_lt in Hj.
    apply relab_eqb; assumption.
  - rewrite IHa by exact H. reflexivity.
  - apply andb_true_iff in H. destruct H as [Ha Hb]. rewrite IHa, IHb by assumption. reflexivity.
  - apply andb_true_iff in H. destruct H as [Ha Hb]. rewrite IHa, IHb by assumption. reflexivity.
Qed.

Theorem gvalid_sound n g : gvalid_b n g = true -> forall r, length r = n -> geval g r = true.
Proof.
  unfold gvalid_b. intros H r HL. apply andb_true_iff in H. destruct H as [Hc Hf].
  rewrite <- (geval_relab n g r Hc HL). rewrite forallb_forall in Hf. apply Hf.
  rewrite <- HL. apply relab_cands.
Qed.

Theorem gequiv_sound n g1 g2 : gequiv_b n g1 g2 = true -> forall r, length r = n -> geval g1 r = geval g2 r.
Proof.
  unfold gequiv_b. intros H r HL.
  apply andb_true_iff in H. destruct H as [H Hf]. apply andb_true_iff in H. destruct H as [Hc1 Hc2].
  rewrite <- (geval_relab n g1 r Hc1 HL), <- (geval_relab n g2 r Hc2 HL).
  rewrite forallb_forall in Hf. apply eqb_prop. apply Hf. rewrite <- HL. apply relab_cands.
Qed.

(* the candidate set is exactly n! rows (no blow-up) *)
Lemma cands_length n : length (cands n) = fact n.
Proof.
  induction n as [|n IH]; [reflexivity|]. cbn [cands].
  assert (forall (l : list row) k, length (flat_map (fun c => map (fun v => N.of_nat v :: c) (seq 0 k)) l) = length l * k) as F.
  { induction l as [|c l IHl]; intros k; cbn [flat_map length]; [reflexivity|].
    rewrite app_length, map_length, seq_length, IHl. lia. }
  rewrite F, IH. cbn [fact]. lia.
Qed.
