(* Coherent.FactsCoh -- wf_desc as propositions; coherence w.r.t. explicit row sets (CohG) and its equivalence
   with [Coherent] (which reads the row sets off the primary indices). *)
From Coq Require Import List NArith Arith Bool Lia.
Import ListNotations.
Require Import Coherent.Model Coherent.FactsList Coherent.FactsIdx Coherent.FactsGuard Coherent.FactsOps.

(* ------------------------------------------------------------------------------------------------ wf pieces *)
Record FullOk (d : rel_desc) (a : age) (c : nat * list nat) : Prop := {
  fo_lt : fst c < length (d_indices d);
  fo_age : i_age (idx_at d (fst c)) = a;
  fo_full : is_full (idx_at d (fst c)) = true;
  fo_args : snd c = cols (d_arity d) (idx_at d (fst c))
}.
Lemma age_eqb_eq a b : age_eqb a b = true -> a = b.
Proof. destruct a, b; cbn; congruence. Qed.
Lemma age_eqb_refl a : age_eqb a a = true.
Proof. destruct a; reflexivity. Qed.
Lemma full_ok_sound d a c : full_ok d a c = true -> FullOk d a c.
Proof.
  unfold full_ok. intros H.
  apply andb_true_iff in H. destruct H as [H H4]. apply andb_true_iff in H. destruct H as [H H3].
  apply andb_true_iff in H. destruct H as [H1 H2].
  constructor; [apply Nat.ltb_lt; exact H1|apply age_eqb_eq; exact H2|exact H3|apply list_nat_eqb_eq; exact H4].
Qed.

Record WrOk (d : rel_desc) (a : age) (w : wr) : Prop := {
  wo_lt : w_field w < length (d_indices d);
  wo_age : i_age (idx_at d (w_field w)) = a;
  wo_args : w_args w = cols (d_arity d) (idx_at d (w_field w));
  wo_guard : forall r, length r = d_arity d -> geval (w_guard w) r = on_diag_b (d_arity d) (idx_at d (w_field w)) r
}.
Lemma wr_ok_sound d a w : wr_ok d a w = true -> WrOk d a w.
Proof.
  unfold wr_ok. intros H.
  apply andb_true_iff in H. destruct H as [H H4]. apply andb_true_iff in H. destruct H as [H H3].
  apply andb_true_iff in H. destruct H as [H1 H2].
  constructor; [apply Nat.ltb_lt; exact H1|apply age_eqb_eq; exact H2|apply list_nat_eqb_eq; exact H3|].
  intros r HL. unfold on_diag_b. apply (gequiv_sound _ _ _ H4 r HL).
Qed.

Definition Covers (d : rel_desc) (a : age) (except : nat -> Prop) (ws : list wr) : Prop :=
  forall k, k < length (d_indices d) -> i_age (idx_at d k) = a -> ~ except k -> exists w, In w ws /\ w_field w = k.

Lemma fields_of_age_In d a k : In k (fields_of_age d a) <-> k < length (d_indices d) /\ i_age (idx_at d k) = a.
Proof.
  unfold fields_of_age. rewrite filter_In, in_seq. split.
  - intros [H1 H2]. split; [lia|apply age_eqb_eq; exact H2].
  - intros [H1 H2]. split; [lia|rewrite H2; apply age_eqb_refl].
Qed.
Lemma covers_sound d a ws : covers (fields_of_age d a) ws = true -> Covers d a (fun _ => False) ws.
Proof.
  unfold covers. intros H k Hk Ha _. rewrite forallb_forall in H.
  assert (In k (fields_of_age d a)) as I by (apply fields_of_age_In; split; assumption).
  specialize (H k I). apply existsb_exists in H. destruct H as [w [Hw E]]. apply Nat.eqb_eq in E.
  exists w. split; assumption.
Qed.
Lemma covers_except_sound d a k0 ws :
  covers (filter (fun k => negb (Nat.eqb k k0)) (fields_of_age d a)) ws = true -> Covers d a (fun k => k = k0) ws.
Proof.
  unfold covers. intros H k Hk Ha Hne. rewrite forallb_forall in H.
  assert (In k (filter (fun k => negb (Nat.eqb k k0)) (fields_of_age d a))) as I.
  { apply filter_In. split; [apply fields_of_age_In; split; assumption|].
    apply negb_true_iff. apply Nat.eqb_neq. exact Hne. }
  specialize (H k I). apply existsb_exists in H. destruct H as [w [Hw E]]. apply Nat.eqb_eq in E.
  exists w. split; assumption.
Qed.

Definition PairOk (d : rel_desc) (cs : list (nat * list nat)) : Prop :=
  cs = [] \/ ((forall c, In c cs -> exists a, FullOk d a c) /\ (exists c, In c cs /\ FullOk d New c) /\ (exists c, In c cs /\ FullOk d Old c)).
Lemma pair_ok_sound d cs : pair_ok d cs = true -> PairOk d cs.
Proof.
  unfold pair_ok. intros H. apply orb_true_iff in H. destruct H as [H|H].
  - left. destruct cs; [reflexivity|discriminate].
  - right. apply andb_true_iff in H. destruct H as [H H3]. apply andb_true_iff in H. destruct H as [H1 H2].
    split; [|split].
    + intros c Hc. rewrite forallb_forall in H1. specialize (H1 c Hc). unfold full_any in H1.
      apply orb_true_iff in H1. destruct H1 as [H1|H1]; [exists New|exists Old]; apply full_ok_sound; exact H1.
    + apply existsb_exists in H2. destruct H2 as [c [Hc H2]]. exists c. split; [exact Hc|apply full_ok_sound; exact H2].
    + apply existsb_exists in H3. destruct H3 as [c [Hc H3]]. exists c. split; [exact Hc|apply full_ok_sound; exact H3].
Qed.

Lemma geval_cover_guard ps c r :
  geval (fold_right (fun p g => GOr (GAnd (GEq (p_col p) c) (push_guard p)) g) (GNot GTrue) ps) r = true ->
  exists p, In p ps /\ nthN r (p_col p) = nthN r c /\ geval (push_guard p) r = true.
Proof.
  induction ps as [|p ps IH]; cbn [fold_right geval]; [cbn; discriminate|].
  intros H. apply orb_true_iff in H. destruct H as [H|H].
  - apply andb_true_iff in H. destruct H as [H1 H2]. apply N.eqb_eq in H1.
    exists p. split; [left; reflexivity|split; assumption].
  - destruct (IH H) as [q [Hq H']]. exists q. split; [right; exact Hq|exact H'].
Qed.

Record WfDesc (d : rel_desc) : Prop := {
  wd_idx : forall k, k < length (d_indices d) -> WfIdx (d_arity d) (idx_at d k);
  (* insert *)
  wd_contains_ne : d_contains d <> [];
  wd_contains : PairOk d (d_contains d);
  wd_ins_ok : forall w, In w (d_ins d) -> WrOk d New w;
  wd_ins_cover : Covers d New (fun _ => False) (d_ins d);
  wd_push_cover : forall c r, c < d_arity d -> length r = d_arity d ->
      exists p, In p (d_epush d) /\ nthN r (p_col p) = nthN r c /\ geval (push_guard p) r = true;
  (* canonicalize *)
  wd_prim_new : FullOk d New (d_prim_new d);
  wd_prim_old : FullOk d Old (d_prim_old d);
  wd_rm_new_ok : forall w, In w (d_rm_new d) -> WrOk d New w;
  wd_rm_new_cover : Covers d New (fun k => k = fst (d_prim_new d)) (d_rm_new d);
  wd_rm_old_ok : forall w, In w (d_rm_old d) -> WrOk d Old w;
  wd_rm_old_cover : Covers d Old (fun k => k = fst (d_prim_old d)) (d_rm_old d);
  (* move *)
  wd_mv_iter : FullOk d New (d_mv_iter d);
  wd_mv_fill_ok : forall w, In w (d_mv_fill d) -> WrOk d Old w;
  wd_mv_fill_cover : Covers d Old (fun _ => False) (d_mv_fill d);
  wd_mv_clear_all : forall k, k < length (d_indices d) -> i_age (idx_at d k) = New -> In k (d_mv_clear d);
  wd_mv_clear_only : forall k, In k (d_mv_clear d) -> k < length (d_indices d) /\ i_age (idx_at d k) = New;
  wd_dirty : d_dirty d = fst (d_prim_new d);
  (* queries *)
  wd_q_some : d_q_contains d <> [] \/ d_q_eval d <> [];
  wd_q_contains : PairOk d (d_q_contains d);
  wd_q_iter : exists c1 c2, (d_q_iter d = [c1; c2] \/ d_q_iter d = [c2; c1]) /\ FullOk d New c1 /\ FullOk d Old c2;
  wd_q_eval : PairOk d (map (fun c => (fst c, snd c ++ [pred (d_arity d)])) (d_q_eval d))
}.

Lemma forallb_In {A} (f : A -> bool) l x : forallb f l = true -> In x l -> f x = true.
Proof. intros H I. rewrite forallb_forall in H. apply H. exact I. Qed.

Theorem wf_desc_sound d : wf_desc d = true -> WfDesc d.
Proof.
  unfold wf_desc. intros H.
  apply andb_true_iff in H. destruct H as [H Hq]. apply andb_true_iff in H. destruct H as [H Hm].
  apply andb_true_iff in H. destruct H as [H Hc]. apply andb_true_iff in H. destruct H as [Hb Hi].
  (* base *)
  unfold wf_base in Hb. apply andb_true_iff in Hb. destruct Hb as [_ Hb3].
  (* insert *)
  unfold wf_insert in Hi.
  apply andb_true_iff in Hi. destruct Hi as [Hi Hi6]. apply andb_true_iff in Hi. destruct Hi as [Hi _].
  apply andb_true_iff in Hi. destruct Hi as [Hi Hi4]. apply andb_true_iff in Hi. destruct Hi as [Hi Hi3].
  apply andb_true_iff in Hi. destruct Hi as [Hi1 Hi2].
  (* canon *)
  unfold wf_canon in Hc.
  apply andb_true_iff in Hc. destruct Hc as [Hc Hc7]. apply andb_true_iff in Hc. destruct Hc as [Hc Hc6].
  apply andb_true_iff in Hc. destruct Hc as [Hc Hc5]. apply andb_true_iff in Hc. destruct Hc as [Hc Hc4].
  apply andb_true_iff in Hc. destruct Hc as [Hc Hc3]. apply andb_true_iff in Hc. destruct Hc as [_ Hc2].
  (* move *)
  unfold wf_move in Hm.
  apply andb_true_iff in Hm. destruct Hm as [Hm Hm6]. apply andb_true_iff in Hm. destruct Hm as [Hm Hm5].
  apply andb_true_iff in Hm. destruct Hm as [Hm Hm4]. apply andb_true_iff in Hm. destruct Hm as [Hm Hm3].
  apply andb_true_iff in Hm. destruct Hm as [Hm1 Hm2].
  (* query *)
  unfold wf_query in Hq.
  apply andb_true_iff in Hq. destruct Hq as [Hq Hq4]. apply andb_true_iff in Hq. destruct Hq as [Hq Hq3].
  apply andb_true_iff in Hq. destruct Hq as [Hq1 Hq2].
  constructor.
  - intros k Hk. apply wf_idx_sound. apply (forallb_In _ _ _ Hb3). unfold idx_at. apply nth_In. exact Hk.
  - intros E. rewrite E in Hi1. discriminate.
  - apply pair_ok_sound. exact Hi2.
  - intros w Hw. apply wr_ok_sound. apply (forallb_In _ _ _ Hi3 Hw).
  - apply covers_sound. exact Hi4.
  - intros c r Hcn HL.
    assert (gvalid_b (d_arity d) (cover_guard d c) = true) as G.
    { apply (forallb_In _ _ _ Hi6). apply in_seq. lia. }
    apply geval_cover_guard. apply (gvalid_sound _ _ G r HL).
  - apply full_ok_sound. exact Hc2.
  - apply full_ok_sound. exact Hc3.
  - intros w Hw. apply wr_ok_sound. apply (forallb_In _ _ _ Hc4 Hw).
  - apply covers_except_sound. exact Hc5.
  - intros w Hw. apply wr_ok_sound. apply (forallb_In _ _ _ Hc6 Hw).
  - apply covers_except_sound. exact Hc7.
  - apply full_ok_sound. exact Hm1.
  - intros w Hw. apply wr_ok_sound. apply (forallb_In _ _ _ Hm2 Hw).
  - apply covers_sound. exact Hm3.
  - intros k Hk Ha. apply mem_nat_In. apply (forallb_In _ _ _ Hm4). apply fields_of_age_In. split; assumption.
  - intros k Hk. apply fields_of_age_In. apply mem_nat_In. apply (forallb_In _ _ _ Hm5 Hk).
  - apply Nat.eqb_eq. exact Hm6.
  - destruct (d_q_contains d); [|left; discriminate]. destruct (d_q_eval d); [discriminate|right; discriminate].
  - apply pair_ok_sound. exact Hq2.
  - destruct (d_q_iter d) as [|c1 [|c2 [|c3 l]]]; try discriminate.
    apply orb_true_iff in Hq3. destruct Hq3 as [Hq3|Hq3]; apply andb_true_iff in Hq3; destruct Hq3 as [Ha Hb].
    + exists c1, c2. split; [left; reflexivity|split; apply full_ok_sound; assumption].
    + exists c2, c1. split; [right; reflexivity|split; apply full_ok_sound; assumption].
  - apply pair_ok_sound. exact Hq4.
Qed.

(* ------------------------------------------------------------------------------------------------ CohG *)
(* coherence with respect to explicit sets of rows R New / R Old; U = elements exempt from the element-index
   clause (the uprooted elements while canonicalize is running) *)
Record CohG (d : rel_desc) (s : state) (R : age -> list row) (U : list N) : Prop := {
  cg_len : forall a r, In r (R a) -> length r = d_arity d;
  cg_shape : forall k, k < length (d_indices d) ->
      NoDup (tab s k) /\ forall t, In t (tab s k) -> length t = length (i_order (idx_at d k));
  cg_tab : forall k, k < length (d_indices d) -> forall r, length r = d_arity d ->
      on_diag_b (d_arity d) (idx_at d k) r = true ->
      (In (store (d_arity d) (idx_at d k) r) (tab s k) <-> In r (R (i_age (idx_at d k))));
  cg_disj : forall r, In r (R New) -> ~ In r (R Old);
  cg_eidx : forall a r e, In r (R a) -> In e r -> ~ In e U -> In r (eix s e)
}.

Lemma prim_full d a : WfDesc d -> FullOk d a (prim d a, snd (match a with New => d_prim_new d | Old => d_prim_old d end)).
Proof.
  intros W. destruct a; cbn [prim].
  - pose proof (wd_prim_new d W) as F. destruct (d_prim_new d). exact F.
  - pose proof (wd_prim_old d W) as F. destruct (d_prim_old d). exact F.
Qed.

(* membership through a full-order index of age a *)
Lemma full_member d s R U a c r :
  WfDesc d -> CohG d s R U -> FullOk d a c -> length r = d_arity d ->
  (In (pick (snd c) r) (tab s (fst c)) <-> In r (R a)).
Proof.
  intros W C F HL. destruct F as [F1 F2 F3 F4]. rewrite F4. fold (store (d_arity d) (idx_at d (fst c)) r).
  rewrite (cg_tab d s R U C (fst c) F1 r HL (full_on_diag _ _ _ F3)). rewrite F2. tauto.
Qed.

Lemma CohG_Rows d s R U a r : WfDesc d -> CohG d s R U -> (In r (Rows d s a) <-> In r (R a)).
Proof.
  intros W C. pose proof (prim_full d a W) as F. destruct F as [F1 F2 F3 F4]. cbn [fst snd] in *.
  unfold Rows. rewrite denote_spec.
  - split.
    + intros [HL [HD Hin]]. rewrite (cg_tab d s R U C _ F1 r HL HD), F2 in Hin. exact Hin.
    + intros Hin. pose proof (cg_len d s R U C a r Hin) as HL.
      pose proof (full_on_diag (d_arity d) _ r F3) as HD. split; [exact HL|]. split; [exact HD|].
      rewrite (cg_tab d s R U C _ F1 r HL HD), F2. exact Hin.
  - apply (wd_idx d W). exact F1.
  - apply (cg_shape d s R U C _ F1).
Qed.

Theorem CohG_Coherent d s R : WfDesc d -> CohG d s R [] -> Coherent d s.
Proof.
  intros W C. constructor.
  - intros k Hk. destruct (cg_shape d s R [] C k Hk) as [H1 H2]. split; [exact H1|].
    apply Forall_forall. exact H2.
  - intros k Hk r. rewrite denote_spec; [|apply (wd_idx d W); exact Hk|apply (cg_shape d s R [] C k Hk)].
    rewrite (CohG_Rows d s R [] _ r W C). split.
    + intros [HL [HD Hin]]. split; [|exact HD]. apply (cg_tab d s R [] C k Hk r HL HD). exact Hin.
    + intros [Hin HD]. pose proof (cg_len d s R [] C _ r Hin) as HL. split; [exact HL|]. split; [exact HD|].
      apply (cg_tab d s R [] C k Hk r HL HD). exact Hin.
  - intros r H1 H2. apply (CohG_Rows d s R [] New r W C) in H1. apply (CohG_Rows d s R [] Old r W C) in H2.
    apply (cg_disj d s R [] C r H1 H2).
  - intros a r e H1 H2. apply (CohG_Rows d s R [] a r W C) in H1. apply (cg_eidx d s R [] C a r e H1 H2). intros [].
Qed.

Lemma Rows_length d s a r : In r (Rows d s a) -> length r = d_arity d.
Proof. unfold Rows, denote. rewrite in_map_iff. intros [t [E _]]. subst r. apply unstore_length. Qed.

Theorem Coherent_CohG d s : WfDesc d -> Coherent d s -> CohG d s (Rows d s) [].
Proof.
  intros W C. destruct C as [C1 C2 C3 C4]. constructor.
  - intros a r. apply Rows_length.
  - intros k Hk. destruct (C1 k Hk) as [H1 H2]. split; [exact H1|]. rewrite Forall_forall in H2. exact H2.
  - intros k Hk r HL HD. specialize (C2 k Hk r).
    rewrite denote_spec in C2; [|apply (wd_idx d W); exact Hk|].
    + split.
      * intros Hin. apply C2. split; [exact HL|]. split; [exact HD|exact Hin].
      * intros Hin. apply C2. split; assumption.
    + destruct (C1 k Hk) as [_ H2]. rewrite Forall_forall in H2. exact H2.
  - exact C3.
  - intros a r e H1 H2 _. apply (C4 a r e H1 H2).
Qed.

Lemma CohG_ext d s R R' U :
  (forall a r, In r (R a) <-> In r (R' a)) -> CohG d s R U -> CohG d s R' U.
Proof.
  intros E C. destruct C as [C1 C2 C3 C4 C5]. constructor.
  - intros a r H. apply (C1 a r). apply E. exact H.
  - exact C2.
  - intros k Hk r HL HD. rewrite (C3 k Hk r HL HD). apply E.
  - intros r H1 H2. apply (C4 r); apply E; assumption.
  - intros a r e H1 H2 H3. apply (C5 a r e); [apply E; exact H1|exact H2|exact H3].
Qed.

Lemma CohG_weaken d s R U U' : (forall e, In e U -> In e U') -> CohG d s R U -> CohG d s R U'.
Proof.
  intros E C. destruct C as [C1 C2 C3 C4 C5]. constructor; try assumption.
  intros a r e H1 H2 H3. apply (C5 a r e H1 H2). intros H. apply H3. apply E. exact H.
Qed.
