(* Coherent.FactsStep -- every update path keeps the copies coherent (w.r.t. explicit row sets). *)
From Coq Require Import List NArith Arith Bool Lia.
Import ListNotations.
Require Import Coherent.Model Coherent.FactsList Coherent.FactsIdx Coherent.FactsGuard Coherent.FactsOps Coherent.FactsCoh.

Definition Radd (R : age -> list row) (a : age) (r : row) : age -> list row :=
  fun b => if age_eqb b a then R b ++ [r] else R b.
Definition Rrem (R : age -> list row) (a : age) (r : row) : age -> list row :=
  fun b => if age_eqb b a then rrem r (R b) else R b.
Definition Rmove (R : age -> list row) : age -> list row :=
  fun b => match b with New => [] | Old => R Old ++ R New end.

Lemma age_eqb_neq a b : age_eqb a b = false -> a <> b.
Proof. destruct a, b; cbn; congruence. Qed.
Lemma Radd_In R a r b x : In x (Radd R a r b) <-> In x (R b) \/ (b = a /\ x = r).
Proof.
  unfold Radd. destruct (age_eqb b a) eqn:E.
  - apply age_eqb_eq in E. rewrite in_app_iff. cbn [In]. intuition.
  - apply age_eqb_neq in E. intuition.
Qed.
Lemma Rrem_In R a r b x : In x (Rrem R a r b) <-> In x (R b) /\ (b = a -> x <> r).
Proof.
  unfold Rrem. destruct (age_eqb b a) eqn:E.
  - apply age_eqb_eq in E. rewrite rrem_In. intuition.
  - apply age_eqb_neq in E. intuition.
Qed.

(* ---- what a firing write says, given the write obligations *)
Lemma fires_ok d a ws r k t :
  (forall w, In w ws -> WrOk d a w) -> length r = d_arity d -> fires ws r k t ->
  k < length (d_indices d) /\ i_age (idx_at d k) = a /\ on_diag_b (d_arity d) (idx_at d k) r = true /\
  t = store (d_arity d) (idx_at d k) r.
Proof.
  intros Hok HL [w [Hw [Hk [Hg Ht]]]]. destruct (Hok w Hw) as [O1 O2 O3 O4]. subst k.
  split; [exact O1|]. split; [exact O2|]. split; [rewrite <- (O4 r HL); exact Hg|]. rewrite Ht, O3. reflexivity.
Qed.
Lemma fires_cover d a ws r k :
  (forall w, In w ws -> WrOk d a w) -> (exists w, In w ws /\ w_field w = k) -> length r = d_arity d ->
  on_diag_b (d_arity d) (idx_at d k) r = true -> fires ws r k (store (d_arity d) (idx_at d k) r).
Proof.
  intros Hok [w [Hw Hk]] HL HD. destruct (Hok w Hw) as [O1 O2 O3 O4]. subst k.
  exists w. split; [exact Hw|]. split; [reflexivity|]. split; [rewrite (O4 r HL); exact HD|]. rewrite O3. reflexivity.
Qed.

(* ------------------------------------------------------------------------------------------------ insert *)
Lemma contains_any_spec d s R U cs r :
  WfDesc d -> CohG d s R U -> PairOk d cs -> cs <> [] -> length r = d_arity d ->
  (contains_any cs s r = true <-> In r (R New) \/ In r (R Old)).
Proof.
  intros W C P Hne HL. destruct P as [P|[P1 [[cn [Hcn Fn]] [co [Hco Fo]]]]]; [contradiction|].
  unfold contains_any. rewrite existsb_exists. split.
  - intros [c [Hc Hm]]. apply mem_In in Hm. destruct (P1 c Hc) as [a F].
    apply (full_member d s R U a c r W C F HL) in Hm. destruct a; [left|right]; exact Hm.
  - intros [H|H].
    + exists cn. split; [exact Hcn|]. apply mem_In. apply (full_member d s R U New cn r W C Fn HL). exact H.
    + exists co. split; [exact Hco|]. apply mem_In. apply (full_member d s R U Old co r W C Fo HL). exact H.
Qed.

Theorem insert_CohG d root s R U r0 :
  WfDesc d -> CohG d s R U -> length r0 = d_arity d ->
  CohG d (insert d root s r0)
       (if contains_any (d_contains d) s (map root r0) then R else Radd R New (map root r0)) U.
Proof.
  intros W C HL0. rewrite insert_unfold. set (r := map root r0).
  assert (length r = d_arity d) as HL by (unfold r; rewrite map_length; exact HL0).
  destruct (contains_any (d_contains d) s r) eqn:Hc; [exact C|].
  assert (~ In r (R New) /\ ~ In r (R Old)) as [HnN HnO].
  { split; intros H; rewrite (proj2 (contains_any_spec d s R U _ r W C (wd_contains d W) (wd_contains_ne d W) HL)) in Hc;
      try discriminate; auto. }
  pose proof (wd_ins_ok d W) as Hok.
  constructor.
  - intros a x Hx. apply Radd_In in Hx. destruct Hx as [Hx|[_ Hx]]; [apply (cg_len d s R U C a x Hx)|subst x; exact HL].
  - intros k Hk. rewrite pushes_tab. destruct (cg_shape d s R U C k Hk) as [S1 S2]. split.
    + apply apply_wrs_NoDup; [apply radd_NoDup|exact S1].
    + intros t Ht. apply apply_wrs_add_In in Ht. destruct Ht as [Ht|Ht]; [apply S2; exact Ht|].
      destruct (fires_ok d New _ r k t Hok HL Ht) as [_ [_ [_ Et]]]. subst t. apply store_length.
  - intros k Hk x HLx HDx. rewrite pushes_tab, apply_wrs_add_In, Radd_In.
    rewrite (cg_tab d s R U C k Hk x HLx HDx). split.
    + intros [H|H]; [left; exact H|]. destruct (fires_ok d New _ r k _ Hok HL H) as [_ [Ha [Hd Es]]].
      right. split; [exact Ha|]. apply (store_inj _ _ x r (wd_idx d W k Hk) HLx HL HDx Hd Es).
    + intros [H|[Ha Ex]]; [left; exact H|]. right. subst x.
      apply (fires_cover d New _ r k Hok); [|exact HL|exact HDx].
      apply (wd_ins_cover d W k Hk Ha). intros [].
  - intros x H1 H2. apply Radd_In in H1. apply Radd_In in H2.
    destruct H2 as [H2|[H2 _]]; [|discriminate]. destruct H1 as [H1|[_ H1]].
    + apply (cg_disj d s R U C x H1 H2).
    + subst x. contradiction.
  - intros a x e Hx He HU. apply Radd_In in Hx. destruct Hx as [Hx|[_ Hx]].
    + apply pushes_mono. rewrite apply_wrs_eix. apply (cg_eidx d s R U C a x e Hx He HU).
    + subst x. destruct (In_nth_N r e He) as [c [Hcl Hce]]. rewrite HL in Hcl.
      destruct (wd_push_cover d W c r Hcl HL) as [p [Hp [Hpe Hpg]]].
      rewrite <- Hce, <- Hpe. apply pushes_hit; assumption.
Qed.

(* the inserted row is new exactly when it was in neither age *)
Lemma insert_present d s R U r :
  WfDesc d -> CohG d s R U -> length r = d_arity d ->
  (contains_any (d_contains d) s r = true <-> In r (R New) \/ In r (R Old)).
Proof. intros W C HL. apply (contains_any_spec d s R U _ r W C (wd_contains d W) (wd_contains_ne d W) HL). Qed.

(* ------------------------------------------------------------------------------------------------ removal *)
Lemma remove_age d s R U a kp ap ws r :
  WfDesc d -> CohG d s R U -> FullOk d a (kp, ap) -> (forall w, In w ws -> WrOk d a w) ->
  Covers d a (fun k => k = kp) ws -> length r = d_arity d ->
  CohG d (apply_wrs rrem ws r (tab_upd kp (rrem (pick ap r)) s)) (Rrem R a r) U.
Proof.
  intros W C F Hok Hcov HL. destruct F as [F1 F2 F3 F4]. cbn [fst snd] in *.
  set (s1 := tab_upd kp (rrem (pick ap r)) s).
  assert (forall k t, In t (tab s1 k) -> In t (tab s k)) as Hsub1.
  { intros k t H. unfold s1 in H. destruct (Nat.eq_dec k kp) as [E|E].
    - subst k. rewrite tab_upd_same in H. apply rrem_In in H. tauto.
    - rewrite tab_upd_other in H by exact E. exact H. }
  assert (pick ap r = store (d_arity d) (idx_at d kp) r) as Epick by (rewrite F4; reflexivity).
  constructor.
  - intros b x Hx. apply Rrem_In in Hx. apply (cg_len d s R U C b x (proj1 Hx)).
  - intros k Hk. destruct (cg_shape d s R U C k Hk) as [S1 S2]. split.
    + apply apply_wrs_NoDup; [apply rrem_NoDup|]. unfold s1. destruct (Nat.eq_dec k kp) as [E|E].
      * subst k. rewrite tab_upd_same. apply rrem_NoDup. exact S1.
      * rewrite tab_upd_other by exact E. exact S1.
    + intros t Ht. apply apply_wrs_rem_In in Ht. apply S2. apply Hsub1. tauto.
  - intros k Hk x HLx HDx. rewrite apply_wrs_rem_In, Rrem_In.
    pose proof (cg_tab d s R U C k Hk x HLx HDx) as T. split.
    + intros [H1 H2]. split; [apply T; apply Hsub1; exact H1|]. intros Ea Ex. subst x.
      destruct (Nat.eq_dec k kp) as [E|E].
      * subst k. unfold s1 in H1. rewrite tab_upd_same in H1. apply rrem_In in H1. destruct H1 as [_ H1].
        apply H1. symmetry. exact Epick.
      * apply H2. apply (fires_cover d a ws r k Hok); [|exact HL|exact HDx]. apply (Hcov k Hk Ea E).
    + intros [H1 H2]. apply T in H1. split.
      * unfold s1. destruct (Nat.eq_dec k kp) as [E|E].
        -- subst k. rewrite tab_upd_same. apply rrem_In. split; [exact H1|]. intros Es. rewrite Epick in Es.
           apply (H2 F2). apply (store_inj _ _ x r (wd_idx d W kp Hk) HLx HL HDx (full_on_diag _ _ _ F3) Es).
        -- rewrite tab_upd_other by exact E. exact H1.
      * intros Hf. destruct (fires_ok d a ws r k _ Hok HL Hf) as [_ [Ha [Hd Es]]].
        apply (H2 Ha). apply (store_inj _ _ x r (wd_idx d W k Hk) HLx HL HDx Hd Es).
  - intros x H1 H2. apply Rrem_In in H1. apply Rrem_In in H2. apply (cg_disj d s R U C x (proj1 H1) (proj1 H2)).
  - intros b x e Hx He HU. apply Rrem_In in Hx. rewrite apply_wrs_eix. unfold s1. rewrite eix_tab_upd.
    apply (cg_eidx d s R U C b x e (proj1 Hx) He HU).
Qed.

Theorem remove_row_CohG d s R U r :
  WfDesc d -> CohG d s R U -> length r = d_arity d ->
  match remove_row d s r with
  | Some s' => exists a, In r (R a) /\ CohG d s' (Rrem R a r) U
  | None => ~ In r (R New) /\ ~ In r (R Old)
  end.
Proof.
  intros W C HL. unfold remove_row.
  pose proof (wd_prim_new d W) as Fn. pose proof (wd_prim_old d W) as Fo.
  destruct (d_prim_new d) as [kn an] eqn:En. destruct (d_prim_old d) as [ko ao] eqn:Eo. cbn [fst snd].
  pose proof (full_member d s R U New (kn, an) r W C Fn HL) as Mn. cbn [fst snd] in Mn.
  pose proof (full_member d s R U Old (ko, ao) r W C Fo HL) as Mo. cbn [fst snd] in Mo.
  destruct (mem (pick an r) (tab s kn)) eqn:Hn.
  - apply mem_In in Hn. exists New. split; [apply Mn; exact Hn|].
    apply (remove_age d s R U New kn an _ r W C Fn (wd_rm_new_ok d W)); [|exact HL].
    pose proof (wd_rm_new_cover d W) as Cv. rewrite En in Cv. exact Cv.
  - apply mem_false in Hn. destruct (mem (pick ao r) (tab s ko)) eqn:Ho.
    + apply mem_In in Ho. exists Old. split; [apply Mo; exact Ho|].
      apply (remove_age d s R U Old ko ao _ r W C Fo (wd_rm_old_ok d W)); [|exact HL].
      pose proof (wd_rm_old_cover d W) as Cv. rewrite Eo in Cv. exact Cv.
    + apply mem_false in Ho. split; [intros H; apply Hn; apply Mn; exact H|intros H; apply Ho; apply Mo; exact H].
Qed.

(* ------------------------------------------------------------------------------------------------ move *)
Lemma full_iter d s R U a c x :
  WfDesc d -> CohG d s R U -> FullOk d a c ->
  (In x (map (unpat (d_arity d) (snd c)) (tab s (fst c))) <-> In x (R a)).
Proof.
  intros W C F. destruct F as [F1 F2 F3 F4].
  assert (map (unpat (d_arity d) (snd c)) (tab s (fst c)) = denote (d_arity d) (idx_at d (fst c)) (tab s (fst c))) as E.
  { unfold denote. apply map_ext. intros t. rewrite F4. symmetry. apply full_unstore_unpat. exact F3. }
  rewrite E. rewrite denote_spec; [|apply (wd_idx d W); exact F1|apply (cg_shape d s R U C _ F1)]. split.
  - intros [HL [HD Hin]]. rewrite (cg_tab d s R U C _ F1 x HL HD), F2 in Hin. exact Hin.
  - intros Hin. pose proof (cg_len d s R U C a x Hin) as HL.
    pose proof (full_on_diag (d_arity d) _ x F3) as HD. split; [exact HL|]. split; [exact HD|].
    rewrite (cg_tab d s R U C _ F1 x HL HD), F2. exact Hin.
Qed.

Theorem move_CohG d s R U : WfDesc d -> CohG d s R U -> CohG d (move d s) (Rmove R) U.
Proof.
  intros W C. rewrite move_unfold.
  set (rows := map (unpat (d_arity d) (snd (d_mv_iter d))) (tab s (fst (d_mv_iter d)))).
  assert (forall x, In x rows <-> In x (R New)) as Hrows.
  { intros x. apply (full_iter d s R U New (d_mv_iter d) x W C (wd_mv_iter d W)). }
  pose proof (wd_mv_fill_ok d W) as Hok.
  assert (forall k, k < length (d_indices d) -> i_age (idx_at d k) = New -> mem_nat k (d_mv_clear d) = true) as Hcl1.
  { intros k Hk Ha. apply mem_nat_In. apply (wd_mv_clear_all d W k Hk Ha). }
  assert (forall k, i_age (idx_at d k) = Old -> mem_nat k (d_mv_clear d) = false) as Hcl2.
  { intros k Ha. destruct (mem_nat k (d_mv_clear d)) eqn:E; [|reflexivity]. apply mem_nat_In in E.
    destruct (wd_mv_clear_only d W k E) as [_ E2]. congruence. }
  constructor.
  - intros a x Hx. destruct a; cbn [Rmove] in Hx; [destruct Hx|]. apply in_app_or in Hx.
    destruct Hx as [Hx|Hx]; [apply (cg_len d s R U C Old x Hx)|apply (cg_len d s R U C New x Hx)].
  - intros k Hk. rewrite clear_all_tab. destruct (mem_nat k (d_mv_clear d)) eqn:E.
    + split; [constructor|intros t []].
    + destruct (cg_shape d s R U C k Hk) as [S1 S2]. split; [apply mv_rows_NoDup; exact S1|].
      intros t Ht. apply mv_rows_In in Ht. destruct Ht as [Ht|[r [Hr Hf]]]; [apply S2; exact Ht|].
      assert (length r = d_arity d) as HLr by (apply (cg_len d s R U C New r); apply Hrows; exact Hr).
      destruct (fires_ok d Old _ r k t Hok HLr Hf) as [_ [_ [_ Et]]]. subst t. apply store_length.
  - intros k Hk x HLx HDx. rewrite clear_all_tab. destruct (i_age (idx_at d k)) eqn:Ea.
    + rewrite (Hcl1 k Hk Ea). cbn [Rmove]. tauto.
    + rewrite (Hcl2 k Ea). cbn [Rmove]. rewrite mv_rows_In, in_app_iff.
      pose proof (cg_tab d s R U C k Hk x HLx HDx) as T. rewrite Ea in T. split.
      * intros [H|[r [Hr Hf]]]; [left; apply T; exact H|]. right.
        assert (length r = d_arity d) as HLr by (apply (cg_len d s R U C New r); apply Hrows; exact Hr).
        destruct (fires_ok d Old _ r k _ Hok HLr Hf) as [_ [_ [Hd Es]]].
        rewrite (store_inj _ _ x r (wd_idx d W k Hk) HLx HLr HDx Hd Es). apply Hrows. exact Hr.
      * intros [H|H]; [left; apply T; exact H|]. right. exists x. split; [apply Hrows; exact H|].
        apply (fires_cover d Old _ x k Hok); [|exact HLx|exact HDx].
        apply (wd_mv_fill_cover d W k Hk Ea). intros [].
  - intros x [].
  - intros a x e Hx He HU. rewrite clear_all_eix, mv_rows_eix. destruct a; cbn [Rmove] in Hx; [destruct Hx|].
    apply in_app_or in Hx. destruct Hx as [Hx|Hx]; [apply (cg_eidx d s R U C Old x e Hx He HU)|apply (cg_eidx d s R U C New x e Hx He HU)].
Qed.
