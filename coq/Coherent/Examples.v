(* Coherent.Examples -- a concrete descriptor (translated by translate/desc.py from the module emitted for
   `pred pa(Ta, Ta, Ta)` with premises pa(x,x,x) and pa(x,x,y)) and concrete states, used for the non-vacuity
   examples in Props_C04.v.  Definitions only. *)
From Coq Require Import List NArith Arith Bool.
Import ListNotations.
Require Import Coherent.Model Coherent.Run.

(* fields: 0 pa_new_order_0_1_2, 1 pa_old_order_0_1_2, 2 pa_new_eqs_0_0_0_order_0, 3 pa_new_eqs_0_0_2_order_1_0,
           4 pa_old_eqs_0_0_2_order_1_0 *)
Definition ex_d : rel_desc :=
  {| d_arity := 3; d_col_types := [0; 0; 0];
     d_indices := [{| i_age := New; i_order := [0; 1; 2]; i_diag := None |};
                   {| i_age := Old; i_order := [0; 1; 2]; i_diag := None |};
                   {| i_age := New; i_order := [0]; i_diag := Some [0; 0; 0] |};
                   {| i_age := New; i_order := [1; 0]; i_diag := Some [0; 0; 2] |};
                   {| i_age := Old; i_order := [1; 0]; i_diag := Some [0; 0; 2] |}];
     d_contains := [(0, [0; 1; 2]); (1, [0; 1; 2])];
     d_ins := [{| w_field := 0; w_guard := GTrue; w_args := [0; 1; 2] |};
               {| w_field := 2; w_guard := GAnd (GEq 1 0) (GEq 2 0); w_args := [0] |};
               {| w_field := 3; w_guard := GEq 1 0; w_args := [2; 0] |}];
     d_epush := [{| p_col := 0; p_neq := []; p_type := 0 |}; {| p_col := 1; p_neq := [0]; p_type := 0 |};
                 {| p_col := 2; p_neq := [0; 1]; p_type := 0 |}];
     d_src_types := [0];
     d_prim_new := (0, [0; 1; 2]);
     d_rm_new := [{| w_field := 2; w_guard := GAnd (GEq 1 0) (GEq 2 0); w_args := [0] |};
                  {| w_field := 3; w_guard := GEq 1 0; w_args := [2; 0] |}];
     d_prim_old := (1, [0; 1; 2]);
     d_rm_old := [{| w_field := 4; w_guard := GEq 1 0; w_args := [2; 0] |}];
     d_mv_iter := (0, [0; 1; 2]);
     d_mv_fill := [{| w_field := 1; w_guard := GTrue; w_args := [0; 1; 2] |};
                   {| w_field := 4; w_guard := GEq 1 0; w_args := [2; 0] |}];
     d_mv_clear := [0; 2; 3]; d_dirty := 0;
     d_q_contains := [(0, [0; 1; 2]); (1, [0; 1; 2])];
     d_q_iter := [(0, [0; 1; 2]); (1, [0; 1; 2])];
     d_q_eval := [] |}.

Definition ex_id : N -> N := fun x => x.
Definition ex_rows : list row := [[0; 0; 2]; [0; 1; 2]; [0; 0; 0]; [3; 3; 3]; [1; 1; 2]; [0; 0; 2]]%N.
(* five distinct rows inserted (one duplicate rejected by the contains test) *)
Definition ex_s1 : state := fold_left (insert ex_d ex_id) ex_rows empty_state.
Definition ex_s2 : state := move ex_d ex_s1.
(* equate(0, 1) with 0 surviving *)
Definition ex_root : N -> N := fun x => if N.eqb x 1 then 0%N else x.
Definition ex_s3 : state := canonicalize ex_d ex_root [1%N] ex_s2.

(* the old templates (see Regress.v) *)
Definition ex_d_F1 : rel_desc :=
  {| d_arity := 3; d_col_types := [0; 0; 0];
     d_indices := d_indices ex_d; d_contains := d_contains ex_d;
     d_ins := [{| w_field := 0; w_guard := GTrue; w_args := [0; 1; 2] |};
               {| w_field := 2; w_guard := GOr (GEq 1 0) (GEq 2 0); w_args := [0] |};   (* `||` *)
               {| w_field := 3; w_guard := GEq 1 0; w_args := [2; 0] |}];
     d_epush := d_epush ex_d; d_src_types := [0];
     d_prim_new := d_prim_new ex_d; d_rm_new := d_rm_new ex_d; d_prim_old := d_prim_old ex_d; d_rm_old := d_rm_old ex_d;
     d_mv_iter := d_mv_iter ex_d; d_mv_fill := d_mv_fill ex_d; d_mv_clear := d_mv_clear ex_d; d_dirty := 0;
     d_q_contains := d_q_contains ex_d; d_q_iter := d_q_iter ex_d; d_q_eval := [] |}.
Definition ex_d_F2 : rel_desc :=
  {| d_arity := 3; d_col_types := [0; 0; 0];
     d_indices := d_indices ex_d; d_contains := d_contains ex_d; d_ins := d_ins ex_d;
     d_epush := d_epush ex_d; d_src_types := [0];
     d_prim_new := d_prim_new ex_d;
     d_rm_new := [{| w_field := 2; w_guard := GTrue; w_args := [0] |};             (* unguarded removal *)
                  {| w_field := 3; w_guard := GTrue; w_args := [2; 0] |}];
     d_prim_old := d_prim_old ex_d;
     d_rm_old := [{| w_field := 4; w_guard := GTrue; w_args := [2; 0] |}];
     d_mv_iter := d_mv_iter ex_d; d_mv_fill := d_mv_fill ex_d; d_mv_clear := d_mv_clear ex_d; d_dirty := 0;
     d_q_contains := d_q_contains ex_d; d_q_iter := d_q_iter ex_d; d_q_eval := [] |}.
