(* Props_C04 -- closed models are canonical and every query path gives the same answer; all redundant internal
   copies of a relation describe one and the same set of tuples.

   Model: Coherent.Model (one relation = a family of index copies + element index, the four update paths
   interpreted from a descriptor that translate/desc.py extracts from the emitted text; whole module = all
   relations + root function + uprooted list, histories = arbitrary sequences of the update paths).
   Tie to the implementation (checks/c04.py): wf_desc of every relation of every generated module, and
   check_state on the dump of every private field at every condition-evaluation point. *)
From Coq Require Import List NArith Arith Bool.
Import ListNotations.
Require Import Coherent.Model Coherent.Run Coherent.Examples.
Require Import Coherent.FactsGuard Coherent.FactsDec Coherent.FactsCanon Coherent.FactsReach Coherent.FactsMain.

(* ---------------------------------------------------------------- the four update paths keep the copies coherent *)
Theorem C04_insert_coherent : forall d root s r,
  wf_desc d = true -> Coherent d s -> length r = d_arity d -> Coherent d (insert d root s r).
Proof. exact insert_coherent. Qed.
Print Assumptions C04_insert_coherent.

Theorem C04_insert_rows : forall d root s r,
  wf_desc d = true -> Coherent d s -> length r = d_arity d ->
  (forall x, In x (Rows d (insert d root s r) Old) <-> In x (Rows d s Old)) /\
  (forall x, In x (Rows d (insert d root s r) New) <->
             In x (Rows d s New) \/ (x = map root r /\ ~ In x (Rows d s Old))).
Proof. exact insert_rows. Qed.
Print Assumptions C04_insert_rows.

Theorem C04_remove_row_coherent : forall d s r s',
  wf_desc d = true -> Coherent d s -> length r = d_arity d -> remove_row d s r = Some s' -> Coherent d s'.
Proof. exact remove_row_coherent. Qed.
Print Assumptions C04_remove_row_coherent.

Theorem C04_remove_row_rows : forall d s r s',
  wf_desc d = true -> Coherent d s -> length r = d_arity d -> remove_row d s r = Some s' ->
  forall a x, In x (Rows d s' a) <-> In x (Rows d s a) /\ x <> r.
Proof. exact remove_row_rows. Qed.
Print Assumptions C04_remove_row_rows.

Theorem C04_canon_row_coherent : forall d root s r,
  wf_desc d = true -> Coherent d s -> length r = d_arity d -> Coherent d (canon_row d root s r).
Proof. exact canon_row_coherent. Qed.
Print Assumptions C04_canon_row_coherent.

Theorem C04_move_coherent : forall d s, wf_desc d = true -> Coherent d s -> Coherent d (move d s).
Proof. exact move_coherent. Qed.
Print Assumptions C04_move_coherent.

Theorem C04_move_rows : forall d s,
  wf_desc d = true -> Coherent d s ->
  Rows d (move d s) New = [] /\ forall x, In x (Rows d (move d s) Old) <-> In x (Rows d s Old) \/ In x (Rows d s New).
Proof. exact move_rows. Qed.
Print Assumptions C04_move_rows.

(* the composed canonicalize: coherent again, and Canonical (only roots) is restored, given a sane root function *)
Theorem C04_canonicalize_coherent : forall d root up s,
  wf_desc d = true -> Coherent d s -> ElenOk d s ->
  (forall x, root (root x) = root x) ->
  (forall e, In e up -> root e <> e) ->
  (forall a x e, In x (Rows d s a) -> In e x -> root e <> e -> In e up) ->
  Coherent d (canonicalize d root up s) /\ CanonicalRel d root (canonicalize d root up s) /\
  ElenOk d (canonicalize d root up s).
Proof. exact canonicalize_coherent. Qed.
Print Assumptions C04_canonicalize_coherent.

Theorem C04_canonicalize_indices_coherent : forall d root up s,
  wf_desc d = true -> Coherent d s -> ElenOk d s ->
  let s' := canonicalize d root up s in
  (forall k, k < length (d_indices d) -> NoDup (tab s' k)) /\
  (forall k, k < length (d_indices d) -> forall r,
      In r (denote (d_arity d) (idx_at d k) (tab s' k)) <->
      In r (Rows d s' (i_age (idx_at d k))) /\ on_diag_b (d_arity d) (idx_at d k) r = true) /\
  (forall r, In r (Rows d s' New) -> ~ In r (Rows d s' Old)).
Proof. exact canonicalize_indices_coherent. Qed.
Print Assumptions C04_canonicalize_indices_coherent.

(* ---------------------------------------------------------------- every query path gives the same answer *)
Theorem C04_queries_agree_member : forall d s k r,
  wf_desc d = true -> Coherent d s -> k < length (d_indices d) -> length r = d_arity d ->
  on_diag_b (d_arity d) (idx_at d k) r = true ->
  mem (store (d_arity d) (idx_at d k) r) (tab s k) = mem r (Rows d s (i_age (idx_at d k))).
Proof. exact member_agree_b. Qed.
Print Assumptions C04_queries_agree_member.

Theorem C04_queries_agree_iter : forall d s k,
  wf_desc d = true -> Coherent d s -> k < length (d_indices d) -> is_full (idx_at d k) = true ->
  NoDup (denote (d_arity d) (idx_at d k) (tab s k)) /\
  forall x, In x (denote (d_arity d) (idx_at d k) (tab s k)) <-> In x (Rows d s (i_age (idx_at d k))).
Proof. exact iter_agree_wf. Qed.
Print Assumptions C04_queries_agree_iter.

Theorem C04_iter_unique : forall d s,
  wf_desc d = true -> Coherent d s ->
  NoDup (q_iter d s) /\ forall x, In x (q_iter d s) <-> In x (Rows d s New) \/ In x (Rows d s Old).
Proof. exact q_iter_wf. Qed.
Print Assumptions C04_iter_unique.

Theorem C04_holds_iff_iter : forall d root s args,
  wf_desc d = true -> Coherent d s -> d_q_contains d <> [] -> length args = d_arity d ->
  (q_holds d root s args = true <-> In (map root args) (q_iter d s)).
Proof. exact q_holds_wf. Qed.
Print Assumptions C04_holds_iff_iter.

Theorem C04_holds_equal_args : forall d root s args args',
  map root args = map root args' -> q_holds d root s args = q_holds d root s args'.
Proof. exact FactsQuery.q_holds_equal_args. Qed.
Print Assumptions C04_holds_equal_args.

Theorem C04_is_dirty : forall d s, wf_desc d = true -> Coherent d s -> (is_dirty d s = true <-> Rows d s New <> []).
Proof. exact is_dirty_wf. Qed.
Print Assumptions C04_is_dirty.

(* ---------------------------------------------------------------- the deciders used by the check *)
Theorem C04_guard_decision_sound : forall n g1 g2,
  gequiv_b n g1 g2 = true -> forall r, length r = n -> geval g1 r = geval g2 r.
Proof. exact gequiv_sound. Qed.
Print Assumptions C04_guard_decision_sound.

Theorem C04_guard_candidates : forall n, length (cands n) = fact n.
Proof. exact cands_length. Qed.
Print Assumptions C04_guard_candidates.

Theorem C04_coherent_b_sound : forall d s, coherent_b d s = true -> Coherent d s.
Proof. exact coherent_b_sound. Qed.
Print Assumptions C04_coherent_b_sound.

Theorem C04_coherent_b_complete : forall d s, Coherent d s -> coherent_b d s = true.
Proof. exact coherent_b_complete. Qed.
Print Assumptions C04_coherent_b_complete.

Theorem C04_check_state_sound : forall ds canon drs roots up tnew told,
  check_state ds canon (drs, roots, up, tnew, told) = 0%N ->
  Forall2 (fun d dr => Coherent d (mk_state dr)) ds drs /\
  (canon = true -> up = [] /\ Forall2 (fun d dr => CanonicalRel d (root_of roots) (mk_state dr)) ds drs).
Proof. exact check_state_sound. Qed.
Print Assumptions C04_check_state_sound.

(* ---------------------------------------------------------------- reachable states, at full strength *)
(* For every module whose relations all satisfy wf_desc and every history of the update paths (ANY sequence of
   insert_ / equate_ / canonicalize / move_new_to_old, i.e. whatever the rule functions and the caller do):
   every state is coherent, and the state is canonical wherever close_until evaluates its condition (after
   canonicalize, followed by insertions of rooted tuples only). *)
Definition C04_reachable_full : Prop :=
  forall (ds : list rel_desc), forallb wf_desc ds = true ->
  forall (h : list mop), Forall (op_ok ds) h ->
    MCoherent ds (mrun ds minit h) /\
    (forall pre ins, h = pre ++ MCanon :: ins -> Forall is_insert ins -> MCanonical ds (mrun ds minit h)).

Theorem C04_reachable : C04_reachable_full.
Proof. exact reachable_full. Qed.
Print Assumptions C04_reachable.

(* the part that needs no assumption about equalities: finite compositions of insert_ and move_new_to_old on one
   relation *)
Theorem C04_reachable_partial : forall d root ops s,
  wf_desc d = true -> Forall (rop_ok d) ops -> Coherent d s -> Coherent d (rrun d root s ops).
Proof. exact rrun_coherent. Qed.
Print Assumptions C04_reachable_partial.
(* What C04_reachable does NOT say: that the emitted Rust text behaves like Model.v's interpretation of its
   descriptor (PrefixTree = finite set: C08; Unification = the root function: coq/UF; the descriptor = the text:
   translate/desc.py matches every function of the impl block against its template and fails on anything else;
   no other writer of an index field exists: checked textually).  That gap is what the dynamic half of
   checks/c04.py covers: check_state on every dumped state. *)

(* ---------------------------------------------------------------- non-vacuity *)
Example ex_wf : wf_desc ex_d = true.
Proof. vm_compute. reflexivity. Qed.
Example ex_coherent_1 : Coherent ex_d ex_s1 /\ length (Rows ex_d ex_s1 New) = 5 /\ tab ex_s1 3 = [[2; 0]; [0; 0]; [3; 3]; [2; 1]]%N.
Proof. split; [apply coherent_b_sound; vm_compute; reflexivity|]. vm_compute. split; reflexivity. Qed.
Example ex_move : Coherent ex_d ex_s2 /\ Rows ex_d ex_s2 New = [] /\ length (Rows ex_d ex_s2 Old) = 5.
Proof. split; [apply coherent_b_sound; vm_compute; reflexivity|]. vm_compute. split; reflexivity. Qed.
(* the hypotheses of C04_canonicalize_coherent hold of ex_s2, ex_root, [1]; the conclusion is not trivial: rows
   (0,1,2) and (1,1,2) are rewritten to (0,0,2) which already exists, and are gone from every copy *)
Example ex_canon_hyps :
  (forall x, ex_root (ex_root x) = ex_root x) /\ (forall e, In e [1%N] -> ex_root e <> e) /\
  (forall a x e, In x (Rows ex_d ex_s2 a) -> In e x -> ex_root e <> e -> In e [1%N]) /\ ElenOk ex_d ex_s2.
Proof.
  split; [|split; [|split]].
  - intros x. unfold ex_root. destruct (N.eqb x 1) eqn:E; [reflexivity|rewrite E; reflexivity].
  - intros e [E|[]]. subst e. vm_compute. discriminate.
  - intros a x e _ _ H. unfold ex_root in H. destruct (N.eqb e 1) eqn:E; [apply N.eqb_eq in E; left; auto|contradiction].
  - apply move_ElenOk. unfold ex_s1, ex_rows. cbn [fold_left].
    repeat (apply insert_ElenOk; [|reflexivity]). intros e u [].
Qed.
Example ex_canon_result :
  coherent_b ex_d ex_s3 = true /\ length (Rows ex_d ex_s3 Old) = 3 /\ Rows ex_d ex_s3 New = [] /\
  tab ex_s3 4 = [[2; 0]; [0; 0]; [3; 3]]%N /\ canonical_rel_b ex_d ex_root ex_s3 = true.
Proof. vm_compute. repeat split; reflexivity. Qed.
Example ex_query : q_holds ex_d ex_root ex_s3 [1; 0; 2]%N = true /\ q_holds ex_d ex_root ex_s3 [0; 1; 3]%N = false.
Proof. vm_compute. split; reflexivity. Qed.
Example ex_guard_patterns : length (cands 4) = 24 /\ gequiv_b 3 (GOr (GEq 1 0) (GEq 2 0)) (GAnd (GEq 1 0) (GEq 2 0)) = false.
Proof. vm_compute. split; reflexivity. Qed.
Example ex_history : forall h,
  h = [MInsert 0 [0; 1; 2]%N; MInsert 0 [0; 0; 2]%N; MMove; MEquate 0 1 true; MCanon; MInsert 0 [1; 1; 1]%N] ->
  Forall (op_ok [ex_d]) h /\ coherent_b ex_d (ms_rel (mrun [ex_d] minit h) 0) = true /\
  length (Rows ex_d (ms_rel (mrun [ex_d] minit h) 0) New) = 1.
Proof. intros h E. subst h. split; [repeat constructor|]. vm_compute. split; reflexivity. Qed.
