(* Engine/FactsW.v -- the weighted model (ModelW.v) refines the set-level theory of Model.v.

   1. Projections: every operation of ModelW is, on the [st] component, the operation of Model.v; the only difference
      is that a union is [equate a b] or [equate b a].
   2. The single-step lemma: the class relation produced by a union does not depend on which root survives
      ([equate_class], [equate_partition]); rows are untouched.
   3. [exec_iterW_astep]: one weighted iteration, projected, satisfies the relational step [astep] of FactsInv.v with
      the SAME set D = collect ... as the unweighted iteration, for every tie-break oracle.  All fields of [astep]
      are invariant under the choice of representatives, so everything proved from [astep] is inherited.
   4. [astep_same_quotient]: two states related to the same predecessor by [astep] with the same D have the same
      partition, the same row sets modulo that partition, the same pending set, the same ids -- in particular
      exec_iter and exec_iterW started in the same state.
   5. The loop-level theorems, replayed for exec_close_untilW with arbitrary advice: the C01 / C07 theorems
      (closedness, close_until contract, resumption), C06 (termination bound, no new ids), C03 (idempotence).  *)
From Coq Require Import List Arith NArith Bool Lia.
From Engine Require Import Model FactsBasic FactsInv FactsOps FactsClose FactsSound FactsIds FactsTerm FactsFam FactsIdem Run FactsRun FactsEnum ModelW RunW.
Import ListNotations.
Local Open Scope N_scope.
Arguments N.add : simpl never.
Arguments N.sub : simpl never.
Arguments N.mul : simpl never.
Arguments N.eqb : simpl never.
Arguments N.ltb : simpl never.
Arguments N.leb : simpl never.

(* ---------- 1. projections ---------- *)
Lemma st_equateW tb a b s :
  st (equateW tb a b s) = equate a b (st s) \/ st (equateW tb a b s) = equate b a (st s).
Proof.
  unfold equateW. destruct (N.eqb (rep (st s) a) (rep (st s) b)) eqn:E.
  - left. unfold equate. rewrite E. reflexivity.
  - destruct (second_wins tb s (rep (st s) a) (rep (st s) b)); [right | left]; reflexivity.
Qed.

Lemma wt_equateW tb a b s : wt (equateW tb a b s) = wt s.
Proof.
  unfold equateW. destruct (N.eqb (rep (st s) a) (rep (st s) b)); [reflexivity|].
  destruct (second_wins tb s (rep (st s) a) (rep (st s) b)); reflexivity.
Qed.

Lemma st_insertW W x s : st (insertW W x s) = insert x (st s).
Proof.
  unfold insertW, insert.
  destruct (mem (canon_fact (rep (st s)) x) (new (st s)) || mem (canon_fact (rep (st s)) x) (old (st s)));
    reflexivity.
Qed.

Lemma st_insert_allW W l : forall s, st (insert_allW W l s) = insert_all l (st s).
Proof.
  induction l as [|x l IH]; intros s; cbn [insert_allW insert_all fold_left]; [reflexivity|].
  fold (insert_allW W l (insertW W x s)). fold (insert_all l (insert x (st s))).
  rewrite IH, st_insertW. reflexivity.
Qed.

Lemma st_canonicalizeW W s : st (canonicalizeW W s) = canonicalize (st s).
Proof. unfold canonicalizeW, canonicalize. rewrite st_insert_allW. reflexivity. Qed.

Lemma st_new_elW ty s : st (fst (new_elW ty s)) = fst (new_el ty (st s)) /\ snd (new_elW ty s) = snd (new_el ty (st s)).
Proof. unfold new_elW, new_el. split; reflexivity. Qed.

Lemma st_defineW P W f args s :
  st (fst (defineW P W f args s)) = fst (define P f args (st s)) /\
  snd (defineW P W f args s) = snd (define P f args (st s)).
Proof.
  unfold defineW, define.
  destruct (lookup_fun f (map (rep (st s)) args) (new (st s) ++ old (st s))); cbn [fst snd]; [split; reflexivity|].
  rewrite st_insertW. split; reflexivity.
Qed.

Lemma st_defs_foldW P W l : forall s,
  st (fold_left (fun s fa => fst (defineW P W (fst fa) (snd fa) s)) l s) =
  fold_left (fun s fa => fst (define P (fst fa) (snd fa) s)) l (st s).
Proof.
  induction l as [|[f t] l IH]; intros s; cbn [fold_left fst snd]; [reflexivity|].
  rewrite IH. destruct (st_defineW P W f t s) as [E _]. rewrite E. reflexivity.
Qed.

Lemma st_apply_defsW P W s : st (apply_defsW P W s) = apply_defs P (st s).
Proof. unfold apply_defsW, apply_defs. rewrite st_defs_foldW. reflexivity. Qed.

(* ---------- 2. a union: the partition does not depend on the surviving root ---------- *)
Lemma equate_class a b s x y :
  rep (equate a b s) x = rep (equate a b s) y <->
  rep s x = rep s y \/
  ((rep s x = rep s a \/ rep s x = rep s b) /\ (rep s y = rep s a \/ rep s y = rep s b)).
Proof.
  rewrite !equate_rep.
  destruct (N.eqb (rep s x) (rep s b)) eqn:Ex; destruct (N.eqb (rep s y) (rep s b)) eqn:Ey;
    [apply N.eqb_eq in Ex; apply N.eqb_eq in Ey | apply N.eqb_eq in Ex; apply N.eqb_neq in Ey
     | apply N.eqb_neq in Ex; apply N.eqb_eq in Ey | apply N.eqb_neq in Ex; apply N.eqb_neq in Ey].
  - split; [intros _; left; congruence | intros _; reflexivity].
  - split.
    + intros E. right. split; [right; exact Ex | left; symmetry; exact E].
    + intros [E|[_ [E|E]]]; congruence.
  - split.
    + intros E. right. split; [left; exact E | right; exact Ey].
    + intros [E|[[E|E] _]]; congruence.
  - split; [intros E; left; exact E|]. intros [E|[[E1|E1] [E2|E2]]]; congruence.
Qed.

Theorem equate_partition a b s x y :
  rep (equate a b s) x = rep (equate a b s) y <-> rep (equate b a s) x = rep (equate b a s) y.
Proof. rewrite !equate_class. tauto. Qed.

Theorem equateW_partition tb a b s x y :
  rep (st (equateW tb a b s)) x = rep (st (equateW tb a b s)) y <->
  rep (equate a b (st s)) x = rep (equate a b (st s)) y.
Proof.
  destruct (st_equateW tb a b s) as [E|E]; rewrite E; [tauto | apply equate_partition].
Qed.

Lemma equateW_fields tb a b s :
  old (st (equateW tb a b s)) = old (st s) /\ new (st (equateW tb a b s)) = new (st s) /\
  pending (st (equateW tb a b s)) = pending (st s) /\ next_id (st (equateW tb a b s)) = next_id (st s) /\
  log (st (equateW tb a b s)) = log (st s).
Proof. destruct (st_equateW tb a b s) as [E|E]; rewrite E; apply equate_fields. Qed.

Lemma eqcl_swap f a b x y : eqcl f [(b, a)] x y -> eqcl f [(a, b)] x y.
Proof.
  intros H. induction H as [x y E|a' b' Hin|x y _ IH|x y z _ IH1 _ IH2].
  - apply eqcl_base. exact E.
  - destruct Hin as [E|[]]. inversion E; subst a' b'. apply eqcl_sym. apply eqcl_pair. left. reflexivity.
  - apply eqcl_sym. exact IH.
  - eapply eqcl_trans; eassumption.
Qed.

(* what one weighted union does to rep, for every oracle *)
Lemma equateW_step tb a b s : Idem (st s) ->
  Idem (st (equateW tb a b s)) /\
  (forall x, rep (st (equateW tb a b s)) (rep (st s) x) = rep (st (equateW tb a b s)) x) /\
  rep (st (equateW tb a b s)) a = rep (st (equateW tb a b s)) b /\
  (forall x, rep (st (equateW tb a b s)) x = x -> rep (st s) x = x) /\
  (forall x y, rep (st (equateW tb a b s)) x = rep (st (equateW tb a b s)) y -> eqcl (rep (st s)) [(a, b)] x y).
Proof.
  intros Hid. destruct (st_equateW tb a b s) as [E|E]; rewrite E.
  - split; [apply equate_idem; exact Hid|]. split; [intros x; apply equate_coarse; exact Hid|].
    split; [apply equate_eq|]. split; [intros x; apply equate_root; exact Hid|].
    intros x y. apply equate_min.
  - split; [apply equate_idem; exact Hid|]. split; [intros x; apply equate_coarse; exact Hid|].
    split; [symmetry; apply equate_eq|]. split; [intros x; apply equate_root; exact Hid|].
    intros x y H. apply eqcl_swap. apply equate_min. exact H.
Qed.

Lemma equate_allW_fields tb l : forall s,
  old (st (equate_allW tb l s)) = old (st s) /\ new (st (equate_allW tb l s)) = new (st s) /\
  pending (st (equate_allW tb l s)) = pending (st s) /\ next_id (st (equate_allW tb l s)) = next_id (st s) /\
  log (st (equate_allW tb l s)) = log (st s).
Proof.
  induction l as [|[a b] l IH]; intros s; cbn [equate_allW fold_left fst snd]; [repeat split; reflexivity|].
  fold (equate_allW tb l (equateW tb a b s)).
  destruct (IH (equateW tb a b s)) as [H1 [H2 [H3 [H4 H5]]]].
  destruct (equateW_fields tb a b s) as [G1 [G2 [G3 [G4 G5]]]].
  repeat split; congruence.
Qed.

Lemma equate_allW_ext tb l : forall s, Idem (st s) -> rep_ext (st s) (st (equate_allW tb l s)) l.
Proof.
  induction l as [|[a b] l IH]; intros s Hid; cbn [equate_allW fold_left fst snd].
  - constructor; auto.
    + intros a b [].
    + intros x y E. apply eqcl_base. exact E.
  - fold (equate_allW tb l (equateW tb a b s)).
    destruct (equateW_step tb a b s Hid) as [Hid1 [Hco [Heq [Hroot Hmin]]]].
    specialize (IH (equateW tb a b s) Hid1).
    set (s1 := equateW tb a b s) in *. set (s' := equate_allW tb l s1) in *.
    constructor.
    + exact (re_idem _ _ _ IH).
    + intros x. rewrite <- (re_coarse _ _ _ IH (rep (st s) x)). rewrite (Hco x).
      apply (re_coarse _ _ _ IH).
    + intros a' b' [E|Hin].
      * inversion E; subst a' b'. rewrite <- (re_coarse _ _ _ IH a), <- (re_coarse _ _ _ IH b).
        rewrite Heq. reflexivity.
      * apply (re_eqs _ _ _ IH). exact Hin.
    + intros x E. apply Hroot. apply (re_root _ _ _ IH). exact E.
    + intros x y E. pose proof (re_min _ _ _ IH x y E) as M. clear E.
      induction M as [x y E|a' b' Hin|x y _ IHM|x y z _ IH1 _ IH2].
      * eapply eqcl_weaken; [|apply (Hmin x y E)].
        intros p [Hp|[]]. subst p. left. reflexivity.
      * apply eqcl_pair. right. exact Hin.
      * apply eqcl_sym. exact IHM.
      * eapply eqcl_trans; eassumption.
Qed.

(* ---------- 3. one iteration is an instance of astep ---------- *)
(* the rest of an iteration after the unions, from ANY state s2 that extends rep by the collected equalities *)
Definition iter_from (s2 : state) (D : list gconc) : state :=
  let s4 := insert_all (grels D) (canonicalize s2) in
  set_pending s4 (pending s4 ++ gdefs D).

Lemma astep_of_rep_ext P s s2 : wf_rules (fp_rules P) ->
  rep_ext (move s) s2 (geqs (collect (fp_rules P) s)) ->
  old s2 = old (move s) -> new s2 = new (move s) -> pending s2 = pending (move s) ->
  next_id s2 = next_id (move s) -> log s2 = log (move s) ->
  astep (fp_rules P) s (iter_from s2 (collect (fp_rules P) s)) (collect (fp_rules P) s).
Proof.
  intros Hwf RE F1 F2 F3 F4 F5.
  set (D := collect (fp_rules P) s) in *.
  set (s3 := canonicalize s2).
  destruct (canonicalize_fields s2) as [C1 [C3 [C4 C5]]]. fold s3 in C1, C3, C4, C5.
  set (s4 := insert_all (grels D) s3).
  destruct (insert_all_fields (grels D) s3) as [I1 [I2 [I3 [I4 I5]]]]. fold s4 in I1, I2, I3, I4, I5.
  assert (Es : iter_from s2 D = set_pending s4 (pending s4 ++ gdefs D)) by reflexivity.
  assert (Er : rep (iter_from s2 D) = rep s2) by (rewrite Es; cbn [rep set_pending]; congruence).
  assert (Eo : forall x, In x (old (iter_from s2 D)) <-> In x (allf s) /\ is_canon (rep s2) (snd x)).
  { intros x. rewrite Es. cbn [old set_pending]. rewrite I2. unfold s3. rewrite canonicalize_old, F1.
    cbn [move old]. unfold allf. tauto. }
  constructor.
  - intros ru sg Hru Hm c Hc. apply collect_complete with ru; assumption.
  - intros g Hg. destruct (collect_sound _ _ _ Hg) as [ru [sg [c H]]]. exists ru, sg, c. exact H.
  - rewrite Er. exact (re_idem _ _ _ RE).
  - rewrite Er. exact (re_coarse _ _ _ RE).
  - rewrite Er. intros a b H. apply (re_eqs _ _ _ RE). apply in_geqs. exact H.
  - rewrite Er. exact (re_root _ _ _ RE).
  - rewrite Er. exact (re_min _ _ _ RE).
  - rewrite Er. exact Eo.
  - intros y. rewrite Er, Eo.
    change (new (iter_from s2 D)) with (new s4).
    assert (Eo3 : forall x, In x (old s3) <-> In x (allf s) /\ is_canon (rep s2) (snd x)).
    { intros x. unfold s3. rewrite canonicalize_old, F1. cbn [move old]. unfold allf. tauto. }
    assert (Ea : forall x, In x (allf s2) <-> In x (allf s)).
    { intros x. unfold allf. rewrite F1, F2. cbn [move old new]. rewrite app_nil_r. tauto. }
    pose proof (insert_all_new (grels D) s3 y) as En. fold s4 in En. rewrite C1 in En.
    pose proof (canonicalize_new s2 y) as En3. fold s3 in En3. rewrite F1, F2 in En3.
    cbn [move old new] in En3.
    rewrite En, En3. clear En En3. split.
    + intros [[[[] _]|[x [Hx [C [E H]]]]]|[x [Hx [E H]]]].
      * split; [exact H|]. left. exists x. rewrite <- Ea. auto.
      * split; [rewrite <- Eo3; exact H|]. right.
        destruct (in_grels_inv _ _ Hx) as [r [t [Ex Hg]]]. exists r, t. split; [exact Hg|].
        subst x. exact E.
    + intros [H [[x [Hx [C E]]]|[r [t [Hg E]]]]].
      * left. right. exists x. rewrite Ea. auto.
      * right. exists (FRel r, t). split; [apply in_grels; exact Hg|]. rewrite Eo3. auto.
  - intros f t. rewrite Es. cbn [pending set_pending]. rewrite in_app_iff, in_gdefs.
    rewrite I3, C3, F3. cbn [move pending]. tauto.
  - rewrite Es. cbn [next_id set_pending]. rewrite I4, C4, F4. reflexivity.
  - rewrite Es. cbn [log set_pending]. rewrite I5, C5, F5. reflexivity.
Qed.

(* the state after the unions of a weighted iteration *)
Definition unionsW (P : fprogram) (tb : tiebreak) (s : wstate) : wstate :=
  equate_allW tb (geqs (collect (fp_rules P) (st s))) {| st := move (st s); wt := wt s |}.

Lemma st_exec_iterW P W tb s :
  st (exec_iterW P W tb s) = iter_from (st (unionsW P tb s)) (collect (fp_rules P) (st s)).
Proof.
  unfold exec_iterW, iter_from, unionsW. cbn [st]. rewrite st_insert_allW, st_canonicalizeW. reflexivity.
Qed.

Theorem exec_iterW_astep P W tb s :
  wf_rules (fp_rules P) -> Idem (st s) ->
  astep (fp_rules P) (st s) (st (exec_iterW P W tb s)) (collect (fp_rules P) (st s)).
Proof.
  intros Hwf Hid. rewrite st_exec_iterW.
  set (s1 := {| st := move (st s); wt := wt s |}).
  assert (Hid1 : Idem (st s1)) by exact Hid.
  pose proof (equate_allW_ext tb (geqs (collect (fp_rules P) (st s))) s1 Hid1) as RE.
  destruct (equate_allW_fields tb (geqs (collect (fp_rules P) (st s))) s1) as [F1 [F2 [F3 [F4 F5]]]].
  apply astep_of_rep_ext; assumption.
Qed.

(* ---------- 4. astep determines the successor up to the choice of representatives ---------- *)
Lemma astep_partition em s s1 s2 D : astep em s s1 D -> astep em s s2 D ->
  forall x y, rep s1 x = rep s1 y -> rep s2 x = rep s2 y.
Proof.
  intros A1 A2 x y E. pose proof (rep_min _ _ _ _ A1 x y E) as M. clear E.
  induction M as [x y E|a b Hin|x y _ IH|x y z _ IH1 _ IH2].
  - rewrite <- (rep_coarse _ _ _ _ A2 x), <- (rep_coarse _ _ _ _ A2 y). congruence.
  - apply (rep_eqs _ _ _ _ A2). apply in_geqs. exact Hin.
  - symmetry. exact IH.
  - congruence.
Qed.

Lemma astep_allf em s s' D : astep em s s' D -> forall y,
  In y (allf s') <->
  (exists x, In x (allf s) /\ y = canon_fact (rep s') x) \/
  (exists r t, In (GRel r t) D /\ y = (FRel r, canon (rep s') t)).
Proof.
  intros St y. unfold allf at 1. rewrite in_app_iff. split.
  - intros [H|H].
    + apply (old_spec _ _ _ _ St) in H. destruct H as [Hin C]. left. exists y. split; [exact Hin|].
      destruct y as [r t]. unfold canon_fact, is_canon in *. cbn [fst snd] in *. rewrite C. reflexivity.
    + apply (new_spec _ _ _ _ St) in H. destruct H as [_ [[x [Hx [_ E]]]|[r [t [Hg E]]]]].
      * left. exists x. auto.
      * right. exists r, t. auto.
  - intros [[x [Hx E]]|[r [t [Hg E]]]].
    + subst y. apply in_app_iff. apply (fact_persists em s s' D St x Hx).
    + destruct (in_dec fact_eq_dec y (old s')) as [I|I]; [left; exact I|].
      right. apply (new_spec _ _ _ _ St). split; [exact I|]. right. exists r, t. auto.
Qed.

(* same partition, same rows modulo the partition, same pending requests, same ids *)
Record same_quotient (s1 s2 : state) : Prop := {
  sq_part : forall x y, rep s1 x = rep s1 y <-> rep s2 x = rep s2 y;
  sq_rows12 : forall y, In y (allf s1) -> In (canon_fact (rep s2) y) (allf s2);
  sq_rows21 : forall y, In y (allf s2) -> In (canon_fact (rep s1) y) (allf s1);
  sq_pend : forall f t, In (f, t) (pending s1) <-> In (f, t) (pending s2);
  sq_id : next_id s1 = next_id s2
}.

Lemma canon_fact_coarse f g x : (forall z, g (f z) = g z) -> canon_fact g (canon_fact f x) = canon_fact g x.
Proof. intros H. destruct x as [r t]. unfold canon_fact. cbn [fst snd]. f_equal. apply canon_coarse. exact H. Qed.

Lemma astep_rows em s s1 s2 D : astep em s s1 D -> astep em s s2 D ->
  forall y, In y (allf s1) -> In (canon_fact (rep s2) y) (allf s2).
Proof.
  intros A1 A2 y Hy.
  assert (Hco : forall z, rep s2 (rep s1 z) = rep s2 z).
  { intros z. apply (astep_partition em s s1 s2 D A1 A2). apply (rep_idem _ _ _ _ A1). }
  apply (astep_allf em s s1 D A1) in Hy. apply (astep_allf em s s2 D A2).
  destruct Hy as [[x [Hx E]]|[r [t [Hg E]]]]; subst y.
  - left. exists x. split; [exact Hx|]. apply canon_fact_coarse. exact Hco.
  - right. exists r, t. split; [exact Hg|]. unfold canon_fact. cbn [fst snd]. f_equal.
    apply canon_coarse. exact Hco.
Qed.

Theorem astep_same_quotient em s s1 s2 D : astep em s s1 D -> astep em s s2 D -> same_quotient s1 s2.
Proof.
  intros A1 A2. constructor.
  - intros x y. split; [apply (astep_partition em s s1 s2 D A1 A2) | apply (astep_partition em s s2 s1 D A2 A1)].
  - apply (astep_rows em s s1 s2 D A1 A2).
  - apply (astep_rows em s s2 s1 D A2 A1).
  - intros f t. rewrite (pend_spec _ _ _ _ A1), (pend_spec _ _ _ _ A2). tauto.
  - rewrite (id_same _ _ _ _ A1), (id_same _ _ _ _ A2). reflexivity.
Qed.

(* the weighted and the unweighted iteration, started in the same state *)
Theorem step_same_quotient P W tb s : wf_rules (fp_rules P) -> Idem (st s) ->
  same_quotient (st (exec_iterW P W tb s)) (exec_iter P (st s)).
Proof.
  intros Hwf Hid. eapply astep_same_quotient; [apply exec_iterW_astep | apply exec_iter_astep]; assumption.
Qed.

(* ---------- 5a. the loop: C01 / C07 ---------- *)
Section CloseW.
  Variables (P : fprogram) (W : wtable) (src : list frule).
  Hypothesis Hwf : wf_rules (fp_rules P).
  Hypothesis Fam : FamOK src (fp_rules P).

  Lemma GInv_equateW tb a b s : GInv src (st s) -> GInv src (st (equateW tb a b s)).
  Proof. intros H. destruct (st_equateW tb a b s) as [E|E]; rewrite E; apply GInv_equate; exact H. Qed.

  Lemma iter_invW tb s : Idem (st s) -> Inv_sn src (st s) ->
    Canon (st (exec_iterW P W tb s)) /\ Inv_sn src (st (exec_iterW P W tb s)) /\
    Inv_e src (st (exec_iterW P W tb s)).
  Proof.
    intros Hid HI. pose proof (exec_iterW_astep P W tb s Hwf Hid) as St. split; [|split].
    - eapply Canon_step; eauto.
    - eapply Inv_sn_step; eauto.
    - eapply Inv_e_step; eauto.
  Qed.

  Lemma loop_specW cond fuel : forall adv s r b,
    Idem (st s) -> Inv_sn src (st s) -> exec_loopW fuel P W adv cond s = Some (r, b) ->
    GInv src (st r) /\ Inv_e src (st r) /\
    exists e, Canon (st e) /\ cond e = b /\
      (if b then r = apply_defsW P W e
       else st r = set_pending (st e) [] /\ new (st e) = []).
  Proof.
    induction fuel as [|k IH]; intros adv s r b Hid HI H; cbn [exec_loopW] in H; [discriminate|].
    destruct (iter_invW (adv_hd adv) s Hid HI) as [HC1 [HI1 HE1]].
    set (s1 := exec_iterW P W (adv_hd adv) s) in *.
    destruct (defs_inv P src (st s1) (proj1 HC1) HI1 HE1) as [Hid2 [HI2 [HE2 Hp2]]].
    rewrite <- st_apply_defsW with (W := W) in Hid2, HI2, HE2, Hp2.
    destruct (cond s1) eqn:Ec.
    - inversion H; subst r b. split; [split; [|split]; assumption|]. split; [assumption|].
      exists s1. auto.
    - destruct (is_dirty (st s1)) eqn:Ed1.
      + apply (IH (tl adv) s1 r b (proj1 HC1) HI1 H).
      + destruct (is_dirty (st (apply_defsW P W s1))) eqn:Ed2.
        * apply (IH (tl adv) _ r b Hid2 HI2 H).
        * inversion H; subst r b. split; [split; [|split]; assumption|]. split; [assumption|].
          exists s1. split; [exact HC1|]. split; [exact Ec|].
          unfold is_dirty in Ed1, Ed2.
          destruct (new (st (apply_defsW P W s1))) eqn:En2; [|discriminate].
          destruct (new (st s1)) eqn:En1; [|discriminate].
          split; [|reflexivity]. rewrite st_apply_defsW in *. apply apply_defs_clean. exact En2.
  Qed.

  Theorem close_until_specW adv cond fuel s r b :
    GInv src (st s) -> exec_close_untilW fuel P W adv cond s = Some (r, b) ->
    GInv src (st r) /\
    exists e, Canon (st e) /\ cond e = b /\
      (if b then r = e \/ r = apply_defsW P W e
       else st r = set_pending (st e) [] /\ new (st e) = [] /\ Closed src (st r)).
  Proof.
    intros [Hid [HI Hp]] H. unfold exec_close_untilW in H.
    pose proof (canonicalize_Canon (st s) Hid) as HC0.
    destruct (canonicalize_Inv src (st s) Hid) as [HI0 _]. specialize (HI0 HI).
    destruct (canonicalize_fields (st s)) as [_ [Fp _]].
    rewrite <- st_canonicalizeW with (W := W) in HC0, HI0, Fp.
    assert (G0 : GInv src (st (canonicalizeW W s))).
    { split; [exact (proj1 HC0)|]. split; [exact HI0 | congruence]. }
    destruct (cond (canonicalizeW W s)) eqn:Ec.
    - inversion H; subst r b. split; [exact G0|]. exists (canonicalizeW W s). auto.
    - set (s0 := {| st := set_pending (st (canonicalizeW W s)) []; wt := wt (canonicalizeW W s) |}) in H.
      assert (E0 : st s0 = st (canonicalizeW W s)).
      { unfold s0. cbn [st]. apply (set_pending_nil_GInv src). exact G0. }
      assert (Hid0 : Idem (st s0)) by (rewrite E0; exact (proj1 HC0)).
      assert (HI00 : Inv_sn src (st s0)) by (rewrite E0; exact HI0).
      destruct (loop_specW cond fuel adv s0 r b Hid0 HI00 H) as [G [HE [e [HCe [Ece He]]]]].
      split; [exact G|]. exists e. split; [exact HCe|]. split; [exact Ece|].
      destruct b; [right; exact He|]. destruct He as [Er En]. split; [exact Er|]. split; [exact En|].
      destruct G as [Hidr [HIr Hpr]].
      apply clean_closed; auto.
      + rewrite Er. destruct HCe as [A B]. split; [exact A | exact B].
      + rewrite Er. split; [exact En | reflexivity].
  Qed.
End CloseW.

(* states reached by API calls and by close_until calls that returned, with arbitrary oracles / advice *)
Inductive ReachW (P : fprogram) (W : wtable) : list dfact -> wstate -> Prop :=
  | RW_init : ReachW P W [] initW
  | RW_new A s ty : ReachW P W A s ->
      ReachW P W (DRow (FTySet ty) [next_id (st s)] :: A) (fst (new_elW ty s))
  | RW_insert A s r t : ReachW P W A s -> ids_lt (next_id (st s)) t ->
      ReachW P W (DRow (FRel r) t :: A) (insertW W (FRel r, t) s)
  | RW_define A s f t : ReachW P W A s -> ids_lt (next_id (st s)) t ->
      ReachW P W (DDef f t :: A) (fst (defineW P W f t s))
  | RW_equate A s tb a b : ReachW P W A s -> a < next_id (st s) -> b < next_id (st s) ->
      ReachW P W (DEq a b :: A) (equateW tb a b s)
  | RW_close A s fuel adv cond r b : ReachW P W A s ->
      exec_close_untilW fuel P W adv cond s = Some (r, b) -> ReachW P W A r.

Definition ReachableW (P : fprogram) (W : wtable) (s : wstate) : Prop := exists A, ReachW P W A s.

Section ReachableW.
  Variables (P : fprogram) (W : wtable) (src : list frule).
  Hypothesis Hwf : wf_rules (fp_rules P).
  Hypothesis Fam : FamOK src (fp_rules P).

  Lemma ReachW_GInv A s : ReachW P W A s -> GInv src (st s).
  Proof.
    induction 1.
    - apply GInv_init.
    - destruct (st_new_elW ty s) as [E _]. rewrite E. apply GInv_new_el; assumption.
    - rewrite st_insertW. apply GInv_insert; assumption.
    - destruct (st_defineW P W f t s) as [E _]. rewrite E. apply GInv_define; assumption.
    - apply GInv_equateW; assumption.
    - destruct (close_until_specW P W src Hwf Fam adv cond fuel s r b IHReachW H0) as [G _]. exact G.
  Qed.

  (* C01 for the weighted loop *)
  Theorem close_closedW s fuel adv s' :
    ReachableW P W s -> exec_close_untilW fuel P W adv (fun _ => false) s = Some (s', false) -> Closed src (st s').
  Proof.
    intros [A HR] H. pose proof (ReachW_GInv A s HR) as G.
    destruct (close_until_specW P W src Hwf Fam adv _ fuel s s' false G H) as [_ [e [_ [_ [_ [_ HC]]]]]].
    exact HC.
  Qed.

  Theorem close_functionalW s fuel adv s' f nargs :
    ReachableW P W s -> exec_close_untilW fuel P W adv (fun _ => false) s = Some (s', false) ->
    In (func_rule f nargs) src -> Functional (st s') f nargs.
  Proof.
    intros HR H Hin. eapply closed_functional; [|exact Hin]. eapply close_closedW; eauto.
  Qed.

  (* C07 for the weighted loop *)
  Theorem cu_trueW cond fuel adv s r :
    ReachableW P W s -> exec_close_untilW fuel P W adv cond s = Some (r, true) ->
    exists e, Canon (st e) /\ cond e = true /\ (r = e \/ r = apply_defsW P W e).
  Proof.
    intros [A HR] H. pose proof (ReachW_GInv A s HR) as G.
    destruct (close_until_specW P W src Hwf Fam adv cond fuel s r true G H) as [_ [e [HC [Ec He]]]].
    exists e. auto.
  Qed.

  (* conditions that read the model only through [st] and ignore the pending list *)
  Definition cond_extW (cond : wstate -> bool) : Prop :=
    forall s s', st s' = set_pending (st s) [] -> cond s' = cond s.

  Theorem cu_falseW cond fuel adv s r :
    ReachableW P W s -> exec_close_untilW fuel P W adv cond s = Some (r, false) ->
    Closed src (st r) /\ Clean (st r) /\ Canon (st r) /\ (cond_extW cond -> cond r = false).
  Proof.
    intros [A HR] H. pose proof (ReachW_GInv A s HR) as G.
    destruct (close_until_specW P W src Hwf Fam adv cond fuel s r false G H)
      as [_ [e [HC [Ec [Er [En Hcl]]]]]].
    split; [exact Hcl|]. split; [rewrite Er; split; [exact En | reflexivity]|]. split.
    - rewrite Er. destruct HC as [A1 A2]. split; [exact A1 | exact A2].
    - intros Hx. rewrite (Hx e r Er). exact Ec.
  Qed.

  Theorem cu_resume_invW cond fuel adv s r b :
    ReachableW P W s -> exec_close_untilW fuel P W adv cond s = Some (r, b) -> GInv src (st r) /\ ReachableW P W r.
  Proof.
    intros [A HR] H. split.
    - eapply ReachW_GInv. eapply RW_close; eauto.
    - exists A. eapply RW_close; eauto.
  Qed.

  Theorem cu_resumeW cond fuel adv s r b fuel' adv' r' :
    ReachableW P W s -> exec_close_untilW fuel P W adv cond s = Some (r, b) ->
    exec_close_untilW fuel' P W adv' (fun _ => false) r = Some (r', false) -> Closed src (st r').
  Proof.
    intros HR H H'. destruct (cu_resume_invW cond fuel adv s r b HR H) as [_ HR'].
    eapply close_closedW; eauto.
  Qed.
End ReachableW.

(* ---------- iter_boundN is iter_bound ---------- *)
Lemma usizeN_spec G c : usizeN G (N.of_nat c) = N.of_nat (usize G c).
Proof.
  induction G as [|g G IH]; cbn [usizeN usize]; [reflexivity|].
  rewrite IH, Nnat.Nat2N.inj_add, Nnat.Nat2N.inj_pow. reflexivity.
Qed.

Theorem iter_boundN_spec P s : iter_boundN P s = N.of_nat (iter_bound P s).
Proof.
  unfold iter_boundN, iter_bound. rewrite usizeN_spec.
  rewrite !Nnat.Nat2N.inj_add, Nnat.Nat2N.inj_mul, !Nnat.Nat2N.inj_add. reflexivity.
Qed.

(* ---------- 5b. C06 for the weighted loop: termination within iter_bound, no new ids ---------- *)
Lemma WF_equateW tb a b s : WF (st s) -> a < next_id (st s) -> b < next_id (st s) -> WF (st (equateW tb a b s)).
Proof. intros HW Ha Hb. destruct (st_equateW tb a b s) as [E|E]; rewrite E; apply WF_equate; assumption. Qed.

Lemma WF_equate_allW tb l : forall s, WF (st s) ->
  (forall a b, In (a, b) l -> a < next_id (st s) /\ b < next_id (st s)) -> WF (st (equate_allW tb l s)).
Proof.
  induction l as [|[a b] l IH]; intros s HW Hl; cbn [equate_allW fold_left fst snd]; [exact HW|].
  fold (equate_allW tb l (equateW tb a b s)). apply IH.
  - destruct (Hl a b (or_introl eq_refl)). apply WF_equateW; assumption.
  - destruct (equateW_fields tb a b s) as [_ [_ [_ [F4 _]]]]. rewrite F4. intros a' b' H. apply Hl. right. exact H.
Qed.

Lemma WF_iter_from s2 D n : WF s2 -> next_id s2 = n -> (forall g, In g D -> gconc_lt n g) -> WF (iter_from s2 D).
Proof.
  intros W2 N2 HD. unfold iter_from.
  pose proof (WF_canonicalize s2 W2) as W3.
  destruct (canonicalize_fields s2) as [_ [_ [N3 _]]]. set (s3 := canonicalize s2) in *.
  assert (W4 : WF (insert_all (grels D) s3)).
  { apply WF_insert_all; [exact W3|]. intros x Hx. destruct (in_grels_inv _ _ Hx) as [r [t [-> Hg]]].
    cbn [snd]. rewrite N3, N2. apply (HD _ Hg). }
  destruct (insert_all_fields (grels D) s3) as [_ [_ [_ [N4 _]]]]. set (s4 := insert_all (grels D) s3) in *.
  apply WF_set_pending; [exact W4|]. intros f t Hin. apply in_app_or in Hin. destruct Hin as [Hin|Hin].
  - exact (ids_pend _ (wf_ids _ W4) f t Hin).
  - apply in_gdefs in Hin. rewrite N4, N3, N2. apply (HD _ Hin).
Qed.

Lemma WF_iterW P W tb s : wf_rules (fp_rules P) -> WF (st s) -> WF (st (exec_iterW P W tb s)).
Proof.
  intros Hwf HW. rewrite st_exec_iterW. set (D := collect (fp_rules P) (st s)).
  assert (HD : forall g, In g D -> gconc_lt (next_id (st s)) g)
    by (intros g Hg; apply (collect_ids _ _ _ Hwf (wf_ids _ HW) Hg)).
  set (s1 := {| st := move (st s); wt := wt s |}).
  assert (W1 : WF (st s1)) by (apply WF_move; exact HW).
  apply WF_iter_from with (n := next_id (st s)); [| |exact HD].
  - unfold unionsW. fold D. fold s1. apply WF_equate_allW; [exact W1|].
    intros a b Hin. apply in_geqs in Hin. apply (HD _ Hin).
  - unfold unionsW. fold D. fold s1.
    destruct (equate_allW_fields tb (geqs D) s1) as [_ [_ [_ [N2 _]]]]. rewrite N2. reflexivity.
Qed.

Lemma exec_iterW_next_id P W tb s : wf_rules (fp_rules P) -> Idem (st s) ->
  next_id (st (exec_iterW P W tb s)) = next_id (st s).
Proof. intros Hwf Hid. exact (id_same _ _ _ _ (exec_iterW_astep P W tb s Hwf Hid)). Qed.

Section TermW.
  Variables (P : fprogram) (W : wtable).
  Hypothesis Hwf : wf_rules (fp_rules P).
  Hypothesis Hnd : no_defs P.

  Lemma iter_pending_nilW tb s : Idem (st s) -> pending (st s) = [] -> pending (st (exec_iterW P W tb s)) = [].
  Proof.
    intros Hid Hp. pose proof (exec_iterW_astep P W tb s Hwf Hid) as St.
    destruct (pending (st (exec_iterW P W tb s))) as [|[f t] l] eqn:E; [reflexivity|]. exfalso.
    assert (Hin : In (f, t) (pending (st (exec_iterW P W tb s)))) by (rewrite E; left; reflexivity).
    apply (pend_spec _ _ _ _ St) in Hin. rewrite Hp in Hin. destruct Hin as [[]|Hin].
    destruct (D_sound _ _ _ _ St _ Hin) as [ru [sg [c [Hru [_ [Hc Eg]]]]]].
    destruct c as [r args|x y|f' args]; cbn [ground] in Eg; try discriminate.
    apply (Hnd ru _ Hru Hc f' args). reflexivity.
  Qed.

  Lemma nclasses_stepW tb s : Idem (st s) -> (nclasses (st (exec_iterW P W tb s)) <= nclasses (st s))%nat.
  Proof.
    intros Hid. pose proof (exec_iterW_astep P W tb s Hwf Hid) as St.
    unfold nclasses, roots. rewrite (exec_iterW_next_id P W tb s Hwf Hid). apply filter_length_le.
    unfold is_root. intros x Hx. apply N.eqb_eq in Hx. apply N.eqb_eq.
    apply (rep_root _ _ _ _ St). exact Hx.
  Qed.

  Variables (G : list sig) (n0 : N) (c0 : nat).
  Hypothesis HG : incl (rule_sigs (fp_rules P)) G.

  Lemma J_iterW tb s : J G n0 c0 (st s) -> J G n0 c0 (st (exec_iterW P W tb s)).
  Proof.
    intros [HW HC Hn Hp Hs Hc]. pose proof (exec_iterW_astep P W tb s Hwf (wf_idem _ HW)) as St.
    constructor.
    - apply WF_iterW; assumption.
    - eapply Canon_step; eauto.
    - rewrite (exec_iterW_next_id P W tb s Hwf (wf_idem _ HW)). exact Hn.
    - apply iter_pending_nilW; [apply (wf_idem _ HW) | exact Hp].
    - intros x Hx. unfold allf in Hx. apply in_app_or in Hx. destruct Hx as [Hx|Hx].
      + apply (old_spec _ _ _ _ St) in Hx. apply Hs. tauto.
      + apply (new_spec _ _ _ _ St) in Hx. destruct Hx as [_ [[x0 [Hx0 [_ E]]]|[r [t [Hg E]]]]]; subst x.
        * specialize (Hs _ Hx0). unfold fact_sig in *. cbn [canon_fact fst snd]. rewrite map_length. exact Hs.
        * destruct (D_sound _ _ _ _ St _ Hg) as [ru [sg [c [Hru [_ [Hcc Eg]]]]]].
          destruct c as [r' args|x y|f' args]; cbn [ground] in Eg; try discriminate.
          inversion Eg; subst r' t. apply HG. unfold rule_sigs. apply in_flat_map. exists ru.
          split; [exact Hru|]. apply in_flat_map. exists (CRel r args). split; [exact Hcc|].
          unfold fact_sig, canon. cbn [conc_sigs fst snd]. rewrite !map_length. left. reflexivity.
    - pose proof (nclasses_stepW tb s (wf_idem _ HW)). lia.
  Qed.

  Lemma Phi_decreasesW tb s : J G n0 c0 (st s) -> new (st s) <> [] ->
    (Phi G c0 (st (exec_iterW P W tb s)) < Phi G c0 (st s))%nat.
  Proof.
    intros HJ Hne. pose proof (J_iterW tb s HJ) as HJ1.
    pose proof (old_bound G n0 c0 (st s) HJ) as B. pose proof (old_bound G n0 c0 _ HJ1) as B1.
    pose proof (usize_mono G _ _ (j_c _ _ _ _ HJ)) as M. pose proof (usize_mono G _ _ (j_c _ _ _ _ HJ1)) as M1.
    fold (U0 G c0) in M, M1.
    destruct HJ as [HW HC Hn Hp Hs Hc].
    pose proof (exec_iterW_astep P W tb s Hwf (wf_idem _ HW)) as St.
    pose proof (nclasses_stepW tb s (wf_idem _ HW)) as Hle.
    pose proof (exec_iterW_next_id P W tb s Hwf (wf_idem _ HW)) as Hnid.
    set (s1 := st (exec_iterW P W tb s)) in *. unfold Phi.
    destruct (Nat.eq_dec (nclasses s1) (nclasses (st s))) as [Ec|Ec].
    - assert (Hroot : forall x, x < next_id (st s) -> rep (st s) x = x -> rep s1 x = x).
      { intros x Hx Hr. unfold nclasses, roots in Ec. rewrite Hnid in Ec.
        assert (Hq : is_root s1 x = true).
        { apply (filter_length_eq (is_root (st s)) (is_root s1) (ids (next_id (st s)))).
          - unfold is_root. intros y Hy. apply N.eqb_eq in Hy. apply N.eqb_eq.
            apply (rep_root _ _ _ _ St). exact Hy.
          - exact Ec.
          - apply in_ids. exact Hx.
          - unfold is_root. apply N.eqb_eq. exact Hr. }
        unfold is_root in Hq. apply N.eqb_eq in Hq. exact Hq. }
      assert (Hincl : incl (allf (st s)) (old s1)).
      { intros x Hx. apply (old_spec _ _ _ _ St). split; [exact Hx|].
        apply is_canon_Forall. pose proof (proj2 HC _ Hx) as Hcan. apply is_canon_Forall in Hcan.
        pose proof (ids_rows _ (wf_ids _ HW) _ Hx) as Hlt. unfold ids_lt in Hlt.
        rewrite Forall_forall in *. intros v Hv. apply Hroot; auto. }
      pose proof (NoDup_incl_length (wf_nodup _ HW) Hincl) as Hlen.
      unfold allf in Hlen. rewrite app_length in Hlen.
      assert (Hn1 : (1 <= length (new (st s)))%nat) by (destruct (new (st s)); [congruence | cbn [length]; lia]).
      rewrite Ec. unfold U0 in *. lia.
    - assert (Hlt : (S (nclasses s1) <= nclasses (st s))%nat) by lia.
      pose proof (Nat.mul_le_mono_r _ _ (U0 G c0 + 2)%nat Hlt) as Hm. rewrite Nat.mul_succ_l in Hm.
      unfold U0 in *. lia.
  Qed.

  Lemma apply_defsW_nil s : pending (st s) = [] -> st (apply_defsW P W s) = set_pending (st s) [].
  Proof. intros Hp. rewrite st_apply_defsW. apply apply_defs_nil. exact Hp. Qed.

  Lemma loop_terminatesW cond : forall m adv s,
    J G n0 c0 (st s) -> new (st s) <> [] -> (Phi G c0 (st s) <= m)%nat -> exec_loopW (S m) P W adv cond s <> None.
  Proof.
    induction m as [|m IH]; intros adv s HJ Hne Hphi.
    - cbn [exec_loopW]. pose proof (Phi_decreasesW (adv_hd adv) s HJ Hne) as Hd.
      destruct (cond (exec_iterW P W (adv_hd adv) s)); [discriminate|].
      destruct (is_dirty (st (exec_iterW P W (adv_hd adv) s))) eqn:Ed; [lia|].
      rewrite (apply_defsW_nil _ (j_pend _ _ _ _ (J_iterW (adv_hd adv) s HJ))).
      change (is_dirty (set_pending (st (exec_iterW P W (adv_hd adv) s)) []))
        with (is_dirty (st (exec_iterW P W (adv_hd adv) s))).
      rewrite Ed. discriminate.
    - remember (S m) as k. cbn [exec_loopW]. pose proof (Phi_decreasesW (adv_hd adv) s HJ Hne) as Hd.
      pose proof (J_iterW (adv_hd adv) s HJ) as HJ1.
      destruct (cond (exec_iterW P W (adv_hd adv) s)); [discriminate|].
      destruct (is_dirty (st (exec_iterW P W (adv_hd adv) s))) eqn:Ed.
      + subst k. apply IH; [exact HJ1 | | lia].
        unfold is_dirty in Ed. destruct (new (st (exec_iterW P W (adv_hd adv) s))); [discriminate | discriminate].
      + rewrite (apply_defsW_nil _ (j_pend _ _ _ _ HJ1)).
        change (is_dirty (set_pending (st (exec_iterW P W (adv_hd adv) s)) []))
          with (is_dirty (st (exec_iterW P W (adv_hd adv) s))).
        rewrite Ed. discriminate.
  Qed.

  Lemma loop_terminates_firstW cond adv s :
    J G n0 c0 (st s) -> exec_loopW (S (S (c0 * (U0 G c0 + 2) + U0 G c0))) P W adv cond s <> None.
  Proof.
    intros HJ. remember (S (c0 * (U0 G c0 + 2) + U0 G c0)) as k. cbn [exec_loopW].
    pose proof (J_iterW (adv_hd adv) s HJ) as HJ1.
    destruct (cond (exec_iterW P W (adv_hd adv) s)); [discriminate|].
    destruct (is_dirty (st (exec_iterW P W (adv_hd adv) s))) eqn:Ed.
    - subst k. apply loop_terminatesW; [exact HJ1| |].
      + unfold is_dirty in Ed. destruct (new (st (exec_iterW P W (adv_hd adv) s))); discriminate.
      + unfold Phi. pose proof (j_c _ _ _ _ HJ1) as Hc.
        pose proof (Nat.mul_le_mono_r _ _ (U0 G c0 + 2)%nat Hc). unfold U0 in *. lia.
    - rewrite (apply_defsW_nil _ (j_pend _ _ _ _ HJ1)).
      change (is_dirty (set_pending (st (exec_iterW P W (adv_hd adv) s)) []))
        with (is_dirty (st (exec_iterW P W (adv_hd adv) s))).
      rewrite Ed. discriminate.
  Qed.
End TermW.

Theorem close_terminatesW P W adv cond s :
  wf_rules (fp_rules P) -> no_defs P -> WF (st s) ->
  exec_close_untilW (iter_bound P (st s)) P W adv cond s <> None.
Proof.
  intros Hwf Hnd HW. unfold exec_close_untilW.
  destruct (cond (canonicalizeW W s)); [discriminate|].
  set (t0 := {| st := set_pending (st (canonicalizeW W s)) []; wt := wt (canonicalizeW W s) |}).
  destruct (canonicalize_fields (st s)) as [Fr [_ [Fn _]]].
  assert (Et : st t0 = set_pending (canonicalize (st s)) []) by (unfold t0; cbn [st]; rewrite st_canonicalizeW; reflexivity).
  assert (HG : incl (rule_sigs (fp_rules P)) (sigs P (st s))).
  { intros g Hg. unfold sigs. apply nodup_In. apply in_or_app. right. exact Hg. }
  assert (HJ : J (sigs P (st s)) (next_id (st s)) (nclasses (st s)) (st t0)).
  { rewrite Et. constructor.
    - apply WF_set_pending; [apply WF_canonicalize; exact HW|]. intros f t [].
    - pose proof (canonicalize_Canon (st s) (wf_idem _ HW)) as HC. exact HC.
    - cbn [set_pending next_id]. exact Fn.
    - reflexivity.
    - intros x Hx. destruct (canonicalize_sig (st s) x Hx) as [x0 [Hx0 E]]. rewrite E.
      unfold sigs. apply nodup_In. apply in_or_app. left. apply in_map. exact Hx0.
    - unfold nclasses, roots, is_root. cbn [set_pending next_id rep]. rewrite Fr, Fn. lia. }
  unfold iter_bound.
  replace (nclasses (st s) * (usize (sigs P (st s)) (nclasses (st s)) + 2) + usize (sigs P (st s)) (nclasses (st s)) + 2)%nat
    with (S (S (nclasses (st s) * (U0 (sigs P (st s)) (nclasses (st s)) + 2) + U0 (sigs P (st s)) (nclasses (st s)))))
    by (unfold U0; lia).
  apply (loop_terminates_firstW P W Hwf Hnd (sigs P (st s)) (next_id (st s)) (nclasses (st s)) HG cond adv t0 HJ).
Qed.

Lemma loop_no_new_idsW P W cond fuel : wf_rules (fp_rules P) -> no_defs P -> forall adv s r b,
  Idem (st s) -> pending (st s) = [] -> exec_loopW fuel P W adv cond s = Some (r, b) ->
  next_id (st r) = next_id (st s) /\ (nclasses (st r) <= nclasses (st s))%nat.
Proof.
  intros Hwf Hnd. induction fuel as [|k IH]; intros adv s r b Hid Hp H; cbn [exec_loopW] in H; [discriminate|].
  pose proof (iter_pending_nilW P W Hwf Hnd (adv_hd adv) s Hid Hp) as Hp1.
  pose proof (nclasses_stepW P W Hwf (adv_hd adv) s Hid) as Hc1.
  pose proof (exec_iterW_next_id P W (adv_hd adv) s Hwf Hid) as Hn1.
  pose proof (exec_iterW_astep P W (adv_hd adv) s Hwf Hid) as St. pose proof (rep_idem _ _ _ _ St) as Hid1.
  set (s1 := exec_iterW P W (adv_hd adv) s) in *.
  assert (Ea : st (apply_defsW P W s1) = st s1).
  { rewrite (apply_defsW_nil P W s1 Hp1).
    destruct (st s1) as [a1 a2 a3 a4 a5 a6]. cbn [pending] in Hp1. subst a4. reflexivity. }
  destruct (cond s1).
  - inversion H; subst. rewrite Ea. split; [exact Hn1 | exact Hc1].
  - destruct (is_dirty (st s1)).
    + destruct (IH _ _ _ _ Hid1 Hp1 H) as [A B]. split; [congruence | lia].
    + rewrite Ea in H. destruct (is_dirty (st s1)).
      * assert (Hid2 : Idem (st (apply_defsW P W s1))) by (rewrite Ea; exact Hid1).
        assert (Hp2 : pending (st (apply_defsW P W s1)) = []) by (rewrite Ea; exact Hp1).
        destruct (IH _ _ _ _ Hid2 Hp2 H) as [A B]. rewrite Ea in A, B. split; [congruence | lia].
      * inversion H; subst. rewrite Ea. split; [exact Hn1 | exact Hc1].
Qed.

Theorem no_new_idsW P W adv cond fuel s r b :
  wf_rules (fp_rules P) -> no_defs P -> Idem (st s) ->
  exec_close_untilW fuel P W adv cond s = Some (r, b) ->
  next_id (st r) = next_id (st s) /\ (nclasses (st r) <= nclasses (st s))%nat.
Proof.
  intros Hwf Hnd Hid H. unfold exec_close_untilW in H.
  destruct (canonicalize_fields (st s)) as [Fr [_ [Fn _]]].
  assert (Ec : nclasses (canonicalize (st s)) = nclasses (st s)).
  { unfold nclasses, roots, is_root. rewrite Fr, Fn. reflexivity. }
  destruct (cond (canonicalizeW W s)).
  - inversion H; subst. rewrite st_canonicalizeW. split; [exact Fn | lia].
  - set (t0 := {| st := set_pending (st (canonicalizeW W s)) []; wt := wt (canonicalizeW W s) |}) in H.
    assert (Et : st t0 = set_pending (canonicalize (st s)) []) by (unfold t0; cbn [st]; rewrite st_canonicalizeW; reflexivity).
    assert (Hid0 : Idem (st t0)).
    { rewrite Et. intros x. cbn [set_pending rep]. rewrite Fr. apply Hid. }
    assert (Hp0 : pending (st t0) = []) by (rewrite Et; reflexivity).
    destruct (loop_no_new_idsW P W cond fuel Hwf Hnd adv t0 r b Hid0 Hp0 H) as [A B].
    rewrite Et in A, B. cbn [set_pending next_id] in A. split; [congruence|].
    assert (E2 : nclasses (set_pending (canonicalize (st s)) []) = nclasses (canonicalize (st s))) by reflexivity.
    lia.
Qed.

(* every state reached through the weighted API is well formed, hence the bound applies to it *)
Lemma WF_new_elW ty s : WF (st s) -> WF (st (fst (new_elW ty s))).
Proof. intros H. destruct (st_new_elW ty s) as [E _]. rewrite E. apply WF_new_el. exact H. Qed.

(* ---------- reachable weighted states are well formed; run_stateW computes reachable states ---------- *)
Lemma WF_apply_defsW P W s : WF (st s) -> WF (st (apply_defsW P W s)).
Proof. intros H. rewrite st_apply_defsW. apply WF_apply_defs. exact H. Qed.

Lemma WF_loopW P W cond fuel : wf_rules (fp_rules P) -> forall adv s r b,
  WF (st s) -> exec_loopW fuel P W adv cond s = Some (r, b) -> WF (st r).
Proof.
  intros Hwf. induction fuel as [|k IH]; intros adv s r b HW H; cbn [exec_loopW] in H; [discriminate|].
  pose proof (WF_iterW P W (adv_hd adv) s Hwf HW) as W1. pose proof (WF_apply_defsW P W _ W1) as W2.
  destruct (cond (exec_iterW P W (adv_hd adv) s)).
  - inversion H; subst. exact W2.
  - destruct (is_dirty (st (exec_iterW P W (adv_hd adv) s))); [exact (IH _ _ _ _ W1 H)|].
    destruct (is_dirty (st (apply_defsW P W (exec_iterW P W (adv_hd adv) s)))); [exact (IH _ _ _ _ W2 H)|].
    inversion H; subst. exact W2.
Qed.

Lemma WF_close_untilW P W adv cond fuel s r b : wf_rules (fp_rules P) ->
  WF (st s) -> exec_close_untilW fuel P W adv cond s = Some (r, b) -> WF (st r).
Proof.
  intros Hwf HW H. unfold exec_close_untilW in H.
  assert (W0 : WF (st (canonicalizeW W s))) by (rewrite st_canonicalizeW; apply WF_canonicalize; exact HW).
  destruct (cond (canonicalizeW W s)); [inversion H; subst; exact W0|].
  eapply WF_loopW; [exact Hwf| |exact H]. cbn [st]. apply WF_set_pending; [exact W0|]. intros f t [].
Qed.

Theorem ReachW_WF P W A s : wf_rules (fp_rules P) -> ReachW P W A s -> WF (st s).
Proof.
  intros Hwf. induction 1.
  - apply WF_init.
  - apply WF_new_elW. assumption.
  - rewrite st_insertW. apply WF_insert; assumption.
  - destruct (st_defineW P W f t s) as [E _]. rewrite E. apply WF_define; assumption.
  - apply WF_equateW; assumption.
  - eapply WF_close_untilW; eauto.
Qed.

Corollary close_terminates_reachableW P W adv cond s :
  wf_rules (fp_rules P) -> no_defs P -> ReachableW P W s ->
  exec_close_untilW (iter_bound P (st s)) P W adv cond s <> None.
Proof. intros Hwf Hnd [A HR]. apply close_terminatesW; [exact Hwf | exact Hnd | eapply ReachW_WF; eauto]. Qed.

Lemma loop_next_id_leW P W cond fuel : wf_rules (fp_rules P) -> forall adv s r b, Idem (st s) ->
  exec_loopW fuel P W adv cond s = Some (r, b) -> next_id (st s) <= next_id (st r).
Proof.
  intros Hwf. induction fuel as [|k IH]; intros adv s r b Hid H; cbn [exec_loopW] in H; [discriminate|].
  pose proof (exec_iterW_next_id P W (adv_hd adv) s Hwf Hid) as E1.
  pose proof (exec_iterW_astep P W (adv_hd adv) s Hwf Hid) as St. pose proof (rep_idem _ _ _ _ St) as Hid1.
  set (s1 := exec_iterW P W (adv_hd adv) s) in *.
  pose proof (apply_defs_next_id_le P (st s1)) as E2. rewrite <- st_apply_defsW with (W := W) in E2.
  assert (Hid2 : Idem (st (apply_defsW P W s1))).
  { rewrite st_apply_defsW. destruct (apply_defs_spec P (st s1) Hid1) as [E _]. eapply ext_idem; eauto. }
  destruct (cond s1).
  - inversion H; subst. lia.
  - destruct (is_dirty (st s1)); [specialize (IH _ _ _ _ Hid1 H); lia|].
    destruct (is_dirty (st (apply_defsW P W s1))); [specialize (IH _ _ _ _ Hid2 H); lia|].
    inversion H; subst. lia.
Qed.

Lemma close_until_next_id_leW P W adv cond fuel s r b : wf_rules (fp_rules P) -> Idem (st s) ->
  exec_close_untilW fuel P W adv cond s = Some (r, b) -> next_id (st s) <= next_id (st r).
Proof.
  intros Hwf Hid H. unfold exec_close_untilW in H. destruct (canonicalize_fields (st s)) as [Fr [_ [Fn _]]].
  rewrite <- st_canonicalizeW with (W := W) in Fr, Fn.
  destruct (cond (canonicalizeW W s)); [inversion H; subst; lia|].
  apply loop_next_id_leW in H; [cbn [st set_pending next_id] in H; lia | exact Hwf|].
  cbn [st]. intros x. cbn [set_pending rep]. rewrite Fr. apply Hid.
Qed.

Lemma trace_loopW_exec P W cond fuel : forall adv s,
  exec_loopW fuel P W adv cond s = option_map snd (trace_loopW fuel P W adv cond s).
Proof.
  induction fuel as [|k IH]; intros adv s; cbn [exec_loopW trace_loopW]; [reflexivity|].
  destruct (cond (exec_iterW P W (adv_hd adv) s)); [reflexivity|].
  destruct (is_dirty (st (exec_iterW P W (adv_hd adv) s))) eqn:Ed.
  - rewrite Ed. rewrite IH. destruct (trace_loopW k P W (tl adv) cond (exec_iterW P W (adv_hd adv) s)) as [[l r]|]; reflexivity.
  - destruct (is_dirty (st (apply_defsW P W (exec_iterW P W (adv_hd adv) s)))) eqn:Ed2.
    + rewrite IH. destruct (trace_loopW k P W (tl adv) cond (apply_defsW P W (exec_iterW P W (adv_hd adv) s))) as [[l r]|]; reflexivity.
    + reflexivity.
Qed.

Lemma trace_close_untilW_exec P W adv cond fuel s :
  exec_close_untilW fuel P W adv cond s = option_map snd (trace_close_untilW fuel P W adv cond s).
Proof.
  unfold exec_close_untilW, trace_close_untilW. destruct (cond (canonicalizeW W s)); [reflexivity|].
  rewrite trace_loopW_exec.
  destruct (trace_loopW fuel P W adv cond {| st := set_pending (st (canonicalizeW W s)) []; wt := wt (canonicalizeW W s) |})
    as [[l r]|]; reflexivity.
Qed.

Definition RIW (P : fprogram) (W : wtable) (n : nat) (r : rstateW) : Prop :=
  ReachableW P W (rw_state r) /\ Forall (fun e => e < next_id (st (rw_state r))) (rw_handles r) /\
  (rw_stuck r = false -> length (rw_handles r) = n).

Section RunW.
  Variables (P : fprogram) (W : wtable).
  Hypothesis Hwf : wf_rules (fp_rules P).

  Lemma do_closeW_RI fuel c n r : rw_stuck r = false -> RIW P W n r -> RIW P W n (do_closeW fuel P W c r).
  Proof.
    intros Hs [[A HR] [Hh Hn]]. unfold do_closeW.
    set (adv := map tb_pref (hd [] (rw_adv r))).
    set (cond := fun s : wstate => eval_condW P (rw_handles r) c (st s)).
    pose proof (trace_close_untilW_exec P W adv cond fuel (rw_state r)) as E.
    destruct (trace_close_untilW fuel P W adv cond (rw_state r)) as [[l [s' b]]|]; cbn [option_map snd] in E.
    - split; [|split]; cbn [rw_state rw_handles rw_stuck].
      + exists A. eapply RW_close; eauto.
      + eapply Forall_lt_mono; [|exact Hh].
        eapply close_until_next_id_leW; [exact Hwf | apply (wf_idem _ (ReachW_WF P W A _ Hwf HR)) | exact E].
      + intros _. apply Hn. exact Hs.
    - split; [|split]; cbn [rw_state rw_handles rw_stuck]; [exists A; exact HR | exact Hh | discriminate].
  Qed.

  Lemma step_callW_RI fuel n r c :
    call_ok n c = true -> RIW P W n r ->
    RIW P W (match c with ENew _ | EDefine _ _ => S n | _ => n end) (step_callW fuel P W r c).
  Proof.
    intros Hok HRI. unfold step_callW. destruct (rw_stuck r) eqn:Es.
    { destruct HRI as [HR [Hh Hn]]. split; [exact HR|]. split; [exact Hh|]. intros E. congruence. }
    pose proof HRI as [[A HR] [Hh Hn]]. specialize (Hn Es).
    pose proof (ReachW_WF P W A _ Hwf HR) as HW.
    destruct c as [ty|rl hs|f hs|a b| |cc]; cbn [call_ok] in Hok.
    - pose proof (RW_new P W A (rw_state r) ty HR) as HR'. destruct (st_new_elW ty (rw_state r)) as [E1 E2].
      destruct (new_elW ty (rw_state r)) as [s' e] eqn:Ed. cbn [fst snd] in *.
      split; [|split]; cbn [rw_state rw_handles rw_stuck].
      + eexists. exact HR'.
      + rewrite E1, E2. unfold new_el. cbn [fst snd next_id].
        apply Forall_app. split; [eapply Forall_lt_mono; [|exact Hh]; lia|]. constructor; [lia|constructor].
      + intros _. rewrite app_length. cbn [length]. lia.
    - rewrite <- Hn in Hok. pose proof (handles_lt _ _ _ Hh Hok) as Hlt.
      split; [|split]; cbn [rw_state rw_handles rw_stuck].
      + eexists. apply (RW_insert P W A (rw_state r) rl _ HR Hlt).
      + rewrite st_insertW.
        destruct (insert_fields (FRel rl, map (handle (rw_handles r)) hs) (st (rw_state r))) as [_ [_ [_ [F4 _]]]].
        rewrite F4. exact Hh.
      + intros _. exact Hn.
    - rewrite <- Hn in Hok. pose proof (handles_lt _ _ _ Hh Hok) as Hlt.
      pose proof (RW_define P W A (rw_state r) f _ HR Hlt) as HR'.
      destruct (st_defineW P W f (map (handle (rw_handles r)) hs) (rw_state r)) as [E1 E2].
      pose proof (define_next_id_le P f (map (handle (rw_handles r)) hs) (st (rw_state r))) as Hle.
      assert (Hres : snd (define P f (map (handle (rw_handles r)) hs) (st (rw_state r))) <
                     next_id (fst (define P f (map (handle (rw_handles r)) hs) (st (rw_state r))))).
      { destruct (define_cases P f (map (handle (rw_handles r)) hs) (st (rw_state r))) as [[v [L E]]|[_ E]];
          rewrite E; cbn [fst snd].
        - apply lookup_fun_Some in L.
          pose proof (ids_rows _ (wf_ids _ HW)) as HI.
          assert (Hall : In (FRel f, map (rep (st (rw_state r))) (map (handle (rw_handles r)) hs) ++ [v]) (allf (st (rw_state r)))).
          { unfold allf. apply in_app_or in L. apply in_or_app. tauto. }
          specialize (HI _ Hall). cbn [snd] in HI. unfold ids_lt in HI. rewrite Forall_forall in HI.
          apply HI. apply in_or_app. right. left. reflexivity.
        - match goal with |- context [insert ?x ?s0] => destruct (insert_fields x s0) as [_ [_ [_ [F4 _]]]] end.
          rewrite F4. cbn [with_fresh next_id]. lia. }
      destruct (defineW P W f (map (handle (rw_handles r)) hs) (rw_state r)) as [s' e] eqn:Ed.
      cbn [fst snd] in *. split; [|split]; cbn [rw_state rw_handles rw_stuck].
      + eexists. exact HR'.
      + rewrite E1, E2. apply Forall_app. split; [eapply Forall_lt_mono; [|exact Hh]; exact Hle|].
        constructor; [exact Hres|constructor].
      + intros _. rewrite app_length. cbn [length]. lia.
    - rewrite <- Hn in Hok. unfold hs_ok in Hok. cbn [forallb] in Hok.
      apply andb_true_iff in Hok. destruct Hok as [Ha Hb]. apply andb_true_iff in Hb. destruct Hb as [Hb _].
      apply Nat.ltb_lt in Ha, Hb.
      pose proof (handle_lt _ a _ Hh Ha) as La. pose proof (handle_lt _ b _ Hh Hb) as Lb.
      split; [|split]; cbn [rw_state rw_handles rw_stuck].
      + eexists. apply (RW_equate P W A (rw_state r) tb_first _ _ HR La Lb).
      + destruct (equateW_fields tb_first (handle (rw_handles r) a) (handle (rw_handles r) b) (rw_state r)) as [_ [_ [_ [F4 _]]]].
        rewrite F4. exact Hh.
      + intros _. exact Hn.
    - apply do_closeW_RI; assumption.
    - apply do_closeW_RI; assumption.
  Qed.

  Lemma run_fold_RIW fuel : forall calls n r,
    RIW P W n r -> calls_ok n calls = true -> exists m, RIW P W m (fold_left (step_callW fuel P W) calls r).
  Proof.
    induction calls as [|c calls IH]; intros n r HRI Hok; cbn [fold_left]; [exists n; exact HRI|].
    cbn [calls_ok] in Hok. apply andb_true_iff in Hok. destruct Hok as [Hc Hl].
    eapply IH; [|exact Hl]. apply step_callW_RI; assumption.
  Qed.

  (* every state computed by run_stateW (what the tie evaluates) is a reachable weighted state *)
  Theorem runW_reachable fuel adv calls :
    calls_ok 0 calls = true -> ReachableW P W (rw_state (run_stateW fuel P W adv calls)).
  Proof.
    intros Hok. unfold run_stateW.
    set (r0 := {| rw_state := initW; rw_handles := []; rw_outs := []; rw_stuck := false; rw_adv := adv; rw_bounds := [] |}).
    assert (H0 : RIW P W 0%nat r0).
    { split; [exists []; apply RW_init|]. cbn [r0 rw_state rw_handles rw_stuck]. split; [constructor | reflexivity]. }
    destruct (run_fold_RIW fuel calls 0%nat r0 H0 Hok) as [m [HR _]]. exact HR.
  Qed.
End RunW.

(* ---------- 5c. C03 for the weighted loop: closing a clean closed state changes nothing (not even a weight) ---------- *)
Lemma wstate_eta s : {| st := st s; wt := wt s |} = s.
Proof. destruct s; reflexivity. Qed.

Lemma equateW_id tb a b s : rep (st s) a = rep (st s) b -> equateW tb a b s = s.
Proof. intros E. unfold equateW. rewrite E, N.eqb_refl. reflexivity. Qed.

Lemma equate_allW_id tb l : forall s, (forall a b, In (a, b) l -> rep (st s) a = rep (st s) b) -> equate_allW tb l s = s.
Proof.
  induction l as [|[a b] l IH]; intros s H; cbn [equate_allW fold_left fst snd]; [reflexivity|].
  rewrite (equateW_id tb a b s (H a b (or_introl eq_refl))). apply IH. intros a' b' Hin. apply H. right. exact Hin.
Qed.

Lemma insertW_id W x s : In (canon_fact (rep (st s)) x) (allf (st s)) -> insertW W x s = s.
Proof.
  intros Hin. unfold insertW. unfold allf in Hin. apply in_app_or in Hin.
  assert (E : mem (canon_fact (rep (st s)) x) (new (st s)) || mem (canon_fact (rep (st s)) x) (old (st s)) = true).
  { apply orb_true_iff. rewrite !mem_In. tauto. }
  rewrite E. reflexivity.
Qed.

Lemma insert_allW_id W l : forall s,
  (forall x, In x l -> In (canon_fact (rep (st s)) x) (allf (st s))) -> insert_allW W l s = s.
Proof.
  induction l as [|x l IH]; intros s H; cbn [insert_allW fold_left]; [reflexivity|].
  rewrite (insertW_id W x s (H x (or_introl eq_refl))). apply IH. intros y Hy. apply H. right. exact Hy.
Qed.

Lemma canonicalizeW_id W s : Canon (st s) -> canonicalizeW W s = s.
Proof.
  intros [_ HC]. unfold canonicalizeW.
  assert (Hall : forall x, In x (old (st s) ++ new (st s)) -> is_canon_b (rep (st s)) x = true).
  { intros x Hx. apply is_canon_b_spec. apply HC. exact Hx. }
  rewrite (filter_all_false (fun x => negb (is_canon_b (rep (st s)) x)) (old (st s) ++ new (st s))).
  2:{ intros x Hx. rewrite (Hall x Hx). reflexivity. }
  rewrite (filter_all_true (is_canon_b (rep (st s))) (old (st s))).
  2:{ intros x Hx. apply Hall. apply in_or_app. auto. }
  rewrite (filter_all_true (is_canon_b (rep (st s))) (new (st s))).
  2:{ intros x Hx. apply Hall. apply in_or_app. auto. }
  cbn [insert_allW fold_left]. rewrite state_eta. apply wstate_eta.
Qed.

Lemma defineW_id P W f t s :
  (exists v, In (FRel f, canon (rep (st s)) t ++ [v]) (allf (st s))) -> fst (defineW P W f t s) = s.
Proof.
  intros [v Hin]. unfold defineW.
  destruct (lookup_fun f (map (rep (st s)) t) (new (st s) ++ old (st s))) as [w|] eqn:L; [reflexivity|].
  exfalso. apply (lookup_fun_None _ _ _ L v). unfold allf, canon in Hin.
  apply in_app_or in Hin. apply in_or_app. tauto.
Qed.

Lemma defs_foldW_id P W l : forall s,
  (forall f t, In (f, t) l -> exists v, In (FRel f, canon (rep (st s)) t ++ [v]) (allf (st s))) ->
  fold_left (fun s fa => fst (defineW P W (fst fa) (snd fa) s)) l s = s.
Proof.
  induction l as [|[f t] l IH]; intros s H; cbn [fold_left fst snd]; [reflexivity|].
  rewrite (defineW_id P W f t s (H f t (or_introl eq_refl))). apply IH. intros f' t' Hin. apply H. right. exact Hin.
Qed.

Section IdemW.
  Variables (P : fprogram) (W : wtable) (src : list frule).
  Hypothesis Snd : FamSound src (fp_rules P).

  Lemma exec_iterW_closed tb s : Canon (st s) -> Clean (st s) -> Closed src (st s) ->
    exec_iterW P W tb s = {| st := set_pending (st s) (gdefs (collect (fp_rules P) (st s))); wt := wt s |}.
  Proof.
    intros HC [Hn Hp] Hcl. unfold exec_iterW. set (D := collect (fp_rules P) (st s)).
    assert (HD : forall g, In g D -> sholds (st s) g) by (intros g Hg; apply (collected_hold P src Snd); assumption).
    rewrite (move_id (st s) Hn). rewrite wstate_eta.
    rewrite (equate_allW_id tb (geqs D) s).
    2:{ intros a b Hin. apply in_geqs in Hin. apply (HD _ Hin). }
    rewrite (canonicalizeW_id W s HC).
    rewrite (insert_allW_id W (grels D) s).
    2:{ intros x Hx. destruct (in_grels_inv _ _ Hx) as [r [t [-> Hg]]]. apply (HD _ Hg). }
    rewrite Hp. reflexivity.
  Qed.

  (* C03: a clean closed state is a fixed point of the weighted close, for every advice *)
  Theorem close_idemW n adv s :
    Canon (st s) -> Clean (st s) -> Closed src (st s) ->
    exec_close_untilW (S n) P W adv (fun _ => false) s = Some (s, false).
  Proof.
    intros HC HCl Hcl. destruct HCl as [Hn Hp]. unfold exec_close_untilW.
    rewrite (canonicalizeW_id W s HC).
    assert (Es : set_pending (st s) [] = st s) by (rewrite <- Hp; destruct (st s); reflexivity).
    rewrite Es, wstate_eta. cbn [exec_loopW].
    rewrite (exec_iterW_closed (adv_hd adv) s HC (conj Hn Hp) Hcl). set (D := collect (fp_rules P) (st s)).
    cbn [st].
    assert (Ed : is_dirty (set_pending (st s) (gdefs D)) = false)
      by (unfold is_dirty; cbn [set_pending new]; rewrite Hn; reflexivity).
    rewrite Ed.
    assert (Ea : apply_defsW P W {| st := set_pending (st s) (gdefs D); wt := wt s |} = s).
    { unfold apply_defsW. cbn [st wt set_pending pending].
      assert (E2 : set_pending (set_pending (st s) (gdefs D)) [] = st s) by (rewrite <- Es at 2; reflexivity).
      rewrite E2, wstate_eta. apply defs_foldW_id. intros f t Hin. apply in_gdefs in Hin.
      apply (collected_hold P src Snd (st s) _ Hcl Hin). }
    rewrite Ea. unfold is_dirty. rewrite Hn. reflexivity.
  Qed.
End IdemW.

Corollary close_idem_after_closeW P W src n fuel adv adv' cond s r :
  wf_rules (fp_rules P) -> FamOK src (fp_rules P) -> FamSound src (fp_rules P) ->
  ReachableW P W s -> exec_close_untilW fuel P W adv cond s = Some (r, false) ->
  exec_close_untilW (S n) P W adv' (fun _ => false) r = Some (r, false).
Proof.
  intros Hwf Fam Snd HR H.
  destruct (cu_falseW P W src Hwf Fam cond fuel adv s r HR H) as [Hcl [HCl [HC _]]].
  apply (close_idemW P W src Snd n adv' r HC HCl Hcl).
Qed.

(* ---------- 5d. C02 for the weighted loop: only what the rules force ---------- *)
Section SoundW.
  Variables (P : fprogram) (W : wtable) (A : list dfact).

  Lemma Sound_equateW tb a b s : Sound P A (st s) -> Derivable P A (log (st s)) (DEq a b) ->
    Sound P A (st (equateW tb a b s)).
  Proof.
    intros HS HD. destruct (st_equateW tb a b s) as [E|E]; rewrite E.
    - apply Sound_equate; assumption.
    - apply Sound_equate; [exact HS | apply D_sym; exact HD].
  Qed.

  Lemma Sound_equate_allW tb l : forall s, Sound P A (st s) ->
    (forall a b, In (a, b) l -> Derivable P A (log (st s)) (DEq a b)) -> Sound P A (st (equate_allW tb l s)).
  Proof.
    induction l as [|[a b] l IH]; intros s HS Hl; cbn [equate_allW fold_left fst snd]; [exact HS|].
    fold (equate_allW tb l (equateW tb a b s)). apply IH.
    - apply Sound_equateW; [exact HS | apply Hl; left; reflexivity].
    - destruct (equateW_fields tb a b s) as [_ [_ [_ [_ F5]]]]. rewrite F5. intros a' b' H. apply Hl. right. exact H.
  Qed.

  Lemma Sound_iterW tb s : Sound P A (st s) -> Sound P A (st (exec_iterW P W tb s)).
  Proof.
    intros HS. rewrite st_exec_iterW. set (D := collect (fp_rules P) (st s)).
    assert (HD : forall g, In g D -> _) by (intros g Hg; exact (collect_derivable P A (st s) g HS Hg)).
    set (s1 := {| st := move (st s); wt := wt s |}).
    assert (S1 : Sound P A (st s1)) by (apply Sound_move; exact HS).
    assert (S2 : Sound P A (st (unionsW P tb s))).
    { unfold unionsW. fold D. fold s1. apply Sound_equate_allW; [exact S1|]. intros a b Hin. apply in_geqs in Hin.
      apply (HD _ Hin). }
    assert (L2 : log (st (unionsW P tb s)) = log (st s)).
    { unfold unionsW. fold D. fold s1. destruct (equate_allW_fields tb (geqs D) s1) as [_ [_ [_ [_ L]]]]. exact L. }
    set (s2 := st (unionsW P tb s)) in *. unfold iter_from.
    pose proof (Sound_canonicalize P A s2 S2) as S3. set (s3 := canonicalize s2) in *.
    destruct (canonicalize_fields s2) as [_ [_ [_ L3]]]. fold s3 in L3.
    assert (S4 : Sound P A (insert_all (grels D) s3)).
    { apply Sound_insert_all; [exact S3|]. intros x Hx.
      destruct (in_grels_inv _ _ Hx) as [r [t [-> Hg]]]. cbn [fst snd]. rewrite L3, L2.
      apply (HD _ Hg). }
    set (s4 := insert_all (grels D) s3) in *.
    destruct (insert_all_fields (grels D) s3) as [_ [_ [_ [_ L4]]]]. fold s4 in L4.
    constructor; cbn [set_pending log rep pending].
    - intros y Hy. apply (snd_rows _ _ _ S4). exact Hy.
    - apply (snd_rep _ _ _ S4).
    - intros f t Hin. apply in_app_or in Hin. destruct Hin as [Hin|Hin].
      + apply (snd_pend _ _ _ S4). exact Hin.
      + apply in_gdefs in Hin. rewrite L4, L3, L2. apply (HD _ Hin).
    - apply (snd_log _ _ _ S4).
  Qed.

  Lemma Sound_loopW cond fuel : forall adv s r b,
    Sound P A (st s) -> exec_loopW fuel P W adv cond s = Some (r, b) -> Sound P A (st r).
  Proof.
    induction fuel as [|k IH]; intros adv s r b HS H; cbn [exec_loopW] in H; [discriminate|].
    pose proof (Sound_iterW (adv_hd adv) s HS) as S1.
    pose proof (Sound_apply_defs P A _ S1) as S2. rewrite <- st_apply_defsW with (W := W) in S2.
    destruct (cond (exec_iterW P W (adv_hd adv) s)).
    - inversion H; subst. exact S2.
    - destruct (is_dirty (st (exec_iterW P W (adv_hd adv) s))); [exact (IH _ _ _ _ S1 H)|].
      destruct (is_dirty (st (apply_defsW P W (exec_iterW P W (adv_hd adv) s)))); [exact (IH _ _ _ _ S2 H)|].
      inversion H; subst. exact S2.
  Qed.

  Lemma Sound_close_untilW adv cond fuel s r b :
    Sound P A (st s) -> exec_close_untilW fuel P W adv cond s = Some (r, b) -> Sound P A (st r).
  Proof.
    intros HS H. unfold exec_close_untilW in H.
    assert (S0 : Sound P A (st (canonicalizeW W s))) by (rewrite st_canonicalizeW; apply Sound_canonicalize; exact HS).
    destruct (cond (canonicalizeW W s)); [inversion H; subst; exact S0|].
    eapply Sound_loopW; [|exact H]. cbn [st]. apply Sound_set_pending_nil. exact S0.
  Qed.

  Lemma Origin_iterW tb s : wf_rules (fp_rules P) -> Idem (st s) -> Origin A (st s) -> Origin A (st (exec_iterW P W tb s)).
  Proof.
    intros Hwf Hid HO. pose proof (exec_iterW_astep P W tb s Hwf Hid) as St.
    eapply Origin_same; [exact (id_same _ _ _ _ St) | exact (log_same _ _ _ _ St) | exact HO].
  Qed.

  Lemma Origin_loopW cond fuel : wf_rules (fp_rules P) -> forall adv s r b,
    Idem (st s) -> Origin A (st s) -> exec_loopW fuel P W adv cond s = Some (r, b) -> Origin A (st r).
  Proof.
    intros Hwf. induction fuel as [|k IH]; intros adv s r b Hid HO H; cbn [exec_loopW] in H; [discriminate|].
    pose proof (Origin_iterW (adv_hd adv) s Hwf Hid HO) as O1.
    pose proof (exec_iterW_astep P W (adv_hd adv) s Hwf Hid) as St. pose proof (rep_idem _ _ _ _ St) as Hid1.
    set (s1 := exec_iterW P W (adv_hd adv) s) in *.
    pose proof (Origin_apply_defs P A _ O1) as O2. rewrite <- st_apply_defsW with (W := W) in O2.
    assert (Hid2 : Idem (st (apply_defsW P W s1))).
    { rewrite st_apply_defsW. destruct (apply_defs_spec P (st s1) Hid1) as [E _]. eapply ext_idem; eauto. }
    destruct (cond s1).
    - inversion H; subst. exact O2.
    - destruct (is_dirty (st s1)); [exact (IH _ _ _ _ Hid1 O1 H)|].
      destruct (is_dirty (st (apply_defsW P W s1))); [exact (IH _ _ _ _ Hid2 O2 H)|].
      inversion H; subst. exact O2.
  Qed.

  Lemma Origin_close_untilW adv cond fuel s r b : wf_rules (fp_rules P) -> Idem (st s) ->
    Origin A (st s) -> exec_close_untilW fuel P W adv cond s = Some (r, b) -> Origin A (st r).
  Proof.
    intros Hwf Hid HO H. unfold exec_close_untilW in H.
    destruct (canonicalize_fields (st s)) as [Fr [_ [N0 L0]]].
    assert (O0 : Origin A (st (canonicalizeW W s))) by (rewrite st_canonicalizeW; eapply Origin_same; eauto).
    destruct (cond (canonicalizeW W s)); [inversion H; subst; exact O0|].
    eapply Origin_loopW; [exact Hwf| | |exact H]; cbn [st].
    - intros x. cbn [set_pending rep]. rewrite st_canonicalizeW, Fr. apply Hid.
    - eapply Origin_same; [| |exact O0]; reflexivity.
  Qed.
End SoundW.

Theorem soundW P W A s : wf_rules (fp_rules P) -> ReachW P W A s -> Sound P A (st s) /\ Origin A (st s).
Proof.
  intros Hwf HRw.
  induction HRw as [|A s ty HR [IHS IHO]|A s r t HR [IHS IHO] Hb|A s f t HR [IHS IHO] Hb
                  |A s tb a b HR [IHS IHO] Ha Hb|A s fuel adv cond r b HR [IHS IHO] Hc].
  - exact (sound P [] init (R_init P)).
  - destruct (st_new_elW ty s) as [E _]. rewrite E.
    set (d := DRow (FTySet ty) [next_id (st s)]).
    assert (Hi : incl A (d :: A)) by (apply incl_tl, incl_refl).
    pose proof (Sound_mono_A P _ _ (st s) Hi IHS) as S'. split.
    + unfold new_el. cbn [fst]. constructor; cbn [log rep pending].
      * intros x Hx. unfold allf in Hx. cbn [old new] in Hx. rewrite app_assoc in Hx.
        apply in_app_or in Hx. destruct Hx as [Hx|[<-|[]]].
        -- apply (snd_rows _ _ _ S'). exact Hx.
        -- apply D_asserted. left. reflexivity.
      * apply (snd_rep _ _ _ S').
      * apply (snd_pend _ _ _ S').
      * apply (snd_log _ _ _ S').
    + intros e He. unfold new_el in *. cbn [fst next_id log] in *.
      destruct (N.eq_dec e (next_id (st s))) as [->|Hne].
      * left. exists ty. left. reflexivity.
      * destruct (IHO e) as [[ty' H]|H]; [lia | left; exists ty'; right; exact H | right; exact H].
  - rewrite st_insertW.
    set (d := DRow (FRel r) t). assert (Hi : incl A (d :: A)) by (apply incl_tl, incl_refl).
    pose proof (Sound_mono_A P _ _ (st s) Hi IHS) as S'. split.
    + apply Sound_insert; [exact S'|]. apply D_asserted. left. reflexivity.
    + destruct (insert_fields (FRel r, t) (st s)) as [_ [_ [_ [F4 F5]]]].
      eapply Origin_same; [exact F4 | exact F5 |]. eapply Origin_mono_A; eauto.
  - destruct (st_defineW P W f t s) as [E _]. rewrite E.
    set (d := DDef f t). assert (Hi : incl A (d :: A)) by (apply incl_tl, incl_refl).
    pose proof (Sound_mono_A P _ _ (st s) Hi IHS) as S'. split.
    + apply Sound_define; [exact S'|]. apply D_asserted. left. reflexivity.
    + apply Origin_define. eapply Origin_mono_A; eauto.
  - set (d := DEq a b). assert (Hi : incl A (d :: A)) by (apply incl_tl, incl_refl).
    pose proof (Sound_mono_A P _ _ (st s) Hi IHS) as S'. split.
    + apply Sound_equateW; [exact S'|]. apply D_asserted. left. reflexivity.
    + destruct (equateW_fields tb a b s) as [_ [_ [_ [F4 F5]]]].
      eapply Origin_same; [exact F4 | exact F5 |]. eapply Origin_mono_A; eauto.
  - split; [eapply Sound_close_untilW; eauto | eapply Origin_close_untilW; eauto].
    apply (wf_idem _ (ReachW_WF P W A s Hwf HR)).
Qed.

Corollary sound_rowsW P W A s x : wf_rules (fp_rules P) -> ReachW P W A s -> In x (allf (st s)) ->
  Derivable P A (log (st s)) (DRow (fst x) (snd x)).
Proof. intros Hwf HR. apply (snd_rows _ _ _ (proj1 (soundW P W A s Hwf HR))). Qed.

Corollary sound_mergedW P W A s x y : wf_rules (fp_rules P) -> ReachW P W A s -> rep (st s) x = rep (st s) y ->
  Derivable P A (log (st s)) (DEq x y).
Proof.
  intros Hwf HR E. pose proof (proj1 (soundW P W A s Hwf HR)) as HS.
  eapply D_trans; [apply (snd_rep _ _ _ HS x)|]. rewrite E. apply D_sym. apply (snd_rep _ _ _ HS y).
Qed.

(* ---------- 5e. C15 for the weighted loop: the enum invariant ---------- *)
Section EnumW.
  Variables (P : fprogram) (W : wtable) (E : N -> bool) (is_ctor : N -> bool).

  Lemma EI_equateW tb a b s : EI P E is_ctor (st s) -> EI P E is_ctor (st (equateW tb a b s)).
  Proof. intros H. destruct (st_equateW tb a b s) as [Eq|Eq]; rewrite Eq; apply EI_equate; exact H. Qed.

  Lemma EI_equate_allW tb l : forall s, EI P E is_ctor (st s) -> EI P E is_ctor (st (equate_allW tb l s)).
  Proof.
    induction l as [|[a b] l IH]; intros s HE; cbn [equate_allW fold_left fst snd]; [exact HE|].
    fold (equate_allW tb l (equateW tb a b s)). apply IH. apply EI_equateW. exact HE.
  Qed.

  Hypothesis HR : RulesOK P E is_ctor.

  Lemma EI_iterW tb s : EI P E is_ctor (st s) -> EI P E is_ctor (st (exec_iterW P W tb s)).
  Proof.
    intros HE. rewrite st_exec_iterW. set (D := collect (fp_rules P) (st s)).
    set (s1 := {| st := move (st s); wt := wt s |}).
    assert (E1 : EI P E is_ctor (st s1)) by (apply EI_move; exact HE).
    assert (E2 : EI P E is_ctor (st (unionsW P tb s))) by (unfold unionsW; fold D; fold s1; apply EI_equate_allW; exact E1).
    pose proof (EI_canonicalize P E is_ctor _ E2) as E3. unfold iter_from.
    assert (E4 : EI P E is_ctor (insert_all (grels D) (canonicalize (st (unionsW P tb s))))).
    { apply EI_insert_all; [|exact E3]. intros x Hx. destruct (in_grels_inv _ _ Hx) as [r [t [-> _]]]. eauto. }
    destruct E4 as [Hid HI Hp]. constructor; [exact Hid | exact HI|].
    intros f a Hin. cbn [set_pending pending] in Hin. apply in_app_or in Hin. destruct Hin as [Hin|Hin].
    - apply (Hp f a Hin).
    - apply in_gdefs in Hin. destruct (collect_sound _ _ _ Hin) as [ru [sg [c [Hru [_ [Hc Eg]]]]]].
      destruct c as [r args|x y|f' args]; cbn [ground] in Eg; try discriminate.
      inversion Eg; subst f'. apply (HR ru f args Hru Hc).
  Qed.

  Lemma EI_loopW cond fuel : forall adv s r b, EI P E is_ctor (st s) ->
    exec_loopW fuel P W adv cond s = Some (r, b) -> EI P E is_ctor (st r).
  Proof.
    induction fuel as [|k IH]; intros adv s r b HE H; cbn [exec_loopW] in H; [discriminate|].
    pose proof (EI_iterW (adv_hd adv) s HE) as E1.
    pose proof (EI_apply_defs P E is_ctor _ E1) as E2. rewrite <- st_apply_defsW with (W := W) in E2.
    destruct (cond (exec_iterW P W (adv_hd adv) s)).
    - inversion H; subst. exact E2.
    - destruct (is_dirty (st (exec_iterW P W (adv_hd adv) s))); [exact (IH _ _ _ _ E1 H)|].
      destruct (is_dirty (st (apply_defsW P W (exec_iterW P W (adv_hd adv) s)))); [exact (IH _ _ _ _ E2 H)|].
      inversion H; subst. exact E2.
  Qed.

  Lemma EI_close_untilW adv cond fuel s r b : EI P E is_ctor (st s) ->
    exec_close_untilW fuel P W adv cond s = Some (r, b) -> EI P E is_ctor (st r).
  Proof.
    intros HE H. unfold exec_close_untilW in H.
    assert (E0 : EI P E is_ctor (st (canonicalizeW W s))) by (rewrite st_canonicalizeW; apply EI_canonicalize; exact HE).
    destruct (cond (canonicalizeW W s)); [inversion H; subst; exact E0|].
    eapply EI_loopW; [|exact H]. cbn [st]. apply EI_set_pending_nil. exact E0.
  Qed.

  Theorem enum_invW A s : ReachW P W A s -> HistOK P E is_ctor A -> EI P E is_ctor (st s).
  Proof.
    induction 1 as [|A s ty HRe IH|A s r t HRe IH Hb|A s f t HRe IH Hb|A s tb a b HRe IH Ha Hb
                    |A s fuel adv cond r b HRe IH Hc]; intros HA.
    - constructor; [intros x; reflexivity | intros t e _ [] | intros f a []].
    - destruct (st_new_elW ty s) as [Eq _]. rewrite Eq.
      apply EI_new_el; [apply (proj1 HA ty (next_id (st s))); left; reflexivity|].
      apply IH. eapply HistOK_tl; eauto.
    - rewrite st_insertW. apply EI_insert. apply IH. eapply HistOK_tl; eauto.
    - destruct (st_defineW P W f t s) as [Eq _]. rewrite Eq.
      apply EI_define; [apply (proj2 HA f t); left; reflexivity|]. apply IH. eapply HistOK_tl; eauto.
    - apply EI_equateW. apply IH. eapply HistOK_tl; eauto.
    - eapply EI_close_untilW; [apply IH; exact HA | exact Hc].
  Qed.
End EnumW.

Theorem case_total_closedW P W E is_ctor src A s fuel adv cond r :
  wf_rules (fp_rules P) -> FamOK src (fp_rules P) -> RulesOK P E is_ctor ->
  ReachW P W A s -> HistOK P E is_ctor A -> exec_close_untilW fuel P W adv cond s = Some (r, false) ->
  forall t e, E t = true -> In (FTySet t, [e]) (allf (st r)) ->
    rep (st r) e = e /\ cases P is_ctor (st r) t e <> [] /\
    forall f a, In (f, a) (cases P is_ctor (st r) t e) ->
      In (func_rule f (length a)) src -> eval_fun (st r) f a = Some e.
Proof.
  intros Hwf Fam HRu HRe HA H t e Ht Hin.
  assert (HRe' : ReachW P W A r) by (eapply RW_close; eauto).
  pose proof (enum_invW P W E is_ctor HRu A r HRe' HA) as HE.
  destruct (cu_falseW P W src Hwf Fam cond fuel adv s r (ex_intro _ A HRe) H) as [Hcl [_ [HC _]]].
  destruct (case_total P E is_ctor (st r) HC (ei_inv _ _ _ _ HE) t e Ht Hin) as [Hne Hev].
  split.
  - destruct HC as [_ HC']. pose proof (HC' _ Hin) as C. cbn [snd] in C. unfold is_canon in C.
    cbn [map] in C. inversion C as [C1]. rewrite C1. exact C1.
  - split; [exact Hne|]. intros f a Hc Hfr. destruct (Hev f a Hc) as [v [Ev Hv]]. rewrite Ev. f_equal.
    apply Hv. eapply closed_functional; eauto.
Qed.
