(* Props_C15.v -- elements of enum types always destructure into a constructor case.
   E : the enum types, is_ctor : the constructors (both N -> bool).  Obligations the harness checks on
   the emitted code / on the history (checkers rules_ok_b, call_enum_ok in FactsEnum.v):
     RulesOK P E is_ctor : a CDef conclusion whose function has an enum result type is a constructor;
     HistOK  P E is_ctor A (call_enum_ok per call): no new_el of an enum type; every define_ with an enum
                          result type is a constructor.
   Inserting into a type set is impossible by construction (Reach.R_insert / EInsert use FRel only).
   Arity side condition of the eval statement: functionality is the rule func_rule f (length args). *)
From Coq Require Import List NArith Bool.
From Engine Require Import Model FactsBasic FactsInv FactsOps FactsClose FactsIds FactsFam Run FactsRun FactsEnum ExEnum.
Import ListNotations.
Local Open Scope N_scope.

(* the invariant: every row [e] of an enum type set is, up to the partition, the last column of a
   constructor row that is present *)
Theorem C15_enum_inv : forall P E is_ctor, RulesOK P E is_ctor ->
  forall A s, Reach P A s -> HistOK P E is_ctor A ->
  forall t e, E t = true -> In (FTySet t, [e]) (allf s) ->
    exists f args e', is_ctor f = true /\ restype P f = t /\
      In (FRel f, args ++ [e']) (allf s) /\ rep s e' = rep s e.
Proof. exact enum_inv_rows. Qed.
Print Assumptions C15_enum_inv.

(* the same for states computed by Run.run_state from a history that passes call_enum_ok *)
Theorem C15_enum_inv_run : forall fuel P E is_ctor calls, RulesOK P E is_ctor ->
  forallb (call_enum_ok P E is_ctor) calls = true ->
  EI P E is_ctor (rs_state (run_state fuel P calls)).
Proof. exact run_enum_inv. Qed.
Print Assumptions C15_enum_inv_run.

(* canonical states: cases is non-empty for every (root) element of an enum type, and every case
   evaluates to the element *)
Theorem C15_case_total : forall P E is_ctor s, Canon s -> EnumInv P E is_ctor s ->
  forall t e, E t = true -> In (FTySet t, [e]) (allf s) ->
    cases P is_ctor s t e <> [] /\
    forall f a, In (f, a) (cases P is_ctor s t e) ->
      exists v, eval_fun s f a = Some v /\ (Functional s f (length a) -> v = e).
Proof. exact case_total. Qed.
Print Assumptions C15_case_total.

Theorem C15_case_total_closed : forall P E is_ctor src A s fuel cond r,
  wf_rules (fp_rules P) -> FamOK src (fp_rules P) -> RulesOK P E is_ctor ->
  Reach P A s -> HistOK P E is_ctor A -> exec_close_until fuel P cond s = Some (r, false) ->
  forall t e, E t = true -> In (FTySet t, [e]) (allf r) ->
    rep r e = e /\ cases P is_ctor r t e <> [] /\
    forall f a, In (f, a) (cases P is_ctor r t e) ->
      In (func_rule f (length a)) src -> eval_fun r f a = Some e.
Proof. exact case_total_closed. Qed.
Print Assumptions C15_case_total_closed.

Theorem C15_in_cases : forall P is_ctor s t e f a,
  In (f, a) (cases P is_ctor s t e) <->
  is_ctor f = true /\ restype P f = t /\ In (FRel f, a ++ [e]) (allf s).
Proof. exact in_cases. Qed.
Print Assumptions C15_in_cases.

(* define_ of a constructor returns an element whose cases contain that application; holds in every
   well-formed (in particular every reachable) state, canonical or not *)
Theorem C15_new_enum_roundtrip : forall P is_ctor f args s s' e,
  WF s -> is_ctor f = true -> define P f args s = (s', e) ->
  In (f, map (rep s') args) (cases P is_ctor s' (restype P f) e).
Proof. exact define_roundtrip_WF. Qed.
Print Assumptions C15_new_enum_roundtrip.

(* ---- non-vacuity ---- *)
Example C15_ex_hyps :
  wf_rules (fp_rules en) /\ FamOK en_src (fp_rules en) /\ RulesOK en en_E en_ctor /\
  forallb (call_enum_ok en en_E en_ctor) en_hist = true /\ Reachable en en_st.
Proof.
  split; [exact en_wf|]. split; [exact en_FamOK|]. split; [exact en_RulesOK|].
  split; [vm_compute; reflexivity|]. apply run_reachable; [exact en_wf | vm_compute; reflexivity].
Qed.

(* after the close: two enum elements (Ka() and Kb(h0) = Kb(h2)), each with a case; the closing
   EDefine Kb [0] returns the existing element *)
Example C15_ex_total :
  enum_total_b en en_E en_ctor en_st = true /\
  cases en en_ctor en_st tyT 1 = [(Ka, [])] /\
  rs_handles (run_state 20 en en_hist) = [0; 1; 2; 3] /\
  cases en en_ctor en_st tyT 3 = [(Kb, [0])] /\
  eval_fun en_st Kb [2] = Some 3 /\ next_id en_st = 4.
Proof. vm_compute. repeat split; reflexivity. Qed.

(* a history that violates the obligation is rejected by the checker, and then the invariant fails *)
Example C15_ex_violation :
  forallb (call_enum_ok en en_E en_ctor) [ENew tyT] = false /\
  enum_total_b en en_E en_ctor (rs_state (run_state 20 en [ENew tyT; EClose])) = false.
Proof. vm_compute. split; reflexivity. Qed.
