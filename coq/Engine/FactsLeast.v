(* Engine/FactsLeast.v -- completeness of closed states for [Derivable], and the least-model
   characterisation of the result of close().

   [hom_complete]: let s2 be canonical, closed under the rules of P (ages ignored), functional and
   result-typed, and let h map ids of a "source" history into s2 such that the asserted facts A hold
   under h and every logged element (e, f, a) is mapped to the value of f(h a) in s2 whenever that is
   defined.  Then every fact derivable from A (with the naming log L) holds in s2 under h.

   Side conditions that the untyped model does not track and that are taken as (decidable) hypotheses
   on the closed states -- they hold trivially in the typed generated code:
     FunAll   P s : rows of declared functions are functional on ALL argument tuples (closedness under
                    func_rule f n gives this for rows of the declared arity only);
     ResTyped P s : the result column of every row of a declared function is in the function's result type;
     LogFun   P s : only declared functions were ever defined. *)
From Coq Require Import List Arith NArith Bool Lia.
From Engine Require Import Model FactsBasic FactsInv FactsOps FactsClose FactsSound FactsIds FactsFam FactsStep.
Import ListNotations.
Local Open Scope N_scope.
Arguments N.add : simpl never.
Arguments N.eqb : simpl never.

(* d holds in s (strictly: canonical rows) when its ids are read through h *)
Definition dholds (s : state) (h : N -> N) (d : dfact) : Prop :=
  match d with
  | DRow r t => In (r, canon (rep s) (map h t)) (allf s)
  | DEq a b => rep s (h a) = rep s (h b)
  | DDef f t => exists v, In (FRel f, canon (rep s) (map h t) ++ [v]) (allf s)
  end.

Definition FunAll (P : fprogram) (s : state) : Prop :=
  forall f a v w, is_function P f = true ->
    In (FRel f, a ++ [v]) (allf s) -> In (FRel f, a ++ [w]) (allf s) -> rep s v = rep s w.
Definition ResTyped (P : fprogram) (s : state) : Prop :=
  forall f a v, is_function P f = true -> In (FRel f, a ++ [v]) (allf s) ->
    In (FTySet (restype P f), [v]) (allf s).
Definition LogFun (P : fprogram) (s : state) : Prop :=
  forall e f a, In (e, f, a) (log s) -> is_function P f = true.

Record WellTyped (P : fprogram) (s : state) : Prop := {
  wt_fun : FunAll P s; wt_res : ResTyped P s; wt_log : LogFun P s
}.

(* every emitted sub-rule contains, up to ages, all premise atoms of a source rule with the same conclusions *)
Definition FamErase (src em : list frule) : Prop :=
  forall ru', In ru' em -> exists ru, In ru src /\ fr_conc ru = fr_conc ru' /\
    forall a, In a (fr_prem ru) -> exists a', In a' (fr_prem ru') /\ fa_rel a' = fa_rel a /\ fa_args a' = fa_args a.

Lemma Closed_erase src em s : FamErase src em -> Closed src s -> Closed em s.
Proof.
  intros HF HC ru' sg Hru' Hm c Hc. destruct (HF ru' Hru') as [ru [Hru [Ec Ha]]].
  apply (HC ru sg Hru); [|rewrite Ec; exact Hc].
  unfold is_match in *. rewrite Forall_forall in *. intros a Hin.
  destruct (Ha a Hin) as [a' [Hin' [E1 E2]]]. specialize (Hm a' Hin'). unfold atom_in in *.
  rewrite <- E1, <- E2. exact Hm.
Qed.

Lemma FamErase_app src1 em1 src2 em2 :
  FamErase src1 em1 -> FamErase src2 em2 -> FamErase (src1 ++ src2) (em1 ++ em2).
Proof.
  intros H1 H2 ru' Hru'. apply in_app_or in Hru'. destruct Hru' as [Hru'|Hru'].
  - destruct (H1 ru' Hru') as [ru [A B]]. exists ru. split; [apply in_or_app; left; exact A | exact B].
  - destruct (H2 ru' Hru') as [ru [A B]]. exists ru. split; [apply in_or_app; right; exact A | exact B].
Qed.

Lemma emit_FamErase src : FamErase src (emit src).
Proof.
  intros ru' Hru'. unfold emit in Hru'. apply in_flat_map in Hru'. destruct Hru' as [ru [Hru Hin]].
  exists ru. split; [exact Hru|]. unfold semi_naive in Hin.
  destruct (fr_prem ru) as [|a0 l] eqn:Ep.
  - destruct Hin as [E|[]]. subst ru'. split; [reflexivity|]. rewrite Ep. intros a [].
  - apply in_map_iff in Hin. destruct Hin as [p [<- Hp]]. cbn [fr_conc fr_prem].
    split; [reflexivity|]. intros a Ha.
    destruct (sn_prems_covers _ _ _ a Hp Ha) as [g Hg]. exists (set_age g a). auto.
Qed.

Lemma func_FamErase f n : FamErase [func_rule f n] [func_sub f n].
Proof.
  intros ru' [<-|[]]. exists (func_rule f n). split; [left; reflexivity|]. split; [reflexivity|].
  unfold func_rule, func_sub. cbn [fr_prem]. intros a [<-|[<-|[]]].
  - eexists. split; [left; reflexivity|]. split; reflexivity.
  - eexists. split; [right; left; reflexivity|]. split; reflexivity.
Qed.

Lemma FamErase_cover src em em' : FamErase src em -> covers em' em -> FamErase src em'.
Proof.
  intros H Hc ru' Hru'. destruct (Hc ru' Hru') as [ru1 [Hru1 [Ec Hi]]].
  destruct (H ru1 Hru1) as [ru [Hru [Ec2 Ha]]]. exists ru. split; [exact Hru|]. split; [congruence|].
  intros a Hin. destruct (Ha a Hin) as [a' [Hin' E]]. exists a'. split; [apply Hi; exact Hin' | exact E].
Qed.

(* ---------- small facts about canon ---------- *)
Lemma canon_comp (g k : N -> N) l : (forall x, g (g x) = g x) ->
  canon g (map (fun x => g (k x)) l) = canon g (map k l).
Proof.
  intros Hid. unfold canon. rewrite !map_map. apply map_ext. intros x. apply Hid.
Qed.

Lemma canon_pairs (g h : N -> N) : forall t t', length t = length t' ->
  (forall x y, In (x, y) (combine t t') -> g (h x) = g (h y)) -> canon g (map h t) = canon g (map h t').
Proof.
  induction t as [|x t IH]; intros [|y t'] Hl Hp; cbn [length] in Hl; try discriminate; [reflexivity|].
  cbn [map canon]. unfold canon in *. cbn [map]. f_equal.
  - apply Hp. left. reflexivity.
  - apply IH; [lia|]. intros a b Hin. apply Hp. right. exact Hin.
Qed.

Lemma canon_row_elems s x : Canon s -> In x (allf s) -> forall v, In v (snd x) -> rep s v = v.
Proof.
  intros [_ HC] Hin v Hv. pose proof (HC _ Hin) as C. apply is_canon_Forall in C.
  rewrite Forall_forall in C. apply C. exact Hv.
Qed.

Lemma fholds_strict s x : Canon s -> fholds s x -> In (fst x, canon (rep s) (snd x)) (allf s).
Proof.
  intros HC [t0 [Hin E]]. destruct HC as [Hid HC']. pose proof (HC' _ Hin) as C. cbn [snd] in C.
  unfold is_canon, canon in *. rewrite <- E, C. exact Hin.
Qed.

(* ---------- completeness ---------- *)
Section Hom.
  Variables (P : fprogram) (A : list dfact) (L : list (N * N * row)) (s2 : state) (h : N -> N).
  Hypothesis HC : Canon s2.
  Hypothesis Hcl : Closed (fp_rules P) s2.
  Hypothesis HF : FunAll P s2.
  Hypothesis HT : ResTyped P s2.
  Hypothesis HA : forall d, In d A -> dholds s2 h d.
  Hypothesis HL : forall e f a, In (e, f, a) L -> is_function P f = true /\
      forall v, In (FRel f, canon (rep s2) (map h a) ++ [v]) (allf s2) -> rep s2 (h e) = v.

  Let Hid : forall x, rep s2 (rep s2 x) = rep s2 x := proj1 HC.

  Theorem hom_complete d : Derivable P A L d -> dholds s2 h d.
  Proof.
    induction 1 as [d Hd|ru sg c Hru Hprem IH Hc|x|x y _ IH|x y z _ IH1 _ IH2|r t t' _ IH Hlen _ IHp
                    |f t t' _ IH Hlen _ IHp|f a v w Hf _ IH1 _ IH2|e f a Hin _ IH|e f a Hin _ IH].
    - apply HA. exact Hd.
    - set (sg' := fun x => rep s2 (h (sg x))).
      assert (Hm : is_match sg' (fr_prem ru) (allf s2)).
      { unfold is_match. apply Forall_forall. intros a Ha. specialize (IH a Ha). cbn [dholds] in IH.
        unfold atom_in. replace (map sg' (fa_args a)) with (canon (rep s2) (map h (map sg (fa_args a)))); [exact IH|].
        unfold canon, sg'. rewrite !map_map. reflexivity. }
      pose proof (Hcl ru sg' Hru Hm c Hc) as Hs.
      destruct c as [r args|x y|f args]; cbn [ground sholds dground dholds] in *.
      + unfold sg' in Hs. rewrite canon_comp in Hs by exact Hid. rewrite map_map. exact Hs.
      + unfold sg' in Hs. rewrite !Hid in Hs. exact Hs.
      + unfold sg' in Hs. rewrite canon_comp in Hs by exact Hid. rewrite map_map. exact Hs.
    - reflexivity.
    - cbn [dholds] in *. congruence.
    - cbn [dholds] in *. congruence.
    - cbn [dholds] in *. rewrite <- (canon_pairs (rep s2) h t t' Hlen); [exact IH|].
      intros x y Hxy. apply (IHp x y Hxy).
    - cbn [dholds] in *. rewrite <- (canon_pairs (rep s2) h t t' Hlen); [exact IH|].
      intros x y Hxy. apply (IHp x y Hxy).
    - cbn [dholds] in *. rewrite map_app, canon_app in IH1, IH2. cbn [map canon] in IH1, IH2.
      pose proof (HF f _ _ _ Hf IH1 IH2) as E. rewrite !Hid in E. exact E.
    - cbn [dholds] in *. destruct IH as [v Hrow]. destruct (HL e f a Hin) as [_ Hv].
      rewrite map_app, canon_app. cbn [map canon]. rewrite (Hv v Hrow). exact Hrow.
    - cbn [dholds] in *. destruct IH as [v Hrow]. destruct (HL e f a Hin) as [Hf Hv].
      cbn [map canon]. rewrite (Hv v Hrow). apply (HT f _ v Hf Hrow).
  Qed.
End Hom.

(* ---------- the least-model characterisation of a closed reachable state ---------- *)
Definition hid (x : N) : N := x.

Lemma map_hid t : map hid t = t.
Proof. apply map_id. Qed.

Section Least.
  Variables (P : fprogram) (A : list dfact) (s : state).
  Hypothesis Hwf : wf_rules (fp_rules P).
  Hypothesis HR : Reach P A s.
  Hypothesis HC : Canon s.
  Hypothesis Hcl : Closed (fp_rules P) s.
  Hypothesis HW : WellTyped P s.

  Lemma self_HA d : In d A -> dholds s hid d.
  Proof.
    intros Hd. pose proof (ri_a _ _ (Reach_RInv P A s Hwf HR) d Hd) as H.
    destruct d as [r t|a b|f t]; cbn [dholdsm dholds] in *; rewrite ?map_hid.
    - apply (fholds_strict s (r, t) HC H).
    - exact H.
    - destruct H as [t0 [v [Hin E]]]. destruct HC as [Hid HC']. pose proof (HC' _ Hin) as C. cbn [snd] in C.
      unfold is_canon, canon in *. exists v. rewrite <- E, C. exact Hin.
  Qed.

  Lemma self_HL e f a : In (e, f, a) (log s) -> is_function P f = true /\
    forall v, In (FRel f, canon (rep s) (map hid a) ++ [v]) (allf s) -> rep s (hid e) = v.
  Proof.
    intros Hin. pose proof (wt_log _ _ HW e f a Hin) as Hf. split; [exact Hf|].
    intros v Hrow. rewrite map_hid in Hrow. unfold hid.
    pose proof (ri_holds _ _ (Reach_RInv P A s Hwf HR) e f a Hin) as Hh.
    apply (fholds_strict s _ HC) in Hh. cbn [fst snd] in Hh. rewrite canon_app in Hh. cbn [canon map] in Hh.
    pose proof (wt_fun _ _ HW f _ _ _ Hf Hh Hrow) as E. rewrite (proj1 HC) in E. rewrite E.
    apply (canon_row_elems s _ HC Hrow). cbn [snd]. apply in_or_app. right. left. reflexivity.
  Qed.

  (* completeness: everything derivable holds *)
  Theorem least_complete d : Derivable P A (log s) d -> dholds s hid d.
  Proof.
    apply (hom_complete P A (log s) s hid HC Hcl (wt_fun _ _ HW) (wt_res _ _ HW)).
    - exact self_HA.
    - exact self_HL.
  Qed.

  (* ... and, for rows and equalities, exactly the derivable facts hold *)
  Theorem close_least :
    (forall r t, Derivable P A (log s) (DRow r t) <-> In (r, canon (rep s) t) (allf s)) /\
    (forall x y, Derivable P A (log s) (DEq x y) <-> rep s x = rep s y) /\
    (forall f t, Derivable P A (log s) (DDef f t) -> exists v, In (FRel f, canon (rep s) t ++ [v]) (allf s)).
  Proof.
    pose proof (proj1 (sound P A s HR)) as HS. split; [|split].
    - intros r t. split.
      + intros H. apply least_complete in H. cbn [dholds] in H. rewrite map_hid in H. exact H.
      + intros H. pose proof (snd_rows _ _ _ HS _ H) as Hd. cbn [fst snd] in Hd.
        eapply D_congr; [exact Hd | unfold canon; rewrite map_length; reflexivity|].
        intros x y Hxy. apply D_sym.
        assert (Ey : x = rep s y).
        { clear -Hxy. unfold canon in Hxy. induction t as [|v t IH]; cbn [map combine In] in Hxy; [destruct Hxy|].
          destruct Hxy as [E|Hxy]; [inversion E; reflexivity | auto]. }
        subst x. apply (snd_rep _ _ _ HS).
    - intros x y. split.
      + intros H. apply least_complete in H. exact H.
      + intros H. apply (sound_merged P A s x y HR H).
    - intros f t H. apply least_complete in H. cbn [dholds] in H. rewrite map_hid in H. exact H.
  Qed.
End Least.
