(* Engine/FactsFam.v -- a Gallina copy of flat_eqlog/semi_naive.rs::to_semi_naive and the proof that
   the families it produces satisfy [FamOK] (and the converse [FamSound]).  The property C16 is about
   the real function; this file only shows that the hypothesis [FamOK] of the engine theorems is
   satisfiable by the intended families, and lets examples build their emitted rules from source rules. *)
From Coq Require Import List Arith NArith Bool Lia.
From Engine Require Import Model FactsBasic FactsInv.
Import ListNotations.
Local Open Scope N_scope.

Definition set_age (g : age) (a : fatom) : fatom :=
  {| fa_rel := fa_rel a; fa_args := fa_args a; fa_age := g |}.

(* sub-rule i: atoms before i are "all", atom i is "new", atoms after i are "old" *)
Fixpoint sn_prems (pre rest : list fatom) : list (list fatom) :=
  match rest with
  | [] => []
  | a :: rest' =>
      (map (set_age All) pre ++ set_age New a :: map (set_age Old) rest') :: sn_prems (pre ++ [a]) rest'
  end.

Definition semi_naive (ru : frule) : list frule :=
  match fr_prem ru with
  | [] => [ru]
  | _ => map (fun p => {| fr_prem := p; fr_conc := fr_conc ru |}) (sn_prems [] (fr_prem ru))
  end.

Definition emit (src : list frule) : list frule := flat_map semi_naive src.

(* converse of FamOK: every emitted sub-rule is an aged copy of a source rule *)
Definition FamSound (src em : list frule) : Prop :=
  forall ru', In ru' em -> exists ru, In ru src /\ fr_conc ru = fr_conc ru' /\
    forall s sg, aged_match sg (fr_prem ru') s -> is_match sg (fr_prem ru) (allf s).

Lemma atom_in_set_age sg F g a : atom_in sg F (set_age g a) <-> atom_in sg F a.
Proof. unfold atom_in, set_age. cbn [fa_rel fa_args]. tauto. Qed.

Lemma aged_all sg s l : Forall (atom_in sg (allf s)) l -> aged_match sg (map (set_age All) l) s.
Proof.
  unfold aged_match. intros H. apply Forall_forall. intros a Ha. apply in_map_iff in Ha.
  destruct Ha as [a0 [<- Ha0]]. rewrite Forall_forall in H. specialize (H a0 Ha0).
  cbn [set_age fa_age tbl]. apply atom_in_set_age. unfold atom_in, allf in *.
  rewrite in_app_iff in *. tauto.
Qed.

Lemma aged_old sg s l : Forall (atom_in sg (old s)) l -> aged_match sg (map (set_age Old) l) s.
Proof.
  unfold aged_match. intros H. apply Forall_forall. intros a Ha. apply in_map_iff in Ha.
  destruct Ha as [a0 [<- Ha0]]. rewrite Forall_forall in H. specialize (H a0 Ha0).
  cbn [set_age fa_age tbl]. apply atom_in_set_age. exact H.
Qed.

Lemma sn_prems_complete sg s : forall rest pre,
  Forall (atom_in sg (allf s)) pre -> Forall (atom_in sg (allf s)) rest ->
  (exists a, In a rest /\ atom_in sg (new s) a) ->
  exists p, In p (sn_prems pre rest) /\ aged_match sg p s.
Proof.
  induction rest as [|a rest IH]; intros pre Hpre Hrest [b [Hb Hnew]]; [destruct Hb|].
  inversion Hrest as [|? ? Ha Hr]; subst. cbn [sn_prems].
  destruct (Exists_dec (fun a => atom_in sg (new s) a) rest) as [E|E].
  { intros x. unfold atom_in. apply in_dec. apply fact_eq_dec. }
  - apply Exists_exists in E. destruct (IH (pre ++ [a])) as [p [Hp Hm]].
    + apply Forall_app. split; [exact Hpre | constructor; [exact Ha | constructor]].
    + exact Hr.
    + exact E.
    + exists p. split; [right; exact Hp | exact Hm].
  - (* a is the last new atom *)
    assert (Han : atom_in sg (new s) a).
    { destruct Hb as [->|Hb]; [exact Hnew|]. exfalso. apply E. apply Exists_exists. exists b. auto. }
    assert (Hold : Forall (atom_in sg (old s)) rest).
    { rewrite Forall_forall in *. intros x Hx. specialize (Hr x Hx).
      unfold atom_in, allf in *. apply in_app_or in Hr. destruct Hr as [Hr|Hr]; [exact Hr|].
      exfalso. apply E. apply Exists_exists. exists x. auto. }
    eexists. split; [left; reflexivity|]. unfold aged_match. apply Forall_app. split.
    + apply aged_all. exact Hpre.
    + constructor; [cbn [set_age fa_age tbl]; apply atom_in_set_age; exact Han|].
      apply aged_old. exact Hold.
Qed.

Theorem emit_FamOK src : FamOK src (emit src).
Proof.
  intros ru Hru s sg Hm Hn. unfold emit.
  destruct (fr_prem ru) as [|a0 l] eqn:Ep.
  - exists ru. split; [|split; [reflexivity|]].
    + apply in_flat_map. exists ru. split; [exact Hru|]. unfold semi_naive. rewrite Ep. left. reflexivity.
    + rewrite Ep. constructor.
  - destruct Hn as [Hn|Hn]; [discriminate|].
    destruct (sn_prems_complete sg s (a0 :: l) []) as [p [Hp Hpm]]; [constructor | exact Hm | exact Hn |].
    exists {| fr_prem := p; fr_conc := fr_conc ru |}. split; [|split; [reflexivity | exact Hpm]].
    apply in_flat_map. exists ru. split; [exact Hru|]. unfold semi_naive. rewrite Ep.
    apply in_map_iff. exists p. split; [reflexivity | exact Hp].
Qed.

Lemma sn_prems_atoms : forall rest pre p a, In p (sn_prems pre rest) -> In a p ->
  exists a0 g, In a0 (pre ++ rest) /\ a = set_age g a0.
Proof.
  induction rest as [|b rest IH]; intros pre p a Hp Ha; cbn [sn_prems] in Hp; [destruct Hp|].
  destruct Hp as [<-|Hp].
  - apply in_app_or in Ha. destruct Ha as [Ha|[<-|Ha]].
    + apply in_map_iff in Ha. destruct Ha as [a0 [<- H0]]. exists a0, All. split; [|reflexivity].
      apply in_or_app. auto.
    + exists b, New. split; [|reflexivity]. apply in_or_app. right. left. reflexivity.
    + apply in_map_iff in Ha. destruct Ha as [a0 [<- H0]]. exists a0, Old. split; [|reflexivity].
      apply in_or_app. right. right. exact H0.
  - destruct (IH _ _ _ Hp Ha) as [a0 [g [H0 E]]]. exists a0, g. split; [|exact E].
    rewrite <- app_assoc in H0. exact H0.
Qed.

(* every sub-rule mentions every source atom *)
Lemma sn_prems_covers : forall rest pre p a0, In p (sn_prems pre rest) -> In a0 (pre ++ rest) ->
  exists g, In (set_age g a0) p.
Proof.
  induction rest as [|b rest IH]; intros pre p a0 Hp H0; cbn [sn_prems] in Hp; [destruct Hp|].
  destruct Hp as [<-|Hp].
  - apply in_app_or in H0. destruct H0 as [H0|[<-|H0]].
    + exists All. apply in_or_app. left. apply in_map. exact H0.
    + exists New. apply in_or_app. right. left. reflexivity.
    + exists Old. apply in_or_app. right. right. apply in_map. exact H0.
  - apply (IH _ _ _ Hp). rewrite <- app_assoc. exact H0.
Qed.

Lemma tbl_sub_allf s g x : In x (tbl s g) -> In x (allf s).
Proof. unfold allf. destruct g; cbn [tbl]; rewrite ?in_app_iff; tauto. Qed.

Theorem emit_FamSound src : FamSound src (emit src).
Proof.
  intros ru' Hru'. unfold emit in Hru'. apply in_flat_map in Hru'. destruct Hru' as [ru [Hru Hin]].
  exists ru. split; [exact Hru|]. unfold semi_naive in Hin.
  destruct (fr_prem ru) as [|a0 l] eqn:Ep.
  - destruct Hin as [<-|[]]. split; [reflexivity|]. intros s sg _. rewrite Ep. constructor.
  - apply in_map_iff in Hin. destruct Hin as [p [<- Hp]]. cbn [fr_conc fr_prem].
    split; [reflexivity|]. intros s sg Hm. unfold is_match. apply Forall_forall. intros a Ha.
    destruct (sn_prems_covers _ _ _ a Hp Ha) as [g Hg].
    unfold aged_match in Hm. rewrite Forall_forall in Hm. specialize (Hm _ Hg).
    cbn [set_age fa_age] in Hm. apply atom_in_set_age in Hm. unfold atom_in in *.
    eapply tbl_sub_allf. exact Hm.
Qed.

Lemma emit_wf src : wf_rules src -> wf_rules (emit src).
Proof.
  unfold wf_rules, emit. rewrite !Forall_forall. intros H ru' Hin.
  apply in_flat_map in Hin. destruct Hin as [ru [Hru Hin]]. specialize (H ru Hru).
  unfold semi_naive in Hin. destruct (fr_prem ru) as [|a0 l] eqn:Ep.
  - destruct Hin as [<-|[]]. exact H.
  - apply in_map_iff in Hin. destruct Hin as [p [<- Hp]].
    intros c x Hc Hx. cbn [fr_conc fr_prem] in *. specialize (H c x Hc Hx). rewrite Ep in H.
    unfold prem_vars in *. apply in_flat_map in H. destruct H as [a [Ha Hxa]].
    destruct (sn_prems_covers _ _ _ a Hp Ha) as [g Hg]. apply in_flat_map.
    exists (set_age g a). split; [exact Hg | exact Hxa].
Qed.
