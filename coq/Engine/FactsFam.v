(* Engine/FactsFam.v -- a Gallina copy of flat_eqlog/semi_naive.rs::to_semi_naive and the proof that
   the families it produces satisfy [FamOK] (and the converse [FamSound]).  The property C16 is about
   the real function; this file only shows that the hypothesis [FamOK] of the engine theorems is
   satisfiable by the intended families, and lets examples build their emitted rules from source rules. *)
From Coq Require Import List Arith NArith Bool Lia.
From Engine Require Import Model FactsBasic FactsInv.
Import ListNotations.
Local Open Scope N_scope.

Definition set_age (g : age) (a : fatom) : fatom :=
  {| fa_rel := fa_rel a; fa_args := fa_args a; fa_age := g |}.

(* sub-rule i: atoms before i are "all", atom i is "new", atoms after i are "old" *)
Fixpoint sn_prems (pre rest : list fatom) : list (list fatom) :=
  match rest with
  | [] => []
  | a :: rest' =>
      (map (set_age All) pre ++ set_age New a :: map (set_age Old) rest') :: sn_prems (pre ++ [a]) rest'
  end.

Definition semi_naive (ru : frule) : list frule :=
  match fr_prem ru with
  | [] => [ru]
  | _ => map (fun p => {| fr_prem := p; fr_conc := fr_conc ru |}) (sn_prems [] (fr_prem ru))
  end.

Definition emit (src : list frule) : list frule := flat_map semi_naive src.

(* converse of FamOK: every emitted sub-rule is an aged copy of a source rule *)
Definition FamSound (src em : list frule) : Prop :=
  forall ru', In ru' em -> exists ru, In ru src /\ fr_conc ru = fr_conc ru' /\
    forall s sg, aged_match sg (fr_prem ru') s -> is_match sg (fr_prem ru) (allf s).

Lemma atom_in_set_age sg F g a : atom_in sg F (set_age g a) <-> atom_in sg F a.
Proof. unfold atom_in, set_age. cbn [fa_rel fa_args]. tauto. Qed.

Lemma aged_all sg s l : Forall (atom_in sg (allf s)) l -> aged_match sg (map (set_age All) l) s.
Proof.
  unfold aged_match. intros H. apply Forall_forall. intros a Ha. apply in_map_iff in Ha.
  destruct Ha as [a0 [<- Ha0]]. rewrite Forall_forall in H. specialize (H a0 Ha0).
  cbn [set_age fa_age tbl]. apply atom_in_set_age. unfold atom_in, allf in *.
  rewrite in_app_iff in *. tauto.
Qed.

Lemma aged_old sg s l : Forall (atom_in sg (old s)) l -> aged_match sg (map (set_age Old) l) s.
Proof.
  unfold aged_match. intros H. apply Forall_forall. intros a Ha. apply in_map_iff in Ha.
  destruct Ha as [a0 [<- Ha0]]. rewrite Forall_forall in H. specialize (H a0 Ha0).
  cbn [set_age fa_age tbl]. apply atom_in_set_age. exact H.
Qed.

Lemma sn_prems_complete sg s : forall rest pre,
  Forall (atom_in sg (allf s)) pre -> Forall (atom_in sg (allf s)) rest ->
  (exists a, In a rest /\ atom_in sg (new s) a) ->
  exists p, In p (sn_prems pre rest) /\ aged_match sg p s.
Proof.
  induction rest as [|a rest IH]; intros pre Hpre Hrest [b [Hb Hnew]]; [destruct Hb|].
  inversion Hrest as [|? ? Ha Hr]; subst. cbn [sn_prems].
  destruct (Exists_dec (fun a => atom_in sg (new s) a) rest) as [E|E].
  { intros x. unfold atom_in. apply in_dec. apply fact_eq_dec. }
  - apply Exists_exists in E. destruct (IH (pre ++ [a])) as [p [Hp Hm]].
    + apply Forall_app. split; [exact Hpre | constructor; [exact Ha | constructor]].
    + exact Hr.
    + exact E.
    + exists p. split; [right; exact Hp | exact Hm].
  - (* a is the last new atom *)
    assert (Han : atom_in sg (new s) a).
    { destruct Hb as [->|Hb]; [exact Hnew|]. exfalso. apply E. apply Exists_exists. exists b. auto. }
    assert (Hold : Forall (atom_in sg (old s)) rest).
    { rewrite Forall_forall in *. intros x Hx. specialize (Hr x Hx).
      unfold atom_in, allf in *. apply in_app_or in Hr. destruct Hr as [Hr|Hr]; [exact Hr|].
      exfalso. apply E. apply Exists_exists. exists x. auto. }
    eexists. split; [left; reflexivity|]. unfold aged_match. apply Forall_app. split.
    + apply aged_all. exact Hpre.
    + constructor; [cbn [set_age fa_age tbl]; apply atom_in_set_age; exact Han|].
      apply aged_old. exact Hold.
Qed.

Theorem emit_FamOK src : FamOK src (emit src).
Proof.
  intros ru Hru s sg Hm Hn c Hc. unfold emit.
  destruct (fr_prem ru) as [|a0 l] eqn:Ep.
  - exists ru, sg, c. split; [|split; [exact Hc|split; [|left; reflexivity]]].
    + apply in_flat_map. exists ru. split; [exact Hru|]. unfold semi_naive. rewrite Ep. left. reflexivity.
    + rewrite Ep. constructor.
  - destruct Hn as [Hn|Hn]; [discriminate|].
    destruct (sn_prems_complete sg s (a0 :: l) []) as [p [Hp Hpm]]; [constructor | exact Hm | exact Hn |].
    exists {| fr_prem := p; fr_conc := fr_conc ru |}, sg, c.
    split; [|split; [exact Hc|split; [exact Hpm|left; reflexivity]]].
    apply in_flat_map. exists ru. split; [exact Hru|]. unfold semi_naive. rewrite Ep.
    apply in_map_iff. exists p. split; [reflexivity | exact Hp].
Qed.

Lemma FamOK_app src1 em1 src2 em2 : FamOK src1 em1 -> FamOK src2 em2 -> FamOK (src1 ++ src2) (em1 ++ em2).
Proof.
  intros H1 H2 ru Hru s sg Hm Hn c Hc. apply in_app_or in Hru. destruct Hru as [Hru|Hru].
  - destruct (H1 ru Hru s sg Hm Hn c Hc) as [ru' [sg' [c' [A B]]]]. exists ru', sg', c'.
    split; [apply in_or_app; left; exact A | exact B].
  - destruct (H2 ru Hru s sg Hm Hn c Hc) as [ru' [sg' [c' [A B]]]]. exists ru', sg', c'.
    split; [apply in_or_app; right; exact A | exact B].
Qed.

Lemma FamSound_app src1 em1 src2 em2 :
  FamSound src1 em1 -> FamSound src2 em2 -> FamSound (src1 ++ src2) (em1 ++ em2).
Proof.
  intros H1 H2 ru' Hru'. apply in_app_or in Hru'. destruct Hru' as [Hru'|Hru'].
  - destruct (H1 ru' Hru') as [ru [A B]]. exists ru. split; [apply in_or_app; left; exact A | exact B].
  - destruct (H2 ru' Hru') as [ru [A B]]. exists ru. split; [apply in_or_app; right; exact A | exact B].
Qed.

Lemma sn_prems_atoms : forall rest pre p a, In p (sn_prems pre rest) -> In a p ->
  exists a0 g, In a0 (pre ++ rest) /\ a = set_age g a0.
Proof.
  induction rest as [|b rest IH]; intros pre p a Hp Ha; cbn [sn_prems] in Hp; [destruct Hp|].
  destruct Hp as [<-|Hp].
  - apply in_app_or in Ha. destruct Ha as [Ha|[<-|Ha]].
    + apply in_map_iff in Ha. destruct Ha as [a0 [<- H0]]. exists a0, All. split; [|reflexivity].
      apply in_or_app. auto.
    + exists b, New. split; [|reflexivity]. apply in_or_app. right. left. reflexivity.
    + apply in_map_iff in Ha. destruct Ha as [a0 [<- H0]]. exists a0, Old. split; [|reflexivity].
      apply in_or_app. right. right. exact H0.
  - destruct (IH _ _ _ Hp Ha) as [a0 [g [H0 E]]]. exists a0, g. split; [|exact E].
    rewrite <- app_assoc in H0. exact H0.
Qed.

(* every sub-rule mentions every source atom *)
Lemma sn_prems_covers : forall rest pre p a0, In p (sn_prems pre rest) -> In a0 (pre ++ rest) ->
  exists g, In (set_age g a0) p.
Proof.
  induction rest as [|b rest IH]; intros pre p a0 Hp H0; cbn [sn_prems] in Hp; [destruct Hp|].
  destruct Hp as [<-|Hp].
  - apply in_app_or in H0. destruct H0 as [H0|[<-|H0]].
    + exists All. apply in_or_app. left. apply in_map. exact H0.
    + exists New. apply in_or_app. right. left. reflexivity.
    + exists Old. apply in_or_app. right. right. apply in_map. exact H0.
  - apply (IH _ _ _ Hp). rewrite <- app_assoc. exact H0.
Qed.

Lemma tbl_sub_allf s g x : In x (tbl s g) -> In x (allf s).
Proof. unfold allf. destruct g; cbn [tbl]; rewrite ?in_app_iff; tauto. Qed.

Theorem emit_FamSound src : FamSound src (emit src).
Proof.
  intros ru' Hru'. unfold emit in Hru'. apply in_flat_map in Hru'. destruct Hru' as [ru [Hru Hin]].
  exists ru. split; [exact Hru|]. unfold semi_naive in Hin.
  destruct (fr_prem ru) as [|a0 l] eqn:Ep.
  - destruct Hin as [E|[]]. subst ru'. split; [reflexivity|]. intros s sg _. constructor.
  - apply in_map_iff in Hin. destruct Hin as [p [<- Hp]]. cbn [fr_conc fr_prem].
    split; [reflexivity|]. intros s sg Hm. unfold is_match. apply Forall_forall. intros a Ha.
    destruct (sn_prems_covers _ _ _ a Hp Ha) as [g Hg].
    unfold aged_match in Hm. rewrite Forall_forall in Hm. specialize (Hm _ Hg).
    cbn [set_age fa_age] in Hm. apply atom_in_set_age in Hm. unfold atom_in in *.
    eapply tbl_sub_allf. exact Hm.
Qed.

Lemma emit_wf src : wf_rules src -> wf_rules (emit src).
Proof.
  unfold wf_rules, emit. rewrite !Forall_forall. intros H ru' Hin.
  apply in_flat_map in Hin. destruct Hin as [ru [Hru Hin]]. specialize (H ru Hru).
  unfold semi_naive in Hin. destruct (fr_prem ru) as [|a0 l] eqn:Ep.
  - destruct Hin as [E|[]]. subst ru'. exact H.
  - apply in_map_iff in Hin. destruct Hin as [p [<- Hp]].
    intros c x Hc Hx. cbn [fr_conc fr_prem] in *. specialize (H c x Hc Hx). rewrite Ep in H.
    unfold prem_vars in *. apply in_flat_map in H. destruct H as [a [Ha Hxa]].
    destruct (sn_prems_covers _ _ _ a Hp Ha) as [g Hg]. apply in_flat_map.
    exists (set_age g a). split; [exact Hg | exact Hxa].
Qed.

(* ---------- the emitted functionality rule: ONE sub-rule  f(a,r0)[new], f(a,r1)[all] => r0 == r1 ---------- *)
Definition func_sub (f : N) (nargs : nat) : frule :=
  let xs := map N.of_nat (seq 0 nargs) in
  let r0 := N.of_nat nargs in
  let r1 := N.of_nat (S nargs) in
  {| fr_prem := [ {| fa_rel := FRel f; fa_args := xs ++ [r0]; fa_age := New |};
                  {| fa_rel := FRel f; fa_args := xs ++ [r1]; fa_age := All |} ];
     fr_conc := [CEq r0 r1] |}.

Lemma FamOK_func f n : FamOK [func_rule f n] [func_sub f n].
Proof.
  intros ru [<-|[]] s sg Hm Hn c Hc. cbn [func_rule fr_conc In] in Hc. destruct Hc as [<-|[]].
  unfold is_match, func_rule in Hm. cbn [fr_prem] in Hm.
  inversion Hm as [|? ? H0 Hm']; subst. inversion Hm' as [|? ? H1 _]; subst. clear Hm Hm'.
  unfold atom_in in H0, H1. cbn [fa_rel fa_args] in H0, H1.
  set (xs := map N.of_nat (seq 0 n)) in *. set (r0 := N.of_nat n) in *. set (r1 := N.of_nat (S n)) in *.
  destruct (in_dec fact_eq_dec (FRel f, map sg (xs ++ [r0])) (new s)) as [I0|I0].
  - exists (func_sub f n), sg, (CEq r0 r1). split; [left; reflexivity|]. split; [left; reflexivity|].
    split; [|left; reflexivity].
    unfold aged_match, func_sub. cbn [fr_prem]. fold xs r0 r1.
    constructor; [exact I0|]. constructor; [|constructor].
    unfold atom_in. cbn [fa_rel fa_args fa_age tbl]. unfold allf in H1. rewrite in_app_iff in *. tauto.
  - assert (I1 : In (FRel f, map sg (xs ++ [r1])) (new s)).
    { destruct Hn as [Hn|[a [Ha Hin]]]; [discriminate|]. unfold func_rule in Ha. cbn [fr_prem In] in Ha.
      fold xs r0 r1 in Ha. destruct Ha as [<-|[<-|[]]]; unfold atom_in in Hin; cbn [fa_rel fa_args] in Hin;
        [contradiction | exact Hin]. }
    set (sg' := fun x => if N.eqb x r0 then sg r1 else if N.eqb x r1 then sg r0 else sg x).
    assert (Hne : r0 <> r1) by (unfold r0, r1; lia).
    assert (Hxs : map sg' xs = map sg xs).
    { apply map_ext_in. intros x Hx. unfold xs in Hx. apply in_map_iff in Hx. destruct Hx as [i [<- Hi]].
      apply in_seq in Hi. unfold sg'.
      assert (E0 : N.eqb (N.of_nat i) r0 = false) by (apply N.eqb_neq; unfold r0; lia).
      assert (E1 : N.eqb (N.of_nat i) r1 = false) by (apply N.eqb_neq; unfold r1; lia).
      rewrite E0, E1. reflexivity. }
    assert (S0 : sg' r0 = sg r1) by (unfold sg'; rewrite N.eqb_refl; reflexivity).
    assert (S1 : sg' r1 = sg r0).
    { unfold sg'. assert (E : N.eqb r1 r0 = false) by (apply N.eqb_neq; congruence).
      rewrite E, N.eqb_refl. reflexivity. }
    exists (func_sub f n), sg', (CEq r0 r1). split; [left; reflexivity|]. split; [left; reflexivity|].
    split.
    + unfold aged_match, func_sub. cbn [fr_prem]. fold xs r0 r1.
      constructor; [|constructor; [|constructor]]; unfold atom_in; cbn [fa_rel fa_args fa_age tbl];
        rewrite map_app, Hxs; cbn [map]; rewrite ?S0, ?S1.
      * rewrite map_app in I1. exact I1.
      * rewrite map_app in H0. unfold allf in H0. rewrite in_app_iff in *. tauto.
    + right. exists (sg r1), (sg r0). cbn [ground]. rewrite S0, S1. auto.
Qed.

Lemma FamSound_func f n : FamSound [func_rule f n] [func_sub f n].
Proof.
  intros ru' [<-|[]]. exists (func_rule f n). split; [left; reflexivity|]. split; [reflexivity|].
  intros s sg Hm. unfold aged_match, func_sub in Hm. cbn [fr_prem] in Hm.
  inversion Hm as [|? ? H0 Hm']; subst. inversion Hm' as [|? ? H1 _]; subst.
  unfold is_match, func_rule. cbn [fr_prem]. unfold atom_in in *. cbn [fa_rel fa_args fa_age tbl] in *.
  constructor; [|constructor; [|constructor]]; cbn [fa_rel fa_args]; unfold allf; rewrite in_app_iff in *; tauto.
Qed.

(* ---------- families up to the order of premise atoms ---------- *)
Definition covers (em em' : list frule) : Prop :=
  forall ru, In ru em -> exists ru', In ru' em' /\ fr_conc ru' = fr_conc ru /\ incl (fr_prem ru') (fr_prem ru).

Lemma aged_match_incl sg s p p' : incl p' p -> aged_match sg p s -> aged_match sg p' s.
Proof.
  unfold aged_match. rewrite !Forall_forall. intros Hi H a Ha. apply H. apply Hi. exact Ha.
Qed.

Lemma FamOK_cover src em em' : FamOK src em -> covers em em' -> FamOK src em'.
Proof.
  intros H Hc ru Hru s sg Hm Hn c Hcc.
  destruct (H ru Hru s sg Hm Hn c Hcc) as [ru1 [sg' [c' [Hru1 [Hc' [Hag Hs]]]]]].
  destruct (Hc ru1 Hru1) as [ru' [Hru' [Ec Hi]]].
  exists ru', sg', c'. split; [exact Hru'|]. split; [rewrite Ec; exact Hc'|]. split; [|exact Hs].
  eapply aged_match_incl; eauto.
Qed.

Lemma FamSound_cover src em em' : FamSound src em -> covers em' em -> FamSound src em'.
Proof.
  intros H Hc ru' Hru'. destruct (Hc ru' Hru') as [ru1 [Hru1 [Ec Hi]]].
  destruct (H ru1 Hru1) as [ru [Hru [Ec2 Hm]]]. exists ru. split; [exact Hru|]. split; [congruence|].
  intros s sg Hag. apply Hm. eapply aged_match_incl; eauto.
Qed.

Lemma age_eq_dec (a b : age) : {a = b} + {a <> b}.
Proof. decide equality. Defined.
Lemma fatom_eq_dec (a b : fatom) : {a = b} + {a <> b}.
Proof. decide equality; [apply age_eq_dec | apply list_eq_dec, N.eq_dec | apply frel_eq_dec]. Defined.
Lemma fconc_eq_dec (a b : fconc) : {a = b} + {a <> b}.
Proof. decide equality; try apply N.eq_dec; apply list_eq_dec, N.eq_dec. Defined.

Definition incl_b (l1 l2 : list fatom) : bool :=
  forallb (fun a => if in_dec fatom_eq_dec a l2 then true else false) l1.
Definition covers_b (em em' : list frule) : bool :=
  forallb (fun ru =>
             existsb (fun ru' => (if list_eq_dec fconc_eq_dec (fr_conc ru') (fr_conc ru) then true else false)
                                 && incl_b (fr_prem ru') (fr_prem ru)) em') em.

Lemma covers_b_sound em em' : covers_b em em' = true -> covers em em'.
Proof.
  unfold covers_b, covers. rewrite forallb_forall. intros H ru Hru. specialize (H ru Hru).
  apply existsb_exists in H. destruct H as [ru' [Hru' H]]. apply andb_true_iff in H. destruct H as [H1 H2].
  exists ru'. split; [exact Hru'|]. split.
  - destruct (list_eq_dec fconc_eq_dec (fr_conc ru') (fr_conc ru)); [assumption | discriminate].
  - unfold incl_b in H2. rewrite forallb_forall in H2. intros a Ha. specialize (H2 a Ha).
    destruct (in_dec fatom_eq_dec a (fr_prem ru)); [assumption | discriminate].
Qed.
