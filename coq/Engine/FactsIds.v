(* Engine/FactsIds.v -- well-formedness of states: ids are below next_id, rep is the identity above
   next_id, tables have no duplicate rows.  Preserved by every operation; holds in reachable states. *)
From Coq Require Import List Arith NArith Bool Lia.
From Engine Require Import Model FactsBasic FactsInv FactsOps FactsClose.
Import ListNotations.
Local Open Scope N_scope.
Arguments N.add : simpl never.
Arguments N.eqb : simpl never.

Record IdsOK (s : state) : Prop := {
  ids_above : forall x, next_id s <= x -> rep s x = x;
  ids_below : forall x, x < next_id s -> rep s x < next_id s;
  ids_rows : forall x, In x (allf s) -> ids_lt (next_id s) (snd x);
  ids_pend : forall f t, In (f, t) (pending s) -> ids_lt (next_id s) t
}.

Record WF (s : state) : Prop := {
  wf_idem : Idem s;
  wf_ids : IdsOK s;
  wf_nodup : NoDup (allf s)
}.

Lemma nodup_snoc {X} (l : list X) y : NoDup l -> ~ In y l -> NoDup (l ++ [y]).
Proof.
  induction l as [|x l IH]; intros Hn Hy; cbn [app].
  - constructor; [intros []|constructor].
  - inversion Hn as [|? ? Hx Hl]; subst. constructor.
    + rewrite in_app_iff. cbn [In]. intros [H|[H|[]]]; [auto|]. subst. apply Hy. left. reflexivity.
    + apply IH; [exact Hl|]. intros H. apply Hy. right. exact H.
Qed.

Lemma ids_lt_map s t : IdsOK s -> ids_lt (next_id s) t -> ids_lt (next_id s) (map (rep s) t).
Proof.
  intros HI. unfold ids_lt. rewrite !Forall_forall. intros H y Hy. apply in_map_iff in Hy.
  destruct Hy as [x [<- Hx]]. apply (ids_below _ HI). auto.
Qed.

Lemma ids_lt_mono n m t : n <= m -> ids_lt n t -> ids_lt m t.
Proof. intros Hle. unfold ids_lt. apply Forall_impl. intros a Ha. lia. Qed.

Lemma WF_init : WF init.
Proof.
  constructor; [intros x; reflexivity| |constructor].
  constructor; unfold allf; cbn [init rep next_id old new app pending].
  - intros x _. reflexivity.
  - intros x Hx. lia.
  - intros x [].
  - intros f t [].
Qed.

Lemma WF_insert x s : WF s -> ids_lt (next_id s) (snd x) -> WF (insert x s).
Proof.
  intros [Hid HI Hn] Hx. destruct (insert_fields x s) as [F1 [F2 [F3 [F4 F5]]]].
  assert (Hy : forall y, In y (new (insert x s)) -> In y (new s) \/ (y = canon_fact (rep s) x /\ ~ In y (old s)))
    by (intros y; apply insert_new).
  constructor.
  - eapply ext_idem; [apply insert_ext | exact Hid].
  - constructor; rewrite ?F1, ?F4.
    + apply (ids_above _ HI).
    + apply (ids_below _ HI).
    + intros y Hin. unfold allf in Hin. rewrite F2 in Hin. apply in_app_or in Hin.
      destruct Hin as [Hin|Hin]; [apply (ids_rows _ HI); unfold allf; apply in_or_app; auto|].
      destruct (Hy y Hin) as [H|[-> _]]; [apply (ids_rows _ HI); unfold allf; apply in_or_app; auto|].
      cbn [canon_fact snd]. apply ids_lt_map; assumption.
    + rewrite F3. apply (ids_pend _ HI).
  - unfold allf. rewrite F2. unfold insert.
    destruct (mem (canon_fact (rep s) x) (new s) || mem (canon_fact (rep s) x) (old s)) eqn:E; [exact Hn|].
    apply orb_false_iff in E. rewrite !mem_false in E. cbn [new set_new]. rewrite app_assoc.
    apply nodup_snoc; [exact Hn|]. rewrite in_app_iff. tauto.
Qed.

Lemma WF_insert_all l : forall s, WF s -> (forall x, In x l -> ids_lt (next_id s) (snd x)) ->
  WF (insert_all l s).
Proof.
  induction l as [|x l IH]; intros s HW Hl; cbn [insert_all fold_left]; [exact HW|].
  fold (insert_all l (insert x s)). apply IH.
  - apply WF_insert; [exact HW | apply Hl; left; reflexivity].
  - destruct (insert_fields x s) as [_ [_ [_ [F4 _]]]]. rewrite F4. intros y Hy. apply Hl. right. exact Hy.
Qed.

Lemma WF_equate a b s : WF s -> a < next_id s -> b < next_id s -> WF (equate a b s).
Proof.
  intros [Hid HI Hn] Ha Hb. destruct (equate_fields a b s) as [F1 [F2 [F3 [F4 F5]]]].
  constructor.
  - apply equate_idem. exact Hid.
  - constructor; rewrite ?F4.
    + intros x Hx. rewrite equate_rep, (ids_above _ HI x Hx).
      destruct (N.eqb x (rep s b)) eqn:E; [|reflexivity].
      apply N.eqb_eq in E. pose proof (ids_below _ HI b Hb). lia.
    + intros x Hx. rewrite equate_rep. destruct (N.eqb (rep s x) (rep s b));
        [apply (ids_below _ HI a Ha) | apply (ids_below _ HI x Hx)].
    + unfold allf. rewrite F1, F2. apply (ids_rows _ HI).
    + rewrite F3. apply (ids_pend _ HI).
  - unfold allf. rewrite F1, F2. exact Hn.
Qed.

Lemma WF_equate_all l : forall s, WF s ->
  (forall a b, In (a, b) l -> a < next_id s /\ b < next_id s) -> WF (equate_all l s).
Proof.
  induction l as [|[a b] l IH]; intros s HW Hl; cbn [equate_all fold_left fst snd]; [exact HW|].
  fold (equate_all l (equate a b s)). apply IH.
  - destruct (Hl a b (or_introl eq_refl)). apply WF_equate; assumption.
  - destruct (equate_fields a b s) as [_ [_ [_ [F4 _]]]]. rewrite F4. intros a' b' H. apply Hl. right. exact H.
Qed.

Lemma WF_move s : WF s -> WF (move s).
Proof.
  intros [Hid HI Hn]. constructor; [exact Hid| |].
  - constructor; cbn [move rep next_id pending].
    + apply (ids_above _ HI).
    + apply (ids_below _ HI).
    + intros x Hx. apply (proj1 (move_allf s x)) in Hx. apply (ids_rows _ HI). exact Hx.
    + apply (ids_pend _ HI).
  - unfold allf, move. cbn [old new]. rewrite app_nil_r. exact Hn.
Qed.

Lemma WF_canonicalize s : WF s -> WF (canonicalize s).
Proof.
  intros [Hid HI Hn]. unfold canonicalize. apply WF_insert_all.
  - constructor; [exact Hid| |].
    + constructor; cbn [rep next_id pending].
      * apply (ids_above _ HI).
      * apply (ids_below _ HI).
      * intros x Hx. unfold allf in Hx. cbn [old new] in Hx. rewrite <- filter_app in Hx.
        apply filter_In in Hx. apply (ids_rows _ HI). tauto.
      * apply (ids_pend _ HI).
    + unfold allf. cbn [old new]. rewrite <- filter_app. apply NoDup_filter. exact Hn.
  - cbn [next_id]. intros x Hx. apply filter_In in Hx. apply (ids_rows _ HI). tauto.
Qed.

Lemma WF_set_pending s p : WF s -> (forall f t, In (f, t) p -> ids_lt (next_id s) t) -> WF (set_pending s p).
Proof.
  intros [Hid HI Hn] Hp. constructor; [exact Hid| |exact Hn].
  constructor; cbn [set_pending rep next_id pending].
  - apply (ids_above _ HI).
  - apply (ids_below _ HI).
  - apply (ids_rows _ HI).
  - exact Hp.
Qed.

(* ground conclusions only mention existing ids *)
Definition gconc_lt (n : N) (g : gconc) : Prop :=
  match g with
  | GRel _ t => ids_lt n t
  | GEq a b => a < n /\ b < n
  | GDef _ t => ids_lt n t
  end.

Lemma collect_ids rules s g : wf_rules rules -> IdsOK s -> In g (collect rules s) -> gconc_lt (next_id s) g.
Proof.
  intros Hwf HI Hg. destruct (collect_sound _ _ _ Hg) as [ru [sg [c [Hru [Hm [Hc E]]]]]].
  assert (Hv : forall x, In x (conc_vars c) -> sg x < next_id s).
  { intros x Hx. unfold wf_rules in Hwf. rewrite Forall_forall in Hwf.
    specialize (Hwf ru Hru c x Hc Hx). unfold prem_vars in Hwf. apply in_flat_map in Hwf.
    destruct Hwf as [a [Ha Hxa]]. unfold aged_match in Hm. rewrite Forall_forall in Hm.
    specialize (Hm a Ha). unfold atom_in in Hm.
    assert (Hall : In (fa_rel a, map sg (fa_args a)) (allf s)).
    { unfold allf. destruct (fa_age a); cbn [tbl] in Hm; rewrite ?in_app_iff in *; tauto. }
    pose proof (ids_rows _ HI _ Hall) as Hlt. cbn [snd] in Hlt. unfold ids_lt in Hlt.
    rewrite Forall_forall in Hlt. apply Hlt. apply in_map. exact Hxa. }
  subst g. destruct c as [r args|x y|f args]; cbn [ground gconc_lt conc_vars] in *.
  - unfold ids_lt. rewrite Forall_forall. intros v Hin. apply in_map_iff in Hin.
    destruct Hin as [x [<- Hx]]. auto.
  - split; apply Hv; cbn [In]; auto.
  - unfold ids_lt. rewrite Forall_forall. intros v Hin. apply in_map_iff in Hin.
    destruct Hin as [x [<- Hx]]. auto.
Qed.

Lemma WF_iter P s : wf_rules (fp_rules P) -> WF s -> WF (exec_iter P s).
Proof.
  intros Hwf HW. unfold exec_iter. set (D := collect (fp_rules P) s).
  assert (HD : forall g, In g D -> gconc_lt (next_id s) g)
    by (intros g Hg; apply (collect_ids _ _ _ Hwf (wf_ids _ HW) Hg)).
  pose proof (WF_move s HW) as W1.
  assert (W2 : WF (equate_all (geqs D) (move s))).
  { apply WF_equate_all; [exact W1|]. intros a b Hin. apply in_geqs in Hin. apply (HD _ Hin). }
  destruct (equate_all_fields (geqs D) (move s)) as [_ [_ [_ [N2 _]]]].
  set (s2 := equate_all (geqs D) (move s)) in *.
  pose proof (WF_canonicalize s2 W2) as W3.
  destruct (canonicalize_fields s2) as [_ [_ [N3 _]]]. set (s3 := canonicalize s2) in *.
  assert (W4 : WF (insert_all (grels D) s3)).
  { apply WF_insert_all; [exact W3|]. intros x Hx. destruct (in_grels_inv _ _ Hx) as [r [t [-> Hg]]].
    cbn [snd]. rewrite N3, N2. cbn [move next_id]. apply (HD _ Hg). }
  destruct (insert_all_fields (grels D) s3) as [_ [_ [_ [N4 _]]]]. set (s4 := insert_all (grels D) s3) in *.
  apply WF_set_pending; [exact W4|]. intros f t Hin. apply in_app_or in Hin. destruct Hin as [Hin|Hin].
  - exact (ids_pend _ (wf_ids _ W4) f t Hin).
  - apply in_gdefs in Hin. rewrite N4, N3, N2. cbn [move next_id]. apply (HD _ Hin).
Qed.

Lemma exec_iter_next_id P s : next_id (exec_iter P s) = next_id s.
Proof.
  unfold exec_iter. set (D := collect (fp_rules P) s).
  destruct (equate_all_fields (geqs D) (move s)) as [_ [_ [_ [N2 _]]]].
  destruct (canonicalize_fields (equate_all (geqs D) (move s))) as [_ [_ [N3 _]]].
  destruct (insert_all_fields (grels D) (canonicalize (equate_all (geqs D) (move s)))) as [_ [_ [_ [N4 _]]]].
  cbn [set_pending next_id]. rewrite N4, N3, N2. reflexivity.
Qed.

(* fresh element *)
Lemma fresh_not_in s y : IdsOK s -> In y (allf s) -> ~ In (next_id s) (snd y).
Proof.
  intros HI Hy Hin. pose proof (ids_rows _ HI _ Hy) as H. unfold ids_lt in H.
  rewrite Forall_forall in H. specialize (H _ Hin). lia.
Qed.

Lemma WF_add_el s (r : frel) (lg : list (N * N * row)) :
  WF s ->
  WF {| rep := rep s; old := old s; new := new s ++ [(r, [next_id s])]; pending := pending s;
        next_id := next_id s + 1; log := lg |}.
Proof.
  intros [Hid HI Hn]. constructor; [exact Hid| |].
  - constructor; cbn [rep next_id pending].
    + intros x Hx. apply (ids_above _ HI). lia.
    + intros x Hx. destruct (N.lt_ge_cases x (next_id s)) as [H|H].
      * pose proof (ids_below _ HI x H). lia.
      * rewrite (ids_above _ HI x H). exact Hx.
    + intros y Hy. unfold allf in Hy. cbn [old new] in Hy. rewrite app_assoc in Hy.
      apply in_app_or in Hy. destruct Hy as [Hy|[<-|[]]].
      * eapply ids_lt_mono; [|apply (ids_rows _ HI); exact Hy]. lia.
      * cbn [snd]. constructor; [lia|constructor].
    + intros f t Hp. eapply ids_lt_mono; [|apply (ids_pend _ HI _ _ Hp)]. lia.
  - unfold allf. cbn [old new]. rewrite app_assoc. apply nodup_snoc; [exact Hn|].
    intros Hin. apply (fresh_not_in s _ HI Hin). left. reflexivity.
Qed.

Lemma WF_new_el ty s : WF s -> WF (fst (new_el ty s)).
Proof. intros HW. unfold new_el. cbn [fst]. apply WF_add_el. exact HW. Qed.

Lemma WF_with_fresh P f a s : WF s -> WF (with_fresh P f a s).
Proof. intros HW. unfold with_fresh. apply WF_add_el. exact HW. Qed.

Lemma WF_define P f t s : WF s -> ids_lt (next_id s) t -> WF (fst (define P f t s)).
Proof.
  intros HW Ht. destruct (define_cases P f t s) as [[v [_ E]]|[_ E]]; rewrite E; cbn [fst]; [exact HW|].
  apply WF_insert; [apply WF_with_fresh; exact HW|]. cbn [snd with_fresh next_id].
  unfold ids_lt. apply Forall_app. split.
  - eapply ids_lt_mono; [|apply ids_lt_map; [apply (wf_ids _ HW) | exact Ht]]. lia.
  - constructor; [lia|constructor].
Qed.

Lemma define_next_id_le P f t s : next_id s <= next_id (fst (define P f t s)).
Proof.
  destruct (define_cases P f t s) as [[v [_ E]]|[_ E]]; rewrite E; cbn [fst]; [lia|].
  match goal with |- context [insert ?x ?s0] => destruct (insert_fields x s0) as [_ [_ [_ [F4 _]]]] end.
  rewrite F4. cbn [with_fresh next_id]. lia.
Qed.

Lemma WF_defs_fold P l : forall s, WF s -> (forall f t, In (f, t) l -> ids_lt (next_id s) t) ->
  WF (defs_fold P l s).
Proof.
  induction l as [|[f t] l IH]; intros s HW Hl; cbn [defs_fold fold_left fst snd]; [exact HW|].
  fold (defs_fold P l (fst (define P f t s))). apply IH.
  - apply WF_define; [exact HW | apply (Hl f t); left; reflexivity].
  - intros f' t' Hin. eapply ids_lt_mono; [apply define_next_id_le|]. apply (Hl f' t'). right. exact Hin.
Qed.

Lemma WF_apply_defs P s : WF s -> WF (apply_defs P s).
Proof.
  intros HW. unfold apply_defs. fold (defs_fold P (pending s) (set_pending s [])). apply WF_defs_fold.
  - apply WF_set_pending; [exact HW|]. intros f t [].
  - cbn [set_pending next_id]. apply (ids_pend _ (wf_ids _ HW)).
Qed.

Lemma WF_loop P cond fuel : wf_rules (fp_rules P) -> forall s r b,
  WF s -> exec_loop fuel P cond s = Some (r, b) -> WF r.
Proof.
  intros Hwf. induction fuel as [|k IH]; intros s r b HW H; cbn [exec_loop] in H; [discriminate|].
  pose proof (WF_iter P s Hwf HW) as W1. pose proof (WF_apply_defs P _ W1) as W2.
  destruct (cond (exec_iter P s)).
  - inversion H; subst. exact W2.
  - destruct (is_dirty (exec_iter P s)); [exact (IH _ _ _ W1 H)|].
    destruct (is_dirty (apply_defs P (exec_iter P s))); [exact (IH _ _ _ W2 H)|].
    inversion H; subst. exact W2.
Qed.

Lemma WF_close_until P cond fuel s r b : wf_rules (fp_rules P) ->
  WF s -> exec_close_until fuel P cond s = Some (r, b) -> WF r.
Proof.
  intros Hwf HW H. unfold exec_close_until in H. pose proof (WF_canonicalize s HW) as W0.
  destruct (cond (canonicalize s)); [inversion H; subst; exact W0|].
  eapply WF_loop; [exact Hwf| |exact H]. apply WF_set_pending; [exact W0|]. intros f t [].
Qed.

Theorem Reach_WF P A s : wf_rules (fp_rules P) -> Reach P A s -> WF s.
Proof.
  intros Hwf. induction 1.
  - apply WF_init.
  - apply WF_new_el. assumption.
  - apply WF_insert; assumption.
  - apply WF_define; assumption.
  - apply WF_equate; assumption.
  - eapply WF_close_until; eauto.
Qed.

(* canonical states stay canonical under define_ (needs freshness, hence WF) *)
Lemma Canon_ext_row s s' : ext s s' ->
  (forall y, In y (new s') -> In y (new s) \/ is_canon (rep s) (snd y)) -> Canon s -> Canon s'.
Proof.
  intros E Hn [Hid HC]. split; [eapply ext_idem; eauto|].
  intros y Hy. rewrite (ext_rep _ _ E). unfold allf in Hy. rewrite (ext_old _ _ E) in Hy.
  apply in_app_or in Hy. destruct Hy as [Hy|Hy].
  - apply HC. unfold allf. apply in_or_app. auto.
  - destruct (Hn y Hy) as [H|H]; [|exact H]. apply HC. unfold allf. apply in_or_app. auto.
Qed.

Lemma Canon_define P f t s : WF s -> Canon s -> Canon (fst (define P f t s)).
Proof.
  intros HW HC. destruct (define_cases P f t s) as [[v [_ E]]|[_ E]]; rewrite E; cbn [fst]; [exact HC|].
  set (s1 := with_fresh P f (map (rep s) t) s).
  assert (Efresh : rep s (next_id s) = next_id s) by (apply (ids_above _ (wf_ids _ HW)); lia).
  assert (HC1 : Canon s1).
  { apply (Canon_ext_row s s1 (with_fresh_ext _ _ _ _)); [|exact HC].
    intros y Hy. unfold s1 in Hy. cbn [with_fresh new] in Hy. apply in_app_or in Hy.
    destruct Hy as [Hy|[<-|[]]]; [left; exact Hy|]. right. cbn [snd]. unfold is_canon. cbn [map].
    rewrite Efresh. reflexivity. }
  apply (Canon_ext_row s1 _ (insert_ext _ _)); [|exact HC1].
  intros y Hy. apply insert_new in Hy. destruct Hy as [Hy|[-> _]]; [left; exact Hy|]. right.
  cbn [canon_fact snd]. apply canon_canon. apply (proj1 HC1).
Qed.

(* next_id never decreases *)
Lemma defs_fold_next_id_le P l : forall s, next_id s <= next_id (defs_fold P l s).
Proof.
  induction l as [|[f t] l IH]; intros s; cbn [defs_fold fold_left fst snd]; [lia|].
  fold (defs_fold P l (fst (define P f t s))).
  pose proof (define_next_id_le P f t s). pose proof (IH (fst (define P f t s))). lia.
Qed.

Lemma apply_defs_next_id_le P s : next_id s <= next_id (apply_defs P s).
Proof. unfold apply_defs. apply (defs_fold_next_id_le P (pending s) (set_pending s [])). Qed.

Lemma loop_next_id_le P cond fuel : forall s r b,
  exec_loop fuel P cond s = Some (r, b) -> next_id s <= next_id r.
Proof.
  induction fuel as [|k IH]; intros s r b H; cbn [exec_loop] in H; [discriminate|].
  pose proof (exec_iter_next_id P s) as E1. pose proof (apply_defs_next_id_le P (exec_iter P s)) as E2.
  destruct (cond (exec_iter P s)).
  - inversion H; subst. lia.
  - destruct (is_dirty (exec_iter P s)); [specialize (IH _ _ _ H); lia|].
    destruct (is_dirty (apply_defs P (exec_iter P s))); [specialize (IH _ _ _ H); lia|].
    inversion H; subst. lia.
Qed.

Lemma close_until_next_id_le P cond fuel s r b :
  exec_close_until fuel P cond s = Some (r, b) -> next_id s <= next_id r.
Proof.
  intros H. unfold exec_close_until in H. destruct (canonicalize_fields s) as [_ [_ [Fn _]]].
  destruct (cond (canonicalize s)); [inversion H; subst; lia|].
  apply loop_next_id_le in H. cbn [set_pending next_id] in H. lia.
Qed.

(* canonicity is kept through the sequence of define_ calls made by apply_func_defs *)
Lemma Canon_defs_fold P l : forall s, WF s -> Canon s ->
  (forall f t, In (f, t) l -> ids_lt (next_id s) t) -> Canon (defs_fold P l s).
Proof.
  induction l as [|[f t] l IH]; intros s HW HC Hl; cbn [defs_fold fold_left fst snd]; [exact HC|].
  fold (defs_fold P l (fst (define P f t s))). apply IH.
  - apply WF_define; [exact HW | apply (Hl f t); left; reflexivity].
  - apply Canon_define; assumption.
  - intros f' t' Hin. eapply ids_lt_mono; [apply define_next_id_le|]. apply (Hl f' t'). right. exact Hin.
Qed.

Lemma Canon_apply_defs P s : WF s -> Canon s -> Canon (apply_defs P s).
Proof.
  intros HW HC. unfold apply_defs. fold (defs_fold P (pending s) (set_pending s [])).
  apply Canon_defs_fold.
  - apply WF_set_pending; [exact HW|]. intros f t [].
  - exact HC.
  - cbn [set_pending next_id]. apply (ids_pend _ (wf_ids _ HW)).
Qed.
