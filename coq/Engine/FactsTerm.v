(* Engine/FactsTerm.v -- C06: without CDef conclusions close_until terminates within an explicit
   number of iterations and allocates no ids.
   Measure (lexicographic, packed into one number): number of classes, then number of possible root
   rows that are not yet in old. *)
From Coq Require Import List Arith NArith Bool Lia.
From Engine Require Import Model FactsBasic FactsInv FactsOps FactsClose FactsIds.
Import ListNotations.
Local Open Scope N_scope.
Arguments N.add : simpl never.
Arguments N.eqb : simpl never.

(* ---------- definitions ---------- *)
Definition ids (n : N) : list N := map N.of_nat (seq 0 (N.to_nat n)).
Definition is_root (s : state) (x : N) : bool := N.eqb (rep s x) x.
Definition roots (s : state) : list N := filter (is_root s) (ids (next_id s)).
Definition nclasses (s : state) : nat := length (roots s).

Fixpoint rows_over (R : list N) (n : nat) : list row :=
  match n with
  | O => [[]]
  | S k => flat_map (fun x => map (cons x) (rows_over R k)) R
  end.

Definition sig := (frel * nat)%type.
Lemma sig_eq_dec (a b : sig) : {a = b} + {a <> b}.
Proof. decide equality; [apply Nat.eq_dec | apply frel_eq_dec]. Defined.

Definition universe (G : list sig) (R : list N) : list fact :=
  flat_map (fun g => map (pair (fst g)) (rows_over R (snd g))) G.
Fixpoint usize (G : list sig) (c : nat) : nat :=
  match G with
  | [] => 0
  | g :: G' => c ^ snd g + usize G' c
  end%nat.

Definition fact_sig (x : fact) : sig := (fst x, length (snd x)).
Definition conc_sigs (c : fconc) : list sig :=
  match c with CRel r args => [(FRel r, length args)] | _ => [] end.
Definition rule_sigs (rules : list frule) : list sig :=
  flat_map (fun ru => flat_map conc_sigs (fr_conc ru)) rules.
(* relations (with the row lengths) that occur in the state or in a conclusion *)
Definition sigs (P : fprogram) (s : state) : list sig :=
  nodup sig_eq_dec (map fact_sig (allf s) ++ rule_sigs (fp_rules P)).

(* the fuel bound: c classes, U = sum over relations of c^arity *)
Definition iter_bound (P : fprogram) (s : state) : nat :=
  let c := nclasses s in
  let U := usize (sigs P s) c in
  (c * (U + 2) + U + 2)%nat.

Definition no_defs (P : fprogram) : Prop :=
  forall ru c, In ru (fp_rules P) -> In c (fr_conc ru) -> forall f a, c <> CDef f a.
Definition no_defs_b (P : fprogram) : bool :=
  forallb (fun ru => forallb (fun c => match c with CDef _ _ => false | _ => true end) (fr_conc ru))
          (fp_rules P).
Lemma no_defs_b_sound P : no_defs_b P = true -> no_defs P.
Proof.
  unfold no_defs_b, no_defs. rewrite forallb_forall. intros H ru c Hru Hc f a E.
  specialize (H ru Hru). rewrite forallb_forall in H. specialize (H c Hc). subst c. discriminate.
Qed.

(* ---------- counting ---------- *)
Lemma in_ids n x : In x (ids n) <-> x < n.
Proof.
  unfold ids. rewrite in_map_iff. split.
  - intros [i [<- Hi]]. apply in_seq in Hi. lia.
  - intros H. exists (N.to_nat x). split; [apply Nnat.N2Nat.id|]. apply in_seq. lia.
Qed.

Lemma in_roots s x : In x (roots s) <-> x < next_id s /\ rep s x = x.
Proof. unfold roots, is_root. rewrite filter_In, in_ids, N.eqb_eq. tauto. Qed.

Lemma in_rows_over R t : Forall (fun x => In x R) t -> In t (rows_over R (length t)).
Proof.
  induction t as [|x t IH]; intros H; cbn [length rows_over]; [left; reflexivity|].
  inversion H as [|? ? Hx Ht]; subst. apply in_flat_map. exists x. split; [exact Hx|].
  apply in_map. apply IH. exact Ht.
Qed.

Lemma flat_map_cons_length (R : list N) (L : list row) :
  length (flat_map (fun x => map (cons x) L) R) = (length R * length L)%nat.
Proof.
  induction R as [|x R IH]; cbn [flat_map length]; [reflexivity|].
  rewrite app_length, map_length, IH. reflexivity.
Qed.

Lemma rows_over_length R n : length (rows_over R n) = (length R ^ n)%nat.
Proof.
  induction n as [|k IH]; cbn [rows_over Nat.pow]; [reflexivity|].
  rewrite flat_map_cons_length, IH. reflexivity.
Qed.

Lemma universe_length G R : length (universe G R) = usize G (length R).
Proof.
  induction G as [|g G IH]; cbn [universe flat_map usize]; [reflexivity|].
  rewrite app_length, map_length. f_equal; [apply rows_over_length | exact IH].
Qed.

Lemma usize_mono G c c' : (c <= c')%nat -> (usize G c <= usize G c')%nat.
Proof.
  intros H. induction G as [|g G IH]; cbn [usize]; [lia|].
  pose proof (Nat.pow_le_mono_l c c' (snd g) H). lia.
Qed.

Lemma in_universe G R x :
  In (fact_sig x) G -> Forall (fun v => In v R) (snd x) -> In x (universe G R).
Proof.
  intros HG HR. unfold universe. apply in_flat_map. exists (fact_sig x). split; [exact HG|].
  unfold fact_sig. cbn [fst snd]. destruct x as [r t]. cbn [fst snd] in *.
  apply in_map. apply in_rows_over. exact HR.
Qed.

Lemma filter_length_le {X} (p q : X -> bool) l :
  (forall x, q x = true -> p x = true) -> (length (filter q l) <= length (filter p l))%nat.
Proof.
  intros H. induction l as [|x l IH]; cbn [filter]; [lia|].
  destruct (q x) eqn:Eq; [rewrite (H x Eq); cbn [length]; lia|].
  destruct (p x); cbn [length]; lia.
Qed.

Lemma filter_length_eq {X} (p q : X -> bool) l :
  (forall x, q x = true -> p x = true) -> length (filter q l) = length (filter p l) ->
  forall x, In x l -> p x = true -> q x = true.
Proof.
  intros H. induction l as [|y l IH]; cbn [filter]; intros E x Hx Hp; [destruct Hx|].
  pose proof (filter_length_le p q l H) as Hle.
  destruct (q y) eqn:Eq.
  - rewrite (H y Eq) in E. cbn [length] in E. destruct Hx as [->|Hx]; [exact Eq|].
    apply IH; auto.
  - destruct (p y) eqn:Ep; cbn [length] in E; [lia|].
    destruct Hx as [->|Hx]; [congruence|]. apply IH; auto.
Qed.

Lemma nodup_app_l {X} (a b : list X) : NoDup (a ++ b) -> NoDup a.
Proof.
  induction a as [|x a IH]; cbn [app]; intros H; [constructor|].
  inversion H as [|? ? Hx Hl]; subst. constructor; [|apply IH; exact Hl].
  intros Hin. apply Hx. apply in_or_app. left. exact Hin.
Qed.

(* ---------- the loop invariant ---------- *)
Section Term.
  Variable P : fprogram.
  Hypothesis Hwf : wf_rules (fp_rules P).
  Hypothesis Hnd : no_defs P.

  Lemma iter_pending_nil s : Idem s -> pending s = [] -> pending (exec_iter P s) = [].
  Proof.
    intros Hid Hp. pose proof (exec_iter_astep P s Hwf Hid) as St.
    destruct (pending (exec_iter P s)) as [|[f t] l] eqn:E; [reflexivity|]. exfalso.
    assert (Hin : In (f, t) (pending (exec_iter P s))) by (rewrite E; left; reflexivity).
    apply (pend_spec _ _ _ _ St) in Hin. rewrite Hp in Hin. destruct Hin as [[]|Hin].
    destruct (D_sound _ _ _ _ St _ Hin) as [ru [sg [c [Hru [_ [Hc Eg]]]]]].
    destruct c as [r args|x y|f' args]; cbn [ground] in Eg; try discriminate.
    apply (Hnd ru _ Hru Hc f' args). reflexivity.
  Qed.

  Lemma apply_defs_nil s : pending s = [] -> apply_defs P s = set_pending s [].
  Proof. intros Hp. unfold apply_defs. rewrite Hp. reflexivity. Qed.

  Lemma nclasses_step s : Idem s -> (nclasses (exec_iter P s) <= nclasses s)%nat.
  Proof.
    intros Hid. pose proof (exec_iter_astep P s Hwf Hid) as St.
    unfold nclasses, roots. rewrite exec_iter_next_id. apply filter_length_le.
    unfold is_root. intros x Hx. apply N.eqb_eq in Hx. apply N.eqb_eq.
    apply (rep_root _ _ _ _ St). exact Hx.
  Qed.

  Variables (G : list sig) (n0 : N) (c0 : nat).
  Hypothesis HG : incl (rule_sigs (fp_rules P)) G.

  Record J (s : state) : Prop := {
    j_wf : WF s;
    j_canon : Canon s;
    j_id : next_id s = n0;
    j_pend : pending s = [];
    j_sig : forall x, In x (allf s) -> In (fact_sig x) G;
    j_c : (nclasses s <= c0)%nat
  }.

  Lemma J_iter s : J s -> J (exec_iter P s).
  Proof.
    intros [HW HC Hn Hp Hs Hc]. pose proof (exec_iter_astep P s Hwf (wf_idem _ HW)) as St.
    constructor.
    - apply WF_iter; assumption.
    - eapply Canon_step; eauto.
    - rewrite exec_iter_next_id. exact Hn.
    - apply iter_pending_nil; [apply (wf_idem _ HW) | exact Hp].
    - intros x Hx. unfold allf in Hx. apply in_app_or in Hx. destruct Hx as [Hx|Hx].
      + apply (old_spec _ _ _ _ St) in Hx. apply Hs. tauto.
      + apply (new_spec _ _ _ _ St) in Hx. destruct Hx as [_ [[x0 [Hx0 [_ E]]]|[r [t [Hg E]]]]]; subst x.
        * specialize (Hs _ Hx0). unfold fact_sig in *. cbn [canon_fact fst snd]. rewrite map_length. exact Hs.
        * destruct (D_sound _ _ _ _ St _ Hg) as [ru [sg [c [Hru [_ [Hcc Eg]]]]]].
          destruct c as [r' args|x y|f' args]; cbn [ground] in Eg; try discriminate.
          inversion Eg; subst r' t. apply HG. unfold rule_sigs. apply in_flat_map. exists ru.
          split; [exact Hru|]. apply in_flat_map. exists (CRel r args). split; [exact Hcc|].
          unfold fact_sig, canon. cbn [conc_sigs fst snd]. rewrite !map_length. left. reflexivity.
    - pose proof (nclasses_step s (wf_idem _ HW)). lia.
  Qed.

  Lemma old_bound s : J s -> (length (old s) <= usize G (nclasses s))%nat.
  Proof.
    intros [HW HC Hn Hp Hs Hc]. unfold nclasses. rewrite <- universe_length.
    apply NoDup_incl_length.
    - pose proof (wf_nodup _ HW) as Hnd'. unfold allf in Hnd'. apply nodup_app_l in Hnd'. exact Hnd'.
    - intros x Hx. assert (Hall : In x (allf s)) by (unfold allf; apply in_or_app; auto).
      apply in_universe; [apply Hs; exact Hall|].
      pose proof (ids_rows _ (wf_ids _ HW) _ Hall) as Hlt.
      pose proof (proj2 HC _ Hall) as Hcan. apply is_canon_Forall in Hcan.
      unfold ids_lt in Hlt. rewrite Forall_forall in *. intros v Hv. apply in_roots. auto.
  Qed.

  Definition U0 : nat := usize G c0.
  Definition Phi (s : state) : nat := (nclasses s * (U0 + 2) + (U0 - length (old s)))%nat.

  Lemma Phi_decreases s : J s -> new s <> [] -> (Phi (exec_iter P s) < Phi s)%nat.
  Proof.
    intros HJ Hne. pose proof (J_iter s HJ) as HJ1.
    pose proof (old_bound s HJ) as B. pose proof (old_bound _ HJ1) as B1.
    pose proof (usize_mono G _ _ (j_c _ HJ)) as M. pose proof (usize_mono G _ _ (j_c _ HJ1)) as M1.
    fold U0 in M, M1.
    destruct HJ as [HW HC Hn Hp Hs Hc].
    pose proof (exec_iter_astep P s Hwf (wf_idem _ HW)) as St.
    pose proof (nclasses_step s (wf_idem _ HW)) as Hle.
    set (s1 := exec_iter P s) in *. unfold Phi.
    destruct (Nat.eq_dec (nclasses s1) (nclasses s)) as [Ec|Ec].
    - (* nothing merged: old grows by new *)
      assert (Hroot : forall x, x < next_id s -> rep s x = x -> rep s1 x = x).
      { intros x Hx Hr. unfold nclasses, roots in Ec. unfold s1 in Ec. rewrite exec_iter_next_id in Ec.
        fold s1 in Ec.
        assert (Hq : is_root s1 x = true).
        { apply (filter_length_eq (is_root s) (is_root s1) (ids (next_id s))).
          - unfold is_root. intros y Hy. apply N.eqb_eq in Hy. apply N.eqb_eq.
            apply (rep_root _ _ _ _ St). exact Hy.
          - exact Ec.
          - apply in_ids. exact Hx.
          - unfold is_root. apply N.eqb_eq. exact Hr. }
        unfold is_root in Hq. apply N.eqb_eq in Hq. exact Hq. }
      assert (Hincl : incl (allf s) (old s1)).
      { intros x Hx. apply (old_spec _ _ _ _ St). split; [exact Hx|].
        apply is_canon_Forall. pose proof (proj2 HC _ Hx) as Hcan. apply is_canon_Forall in Hcan.
        pose proof (ids_rows _ (wf_ids _ HW) _ Hx) as Hlt. unfold ids_lt in Hlt.
        rewrite Forall_forall in *. intros v Hv. apply Hroot; auto. }
      pose proof (NoDup_incl_length (wf_nodup _ HW) Hincl) as Hlen.
      unfold allf in Hlen. rewrite app_length in Hlen.
      assert (Hn1 : (1 <= length (new s))%nat) by (destruct (new s); [congruence | cbn [length]; lia]).
      rewrite Ec. lia.
    - (* a merge *)
      assert (Hlt : (S (nclasses s1) <= nclasses s)%nat) by lia.
      pose proof (Nat.mul_le_mono_r _ _ (U0 + 2)%nat Hlt) as Hm. rewrite Nat.mul_succ_l in Hm. lia.
  Qed.

  Lemma loop_terminates cond : forall m s,
    J s -> new s <> [] -> (Phi s <= m)%nat -> exec_loop (S m) P cond s <> None.
  Proof.
    induction m as [|m IH]; intros s HJ Hne Hphi.
    - cbn [exec_loop]. pose proof (Phi_decreases s HJ Hne) as Hd.
      destruct (cond (exec_iter P s)); [discriminate|].
      destruct (is_dirty (exec_iter P s)) eqn:Ed; [lia|].
      rewrite (apply_defs_nil _ (j_pend _ (J_iter s HJ))).
      change (is_dirty (set_pending (exec_iter P s) [])) with (is_dirty (exec_iter P s)).
      rewrite Ed. discriminate.
    - remember (S m) as k. cbn [exec_loop]. pose proof (Phi_decreases s HJ Hne) as Hd.
      pose proof (J_iter s HJ) as HJ1.
      destruct (cond (exec_iter P s)); [discriminate|].
      destruct (is_dirty (exec_iter P s)) eqn:Ed.
      + subst k. apply IH; [exact HJ1 | | lia].
        unfold is_dirty in Ed. destruct (new (exec_iter P s)); [discriminate | discriminate].
      + rewrite (apply_defs_nil _ (j_pend _ HJ1)).
        change (is_dirty (set_pending (exec_iter P s) [])) with (is_dirty (exec_iter P s)).
        rewrite Ed. discriminate.
  Qed.

  Lemma loop_terminates_first cond s :
    J s -> exec_loop (S (S (c0 * (U0 + 2) + U0))) P cond s <> None.
  Proof.
    intros HJ. remember (S (c0 * (U0 + 2) + U0)) as k. cbn [exec_loop].
    pose proof (J_iter s HJ) as HJ1.
    destruct (cond (exec_iter P s)); [discriminate|].
    destruct (is_dirty (exec_iter P s)) eqn:Ed.
    - subst k. apply loop_terminates; [exact HJ1| |].
      + unfold is_dirty in Ed. destruct (new (exec_iter P s)); discriminate.
      + unfold Phi. pose proof (j_c _ HJ1) as Hc.
        pose proof (Nat.mul_le_mono_r _ _ (U0 + 2)%nat Hc). lia.
    - rewrite (apply_defs_nil _ (j_pend _ HJ1)).
      change (is_dirty (set_pending (exec_iter P s) [])) with (is_dirty (exec_iter P s)).
      rewrite Ed. discriminate.
  Qed.
End Term.

Lemma canonicalize_sig s x : In x (allf (canonicalize s)) -> exists x0, In x0 (allf s) /\ fact_sig x = fact_sig x0.
Proof.
  intros Hx. unfold allf in Hx. apply in_app_or in Hx. destruct Hx as [Hx|Hx].
  - apply canonicalize_old in Hx. exists x. split; [unfold allf; apply in_or_app; tauto | reflexivity].
  - apply canonicalize_new in Hx. destruct Hx as [[Hx _]|[x0 [Hx0 [_ [E _]]]]].
    + exists x. split; [unfold allf; apply in_or_app; tauto | reflexivity].
    + exists x0. split; [exact Hx0|]. subst x. unfold fact_sig. cbn [canon_fact fst snd].
      rewrite map_length. reflexivity.
Qed.

(* C06 *)
Theorem close_terminates P cond s :
  wf_rules (fp_rules P) -> no_defs P -> WF s ->
  exec_close_until (iter_bound P s) P cond s <> None.
Proof.
  intros Hwf Hnd HW. unfold exec_close_until.
  destruct (cond (canonicalize s)); [discriminate|].
  set (t0 := set_pending (canonicalize s) []).
  destruct (canonicalize_fields s) as [Fr [_ [Fn _]]].
  assert (Ec : nclasses t0 = nclasses s).
  { unfold nclasses, roots, is_root, t0. cbn [set_pending next_id rep]. rewrite Fr, Fn. reflexivity. }
  assert (HG : incl (rule_sigs (fp_rules P)) (sigs P s)).
  { intros g Hg. unfold sigs. apply nodup_In. apply in_or_app. right. exact Hg. }
  assert (HJ : J (sigs P s) (next_id s) (nclasses s) t0).
  { constructor.
    - unfold t0. apply WF_set_pending; [apply WF_canonicalize; exact HW|]. intros f t [].
    - pose proof (canonicalize_Canon s (wf_idem _ HW)) as HC. exact HC.
    - unfold t0. cbn [set_pending next_id]. exact Fn.
    - reflexivity.
    - intros x Hx. destruct (canonicalize_sig s x Hx) as [x0 [Hx0 E]]. rewrite E.
      unfold sigs. apply nodup_In. apply in_or_app. left. apply in_map. exact Hx0.
    - lia. }
  unfold iter_bound.
  replace (nclasses s * (usize (sigs P s) (nclasses s) + 2) + usize (sigs P s) (nclasses s) + 2)%nat
    with (S (S (nclasses s * (U0 (sigs P s) (nclasses s) + 2) + U0 (sigs P s) (nclasses s))))
    by (unfold U0; lia).
  apply (loop_terminates_first P Hwf Hnd (sigs P s) (next_id s) (nclasses s) HG cond t0 HJ).
Qed.

(* no ids are allocated and the number of classes does not grow *)
Lemma loop_no_new_ids P cond fuel : wf_rules (fp_rules P) -> no_defs P -> forall s r b,
  Idem s -> pending s = [] -> exec_loop fuel P cond s = Some (r, b) ->
  next_id r = next_id s /\ (nclasses r <= nclasses s)%nat.
Proof.
  intros Hwf Hnd. induction fuel as [|k IH]; intros s r b Hid Hp H; cbn [exec_loop] in H; [discriminate|].
  pose proof (iter_pending_nil P Hwf Hnd s Hid Hp) as Hp1.
  pose proof (nclasses_step P Hwf s Hid) as Hc1.
  pose proof (exec_iter_next_id P s) as Hn1.
  pose proof (exec_iter_astep P s Hwf Hid) as St. pose proof (rep_idem _ _ _ _ St) as Hid1.
  rewrite (apply_defs_nil P _ Hp1) in H.
  assert (Es : set_pending (exec_iter P s) [] = exec_iter P s).
  { destruct (exec_iter P s) as [a1 a2 a3 a4 a5 a6]. cbn [pending] in Hp1. subst a4. reflexivity. }
  rewrite Es in H.
  destruct (cond (exec_iter P s)).
  - inversion H; subst. split; [exact Hn1 | exact Hc1].
  - destruct (is_dirty (exec_iter P s)).
    + destruct (IH _ _ _ Hid1 Hp1 H) as [A B]. split; [congruence | lia].
    + inversion H; subst. split; [exact Hn1 | exact Hc1].
Qed.

Theorem no_new_ids P cond fuel s r b :
  wf_rules (fp_rules P) -> no_defs P -> Idem s ->
  exec_close_until fuel P cond s = Some (r, b) ->
  next_id r = next_id s /\ (nclasses r <= nclasses s)%nat.
Proof.
  intros Hwf Hnd Hid H. unfold exec_close_until in H.
  destruct (canonicalize_fields s) as [Fr [_ [Fn _]]].
  assert (Ec : nclasses (canonicalize s) = nclasses s).
  { unfold nclasses, roots, is_root. rewrite Fr, Fn. reflexivity. }
  destruct (cond (canonicalize s)).
  - inversion H; subst. split; [exact Fn | lia].
  - assert (Hid0 : Idem (set_pending (canonicalize s) [])).
    { intros x. cbn [set_pending rep]. rewrite Fr. apply Hid. }
    destruct (loop_no_new_ids P cond fuel Hwf Hnd _ r b Hid0 eq_refl H) as [A B].
    cbn [set_pending next_id] in A. split; [congruence|].
    assert (E2 : nclasses (set_pending (canonicalize s) []) = nclasses (canonicalize s)) by reflexivity.
    lia.
Qed.

Corollary close_terminates_reachable P A cond s :
  wf_rules (fp_rules P) -> no_defs P -> Reach P A s ->
  exec_close_until (iter_bound P s) P cond s <> None.
Proof. intros Hwf Hnd HR. apply close_terminates; [exact Hwf | exact Hnd | eapply Reach_WF; eauto]. Qed.
