(* Engine/RunW.v -- Run.v for the weighted model: API histories over handles, per-iteration traces with the old/new
   split and the weights, tie-break advice.  Definitions only.  Outputs are built from N, bool, list, option, pairs.

   Encoding of outputs (relation codes as in Run.v: (false, r) relation r, (true, t) type set of t):
     wsnap     = ((old rows, new rows), (classes, weights), (ties, pending))
                   old/new rows : list (code * row)         rows as stored (over roots at every point recorded here)
                   classes      : list (id, root)           for all ids created so far
                   weights      : list (id, weight)         for all ids created so far
                   ties         : number of unions of the iteration that ended in this state whose two roots had equal
                                  weights (0 for the state after the initial canonicalize and for final states)
                   pending      : length of the pending definition list
     close_outW = None (out of fuel) | Some (evals, final, result)    as in Run.v
   Advice: one entry per close/close_until call of the history, each a list with one preference list per iteration:
   in iteration k a union of two roots of equal weight keeps the root that is in the k-th preference list (the first
   argument's root if both or none are).  Missing entries mean "no preference" (= the generated code's own rule). *)
From Coq Require Import List NArith Bool.
From Engine Require Import Model FactsTerm Run ModelW.
Import ListNotations.
Local Open Scope N_scope.

(* Conditions as the generated driver (lib/gendrv.py) evaluates them: `p(h..)` on a FUNCTION is "f(args) evaluates to an
   element equal to the last handle" (the generated f(..) looks into the new rows first, then into the old ones), on a
   predicate it is row membership as in Run.eval_cond. *)
Definition is_func (P : fprogram) (r : N) : bool :=
  existsb (fun x : N * N * bool => N.eqb (fst (fst x)) r && snd x) (fp_arity P).

Fixpoint eval_condW (P : fprogram) (hd : list N) (c : econd) (s : state) : bool :=
  match c with
  | ECFalse => false
  | ECPred r hs =>
      let t := map (rep s) (map (handle hd) hs) in
      if is_func P r then
        match lookup_fun r (removelast t) (new s ++ old s) with
        | Some v => N.eqb (rep s v) (last t 0)
        | None => false
        end
      else mem (FRel r, t) (new s ++ old s)
  | ECDefined f hs =>
      match lookup_fun f (map (rep s) (map (handle hd) hs)) (new s ++ old s) with
      | Some _ => true | None => false end
  | ECEqual a b => N.eqb (rep s (handle hd a)) (rep s (handle hd b))
  | ECAnd a b => eval_condW P hd a s && eval_condW P hd b s
  | ECOr a b => eval_condW P hd a s || eval_condW P hd b s
  end.

Definition wsnap := ((list (code * row) * list (code * row)) * (list (N * N) * list (N * N)) * (N * N))%type.

Definition code_rows (l : list fact) : list (code * row) := map (fun x : fact => (code_of (fst x), snd x)) l.

Definition snapshotW (ties : N) (s : wstate) : wsnap :=
  let ids := ids_upto (N.to_nat (next_id (st s))) in
  ((code_rows (old (st s)), code_rows (new (st s))),
   (map (fun x => (x, rep (st s) x)) ids, map (fun x => (x, wt s x)) ids),
   (ties, N.of_nat (length (pending (st s))))).

(* number of unions of [equate_allW tb l s] that join two distinct roots of equal weight *)
Fixpoint ties_in (tb : tiebreak) (l : list (N * N)) (s : wstate) : N :=
  match l with
  | [] => 0
  | (a, b) :: l' =>
      let ra := rep (st s) a in
      let rb := rep (st s) b in
      (if negb (N.eqb ra rb) && N.eqb (wt s ra) (wt s rb) then 1 else 0) + ties_in tb l' (equateW tb a b s)
  end.
Definition iter_ties (P : fprogram) (tb : tiebreak) (s : wstate) : N :=
  ties_in tb (geqs (collect (fp_rules P) (st s))) {| st := move (st s); wt := wt s |}.

Fixpoint trace_loopW (fuel : nat) (P : fprogram) (W : wtable) (adv : list tiebreak) (cond : wstate -> bool)
  (s : wstate) : option (list (wstate * N) * (wstate * bool)) :=
  match fuel with
  | O => None
  | S k =>
      let s1 := exec_iterW P W (adv_hd adv) s in
      let e := (s1, iter_ties P (adv_hd adv) s) in
      if cond s1 then Some ([e], (apply_defsW P W s1, true))
      else
        let s' := if is_dirty (st s1) then s1 else apply_defsW P W s1 in
        if is_dirty (st s') then
          match trace_loopW k P W (tl adv) cond s' with
          | Some (l, r) => Some (e :: l, r)
          | None => None
          end
        else Some ([e], (s', false))
  end.

Definition trace_close_untilW (fuel : nat) (P : fprogram) (W : wtable) (adv : list tiebreak)
  (cond : wstate -> bool) (s : wstate) : option (list (wstate * N) * (wstate * bool)) :=
  let s0 := canonicalizeW W s in
  if cond s0 then Some ([(s0, 0)], (s0, true))
  else match trace_loopW fuel P W adv cond {| st := set_pending (st s0) []; wt := wt s0 |} with
       | Some (l, r) => Some ((s0, 0) :: l, r)
       | None => None
       end.

Definition close_outW := option (list wsnap * wsnap * bool).

(* C06's iteration bound (FactsTerm.iter_bound) computed in N; FactsW.iter_boundN_spec: it is the same number *)
Fixpoint usizeN (G : list sig) (c : N) : N :=
  match G with
  | [] => 0
  | g :: G' => c ^ N.of_nat (snd g) + usizeN G' c
  end.
Definition iter_boundN (P : fprogram) (s : state) : N :=
  let c := N.of_nat (nclasses s) in
  let U := usizeN (sigs P s) c in
  c * (U + 2) + U + 2.

(* rw_bounds: iter_boundN of the state in which each close/close_until call started *)
Record rstateW := { rw_state : wstate; rw_handles : list N; rw_outs : list close_outW; rw_stuck : bool;
                    rw_adv : list (list (list N)); rw_bounds : list N }.

Definition do_closeW (fuel : nat) (P : fprogram) (W : wtable) (c : econd) (r : rstateW) : rstateW :=
  let adv := map tb_pref (hd [] (rw_adv r)) in
  match trace_close_untilW fuel P W adv (fun s => eval_condW P (rw_handles r) c (st s)) (rw_state r) with
  | Some (l, (s', b)) =>
      {| rw_state := s'; rw_handles := rw_handles r;
         rw_outs := rw_outs r ++ [Some (map (fun e => snapshotW (snd e) (fst e)) l, snapshotW 0 s', b)];
         rw_stuck := false; rw_adv := tl (rw_adv r);
         rw_bounds := rw_bounds r ++ [iter_boundN P (st (rw_state r))] |}
  | None =>
      {| rw_state := rw_state r; rw_handles := rw_handles r; rw_outs := rw_outs r ++ [None];
         rw_stuck := true; rw_adv := tl (rw_adv r);
         rw_bounds := rw_bounds r ++ [iter_boundN P (st (rw_state r))] |}
  end.

Definition step_callW (fuel : nat) (P : fprogram) (W : wtable) (r : rstateW) (c : Ecall) : rstateW :=
  if rw_stuck r then r else
  let s := rw_state r in
  let hd := rw_handles r in
  match c with
  | ENew ty =>
      let (s', e) := new_elW ty s in
      {| rw_state := s'; rw_handles := hd ++ [e]; rw_outs := rw_outs r; rw_stuck := false; rw_adv := rw_adv r;
         rw_bounds := rw_bounds r |}
  | EInsert rl hs =>
      {| rw_state := insertW W (FRel rl, map (handle hd) hs) s; rw_handles := hd; rw_outs := rw_outs r;
         rw_stuck := false; rw_adv := rw_adv r;
         rw_bounds := rw_bounds r |}
  | EDefine f hs =>
      let (s', e) := defineW P W f (map (handle hd) hs) s in
      {| rw_state := s'; rw_handles := hd ++ [e]; rw_outs := rw_outs r; rw_stuck := false; rw_adv := rw_adv r;
         rw_bounds := rw_bounds r |}
  | EEquate a b =>
      {| rw_state := equateW tb_first (handle hd a) (handle hd b) s; rw_handles := hd; rw_outs := rw_outs r;
         rw_stuck := false; rw_adv := rw_adv r;
         rw_bounds := rw_bounds r |}
  | EClose => do_closeW fuel P W ECFalse r
  | ECloseUntil c => do_closeW fuel P W c r
  end.

Definition run_stateW (fuel : nat) (P : fprogram) (W : wtable) (adv : list (list (list N))) (calls : list Ecall)
  : rstateW :=
  fold_left (step_callW fuel P W) calls
            {| rw_state := initW; rw_handles := []; rw_outs := []; rw_stuck := false; rw_adv := adv;
               rw_bounds := [] |}.

(* the stored weights equal the weights recomputed from the stored rows (the invariant that makes the
   remove-all-then-reinsert order of canonicalizeW immaterial); evaluated per case by the tie *)
Definition occ_weight (W : wtable) (l : list fact) (e : N) : N :=
  fold_left (fun acc (x : fact) => acc + relw W (fst x) * N.of_nat (length (filter (N.eqb e) (snd x)))) l 0.
Definition weights_ok_b (W : wtable) (s : wstate) : bool :=
  forallb (fun e => N.eqb (wt s e) (occ_weight W (old (st s) ++ new (st s)) e))
          (ids_upto (N.to_nat (next_id (st s)))).

(* (one entry per close/close_until call, final snapshot, element id of each handle, ran out of fuel?,
    iteration bound per close call, stored weights = recomputed weights in the final state?) *)
Definition run_engineW (fuel : nat) (P : fprogram) (W : wtable) (adv : list (list (list N))) (calls : list Ecall)
  : list close_outW * wsnap * list N * bool * list N * bool :=
  let r := run_stateW fuel P W adv calls in
  (rw_outs r, snapshotW 0 (rw_state r), rw_handles r, rw_stuck r, rw_bounds r, weights_ok_b W (rw_state r)).

