(* Props_Tie.v -- the weighted engine model (ModelW.v: Model.v plus element weights and the union rule of the generated
   equate_<type>, parametrised by a tie-break oracle) refines the set-level theory, and the theorems of
   Props_C01/C02/C03/C06/C07/C15 hold of it for EVERY oracle / advice.  checks/engine_tie.py compares this model with
   the emitted close_until after every iteration (RunW.run_engineW, the advice found by search).

   How the theorems are inherited: a weighted state is a Model.state ([st]) plus weights; every operation of ModelW is
   the operation of Model.v on [st] (Tie_projections) except that a union is [equate a b] or [equate b a]
   (Tie_equate_cases), and the partition produced by a union does not depend on that choice (Tie_equate_partition).
   Hence one weighted iteration satisfies the relational step [astep] with the same collected set D
   (Tie_exec_iterW_astep) -- all fields of astep are invariant under the choice of representatives -- and the
   loop-level theorems are replayed from astep.

   Partial: the statement that the UNWEIGHTED run of a whole history and the weighted run end in isomorphic states
   (Tie_refines_full) is not proved; proved are the single-union lemma, the one-iteration statement from a common
   state (Tie_step_same_quotient: same partition, same rows modulo the partition, same pending set, same ids), and
   every property theorem directly for the weighted loop, which is what the tie needs. *)
From Coq Require Import List NArith Bool.
From Engine Require Import Model FactsBasic FactsInv FactsOps FactsClose FactsSound FactsIds FactsTerm FactsFam FactsIdem
  Run FactsRun FactsEnum ExSemilattice ExEnum FactsFamCheck ModelW RunW FactsW.
Import ListNotations.
Local Open Scope N_scope.

(* ---- the refinement ---- *)
Theorem Tie_equate_cases : forall tb a b s,
  st (equateW tb a b s) = equate a b (st s) \/ st (equateW tb a b s) = equate b a (st s).
Proof. exact st_equateW. Qed.
Print Assumptions Tie_equate_cases.

(* the single-step lemma: which root survives does not change the partition (nor any row: Tie_equate_rows) *)
Theorem Tie_equate_partition : forall tb a b s x y,
  rep (st (equateW tb a b s)) x = rep (st (equateW tb a b s)) y <->
  rep (equate a b (st s)) x = rep (equate a b (st s)) y.
Proof. exact equateW_partition. Qed.
Print Assumptions Tie_equate_partition.

Theorem Tie_equate_rows : forall tb a b s,
  old (st (equateW tb a b s)) = old (st s) /\ new (st (equateW tb a b s)) = new (st s) /\
  pending (st (equateW tb a b s)) = pending (st s) /\ next_id (st (equateW tb a b s)) = next_id (st s) /\
  log (st (equateW tb a b s)) = log (st s).
Proof. exact equateW_fields. Qed.
Print Assumptions Tie_equate_rows.

Theorem Tie_projections : forall P W,
  (forall x s, st (insertW W x s) = insert x (st s)) /\
  (forall s, st (canonicalizeW W s) = canonicalize (st s)) /\
  (forall f args s, st (fst (defineW P W f args s)) = fst (define P f args (st s)) /\
                    snd (defineW P W f args s) = snd (define P f args (st s))) /\
  (forall s, st (apply_defsW P W s) = apply_defs P (st s)).
Proof. exact (fun P W => conj (st_insertW W) (conj (st_canonicalizeW W) (conj (st_defineW P W) (st_apply_defsW P W)))). Qed.
Print Assumptions Tie_projections.

(* one weighted iteration is an instance of the relational step, with the D of the unweighted iteration *)
Theorem Tie_exec_iterW_astep : forall P W tb s, wf_rules (fp_rules P) -> Idem (st s) ->
  astep (fp_rules P) (st s) (st (exec_iterW P W tb s)) (collect (fp_rules P) (st s)).
Proof. exact exec_iterW_astep. Qed.
Print Assumptions Tie_exec_iterW_astep.

(* astep determines the successor up to the choice of representatives ... *)
Theorem Tie_astep_same_quotient : forall em s s1 s2 D, astep em s s1 D -> astep em s s2 D -> same_quotient s1 s2.
Proof. exact astep_same_quotient. Qed.
Print Assumptions Tie_astep_same_quotient.

(* ... so the weighted and the unweighted iteration of a common state agree up to representatives *)
Theorem Tie_step_same_quotient : forall P W tb s, wf_rules (fp_rules P) -> Idem (st s) ->
  same_quotient (st (exec_iterW P W tb s)) (exec_iter P (st s)).
Proof. exact step_same_quotient. Qed.
Print Assumptions Tie_step_same_quotient.

(* NOT proved: whole histories.  h renames the elements (the two runs allocate the ids of derived elements in
   different orders after the first union that is resolved differently). *)
Definition Tie_refines_full : Prop :=
  forall fuel P W src adv calls, wf_rules (fp_rules P) -> FamOK src (fp_rules P) -> FamSound src (fp_rules P) ->
    calls_ok 0 (calls ++ [EClose]) = true ->
    rs_stuck (run_state fuel P (calls ++ [EClose])) = false ->
    rw_stuck (run_stateW fuel P W adv (calls ++ [EClose])) = false ->
    exists h, iso_via h (rs_state (run_state fuel P (calls ++ [EClose])))
                        (st (rw_state (run_stateW fuel P W adv (calls ++ [EClose])))) /\
              Forall2 (fun e e' => rep (st (rw_state (run_stateW fuel P W adv (calls ++ [EClose])))) (h e) =
                                   rep (st (rw_state (run_stateW fuel P W adv (calls ++ [EClose])))) e')
                      (rs_handles (run_state fuel P (calls ++ [EClose])))
                      (rw_handles (run_stateW fuel P W adv (calls ++ [EClose]))).

(* what the tie evaluates (RunW.run_stateW) computes reachable weighted states *)
Theorem Tie_run_reachable : forall P W, wf_rules (fp_rules P) -> forall fuel adv calls,
  calls_ok 0 calls = true -> ReachableW P W (rw_state (run_stateW fuel P W adv calls)).
Proof. exact runW_reachable. Qed.
Print Assumptions Tie_run_reachable.

(* ---- C01 ---- *)
Theorem Tie_close_closed : forall P W src, wf_rules (fp_rules P) -> FamOK src (fp_rules P) ->
  forall s fuel adv s', ReachableW P W s ->
  exec_close_untilW fuel P W adv (fun _ => false) s = Some (s', false) -> Closed src (st s').
Proof. exact close_closedW. Qed.
Print Assumptions Tie_close_closed.

Theorem Tie_close_functional : forall P W src, wf_rules (fp_rules P) -> FamOK src (fp_rules P) ->
  forall s fuel adv s' f nargs, ReachableW P W s ->
  exec_close_untilW fuel P W adv (fun _ => false) s = Some (s', false) ->
  In (func_rule f nargs) src -> Functional (st s') f nargs.
Proof. exact close_functionalW. Qed.
Print Assumptions Tie_close_functional.

(* ---- C02 ---- *)
Theorem Tie_sound : forall P W A s, wf_rules (fp_rules P) -> ReachW P W A s -> Sound P A (st s) /\ Origin A (st s).
Proof. exact soundW. Qed.
Print Assumptions Tie_sound.

(* ---- C03 ---- *)
Theorem Tie_close_idem : forall P W src, FamSound src (fp_rules P) -> forall n adv s,
  Canon (st s) -> Clean (st s) -> Closed src (st s) ->
  exec_close_untilW (S n) P W adv (fun _ => false) s = Some (s, false).
Proof. exact close_idemW. Qed.
Print Assumptions Tie_close_idem.

Theorem Tie_close_twice : forall P W src n fuel adv adv' cond s r,
  wf_rules (fp_rules P) -> FamOK src (fp_rules P) -> FamSound src (fp_rules P) ->
  ReachableW P W s -> exec_close_untilW fuel P W adv cond s = Some (r, false) ->
  exec_close_untilW (S n) P W adv' (fun _ => false) r = Some (r, false).
Proof. exact close_idem_after_closeW. Qed.
Print Assumptions Tie_close_twice.

(* ---- C06 ---- *)
Theorem Tie_close_terminates : forall P W adv cond s,
  wf_rules (fp_rules P) -> no_defs P -> ReachableW P W s ->
  exec_close_untilW (iter_bound P (st s)) P W adv cond s <> None.
Proof. exact close_terminates_reachableW. Qed.
Print Assumptions Tie_close_terminates.

Theorem Tie_no_new_ids : forall P W adv cond fuel s r b,
  wf_rules (fp_rules P) -> no_defs P -> Idem (st s) ->
  exec_close_untilW fuel P W adv cond s = Some (r, b) ->
  next_id (st r) = next_id (st s) /\ (nclasses (st r) <= nclasses (st s))%nat.
Proof. exact no_new_idsW. Qed.
Print Assumptions Tie_no_new_ids.

(* the bound the tie compares iteration counts with is C06's iter_bound *)
Theorem Tie_iter_boundN : forall P s, iter_boundN P s = N.of_nat (iter_bound P s).
Proof. exact iter_boundN_spec. Qed.
Print Assumptions Tie_iter_boundN.

(* ---- C07 ---- *)
Theorem Tie_cu_true : forall P W src, wf_rules (fp_rules P) -> FamOK src (fp_rules P) ->
  forall cond fuel adv s r, ReachableW P W s -> exec_close_untilW fuel P W adv cond s = Some (r, true) ->
  exists e, Canon (st e) /\ cond e = true /\ (r = e \/ r = apply_defsW P W e).
Proof. exact cu_trueW. Qed.
Print Assumptions Tie_cu_true.

Theorem Tie_cu_false : forall P W src, wf_rules (fp_rules P) -> FamOK src (fp_rules P) ->
  forall cond fuel adv s r, ReachableW P W s -> exec_close_untilW fuel P W adv cond s = Some (r, false) ->
  Closed src (st r) /\ Clean (st r) /\ Canon (st r) /\ (cond_extW cond -> cond r = false).
Proof. exact cu_falseW. Qed.
Print Assumptions Tie_cu_false.

Theorem Tie_cu_resume_inv : forall P W src, wf_rules (fp_rules P) -> FamOK src (fp_rules P) ->
  forall cond fuel adv s r b, ReachableW P W s -> exec_close_untilW fuel P W adv cond s = Some (r, b) ->
  GInv src (st r) /\ ReachableW P W r.
Proof. exact cu_resume_invW. Qed.
Print Assumptions Tie_cu_resume_inv.

Theorem Tie_cu_resume : forall P W src, wf_rules (fp_rules P) -> FamOK src (fp_rules P) ->
  forall cond fuel adv s r b fuel' adv' r', ReachableW P W s ->
  exec_close_untilW fuel P W adv cond s = Some (r, b) ->
  exec_close_untilW fuel' P W adv' (fun _ => false) r = Some (r', false) -> Closed src (st r').
Proof. exact cu_resumeW. Qed.
Print Assumptions Tie_cu_resume.

(* ---- C15 ---- *)
Theorem Tie_enum_inv : forall P W E is_ctor, RulesOK P E is_ctor ->
  forall A s, ReachW P W A s -> HistOK P E is_ctor A -> EI P E is_ctor (st s).
Proof. exact enum_invW. Qed.
Print Assumptions Tie_enum_inv.

Theorem Tie_case_total_closed : forall P W E is_ctor src A s fuel adv cond r,
  wf_rules (fp_rules P) -> FamOK src (fp_rules P) -> RulesOK P E is_ctor ->
  ReachW P W A s -> HistOK P E is_ctor A -> exec_close_untilW fuel P W adv cond s = Some (r, false) ->
  forall t e, E t = true -> In (FTySet t, [e]) (allf (st r)) ->
    rep (st r) e = e /\ cases P is_ctor (st r) t e <> [] /\
    forall f a, In (f, a) (cases P is_ctor (st r) t e) ->
      In (func_rule f (length a)) src -> eval_fun (st r) f a = Some e.
Proof. exact case_total_closedW. Qed.
Print Assumptions Tie_case_total_closed.

(* ---- the hypotheses about the program, as checked instance obligations (evaluated per translated program) ---- *)
Theorem Tie_wf_rules_b_sound : forall rules, forallb wf_rule_b rules = true -> wf_rules rules.
Proof. exact wf_rules_b_sound. Qed.
Print Assumptions Tie_wf_rules_b_sound.

(* src: the source flat rules (one per emitted family, ages erased; functionality rules as func_rule f n) *)
Theorem Tie_famok_check_sound : forall src em, famok_check src em = true -> FamOK src em.
Proof. exact famok_check_sound. Qed.
Print Assumptions Tie_famok_check_sound.

Theorem Tie_famsound_check_sound : forall src em, famsound_check src em = true -> FamSound src em.
Proof. exact famsound_check_sound. Qed.
Print Assumptions Tie_famsound_check_sound.

(* the hand-encoded emitted sub-rules of the semilattice program pass; a family in which an [old] became [all]
   (the to_semi_naive mutant `Ordering::Less => QueryAge::All`) is rejected by famok_check, a family in which a
   [new] became [old] by both *)
Example Tie_ex_famcheck :
  forallb wf_rule_b (fp_rules semi) = true /\ famok_check semi_src (fp_rules semi) = true /\
  famsound_check semi_src (fp_rules semi) = true /\
  famok_check semi_src (R [A le [0; 1] New; A le [1; 2] All] [CRel le [0; 2]] :: tl (tl (tl semi_em))
                        ++ [R [A meet [0; 1; 2] New; A meet [0; 1; 3] All] [CEq 2 3]; R [T El 0 New] [CRel le [0; 0]]]) = false /\
  famok_uncovered semi_src (R [A le [0; 1] New; A le [1; 2] All] [CRel le [0; 2]] :: tl (tl (tl semi_em))
                        ++ [R [A meet [0; 1; 2] New; A meet [0; 1; 3] All] [CEq 2 3]; R [T El 0 New] [CRel le [0; 0]]]) = [2] /\
  famsound_check semi_src (R [A le [0; 1] Old; A le [1; 2] Old] [CRel le [0; 2]] :: semi_em) = false.
Proof. vm_compute. repeat split; reflexivity. Qed.

(* ---- non-vacuity: the semilattice program, weights meet = 6, le = 4 ---- *)
Definition semiW : wtable := [(meet, 6); (le, 4)].
Definition stW (adv : list (list (list N))) (calls : list Ecall) : wstate := rw_state (run_stateW 40 semi semiW adv calls).

Example Tie_ex_hyps :
  wf_rules (fp_rules semi) /\ FamOK semi_src (fp_rules semi) /\ FamSound semi_src (fp_rules semi) /\
  ReachableW semi semiW (stW [] hist_cycle).
Proof.
  split; [exact semi_wf|]. split; [exact semi_FamOK|]. split; [exact semi_FamSound|].
  apply runW_reachable; [exact semi_wf | vm_compute; reflexivity].
Qed.

(* a <= b <= c, close, c <= a, close: everything collapses.  The unweighted model keeps the LEFT root of every union
   and ends with root 2; in the weighted model the heavier root survives and the class ends with root 1; same number
   of elements; the partitions agree; the weighted result is closed and its stored weights are the recomputed ones. *)
Example Tie_ex_weights_decide :
  let s := ExSemilattice.st (hist_cycle ++ [EClose]) in
  let sw := stW [] (hist_cycle ++ [EClose]) in
  rep s 1 = 2 /\ rep (st sw) 1 = 1 /\ next_id s = next_id (st sw) /\
  forallb (fun x => forallb (fun y => Bool.eqb (N.eqb (rep s x) (rep s y)) (N.eqb (rep (st sw) x) (rep (st sw) y)))
                            (ids_upto 12)) (ids_upto 12) = true /\
  closed_b semi_src (st sw) = true /\ weights_ok_b semiW sw = true.
Proof. vm_compute. repeat split; reflexivity. Qed.

(* two generators a, b with a <= b, b <= a asserted: both have weight 2 * 4 when the first iteration merges them: a tie
   (the second entry of the tie counts).  Without advice the root of the first argument of the first collected equality
   survives (element 1), with the advice "prefer 0 in iteration 1" element 0 does; the partition is the same. *)
Definition hist_tie : list Ecall := [ENew El; ENew El; EInsert le [0; 1]; EInsert le [1; 0]; EClose].
Example Tie_ex_tie :
  let s0 := stW [] hist_tie in
  let s1 := stW [[[0]]] hist_tie in
  (match rw_outs (run_stateW 40 semi semiW [] hist_tie) with
   | [Some (evals, _, _)] => map (fun w : wsnap => fst (snd w)) evals
   | _ => [] end) = [0; 1; 0; 0; 0; 0] /\
  rep (st s0) 0 = rep (st s0) 1 /\ rep (st s1) 0 = rep (st s1) 1 /\
  rep (st s0) 0 = 1 /\ rep (st s1) 0 = 0 /\
  closed_b semi_src (st s0) = true /\ closed_b semi_src (st s1) = true.
Proof. vm_compute. repeat split; reflexivity. Qed.

(* the poset part (no `!`): the weighted close of a reachable state returns within iter_bound iterations *)
Definition posetW : wtable := [(le, 4)].
Example Tie_ex_terminates :
  wf_rules (fp_rules poset) /\ no_defs poset /\
  ReachableW poset posetW (rw_state (run_stateW 0 poset posetW [] poset_hist)) /\
  iter_boundN poset (st (rw_state (run_stateW 0 poset posetW [] poset_hist))) = 56 /\
  match exec_close_untilW 56 poset posetW [] (fun _ => false) (rw_state (run_stateW 0 poset posetW [] poset_hist)) with
  | Some (r, false) => N.eqb (next_id (st r)) 3 && Nat.eqb (nclasses (st r)) 2
  | _ => false
  end = true.
Proof.
  assert (Hwf : wf_rules (fp_rules poset)) by (apply wf_rules_b_sound; vm_compute; reflexivity).
  split; [exact Hwf|]. split; [apply no_defs_b_sound; vm_compute; reflexivity|].
  split; [apply runW_reachable; [exact Hwf | vm_compute; reflexivity]|].
  split; vm_compute; reflexivity.
Qed.

(* the enum program of ExEnum.v: h0 : A, p(h0), h1 := Ka(); the close creates Kb(h0) = element 2 *)
Definition enW : wtable := [(rP, 2); (Ka, 2); (Kb, 4)].
Definition en_sw : wstate := fst (defineW en enW Ka [] (insertW enW (FRel rP, [0]) (fst (new_elW tyA initW)))).
Example Tie_ex_enum :
  RulesOK en en_E en_ctor /\
  (exists A, ReachW en enW A en_sw /\ HistOK en en_E en_ctor A) /\
  match exec_close_untilW 20 en enW [] (fun _ => false) en_sw with
  | Some (r, false) => existsb (fun x : fact => fact_eqb x (FTySet tyT, [2])) (old (st r))
  | _ => false
  end = true.
Proof.
  split; [exact en_RulesOK|]. split.
  - eexists. split.
    + unfold en_sw. apply RW_define with (f := Ka) (t := []); [|constructor].
      apply RW_insert with (r := rP) (t := [0]); [|constructor; [vm_compute; reflexivity | constructor]].
      apply RW_new with (ty := tyA). apply RW_init.
    + split.
      * intros ty e [H|[H|[H|[]]]]; try discriminate. inversion H; subst. reflexivity.
      * intros f a [H|[H|[H|[]]]]; try discriminate. inversion H; subst. intros _. reflexivity.
  - vm_compute. reflexivity.
Qed.
