(* Engine/Regress.v -- the OLD behaviour of close_until (before the fix in display_close_until_fn):
   on an early `return true` from inside the loop the collected function definitions were dropped.
   Contrast with Model.exec_loop, which applies them first.  The example shows that the semi-naive
   invariant fails in the state returned by the old variant, and that a subsequent close() returns a
   model that is not closed; with the current behaviour both are fine.

   Program:  type A;  type B;  pred p(A);  func g(A) -> B;
             rule { if x: A; then p(x); }     rule { if x: A; then g(x)!; }
   History:  h0 := new_a();  close_until(|m| m.p(h0));  close(); *)
From Coq Require Import List NArith Bool.
From Engine Require Import Model FactsBasic FactsInv FactsFam Run.
Import ListNotations.
Local Open Scope N_scope.

Fixpoint exec_loop_dropdefs (fuel : nat) (P : fprogram) (cond : state -> bool) (s : state)
  : option (state * bool) :=
  match fuel with
  | O => None
  | S k =>
      let s1 := exec_iter P s in
      if cond s1 then Some (set_pending s1 [], true)          (* <- the delta is dropped *)
      else if is_dirty s1 then exec_loop_dropdefs k P cond s1
      else let s2 := apply_defs P s1 in
           if is_dirty s2 then exec_loop_dropdefs k P cond s2 else Some (s2, false)
  end.

Definition exec_close_until_dropdefs (fuel : nat) (P : fprogram) (cond : state -> bool) (s : state)
  : option (state * bool) :=
  let s0 := canonicalize s in
  if cond s0 then Some (s0, true) else exec_loop_dropdefs fuel P cond (set_pending s0 []).

Definition tA : N := 0.
Definition tB : N := 1.
Definition rp : N := 0.
Definition rg : N := 1.
Definition TA (x : N) (g : age) : fatom := {| fa_rel := FTySet tA; fa_args := [x]; fa_age := g |}.

Definition reg_src : list frule := [
  {| fr_prem := [TA 0 All]; fr_conc := [CRel rp [0]] |};
  {| fr_prem := [TA 0 All]; fr_conc := [CDef rg [0]] |}
].
Definition reg : fprogram :=
  {| fp_arity := [(rp, 1, false); (rg, 2, true)]; fp_restype := [(rg, tB)]; fp_rules := emit reg_src |}.

Lemma reg_wf : wf_rules (fp_rules reg).
Proof. apply wf_rules_b_sound. vm_compute. reflexivity. Qed.
Lemma reg_FamOK : FamOK reg_src (fp_rules reg).
Proof. apply emit_FamOK. Qed.

Definition s_h0 : state := fst (new_el tA init).
Definition cond_p (s : state) : bool := eval_cond [0] (ECPred rp [0]) s.

Definition after_drop : option (state * bool) := exec_close_until_dropdefs 10 reg cond_p s_h0.
Definition after_fixed : option (state * bool) := exec_close_until 10 reg cond_p s_h0.

Definition st_of (o : option (state * bool)) : state := match o with Some (s, _) => s | None => init end.

(* both return true after one iteration *)
Example both_true :
  option_map snd after_drop = Some true /\ option_map snd after_fixed = Some true.
Proof. vm_compute. split; reflexivity. Qed.

(* old behaviour: g(h0) is neither defined nor pending although x = h0 is an old element *)
Example drop_state :
  allf (st_of after_drop) = [(FTySet tA, [0]); (FRel rp, [0])] /\
  old (st_of after_drop) = [(FTySet tA, [0])] /\
  pending (st_of after_drop) = [] /\ rep (st_of after_drop) 0 = 0.
Proof. vm_compute. repeat split; reflexivity. Qed.

Theorem dropdefs_breaks_Inv_sn : ~ Inv_sn reg_src (st_of after_drop).
Proof.
  destruct drop_state as [Ea [Eo [Ep Er]]]. intros HI.
  specialize (HI {| fr_prem := [TA 0 All]; fr_conc := [CDef rg [0]] |} (fun _ => 0)).
  assert (Hru : In {| fr_prem := [TA 0 All]; fr_conc := [CDef rg [0]] |} reg_src) by (right; left; reflexivity).
  specialize (HI Hru). cbn [fr_prem fr_conc] in HI.
  assert (Hne : [TA 0 All] <> []) by discriminate. specialize (HI Hne).
  assert (Hm : forall a, In a [TA 0 All] -> in_oldc (st_of after_drop) (fa_rel a, map (fun _ : N => 0) (fa_args a))).
  { intros a [<-|[]]. cbn [TA fa_rel fa_args map]. split.
    - rewrite Eo. left. reflexivity.
    - unfold is_canon. cbn [snd map]. rewrite Er. reflexivity. }
  specialize (HI Hm (CDef rg [0]) (or_introl eq_refl)). cbn [ground gholds map] in HI.
  destruct HI as [[t0 [v [Hin _]]]|[t0 [Hin _]]].
  - rewrite Ea in Hin. destruct Hin as [H|[H|[]]]; discriminate.
  - rewrite Ep in Hin. destruct Hin.
Qed.

(* a close() after the early return: not closed with the old behaviour, closed with the current one *)
Definition closed_after (o : option (state * bool)) : bool :=
  match exec_close_until 10 reg (fun _ => false) (st_of o) with
  | Some (s', false) => closed_b reg_src s'
  | _ => false
  end.

Example dropdefs_not_resumable : closed_after after_drop = false.
Proof. vm_compute. reflexivity. Qed.

Example fixed_resumable : closed_after after_fixed = true.
Proof. vm_compute. reflexivity. Qed.
