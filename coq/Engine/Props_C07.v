(* Props_C07.v -- close_until honours its contract and can be resumed.
   Modelled: the CURRENT generator (pending definitions are applied before an early `return true`).
   The old behaviour is in Regress.v; C07_old_behaviour_refuted shows what it broke.
   Hypotheses: wf_rules, FamOK as in C01.  Conditions are arbitrary functions state -> bool;
   cond_ext (the condition does not read the delta) is needed to transport "cond = false" to the returned
   state, cond_mono (the condition survives apply_func_defs) to transport "cond = true". *)
From Coq Require Import List NArith Bool.
From Engine Require Import Model FactsBasic FactsInv FactsOps FactsClose FactsSound FactsFam FactsIdem FactsRun Run ExSemilattice Regress.
From Engine Require Import FactsStep FactsLeast FactsIso.
Import ListNotations.
Local Open Scope N_scope.

Theorem C07_cu_true : forall P src, wf_rules (fp_rules P) -> FamOK src (fp_rules P) ->
  forall cond fuel s r, Reachable P s -> exec_close_until fuel P cond s = Some (r, true) ->
  (exists e, Canon e /\ cond e = true /\ (r = e \/ r = apply_defs P e)) /\
  (cond_mono P cond -> cond r = true).
Proof. exact cu_true. Qed.
Print Assumptions C07_cu_true.

Theorem C07_cu_false : forall P src, wf_rules (fp_rules P) -> FamOK src (fp_rules P) ->
  forall cond fuel s r, Reachable P s -> exec_close_until fuel P cond s = Some (r, false) ->
  Closed src r /\ Clean r /\ Canon r /\ (cond_ext cond -> cond r = false).
Proof. exact cu_false. Qed.
Print Assumptions C07_cu_false.

Theorem C07_cu_sound : forall P A s cond fuel r b, Reach P A s ->
  exec_close_until fuel P cond s = Some (r, b) -> Sound P A r /\ Origin A r.
Proof. exact cu_sound. Qed.
Print Assumptions C07_cu_sound.

(* the returned state satisfies the invariant of reachable states (nothing pending, Inv_sn) ... *)
Theorem C07_cu_resume_inv : forall P src, wf_rules (fp_rules P) -> FamOK src (fp_rules P) ->
  forall cond fuel s r b, Reachable P s -> exec_close_until fuel P cond s = Some (r, b) ->
  GInv src r /\ Reachable P r.
Proof. exact cu_resume_inv. Qed.
Print Assumptions C07_cu_resume_inv.

(* ... hence a later close() that returns is closed *)
Theorem C07_cu_resume : forall P src, wf_rules (fp_rules P) -> FamOK src (fp_rules P) ->
  forall cond fuel s r b fuel' r', Reachable P s -> exec_close_until fuel P cond s = Some (r, b) ->
  exec_close_until fuel' P (fun _ => false) r = Some (r', false) -> Closed src r'.
Proof. exact cu_resume. Qed.
Print Assumptions C07_cu_resume.

(* "close (close_until c s) is isomorphic to close s" is not proved here (it needs the least-model
   characterisation); what is proved is that both are closed, sound, and reachable. *)
Definition C07_cu_resume_full : Prop :=
  forall P src, wf_rules (fp_rules P) -> FamOK src (fp_rules P) ->
  forall cond fuel s r b f1 f2 r1 r2, Reachable P s -> exec_close_until fuel P cond s = Some (r, b) ->
    exec_close_until f1 P (fun _ => false) r = Some (r1, false) ->
    exec_close_until f2 P (fun _ => false) s = Some (r2, false) ->
    exists h, (forall e, e < next_id s -> rep r2 (h e) = rep r2 e) /\ iso_via h r1 r2.

(* the old behaviour (delta dropped on early return) breaks the invariant *)
Theorem C07_old_behaviour_refuted : ~ Inv_sn reg_src (st_of after_drop).
Proof. exact dropdefs_breaks_Inv_sn. Qed.
Print Assumptions C07_old_behaviour_refuted.

(* ---- non-vacuity ---- *)
(* two generators a, b; stop as soon as meet(a,b) is defined *)

Example C07_ex_hyps : Reachable semi (st hist_two) /\ cond_ext c_meet.
Proof.
  split; [apply run_reachable; [exact semi_wf | vm_compute; reflexivity]|].
  intros s p. reflexivity.
Qed.

(* returns true after 3 iterations, before the model is closed (9 iterations); resuming closes it.
   Note: the definitions collected so far are applied in a state that is not saturated, so elements are
   created that a plain close() would never create (they are merged later): 38 ids instead of 11. *)
Example C07_ex_early :
  iter_counts 40 semi (hist_two ++ [ECloseUntil (ECDefined meet [0; 1]); EClose]) = [Some 3; Some 3] /\
  closed_b semi_src (st (hist_two ++ [ECloseUntil (ECDefined meet [0; 1])])) = false /\
  closed_b semi_src (st (hist_two ++ [ECloseUntil (ECDefined meet [0; 1]); EClose])) = true /\
  next_id (st (hist_two ++ [ECloseUntil (ECDefined meet [0; 1]); EClose])) = 38 /\
  next_id (st (hist_two ++ [EClose])) = 11.
Proof. vm_compute. repeat split; reflexivity. Qed.

Example C07_ex_regress : closed_after after_drop = false /\ closed_after after_fixed = true.
Proof. vm_compute. split; reflexivity. Qed.

(* ---- added with the least-model characterisation (FactsLeast.v, FactsIso.v) ---- *)
(* C07_cu_resume_full, proved under the side conditions FamErase (family shape) and WellTyped of the two
   closed states (typing facts the untyped model does not track; decidable, FactsLeastB.well_typed_b):
   closing after ANY return of close_until yields a model isomorphic, by a map that fixes every element
   of the state in which close_until was called, to the model a direct close yields. *)
Theorem C07_cu_resume_iso : forall P src A cond fuel s r b f1 f2 r1 r2,
  wf_rules (fp_rules P) -> FamOK src (fp_rules P) -> FamErase src (fp_rules P) ->
  Reach P A s -> exec_close_until fuel P cond s = Some (r, b) ->
  exec_close_until f1 P (fun _ => false) r = Some (r1, false) ->
  exec_close_until f2 P (fun _ => false) s = Some (r2, false) ->
  WellTyped P r1 -> WellTyped P r2 ->
  exists h, (forall e, e < next_id s -> rep r2 (h e) = rep r2 e) /\ iso_via h r1 r2.
Proof. exact cu_resume_iso. Qed.
Print Assumptions C07_cu_resume_iso.
