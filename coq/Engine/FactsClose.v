(* Engine/FactsClose.v -- define / apply_func_defs, the invariant of reachable states, and what
   close_until establishes (C01, C07; the relational core is FactsInv.v). *)
From Coq Require Import List Arith NArith Bool Lia.
From Engine Require Import Model FactsBasic FactsInv FactsOps.
Import ListNotations.
Local Open Scope N_scope.
Arguments N.add : simpl never.
Arguments N.eqb : simpl never.

(* ---------- steps that keep rep and old and only add to new ---------- *)
Record ext (s s' : state) : Prop := {
  ext_rep : rep s' = rep s;
  ext_old : old s' = old s;
  ext_new : forall y, In y (new s) -> In y (new s')
}.

Lemma ext_refl s : ext s s.
Proof. constructor; auto. Qed.
Lemma ext_trans s1 s2 s3 : ext s1 s2 -> ext s2 s3 -> ext s1 s3.
Proof.
  intros [A1 A2 A3] [B1 B2 B3]. constructor; [congruence | congruence | auto].
Qed.

Lemma ext_allf s s' x : ext s s' -> In x (allf s) -> In x (allf s').
Proof.
  intros [E1 E2 E3]. unfold allf. rewrite E2, !in_app_iff. intros [H|H]; auto.
Qed.
Lemma ext_idem s s' : ext s s' -> Idem s -> Idem s'.
Proof. intros [E1 _ _] H x. rewrite E1. apply H. Qed.

Lemma insert_ext x s : ext s (insert x s).
Proof.
  destruct (insert_fields x s) as [H1 [H2 _]]. constructor; [exact H1 | exact H2 |].
  intros y Hy. apply insert_new. left. exact Hy.
Qed.

Lemma insert_present x s : In (canon_fact (rep s) x) (allf (insert x s)).
Proof.
  unfold allf. destruct (insert_fields x s) as [_ [H2 _]]. rewrite H2. apply in_or_app.
  destruct (in_dec fact_eq_dec (canon_fact (rep s) x) (old s)) as [I|I]; [left; exact I|].
  right. apply insert_new. right. auto.
Qed.

Lemma new_el_ext ty s : ext s (fst (new_el ty s)).
Proof.
  unfold new_el. cbn [fst]. constructor; cbn [rep old new]; auto.
  intros y Hy. apply in_or_app. left. exact Hy.
Qed.

Definition defined (s : state) (f : N) (t : row) : Prop :=
  exists t0 v, In (FRel f, t0) (allf s) /\ canon (rep s) t0 = canon (rep s) t ++ [v].

Lemma defined_ext s s' f t : ext s s' -> defined s f t -> defined s' f t.
Proof.
  intros E [t0 [v [Hin Hc]]]. exists t0, v. split; [eapply ext_allf; eauto|].
  rewrite (ext_rep _ _ E). exact Hc.
Qed.

(* the state in which define_ inserts the new row *)
Definition with_fresh (P : fprogram) (f : N) (a : row) (s : state) : state :=
  {| rep := rep s; old := old s; new := new s ++ [(FTySet (restype P f), [next_id s])];
     pending := pending s; next_id := next_id s + 1; log := (next_id s, f, a) :: log s |}.

Lemma define_cases P f args s :
  (exists v, lookup_fun f (map (rep s) args) (new s ++ old s) = Some v /\ define P f args s = (s, v)) \/
  (lookup_fun f (map (rep s) args) (new s ++ old s) = None /\
   define P f args s =
     (insert (FRel f, map (rep s) args ++ [next_id s]) (with_fresh P f (map (rep s) args) s), next_id s)).
Proof.
  unfold define. destruct (lookup_fun f (map (rep s) args) (new s ++ old s)) as [v|] eqn:L.
  - left. exists v. auto.
  - right. split; reflexivity.
Qed.

Lemma with_fresh_ext P f a s : ext s (with_fresh P f a s).
Proof.
  constructor; cbn [with_fresh rep old new]; auto. intros y Hy. apply in_or_app. left. exact Hy.
Qed.

Lemma define_ext P f args s : ext s (fst (define P f args s)).
Proof.
  destruct (define_cases P f args s) as [[v [_ E]]|[_ E]]; rewrite E; cbn [fst].
  - apply ext_refl.
  - eapply ext_trans; [apply with_fresh_ext | apply insert_ext].
Qed.

Lemma define_pending P f args s : pending (fst (define P f args s)) = pending s.
Proof.
  destruct (define_cases P f args s) as [[v [_ E]]|[_ E]]; rewrite E; cbn [fst]; [reflexivity|].
  destruct (insert_fields (FRel f, map (rep s) args ++ [next_id s]) (with_fresh P f (map (rep s) args) s))
    as [_ [_ [H _]]]. rewrite H. reflexivity.
Qed.

Lemma define_defined P f args s : Idem s -> defined (fst (define P f args s)) f args.
Proof.
  intros Hid. destruct (define_cases P f args s) as [[v [L E]]|[_ E]]; rewrite E; cbn [fst].
  - apply lookup_fun_Some in L. exists (map (rep s) args ++ [v]), (rep s v). split.
    + unfold allf. apply in_app_or in L. apply in_or_app. tauto.
    + rewrite canon_app. fold (canon (rep s) args). rewrite canon_canon by exact Hid. reflexivity.
  - set (s1 := with_fresh P f (map (rep s) args) s).
    set (x := (FRel f, map (rep s) args ++ [next_id s])).
    pose proof (insert_present x s1) as Hin.
    destruct (insert_fields x s1) as [Hr _]. unfold defined. rewrite Hr.
    exists (canon (rep s1) (snd x)), (rep s (next_id s)). split; [exact Hin|].
    change (rep s1) with (rep s). rewrite canon_canon by exact Hid.
    unfold x. cbn [snd]. rewrite canon_app. fold (canon (rep s) args).
    rewrite canon_canon by exact Hid. reflexivity.
Qed.

(* a define_ either leaves the state alone or leaves it dirty *)
Lemma insert_same_or_dirty x s : insert x s = s \/ new (insert x s) <> [].
Proof.
  unfold insert. destruct (mem _ (new s) || mem _ (old s)); [left; reflexivity|].
  right. cbn [new set_new]. intros H. apply app_eq_nil in H. destruct H as [_ H]. discriminate.
Qed.

Lemma insert_dirty_persists x s : new s <> [] -> new (insert x s) <> [].
Proof.
  intros H. unfold insert. destruct (mem _ (new s) || mem _ (old s)); [exact H|].
  cbn [new set_new]. intros E. apply app_eq_nil in E. tauto.
Qed.

Lemma define_same_or_dirty P f args s :
  fst (define P f args s) = s \/ new (fst (define P f args s)) <> [].
Proof.
  destruct (define_cases P f args s) as [[v [_ E]]|[_ E]]; rewrite E; cbn [fst]; [left; reflexivity|].
  right. apply insert_dirty_persists. cbn [with_fresh new]. intros H. apply app_eq_nil in H.
  destruct H as [_ H]. discriminate.
Qed.

Definition defs_fold (P : fprogram) (l : list (N * row)) (s : state) : state :=
  fold_left (fun s fa => fst (define P (fst fa) (snd fa) s)) l s.

Lemma defs_fold_spec P l : forall s, Idem s ->
  ext s (defs_fold P l s) /\ pending (defs_fold P l s) = pending s /\
  forall f t, In (f, t) l -> defined (defs_fold P l s) f t.
Proof.
  induction l as [|[f t] l IH]; intros s Hid; cbn [defs_fold fold_left fst snd].
  - split; [apply ext_refl|]. split; [reflexivity|]. intros f t [].
  - fold (defs_fold P l (fst (define P f t s))).
    pose proof (define_ext P f t s) as E1.
    destruct (IH _ (ext_idem _ _ E1 Hid)) as [E2 [Hp Hd]].
    split; [eapply ext_trans; eauto|]. split; [rewrite Hp; apply define_pending|].
    intros f' t' [E|Hin].
    + inversion E; subst f' t'. eapply defined_ext; [exact E2|]. apply define_defined. exact Hid.
    + apply Hd. exact Hin.
Qed.

Lemma defs_fold_clean P l : forall s, new (defs_fold P l s) = [] -> defs_fold P l s = s.
Proof.
  induction l as [|[f t] l IH]; intros s H; cbn [defs_fold fold_left fst snd] in *; [reflexivity|].
  fold (defs_fold P l (fst (define P f t s))) in *.
  pose proof (IH _ H) as E1. rewrite E1 in H. rewrite E1.
  destruct (define_same_or_dirty P f t s) as [E|E]; [exact E | contradiction].
Qed.

Lemma apply_defs_spec P s : Idem s ->
  ext s (apply_defs P s) /\ pending (apply_defs P s) = [] /\
  forall f t, In (f, t) (pending s) -> defined (apply_defs P s) f t.
Proof.
  intros Hid. unfold apply_defs. fold (defs_fold P (pending s) (set_pending s [])).
  destruct (defs_fold_spec P (pending s) (set_pending s []) Hid) as [E [Hp Hd]].
  split; [|split; [exact Hp | exact Hd]].
  destruct E as [E1 E2 E3]. constructor; auto.
Qed.

Lemma apply_defs_clean P s : new (apply_defs P s) = [] -> apply_defs P s = set_pending s [].
Proof. unfold apply_defs. apply defs_fold_clean. Qed.

(* ---------- monotone steps preserve the invariants ---------- *)
Section Preserve.
  Variable src : list frule.

  Lemma ext_gholds s s' g :
    Idem s -> ext s s' -> (forall f t, In (f, t) (pending s) -> gholds s' (GDef f t)) ->
    gholds s g -> gholds s' g.
  Proof.
    intros Hid E Hp. apply gholds_mono; [| |exact Hp].
    - intros x. rewrite (ext_rep _ _ E). apply Hid.
    - intros x Hx. exists (snd x). split; [|reflexivity]. rewrite <- surjective_pairing.
      eapply ext_allf; eauto.
  Qed.

  Lemma ext_oldc s s' x : ext s s' -> in_oldc s' x -> in_oldc s x.
  Proof. intros [E1 E2 _]. unfold in_oldc. rewrite E1, E2. auto. Qed.

  Lemma ext_Inv s s' :
    Idem s -> ext s s' -> (forall f t, In (f, t) (pending s) -> gholds s' (GDef f t)) ->
    (Inv_sn src s -> Inv_sn src s') /\ (Inv_e src s -> Inv_e src s').
  Proof.
    intros Hid E Hp.
    assert (H1 : forall x, rep s' (rep s x) = rep s' x) by (intros x; rewrite (ext_rep _ _ E); apply Hid).
    assert (H2 : forall x, In x (allf s) ->
                 exists t', In (fst x, t') (allf s') /\ canon (rep s') t' = canon (rep s') (snd x)).
    { intros x Hx. exists (snd x). split; [|reflexivity]. rewrite <- surjective_pairing.
      eapply ext_allf; eauto. }
    split; intros HI.
    - eapply Inv_sn_mono; eauto. intros x. apply ext_oldc. exact E.
    - eapply Inv_e_mono; eauto.
  Qed.

  (* pending unchanged: the requests stay pending *)
  Lemma pend_same s s' : rep s' = rep s -> pending s' = pending s ->
    forall f t, In (f, t) (pending s) -> gholds s' (GDef f t).
  Proof.
    intros _ Hp f t Hin. cbn [gholds]. right. exists t. rewrite Hp. auto.
  Qed.

  Lemma equate_Inv a b s : Idem s ->
    (Inv_sn src s -> Inv_sn src (equate a b s)) /\ (Inv_e src s -> Inv_e src (equate a b s)).
  Proof.
    intros Hid. destruct (equate_fields a b s) as [F1 [F2 [F3 _]]].
    assert (H1 : forall x, rep (equate a b s) (rep s x) = rep (equate a b s) x)
      by (intros x; apply equate_coarse; exact Hid).
    assert (H2 : forall x, In x (allf s) -> exists t', In (fst x, t') (allf (equate a b s)) /\
                   canon (rep (equate a b s)) t' = canon (rep (equate a b s)) (snd x)).
    { intros x Hx. exists (snd x). split; [|reflexivity]. rewrite <- surjective_pairing.
      unfold allf. rewrite F1, F2. exact Hx. }
    assert (H3 : forall f t, In (f, t) (pending s) -> gholds (equate a b s) (GDef f t)).
    { intros f t Hin. cbn [gholds]. right. exists t. rewrite F3. auto. }
    split; intros HI.
    - eapply Inv_sn_mono; eauto. intros x [Ho C]. rewrite F1 in Ho. split; [exact Ho|].
      eapply is_canon_mono; [|exact C]. intros y. apply equate_root. exact Hid.
    - eapply Inv_e_mono; eauto.
  Qed.

  Lemma canonicalize_facts s x : Idem s -> In x (allf s) ->
    exists t', In (fst x, t') (allf (canonicalize s)) /\ canon (rep s) t' = canon (rep s) (snd x).
  Proof.
    intros Hid Hx. destruct (is_canon_dec (rep s) (snd x)) as [C|C].
    - exists (snd x). split; [|reflexivity]. rewrite <- surjective_pairing.
      unfold allf in *. apply in_app_or in Hx. apply in_or_app. destruct Hx as [Hx|Hx].
      + left. apply canonicalize_old. auto.
      + right. apply canonicalize_new. left. auto.
    - exists (canon (rep s) (snd x)). split; [|apply canon_canon; exact Hid].
      change (fst x, canon (rep s) (snd x)) with (canon_fact (rep s) x).
      unfold allf. apply in_or_app.
      destruct (in_dec fact_eq_dec (canon_fact (rep s) x) (old (canonicalize s))) as [I|I];
        [left; exact I|].
      right. apply canonicalize_new. right. exists x. repeat split; auto.
      intros H. apply I. apply canonicalize_old. exact H.
  Qed.

  Lemma canonicalize_Inv s : Idem s ->
    (Inv_sn src s -> Inv_sn src (canonicalize s)) /\ (Inv_e src s -> Inv_e src (canonicalize s)).
  Proof.
    intros Hid. destruct (canonicalize_fields s) as [F1 [F2 _]].
    assert (H1 : forall x, rep (canonicalize s) (rep s x) = rep (canonicalize s) x)
      by (intros x; rewrite F1; apply Hid).
    assert (H2 : forall x, In x (allf s) -> exists t', In (fst x, t') (allf (canonicalize s)) /\
                   canon (rep (canonicalize s)) t' = canon (rep (canonicalize s)) (snd x)).
    { rewrite F1. intros x Hx. apply canonicalize_facts; assumption. }
    assert (H3 : forall f t, In (f, t) (pending s) -> gholds (canonicalize s) (GDef f t)).
    { intros f t Hin. cbn [gholds]. right. exists t. rewrite F2. auto. }
    split; intros HI.
    - eapply Inv_sn_mono; eauto. intros x [Ho C]. apply canonicalize_old in Ho. rewrite F1 in C.
      split; tauto.
    - eapply Inv_e_mono; eauto.
  Qed.

  Lemma canonicalize_Canon s : Idem s -> Canon (canonicalize s).
  Proof.
    intros Hid. destruct (canonicalize_fields s) as [F1 _]. split.
    - intros x. rewrite F1. apply Hid.
    - intros x Hx. rewrite F1. unfold allf in Hx. apply in_app_or in Hx. destruct Hx as [Hx|Hx].
      + apply canonicalize_old in Hx. tauto.
      + apply canonicalize_new in Hx. destruct Hx as [[_ C]|[x0 [_ [_ [E _]]]]]; [exact C|].
        subst x. cbn [canon_fact snd]. apply canon_canon. exact Hid.
  Qed.
End Preserve.

(* ---------- the invariant of the states between API calls ---------- *)
Definition GInv (src : list frule) (s : state) : Prop :=
  Idem s /\ Inv_sn src s /\ pending s = [].

Section Close.
  Variables (P : fprogram) (src : list frule).
  Hypothesis Hwf : wf_rules (fp_rules P).
  Hypothesis Fam : FamOK src (fp_rules P).

  Lemma GInv_init : GInv src init.
  Proof.
    split; [intros x; reflexivity|]. split; [|reflexivity].
    intros ru sg Hru Hne Hm c Hc. destruct (fr_prem ru) as [|a l]; [congruence|].
    destruct (Hm a (or_introl eq_refl)) as [[] _].
  Qed.

  Lemma GInv_ext s s' : ext s s' -> pending s' = [] -> GInv src s -> GInv src s'.
  Proof.
    intros E Hp [Hid [HI Hp0]]. split; [eapply ext_idem; eauto|]. split; [|exact Hp].
    apply (ext_Inv src s s' Hid E); [|exact HI]. intros f t Hin. rewrite Hp0 in Hin. destruct Hin.
  Qed.

  Lemma GInv_new_el ty s : GInv src s -> GInv src (fst (new_el ty s)).
  Proof. intros H. eapply GInv_ext; [apply new_el_ext | | exact H]. apply H. Qed.

  Lemma GInv_insert x s : GInv src s -> GInv src (insert x s).
  Proof.
    intros H. eapply GInv_ext; [apply insert_ext | | exact H].
    destruct (insert_fields x s) as [_ [_ [Hp _]]]. rewrite Hp. apply H.
  Qed.

  Lemma GInv_define f args s : GInv src s -> GInv src (fst (define P f args s)).
  Proof.
    intros H. eapply GInv_ext; [apply define_ext | | exact H]. rewrite define_pending. apply H.
  Qed.

  Lemma GInv_equate a b s : GInv src s -> GInv src (equate a b s).
  Proof.
    intros [Hid [HI Hp]]. split; [apply equate_idem; exact Hid|]. split.
    - apply (equate_Inv src a b s Hid). exact HI.
    - destruct (equate_fields a b s) as [_ [_ [F _]]]. rewrite F. exact Hp.
  Qed.

  (* one iteration *)
  Lemma iter_inv s : Idem s -> Inv_sn src s ->
    Canon (exec_iter P s) /\ Inv_sn src (exec_iter P s) /\ Inv_e src (exec_iter P s).
  Proof.
    intros Hid HI. pose proof (exec_iter_astep P s Hwf Hid) as St. split; [|split].
    - eapply Canon_step; eauto.
    - eapply Inv_sn_step; eauto.
    - eapply Inv_e_step; eauto.
  Qed.

  Lemma defs_inv s : Idem s -> Inv_sn src s -> Inv_e src s ->
    Idem (apply_defs P s) /\ Inv_sn src (apply_defs P s) /\ Inv_e src (apply_defs P s) /\
    pending (apply_defs P s) = [].
  Proof.
    intros Hid HI HE. destruct (apply_defs_spec P s Hid) as [E [Hp Hd]].
    assert (Hpd : forall f t, In (f, t) (pending s) -> gholds (apply_defs P s) (GDef f t)).
    { intros f t Hin. cbn [gholds]. left. apply Hd. exact Hin. }
    destruct (ext_Inv src s _ Hid E Hpd) as [A B].
    split; [eapply ext_idem; eauto|]. auto.
  Qed.

  (* what the loop returns.  [e] is the state in which the condition was evaluated last. *)
  Lemma loop_spec cond fuel : forall s r b,
    Idem s -> Inv_sn src s -> exec_loop fuel P cond s = Some (r, b) ->
    GInv src r /\ Inv_e src r /\
    exists e, Canon e /\ cond e = b /\
      (if b then r = apply_defs P e else r = set_pending e [] /\ new e = []).
  Proof.
    induction fuel as [|k IH]; intros s r b Hid HI H; cbn [exec_loop] in H; [discriminate|].
    destruct (iter_inv s Hid HI) as [HC1 [HI1 HE1]].
    set (s1 := exec_iter P s) in *.
    destruct (defs_inv s1 (proj1 HC1) HI1 HE1) as [Hid2 [HI2 [HE2 Hp2]]].
    destruct (cond s1) eqn:Ec.
    - inversion H; subst r b. split; [split; [|split]; assumption|]. split; [assumption|].
      exists s1. auto.
    - destruct (is_dirty s1) eqn:Ed1.
      + apply (IH s1 r b (proj1 HC1) HI1 H).
      + destruct (is_dirty (apply_defs P s1)) eqn:Ed2.
        * apply (IH _ r b Hid2 HI2 H).
        * inversion H; subst r b. split; [split; [|split]; assumption|]. split; [assumption|].
          exists s1. split; [exact HC1|]. split; [exact Ec|].
          unfold is_dirty in Ed1, Ed2.
          destruct (new (apply_defs P s1)) eqn:En2; [|discriminate].
          destruct (new s1) eqn:En1; [|discriminate].
          split; [apply apply_defs_clean; exact En2 | reflexivity].
  Qed.

  Lemma set_pending_nil_GInv s : GInv src s -> set_pending s [] = s.
  Proof.
    intros [_ [_ Hp]]. destruct s as [r o n p i l]. cbn [pending] in Hp. subst p. reflexivity.
  Qed.

  (* close_until, from a state that satisfies the invariant *)
  Theorem close_until_spec cond fuel s r b :
    GInv src s -> exec_close_until fuel P cond s = Some (r, b) ->
    GInv src r /\
    exists e, Canon e /\ cond e = b /\
      (if b then r = e \/ r = apply_defs P e
       else r = set_pending e [] /\ new e = [] /\ Closed src r).
  Proof.
    intros [Hid [HI Hp]] H. unfold exec_close_until in H.
    pose proof (canonicalize_Canon s Hid) as HC0.
    destruct (canonicalize_Inv src s Hid) as [HI0 _]. specialize (HI0 HI).
    destruct (canonicalize_fields s) as [_ [Fp _]].
    assert (G0 : GInv src (canonicalize s)).
    { split; [exact (proj1 HC0)|]. split; [exact HI0 | congruence]. }
    destruct (cond (canonicalize s)) eqn:Ec.
    - inversion H; subst r b. split; [exact G0|]. exists (canonicalize s). auto.
    - rewrite (set_pending_nil_GInv _ G0) in H.
      destruct (loop_spec cond fuel _ r b (proj1 HC0) HI0 H) as [G [HE [e [HCe [Ece He]]]]].
      split; [exact G|]. exists e. split; [exact HCe|]. split; [exact Ece|].
      destruct b; [right; exact He|]. destruct He as [Er En]. split; [exact Er|]. split; [exact En|].
      destruct G as [Hidr [HIr Hpr]].
      apply clean_closed; auto.
      + subst r. destruct HCe as [A B]. split; [exact A | exact B].
      + subst r. split; [exact En | reflexivity].
  Qed.
End Close.

(* ---------- reachable states ---------- *)
(* facts asserted through the API (the "input" of the free model) *)
Inductive dfact := DRow (r : frel) (t : row) | DEq (a b : N) | DDef (f : N) (t : row).

Definition ids_lt (n : N) (t : row) : Prop := Forall (fun v => v < n) t.

(* [Reach P A s]: s is reached from the empty model by API calls (on existing elements) and by
   close_until calls that returned; A lists what the API calls asserted. *)
Inductive Reach (P : fprogram) : list dfact -> state -> Prop :=
  | R_init : Reach P [] init
  | R_new A s ty : Reach P A s ->
      Reach P (DRow (FTySet ty) [next_id s] :: A) (fst (new_el ty s))
  | R_insert A s r t : Reach P A s -> ids_lt (next_id s) t ->
      Reach P (DRow (FRel r) t :: A) (insert (FRel r, t) s)
  | R_define A s f t : Reach P A s -> ids_lt (next_id s) t ->
      Reach P (DDef f t :: A) (fst (define P f t s))
  | R_equate A s a b : Reach P A s -> a < next_id s -> b < next_id s ->
      Reach P (DEq a b :: A) (equate a b s)
  | R_close A s fuel cond r b : Reach P A s ->
      exec_close_until fuel P cond s = Some (r, b) -> Reach P A r.

Definition Reachable (P : fprogram) (s : state) : Prop := exists A, Reach P A s.

Section Reachable.
  Variables (P : fprogram) (src : list frule).
  Hypothesis Hwf : wf_rules (fp_rules P).
  Hypothesis Fam : FamOK src (fp_rules P).

  Lemma Reach_GInv A s : Reach P A s -> GInv src s.
  Proof.
    induction 1.
    - apply GInv_init.
    - apply GInv_new_el; assumption.
    - apply GInv_insert; assumption.
    - apply GInv_define; assumption.
    - apply GInv_equate; assumption.
    - destruct (close_until_spec P src Hwf Fam cond fuel s r b IHReach H0) as [G _]. exact G.
  Qed.

  (* C01 *)
  Theorem close_closed s fuel s' :
    Reachable P s -> exec_close_until fuel P (fun _ => false) s = Some (s', false) -> Closed src s'.
  Proof.
    intros [A HR] H. pose proof (Reach_GInv A s HR) as G.
    destruct (close_until_spec P src Hwf Fam _ fuel s s' false G H) as [_ [e [_ [_ [_ [_ HC]]]]]].
    exact HC.
  Qed.

  Theorem close_functional s fuel s' f nargs :
    Reachable P s -> exec_close_until fuel P (fun _ => false) s = Some (s', false) ->
    In (func_rule f nargs) src -> Functional s' f nargs.
  Proof.
    intros HR H Hin. eapply closed_functional; [|exact Hin]. eapply close_closed; eauto.
  Qed.

  (* C07 *)
  Definition cond_ext (cond : state -> bool) : Prop := forall s p, cond (set_pending s p) = cond s.
  Definition cond_mono (cond : state -> bool) : Prop :=
    forall s, cond s = true -> cond (apply_defs P s) = true.

  (* true: the condition held where it was evaluated (a canonical state e); the returned state is e
     or e with the pending definitions applied; a condition that is monotone under that step holds
     in the returned state. *)
  Theorem cu_true cond fuel s r :
    Reachable P s -> exec_close_until fuel P cond s = Some (r, true) ->
    (exists e, Canon e /\ cond e = true /\ (r = e \/ r = apply_defs P e)) /\
    (cond_mono cond -> cond r = true).
  Proof.
    intros [A HR] H. pose proof (Reach_GInv A s HR) as G.
    destruct (close_until_spec P src Hwf Fam cond fuel s r true G H) as [_ [e [HC [Ec He]]]].
    split; [exists e; auto|]. intros Hm. destruct He as [->| ->]; auto.
  Qed.

  Theorem cu_false cond fuel s r :
    Reachable P s -> exec_close_until fuel P cond s = Some (r, false) ->
    Closed src r /\ Clean r /\ Canon r /\ (cond_ext cond -> cond r = false).
  Proof.
    intros [A HR] H. pose proof (Reach_GInv A s HR) as G.
    destruct (close_until_spec P src Hwf Fam cond fuel s r false G H)
      as [_ [e [HC [Ec [Er [En Hcl]]]]]].
    split; [exact Hcl|]. subst r. split; [split; [exact En | reflexivity]|]. split.
    - destruct HC as [A1 A2]. split; [exact A1 | exact A2].
    - intros Hx. rewrite Hx. exact Ec.
  Qed.

  (* resumption: whatever close_until returned, the state satisfies the invariant of reachable
     states (in particular nothing is pending), so it is reachable and C01 applies to a later close *)
  Theorem cu_resume_inv cond fuel s r b :
    Reachable P s -> exec_close_until fuel P cond s = Some (r, b) -> GInv src r /\ Reachable P r.
  Proof.
    intros [A HR] H. split.
    - eapply Reach_GInv. eapply R_close; eauto.
    - exists A. eapply R_close; eauto.
  Qed.

  Theorem cu_resume cond fuel s r b fuel' r' :
    Reachable P s -> exec_close_until fuel P cond s = Some (r, b) ->
    exec_close_until fuel' P (fun _ => false) r = Some (r', false) -> Closed src r'.
  Proof.
    intros HR H H'. destruct (cu_resume_inv cond fuel s r b HR H) as [_ HR'].
    eapply close_closed; eauto.
  Qed.
End Reachable.
