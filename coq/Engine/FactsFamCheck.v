(* Engine/FactsFamCheck.v -- boolean checkers for the two hypotheses about the PROGRAM that the engine theorems carry:
   [FamOK src em] (every match of a source rule that uses a new row is enumerated by some emitted sub-rule) and
   [FamSound src em] (every emitted sub-rule is an aged copy of a source rule).

   [src] is a list of source flat rules (ages irrelevant) in which an implicit functionality rule appears literally as
   [func_rule f n].  The reference family of a source rule is what flat_eqlog/semi_naive.rs::to_semi_naive produces
   ([FactsFam.semi_naive]: sub-rule i has the atoms before i "all", atom i "new", the atoms after i "old"), and for a
   functionality rule the single sub-rule [func_sub f n] that the compiler emits.  The checkers compare the emitted
   sub-rules with the reference family up to the order of premise atoms ([covers_b]); they are SUFFICIENT syntactic
   criteria, not decision procedures for FamOK / FamSound.  In particular a family that enumerates a match twice
   (property C16) is rejected by [famok_check] although it still satisfies FamOK. *)
From Coq Require Import List Arith NArith Bool.
From Engine Require Import Model FactsBasic FactsInv FactsFam.
Import ListNotations.
Local Open Scope N_scope.

Lemma frule_eq_dec (a b : frule) : {a = b} + {a <> b}.
Proof. decide equality; [apply (list_eq_dec fconc_eq_dec) | apply (list_eq_dec fatom_eq_dec)]. Defined.

(* is [ru] literally a functionality rule? *)
Definition as_func (ru : frule) : option (N * nat) :=
  match fr_prem ru with
  | a :: _ =>
      match fa_rel a with
      | FRel f =>
          let n := pred (length (fa_args a)) in
          if frule_eq_dec ru (func_rule f n) then Some (f, n) else None
      | FTySet _ => None
      end
  | [] => None
  end.

Definition ref_family (ru : frule) : list frule :=
  match as_func ru with
  | Some (f, n) => [func_sub f n]
  | None => semi_naive ru
  end.
Definition ref_em (src : list frule) : list frule := flat_map ref_family src.

Definition famok_check (src em : list frule) : bool := covers_b (ref_em src) em.
Definition famsound_check (src em : list frule) : bool := covers_b em (ref_em src).

Lemma as_func_spec ru f n : as_func ru = Some (f, n) -> ru = func_rule f n.
Proof.
  unfold as_func. destruct (fr_prem ru) as [|a l]; [discriminate|].
  destruct (fa_rel a) as [f0|t]; [|discriminate].
  destruct (frule_eq_dec ru (func_rule f0 (pred (length (fa_args a))))) as [E|E]; [|discriminate].
  intros H. injection H as Hf Hn. subst f n. exact E.
Qed.

Lemma FamOK_ref_family ru : FamOK [ru] (ref_family ru).
Proof.
  unfold ref_family. destruct (as_func ru) as [[f n]|] eqn:E.
  - apply as_func_spec in E. subst ru. apply FamOK_func.
  - pose proof (emit_FamOK [ru]) as H. unfold emit in H. cbn [flat_map] in H. rewrite app_nil_r in H. exact H.
Qed.

Lemma FamSound_ref_family ru : FamSound [ru] (ref_family ru).
Proof.
  unfold ref_family. destruct (as_func ru) as [[f n]|] eqn:E.
  - apply as_func_spec in E. subst ru. apply FamSound_func.
  - pose proof (emit_FamSound [ru]) as H. unfold emit in H. cbn [flat_map] in H. rewrite app_nil_r in H. exact H.
Qed.

Lemma FamOK_nil : FamOK [] [].
Proof. intros ru []. Qed.
Lemma FamSound_nil : FamSound [] [].
Proof. intros ru []. Qed.

Lemma FamOK_ref_em src : FamOK src (ref_em src).
Proof.
  induction src as [|ru src IH]; [exact FamOK_nil|].
  change (ru :: src) with ([ru] ++ src). unfold ref_em. cbn [flat_map app].
  apply (FamOK_app [ru] (ref_family ru) src (flat_map ref_family src)); [apply FamOK_ref_family | exact IH].
Qed.

Lemma FamSound_ref_em src : FamSound src (ref_em src).
Proof.
  induction src as [|ru src IH]; [exact FamSound_nil|].
  change (ru :: src) with ([ru] ++ src). unfold ref_em. cbn [flat_map app].
  apply (FamSound_app [ru] (ref_family ru) src (flat_map ref_family src)); [apply FamSound_ref_family | exact IH].
Qed.

Theorem famok_check_sound src em : famok_check src em = true -> FamOK src em.
Proof.
  intros H. apply FamOK_cover with (em := ref_em src); [apply FamOK_ref_em|].
  apply covers_b_sound. exact H.
Qed.

Theorem famsound_check_sound src em : famsound_check src em = true -> FamSound src em.
Proof.
  intros H. apply FamSound_cover with (em := ref_em src); [apply FamSound_ref_em|].
  apply covers_b_sound. exact H.
Qed.

(* diagnostics for a failing check: the positions (in [ref_em src]) of reference sub-rules that no emitted sub-rule
   covers, and the positions (in [em]) of emitted sub-rules that are aged copies of no reference sub-rule *)
Definition covered_by (em' : list frule) (ru : frule) : bool :=
  existsb (fun ru' => (if list_eq_dec fconc_eq_dec (fr_conc ru') (fr_conc ru) then true else false)
                      && incl_b (fr_prem ru') (fr_prem ru)) em'.
Fixpoint positions_where {X} (p : X -> bool) (l : list X) (i : N) : list N :=
  match l with
  | [] => []
  | x :: l' => (if p x then [i] else []) ++ positions_where p l' (i + 1)
  end.
Definition famok_uncovered (src em : list frule) : list N :=
  positions_where (fun ru => negb (covered_by em ru)) (ref_em src) 0.
Definition famsound_foreign (src em : list frule) : list N :=
  positions_where (fun ru => negb (covered_by (ref_em src) ru)) em 0.
