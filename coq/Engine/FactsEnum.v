(* Engine/FactsEnum.v -- C15: every element of an enum type is a constructor value.
   E t = true : t is an enum type;  is_ctor f = true : f is a constructor.
   Type sets are the unary relations FTySet t (Model.v); rows enter them only through new_el (API),
   through define_ (API or apply_func_defs) and as canonical images of rows that are already there.

   Per-program / per-history obligations (what the harness has to check on the emitted code):
     RulesOK : every function f with fp_restype f in E that occurs in a CDef conclusion is a constructor;
     HistOK  : the history has no new_el t with t in E, and every define_ f of the history with
               fp_restype f in E is a constructor.
   (No insert into a type set exists: Reach.R_insert only inserts rows of FRel relations, on existing ids.) *)
From Coq Require Import List Arith NArith Bool Lia.
From Engine Require Import Model FactsBasic FactsInv FactsOps FactsClose FactsIds.
Import ListNotations.
Local Open Scope N_scope.
Arguments N.add : simpl never.
Arguments N.eqb : simpl never.

(* t = args ++ [v] ? (executable) *)
Fixpoint split_row (t : row) : option (row * N) :=
  match t with
  | [] => None
  | x :: t' =>
      match t' with
      | [] => Some ([], x)
      | _ => match split_row t' with Some (a, v) => Some (x :: a, v) | None => None end
      end
  end.

Lemma split_row_spec t a v : split_row t = Some (a, v) <-> t = a ++ [v].
Proof.
  revert a. induction t as [|x t IH]; intros a; cbn [split_row].
  - split; [discriminate|]. intros H. destruct a; discriminate.
  - destruct t as [|y t].
    + split.
      * intros H. inversion H; subst. reflexivity.
      * intros H. destruct a as [|z a]; [inversion H; reflexivity|].
        inversion H as [[H1 H2]]. destruct a; discriminate.
    + destruct (split_row (y :: t)) as [[a' v']|] eqn:S.
      * split.
        -- intros H. inversion H; subst. cbn [app]. f_equal. apply IH. reflexivity.
        -- intros H. destruct a as [|z a]; [discriminate|]. cbn [app] in H. inversion H as [[H1 H2]].
           apply IH in H2. inversion H2; subst. reflexivity.
      * split; [discriminate|]. intros H. destruct a as [|z a]; [discriminate|].
        cbn [app] in H. inversion H as [[H1 H2]]. apply IH in H2. discriminate.
Qed.

Lemma map_snoc_inv (g : N -> N) t' l v :
  map g t' = l ++ [v] -> exists a e, t' = a ++ [e] /\ map g a = l /\ g e = v.
Proof.
  intros H. destruct t' as [|x0 t0] eqn:Et.
  - cbn [map] in H. destruct l; discriminate.
  - assert (Hne : x0 :: t0 <> []) by discriminate.
    destruct (exists_last Hne) as [a [e Ea]]. rewrite Ea in H. rewrite map_app in H. cbn [map] in H.
    apply app_inj_tail in H. destruct H as [H1 H2]. exists a, e. auto.
Qed.

Section Enum.
  Variables (P : fprogram) (E : N -> bool) (is_ctor : N -> bool).

  (* e is, up to the current partition, the value of a constructor application *)
  Definition ctor_val (s : state) (t e : N) : Prop :=
    exists f args e', is_ctor f = true /\ restype P f = t /\
      In (FRel f, args ++ [e']) (allf s) /\ rep s e' = rep s e.

  Definition EnumInv (s : state) : Prop :=
    forall t e, E t = true -> In (FTySet t, [e]) (allf s) -> ctor_val s t e.

  Definition PendOK (s : state) : Prop :=
    forall f a, In (f, a) (pending s) -> E (restype P f) = true -> is_ctor f = true.

  Definition RulesOK : Prop :=
    forall ru f a, In ru (fp_rules P) -> In (CDef f a) (fr_conc ru) ->
      E (restype P f) = true -> is_ctor f = true.

  Definition HistOK (A : list dfact) : Prop :=
    (forall ty e, In (DRow (FTySet ty) [e]) A -> E ty = false) /\
    (forall f a, In (DDef f a) A -> E (restype P f) = true -> is_ctor f = true).

  Record EI (s : state) : Prop := { ei_idem : Idem s; ei_inv : EnumInv s; ei_pend : PendOK s }.

  (* ---------- the generic step ---------- *)
  Section Mono.
    Variables s s' : state.
    Hypothesis Hcoarse : forall x, rep s' (rep s x) = rep s' x.
    Hypothesis Hfacts : forall x, In x (allf s) ->
      exists t', In (fst x, t') (allf s') /\ canon (rep s') t' = canon (rep s') (snd x).

    Lemma ctor_val_mono t e e2 : ctor_val s t e -> rep s' e = rep s' e2 -> ctor_val s' t e2.
    Proof.
      intros [f [args [e' [Hc [Ht [Hin He]]]]]] E2.
      destruct (Hfacts _ Hin) as [t' [Hin' Ec]]. cbn [fst snd] in *.
      unfold canon in Ec. rewrite map_app in Ec. cbn [map] in Ec.
      destruct (map_snoc_inv _ _ _ _ Ec) as [a [e'' [-> [_ Ee]]]].
      exists f, a, e''. repeat split; auto.
      rewrite Ee, <- E2, <- (Hcoarse e'), <- (Hcoarse e). congruence.
    Qed.

    Lemma EnumInv_mono :
      (forall t e, E t = true -> In (FTySet t, [e]) (allf s') ->
         (exists e0, In (FTySet t, [e0]) (allf s) /\ rep s' e0 = rep s' e) \/ ctor_val s' t e) ->
      EnumInv s -> EnumInv s'.
    Proof.
      intros Ho HI t e Ht Hin. destruct (Ho t e Ht Hin) as [[e0 [Hin0 Ee]]|H]; [|exact H].
      eapply ctor_val_mono; [apply (HI t e0 Ht Hin0) | exact Ee].
    Qed.
  End Mono.

  (* steps that keep rep and old and add to new *)
  Lemma EnumInv_ext s s' : Idem s -> ext s s' ->
    (forall t e, E t = true -> In (FTySet t, [e]) (new s') ->
       In (FTySet t, [e]) (new s) \/ ctor_val s' t e) ->
    EnumInv s -> EnumInv s'.
  Proof.
    intros Hid Ex Hn. apply EnumInv_mono.
    - intros x. rewrite (ext_rep _ _ Ex). apply Hid.
    - intros x Hx. exists (snd x). split; [|reflexivity]. rewrite <- surjective_pairing.
      eapply ext_allf; eauto.
    - intros t e Ht Hin. unfold allf in Hin. rewrite (ext_old _ _ Ex) in Hin. apply in_app_or in Hin.
      destruct Hin as [Hin|Hin].
      + left. exists e. split; [unfold allf; apply in_or_app; auto | reflexivity].
      + destruct (Hn t e Ht Hin) as [H|H]; [|right; exact H].
        left. exists e. split; [unfold allf; apply in_or_app; auto | reflexivity].
  Qed.

  Lemma EI_insert r t s : EI s -> EI (insert (FRel r, t) s).
  Proof.
    intros [Hid HI Hp]. destruct (insert_fields (FRel r, t) s) as [F1 [F2 [F3 _]]]. constructor.
    - eapply ext_idem; [apply insert_ext | exact Hid].
    - apply (EnumInv_ext s _ Hid (insert_ext _ _)); [|exact HI].
      intros t0 e _ Hin. apply insert_new in Hin. destruct Hin as [Hin|[Eq _]]; [left; exact Hin|].
      discriminate.
    - unfold PendOK. rewrite F3. exact Hp.
  Qed.

  Lemma EI_insert_all l : forall s, (forall x, In x l -> exists r t, x = (FRel r, t)) ->
    EI s -> EI (insert_all l s).
  Proof.
    induction l as [|x l IH]; intros s Hl HE; cbn [insert_all fold_left]; [exact HE|].
    fold (insert_all l (insert x s)). apply IH; [intros y Hy; apply Hl; right; exact Hy|].
    destruct (Hl x (or_introl eq_refl)) as [r [t ->]]. apply EI_insert. exact HE.
  Qed.

  Lemma EI_new_el ty s : E ty = false -> EI s -> EI (fst (new_el ty s)).
  Proof.
    intros Hty [Hid HI Hp]. constructor.
    - eapply ext_idem; [apply new_el_ext | exact Hid].
    - apply (EnumInv_ext s _ Hid (new_el_ext ty s)); [|exact HI].
      intros t e Ht Hin. unfold new_el in Hin. cbn [fst new] in Hin. apply in_app_or in Hin.
      destruct Hin as [Hin|[Eq|[]]]; [left; exact Hin|]. inversion Eq; subst. congruence.
    - exact Hp.
  Qed.

  Lemma EI_equate a b s : EI s -> EI (equate a b s).
  Proof.
    intros [Hid HI Hp]. destruct (equate_fields a b s) as [F1 [F2 [F3 _]]]. constructor.
    - apply equate_idem. exact Hid.
    - apply (EnumInv_mono s); [intros x; apply equate_coarse; exact Hid| | |exact HI].
      + intros x Hx. exists (snd x). split; [|reflexivity]. rewrite <- surjective_pairing.
        unfold allf. rewrite F1, F2. exact Hx.
      + intros t e _ Hin. left. exists e. split; [|reflexivity]. unfold allf in *.
        rewrite F1, F2 in Hin. exact Hin.
    - unfold PendOK. rewrite F3. exact Hp.
  Qed.

  Lemma EI_equate_all l : forall s, EI s -> EI (equate_all l s).
  Proof.
    induction l as [|[a b] l IH]; intros s HE; cbn [equate_all fold_left fst snd]; [exact HE|].
    fold (equate_all l (equate a b s)). apply IH. apply EI_equate. exact HE.
  Qed.

  Lemma EI_canonicalize s : EI s -> EI (canonicalize s).
  Proof.
    intros [Hid HI Hp]. destruct (canonicalize_fields s) as [F1 [F2 _]]. constructor.
    - intros x. rewrite F1. apply Hid.
    - apply (EnumInv_mono s); [intros x; rewrite F1; apply Hid| | |exact HI].
      + rewrite F1. intros x Hx. apply canonicalize_facts; assumption.
      + intros t e _ Hin. left. rewrite F1. unfold allf in Hin. apply in_app_or in Hin.
        destruct Hin as [Hin|Hin].
        * apply canonicalize_old in Hin. exists e. split; [unfold allf; apply in_or_app; tauto | reflexivity].
        * apply canonicalize_new in Hin. destruct Hin as [[Hin _]|[x [Hx [_ [Eq _]]]]].
          -- exists e. split; [unfold allf; apply in_or_app; tauto | reflexivity].
          -- destruct x as [r0 t0]. unfold canon_fact in Eq. cbn [fst snd] in Eq.
             injection Eq as Er Et. subst r0.
             destruct t0 as [|e0 [|? ?]]; cbn [map] in Et; try discriminate.
             injection Et as Ee. subst e. exists e0. split; [exact Hx | symmetry; apply Hid].
    - unfold PendOK. rewrite F2. exact Hp.
  Qed.

  Lemma EI_move s : EI s -> EI (move s).
  Proof.
    intros [Hid HI Hp]. constructor; [exact Hid| |exact Hp].
    intros t e Ht Hin. apply (proj1 (move_allf s _)) in Hin.
    destruct (HI t e Ht Hin) as [f [args [e' [A1 [A2 [A3 A4]]]]]].
    exists f, args, e'. repeat split; auto. apply move_allf. exact A3.
  Qed.

  Lemma EI_define f t s : (E (restype P f) = true -> is_ctor f = true) -> EI s ->
    EI (fst (define P f t s)).
  Proof.
    intros Hf [Hid HI Hp]. pose proof (define_ext P f t s) as Ex. constructor.
    - eapply ext_idem; eauto.
    - apply (EnumInv_ext s _ Hid Ex); [|exact HI].
      intros t0 e Ht Hin.
      destruct (define_cases P f t s) as [[v [_ Ed]]|[_ Ed]]; rewrite Ed in *; cbn [fst] in *; [left; exact Hin|].
      set (a := map (rep s) t) in *. set (s1 := with_fresh P f a s) in *.
      apply insert_new in Hin. destruct Hin as [Hin|[Eq _]]; [|discriminate].
      unfold s1 in Hin. cbn [with_fresh new] in Hin. apply in_app_or in Hin.
      destruct Hin as [Hin|[Eq|[]]]; [left; exact Hin|]. inversion Eq; subst t0 e. right.
      pose proof (insert_present (FRel f, a ++ [next_id s]) s1) as Hpres.
      unfold canon_fact in Hpres. cbn [fst snd] in Hpres. rewrite map_app in Hpres. cbn [map] in Hpres.
      destruct (insert_fields (FRel f, a ++ [next_id s]) s1) as [Fr _].
      exists f, (map (rep s1) a), (rep s1 (next_id s)). repeat split; auto.
      rewrite Fr. change (rep s1) with (rep s). apply Hid.
    - unfold PendOK. rewrite define_pending. exact Hp.
  Qed.

  Lemma EI_defs_fold l : forall s,
    (forall f a, In (f, a) l -> E (restype P f) = true -> is_ctor f = true) ->
    EI s -> EI (defs_fold P l s).
  Proof.
    induction l as [|[f t] l IH]; intros s Hl HE; cbn [defs_fold fold_left fst snd]; [exact HE|].
    fold (defs_fold P l (fst (define P f t s))). apply IH.
    - intros f' a' Hin. apply (Hl f' a'). right. exact Hin.
    - apply EI_define; [apply (Hl f t); left; reflexivity | exact HE].
  Qed.

  Lemma EI_set_pending_nil s : EI s -> EI (set_pending s []).
  Proof. intros [Hid HI Hp]. constructor; [exact Hid | exact HI | intros f a []]. Qed.

  Lemma EI_apply_defs s : EI s -> EI (apply_defs P s).
  Proof.
    intros HE. unfold apply_defs. fold (defs_fold P (pending s) (set_pending s [])).
    apply EI_defs_fold; [exact (ei_pend _ HE) | apply EI_set_pending_nil; exact HE].
  Qed.

  Hypothesis HR : RulesOK.

  Lemma EI_iter s : EI s -> EI (exec_iter P s).
  Proof.
    intros HE. unfold exec_iter. set (D := collect (fp_rules P) s).
    pose proof (EI_move s HE) as E1.
    pose proof (EI_equate_all (geqs D) _ E1) as E2.
    pose proof (EI_canonicalize _ E2) as E3.
    assert (E4 : EI (insert_all (grels D) (canonicalize (equate_all (geqs D) (move s))))).
    { apply EI_insert_all; [|exact E3]. intros x Hx. destruct (in_grels_inv _ _ Hx) as [r [t [-> _]]]. eauto. }
    destruct E4 as [Hid HI Hp]. constructor; [exact Hid | exact HI|].
    intros f a Hin. cbn [set_pending pending] in Hin. apply in_app_or in Hin. destruct Hin as [Hin|Hin].
    - apply (Hp f a Hin).
    - apply in_gdefs in Hin. destruct (collect_sound _ _ _ Hin) as [ru [sg [c [Hru [_ [Hc Eg]]]]]].
      destruct c as [r args|x y|f' args]; cbn [ground] in Eg; try discriminate.
      inversion Eg; subst f'. apply (HR ru f args Hru Hc).
  Qed.

  Lemma EI_loop cond fuel : forall s r b, EI s -> exec_loop fuel P cond s = Some (r, b) -> EI r.
  Proof.
    induction fuel as [|k IH]; intros s r b HE H; cbn [exec_loop] in H; [discriminate|].
    pose proof (EI_iter s HE) as E1. pose proof (EI_apply_defs _ E1) as E2.
    destruct (cond (exec_iter P s)).
    - inversion H; subst. exact E2.
    - destruct (is_dirty (exec_iter P s)); [exact (IH _ _ _ E1 H)|].
      destruct (is_dirty (apply_defs P (exec_iter P s))); [exact (IH _ _ _ E2 H)|].
      inversion H; subst. exact E2.
  Qed.

  Lemma EI_close_until cond fuel s r b : EI s -> exec_close_until fuel P cond s = Some (r, b) -> EI r.
  Proof.
    intros HE H. unfold exec_close_until in H. pose proof (EI_canonicalize s HE) as E0.
    destruct (cond (canonicalize s)); [inversion H; subst; exact E0|].
    eapply EI_loop; [|exact H]. apply EI_set_pending_nil. exact E0.
  Qed.

  Lemma HistOK_tl d A : HistOK (d :: A) -> HistOK A.
  Proof.
    intros [H1 H2]. split; [intros ty e Hin; apply (H1 ty e); right; exact Hin|].
    intros f a Hin. apply (H2 f a). right. exact Hin.
  Qed.

  (* the invariant holds in every state reachable by a history that satisfies HistOK *)
  Theorem enum_inv A s : Reach P A s -> HistOK A -> EI s.
  Proof.
    induction 1 as [|A s ty HRe IH|A s r t HRe IH Hb|A s f t HRe IH Hb|A s a b HRe IH Ha Hb
                    |A s fuel cond r b HRe IH Hc]; intros HA.
    - constructor; [intros x; reflexivity | intros t e _ [] | intros f a []].
    - apply EI_new_el; [apply (proj1 HA ty (next_id s)); left; reflexivity|].
      apply IH. eapply HistOK_tl; eauto.
    - apply EI_insert. apply IH. eapply HistOK_tl; eauto.
    - apply EI_define; [apply (proj2 HA f t); left; reflexivity|]. apply IH. eapply HistOK_tl; eauto.
    - apply EI_equate. apply IH. eapply HistOK_tl; eauto.
    - eapply EI_close_until; [apply IH; exact HA | exact Hc].
  Qed.

  (* ---------- cases ---------- *)
  (* constructor applications whose value is e (rows of constructor tables with last column e) *)
  Definition cases (s : state) (t e : N) : list (N * row) :=
    flat_map (fun x : fact =>
                match fst x with
                | FRel f =>
                    if is_ctor f && N.eqb (restype P f) t then
                      match split_row (snd x) with
                      | Some (a, v) => if N.eqb v e then [(f, a)] else []
                      | None => []
                      end
                    else []
                | FTySet _ => []
                end) (allf s).

  Lemma in_cases s t e f a :
    In (f, a) (cases s t e) <-> is_ctor f = true /\ restype P f = t /\ In (FRel f, a ++ [e]) (allf s).
  Proof.
    unfold cases. rewrite in_flat_map. split.
    - intros [[r row0] [Hx Hin]]. cbn [fst snd] in Hin. destruct r as [f'|ty]; [|destruct Hin].
      destruct (is_ctor f' && N.eqb (restype P f') t) eqn:Eb; [|destruct Hin].
      apply andb_true_iff in Eb. destruct Eb as [Ec Et]. apply N.eqb_eq in Et.
      destruct (split_row row0) as [[a' v]|] eqn:S; [|destruct Hin].
      destruct (N.eqb v e) eqn:Ev; [|destruct Hin]. apply N.eqb_eq in Ev. subst v.
      destruct Hin as [Eq|[]]. inversion Eq; subst f' a'. apply split_row_spec in S. subst row0. auto.
    - intros [Hc [Ht Hin]]. exists (FRel f, a ++ [e]). split; [exact Hin|]. cbn [fst snd].
      rewrite Hc, Ht, N.eqb_refl. cbn [andb].
      assert (S : split_row (a ++ [e]) = Some (a, e)) by (apply split_row_spec; reflexivity).
      rewrite S, N.eqb_refl. left. reflexivity.
  Qed.

  (* the public query f(args) *)
  Definition eval_fun (s : state) (f : N) (args : row) : option N :=
    lookup_fun f (map (rep s) args) (new s ++ old s).

  Lemma canon_row_last s a e : Canon s -> In (FRel a, e) (allf s) -> forall v, In v e -> rep s v = v.
  Proof.
    intros [_ HC] Hin v Hv. pose proof (HC _ Hin) as C. cbn [snd] in C. apply is_canon_Forall in C.
    rewrite Forall_forall in C. apply C. exact Hv.
  Qed.

  Theorem case_total s : Canon s -> EnumInv s ->
    forall t e, E t = true -> In (FTySet t, [e]) (allf s) ->
      cases s t e <> [] /\
      forall f a, In (f, a) (cases s t e) ->
        exists v, eval_fun s f a = Some v /\ (Functional s f (length a) -> v = e).
  Proof.
    intros HC HI t e Ht Hin.
    assert (Hroot : rep s e = e).
    { destruct HC as [_ HC']. pose proof (HC' _ Hin) as C. cbn [snd] in C. unfold is_canon in C.
      cbn [map] in C. inversion C as [C1]. rewrite C1. exact C1. }
    split.
    - destruct (HI t e Ht Hin) as [f [args [e' [Hc [Hrt [Hrow He]]]]]].
      assert (Ee : e' = e).
      { rewrite <- Hroot, <- He. symmetry. eapply canon_row_last; eauto. apply in_or_app. right. left. reflexivity. }
      subst e'. intros Hnil. assert (Hc' : In (f, args) (cases s t e)) by (apply in_cases; auto).
      rewrite Hnil in Hc'. destruct Hc'.
    - intros f a Hc. apply in_cases in Hc. destruct Hc as [Hcf [Hrt Hrow]].
      assert (Ha : map (rep s) a = a).
      { rewrite <- (map_id a) at 2. apply map_ext_in. intros v Hv. eapply canon_row_last; eauto.
        apply in_or_app. left. exact Hv. }
      unfold eval_fun. rewrite Ha.
      destruct (lookup_fun f a (new s ++ old s)) as [v|] eqn:L.
      + exists v. split; [reflexivity|]. intros HF. apply lookup_fun_Some in L.
        assert (Hrow' : In (FRel f, a ++ [v]) (allf s)).
        { unfold allf. apply in_app_or in L. apply in_or_app. tauto. }
        pose proof (HF a v e eq_refl Hrow' Hrow) as Er.
        rewrite <- Hroot, <- Er. symmetry. eapply canon_row_last; eauto. apply in_or_app. right. left. reflexivity.
      + exfalso. apply (lookup_fun_None _ _ _ L e). unfold allf in Hrow.
        apply in_app_or in Hrow. apply in_or_app. tauto.
  Qed.

  (* define_ of a constructor returns an element that has this very application among its cases *)
  Theorem define_roundtrip f args s s' e :
    Idem s -> rep s (next_id s) = next_id s -> is_ctor f = true ->
    define P f args s = (s', e) -> In (f, map (rep s') args) (cases s' (restype P f) e).
  Proof.
    intros Hid Hfr Hc Hd. apply in_cases. split; [exact Hc|]. split; [reflexivity|].
    destruct (define_cases P f args s) as [[v [L Ed]]|[_ Ed]]; rewrite Ed in Hd; inversion Hd; subst s' e.
    - apply lookup_fun_Some in L. unfold allf. apply in_app_or in L. apply in_or_app. tauto.
    - set (a := map (rep s) args). set (s1 := with_fresh P f a s).
      pose proof (insert_present (FRel f, a ++ [next_id s]) s1) as Hpres.
      destruct (insert_fields (FRel f, a ++ [next_id s]) s1) as [Fr _]. rewrite Fr.
      change (rep s1) with (rep s) in *. unfold canon_fact in Hpres. cbn [fst snd] in Hpres.
      rewrite map_app in Hpres. cbn [map] in Hpres. rewrite Hfr in Hpres.
      assert (Ea : map (rep s) a = a).
      { unfold a. rewrite map_map. apply map_ext. intros x. apply Hid. }
      rewrite Ea in Hpres. exact Hpres.
  Qed.
End Enum.

Theorem define_roundtrip_WF P is_ctor f args s s' e :
  WF s -> is_ctor f = true -> define P f args s = (s', e) ->
  In (f, map (rep s') args) (cases P is_ctor s' (restype P f) e).
Proof.
  intros HW. apply define_roundtrip; [apply (wf_idem _ HW)|].
  apply (ids_above _ (wf_ids _ HW)). lia.
Qed.

Theorem enum_inv_rows P E is_ctor : RulesOK P E is_ctor ->
  forall A s, Reach P A s -> HistOK P E is_ctor A ->
  forall t e, E t = true -> In (FTySet t, [e]) (allf s) ->
    exists f args e', is_ctor f = true /\ restype P f = t /\
      In (FRel f, args ++ [e']) (allf s) /\ rep s e' = rep s e.
Proof. intros HR A s HRe HA. exact (ei_inv P E is_ctor s (enum_inv P E is_ctor HR A s HRe HA)). Qed.

(* after a close that returned false: every enum element has a case, and each case evaluates to it *)
Theorem case_total_closed P E is_ctor src A s fuel cond r :
  wf_rules (fp_rules P) -> FamOK src (fp_rules P) -> RulesOK P E is_ctor ->
  Reach P A s -> HistOK P E is_ctor A -> exec_close_until fuel P cond s = Some (r, false) ->
  forall t e, E t = true -> In (FTySet t, [e]) (allf r) ->
    rep r e = e /\ cases P is_ctor r t e <> [] /\
    forall f a, In (f, a) (cases P is_ctor r t e) ->
      In (func_rule f (length a)) src -> eval_fun r f a = Some e.
Proof.
  intros Hwf Fam HRu HRe HA H t e Ht Hin.
  assert (HRe' : Reach P A r) by (eapply R_close; eauto).
  pose proof (enum_inv P E is_ctor HRu A r HRe' HA) as HE.
  destruct (cu_false P src Hwf Fam cond fuel s r (ex_intro _ A HRe) H) as [Hcl [_ [HC _]]].
  destruct (case_total P E is_ctor r HC (ei_inv _ _ _ _ HE) t e Ht Hin) as [Hne Hev].
  split.
  - destruct HC as [_ HC']. pose proof (HC' _ Hin) as C. cbn [snd] in C. unfold is_canon in C.
    cbn [map] in C. inversion C as [C1]. rewrite C1. exact C1.
  - split; [exact Hne|]. intros f a Hc Hfr. destruct (Hev f a Hc) as [v [Ev Hv]]. rewrite Ev. f_equal.
    apply Hv. eapply closed_functional; eauto.
Qed.

(* ---------- checkers for the obligations, and the invariant for states computed by Run.run_state ---------- *)
From Engine Require Import Run FactsRun.

Definition rules_ok_b (P : fprogram) (E is_ctor : N -> bool) : bool :=
  forallb (fun ru => forallb (fun c => match c with
                                       | CDef f _ => implb (E (restype P f)) (is_ctor f)
                                       | _ => true
                                       end) (fr_conc ru)) (fp_rules P).

Lemma rules_ok_b_sound P E is_ctor : rules_ok_b P E is_ctor = true -> RulesOK P E is_ctor.
Proof.
  unfold rules_ok_b, RulesOK. rewrite forallb_forall. intros H ru f a Hru Hc He.
  specialize (H ru Hru). rewrite forallb_forall in H. specialize (H _ Hc). cbn in H.
  rewrite He in H. exact H.
Qed.

(* per-history obligation on an Ecall history *)
Definition call_enum_ok (P : fprogram) (E is_ctor : N -> bool) (c : Ecall) : bool :=
  match c with
  | ENew ty => negb (E ty)
  | EDefine f _ => implb (E (restype P f)) (is_ctor f)
  | _ => true
  end.

Lemma step_call_EI fuel P E is_ctor r c :
  RulesOK P E is_ctor -> call_enum_ok P E is_ctor c = true ->
  EI P E is_ctor (rs_state r) -> EI P E is_ctor (rs_state (step_call fuel P r c)).
Proof.
  intros HRu Hok HE. unfold step_call. destruct (rs_stuck r); [exact HE|].
  assert (Hclose : forall cc, EI P E is_ctor (rs_state (do_close fuel P cc r))).
  { intros cc. unfold do_close.
    pose proof (trace_close_until_exec P (eval_cond (rs_handles r) cc) fuel (rs_state r)) as Et.
    destruct (trace_close_until fuel P (eval_cond (rs_handles r) cc) (rs_state r)) as [[l [s' b]]|];
      cbn [option_map snd] in Et; cbn [rs_state]; [|exact HE].
    eapply EI_close_until; eauto. }
  destruct c as [ty|rl hs|f hs|a b| |cc]; cbn [call_enum_ok] in Hok.
  - pose proof (EI_new_el P E is_ctor ty (rs_state r)) as H. unfold new_el in *. cbn [fst rs_state] in *.
    apply H; [|exact HE]. apply negb_true_iff. exact Hok.
  - cbn [rs_state]. apply EI_insert. exact HE.
  - pose proof (EI_define P E is_ctor f (map (handle (rs_handles r)) hs) (rs_state r)) as H.
    destruct (define P f (map (handle (rs_handles r)) hs) (rs_state r)) as [s' e]. cbn [fst rs_state] in *.
    apply H; [|exact HE]. intros He. rewrite He in Hok. exact Hok.
  - cbn [rs_state]. apply EI_equate. exact HE.
  - apply Hclose.
  - apply Hclose.
Qed.

Lemma fold_call_EI fuel P E is_ctor : RulesOK P E is_ctor -> forall calls r,
  EI P E is_ctor (rs_state r) -> forallb (call_enum_ok P E is_ctor) calls = true ->
  EI P E is_ctor (rs_state (fold_left (step_call fuel P) calls r)).
Proof.
  intros HRu. induction calls as [|c calls IH]; intros r H0 Hok; cbn [fold_left]; [exact H0|].
  cbn [forallb] in Hok. apply andb_true_iff in Hok. destruct Hok as [Hc Hl].
  apply IH; [|exact Hl]. apply step_call_EI; assumption.
Qed.

Theorem run_enum_inv fuel P E is_ctor calls :
  RulesOK P E is_ctor -> forallb (call_enum_ok P E is_ctor) calls = true ->
  EI P E is_ctor (rs_state (run_state fuel P calls)).
Proof.
  intros HRu Hok. unfold run_state. apply fold_call_EI; [exact HRu| |exact Hok].
  cbn [rs_state]. constructor; [intros x; reflexivity | intros t e _ [] | intros f a []].
Qed.

(* every row of an enum type set has a case *)
Definition enum_total_b (P : fprogram) (E is_ctor : N -> bool) (s : state) : bool :=
  forallb (fun x : fact =>
             match fst x, snd x with
             | FTySet t, [e] => if E t then match cases P is_ctor s t e with [] => false | _ => true end else true
             | _, _ => true
             end) (old s ++ new s).
