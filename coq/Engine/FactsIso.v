(* Engine/FactsIso.v -- homomorphisms between closed reachable states, and from them: history
   independence (C03) and resumption of close_until up to isomorphism (C07). *)
From Coq Require Import List Arith NArith Bool Lia.
From Engine Require Import Model FactsBasic FactsInv FactsOps FactsClose FactsSound FactsIds FactsFam FactsIdem FactsStep FactsLeast.
Import ListNotations.
Local Open Scope N_scope.
Arguments N.add : simpl never.
Arguments N.eqb : simpl never.

(* ---------- dholds and renamings ---------- *)
Lemma dholds_ext s h g d : (forall x, In x (dids d) -> h x = g x) -> dholds s h d -> dholds s g d.
Proof.
  intros E. destruct d as [r t|a b|f t]; cbn [dholds dids] in *.
  - rewrite (map_ext_in h g t E). auto.
  - rewrite (E a), (E b) by (cbn [In]; auto). auto.
  - rewrite (map_ext_in h g t E). auto.
Qed.

Lemma dholds_dmap s g d : dholds s hid (dmap g d) <-> dholds s g d.
Proof.
  destruct d as [r t|a b|f t]; cbn [dholds dmap]; rewrite ?map_hid; unfold hid; tauto.
Qed.

Lemma dholdsm_strict s d : Canon s -> dholdsm s d -> dholds s hid d.
Proof.
  intros HC H. destruct d as [r t|a b|f t]; cbn [dholdsm dholds] in *; rewrite ?map_hid.
  - apply (fholds_strict s (r, t) HC H).
  - exact H.
  - destruct H as [t0 [v [Hin E]]]. destruct HC as [Hid HC']. pose proof (HC' _ Hin) as C. cbn [snd] in C.
    unfold is_canon, canon in *. exists v. rewrite <- E, C. exact Hin.
Qed.

(* ---------- existence of the map ---------- *)
Definition Lspec (s2 : state) (h : N -> N) (e f : N) (a : row) : Prop :=
  forall v, In (FRel f, canon (rep s2) (map h a) ++ [v]) (allf s2) -> rep s2 (h e) = v.

Lemma log_unique (L : list (N * N * row)) e f a f' a' :
  NoDup (map key L) -> In (e, f, a) L -> In (e, f', a') L -> f = f' /\ a = a'.
Proof.
  induction L as [|x L IH]; intros Hn H1 H2; [destruct H1|].
  cbn [map] in Hn. inversion Hn as [|? ? Hx Hn']; subst.
  destruct H1 as [E1|H1], H2 as [E2|H2].
  - subst x. inversion E2. auto.
  - subst x. exfalso. apply Hx. apply in_map_iff. exists (e, f', a'). auto.
  - subst x. exfalso. apply Hx. apply in_map_iff. exists (e, f, a). auto.
  - apply IH; auto.
Qed.

Section Exists.
  Variables (P : fprogram) (s1 s2 : state) (given : N -> bool) (g : N -> N).
  Hypothesis HL1 : LogOK s1.
  Hypothesis HF1 : LogFun P s1.
  Hypothesis HC2 : Canon s2.
  Hypothesis HF2 : FunAll P s2.

  Lemma hom_exists_upto (n : nat) : exists h,
    (forall e, given e = true -> h e = g e) /\
    (forall e f a, In (e, f, a) (log s1) -> given e = false -> (N.to_nat e < n)%nat -> Lspec s2 h e f a).
  Proof.
    induction n as [|n [h [Hg Hs]]].
    - exists g. split; [auto|]. intros e f a _ _ Hlt. lia.
    - set (e0 := N.of_nat n).
      destruct (given e0) eqn:Ge.
      { exists h. split; [exact Hg|]. intros e f a Hin Hge Hlt.
        destruct (N.eq_dec e e0) as [->|Hne]; [congruence|]. apply Hs; auto. unfold e0 in Hne. lia. }
      destruct (find (fun x => N.eqb (key x) e0) (log s1)) as [[[e' f0] a0]|] eqn:Fd.
      2:{ exists h. split; [exact Hg|]. intros e f a Hin Hge Hlt.
          destruct (N.eq_dec e e0) as [->|Hne].
          - exfalso. pose proof (find_none _ _ Fd _ Hin) as Hn. unfold key in Hn. cbn [fst] in Hn.
            rewrite N.eqb_refl in Hn. discriminate.
          - apply Hs; auto. unfold e0 in Hne. lia. }
      apply find_some in Fd. destruct Fd as [Hin0 Ek]. unfold key in Ek. cbn [fst] in Ek.
      apply N.eqb_eq in Ek. subst e'.
      set (val := match lookup_fun f0 (canon (rep s2) (map h a0)) (new s2 ++ old s2) with
                  | Some v => v | None => 0 end).
      set (h' := fun x => if N.eqb x e0 then val else h x).
      assert (Hsame : forall e f a, In (e, f, a) (log s1) -> e <= e0 -> map h' a = map h a).
      { intros e f a Hin Hle. apply map_ext_in. intros x Hx. unfold h'.
        destruct (proj2 HL1 _ _ _ Hin) as [_ Hlt]. unfold ids_lt in Hlt. rewrite Forall_forall in Hlt.
        specialize (Hlt x Hx). assert (E : N.eqb x e0 = false) by (apply N.eqb_neq; lia).
        rewrite E. reflexivity. }
      exists h'. split.
      + intros e Hge. unfold h'. destruct (N.eqb e e0) eqn:E; [|apply Hg; exact Hge].
        apply N.eqb_eq in E. congruence.
      + intros e f a Hin Hge Hlt. unfold Lspec. rewrite (Hsame e f a Hin) by (unfold e0; lia).
        destruct (N.eq_dec e e0) as [->|Hne].
        * destruct (log_unique _ _ _ _ _ _ (proj1 HL1) Hin Hin0) as [-> ->].
          intros v Hrow. unfold h'. rewrite N.eqb_refl. unfold val.
          destruct (lookup_fun f0 (canon (rep s2) (map h a0)) (new s2 ++ old s2)) as [v'|] eqn:Lk.
          -- apply lookup_fun_Some in Lk.
             assert (Hrow' : In (FRel f0, canon (rep s2) (map h a0) ++ [v']) (allf s2)).
             { unfold allf. apply in_app_or in Lk. apply in_or_app. tauto. }
             pose proof (HF2 f0 _ _ _ (HF1 _ _ _ Hin0) Hrow' Hrow) as E.
             rewrite (canon_row_elems s2 _ HC2 Hrow' v'), (canon_row_elems s2 _ HC2 Hrow v) in E;
               try (cbn [snd]; apply in_or_app; right; left; reflexivity).
             rewrite <- E. apply (canon_row_elems s2 _ HC2 Hrow'). cbn [snd]. apply in_or_app. right. left. reflexivity.
          -- exfalso. apply (lookup_fun_None _ _ _ Lk v). unfold allf in Hrow.
             apply in_app_or in Hrow. apply in_or_app. tauto.
        * assert (Hlt' : (N.to_nat e < n)%nat) by (unfold e0 in Hne; lia).
          intros v Hrow. unfold h'. assert (E : N.eqb e e0 = false) by (apply N.eqb_neq; exact Hne).
          rewrite E. apply (Hs e f a Hin Hge Hlt' v Hrow).
  Qed.

  Theorem hom_exists : exists h,
    (forall e, given e = true -> h e = g e) /\
    (forall e f a, In (e, f, a) (log s1) -> given e = false -> Lspec s2 h e f a).
  Proof.
    destruct (hom_exists_upto (N.to_nat (next_id s1))) as [h [Hg Hs]]. exists h. split; [exact Hg|].
    intros e f a Hin Hge. apply Hs; auto. destruct (proj2 HL1 _ _ _ Hin) as [Hlt _]. lia.
  Qed.
End Exists.

(* ---------- homomorphisms ---------- *)
Record hom (h : N -> N) (s1 s2 : state) : Prop := {
  hom_rows : forall x, In x (allf s1) -> In (fst x, canon (rep s2) (map h (snd x))) (allf s2);
  hom_eqs : forall x y, rep s1 x = rep s1 y -> rep s2 (h x) = rep s2 (h y)
}.

Section HomOf.
  Variables (P : fprogram) (A1 : list dfact) (s1 s2 : state) (h : N -> N).
  Hypothesis HR1 : Reach P A1 s1.
  Hypothesis HF1 : LogFun P s1.
  Hypothesis HC2 : Canon s2.
  Hypothesis Hcl2 : Closed (fp_rules P) s2.
  Hypothesis HW2 : WellTyped P s2.
  Hypothesis HA : forall d, In d A1 -> dholds s2 h d.
  Hypothesis HL : forall e f a, In (e, f, a) (log s1) -> Lspec s2 h e f a.

  Lemma hom_all d : Derivable P A1 (log s1) d -> dholds s2 h d.
  Proof.
    apply (hom_complete P A1 (log s1) s2 h HC2 Hcl2 (wt_fun _ _ HW2) (wt_res _ _ HW2) HA).
    intros e f a Hin. split; [apply (HF1 _ _ _ Hin) | apply (HL _ _ _ Hin)].
  Qed.

  Theorem hom_of : hom h s1 s2.
  Proof.
    constructor.
    - intros x Hx. apply (hom_all (DRow (fst x) (snd x))). apply (sound_rows P A1 s1 x HR1 Hx).
    - intros x y E. apply (hom_all (DEq x y)). apply (sound_merged P A1 s1 x y HR1 E).
  Qed.

  (* the term that names a logged element is defined in s2, and h maps the element to its value *)
  Lemma hom_logged e f a : In (e, f, a) (log s1) ->
    In (FRel f, canon (rep s2) (map h a) ++ [rep s2 (h e)]) (allf s2).
  Proof.
    intros Hin. pose proof (snd_log _ _ _ (proj1 (sound P A1 s1 HR1)) e f a Hin) as Hd.
    apply hom_all in Hd. cbn [dholds] in Hd. destruct Hd as [v Hrow].
    rewrite (HL _ _ _ Hin v Hrow). exact Hrow.
  Qed.
End HomOf.

(* ---------- the two homomorphisms are inverse to each other ---------- *)
Section Inverse.
  Variables (P : fprogram) (s1 s2 : state) (h12 h21 : N -> N) (given1 : N -> bool).
  Hypothesis H21 : hom h21 s2 s1.
  Hypothesis HC1 : Canon s1.
  Hypothesis HC2 : Canon s2.
  Hypothesis HF1 : FunAll P s1.
  Hypothesis HLF1 : LogFun P s1.
  Hypothesis HLO1 : LogOK s1.
  Hypothesis HLH1 : LogHolds s1.
  Hypothesis Horig : forall x, x < next_id s1 ->
    given1 x = true \/ (given1 x = false /\ exists f a, In (x, f, a) (log s1)).
  Hypothesis Hbase : forall x, x < next_id s1 -> given1 x = true -> rep s1 (h21 (h12 x)) = rep s1 x.
  Hypothesis Hlog12 : forall x f a, In (x, f, a) (log s1) -> given1 x = false ->
    In (FRel f, canon (rep s2) (map h12 a) ++ [rep s2 (h12 x)]) (allf s2).

  Theorem inverse_prop : forall x, x < next_id s1 -> rep s1 (h21 (h12 x)) = rep s1 x.
  Proof.
    intros x. induction x as [x IH] using (well_founded_induction N.lt_wf_0). intros Hx.
    destruct (Horig x Hx) as [Hg|[Hg [f [a Hin]]]]; [apply Hbase; assumption|].
    pose proof (Hlog12 x f a Hin Hg) as Hrow2.
    pose proof (hom_rows _ _ _ H21 _ Hrow2) as Hrow1. cbn [fst snd] in Hrow1.
    destruct (proj2 HLO1 _ _ _ Hin) as [_ Hlt].
    assert (Ea : canon (rep s1) (map h21 (canon (rep s2) (map h12 a) ++ [rep s2 (h12 x)])) =
                 canon (rep s1) a ++ [rep s1 (h21 (h12 x))]).
    { rewrite map_app, canon_app. cbn [map canon]. f_equal.
      - unfold canon. rewrite !map_map. apply map_ext_in. intros y Hy.
        unfold ids_lt in Hlt. rewrite Forall_forall in Hlt. specialize (Hlt y Hy).
        rewrite (hom_eqs _ _ _ H21 (rep s2 (h12 y)) (h12 y) (proj1 HC2 _)). apply IH; lia.
      - f_equal. apply (hom_eqs _ _ _ H21). apply (proj1 HC2). }
    rewrite Ea in Hrow1.
    pose proof (fholds_strict s1 _ HC1 (HLH1 _ _ _ Hin)) as Hrow0. cbn [fst snd] in Hrow0.
    rewrite canon_app in Hrow0. cbn [canon map] in Hrow0.
    pose proof (HF1 f _ _ _ (HLF1 _ _ _ Hin) Hrow1 Hrow0) as E.
    rewrite !(proj1 HC1) in E. exact E.
  Qed.
End Inverse.

(* every element occurs (through its root) in some row *)
Lemma occurs P A s : wf_rules (fp_rules P) -> Reach P A s -> Canon s ->
  forall y, y < next_id s -> exists x, In x (allf s) /\ In (rep s y) (snd x).
Proof.
  intros Hwf HR HC y Hy. pose proof (Reach_RInv P A s Hwf HR) as RI.
  destruct (proj2 (sound P A s HR) y Hy) as [[ty Hin]|[f [a Hin]]].
  - pose proof (fholds_strict s _ HC (ri_a _ _ RI _ Hin)) as H. cbn [fst snd canon map] in H.
    eexists. split; [exact H|]. left. reflexivity.
  - pose proof (fholds_strict s _ HC (ri_holds _ _ RI _ _ _ Hin)) as H. cbn [fst snd] in H.
    rewrite canon_app in H. eexists. split; [exact H|]. cbn [snd canon map]. apply in_or_app. right. left. reflexivity.
Qed.

(* ---------- isomorphism of states ---------- *)
(* s1 and s2 are isomorphic by a pair of mutually inverse (modulo the partitions) homomorphisms;
   h12 agrees with g on the elements designated by [fixd] (the caller's elements) *)
Definition Iso_states (fixd : N -> Prop) (g : N -> N) (s1 s2 : state) : Prop :=
  exists h12 h21, hom h12 s1 s2 /\ hom h21 s2 s1 /\
    (forall x, x < next_id s1 -> rep s1 (h21 (h12 x)) = rep s1 x) /\
    (forall y, y < next_id s2 -> rep s2 (h12 (h21 y)) = rep s2 y) /\
    (forall x, fixd x -> h12 x = g x).

Section ToVia.
  Variables (P : fprogram) (A2 : list dfact) (s1 s2 : state) (h12 h21 : N -> N).
  Hypothesis Hwf : wf_rules (fp_rules P).
  Hypothesis HR2 : Reach P A2 s2.
  Hypothesis HW1 : WF s1.
  Hypothesis HC1 : Canon s1.
  Hypothesis HC2 : Canon s2.
  Hypothesis H12 : hom h12 s1 s2.
  Hypothesis H21 : hom h21 s2 s1.
  Hypothesis Hinv1 : forall x, x < next_id s1 -> rep s1 (h21 (h12 x)) = rep s1 x.
  Hypothesis Hinv2 : forall y, y < next_id s2 -> rep s2 (h12 (h21 y)) = rep s2 y.

  Theorem iso_to_via : iso_via h12 s1 s2.
  Proof.
    split; [|split].
    - intros x y Hx Hy. split; [apply (hom_eqs _ _ _ H12)|].
      intros E. apply (hom_eqs _ _ _ H21) in E. rewrite (Hinv1 x Hx), (Hinv1 y Hy) in E. exact E.
    - intros r t Ht. split.
      + intros Hin. pose proof (hom_rows _ _ _ H12 _ Hin) as H. cbn [fst snd] in H.
        replace (canon (rep s2) (map h12 (canon (rep s1) t))) with (canon (rep s2) (map h12 t)) in H; [exact H|].
        unfold canon. rewrite !map_map. apply map_ext. intros x. symmetry.
        apply (hom_eqs _ _ _ H12). apply (proj1 HC1).
      + intros Hin. pose proof (hom_rows _ _ _ H21 _ Hin) as H. cbn [fst snd] in H.
        replace (canon (rep s1) (map h21 (canon (rep s2) (map h12 t)))) with (canon (rep s1) t) in H; [exact H|].
        unfold canon. rewrite !map_map. apply map_ext_in. intros x Hx. symmetry.
        unfold ids_lt in Ht. rewrite Forall_forall in Ht.
        rewrite (hom_eqs _ _ _ H21 (rep s2 (h12 x)) (h12 x) (proj1 HC2 _)). apply Hinv1. apply Ht. exact Hx.
    - intros y Hy. destruct (occurs P A2 s2 Hwf HR2 HC2 y Hy) as [x0 [Hin0 Hy0]].
      pose proof (hom_rows _ _ _ H21 _ Hin0) as H.
      pose proof (ids_rows _ (wf_ids _ HW1) _ H) as Hlt. cbn [snd] in Hlt. unfold ids_lt in Hlt.
      rewrite Forall_forall in Hlt.
      assert (Hx : rep s1 (h21 (rep s2 y)) < next_id s1).
      { apply Hlt. unfold canon. rewrite map_map. apply in_map_iff. exists (rep s2 y). auto. }
      exists (rep s1 (h21 (rep s2 y))). split; [exact Hx|].
      rewrite (hom_eqs _ _ _ H12 _ (h21 (rep s2 y)) (proj1 HC1 _)).
      pose proof (Reach_WF P A2 s2 Hwf HR2) as HW2.
      rewrite Hinv2 by (apply (ids_below _ (wf_ids _ HW2)); exact Hy). apply (proj1 HC2).
  Qed.
End ToVia.

(* ---------- C03: history independence ---------- *)
Definition logged (s : state) (e : N) : bool := existsb (fun x => N.eqb (key x) e) (log s).

Lemma logged_true s e : logged s e = true <-> exists f a, In (e, f, a) (log s).
Proof.
  unfold logged. rewrite existsb_exists. split.
  - intros [[[e' f] a] [Hin E]]. unfold key in E. cbn [fst] in E. apply N.eqb_eq in E. subst e'. eauto.
  - intros [f [a Hin]]. exists (e, f, a). split; [exact Hin|]. unfold key. cbn [fst]. apply N.eqb_refl.
Qed.

Lemma logged_key s e : logged s e = true <-> In e (map key (log s)).
Proof.
  rewrite logged_true, in_map_iff. split.
  - intros [f [a Hin]]. exists (e, f, a). auto.
  - intros [[[e' f] a] [E Hin]]. unfold key in E. cbn [fst] in E. subst e'. eauto.
Qed.

(* the asserted facts mention caller-created atoms only (elements returned by define_ are not reused) *)
Definition AtomsOnly (A : list dfact) (s : state) : Prop :=
  forall d x, In d A -> In x (dids d) -> logged s x = false.

(* the two histories assert the same set of facts, up to the renaming g12 / g21 of the caller's elements *)
Record SameFacts (A1 A2 : list dfact) (g12 g21 : N -> N) : Prop := {
  sf12 : forall d, In d A1 -> In (dmap g12 d) A2;
  sf21 : forall d, In d A2 -> In (dmap g21 d) A1;
  sf_inv1 : forall d x, In d A1 -> In x (dids d) -> g21 (g12 x) = x;
  sf_inv2 : forall d x, In d A2 -> In x (dids d) -> g12 (g21 x) = x
}.

Section Direction.
  Variables (P : fprogram) (A1 A2 : list dfact) (s1 s2 : state) (g12 : N -> N).
  Hypothesis Hwf : wf_rules (fp_rules P).
  Hypothesis HR1 : Reach P A1 s1.
  Hypothesis HR2 : Reach P A2 s2.
  Hypothesis HF1 : LogFun P s1.
  Hypothesis HC2 : Canon s2.
  Hypothesis Hcl2 : Closed (fp_rules P) s2.
  Hypothesis HW2 : WellTyped P s2.
  Hypothesis HAt : AtomsOnly A1 s1.
  Hypothesis Hsf : forall d, In d A1 -> In (dmap g12 d) A2.

  Lemma direction : exists h,
    (forall e, logged s1 e = false -> h e = g12 e) /\ hom h s1 s2 /\
    (forall e f a, In (e, f, a) (log s1) ->
       In (FRel f, canon (rep s2) (map h a) ++ [rep s2 (h e)]) (allf s2)).
  Proof.
    pose proof (Reach_RInv P A1 s1 Hwf HR1) as RI1. pose proof (Reach_RInv P A2 s2 Hwf HR2) as RI2.
    destruct (hom_exists P s1 s2 (fun e => negb (logged s1 e)) g12 (ri_log _ _ RI1) HF1 HC2 (wt_fun _ _ HW2))
      as [h [Hg Hs]].
    assert (Hg' : forall e, logged s1 e = false -> h e = g12 e).
    { intros e He. apply Hg. rewrite He. reflexivity. }
    assert (HL : forall e f a, In (e, f, a) (log s1) -> Lspec s2 h e f a).
    { intros e f a Hin. apply Hs; [exact Hin|].
      assert (E : logged s1 e = true) by (apply logged_true; eauto). rewrite E. reflexivity. }
    assert (HA : forall d, In d A1 -> dholds s2 h d).
    { intros d Hd. apply (dholds_ext s2 g12 h d).
      - intros x Hx. symmetry. apply Hg'. apply (HAt d x Hd Hx).
      - apply dholds_dmap. apply dholdsm_strict; [exact HC2|]. apply (ri_a _ _ RI2). apply Hsf. exact Hd. }
    exists h. split; [exact Hg'|]. split.
    - apply (hom_of P A1 s1 s2 h HR1 HF1 HC2 Hcl2 HW2 HA HL).
    - intros e f a Hin. apply (hom_logged P A1 s1 s2 h HR1 HF1 HC2 Hcl2 HW2 HA HL e f a Hin).
  Qed.
End Direction.

Theorem history_indep P A1 A2 s1 s2 g12 g21 :
  wf_rules (fp_rules P) -> Reach P A1 s1 -> Reach P A2 s2 ->
  Canon s1 -> Canon s2 -> Closed (fp_rules P) s1 -> Closed (fp_rules P) s2 ->
  WellTyped P s1 -> WellTyped P s2 -> AtomsOnly A1 s1 -> AtomsOnly A2 s2 ->
  SameFacts A1 A2 g12 g21 ->
  Iso_states (fun x => logged s1 x = false) g12 s1 s2.
Proof.
  intros Hwf HR1 HR2 HC1 HC2 Hcl1 Hcl2 HW1 HW2 At1 At2 SF.
  pose proof (Reach_RInv P A1 s1 Hwf HR1) as RI1. pose proof (Reach_RInv P A2 s2 Hwf HR2) as RI2.
  destruct (direction P A1 A2 s1 s2 g12 Hwf HR1 HR2 (wt_log _ _ HW1) HC2 Hcl2 HW2 At1 (sf12 _ _ _ _ SF))
    as [h12 [Hg12 [H12 Hl12]]].
  destruct (direction P A2 A1 s2 s1 g21 Hwf HR2 HR1 (wt_log _ _ HW2) HC1 Hcl1 HW1 At2 (sf21 _ _ _ _ SF))
    as [h21 [Hg21 [H21 Hl21]]].
  assert (Orig : forall A s, Reach P A s -> forall x, x < next_id s ->
            (negb (logged s x) = true) \/ (negb (logged s x) = false /\ exists f a, In (x, f, a) (log s))).
  { intros A s HR x Hx. destruct (logged s x) eqn:E; [right|left; reflexivity].
    split; [reflexivity|]. apply logged_true. exact E. }
  assert (Base : forall A A' s s' g g' h h', Reach P A s -> RInv A' s' ->
            (forall d, In d A -> In (dmap g d) A') ->
            (forall d x, In d A -> In x (dids d) -> g' (g x) = x) ->
            (forall e, logged s e = false -> h e = g e) -> (forall e, logged s' e = false -> h' e = g' e) ->
            forall x, x < next_id s -> negb (logged s x) = true -> rep s (h' (h x)) = rep s x).
  { intros A A' s s' g g' h h' HR RI' Hs Hi Hg Hg' x Hx Hlg. apply negb_true_iff in Hlg.
    destruct (proj2 (sound P A s HR) x Hx) as [[ty Hin]|[f [a Hin]]].
    - rewrite (Hg x Hlg). pose proof (Hs _ Hin) as Hin'. cbn [dmap map] in Hin'.
      assert (Hl' : logged s' (g x) = false).
      { destruct (logged s' (g x)) eqn:E; [|reflexivity]. exfalso.
        apply (ri_nl _ _ RI' ty (g x) Hin'). apply logged_key. exact E. }
      rewrite (Hg' _ Hl'). rewrite (Hi _ x Hin); [reflexivity | left; reflexivity].
    - assert (E : logged s x = true) by (apply logged_true; eauto). congruence. }
  exists h12, h21. split; [exact H12|]. split; [exact H21|]. split; [|split].
  - apply (inverse_prop P s1 s2 h12 h21 (fun e => negb (logged s1 e)) H21 HC1 HC2 (wt_fun _ _ HW1)
             (wt_log _ _ HW1) (ri_log _ _ RI1) (ri_holds _ _ RI1) (Orig A1 s1 HR1)).
    + apply (Base A1 A2 s1 s2 g12 g21 h12 h21 HR1 RI2 (sf12 _ _ _ _ SF) (sf_inv1 _ _ _ _ SF) Hg12 Hg21).
    + intros x f a Hin _. apply Hl12. exact Hin.
  - apply (inverse_prop P s2 s1 h21 h12 (fun e => negb (logged s2 e)) H12 HC2 HC1 (wt_fun _ _ HW2)
             (wt_log _ _ HW2) (ri_log _ _ RI2) (ri_holds _ _ RI2) (Orig A2 s2 HR2)).
    + apply (Base A2 A1 s2 s1 g21 g12 h21 h12 HR2 RI1 (sf21 _ _ _ _ SF) (sf_inv2 _ _ _ _ SF) Hg21 Hg12).
    + intros x f a Hin _. apply Hl21. exact Hin.
  - exact Hg12.
Qed.

Corollary history_indep_via P A1 A2 s1 s2 g12 g21 :
  wf_rules (fp_rules P) -> Reach P A1 s1 -> Reach P A2 s2 ->
  Canon s1 -> Canon s2 -> Closed (fp_rules P) s1 -> Closed (fp_rules P) s2 ->
  WellTyped P s1 -> WellTyped P s2 -> AtomsOnly A1 s1 -> AtomsOnly A2 s2 ->
  SameFacts A1 A2 g12 g21 ->
  exists h, (forall x, logged s1 x = false -> h x = g12 x) /\ iso_via h s1 s2.
Proof.
  intros Hwf HR1 HR2 HC1 HC2 Hcl1 Hcl2 HW1 HW2 At1 At2 SF.
  destruct (history_indep P A1 A2 s1 s2 g12 g21 Hwf HR1 HR2 HC1 HC2 Hcl1 Hcl2 HW1 HW2 At1 At2 SF)
    as [h12 [h21 [H12 [H21 [I1 [I2 Hfix]]]]]].
  exists h12. split; [exact Hfix|].
  apply (iso_to_via P A2 s1 s2 h12 h21 Hwf HR2 (Reach_WF P A1 s1 Hwf HR1) HC1 HC2 H12 H21 I1 I2).
Qed.

(* ---------- C07: two continuations of the same reachable state ---------- *)
Section Resume.
  Variables (P : fprogram) (A : list dfact) (s r1 r2 : state).
  Hypothesis Hwf : wf_rules (fp_rules P).
  Hypothesis HR : Reach P A s.
  Hypothesis HR1 : Reach P A r1.
  Hypothesis HR2 : Reach P A r2.
  Hypothesis St1 : stp s r1.
  Hypothesis St2 : stp s r2.

  Let given (e : N) : bool := N.ltb e (next_id s).

  (* a log entry of r1 below next_id s is an entry of s, hence of r2 *)
  Lemma old_entry ra rb e f a : stp s ra -> stp s rb -> In (e, f, a) (log ra) -> e < next_id s -> In (e, f, a) (log rb).
  Proof.
    intros Sa Sb Hin He. destruct (st_log _ _ Sa) as [La [Ea [_ Ha]]]. destruct (st_log _ _ Sb) as [Lb [Eb _]].
    rewrite Ea in Hin. apply in_app_or in Hin. destruct Hin as [Hin|Hin].
    - destruct (Ha _ _ _ Hin) as [G _]. lia.
    - rewrite Eb. apply in_or_app. right. exact Hin.
  Qed.

  Lemma resume_direction ra rb : Reach P A ra -> Reach P A rb -> stp s ra -> stp s rb ->
    Canon rb -> Closed (fp_rules P) rb -> WellTyped P rb -> LogFun P ra ->
    exists h, (forall e, e < next_id s -> h e = e) /\ hom h ra rb /\
      (forall e f a, In (e, f, a) (log ra) ->
         In (FRel f, canon (rep rb) (map h a) ++ [rep rb (h e)]) (allf rb)).
  Proof.
    intros HRa HRb Sa Sb HCb Hclb HWb HFa.
    pose proof (Reach_RInv P A ra Hwf HRa) as RIa. pose proof (Reach_RInv P A rb Hwf HRb) as RIb.
    pose proof (Reach_RInv P A s Hwf HR) as RIs.
    destruct (hom_exists P ra rb given hid (ri_log _ _ RIa) HFa HCb (wt_fun _ _ HWb)) as [h [Hg Hs]].
    assert (Hg' : forall e, e < next_id s -> h e = e).
    { intros e He. apply Hg. unfold given. apply N.ltb_lt. exact He. }
    assert (HL : forall e f a, In (e, f, a) (log ra) -> Lspec rb h e f a).
    { intros e f a Hin. destruct (given e) eqn:Ge; [|apply Hs; assumption].
      unfold given in Ge. apply N.ltb_lt in Ge.
      pose proof (old_entry ra rb e f a Sa Sb Hin Ge) as Hinb.
      destruct (proj2 (ri_log _ _ RIa) _ _ _ Hin) as [_ Hlt].
      assert (Ea : map h a = a).
      { rewrite <- (map_id a) at 2. apply map_ext_in. intros x Hx. apply Hg'.
        unfold ids_lt in Hlt. rewrite Forall_forall in Hlt. specialize (Hlt x Hx). lia. }
      intros v Hrow. rewrite Ea in Hrow. rewrite (Hg' e Ge).
      pose proof (fholds_strict rb _ HCb (ri_holds _ _ RIb _ _ _ Hinb)) as Hrow0. cbn [fst snd] in Hrow0.
      rewrite canon_app in Hrow0. cbn [canon map] in Hrow0.
      pose proof (wt_fun _ _ HWb f _ _ _ (wt_log _ _ HWb _ _ _ Hinb) Hrow0 Hrow) as E.
      rewrite (proj1 HCb) in E. rewrite E. apply (canon_row_elems rb _ HCb Hrow). cbn [snd].
      apply in_or_app. right. left. reflexivity. }
    assert (HA : forall d, In d A -> dholds rb h d).
    { intros d Hd. apply (dholds_ext rb hid h d).
      - intros x Hx. unfold hid. symmetry. apply Hg'. pose proof (ri_ids _ _ RIs d Hd) as Hl.
        unfold ids_lt in Hl. rewrite Forall_forall in Hl. apply Hl. exact Hx.
      - apply dholdsm_strict; [exact HCb|]. apply (ri_a _ _ RIb). exact Hd. }
    exists h. split; [exact Hg'|]. split.
    - apply (hom_of P A ra rb h HRa HFa HCb Hclb HWb HA HL).
    - intros e f a Hin. apply (hom_logged P A ra rb h HRa HFa HCb Hclb HWb HA HL e f a Hin).
  Qed.

  Hypothesis HC1 : Canon r1.
  Hypothesis HC2 : Canon r2.
  Hypothesis Hcl1 : Closed (fp_rules P) r1.
  Hypothesis Hcl2 : Closed (fp_rules P) r2.
  Hypothesis HW1 : WellTyped P r1.
  Hypothesis HW2 : WellTyped P r2.

  Theorem resume_iso :
    exists h, (forall e, e < next_id s -> rep r2 (h e) = rep r2 e) /\ iso_via h r1 r2.
  Proof.
    pose proof (Reach_RInv P A r1 Hwf HR1) as RI1. pose proof (Reach_RInv P A r2 Hwf HR2) as RI2.
    pose proof (Reach_RInv P A s Hwf HR) as RIs.
    destruct (resume_direction r1 r2 HR1 HR2 St1 St2 HC2 Hcl2 HW2 (wt_log _ _ HW1)) as [h12 [G12 [H12 L12]]].
    destruct (resume_direction r2 r1 HR2 HR1 St2 St1 HC1 Hcl1 HW1 (wt_log _ _ HW2)) as [h21 [G21 [H21 L21]]].
    assert (Orig : forall r, Reach P A r -> forall x, x < next_id r ->
              given x = true \/ (given x = false /\ exists f a, In (x, f, a) (log r))).
    { intros r HRr x Hx. unfold given. destruct (N.ltb x (next_id s)) eqn:E; [left; reflexivity|right].
      split; [reflexivity|]. apply N.ltb_ge in E.
      destruct (proj2 (sound P A r HRr) x Hx) as [[ty Hin]|H]; [|exact H].
      pose proof (ri_ids _ _ RIs _ Hin) as Hl. cbn [dids] in Hl. inversion Hl; subst. lia. }
    assert (I1 : forall x, x < next_id r1 -> rep r1 (h21 (h12 x)) = rep r1 x).
    { apply (inverse_prop P r1 r2 h12 h21 given H21 HC1 HC2 (wt_fun _ _ HW1) (wt_log _ _ HW1)
               (ri_log _ _ RI1) (ri_holds _ _ RI1) (Orig r1 HR1)).
      - intros x _ Hg. unfold given in Hg. apply N.ltb_lt in Hg. rewrite (G12 x Hg), (G21 x Hg). reflexivity.
      - intros x f a Hin _. apply L12. exact Hin. }
    assert (I2 : forall y, y < next_id r2 -> rep r2 (h12 (h21 y)) = rep r2 y).
    { apply (inverse_prop P r2 r1 h21 h12 given H12 HC2 HC1 (wt_fun _ _ HW2) (wt_log _ _ HW2)
               (ri_log _ _ RI2) (ri_holds _ _ RI2) (Orig r2 HR2)).
      - intros x _ Hg. unfold given in Hg. apply N.ltb_lt in Hg. rewrite (G21 x Hg), (G12 x Hg). reflexivity.
      - intros x f a Hin _. apply L21. exact Hin. }
    exists h12. split; [intros e He; rewrite (G12 e He); reflexivity|].
    apply (iso_to_via P A r1 r2 h12 h21 Hwf HR2 (Reach_WF P A r1 Hwf HR1) HC1 HC2 H12 H21 I1 I2).
  Qed.
End Resume.

(* the statement of C07_cu_resume_full, with the side conditions on the two closed states *)
Theorem cu_resume_iso P src A cond fuel s r b f1 f2 r1 r2 :
  wf_rules (fp_rules P) -> FamOK src (fp_rules P) -> FamErase src (fp_rules P) ->
  Reach P A s -> exec_close_until fuel P cond s = Some (r, b) ->
  exec_close_until f1 P (fun _ => false) r = Some (r1, false) ->
  exec_close_until f2 P (fun _ => false) s = Some (r2, false) ->
  WellTyped P r1 -> WellTyped P r2 ->
  exists h, (forall e, e < next_id s -> rep r2 (h e) = rep r2 e) /\ iso_via h r1 r2.
Proof.
  intros Hwf Fam FE HR H0 H1 H2 HW1 HW2.
  assert (HRr : Reach P A r) by exact (R_close P A s fuel cond r b HR H0).
  assert (HR1 : Reach P A r1) by exact (R_close P A r f1 _ r1 false HRr H1).
  assert (HR2 : Reach P A r2) by exact (R_close P A s f2 _ r2 false HR H2).
  pose proof (Reach_WF P A s Hwf HR) as HWs. pose proof (Reach_WF P A r Hwf HRr) as HWr.
  assert (St1 : stp s r1).
  { eapply stp_trans; [eapply stp_close_until; [exact Hwf | exact HWs | exact H0]|].
    eapply stp_close_until; [exact Hwf | exact HWr | exact H1]. }
  assert (St2 : stp s r2) by (eapply stp_close_until; [exact Hwf | exact HWs | exact H2]).
  destruct (cu_false P src Hwf Fam _ f1 r r1 (ex_intro _ A HRr) H1) as [Hcl1 [_ [HC1 _]]].
  destruct (cu_false P src Hwf Fam _ f2 s r2 (ex_intro _ A HR) H2) as [Hcl2 [_ [HC2 _]]].
  apply (resume_iso P A s r1 r2 Hwf HR HR1 HR2 St1 St2 HC1 HC2
           (Closed_erase _ _ _ FE Hcl1) (Closed_erase _ _ _ FE Hcl2) HW1 HW2).
Qed.

(* history independence for the results of two closes *)
Theorem history_indep_close P src A1 A2 s1 s2 f1 f2 c1 c2 r1 r2 g12 g21 :
  wf_rules (fp_rules P) -> FamOK src (fp_rules P) -> FamErase src (fp_rules P) ->
  Reach P A1 s1 -> Reach P A2 s2 ->
  exec_close_until f1 P c1 s1 = Some (r1, false) -> exec_close_until f2 P c2 s2 = Some (r2, false) ->
  WellTyped P r1 -> WellTyped P r2 -> AtomsOnly A1 r1 -> AtomsOnly A2 r2 ->
  SameFacts A1 A2 g12 g21 ->
  exists h, (forall x, logged r1 x = false -> h x = g12 x) /\ iso_via h r1 r2.
Proof.
  intros Hwf Fam FE HR1 HR2 H1 H2 HW1 HW2 At1 At2 SF.
  destruct (cu_false P src Hwf Fam _ f1 s1 r1 (ex_intro _ A1 HR1) H1) as [Hcl1 [_ [HC1 _]]].
  destruct (cu_false P src Hwf Fam _ f2 s2 r2 (ex_intro _ A2 HR2) H2) as [Hcl2 [_ [HC2 _]]].
  apply (history_indep_via P A1 A2 r1 r2 g12 g21 Hwf
           (R_close P A1 s1 f1 c1 r1 false HR1 H1) (R_close P A2 s2 f2 c2 r2 false HR2 H2) HC1 HC2
           (Closed_erase _ _ _ FE Hcl1) (Closed_erase _ _ _ FE Hcl2) HW1 HW2 At1 At2 SF).
Qed.
