(* Engine/FactsRefute.v -- statements that are false of the faithful model, with witnesses. *)
From Coq Require Import List NArith Bool Lia.
From Engine Require Import Model FactsBasic FactsInv FactsOps FactsClose FactsIds FactsRun Run ExSemilattice.
Import ListNotations.
Local Open Scope N_scope.

(* "define_ never creates an element for arguments whose application is already defined (on classes)",
   for every reachable state.  False between an equate_ and the next canonicalize: define_ roots its
   arguments and looks the rooted tuple up, but the row still mentions the uprooted element. *)
Definition define_no_dup_full : Prop :=
  forall P A s f args, Reach P A s -> defined s f args ->
    next_id (fst (define P f args s)) = next_id s.

(* h0 := new; h1 := new; h2 := define meet(h0,h0); equate(h1,h0)   -- now meet(h0,h0) = h2 is defined,
   the row is [h0;h0;h2] and h0 is uprooted; define meet(h0,h0) allocates another element. *)
Definition nodup_hist : list Ecall := [ENew El; ENew El; EDefine meet [0; 0]; EEquate 1 0].

Theorem define_no_dup_refuted : ~ define_no_dup_full.
Proof.
  intros H.
  assert (HR : Reachable semi (st nodup_hist)).
  { apply run_reachable; [exact semi_wf | vm_compute; reflexivity]. }
  destruct HR as [A HR]. specialize (H semi A (st nodup_hist) meet [0; 0] HR).
  assert (Hd : defined (st nodup_hist) meet [0; 0]).
  { exists [0; 0; 2], 2. split; [vm_compute; tauto | vm_compute; reflexivity]. }
  specialize (H Hd). vm_compute in H. discriminate.
Qed.
