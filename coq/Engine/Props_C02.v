(* Props_C02.v -- close() derives only what the rules force.
   Derivable P A L: least set containing the asserted facts A, closed under rule instances, equivalence,
   congruence, functionality of declared functions, and naming: the element logged in L for f(args)
   is the value of f(args) when f(args)! is derivable.  No hypotheses on the program. *)
From Coq Require Import List NArith Bool.
From Engine Require Import Model FactsBasic FactsInv FactsOps FactsClose FactsSound FactsIds FactsRun FactsRefute Run ExSemilattice.
Import ListNotations.
Local Open Scope N_scope.

(* the invariant, for every reachable state -- in particular at every return of close_until *)
Theorem C02_sound : forall P A s, Reach P A s -> Sound P A s /\ Origin A s.
Proof. exact sound. Qed.
Print Assumptions C02_sound.

Theorem C02_sound_rows : forall P A s x, Reach P A s -> In x (allf s) ->
  Derivable P A (log s) (DRow (fst x) (snd x)).
Proof. exact sound_rows. Qed.
Print Assumptions C02_sound_rows.

Theorem C02_sound_merged : forall P A s x y, Reach P A s -> rep s x = rep s y ->
  Derivable P A (log s) (DEq x y).
Proof. exact sound_merged. Qed.
Print Assumptions C02_sound_merged.

Theorem C02_sound_created : forall P A s e, Reach P A s -> e < next_id s ->
  (exists ty, In (DRow (FTySet ty) [e]) A) \/
  (exists f a, In (e, f, a) (log s) /\ Derivable P A (log s) (DDef f a)).
Proof. exact sound_created. Qed.
Print Assumptions C02_sound_created.

(* define_ creates nothing when the application is defined -- in canonical states, which is where
   apply_func_defs calls it (Canon_apply_defs: canonicity is kept along the calls) *)
Theorem C02_define_no_dup_partial : forall P f args s, Canon s ->
  (exists v, In (FRel f, canon (rep s) args ++ [v]) (allf s)) -> exists v, define P f args s = (s, v).
Proof. exact define_no_dup_canon. Qed.
Print Assumptions C02_define_no_dup_partial.

Theorem C02_apply_defs_canon : forall P s, WF s -> Canon s -> Canon (apply_defs P s).
Proof. exact Canon_apply_defs. Qed.
Print Assumptions C02_apply_defs_canon.

(* the unrestricted statement is FALSE of the model (and of the code): between equate_ and the next
   canonicalize, define_ looks up rooted arguments while the row still mentions the uprooted element *)
Definition C02_define_no_dup_full : Prop := define_no_dup_full.
Theorem C02_define_no_dup_refuted : ~ C02_define_no_dup_full.
Proof. exact define_no_dup_refuted. Qed.
Print Assumptions C02_define_no_dup_refuted.

(* the least-model characterisation (close_least) is established by comparison with the reference chase *)

(* ---- non-vacuity ---- *)
Example C02_ex_reach : exists A, Reach semi A (st (hist_two ++ [EClose])).
Proof. apply run_reachable; [exact semi_wf | vm_compute; reflexivity]. Qed.

(* the closed model of two generators has the created element 4 = meet(0,1) logged *)
Example C02_ex_log :
  existsb (fun e => N.eqb (fst (fst e)) 4) (log (st (hist_two ++ [EClose]))) = true /\
  rep (st (hist_two ++ [EClose])) 3 = 4.
Proof. vm_compute. split; reflexivity. Qed.
