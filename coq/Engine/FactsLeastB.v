(* Engine/FactsLeastB.v -- decidable versions of the side conditions of the least-model theorems
   (WellTyped, AtomsOnly, SameFacts), and the list of asserted facts of a Run.v history together with
   the proof that the computed state is reachable with exactly that list. *)
From Coq Require Import List Arith NArith Bool Lia.
From Engine Require Import Model FactsBasic FactsInv FactsOps FactsClose FactsSound FactsIds FactsFam FactsIdem
  Run FactsRun FactsEnum FactsStep FactsLeast FactsIso.
Import ListNotations.
Local Open Scope N_scope.
Arguments N.add : simpl never.
Arguments N.eqb : simpl never.

(* ---------- WellTyped ---------- *)
Definition fun_rows (P : fprogram) (s : state) : list (N * row * N) :=
  flat_map (fun x : fact =>
              match fst x with
              | FRel f => if is_function P f then
                            match split_row (snd x) with Some (a, v) => [(f, a, v)] | None => [] end
                          else []
              | FTySet _ => []
              end) (allf s).

Lemma in_fun_rows P s f a v :
  In (f, a, v) (fun_rows P s) <-> is_function P f = true /\ In (FRel f, a ++ [v]) (allf s).
Proof.
  unfold fun_rows. rewrite in_flat_map. split.
  - intros [[r t] [Hx Hin]]. cbn [fst snd] in Hin. destruct r as [f'|ty]; [|destruct Hin].
    destruct (is_function P f') eqn:Ef; [|destruct Hin].
    destruct (split_row t) as [[a' v']|] eqn:S; [|destruct Hin]. destruct Hin as [E|[]].
    inversion E; subst f' a' v'. apply split_row_spec in S. subst t. auto.
  - intros [Hf Hin]. exists (FRel f, a ++ [v]). split; [exact Hin|]. cbn [fst snd]. rewrite Hf.
    assert (S : split_row (a ++ [v]) = Some (a, v)) by (apply split_row_spec; reflexivity).
    rewrite S. left. reflexivity.
Qed.

Definition fun_all_b (P : fprogram) (s : state) : bool :=
  forallb (fun x : N * row * N =>
             forallb (fun y : N * row * N =>
                        if N.eqb (fst (fst x)) (fst (fst y)) && row_eqb (snd (fst x)) (snd (fst y))
                        then N.eqb (rep s (snd x)) (rep s (snd y)) else true)
                     (fun_rows P s))
          (fun_rows P s).

Lemma fun_all_b_sound P s : fun_all_b P s = true -> FunAll P s.
Proof.
  unfold fun_all_b. rewrite forallb_forall. intros H f a v w Hf Hv Hw.
  assert (Iv : In (f, a, v) (fun_rows P s)) by (apply in_fun_rows; auto).
  assert (Iw : In (f, a, w) (fun_rows P s)) by (apply in_fun_rows; auto).
  specialize (H _ Iv). rewrite forallb_forall in H. specialize (H _ Iw). cbn [fst snd] in H.
  rewrite N.eqb_refl in H. assert (E : row_eqb a a = true) by (apply row_eqb_eq; reflexivity).
  rewrite E in H. cbn [andb] in H. apply N.eqb_eq. exact H.
Qed.

Definition res_typed_b (P : fprogram) (s : state) : bool :=
  forallb (fun x : N * row * N => mem (FTySet (restype P (fst (fst x))), [snd x]) (allf s)) (fun_rows P s).

Lemma res_typed_b_sound P s : res_typed_b P s = true -> ResTyped P s.
Proof.
  unfold res_typed_b. rewrite forallb_forall. intros H f a v Hf Hin.
  assert (I : In (f, a, v) (fun_rows P s)) by (apply in_fun_rows; auto).
  specialize (H _ I). cbn [fst snd] in H. apply mem_In. exact H.
Qed.

Definition log_fun_b (P : fprogram) (s : state) : bool :=
  forallb (fun x : N * N * row => is_function P (snd (fst x))) (log s).

Lemma log_fun_b_sound P s : log_fun_b P s = true -> LogFun P s.
Proof.
  unfold log_fun_b. rewrite forallb_forall. intros H e f a Hin. apply (H _ Hin).
Qed.

Definition well_typed_b (P : fprogram) (s : state) : bool :=
  fun_all_b P s && res_typed_b P s && log_fun_b P s.

Lemma well_typed_b_sound P s : well_typed_b P s = true -> WellTyped P s.
Proof.
  unfold well_typed_b. intros H. apply andb_true_iff in H. destruct H as [H H3].
  apply andb_true_iff in H. destruct H as [H1 H2].
  constructor; [apply fun_all_b_sound | apply res_typed_b_sound | apply log_fun_b_sound]; assumption.
Qed.

(* ---------- AtomsOnly, SameFacts ---------- *)
Definition atoms_only_b (A : list dfact) (s : state) : bool :=
  forallb (fun d => forallb (fun x => negb (logged s x)) (dids d)) A.

Lemma atoms_only_b_sound A s : atoms_only_b A s = true -> AtomsOnly A s.
Proof.
  unfold atoms_only_b. rewrite forallb_forall. intros H d x Hd Hx. specialize (H d Hd).
  rewrite forallb_forall in H. specialize (H x Hx). apply negb_true_iff. exact H.
Qed.

Lemma dfact_eq_dec (a b : dfact) : {a = b} + {a <> b}.
Proof. decide equality; try apply N.eq_dec; try apply row_eq_dec; apply frel_eq_dec. Defined.

Definition memd (d : dfact) (A : list dfact) : bool := if in_dec dfact_eq_dec d A then true else false.

Definition same_facts_b (A1 A2 : list dfact) (g12 g21 : N -> N) : bool :=
  forallb (fun d => memd (dmap g12 d) A2) A1 && forallb (fun d => memd (dmap g21 d) A1) A2 &&
  forallb (fun d => forallb (fun x => N.eqb (g21 (g12 x)) x) (dids d)) A1 &&
  forallb (fun d => forallb (fun x => N.eqb (g12 (g21 x)) x) (dids d)) A2.

Lemma same_facts_b_sound A1 A2 g12 g21 : same_facts_b A1 A2 g12 g21 = true -> SameFacts A1 A2 g12 g21.
Proof.
  unfold same_facts_b. intros H. apply andb_true_iff in H. destruct H as [H H4].
  apply andb_true_iff in H. destruct H as [H H3]. apply andb_true_iff in H. destruct H as [H1 H2].
  rewrite forallb_forall in H1, H2, H3, H4. constructor.
  - intros d Hd. specialize (H1 d Hd). unfold memd in H1.
    destruct (in_dec dfact_eq_dec (dmap g12 d) A2); [assumption | discriminate].
  - intros d Hd. specialize (H2 d Hd). unfold memd in H2.
    destruct (in_dec dfact_eq_dec (dmap g21 d) A1); [assumption | discriminate].
  - intros d x Hd Hx. specialize (H3 d Hd). rewrite forallb_forall in H3. apply N.eqb_eq. apply (H3 x Hx).
  - intros d x Hd Hx. specialize (H4 d Hd). rewrite forallb_forall in H4. apply N.eqb_eq. apply (H4 x Hx).
Qed.

(* ---------- the asserted facts of a Run.v history ---------- *)
Definition call_A (r : rstate) (c : Ecall) : list dfact :=
  let hd := rs_handles r in
  match c with
  | ENew ty => [DRow (FTySet ty) [next_id (rs_state r)]]
  | EInsert rl hs => [DRow (FRel rl) (map (handle hd) hs)]
  | EDefine f hs => [DDef f (map (handle hd) hs)]
  | EEquate a b => [DEq (handle hd a) (handle hd b)]
  | EClose | ECloseUntil _ => []
  end.

Fixpoint run_A_from (fuel : nat) (P : fprogram) (r : rstate) (calls : list Ecall) (A : list dfact) : list dfact :=
  match calls with
  | [] => A
  | c :: l => run_A_from fuel P (step_call fuel P r c) l (if rs_stuck r then A else call_A r c ++ A)
  end.

Definition run_A (fuel : nat) (P : fprogram) (calls : list Ecall) : list dfact :=
  run_A_from fuel P {| rs_state := init; rs_handles := []; rs_outs := []; rs_stuck := false |} calls [].

Definition RIA (P : fprogram) (n : nat) (A : list dfact) (r : rstate) : Prop :=
  Reach P A (rs_state r) /\ Forall (fun e => e < next_id (rs_state r)) (rs_handles r) /\
  (rs_stuck r = false -> length (rs_handles r) = n).

Lemma do_close_RIA fuel P c n A r : rs_stuck r = false -> RIA P n A r -> RIA P n A (do_close fuel P c r).
Proof.
  intros Hs [HR [Hh Hn]]. unfold do_close.
  pose proof (trace_close_until_exec P (eval_cond (rs_handles r) c) fuel (rs_state r)) as E.
  destruct (trace_close_until fuel P (eval_cond (rs_handles r) c) (rs_state r)) as [[l [s' b]]|];
    cbn [option_map snd] in E.
  - split; [|split]; cbn [rs_state rs_handles rs_stuck].
    + eapply R_close; eauto.
    + eapply Forall_lt_mono; [|exact Hh]. eapply close_until_next_id_le; eauto.
    + intros _. apply Hn. exact Hs.
  - split; [|split]; cbn [rs_state rs_handles rs_stuck]; [exact HR | exact Hh | discriminate].
Qed.

Lemma step_call_RIA fuel P n A r c :
  wf_rules (fp_rules P) -> call_ok n c = true -> RIA P n A r ->
  RIA P (match c with ENew _ | EDefine _ _ => S n | _ => n end)
      (if rs_stuck r then A else call_A r c ++ A) (step_call fuel P r c).
Proof.
  intros Hwf Hok HRI. unfold step_call. destruct (rs_stuck r) eqn:Es.
  { destruct HRI as [HR [Hh Hn]]. split; [exact HR|]. split; [exact Hh|]. intros E. congruence. }
  pose proof HRI as [HR [Hh Hn]]. specialize (Hn Es).
  destruct c as [ty|rl hs|f hs|a b| |cc]; cbn [call_ok call_A app] in *.
  - unfold new_el. split; [|split]; cbn [rs_state rs_handles rs_stuck next_id].
    + apply (R_new P A (rs_state r) ty HR).
    + apply Forall_app. split; [eapply Forall_lt_mono; [|exact Hh]; lia|]. constructor; [lia|constructor].
    + intros _. rewrite app_length. cbn [length]. lia.
  - rewrite <- Hn in Hok. pose proof (handles_lt _ _ _ Hh Hok) as Hlt.
    split; [|split]; cbn [rs_state rs_handles rs_stuck].
    + apply (R_insert P A (rs_state r) rl _ HR Hlt).
    + destruct (insert_fields (FRel rl, map (handle (rs_handles r)) hs) (rs_state r)) as [_ [_ [_ [F4 _]]]].
      rewrite F4. exact Hh.
    + intros _. exact Hn.
  - rewrite <- Hn in Hok. pose proof (handles_lt _ _ _ Hh Hok) as Hlt.
    pose proof (R_define P A (rs_state r) f _ HR Hlt) as HR'.
    pose proof (define_next_id_le P f (map (handle (rs_handles r)) hs) (rs_state r)) as Hle.
    assert (Hres : snd (define P f (map (handle (rs_handles r)) hs) (rs_state r)) <
                   next_id (fst (define P f (map (handle (rs_handles r)) hs) (rs_state r)))).
    { destruct (define_cases P f (map (handle (rs_handles r)) hs) (rs_state r)) as [[v [L E]]|[_ E]];
        rewrite E; cbn [fst snd].
      - apply lookup_fun_Some in L.
        pose proof (ids_rows _ (wf_ids _ (Reach_WF P A (rs_state r) Hwf HR))) as HI.
        assert (Hall : In (FRel f, map (rep (rs_state r)) (map (handle (rs_handles r)) hs) ++ [v]) (allf (rs_state r))).
        { unfold allf. apply in_app_or in L. apply in_or_app. tauto. }
        specialize (HI _ Hall). cbn [snd] in HI. unfold ids_lt in HI. rewrite Forall_forall in HI.
        apply HI. apply in_or_app. right. left. reflexivity.
      - match goal with |- context [insert ?x ?s0] => destruct (insert_fields x s0) as [_ [_ [_ [F4 _]]]] end.
        rewrite F4. cbn [with_fresh next_id]. lia. }
    destruct (define P f (map (handle (rs_handles r)) hs) (rs_state r)) as [s' e] eqn:Ed.
    cbn [fst snd] in *. split; [|split]; cbn [rs_state rs_handles rs_stuck].
    + exact HR'.
    + apply Forall_app. split; [eapply Forall_lt_mono; [|exact Hh]; exact Hle|]. constructor; [exact Hres|constructor].
    + intros _. rewrite app_length. cbn [length]. lia.
  - rewrite <- Hn in Hok. unfold hs_ok in Hok. cbn [forallb] in Hok.
    apply andb_true_iff in Hok. destruct Hok as [Ha Hb]. apply andb_true_iff in Hb. destruct Hb as [Hb _].
    apply Nat.ltb_lt in Ha, Hb.
    pose proof (handle_lt _ a _ Hh Ha) as La. pose proof (handle_lt _ b _ Hh Hb) as Lb.
    split; [|split]; cbn [rs_state rs_handles rs_stuck].
    + apply (R_equate P A (rs_state r) _ _ HR La Lb).
    + destruct (equate_fields (handle (rs_handles r) a) (handle (rs_handles r) b) (rs_state r)) as [_ [_ [_ [F4 _]]]].
      rewrite F4. exact Hh.
    + intros _. exact Hn.
  - apply do_close_RIA; assumption.
  - apply do_close_RIA; assumption.
Qed.

Lemma run_fold_RIA fuel P : wf_rules (fp_rules P) -> forall calls n A r,
  RIA P n A r -> calls_ok n calls = true ->
  exists m, RIA P m (run_A_from fuel P r calls A) (fold_left (step_call fuel P) calls r).
Proof.
  intros Hwf. induction calls as [|c calls IH]; intros n A r HRI Hok; cbn [fold_left run_A_from]; [exists n; exact HRI|].
  cbn [calls_ok] in Hok. apply andb_true_iff in Hok. destruct Hok as [Hc Hl].
  eapply IH; [|exact Hl]. apply step_call_RIA; assumption.
Qed.

(* the state computed from a history with valid handles is reachable, with the computed list of assertions *)
Theorem run_reach_A fuel P calls :
  wf_rules (fp_rules P) -> calls_ok 0 calls = true ->
  Reach P (run_A fuel P calls) (rs_state (run_state fuel P calls)).
Proof.
  intros Hwf Hok. unfold run_state, run_A.
  set (r0 := {| rs_state := init; rs_handles := []; rs_outs := []; rs_stuck := false |}).
  assert (H0 : RIA P 0%nat [] r0).
  { split; [apply R_init|]. cbn [r0 rs_state rs_handles rs_stuck]. split; [constructor | reflexivity]. }
  destruct (run_fold_RIA fuel P Hwf calls 0%nat [] r0 H0 Hok) as [m [HR _]]. exact HR.
Qed.
