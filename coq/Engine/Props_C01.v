(* Props_C01.v -- close() reaches a fixed point.
   Hypotheses of every theorem:  wf_rules (conclusion variables occur in the premise; decidable, checked per
   program by wf_rules_b) and FamOK src em (the emitted sub-rule families cover every match that uses a new
   row; C16 proves it from the shape of to_semi_naive; FactsFam.emit_FamOK/FamOK_func show it for the Gallina
   copy of to_semi_naive and for the single functionality sub-rule). *)
From Coq Require Import List NArith Bool.
From Engine Require Import Model FactsBasic FactsInv FactsOps FactsClose FactsFam FactsRun Run ExSemilattice.
Import ListNotations.

(* the relational core *)
Theorem C01_Inv_sn_step : forall em s s' D, astep em s s' D ->
  forall src, FamOK src em -> Inv_sn src s -> Inv_sn src s'.
Proof. exact Inv_sn_step. Qed.
Print Assumptions C01_Inv_sn_step.

Theorem C01_clean_closed : forall src s,
  Canon s -> Inv_sn src s -> Inv_e src s -> Clean s -> Closed src s.
Proof. exact clean_closed. Qed.
Print Assumptions C01_clean_closed.

(* the executable iteration is an instance of the relational step *)
Theorem C01_exec_iter_astep : forall P s, wf_rules (fp_rules P) -> Idem s ->
  astep (fp_rules P) s (exec_iter P s) (collect (fp_rules P) s).
Proof. exact exec_iter_astep. Qed.
Print Assumptions C01_exec_iter_astep.

(* C01: from every reachable state, a close() that returns yields a model closed under every source flat rule *)
Theorem C01_close_closed : forall P src, wf_rules (fp_rules P) -> FamOK src (fp_rules P) ->
  forall s fuel s', Reachable P s ->
  exec_close_until fuel P (fun _ => false) s = Some (s', false) -> Closed src s'.
Proof. exact close_closed. Qed.
Print Assumptions C01_close_closed.

(* functionality is the rule func_rule f n *)
Theorem C01_close_functional : forall P src, wf_rules (fp_rules P) -> FamOK src (fp_rules P) ->
  forall s fuel s' f nargs, Reachable P s ->
  exec_close_until fuel P (fun _ => false) s = Some (s', false) ->
  In (func_rule f nargs) src -> Functional s' f nargs.
Proof. exact close_functional. Qed.
Print Assumptions C01_close_functional.

(* the boolean closedness test used on dumps is sound *)
Theorem C01_closed_b_sound : forall src s, wf_rules src -> closed_b src s = true -> Closed src s.
Proof. exact closed_b_sound. Qed.
Print Assumptions C01_closed_b_sound.

(* the intended families satisfy FamOK *)
Theorem C01_emit_FamOK : forall src, FamOK src (emit src).
Proof. exact emit_FamOK. Qed.
Print Assumptions C01_emit_FamOK.

(* ---- non-vacuity: the semilattice program with its emitted sub-rules ---- *)
Example C01_ex_hyps :
  wf_rules (fp_rules semi) /\ FamOK semi_src (fp_rules semi) /\ Reachable semi (st hist_cycle).
Proof.
  split; [exact semi_wf|]. split; [exact semi_FamOK|].
  apply run_reachable; [exact semi_wf | vm_compute; reflexivity].
Qed.

(* a <= b <= c, close, then c <= a: the second close returns within 40 iterations and the result passes
   the closedness test (everything collapses into one class) *)
Example C01_ex_closes :
  match exec_close_until 40 semi (fun _ => false) (st hist_cycle) with
  | Some (s', false) => closed_b semi_src s' && N.eqb (next_id s') 12
  | _ => false
  end = true.
Proof. vm_compute. reflexivity. Qed.

Example C01_ex_two_generators :
  iter_counts 40 semi (hist_two ++ [EClose]) = [Some 9%N] /\
  closed_b semi_src (st (hist_two ++ [EClose])) = true.
Proof. vm_compute. split; reflexivity. Qed.

(* and an open state is rejected by the test *)
Example C01_ex_not_closed : closed_b semi_src (st hist_cycle) = false.
Proof. vm_compute. reflexivity. Qed.
